/-
  Message-level abstract model of the multi-decree Paxos of
  /repo/hydro_test/src/cluster/paxos.rs (acceptor_p1, acceptor_p2, p_p1b,
  recommit_after_leader_election, sequence_payload).

  * ballots `B`: any linear order (the code: `Ballot {num, proposer_id}`, `impl Ord` = num then id);
  * values `V`: the code's `Option<P>` (holes are `None`) - just an arbitrary type here;
  * the network is the SET of messages sent so far; receiving is optional and repeatable, so
    loss, duplication and reordering are all allowed; a crashed (fail-stop) node takes no more steps;
  * leader election timing (heartbeats, timeouts, `p_ballot_calc`) is not safety relevant: any
    proposer may start phase 1 for any ballot at any time (`sendP1a`);
  * `Err(..)` replies carry no obligations and are not modelled (only `Ok` p1b / p2b replies);
  * `a_checkpoint` (log garbage collection) is NOT modelled: `a_checkpoint = None`.
-/
import Mathlib.Order.Defs.LinearOrder

namespace HvProto.Paxos

/-- acceptor: `a_max_ballot` and `a_log` -/
structure AccState (B V : Type) where
  /-- `p_to_acceptors_p1a … .across_ticks(|s| s.max())`: max of all p1a ballots ever received.
      NOT changed by p2a messages. -/
  maxBal : Option B
  /-- `a_log`: slot ↦ `LogValue {ballot, value}` -/
  log : Nat → Option (B × V)

inductive Msg (A B V : Type) where
  | p1a (b : B)
  /-- the `Ok(log)` p1b reply of acceptor `a` to ballot `b` -/
  | p1b (a : A) (b : B) (lg : Nat → Option (B × V))
  | p2a (b : B) (s : Nat) (v : V)
  /-- the `Ok(())` p2b reply of acceptor `a` for `(slot s, ballot b)` -/
  | p2b (a : A) (b : B) (s : Nat)

structure State (A B V : Type) where
  acc : A → AccState B V
  msgs : Msg A B V → Prop

/-- quorums: any family of acceptor sets that pairwise intersect
    (the code: `f + 1` out of `2 * f + 1`, see `majority` in Lemmas/PaxosSafety.lean) -/
structure QuorumSystem (A : Type) where
  isQ : (A → Prop) → Prop
  inter : ∀ Q₁ Q₂, isQ Q₁ → isQ Q₂ → ∃ a, Q₁ a ∧ Q₂ a

variable {A B V : Type} [LinearOrder B] [DecidableEq A]

/-- Rust `Some(b) >= m` on `Option<Ballot>` (`None < Some(_)`) -/
def geOpt (b : B) (m : Option B) : Prop := ∀ x, m = some x → x ≤ b

def init : State A B V :=
  { acc := fun _ => { maxBal := none, log := fun _ => none }, msgs := fun _ => False }

def addMsg (st : State A B V) (m : Msg A B V) : Msg A B V → Prop := fun x => x = m ∨ st.msgs x

def setAcc (st : State A B V) (a : A) (s : AccState B V) : A → AccState B V :=
  fun x => if x = a then s else st.acc x

/-- the fold of `acceptor_p2`:
    `if entry.ballot > prev_entry.ballot { *prev_entry = entry }` (empty slot: store) -/
def logPut (lg : Nat → Option (B × V)) (s : Nat) (b : B) (v : V) : Nat → Option (B × V) :=
  fun x => if x = s then
      (match lg s with
       | none => some (b, v)
       | some (β, w) => if β < b then some (b, v) else some (β, w))
    else lg x

inductive Step (qs : QuorumSystem A) : State A B V → State A B V → Prop where
  /-- `p_ballot.filter_if(p_trigger_election) … .broadcast(acceptors, …)` -/
  | sendP1a (st : State A B V) (b : B) :
      Step qs st { st with msgs := addMsg st (.p1a b) }
  /-- `acceptor_p1`: `a_max_ballot = max(..)`;
      `if Some(ballot) == max_ballot { Ok(log) } else { Err(max_ballot) }`.
      (`Some(b) == max(old, Some(b))` iff `Some(b) >= old`; otherwise nothing changes.) -/
  | recvP1a (st : State A B V) (a : A) (b : B) :
      st.msgs (.p1a b) → geOpt b (st.acc a).maxBal →
      Step qs st { acc := setAcc st a { maxBal := some b, log := (st.acc a).log },
                   msgs := addMsg st (.p1b a b (st.acc a).log) }
  /-- `sequence_payload` / `recommit_after_leader_election` / `index_payloads`: the proposer of `b`
      holds `Ok` p1bs of a quorum (`p_p1b`: `collect_quorum_with_response(.., f+1, 2f+1)`), and
      either no reported log has an entry at `s` (fresh payload above `p_max_slot`, or a hole filled
      with `None`), or `v` is the value of a highest-ballot reported entry (the fold keeps
      `new_entry.ballot > curr.ballot ⇒ value := new_entry.value`).
      Proposer discipline (assumption on `index_payloads`): one value per `(ballot, slot)`. -/
  | sendP2a (st : State A B V) (b : B) (s : Nat) (v : V) (Q : A → Prop)
      (lgs : A → Nat → Option (B × V)) :
      qs.isQ Q → (∀ a, Q a → st.msgs (.p1b a b (lgs a))) →
      ((∀ a, Q a → lgs a s = none) ∨
       (∃ a₀ β, Q a₀ ∧ lgs a₀ s = some (β, v) ∧ ∀ a β' w, Q a → lgs a s = some (β', w) → β' ≤ β)) →
      (∀ v', st.msgs (.p2a b s v') → v' = v) →
      Step qs st { st with msgs := addMsg st (.p2a b s v) }
  /-- `acceptor_p2`, ballot equal to the promised one:
      `if Some(&p2a.ballot) >= max_ballot.as_ref()` → log fold;
      `if Some(p2a.ballot) == max_ballot { Ok(()) }` → p2b. `max_ballot` is unchanged. -/
  | recvP2aVote (st : State A B V) (a : A) (b : B) (s : Nat) (v : V) :
      st.msgs (.p2a b s v) → (st.acc a).maxBal = some b →
      Step qs st { acc := setAcc st a { maxBal := (st.acc a).maxBal, log := logPut (st.acc a).log s b v },
                   msgs := addMsg st (.p2b a b s) }
  /-- `acceptor_p2`, ballot above the promised one: the entry is logged, the reply is `Err` -/
  | recvP2aLog (st : State A B V) (a : A) (b : B) (s : Nat) (v : V) :
      st.msgs (.p2a b s v) → geOpt b (st.acc a).maxBal →
      Step qs st { acc := setAcc st a { maxBal := (st.acc a).maxBal, log := logPut (st.acc a).log s b v },
                   msgs := st.msgs }

inductive Reachable (qs : QuorumSystem A) : State A B V → Prop where
  | init : Reachable qs init
  | step {st st'} : Reachable qs st → Step qs st st' → Reachable qs st'

/-- the proposer emits `(slot, value)` when `collect_quorum(a_to_proposers_p2b, f + 1, 2 * f + 1)`
    completes for key `(slot, ballot)` and joins it with the p2a it sent (`join_responses`) -/
def chosen (qs : QuorumSystem A) (st : State A B V) (b : B) (s : Nat) (v : V) : Prop :=
  st.msgs (.p2a b s v) ∧ ∃ Q, qs.isQ Q ∧ ∀ a, Q a → st.msgs (.p2b a b s)

end HvProto.Paxos
