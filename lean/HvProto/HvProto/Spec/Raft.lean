/-
  The distributed system built from `raftStep` (Model/Raft.lean = `raft_step` of
  /repo/hydro_test/src/cluster/raft.rs): `n` members, a network that is the SET of messages sent so
  far (delivery optional and repeatable: loss, duplication, reordering; a crashed member simply takes
  no more steps), and two granularities of transitions:

  * `MacroStep`: what the implementation does - one call of `raftStep` on any batch of messages that
    were sent to the member, any timer flags, any client requests (`raft_server`: one tick);
  * `MicroStep`: the phases of `raftStep` one at a time (one message, the requests, the election timer,
    commit advancement, the heartbeat, emission).  Every macro step is a finite sequence of micro steps
    (Lemmas/RaftRefine.lean), so invariants are proved on micro steps.

  `elected` is a ghost history variable: `(m, t)` is recorded whenever member `m` is leader of term `t`
  after a (micro) step.
-/
import HvProto.Model.Raft

namespace HvProto.Raft

structure Envelope where
  to : Nat
  frm : Nat
  rpc : Rpc

structure Sys where
  nodes : Nat → NodeState
  net : Envelope → Prop
  elected : Nat → Nat → Prop

/-- `other_members`: every member except `m` (`cluster_members.iter().filter(|member| *member != CLUSTER_SELF_ID)`) -/
def others (n m : Nat) : List Nat := (List.range n).filter (fun x => x != m)

def initSys : Sys :=
  { nodes := fun _ => {}, net := fun _ => False, elected := fun _ _ => False }

/-- member `m` moves to `st'` and sends `out` -/
def Sys.update (s : Sys) (m : Nat) (st' : NodeState) (out : List (Nat × Rpc)) : Sys :=
  { nodes := fun x => if x = m then st' else s.nodes x,
    net := fun e => s.net e ∨ (e.frm = m ∧ (e.to, e.rpc) ∈ out),
    elected := fun c t => s.elected c t ∨ (c = m ∧ st'.role = .leader ∧ st'.term = t) }

inductive MicroStep (n : Nat) : Sys → Sys → Prop where
  | deliver (s : Sys) (m sender : Nat) (rpc : Rpc) (st' : NodeState) (out : List (Nat × Rpc)) :
      m < n → s.net ⟨m, sender, rpc⟩ →
      handleMsg (others n m) (majority n) (s.nodes m) sender rpc = some (st', out) →
      MicroStep n s (s.update m st' out)
  | request (s : Sys) (m : Nat) (rs : List Nat) : m < n →
      MicroStep n s (s.update m (handleRequests (s.nodes m) [] rs).1 [])
  | timer (s : Sys) (m : Nat) : m < n →
      MicroStep n s (s.update m (electionTimer m (others n m) (majority n) true (s.nodes m)).1
                                (electionTimer m (others n m) (majority n) true (s.nodes m)).2)
  | advance (s : Sys) (m : Nat) : m < n →
      MicroStep n s (s.update m (advanceCommit (others n m) (majority n) (s.nodes m)) [])
  | heartbeat (s : Sys) (m : Nat) : m < n →
      MicroStep n s (s.update m (s.nodes m) (heartbeat m (others n m) true (s.nodes m)))
  | emit (s : Sys) (m : Nat) : m < n →
      MicroStep n s (s.update m (emit (s.nodes m)).1 [])

inductive MicroReach (n : Nat) : Sys → Prop where
  | init : MicroReach n initSys
  | step {s s'} : MicroReach n s → MicroStep n s s' → MicroReach n s'

/-- the `RaftStepInput` built by `raft_server` for member `m` of a cluster of `n` -/
def mkInput (n m : Nat) (el hb : Bool) (reqs : List Nat) (msgs : List (Nat × Rpc)) : StepInput :=
  { me := m, others := others n m, clusterSize := n, electionFired := el, heartbeatFired := hb,
    requests := reqs, messages := msgs }

/-- one call of `raft_step` by member `m` (one tick of `raft_server`) -/
inductive MacroStep (n : Nat) : Sys → Sys → Prop where
  | tick (s : Sys) (m : Nat) (el hb : Bool) (reqs : List Nat) (msgs : List (Nat × Rpc)) (r : StepResult) :
      m < n → (∀ sm ∈ msgs, s.net ⟨m, sm.1, sm.2⟩) →
      raftStep (s.nodes m) (mkInput n m el hb reqs msgs) = some r →
      MacroStep n s (s.update m r.st r.out.outbound)

/-- executions of the implementation: sequences of `raft_step` calls (any member, any batch of
    messages that were sent to it, any timers, any requests) -/
inductive Reach (n : Nat) : Sys → Prop where
  | init : Reach n initSys
  | step {s s'} : Reach n s → MacroStep n s s' → Reach n s'

end HvProto.Raft
