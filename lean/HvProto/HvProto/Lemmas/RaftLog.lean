/-
  Structural log invariants of the Raft system (ingredients of log matching / state machine safety):
  logs are index-consistent, AppendEntries segments are consecutive, commit ≤ log length,
  emitted ≤ commit, commit index never decreases.
-/
import HvProto.Lemmas.RaftRefine

namespace HvProto.Raft

/-- `log[i].index = i + 1` (the code relies on this when it indexes `state.log[entry.index - 1]`) -/
def LogWf (l : List Entry) : Prop := ∀ i e, l[i]? = some e → e.index = i + 1

/-- the entries of an `AppendEntries` are the positions `p+1, p+2, …` -/
def Consec (p : Nat) (es : List Entry) : Prop := ∀ k e, es[k]? = some e → e.index = p + k + 1

theorem aux_logwf_nil : LogWf [] := by intro i e h; simp at h

theorem aux_logwf_push (l : List Entry) (e : Entry) (h : LogWf l) (he : e.index = l.length + 1) :
    LogWf (l ++ [e]) := by
  intro i x hx
  by_cases hi : i < l.length
  · rw [List.getElem?_append_left hi] at hx; exact h i x hx
  · rw [List.getElem?_append_right (by omega)] at hx
    by_cases h0 : i - l.length = 0
    · rw [h0] at hx; simp at hx; subst hx; omega
    · have : ([e] : List Entry)[i - l.length]? = none := by
        apply List.getElem?_eq_none; simp; omega
      rw [this] at hx; cases hx

theorem aux_logwf_take (l : List Entry) (k : Nat) (h : LogWf l) : LogWf (l.take k) := by
  intro i x hx
  rw [List.getElem?_take] at hx
  split at hx
  · exact h i x hx
  · cases hx

theorem aux_consec_drop (l : List Entry) (p : Nat) (h : LogWf l) : Consec p (l.drop p) := by
  intro k e he
  rw [List.getElem?_drop] at he
  exact h _ e he

theorem aux_consec_tail (p : Nat) (e : Entry) (es : List Entry) (h : Consec p (e :: es)) :
    e.index = p + 1 ∧ Consec (p + 1) es := by
  refine ⟨by simpa using h 0 e (by simp), fun k x hx => ?_⟩
  have := h (k + 1) x (by simpa using hx)
  omega

theorem aux_appendLoop (es : List Entry) : ∀ (log : List Entry) (ci p : Nat) (log' : List Entry),
    LogWf log → Consec p es → p ≤ log.length → ci ≤ log.length →
    appendEntriesLoop log ci es = some log' →
    LogWf log' ∧ p + es.length ≤ log'.length ∧ ci ≤ log'.length := by
  induction es with
  | nil =>
    intro log ci p log' hw _ hp hc h
    simp only [appendEntriesLoop] at h
    injection h with h; subst h
    exact ⟨hw, by simpa using hp, hc⟩
  | cons e rest ih =>
    intro log ci p log' hw hcs hp hc h
    obtain ⟨he, hrest⟩ := aux_consec_tail p e rest hcs
    unfold appendEntriesLoop at h
    split at h
    · next hlen =>
      split at h
      · split at h
        · next hgt =>
          have hl : (List.take (e.index - 1) log ++ [e]).length = p + 1 := by
            simp [List.length_take]; omega
          have hw' : LogWf (List.take (e.index - 1) log ++ [e]) := by
            apply aux_logwf_push _ _ (aux_logwf_take _ _ hw)
            simp [List.length_take]; omega
          obtain ⟨a, b, c⟩ := ih _ ci (p + 1) log' hw' hrest (by omega) (by omega) h
          exact ⟨a, by simp at b ⊢; omega, c⟩
        · cases h
      · have hlen' : p + 1 ≤ log.length := by simp at hlen; omega
        obtain ⟨a, b, c⟩ := ih log ci (p + 1) log' hw hrest hlen' hc h
        exact ⟨a, by simp at b ⊢; omega, c⟩
    · next hlen =>
      have hl : log.length = p := by simp at hlen; omega
      have hw' : LogWf (log ++ [e]) := aux_logwf_push _ _ hw (by omega)
      obtain ⟨a, b, c⟩ := ih (log ++ [e]) ci (p + 1) log' hw' hrest (by simp; omega) (by simp; omega) h
      exact ⟨a, by simp at b ⊢; omega, c⟩

structure WInv (n : Nat) (s : Sys) : Prop where
  logWf : ∀ v, LogWf (s.nodes v).log
  aeWf : ∀ dst frm t l p pt es lc, s.net ⟨dst, frm, .appendEntries t l p pt es lc⟩ → Consec p es
  commitLe : ∀ v, (s.nodes v).commitIndex ≤ (s.nodes v).log.length
  emitLe : ∀ v, (s.nodes v).emittedIndex ≤ (s.nodes v).commitIndex

/-- the log-relevant footprint of a step of one member -/
structure LogFoot (st st' : NodeState) (out : List (Nat × Rpc)) : Prop where
  wf : LogWf st'.log
  commitLe : st'.commitIndex ≤ st'.log.length
  emitLe : st'.emittedIndex ≤ st'.commitIndex
  commitMono : st.commitIndex ≤ st'.commitIndex
  ae : ∀ x ∈ out, ∀ t l p pt es lc, x.2 = .appendEntries t l p pt es lc → Consec p es

theorem aux_winv_update (n m : Nat) (s : Sys) (hi : WInv n s) (st' : NodeState) (out : List (Nat × Rpc))
    (hf : LogFoot (s.nodes m) st' out) : WInv n (s.update m st' out) := by
  constructor
  · intro v; simp only [Sys.update]; by_cases hv : v = m
    · simp [hv]; exact hf.wf
    · simp [hv]; exact hi.logWf v
  · intro dst frm t l p pt es lc h
    rcases h with h | ⟨_, h⟩
    · exact hi.aeWf _ _ _ _ _ _ _ _ h
    · exact hf.ae _ h t l p pt es lc rfl
  · intro v; simp only [Sys.update]; by_cases hv : v = m
    · simp [hv]; exact hf.commitLe
    · simp [hv]; exact hi.commitLe v
  · intro v; simp only [Sys.update]; by_cases hv : v = m
    · simp [hv]; exact hf.emitLe
    · simp [hv]; exact hi.emitLe v

theorem aux_logfoot_same (st st' : NodeState) (out : List (Nat × Rpc))
    (hw : LogWf st.log) (hc : st.commitIndex ≤ st.log.length) (he : st.emittedIndex ≤ st.commitIndex)
    (h1 : st'.log = st.log) (h2 : st'.commitIndex = st.commitIndex) (h3 : st'.emittedIndex = st.emittedIndex)
    (h4 : ∀ x ∈ out, ∀ t l p pt es lc, x.2 = .appendEntries t l p pt es lc → Consec p es) :
    LogFoot st st' out :=
  ⟨by rw [h1]; exact hw, by rw [h1, h2]; exact hc, by rw [h2, h3]; exact he, by rw [h2], h4⟩

theorem aux_observeTerm_log (st : NodeState) (t : Nat) :
    (observeTerm st t).1.log = st.log ∧ (observeTerm st t).1.commitIndex = st.commitIndex ∧
    (observeTerm st t).1.emittedIndex = st.emittedIndex := by
  unfold observeTerm; split <;> simp

theorem aux_handleMsg_logfoot (oth : List Nat) (maj sender : Nat) (st st' : NodeState) (rpc : Rpc)
    (out : List (Nat × Rpc)) (hw : LogWf st.log) (hc : st.commitIndex ≤ st.log.length)
    (he : st.emittedIndex ≤ st.commitIndex)
    (hae : ∀ t l p pt es lc, rpc = .appendEntries t l p pt es lc → Consec p es)
    (h : handleMsg oth maj st sender rpc = some (st', out)) : LogFoot st st' out := by
  obtain ⟨o1, o2, o3⟩ := aux_observeTerm_log st (match rpc with
    | .requestVote t _ _ => t | .requestVoteResponse t => t
    | .appendEntries t _ _ _ _ _ => t | .appendEntriesReply t _ _ => t)
  cases rpc with
  | requestVote term lli llt =>
    simp only at o1 o2 o3
    simp only [handleMsg] at h
    split at h
    · injection h with h
      unfold onRequestVote at h; dsimp only at h
      split at h <;> (injection h with e1 e2; subst e1; subst e2)
      · exact aux_logfoot_same _ _ _ hw hc he o1 o2 o3 (by simp)
      · exact aux_logfoot_same _ _ _ hw hc he o1 o2 o3 (by simp)
    · injection h with h; injection h with e1 e2; subst e1; subst e2
      exact aux_logfoot_same _ _ _ hw hc he o1 o2 o3 (by simp)
  | requestVoteResponse term =>
    simp only at o1 o2 o3
    simp only [handleMsg] at h
    split at h
    · injection h with h
      unfold onVoteResponse at h
      split at h
      · dsimp only at h
        split at h <;> (injection h with e1 e2; subst e1; subst e2)
        · exact aux_logfoot_same _ _ _ hw hc he o1 o2 o3 (by simp)
        · exact aux_logfoot_same _ _ _ hw hc he o1 o2 o3 (by simp)
      · injection h with e1 e2; subst e1; subst e2
        exact aux_logfoot_same _ _ _ hw hc he o1 o2 o3 (by simp)
    · injection h with h; injection h with e1 e2; subst e1; subst e2
      exact aux_logfoot_same _ _ _ hw hc he o1 o2 o3 (by simp)
  | appendEntries term leader prev prevTerm entries leaderCommit =>
    simp only at o1 o2 o3
    have hcs : Consec prev entries := hae _ _ _ _ _ _ rfl
    simp only [handleMsg] at h
    split at h
    · unfold onAppendEntries at h
      split at h
      · cases h
      · split at h
        · injection h with h; injection h with e1 e2; subst e1; subst e2
          exact aux_logfoot_same _ _ _ hw hc he o1 o2 o3 (by simp)
        · next hlm =>
          split at h
          · cases h
          · next log' hloop =>
            injection h with h; injection h with e1 e2; subst e1; subst e2
            rw [o1, o2] at hloop
            have hp : prev ≤ st.log.length := by
              simp only [logMatches, o1] at hlm
              simp at hlm
              by_cases hp0 : prev = 0
              · omega
              · exact (hlm hp0).1
            obtain ⟨a, b, c⟩ := aux_appendLoop entries st.log st.commitIndex prev log' hw hcs hp hc hloop
            refine ⟨a, ?_, ?_, ?_, by simp⟩
            · simp only [aeStore, aeAccept, o2]
              split
              · have := Nat.min_le_right leaderCommit (prev + entries.length); omega
              · exact c
            · simp only [aeStore, aeAccept, o2, o3]
              split <;> omega
            · simp only [aeStore, aeAccept, o2]
              split <;> omega
    · injection h with h; injection h with e1 e2; subst e1; subst e2
      exact aux_logfoot_same _ _ _ hw hc he o1 o2 o3 (by simp)
  | appendEntriesReply term success matchIdx =>
    simp only at o1 o2 o3
    simp only [handleMsg] at h
    split at h
    · injection h with h
      unfold onAppendReply at h
      split at h
      · injection h with e1 e2; subst e1; subst e2
        exact aux_logfoot_same _ _ _ hw hc he o1 o2 o3 (by simp)
      · split at h
        · injection h with e1 e2; subst e1; subst e2
          exact aux_logfoot_same _ _ _ hw hc he o1 o2 o3 (by simp)
        · split at h <;> (injection h with e1 e2; subst e1; subst e2)
          · exact aux_logfoot_same _ _ _ hw hc he o1 o2 o3 (by simp)
          · exact aux_logfoot_same _ _ _ hw hc he o1 o2 o3 (by simp)
    · injection h with h; injection h with e1 e2; subst e1; subst e2
      exact aux_logfoot_same _ _ _ hw hc he o1 o2 o3 (by simp)

theorem aux_handleRequests_log (rs : List Nat) : ∀ (st : NodeState) (red : List (Nat × Option Nat)),
    LogWf st.log → st.commitIndex ≤ st.log.length →
    LogWf (handleRequests st red rs).1.log ∧
    (handleRequests st red rs).1.commitIndex = st.commitIndex ∧
    (handleRequests st red rs).1.emittedIndex = st.emittedIndex ∧
    st.commitIndex ≤ (handleRequests st red rs).1.log.length := by
  induction rs with
  | nil => intro st red hw hc; simp [handleRequests]; exact ⟨hw, hc⟩
  | cons r rs ih =>
    intro st red hw hc
    unfold handleRequests
    split
    · have hw' : LogWf (st.log ++ [{ msg := r, term := st.term, index := st.log.length + 1 }]) :=
        aux_logwf_push _ _ hw rfl
      obtain ⟨a, b, c, d⟩ := ih { st with log := st.log ++ [{ msg := r, term := st.term, index := st.log.length + 1 }] }
        red hw' (by simp; omega)
      exact ⟨a, b, c, d⟩
    · exact ih st _ hw hc

theorem aux_advanceLoop_bounds (st : NodeState) (oth : List Nat) (maj : Nat) (k : Nat) :
    st.commitIndex ≤ advanceLoop st oth maj k ∧ advanceLoop st oth maj k ≤ max st.commitIndex k := by
  induction k with
  | zero => simp [advanceLoop]
  | succ c ih =>
    unfold advanceLoop
    split
    · split
      · dsimp only
        split
        · omega
        · omega
      · omega
    · omega

theorem aux_emitLoop_log (k : Nat) : ∀ (st : NodeState) (acc : List Entry), st.emittedIndex ≤ st.commitIndex →
    (emitLoop st acc k).1.log = st.log ∧ (emitLoop st acc k).1.commitIndex = st.commitIndex ∧
    (emitLoop st acc k).1.emittedIndex ≤ st.commitIndex := by
  induction k with
  | zero => intro st acc h; simp [emitLoop]; exact h
  | succ k ih =>
    intro st acc h
    unfold emitLoop
    split
    · next hlt =>
      obtain ⟨a, b, c⟩ := ih { st with emittedIndex := st.emittedIndex + 1 }
        (acc ++ [entryAt st.log (st.emittedIndex + 1)]) (by simp; omega)
      exact ⟨a, b, c⟩
    · simp; exact h

theorem aux_winv_micro (n : Nat) (s s' : Sys) (hi : WInv n s) (h : MicroStep n s s') : WInv n s' := by
  cases h with
  | deliver m sender rpc st' out hm hnet hh =>
    refine aux_winv_update n m s hi st' out
      (aux_handleMsg_logfoot _ _ sender (s.nodes m) st' rpc out (hi.logWf m) (hi.commitLe m) (hi.emitLe m) ?_ hh)
    intro t l p pt es lc he
    subst he
    exact hi.aeWf _ _ _ _ _ _ _ _ hnet
  | request m rs hm =>
    obtain ⟨a, b, c, d⟩ := aux_handleRequests_log rs (s.nodes m) [] (hi.logWf m) (hi.commitLe m)
    refine aux_winv_update n m s hi _ [] ⟨a, by rw [b]; exact d, by rw [b, c]; exact hi.emitLe m, by rw [b], by simp⟩
  | timer m hm =>
    refine aux_winv_update n m s hi _ _ ?_
    have hsame : (electionTimer m (others n m) (majority n) true (s.nodes m)).1.log = (s.nodes m).log ∧
        (electionTimer m (others n m) (majority n) true (s.nodes m)).1.commitIndex = (s.nodes m).commitIndex ∧
        (electionTimer m (others n m) (majority n) true (s.nodes m)).1.emittedIndex = (s.nodes m).emittedIndex ∧
        ∀ x ∈ (electionTimer m (others n m) (majority n) true (s.nodes m)).2,
          ∀ t l p pt es lc, x.2 = .appendEntries t l p pt es lc → Consec p es := by
      unfold electionTimer
      split
      · split
        · simp
        · dsimp only
          split
          · simp [becomeLeader]
          · refine ⟨rfl, rfl, rfl, ?_⟩
            intro x hx t l p pt es lc he
            simp at hx; obtain ⟨a, _, rfl⟩ := hx; simp at he
      · simp
    obtain ⟨a, b, c, d⟩ := hsame
    exact aux_logfoot_same _ _ _ (hi.logWf m) (hi.commitLe m) (hi.emitLe m) a b c d
  | advance m hm =>
    refine aux_winv_update n m s hi _ [] ?_
    unfold advanceCommit
    split
    · obtain ⟨lo, hi'⟩ := aux_advanceLoop_bounds (s.nodes m) (others n m) (majority n) (s.nodes m).log.length
      have hc := hi.commitLe m
      have he := hi.emitLe m
      refine ⟨hi.logWf m, ?_, ?_, lo, by simp⟩
      · simp only; omega
      · simp only; omega
    · exact aux_logfoot_same _ _ _ (hi.logWf m) (hi.commitLe m) (hi.emitLe m) rfl rfl rfl (by simp)
  | heartbeat m hm =>
    refine aux_winv_update n m s hi _ _ ?_
    refine aux_logfoot_same _ _ _ (hi.logWf m) (hi.commitLe m) (hi.emitLe m) rfl rfl rfl ?_
    intro x hx t l p pt es lc he
    unfold heartbeat at hx
    split at hx
    · simp at hx
      obtain ⟨f, _, rfl⟩ := hx
      simp at he
      obtain ⟨_, _, e3, _, e5, _⟩ := he
      subst e3; subst e5
      exact aux_consec_drop _ _ (hi.logWf m)
    · simp at hx
  | emit m hm =>
    refine aux_winv_update n m s hi _ [] ?_
    obtain ⟨a, b, c⟩ := aux_emitLoop_log ((s.nodes m).commitIndex - (s.nodes m).emittedIndex) (s.nodes m) []
      (hi.emitLe m)
    unfold emit
    exact ⟨by rw [a]; exact hi.logWf m, by rw [a, b]; exact hi.commitLe m, by rw [b]; exact c, by rw [b], by simp⟩

theorem aux_winv_init (n : Nat) : WInv n initSys := by
  constructor
  · intro v; exact aux_logwf_nil
  · intro dst frm t l p pt es lc h; cases h
  · intro v; simp [initSys]
  · intro v; simp [initSys]

theorem aux_winv_microReach (n : Nat) (s : Sys) (h : MicroReach n s) : WInv n s := by
  induction h with
  | init => exact aux_winv_init n
  | step _ hs ih => exact aux_winv_micro n _ _ ih hs

/-- the structural log invariants hold in every state reached by `raft_step` calls -/
theorem aux_winv_reach (n : Nat) (s : Sys) (h : Reach n s) : WInv n s := by
  obtain ⟨sm, hrm, hn, hnet, _⟩ := aux_reach_sim n s h
  have hw := aux_winv_microReach n sm hrm
  constructor
  · intro v; rw [hn]; exact hw.logWf v
  · intro dst frm t l p pt es lc hh; rw [hnet] at hh; exact hw.aeWf _ _ _ _ _ _ _ _ hh
  · intro v; rw [hn]; exact hw.commitLe v
  · intro v; rw [hn]; exact hw.emitLe v

end HvProto.Raft
