/-
  Commit provenance for the system of Spec/Raft.lean, and the reduction of committed-prefix agreement
  (state machine safety) to leader completeness.

  Ghost state (canonical, see `GReach`): for every term `u`
    * `tl u` - the log of the leader of term `u` as of the last state in which it was leader (the "term log"
      of Lemmas/RaftMatch.lean),
    * `cm u` - the `commit_index` of the leader of term `u` as of the last state in which it was leader.
  `CInv`: every member's committed prefix is a prefix of some term log `tl t` and not longer than `cm t`
  (it was adopted from an `AppendEntries` of the leader of term `t`, or the member is that leader); the
  truncation guard of the append loop never touches it.
-/
import HvProto.Lemmas.RaftMatch

namespace HvProto.Raft

/-! ### two more facts about the append loop -/

/-- the truncation guard (`entry.index > state.commit_index`, else `assert!`): the committed prefix
    survives the append loop -/
theorem aux_appendLoop_keep (es : List Entry) : ∀ (L : List Entry) (ci : Nat) (L' : List Entry),
    ci ≤ L.length → appendEntriesLoop L ci es = some L' → L'.take ci = L.take ci := by
  induction es with
  | nil => intro L ci L' _ h; simp only [appendEntriesLoop] at h; injection h with h; subst h; rfl
  | cons e rest ih =>
    intro L ci L' hc h
    unfold appendEntriesLoop at h
    split at h
    · next hlen =>
      split at h
      · split at h
        · next hgt =>
          have h1 : (List.take (e.index - 1) L ++ [e]).take ci = L.take ci := by
            rw [List.take_append_of_le_length (by simp [List.length_take]; omega), List.take_take]
            congr 1; omega
          rw [ih _ ci L' (by simp [List.length_take]; omega) h, h1]
        · cases h
      · exact ih L ci L' hc h
    · have h1 : (L ++ [e]).take ci = L.take ci := List.take_append_of_le_length hc
      rw [ih _ ci L' (by simp; omega) h, h1]

/-- after the append loop the log coincides with the leader's term log `X` up to `prev + entries.len()`
    (the `match_index` the follower reports) -/
theorem aux_appendLoop_prefix (tl : Nat → List Entry) (X : List Entry) (hX : Agree tl X) (es : List Entry) :
    ∀ (L : List Entry) (ci p : Nat) (L' : List Entry),
    Agree tl L → LogWf L → Consec p es → p ≤ L.length → L.take p = X.take p →
    X.take p ++ es = X.take (p + es.length) →
    appendEntriesLoop L ci es = some L' → L'.take (p + es.length) = X.take (p + es.length) := by
  induction es with
  | nil =>
    intro L ci p L' _ _ _ _ hLX _ h
    simp only [appendEntriesLoop] at h
    injection h with h; subst h; simpa using hLX
  | cons e rest ih =>
    intro L ci p L' hA hw hcs hp hLX hseg h
    obtain ⟨he, hrest⟩ := aux_consec_tail p e rest hcs
    have hlen : p + (rest.length + 1) ≤ X.length := by
      have := congrArg List.length hseg
      simp [List.length_take] at this
      omega
    have hXp : X[p]? = some e := by
      have h1 : (X.take p ++ e :: rest)[p]? = some e := by
        rw [List.getElem?_append_right (by simp [List.length_take])]
        have : min p X.length = p := by omega
        simp [List.length_take, this]
      rw [hseg, List.getElem?_take] at h1
      simpa [show p < p + (e :: rest).length by simp] using h1
    have hXsucc : X.take (p + 1) = X.take p ++ [e] := aux_take_succ_of_get X p e hXp
    have hseg' : X.take (p + 1) ++ rest = X.take (p + 1 + rest.length) := by
      rw [hXsucc, List.append_assoc]
      simpa [Nat.add_assoc, Nat.add_comm 1] using hseg
    have harith : p + (e :: rest).length = p + 1 + rest.length := by simp; omega
    rw [harith]
    unfold appendEntriesLoop at h
    split at h
    · next hlenL =>
      split at h
      · split at h
        · have hL1 : List.take (e.index - 1) L ++ [e] = X.take (p + 1) := by
            rw [hXsucc, he]; simp [hLX]
          rw [hL1] at h
          refine ih (X.take (p + 1)) ci (p + 1) L' (aux_agree_take tl X _ hX) ?_ hrest ?_ ?_ hseg' h
          · rw [← hL1]; apply aux_logwf_push _ _ (aux_logwf_take _ _ hw); simp [List.length_take]; omega
          · simp [List.length_take]; omega
          · simp
        · cases h
      · next hsame =>
        have hLp : ∃ e', L[p]? = some e' := by
          have : p < L.length := by simp at hlenL; omega
          exact ⟨L[p], by simp [this]⟩
        obtain ⟨e', he'⟩ := hLp
        have hterm : e'.term = e.term := by
          simp [entryAt, he, he'] at hsame
          exact hsame
        have h1 := hA p e' he'
        have h2 := hX p e hXp
        rw [hterm] at h1
        have hLX' : L.take (p + 1) = X.take (p + 1) := by rw [← h1, h2]
        have hp' : p + 1 ≤ L.length := by simp at hlenL; omega
        exact ih L ci (p + 1) L' hA hw hrest hp' hLX' hseg' h
    · next hlenL =>
      have hl : L.length = p := by simp at hlenL; omega
      have hL1 : L ++ [e] = X.take (p + 1) := by
        rw [hXsucc, ← hLX, ← hl]; simp
      rw [hL1] at h
      refine ih (X.take (p + 1)) ci (p + 1) L' (aux_agree_take tl X _ hX) ?_ hrest ?_ ?_ hseg' h
      · rw [← hL1]; exact aux_logwf_push _ _ hw (by omega)
      · simp [List.length_take]; omega
      · simp

/-- an accepted `AppendEntries` of term `t` leaves the follower's log equal to the term log of `t` up to
    the reported match index -/
theorem aux_ae_prefix (n m sender : Nat) (s : Sys) (tl : Nat → List Entry) (hi : TInv n s tl) (hw : WInv n s)
    (t l p pt : Nat) (es : List Entry) (lc : Nat) (L' : List Entry)
    (hnet : s.net ⟨m, sender, .appendEntries t l p pt es lc⟩)
    (hlm : logMatches (s.nodes m).log p pt = true)
    (hloop : appendEntriesLoop (s.nodes m).log (s.nodes m).commitIndex es = some L') :
    L'.take (p + es.length) = (tl t).take (p + es.length) := by
  obtain ⟨hok, _⟩ := hi.aeC _ _ _ _ _ _ _ _ hnet
  have hlm' : p = 0 ∨ (p ≤ (s.nodes m).log.length ∧ (entryAt (s.nodes m).log p).term = pt) := by
    simp only [logMatches] at hlm
    simp at hlm
    rcases hlm with hz | ⟨hz1, hz2⟩
    · exact Or.inl hz
    · exact Or.inr ⟨hz1, hz2⟩
  rcases hok with ⟨h0, hp0, _⟩ | ⟨hpX, hseg, hprev⟩
  · rcases hlm' with hz | ⟨hl1, hl2⟩
    · exact absurd hz hp0
    · have hget := aux_entryAt_get _ p hp0 hl1
      have := (hi.pos m _ (List.mem_of_getElem? hget)).1
      rw [hl2, h0] at this; omega
  · have hp : p ≤ (s.nodes m).log.length := by
      rcases hlm' with hz | ⟨hl1, _⟩
      · omega
      · exact hl1
    have hLX : (s.nodes m).log.take p = (tl t).take p := by
      by_cases hp0 : p = 0
      · subst hp0; simp
      · rcases hlm' with hz | ⟨hl1, hl2⟩
        · exact absurd hz hp0
        · have hget := aux_entryAt_get _ p hp0 hl1
          rcases hprev with hz | ⟨e2, hx2, ht2⟩
          · exact absurd hz hp0
          · have a1 := hi.nodeB m (p - 1) _ hget
            have a2 := hi.tlB t (p - 1) e2 hx2
            have hpp : p - 1 + 1 = p := by omega
            rw [hpp] at a1 a2
            rw [hl2] at a1
            rw [ht2] at a2
            rw [← a1, a2]
    exact aux_appendLoop_prefix tl (tl t) (hi.tlB t) es _ _ p _ (hi.nodeB m) (hw.logWf m)
      (hw.aeWf _ _ _ _ _ _ _ _ hnet) hp hLX hseg hloop

/-- how one message changes the log and the commit index: not at all, or by the append loop and the
    `min(leader_commit, new_match)` rule of a current-term `AppendEntries` -/
theorem aux_handleMsg_cshape (oth : List Nat) (maj sender : Nat) (st st' : NodeState) (rpc : Rpc)
    (out : List (Nat × Rpc)) (h : handleMsg oth maj st sender rpc = some (st', out)) :
    (∀ x ∈ out, ∀ t l p pt es lc, x.2 ≠ .appendEntries t l p pt es lc) ∧
    ((st'.log = st.log ∧ st'.commitIndex = st.commitIndex) ∨
      ∃ t l p pt es lc, rpc = .appendEntries t l p pt es lc ∧ t = st'.term ∧ st'.role = .follower ∧
        logMatches st.log p pt = true ∧ appendEntriesLoop st.log st.commitIndex es = some st'.log ∧
        st'.commitIndex = (if min lc (p + es.length) > st.commitIndex then min lc (p + es.length)
                           else st.commitIndex)) := by
  obtain ⟨o1, o2, _⟩ := aux_observeTerm_log st (match rpc with
    | .requestVote t _ _ => t | .requestVoteResponse t => t
    | .appendEntries t _ _ _ _ _ => t | .appendEntriesReply t _ _ => t)
  cases rpc with
  | requestVote term lli llt =>
    simp only at o1 o2
    simp only [handleMsg] at h
    split at h
    · injection h with h
      unfold onRequestVote at h; dsimp only at h
      split at h <;> (injection h with e1 e2; subst e1; subst e2; exact ⟨by simp, Or.inl ⟨o1, o2⟩⟩)
    · injection h with h; injection h with e1 e2; subst e1; subst e2; exact ⟨by simp, Or.inl ⟨o1, o2⟩⟩
  | requestVoteResponse term =>
    simp only at o1 o2
    simp only [handleMsg] at h
    split at h
    · injection h with h
      unfold onVoteResponse at h
      split at h
      · dsimp only at h
        split at h <;> (injection h with e1 e2; subst e1; subst e2; exact ⟨by simp, Or.inl ⟨o1, o2⟩⟩)
      · injection h with e1 e2; subst e1; subst e2; exact ⟨by simp, Or.inl ⟨o1, o2⟩⟩
    · injection h with h; injection h with e1 e2; subst e1; subst e2; exact ⟨by simp, Or.inl ⟨o1, o2⟩⟩
  | appendEntries term leader prev prevTerm entries leaderCommit =>
    simp only at o1 o2
    simp only [handleMsg] at h
    split at h
    · next hcur =>
      have hterm : term = (observeTerm st term).1.term := by
        rcases aux_observeTerm st term with ⟨h1, _, h4⟩ | ⟨_, _, h4, _⟩
        · rw [h1]; exact h4.1 hcur
        · exact h4.symm
      unfold onAppendEntries at h
      split at h
      · cases h
      · next hnl =>
        have hrole : ∀ l, (aeAccept (observeTerm st term).1 l).role = .follower := by
          intro l; unfold aeAccept
          by_cases hr : (observeTerm st term).1.role = .candidate
          · simp [hr]
          · have : ((observeTerm st term).1.role == Role.candidate) = false := by simpa using hr
            simp only [this]
            have hnl' : (observeTerm st term).1.role ≠ .leader := by simpa using hnl
            cases hrr : (observeTerm st term).1.role with
            | follower => rfl
            | candidate => exact absurd hrr hr
            | leader => exact absurd hrr hnl'
        split at h
        · injection h with h; injection h with e1 e2; subst e1; subst e2
          exact ⟨by simp, Or.inl ⟨o1, o2⟩⟩
        · next hlm =>
          split at h
          · cases h
          · next log' hloop =>
            injection h with h; injection h with e1 e2; subst e1; subst e2
            refine ⟨by simp, Or.inr ⟨term, leader, prev, prevTerm, entries, leaderCommit, rfl, hterm, hrole leader, ?_, ?_, ?_⟩⟩
            · rw [← o1]; simpa using hlm
            · rw [← o1, ← o2]; exact hloop
            · simp only [aeStore, aeAccept, o2]
    · injection h with h; injection h with e1 e2; subst e1; subst e2; exact ⟨by simp, Or.inl ⟨o1, o2⟩⟩
  | appendEntriesReply term success matchIdx =>
    simp only at o1 o2
    simp only [handleMsg] at h
    split at h
    · injection h with h
      unfold onAppendReply at h
      split at h
      · injection h with e1 e2; subst e1; subst e2; exact ⟨by simp, Or.inl ⟨o1, o2⟩⟩
      · split at h
        · injection h with e1 e2; subst e1; subst e2; exact ⟨by simp, Or.inl ⟨o1, o2⟩⟩
        · split at h <;> (injection h with e1 e2; subst e1; subst e2; exact ⟨by simp, Or.inl ⟨o1, o2⟩⟩)
    · injection h with h; injection h with e1 e2; subst e1; subst e2; exact ⟨by simp, Or.inl ⟨o1, o2⟩⟩


/-! ### the commit-relevant footprint of a micro step -/

structure CFoot (n : Nat) (s : Sys) (m : Nat) (st' : NodeState) (out : List (Nat × Rpc)) : Prop where
  /-- a leader after the step was the leader of the same term before, or it just won a term nobody had won -/
  lead : st'.role = .leader →
      ((s.nodes m).role = .leader ∧ st'.term = (s.nodes m).term) ∨ (∀ c, ¬ s.elected c st'.term)
  /-- `commit_index` never decreases -/
  cmono : (s.nodes m).commitIndex ≤ st'.commitIndex
  /-- the committed prefix is never retracted -/
  keep : st'.log.take (s.nodes m).commitIndex = (s.nodes m).log.take (s.nodes m).commitIndex
  /-- a non-leader changes `(log, commit_index)` only by accepting a current-term `AppendEntries` -/
  foll : st'.role ≠ .leader →
      (st'.log = (s.nodes m).log ∧ st'.commitIndex = (s.nodes m).commitIndex) ∨
      (∃ sender t l p pt es lc, s.net ⟨m, sender, .appendEntries t l p pt es lc⟩ ∧ t = st'.term ∧
        logMatches (s.nodes m).log p pt = true ∧
        appendEntriesLoop (s.nodes m).log (s.nodes m).commitIndex es = some st'.log ∧
        st'.commitIndex = (if min lc (p + es.length) > (s.nodes m).commitIndex then min lc (p + es.length)
                           else (s.nodes m).commitIndex))
  /-- `AppendEntries` are sent by leaders and carry their `commit_index` -/
  ae : ∀ x ∈ out, ∀ t l p pt es lc, x.2 = .appendEntries t l p pt es lc →
      st'.role = .leader ∧ t = st'.term ∧ lc = st'.commitIndex
  /-- terms never decrease -/
  tmono : (s.nodes m).term ≤ st'.term

theorem aux_lead_of_eff (n m : Nat) (s : Sys) (tl : Nat → List Entry) (hi : TInv n s tl) (he : EInv n s)
    (st' : NodeState) (out : List (Nat × Rpc)) (he' : EInv n (s.update m st' out))
    (heff : ElecEff n m s.net (s.nodes m) st' out) (hr : st'.role = .leader) :
    ((s.nodes m).role = .leader ∧ st'.term = (s.nodes m).term) ∨ (∀ c, ¬ s.elected c st'.term) := by
  rcases aux_eff_facts n m s.net (s.nodes m) st' out heff (hi.nfPos m) with ⟨hr', hc⟩ | ⟨_, f2, _, _⟩
  · exact Or.inr (aux_none_elected n m s tl hi he st' out he' hr' hc)
  · exact Or.inl (f2 hr)

theorem aux_cfoot_micro (n : Nat) (s s' : Sys) (tl : Nat → List Entry) (hi : TInv n s tl) (he : EInv n s)
    (hw : WInv n s) (h : MicroStep n s s') :
    ∃ m st' out, s' = s.update m st' out ∧ CFoot n s m st' out := by
  have he' : EInv n s' := aux_einv_micro n s s' he h
  have tm : ∀ m st' out, m < n → ElecEff n m s.net (s.nodes m) st' out → (s.nodes m).term ≤ st'.term :=
    fun m st' out hm h => (aux_foot_of_eff n m s he hm st' out h).termMono
  cases h with
  | deliver m sender rpc st' out hm hnet hh =>
    refine ⟨m, st', out, rfl, ?_⟩
    obtain ⟨w1, w2, w3⟩ := he.wfNet _ hnet
    simp only at w1 w2 w3
    have heff := aux_handleMsg_eff n m sender s.net (s.nodes m) st' rpc out (Ne.symm w3) hnet hh
    obtain ⟨hnoae, hsh⟩ := aux_handleMsg_cshape _ _ _ _ _ _ _ hh
    have hfoot := aux_handleMsg_logfoot _ _ sender (s.nodes m) st' rpc out (hw.logWf m) (hw.commitLe m)
      (hw.emitLe m) (by intro t l p pt es lc hrpc; subst hrpc; exact hw.aeWf _ _ _ _ _ _ _ _ hnet) hh
    refine ⟨aux_lead_of_eff n m s tl hi he st' out he' heff, hfoot.commitMono, ?_, ?_, ?_, tm m st' out hm heff⟩
    · rcases hsh with ⟨hl, _⟩ | ⟨t, l, p, pt, es, lc, _, _, _, _, hloop, _⟩
      · rw [hl]
      · exact aux_appendLoop_keep es _ _ _ (hw.commitLe m) hloop
    · intro _
      rcases hsh with hl | ⟨t, l, p, pt, es, lc, hrpc, ht, _, hlm, hloop, hci⟩
      · exact Or.inl hl
      · subst hrpc
        exact Or.inr ⟨sender, t, l, p, pt, es, lc, hnet, ht, hlm, hloop, hci⟩
    · intro x hx t l p pt es lc hxe
      exact absurd hxe (hnoae x hx t l p pt es lc)
  | request m rs hm =>
    refine ⟨m, _, _, rfl, ?_⟩
    obtain ⟨a, b, c, d⟩ := aux_handleRequests_elec (s.nodes m) [] rs
    obtain ⟨_, b', _, _⟩ := aux_handleRequests_log rs (s.nodes m) [] (hw.logWf m) (hw.commitLe m)
    obtain ⟨hnl, hl⟩ := aux_handleRequests_shape rs (s.nodes m) []
    refine ⟨aux_lead_of_eff n m s tl hi he _ [] he' (.same a b c d (by simp)), by rw [b'], ?_, ?_, by simp,
      tm m _ [] hm (.same a b c d (by simp))⟩
    · by_cases hr : (s.nodes m).role = .leader
      · obtain ⟨_, _, ext, hext, _⟩ := hl hr
        rw [hext, List.take_append_of_le_length (hw.commitLe m)]
      · rw [hnl hr]
    · intro hr
      have : (s.nodes m).role ≠ .leader := by rw [← c]; exact hr
      rw [hnl this]; exact Or.inl ⟨rfl, rfl⟩
  | timer m hm =>
    refine ⟨m, _, _, rfl, ?_⟩
    obtain ⟨heff, _⟩ := aux_electionTimer_eff n m s.net (s.nodes m)
    obtain ⟨hlog, hnoae⟩ := aux_electionTimer_log m (others n m) (majority n) (s.nodes m)
    have hci : (electionTimer m (others n m) (majority n) true (s.nodes m)).1.commitIndex = (s.nodes m).commitIndex := by
      unfold electionTimer
      split
      · split
        · simp
        · dsimp only
          split
          · simp [becomeLeader]
          · rfl
      · simp
    refine ⟨aux_lead_of_eff n m s tl hi he _ _ he' heff, by rw [hci], by rw [hlog], fun _ => Or.inl ⟨hlog, hci⟩, ?_,
      tm m _ _ hm heff⟩
    intro x hx t l p pt es lc hxe
    exact absurd hxe (hnoae x hx t l p pt es lc)
  | advance m hm =>
    refine ⟨m, _, _, rfl, ?_⟩
    obtain ⟨a, b, c, d⟩ := aux_advanceCommit_elec (others n m) (majority n) (s.nodes m)
    have hlog : (advanceCommit (others n m) (majority n) (s.nodes m)).log = (s.nodes m).log := by
      unfold advanceCommit; split <;> rfl
    refine ⟨aux_lead_of_eff n m s tl hi he _ [] he' (.same a b c d (by simp)), ?_, by rw [hlog], ?_, by simp,
      tm m _ [] hm (.same a b c d (by simp))⟩
    · unfold advanceCommit
      split
      · exact (aux_advanceLoop_bounds (s.nodes m) (others n m) (majority n) (s.nodes m).log.length).1
      · exact le_refl _
    · intro hr
      have hr' : (s.nodes m).role ≠ .leader := by rw [← c]; exact hr
      have : advanceCommit (others n m) (majority n) (s.nodes m) = s.nodes m := by
        unfold advanceCommit; simp [hr']
      rw [this]; exact Or.inl ⟨rfl, rfl⟩
  | heartbeat m hm =>
    refine ⟨m, _, _, rfl, ?_⟩
    obtain ⟨h1, _⟩ := aux_heartbeat_targets n m (s.nodes m)
    refine ⟨aux_lead_of_eff n m s tl hi he _ _ he' (.same rfl rfl rfl rfl h1), le_refl _, rfl,
      fun _ => Or.inl ⟨rfl, rfl⟩, ?_, le_refl _⟩
    intro x hx t l p pt es lc hxe
    unfold heartbeat at hx
    split at hx
    · next hcond =>
      have hlead : (s.nodes m).role = .leader := by simpa using hcond
      simp at hx
      obtain ⟨f, _, rfl⟩ := hx
      simp at hxe
      obtain ⟨e1, _, _, _, _, e6⟩ := hxe
      exact ⟨hlead, e1.symm, e6.symm⟩
    · simp at hx
  | emit m hm =>
    refine ⟨m, _, _, rfl, ?_⟩
    obtain ⟨a, b, c, d⟩ := aux_emitLoop_elec (s.nodes m) [] ((s.nodes m).commitIndex - (s.nodes m).emittedIndex)
    obtain ⟨hlog, hci, _⟩ := aux_emitLoop_log ((s.nodes m).commitIndex - (s.nodes m).emittedIndex) (s.nodes m) []
      (hw.emitLe m)
    unfold emit
    exact ⟨aux_lead_of_eff n m s tl hi he _ [] he' (.same a b c d (by simp)), by rw [hci], by rw [hlog],
      fun _ => Or.inl ⟨hlog, hci⟩, by simp, by rw [a]⟩

/-! ### the ghost-instrumented executions -/

/-- `tl' u` is the log of the current leader of term `u` if there is one, and `tl u` otherwise -/
def TlNext (s' : Sys) (tl tl' : Nat → List Entry) : Prop :=
  (∀ c, (s'.nodes c).role = .leader → tl' (s'.nodes c).term = (s'.nodes c).log) ∧ TlKeep s' tl tl'

/-- `cm' u` is the `commit_index` of the current leader of term `u` if there is one, and `cm u` otherwise -/
def CmNext (s' : Sys) (cm cm' : Nat → Nat) : Prop :=
  (∀ c, (s'.nodes c).role = .leader → cm' (s'.nodes c).term = (s'.nodes c).commitIndex) ∧
  (∀ u, (∀ c, (s'.nodes c).role = .leader → (s'.nodes c).term ≠ u) → cm' u = cm u)

/-- micro-step executions together with the two history variables `tl` (per-term leader log) and `cm`
    (per-term leader commit index); the history variables are determined by the execution -/
inductive GReach (n : Nat) : Sys → (Nat → List Entry) → (Nat → Nat) → Prop where
  | init : GReach n initSys (fun _ => []) (fun _ => 0)
  | step {s s' tl tl' cm cm'} : GReach n s tl cm → MicroStep n s s' → TlNext s' tl tl' → CmNext s' cm cm' →
      GReach n s' tl' cm'

structure CInv (n : Nat) (s : Sys) (tl : Nat → List Entry) (cm : Nat → Nat) : Prop where
  leaderCm : ∀ c, (s.nodes c).role = .leader → cm (s.nodes c).term = (s.nodes c).commitIndex
  cmLe : ∀ u, cm u ≤ (tl u).length
  cmZero : ∀ u, (∀ c, ¬ s.elected c u) → cm u = 0
  aeLc : ∀ dst frm t l p pt es lc, s.net ⟨dst, frm, .appendEntries t l p pt es lc⟩ → lc ≤ cm t
  /-- commit provenance: the committed prefix of `v` is a prefix of the term log of some term `t` whose leader
      had committed at least as much -/
  nodeC : ∀ v, ∃ t, t ≤ (s.nodes v).term ∧ ((∃ c, s.elected c t) ∨ (s.nodes v).commitIndex = 0) ∧
      (s.nodes v).commitIndex ≤ cm t ∧
      (s.nodes v).log.take (s.nodes v).commitIndex = (tl t).take (s.nodes v).commitIndex

theorem aux_cinv_init (n : Nat) : CInv n initSys (fun _ => []) (fun _ => 0) := by
  constructor
  · intro c hr; simp [initSys] at hr
  · intro u; simp
  · intro u _; rfl
  · intro dst frm t l p pt es lc h; cases h
  · intro v; exact ⟨0, Nat.zero_le _, Or.inr (by simp [initSys]), by simp [initSys], by simp [initSys]⟩

theorem aux_cinv_step (n m : Nat) (s : Sys) (st' : NodeState) (out : List (Nat × Rpc))
    (tl tl' : Nat → List Entry) (cm cm' : Nat → Nat)
    (hi : TInv n s tl) (hi' : TInv n (s.update m st' out) tl') (he' : EInv n (s.update m st' out))
    (hw : WInv n s) (hw' : WInv n (s.update m st' out)) (hc : CInv n s tl cm) (hf : CFoot n s m st' out)
    (hk : TlKeep (s.update m st' out) tl tl') (hmono : TlMono s tl tl')
    (hcm : CmNext (s.update m st' out) cm cm') :
    CInv n (s.update m st' out) tl' cm' := by
  have hnode_m : (s.update m st' out).nodes m = st' := by simp [Sys.update]
  have hnode_ne : ∀ x, x ≠ m → (s.update m st' out).nodes x = s.nodes x := by
    intro x hx; simp [Sys.update, hx]
  have hel : ∀ c t, s.elected c t → (s.update m st' out).elected c t := fun c t h => Or.inl h
  have hcmMono : ∀ u, cm u ≤ cm' u := by
    intro u
    by_cases hex : ∃ c, ((s.update m st' out).nodes c).role = .leader ∧ ((s.update m st' out).nodes c).term = u
    · obtain ⟨c, hr, ht⟩ := hex
      have h1 := hcm.1 c hr
      rw [ht] at h1
      rw [h1]
      by_cases hcm' : c = m
      · subst hcm'
        rw [hnode_m] at hr ht ⊢
        rcases hf.lead hr with ⟨hl, hterm⟩ | hnone
        · have := hc.leaderCm c hl
          rw [← hterm, ht] at this
          rw [this]; exact hf.cmono
        · rw [ht] at hnone
          rw [hc.cmZero u hnone]; omega
      · rw [hnode_ne c hcm'] at hr ht ⊢
        have := hc.leaderCm c hr
        rw [ht] at this
        omega
    · have : ∀ c, ((s.update m st' out).nodes c).role = .leader → ((s.update m st' out).nodes c).term ≠ u :=
        fun c hr ht => hex ⟨c, hr, ht⟩
      rw [hcm.2 u this]
  have transfer : ∀ (L : List Entry) (ci t : Nat), ((∃ c, s.elected c t) ∨ ci = 0) → ci ≤ cm t →
      L.take ci = (tl t).take ci →
      ((∃ c, (s.update m st' out).elected c t) ∨ ci = 0) ∧ ci ≤ cm' t ∧ L.take ci = (tl' t).take ci := by
    intro L ci t h1 h2 h3
    refine ⟨?_, le_trans h2 (hcmMono t), ?_⟩
    · rcases h1 with ⟨c, hc'⟩ | h0
      · exact Or.inl ⟨c, hel c t hc'⟩
      · exact Or.inr h0
    · rcases h1 with hex | h0
      · obtain ⟨ext, hext, _⟩ := hmono t hex
        rw [hext, List.take_append_of_le_length (le_trans h2 (hc.cmLe t))]
        exact h3
      · subst h0; simp
  constructor
  · exact hcm.1
  · intro u
    by_cases hex : ∃ c, ((s.update m st' out).nodes c).role = .leader ∧ ((s.update m st' out).nodes c).term = u
    · obtain ⟨c, hr, ht⟩ := hex
      have h1 := hcm.1 c hr
      have h2 := hi'.leaderLog c hr
      rw [ht] at h1 h2
      rw [h1, h2]; exact hw'.commitLe c
    · have : ∀ c, ((s.update m st' out).nodes c).role = .leader → ((s.update m st' out).nodes c).term ≠ u :=
        fun c hr ht => hex ⟨c, hr, ht⟩
      rw [hcm.2 u this, hk u this]; exact hc.cmLe u
  · intro u hnone
    have hnone_s : ∀ c, ¬ s.elected c u := fun c h => hnone c (hel c u h)
    have : ∀ c, ((s.update m st' out).nodes c).role = .leader → ((s.update m st' out).nodes c).term ≠ u := by
      intro c hr ht
      have := he'.leaderRecorded c hr
      rw [ht] at this
      exact hnone c this
    rw [hcm.2 u this]; exact hc.cmZero u hnone_s
  · intro dst frm t l p pt es lc h
    rcases h with h | ⟨h1, h2⟩
    · exact le_trans (hc.aeLc _ _ _ _ _ _ _ _ h) (hcmMono t)
    · simp only at h1 h2
      obtain ⟨hr, ht, hlc⟩ := hf.ae _ h2 t l p pt es lc rfl
      have := hcm.1 m (by rw [hnode_m]; exact hr)
      rw [hnode_m] at this
      rw [ht, hlc, this]
  · intro v
    by_cases hlead : ((s.update m st' out).nodes v).role = .leader
    · refine ⟨((s.update m st' out).nodes v).term, le_refl _, Or.inl ⟨v, he'.leaderRecorded v hlead⟩, ?_, ?_⟩
      · rw [hcm.1 v hlead]
      · rw [hi'.leaderLog v hlead]
    · by_cases hv : v = m
      · subst hv
        rw [hnode_m] at hlead ⊢
        obtain ⟨t0, z0, a0, b0, c0⟩ := hc.nodeC v
        have z0' : t0 ≤ st'.term := le_trans z0 hf.tmono
        rcases hf.foll hlead with ⟨hl, hci⟩ | ⟨sender, t, l, p, pt, es, lc, hnet, ht, hlm, hloop, hci⟩
        · rw [hl, hci]
          exact ⟨t0, z0', transfer _ _ t0 a0 b0 c0⟩
        · by_cases hadv : min lc (p + es.length) > (s.nodes v).commitIndex
          · rw [if_pos hadv] at hci
            obtain ⟨_, hel_frm⟩ := hi.aeC _ _ _ _ _ _ _ _ hnet
            have hpre := aux_ae_prefix n v sender s tl hi hw t l p pt es lc st'.log hnet hlm hloop
            refine ⟨t, le_of_eq ht, transfer _ _ t (Or.inl ⟨sender, hel_frm⟩) ?_ ?_⟩
            · rw [hci]; exact le_trans (Nat.min_le_left _ _) (hc.aeLc _ _ _ _ _ _ _ _ hnet)
            · rw [hci]
              have := congrArg (List.take (min lc (p + es.length))) hpre
              rw [List.take_take, List.take_take, Nat.min_eq_left (Nat.min_le_right _ _)] at this
              exact this
          · rw [if_neg hadv] at hci
            rw [hci]
            have hkeep := aux_appendLoop_keep es _ _ _ (hw.commitLe v) hloop
            exact ⟨t0, z0', transfer _ _ t0 a0 b0 (by rw [hkeep]; exact c0)⟩
      · rw [hnode_ne v hv] at hlead ⊢
        obtain ⟨t0, z0, a0, b0, c0⟩ := hc.nodeC v
        exact ⟨t0, z0, transfer _ _ t0 a0 b0 c0⟩

theorem aux_greach_inv (n : Nat) (s : Sys) (tl : Nat → List Entry) (cm : Nat → Nat) (h : GReach n s tl cm) :
    MicroReach n s ∧ TInv n s tl ∧ CInv n s tl cm := by
  induction h with
  | init => exact ⟨.init, aux_tinv_init n, aux_cinv_init n⟩
  | @step s s' tl tl' cm cm' hg hs htl hcm ih =>
    obtain ⟨hr, hi, hc⟩ := ih
    have he := aux_einv_microReach n _ hr
    have hw := aux_winv_microReach n _ hr
    have hr' : MicroReach n s' := .step hr hs
    obtain ⟨tl2, hi2, hk2, hm2⟩ := aux_tinv_micro n _ _ _ hi he hw hs
    have heq : tl2 = tl' := by
      funext u
      by_cases hex : ∃ c, (s'.nodes c).role = .leader ∧ (s'.nodes c).term = u
      · obtain ⟨c, hrl, ht⟩ := hex
        have a := hi2.leaderLog c hrl
        have b := htl.1 c hrl
        rw [ht] at a b
        rw [a, b]
      · have hno : ∀ c, (s'.nodes c).role = .leader → (s'.nodes c).term ≠ u := fun c hr ht => hex ⟨c, hr, ht⟩
        rw [hk2 u hno, htl.2 u hno]
    subst heq
    obtain ⟨m, st', out, rfl, hf⟩ := aux_cfoot_micro n s s' tl hi he hw hs
    exact ⟨hr', hi2, aux_cinv_step n m s st' out tl tl2 cm cm' hi hi2 (aux_einv_microReach n _ hr') hw
      (aux_winv_microReach n _ hr') hc hf hk2 hm2 hcm⟩

/-- the history variables exist for every micro execution -/
theorem aux_greach_exists (n : Nat) (s : Sys) (h : MicroReach n s) : ∃ tl cm, GReach n s tl cm := by
  induction h with
  | init => exact ⟨_, _, .init⟩
  | @step s s' hr hs ih =>
    obtain ⟨tl, cm, hg⟩ := ih
    obtain ⟨_, hi, hc⟩ := aux_greach_inv n _ tl cm hg
    have he := aux_einv_microReach n _ hr
    have hw := aux_winv_microReach n _ hr
    have he' : EInv n s' := aux_einv_micro n s s' he hs
    obtain ⟨tl2, hi2, hk2, _⟩ := aux_tinv_micro n _ _ _ hi he hw hs
    obtain ⟨m, st', out, rfl, hf⟩ := aux_cfoot_micro n s s' tl hi he hw hs
    refine ⟨tl2, fun u => if st'.role = .leader ∧ u = st'.term then st'.commitIndex else cm u,
      .step hg hs ⟨hi2.leaderLog, hk2⟩ ⟨?_, ?_⟩⟩
    · intro c hrl
      by_cases hcm : c = m
      · subst hcm
        simp only [Sys.update, if_true] at hrl ⊢
        simp [hrl]
      · have hn : (s.update m st' out).nodes c = s.nodes c := by simp [Sys.update, hcm]
        by_cases hcond : st'.role = .leader ∧ (s.nodes c).term = st'.term
        · exfalso
          have e1 := he'.leaderRecorded c hrl
          have hnm : (s.update m st' out).nodes m = st' := by simp [Sys.update]
          have e2 := he'.leaderRecorded m (by rw [hnm]; exact hcond.1)
          rw [hn] at e1
          rw [hnm] at e2
          rw [hcond.2] at e1
          exact hcm (aux_einv_safety n _ he' c m _ e1 e2)
        · rw [hn] at hrl ⊢
          simp only [hcond, if_false]
          exact hc.leaderCm c hrl
    · intro u hno
      have : ¬ (st'.role = .leader ∧ u = st'.term) := by
        rintro ⟨a, b⟩
        exact hno m (by simp only [Sys.update, if_true]; exact a) (by simp only [Sys.update, if_true]; exact b.symm)
      simp only [this, if_false]

/-! ### no retraction -/

/-- "member `v` has committed at least `k` entries and the first `k` entries of its log are `L0`" is stable
    under micro steps -/
theorem aux_committed_stable (n : Nat) (v k : Nat) (L0 : List Entry) (x y : Sys)
    (hx : MicroReach n x ∧ k ≤ (x.nodes v).commitIndex ∧ (x.nodes v).log.take k = L0)
    (hs : MicroStep n x y) :
    MicroReach n y ∧ k ≤ (y.nodes v).commitIndex ∧ (y.nodes v).log.take k = L0 := by
  obtain ⟨hr, hk, hl⟩ := hx
  obtain ⟨tl, hi⟩ := aux_tinv_microReach n x hr
  obtain ⟨m, st', out, rfl, hf⟩ := aux_cfoot_micro n x y tl hi (aux_einv_microReach n x hr)
    (aux_winv_microReach n x hr) hs
  refine ⟨.step hr hs, ?_⟩
  by_cases hv : v = m
  · subst hv
    have hn : (x.update v st' out).nodes v = st' := by simp [Sys.update]
    rw [hn]
    refine ⟨le_trans hk hf.cmono, ?_⟩
    have := congrArg (List.take k) hf.keep
    rw [List.take_take, List.take_take, Nat.min_eq_left hk] at this
    rw [this]; exact hl
  · have hn : (x.update m st' out).nodes v = x.nodes v := by simp [Sys.update, hv]
    rw [hn]; exact ⟨hk, hl⟩

/-- one `raft_step` call never decreases a `commit_index` and never changes a committed prefix -/
theorem aux_no_retraction (n : Nat) (s s' : Sys) (h : Reach n s) (hs : MacroStep n s s') (v : Nat) :
    (s.nodes v).commitIndex ≤ (s'.nodes v).commitIndex ∧
    (s'.nodes v).log.take (s.nodes v).commitIndex = (s.nodes v).log.take (s.nodes v).commitIndex := by
  obtain ⟨sm, hrm, hn, hnet, _⟩ := aux_reach_sim n s h
  cases hs with
  | tick m el hb reqs msgs r hm hmsgs hstep =>
    rw [hn] at hstep
    have hmsgs' : ∀ x ∈ msgs, sm.net ⟨m, x.1, x.2⟩ := by
      intro x hx; rw [← hnet]; exact hmsgs x hx
    obtain ⟨s3, ⟨_, h1, h2⟩, hu3⟩ := aux_macro_refines_gen n
      (fun x => MicroReach n x ∧ (sm.nodes v).commitIndex ≤ (x.nodes v).commitIndex ∧
        (x.nodes v).log.take (sm.nodes v).commitIndex = (sm.nodes v).log.take (sm.nodes v).commitIndex)
      (fun x y hx hxy => aux_committed_stable n v _ _ x y hx hxy)
      sm ⟨hrm, le_refl _, rfl⟩ (aux_einv_microReach n sm hrm) m el hb reqs msgs r hm hmsgs' hstep
    have hnode : (s.update m r.st r.out.outbound).nodes v = s3.nodes v := by
      simp only [Sys.update]; rw [hu3.nodes v, hn]
    rw [hnode, hn]
    exact ⟨h1, h2⟩

/-! ### leader completeness and the reduction -/

/-- **Leader completeness** (RAFT §5.4.3) on the ghost-instrumented micro executions: the term log of every
    later term `u` that has a leader contains, as a prefix, everything the leader of an earlier term `t`
    has committed (`cm t` entries of `tl t`). -/
def LeaderCompleteness (n : Nat) : Prop :=
  ∀ s tl cm, GReach n s tl cm → ∀ t u, t < u → (∃ c, s.elected c u) →
    (tl u).take (cm t) = (tl t).take (cm t)

/-- leader completeness + commit provenance (+ log matching inside `tl`) ⇒ committed prefixes agree -/
theorem aux_agreement_of_lc (n : Nat) (hlc : LeaderCompleteness n) (s : Sys) (h : Reach n s) (a b i : Nat)
    (ha : i < (s.nodes a).commitIndex) (hb : i < (s.nodes b).commitIndex) :
    (s.nodes a).log.getD i default = (s.nodes b).log.getD i default := by
  obtain ⟨sm, hrm, hn, _, _⟩ := aux_reach_sim n s h
  obtain ⟨tl, cm, hg⟩ := aux_greach_exists n sm hrm
  obtain ⟨_, hi, hc⟩ := aux_greach_inv n sm tl cm hg
  rw [hn] at ha hb ⊢
  obtain ⟨ta, _, ea, ca, pa⟩ := hc.nodeC a
  obtain ⟨tb, _, eb, cb, pb⟩ := hc.nodeC b
  have ea' : ∃ c, sm.elected c ta := by
    rcases ea with h | h
    · exact h
    · omega
  have eb' : ∃ c, sm.elected c tb := by
    rcases eb with h | h
    · exact h
    · omega
  have ga : (sm.nodes a).log[i]? = (tl ta)[i]? := by
    have := congrArg (fun l => l[i]?) pa
    simp only [List.getElem?_take, ha, if_true] at this
    exact this
  have gb : (sm.nodes b).log[i]? = (tl tb)[i]? := by
    have := congrArg (fun l => l[i]?) pb
    simp only [List.getElem?_take, hb, if_true] at this
    exact this
  have key : (tl ta)[i]? = (tl tb)[i]? := by
    rcases Nat.lt_trichotomy ta tb with hlt | heq | hgt
    · have := congrArg (fun l => l[i]?) (hlc sm tl cm hg ta tb hlt eb')
      have hi' : i < cm ta := by omega
      simp only [List.getElem?_take, hi', if_true] at this
      exact this.symm
    · subst heq; rfl
    · have := congrArg (fun l => l[i]?) (hlc sm tl cm hg tb ta hgt ea')
      have hi' : i < cm tb := by omega
      simp only [List.getElem?_take, hi', if_true] at this
      exact this
  simp only [List.getD_eq_getElem?_getD, ga, gb, key]

end HvProto.Raft
