/-
  Leader completeness, part 3: the commit rule (`match_index` → acknowledgements → a majority holds the
  entry), the per-term commit invariant, and the theorem.
-/
import HvProto.Lemmas.RaftLC2

namespace HvProto.Raft

/-- a majority holds the `(t,k)` prefix (the leader of `t` itself, or by acknowledgement) -/
def QHeld (n : Nat) (s : Sys) (tl : Nat → List Entry) (t k : Nat) : Prop :=
  ∃ Q : List Nat, Q.Nodup ∧ majority n ≤ Q.length ∧ ∀ v ∈ Q, v < n ∧ Held s tl v t k

/-- the core of leader completeness: a prefix held by a majority is a prefix of the log of every later leader -/
theorem aux_qlc (n : Nat) (s : Sys) (tl : Nat → List Entry) (hl : LInv n s tl) (t k : Nat)
    (hq : QHeld n s tl t k) (hT : TermAt tl t k) :
    ∀ u, t < u → (∃ c, s.elected c u) → Pre tl t k u := by
  intro u
  induction u using Nat.strong_induction_on with
  | _ u ih =>
    intro htu ⟨c, hc⟩
    obtain ⟨Q1, nd1, maj1, hq1⟩ := hq
    obtain ⟨Q2, nd2, maj2, hq2⟩ := hl.eq c u hc
    obtain ⟨v, hv1, hv2⟩ := aux_quorum_inter n Q1 Q2 nd1 nd2 (fun v h => (hq1 v h).1) (fun v h => (hq2 v h).1)
      (by simpa [majority] using maj1) (by simpa [majority] using maj2)
    rcases (hq2 v hv2).2.2 t k htu (hq1 v hv1).2 hT with h | ⟨u2, b1, b2, b3, b4⟩
    · exact h
    · exact absurd (ih u2 b2 b1 b3) b4

/-- what the `while candidate > state.commit_index` loop returns -/
theorem aux_advanceLoop_spec (st : NodeState) (oth : List Nat) (maj : Nat) : ∀ k,
    advanceLoop st oth maj k = st.commitIndex ∨
    (st.commitIndex < advanceLoop st oth maj k ∧ advanceLoop st oth maj k ≤ k ∧
      (entryAt st.log (advanceLoop st oth maj k)).term = st.term ∧
      ∃ A : List Nat, A.Sublist oth ∧ maj ≤ 1 + A.length ∧
        ∀ f ∈ A, ∃ mi, mapGet st.matchIndex f = some mi ∧ advanceLoop st oth maj k ≤ mi) := by
  intro k
  induction k with
  | zero => left; simp [advanceLoop]
  | succ c ih =>
    unfold advanceLoop
    split
    · next hgt =>
      split
      · next hterm =>
        dsimp only
        split
        · next hacks =>
          right
          refine ⟨hgt, le_refl _, by simpa using hterm,
            oth.filter (fun m => match mapGet st.matchIndex m with
              | some mi => decide (mi ≥ c + 1) | none => false),
            List.filter_sublist, hacks, ?_⟩
          intro f hf
          have hp := (List.mem_filter.1 hf).2
          cases hm : mapGet st.matchIndex f with
          | none => simp [hm] at hp
          | some mi =>
            simp [hm] at hp
            exact ⟨mi, rfl, hp⟩
        · rcases ih with h | ⟨a, b, c', d⟩
          · exact Or.inl h
          · exact Or.inr ⟨a, by omega, c', d⟩
      · rcases ih with h | ⟨a, b, c', d⟩
        · exact Or.inl h
        · exact Or.inr ⟨a, by omega, c', d⟩
    · exact Or.inl rfl

structure QInv (n : Nat) (s : Sys) (tl : Nat → List Entry) (cm : Nat → Nat) : Prop where
  /-- a leader's `match_index` entries are backed by successful replies of its term -/
  mi : ∀ c, (s.nodes c).role = .leader → ∀ f v, mapGet (s.nodes c).matchIndex f = some v →
      v = 0 ∨ Ack s f (s.nodes c).term v
  /-- whatever the leader of `t` has committed is a prefix of a prefix `(t0,k0)`, `t0 ≤ t`, that a majority
      holds and whose last entry is of term `t0` (the commit rule) -/
  cq : ∀ t, cm t = 0 ∨ ∃ t0 k0, t0 ≤ t ∧ cm t ≤ k0 ∧ QHeld n s tl t0 k0 ∧ TermAt tl t0 k0 ∧
      (tl t).take (cm t) = (tl t0).take (cm t)

theorem aux_qinv_init (n : Nat) : QInv n initSys (fun _ => []) (fun _ => 0) := by
  constructor
  · intro c hr; simp [initSys] at hr
  · intro t; exact Or.inl rfl

theorem aux_others_nodup (n m : Nat) : (others n m).Nodup := by
  unfold others
  exact List.Nodup.filter _ List.nodup_range

theorem aux_qinv_step (n m : Nat) (hm : m < n) (s : Sys) (st' : NodeState) (out : List (Nat × Rpc))
    (tl tl' : Nat → List Entry) (cm cm' : Nat → Nat)
    (hi : TInv n s tl) (hi' : TInv n (s.update m st' out) tl') (he : EInv n s)
    (he' : EInv n (s.update m st' out)) (hw : WInv n s) (hc : CInv n s tl cm) (hl : LInv n s tl)
    (hq : QInv n s tl cm) (hf : LFoot n s m st' out)
    (hmono : TlMono s tl tl') (hcm : CmNext (s.update m st' out) cm cm') :
    QInv n (s.update m st' out) tl' cm' := by
  have hnode_m : (s.update m st' out).nodes m = st' := by simp [Sys.update]
  have hnode_ne : ∀ x, x ≠ m → (s.update m st' out).nodes x = s.nodes x := by
    intro x hx; simp [Sys.update, hx]
  have hel : ∀ c t, s.elected c t → (s.update m st' out).elected c t := fun c t h => Or.inl h
  have ackMono : ∀ f t k, Ack s f t k → Ack (s.update m st' out) f t k := by
    intro f t k ⟨l, mi, hnet, hk⟩
    exact ⟨l, mi, Or.inl hnet, hk⟩
  have hlead_tl : st'.role = .leader → tl' st'.term = st'.log := by
    intro hr
    have := hi'.leaderLog m (by rw [hnode_m]; exact hr)
    rw [hnode_m] at this; exact this
  have electedT : ∀ t k, TermAt tl t k → ∃ c, s.elected c t := by
    intro t k ⟨_, e, he0, het⟩
    have := (hi.posT t e (List.mem_of_getElem? he0)).2
    rw [het] at this; exact this
  have termAt_len : ∀ (tl0 : Nat → List Entry) t k, TermAt tl0 t k → k ≤ (tl0 t).length := by
    intro tl0 t k ⟨h1, e, he0, _⟩
    obtain ⟨h, _⟩ := List.getElem?_eq_some_iff.1 he0
    omega
  have s1 : ∀ t k, (∃ c, s.elected c t) → k ≤ (tl t).length → (tl' t).take k = (tl t).take k := by
    intro t k hE hkl
    obtain ⟨ext, hext, _⟩ := hmono t hE
    rw [hext, List.take_append_of_le_length hkl]
  have heldMono : ∀ v t k, Held s tl v t k → Held (s.update m st' out) tl' v t k := by
    intro v t k h
    rcases h with ⟨hE, hkl⟩ | ha
    · left
      refine ⟨hel v t hE, ?_⟩
      obtain ⟨ext, hext, _⟩ := hmono t ⟨v, hE⟩
      rw [hext, List.length_append]; omega
    · exact Or.inr (ackMono v t k ha)
  have qheldMono : ∀ t k, QHeld n s tl t k → QHeld n (s.update m st' out) tl' t k := by
    intro t k ⟨Q, nd, maj, hq0⟩
    exact ⟨Q, nd, maj, fun v hv => ⟨(hq0 v hv).1, heldMono v t k (hq0 v hv).2⟩⟩
  have termAt_fwd : ∀ t k, TermAt tl t k → TermAt tl' t k := by
    intro t k hT
    have hkl := termAt_len tl t k hT
    have hE := electedT t k hT
    obtain ⟨h1, e, he0, het⟩ := hT
    obtain ⟨ext, hext, _⟩ := hmono t hE
    refine ⟨h1, e, ?_, het⟩
    rw [hext, List.getElem?_append_left (by omega)]; exact he0
  constructor
  · -- match_index
    intro c hr f v hv
    by_cases hcm' : c = m
    · subst hcm'
      rw [hnode_m] at hr hv ⊢
      rcases hf.mf.mi hr f v hv with h0 | ⟨hr0, ht0, hv0⟩ | hnet
      · exact Or.inl h0
      · rcases hq.mi c hr0 f v hv0 with h0 | ha
        · exact Or.inl h0
        · right; rw [ht0]; exact ackMono f _ v ha
      · exact Or.inr ⟨c, v, Or.inl hnet, le_refl _⟩
    · rw [hnode_ne c hcm'] at hr hv ⊢
      rcases hq.mi c hr f v hv with h0 | ha
      · exact Or.inl h0
      · exact Or.inr (ackMono f _ v ha)
  · -- commit quorum
    intro t
    -- old witnesses survive
    have keepOld : ∀ c0, c0 ≤ cm t → (c0 = 0 ∨ ∃ t0 k0, t0 ≤ t ∧ cm t ≤ k0 ∧ QHeld n s tl t0 k0 ∧ TermAt tl t0 k0 ∧
        (tl t).take (cm t) = (tl t0).take (cm t)) → (tl' t).take c0 = (tl t).take c0 →
        c0 = 0 ∨ ∃ t0 k0, t0 ≤ t ∧ c0 ≤ k0 ∧ QHeld n (s.update m st' out) tl' t0 k0 ∧ TermAt tl' t0 k0 ∧
          (tl' t).take c0 = (tl' t0).take c0 := by
      intro c0 hc0 hold htl
      rcases hold with h0 | ⟨t0, k0, a, b, c, d, e⟩
      · exact Or.inl h0
      · right
        refine ⟨t0, k0, a, by omega, qheldMono t0 k0 c, termAt_fwd t0 k0 d, ?_⟩
        have hk0 := termAt_len tl t0 k0 d
        rw [htl, s1 t0 c0 (electedT t0 k0 d) (by omega)]
        have := congrArg (List.take c0) e
        rw [List.take_take, List.take_take, Nat.min_eq_left hc0] at this
        exact this
    have hcmt : cm t ≠ 0 → ∃ c, s.elected c t := by
      intro hne
      by_contra hcon
      exact hne (hc.cmZero t (fun c hc' => hcon ⟨c, hc'⟩))
    by_cases hsame : cm' t = cm t
    · rw [hsame]
      rcases hq.cq t with h0 | hw0
      · exact Or.inl h0
      · by_cases hz : cm t = 0
        · exact Or.inl hz
        · exact keepOld (cm t) (le_refl _) (Or.inr hw0) (s1 t (cm t) (hcmt hz) (hc.cmLe t))
    · -- `m` is the leader of `t` after the step and its commit index differs from `cm t`
      have hlead : st'.role = .leader ∧ st'.term = t := by
        by_contra hcon
        apply hsame
        by_cases hex : ∃ c, ((s.update m st' out).nodes c).role = .leader ∧ ((s.update m st' out).nodes c).term = t
        · obtain ⟨c, hr, ht⟩ := hex
          by_cases hcc : c = m
          · subst hcc; rw [hnode_m] at hr ht; exact absurd ⟨hr, ht⟩ hcon
          · have a := hcm.1 c hr
            rw [hnode_ne c hcc] at hr ht a
            have b := hc.leaderCm c hr
            rw [ht] at a b
            rw [a, b]
        · exact hcm.2 t (fun c hr ht => hex ⟨c, hr, ht⟩)
      obtain ⟨hr, ht⟩ := hlead
      have hcm't : cm' t = st'.commitIndex := by
        have := hcm.1 m (by rw [hnode_m]; exact hr)
        rw [hnode_m, ht] at this; exact this
      have htl't : tl' t = st'.log := by rw [← ht]; exact hlead_tl hr
      rcases hf.cf.lead hr with ⟨hr0, ht0⟩ | hnone
      · -- it was the leader of `t` already: only `advanceCommit` moves its commit index
        have hcmt0 : cm t = (s.nodes m).commitIndex := by
          have := hc.leaderCm m hr0
          rw [← ht0, ht] at this; exact this
        rcases hf.mf.ci hr with hci | ⟨_, hadv⟩
        · exfalso; apply hsame; rw [hcm't, hci, hcmt0]
        · have hci : st'.commitIndex = advanceLoop (s.nodes m) (others n m) (majority n) (s.nodes m).log.length := by
            rw [hadv]; unfold advanceCommit; simp [hr0]
          have hlog : st'.log = (s.nodes m).log := by
            rw [hadv]; unfold advanceCommit; simp [hr0]
          rcases aux_advanceLoop_spec (s.nodes m) (others n m) (majority n) (s.nodes m).log.length with h0 | ⟨a, b, c, A, hA, hmaj, hAm⟩
          · exfalso; apply hsame; rw [hcm't, hci, h0, hcmt0]
          · rw [← hci] at a b c hAm
            right
            refine ⟨t, st'.commitIndex, le_refl _, by rw [hcm't], ?_, ?_, rfl⟩
            · refine ⟨m :: A, ?_, ?_, ?_⟩
              · refine List.nodup_cons.2 ⟨?_, hA.nodup (aux_others_nodup n m)⟩
                intro hmem
                exact ((aux_others_mem n m m).1 (hA.subset hmem)).2 rfl
              · simp only [List.length_cons]; omega
              · intro v hv
                rcases List.mem_cons.1 hv with hv | hv
                · subst hv
                  refine ⟨hm, Or.inl ⟨Or.inr ⟨rfl, hr, ht⟩, ?_⟩⟩
                  rw [htl't, hlog]; exact b
                · obtain ⟨mi, hmi, hle⟩ := hAm v hv
                  refine ⟨((aux_others_mem n m v).1 (hA.subset hv)).1, Or.inr ?_⟩
                  rcases hq.mi m hr0 v mi hmi with h0 | ⟨l, mi', hnet, hk⟩
                  · omega
                  · rw [← ht0, ht] at hnet
                    exact ⟨l, mi', Or.inl hnet, by omega⟩
            · refine ⟨by omega, entryAt (s.nodes m).log st'.commitIndex, ?_, by rw [c, ← ht0, ht]⟩
              rw [htl't, hlog]
              exact aux_entryAt_get _ _ (by omega) b
      · -- it just won term `t`: the commit index is inherited
        rw [ht] at hnone
        have hci : st'.commitIndex = (s.nodes m).commitIndex := by
          rcases hf.mf.ci hr with hci | ⟨hr0, hadv⟩
          · exact hci
          · exfalso
            have e1 := he.leaderRecorded m hr0
            have : st'.term = (s.nodes m).term := by rw [hadv]; unfold advanceCommit; simp [hr0]
            rw [← this, ht] at e1
            exact hnone m e1
        have hlog : st'.log = (s.nodes m).log := by
          rcases hf.shape with hlog | ⟨ext, hr0, _, ht0, _, _⟩ | ⟨_, _, _, _, _, _, _, _, _, hr1, _⟩
          · exact hlog
          · exfalso
            have e1 := he.leaderRecorded m hr0
            rw [← ht0, ht] at e1
            exact hnone m e1
          · rw [hr1] at hr; cases hr
        rw [hcm't, hci]
        obtain ⟨t1, z1, e1, c1, p1⟩ := hc.nodeC m
        by_cases hz : (s.nodes m).commitIndex = 0
        · exact Or.inl hz
        · have hE1 : ∃ c, s.elected c t1 := by
            rcases e1 with h | h
            · exact h
            · exact absurd h hz
          have ht1t : t1 ≤ t := by have := hf.cf.tmono; omega
          rcases hq.cq t1 with h0 | ⟨t0, k0, a, b, c, d, e⟩
          · omega
          · right
            have hk0 := termAt_len tl t0 k0 d
            refine ⟨t0, k0, by omega, by omega, qheldMono t0 k0 c, termAt_fwd t0 k0 d, ?_⟩
            rw [htl't, hlog, p1, s1 t0 _ (electedT t0 k0 d) (by omega)]
            have := congrArg (List.take (s.nodes m).commitIndex) e
            rw [List.take_take, List.take_take, Nat.min_eq_left c1] at this
            exact this

/-- all invariants along the ghost-instrumented executions -/
theorem aux_greach_all (n : Nat) (s : Sys) (tl : Nat → List Entry) (cm : Nat → Nat) (h : GReach n s tl cm) :
    MicroReach n s ∧ TInv n s tl ∧ CInv n s tl cm ∧ LInv n s tl ∧ QInv n s tl cm := by
  induction h with
  | init => exact ⟨.init, aux_tinv_init n, aux_cinv_init n, aux_linv_init n, aux_qinv_init n⟩
  | @step s s' tl tl' cm cm' hg hs htl hcm ih =>
    obtain ⟨hr, hi, hc, hl, hq⟩ := ih
    have he := aux_einv_microReach n _ hr
    have hw := aux_winv_microReach n _ hr
    have hr' : MicroReach n s' := .step hr hs
    obtain ⟨tl2, hi2, hk2, hm2⟩ := aux_tinv_micro n _ _ _ hi he hw hs
    have heq : tl2 = tl' := by
      funext u
      by_cases hex : ∃ c, (s'.nodes c).role = .leader ∧ (s'.nodes c).term = u
      · obtain ⟨c, hrl, ht⟩ := hex
        have a := hi2.leaderLog c hrl
        have b := htl.1 c hrl
        rw [ht] at a b
        rw [a, b]
      · have hno : ∀ c, (s'.nodes c).role = .leader → (s'.nodes c).term ≠ u := fun c hr ht => hex ⟨c, hr, ht⟩
        rw [hk2 u hno, htl.2 u hno]
    subst heq
    obtain ⟨m, st', out, hm, rfl, hf⟩ := aux_lfoot_micro n s s' tl hi he hw hs
    have he' := aux_einv_microReach n _ hr'
    have hw' := aux_winv_microReach n _ hr'
    exact ⟨hr', hi2, aux_cinv_step n m s st' out tl tl2 cm cm' hi hi2 he' hw hw' hc hf.cf hk2 hm2 hcm,
      aux_linv_step n m hm s st' out tl tl2 hi hi2 he he' hw hl hf hk2 hm2,
      aux_qinv_step n m hm s st' out tl tl2 cm cm' hi hi2 he he' hw hc hl hq hf hm2 hcm⟩

/-- **Leader completeness** -/
theorem aux_leader_completeness (n : Nat) : LeaderCompleteness n := by
  intro s tl cm hg t u htu hEu
  obtain ⟨_, hi, hc, hl, hq⟩ := aux_greach_all n s tl cm hg
  rcases hq.cq t with h0 | ⟨t0, k0, a, b, c, d, e⟩
  · rw [h0]; simp
  · have hp := aux_qlc n s tl hl t0 k0 c d u (by omega) hEu
    unfold Pre at hp
    have := congrArg (List.take (cm t)) hp
    rw [List.take_take, List.take_take, Nat.min_eq_left b] at this
    rw [this, e]

end HvProto.Raft
