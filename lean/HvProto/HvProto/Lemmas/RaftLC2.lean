/-
  Leader completeness, part 2: the invariant `LInv` and its preservation by every micro step.
-/
import HvProto.Lemmas.RaftLC

namespace HvProto.Raft

structure LInv (n : Nat) (s : Sys) (tl : Nat → List Entry) : Prop where
  tlSorted : ∀ u, SortedT (tl u)
  tbT : ∀ u e, e ∈ tl u → e.term ≤ u
  tbN : ∀ v e, e ∈ (s.nodes v).log → e.term ≤ (s.nodes v).term
  /-- a successful reply of term `t` was sent in term `t` and reports a prefix of the term log of `t` -/
  ackLe : ∀ l v t mi, s.net ⟨l, v, .appendEntriesReply t true mi⟩ →
      t ≤ (s.nodes v).term ∧ mi ≤ (tl t).length ∧ ∃ c, s.elected c t
  /-- a vote request describes the log of its sender for as long as it stays a candidate of that term -/
  rq : ∀ x c t lli llt, s.net ⟨x, c, .requestVote t lli llt⟩ → t ≤ (s.nodes c).term ∧
      ((s.nodes c).term = t → (s.nodes c).role = .candidate → lastLogPosition (s.nodes c).log = (llt, lli))
  vr : ∀ c v u, s.net ⟨c, v, .requestVoteResponse u⟩ → u ≤ (s.nodes c).term
  /-- log retention: a member that held the `(t,k)` prefix still has it, unless it has since followed a
      leader of a later term that lacks it -/
  h1 : ∀ v t k, Held s tl v t k → TermAt tl t k →
      (s.nodes v).log.take k = (tl t).take k ∨ Bad s tl t k ((s.nodes v).term + 1)
  /-- votes: a candidate of term `u` holds every earlier prefix its voters held (§5.4.1) -/
  mv : ∀ c v u, s.net ⟨c, v, .requestVoteResponse u⟩ → (s.nodes c).term = u → (s.nodes c).role = .candidate →
      ∀ t k, t < u → Held s tl v t k → TermAt tl t k →
        (s.nodes c).log.take k = (tl t).take k ∨ Bad s tl t k u ∨ ∃ c', s.elected c' u
  /-- every elected leader has a quorum of voters all of whose earlier prefixes it holds -/
  eq : ∀ c u, s.elected c u → ∃ Q : List Nat, Q.Nodup ∧ majority n ≤ Q.length ∧
      ∀ v ∈ Q, v < n ∧ u ≤ (s.nodes v).term ∧
        ∀ t k, t < u → Held s tl v t k → TermAt tl t k → Pre tl t k u ∨ Bad s tl t k u

theorem aux_linv_init (n : Nat) : LInv n initSys (fun _ => []) := by
  constructor
  · intro u i j ei ej _ hi _; simp at hi
  · intro u e h; simp at h
  · intro v e h; simp [initSys] at h
  · intro l v t mi h; cases h
  · intro x c t lli llt h; cases h
  · intro c v u h; cases h
  · intro v t k h _
    rcases h with ⟨h, _⟩ | ⟨_, _, h, _⟩ <;> cases h
  · intro c v u h; cases h
  · intro c u h; cases h

theorem aux_linv_step (n m : Nat) (hm : m < n) (s : Sys) (st' : NodeState) (out : List (Nat × Rpc))
    (tl tl' : Nat → List Entry)
    (hi : TInv n s tl) (hi' : TInv n (s.update m st' out) tl') (he : EInv n s)
    (he' : EInv n (s.update m st' out)) (hw : WInv n s) (hl : LInv n s tl) (hf : LFoot n s m st' out)
    (hk : TlKeep (s.update m st' out) tl tl') (hmono : TlMono s tl tl') :
    LInv n (s.update m st' out) tl' := by
  have hnode_m : (s.update m st' out).nodes m = st' := by simp [Sys.update]
  have hnode_ne : ∀ x, x ≠ m → (s.update m st' out).nodes x = s.nodes x := by
    intro x hx; simp [Sys.update, hx]
  have hel : ∀ c t, s.elected c t → (s.update m st' out).elected c t := fun c t h => Or.inl h
  have tmono : (s.nodes m).term ≤ st'.term := (aux_foot_of_eff n m s he hm st' out hf.eff).termMono
  have termAll : ∀ v, (s.nodes v).term ≤ ((s.update m st' out).nodes v).term := by
    intro v
    by_cases hv : v = m
    · subst hv; rw [hnode_m]; exact tmono
    · rw [hnode_ne v hv]
  have tlc : ∀ t, tl' t ≠ tl t → st'.role = .leader ∧ st'.term = t := by
    intro t hne
    by_contra hcon
    apply hne
    by_cases hex : ∃ c, ((s.update m st' out).nodes c).role = .leader ∧ ((s.update m st' out).nodes c).term = t
    · obtain ⟨c, hr, ht⟩ := hex
      by_cases hc : c = m
      · subst hc; rw [hnode_m] at hr ht; exact absurd ⟨hr, ht⟩ hcon
      · have a := hi'.leaderLog c hr
        rw [hnode_ne c hc] at hr ht a
        have b := hi.leaderLog c hr
        rw [ht] at a b
        rw [a, b]
    · exact hk t (fun c hr ht => hex ⟨c, hr, ht⟩)
  have hlead_tl : st'.role = .leader → tl' st'.term = st'.log := by
    intro hr
    have := hi'.leaderLog m (by rw [hnode_m]; exact hr)
    rw [hnode_m] at this; exact this
  have electedT : ∀ t k, TermAt tl t k → ∃ c, s.elected c t := by
    intro t k ⟨_, e, he0, het⟩
    have := (hi.posT t e (List.mem_of_getElem? he0)).2
    rw [het] at this; exact this
  have termAt_len : ∀ (tl0 : Nat → List Entry) t k, TermAt tl0 t k → k ≤ (tl0 t).length := by
    intro tl0 t k ⟨h1, e, he0, _⟩
    obtain ⟨h, _⟩ := List.getElem?_eq_some_iff.1 he0
    omega
  have s1 : ∀ t k, (∃ c, s.elected c t) → k ≤ (tl t).length → (tl' t).take k = (tl t).take k := by
    intro t k hE hkl
    obtain ⟨ext, hext, _⟩ := hmono t hE
    rw [hext, List.take_append_of_le_length hkl]
  have heldLen : ∀ v t k, Held s tl v t k → k ≤ (tl t).length ∧ ∃ c, s.elected c t := by
    intro v t k h
    rcases h with ⟨hE, hkl⟩ | ⟨l, mi, hnet, hkm⟩
    · exact ⟨hkl, v, hE⟩
    · obtain ⟨_, h2, h3⟩ := hl.ackLe l v t mi hnet
      exact ⟨by omega, h3⟩
  have termAt_back : ∀ v t k, Held s tl v t k → TermAt tl' t k → TermAt tl t k := by
    intro v t k hH hT
    obtain ⟨hkl, hE⟩ := heldLen v t k hH
    obtain ⟨h1, e, he0, het⟩ := hT
    obtain ⟨ext, hext, _⟩ := hmono t hE
    refine ⟨h1, e, ?_, het⟩
    rw [hext, List.getElem?_append_left (by omega)] at he0; exact he0
  have heldTerm : ∀ v t k, Held s tl v t k → t ≤ (s.nodes v).term := by
    intro v t k h
    rcases h with ⟨hE, _⟩ | ⟨l, mi, hnet, _⟩
    · exact (he.grantPins v v t (Or.inr ⟨rfl, hE⟩)).1
    · exact (hl.ackLe l v t mi hnet).1
  have preIff : ∀ t k u, TermAt tl t k → t < u → (∃ c, s.elected c u) → (Pre tl' t k u ↔ Pre tl t k u) := by
    intro t k u hT htu hEu
    have hkl := termAt_len tl t k hT
    obtain ⟨ext, hext, hterm⟩ := hmono u hEu
    unfold Pre
    rw [s1 t k (electedT t k hT) hkl, hext]
    exact aux_pre_stable (tl u) ext (tl t) k t u hkl (hl.tbT t) hterm htu
  have badFwd : ∀ t k b b', TermAt tl t k → b ≤ b' → Bad s tl t k b → Bad (s.update m st' out) tl' t k b' := by
    intro t k b b' hT hbb ⟨u, h1, h2, ⟨c, hc⟩, hnp⟩
    exact ⟨u, h1, by omega, ⟨c, hel c u hc⟩, fun hp => hnp ((preIff t k u hT h1 ⟨c, hc⟩).1 hp)⟩
  have heldNew : ∀ v t k, Held (s.update m st' out) tl' v t k →
      Held s tl v t k ∨ (v = m ∧ st'.term = t ∧ st'.log.take k = (tl' t).take k) := by
    intro v t k h
    rcases h with ⟨hE, hkl⟩ | ⟨l, mi, hnet, hkm⟩
    · rcases hE with hE | ⟨h1, h2, h3⟩
      · by_cases hkk : k ≤ (tl t).length
        · exact Or.inl (Or.inl ⟨hE, hkk⟩)
        · have hne : tl' t ≠ tl t := by intro heq; rw [heq] at hkl; exact hkk hkl
          obtain ⟨hr, ht⟩ := tlc t hne
          have e1 : (s.update m st' out).elected v t := Or.inl hE
          have e2 : (s.update m st' out).elected m t := Or.inr ⟨rfl, hr, ht⟩
          have hvm := aux_einv_safety n _ he' v m t e1 e2
          refine Or.inr ⟨hvm, ht, ?_⟩
          rw [← ht, hlead_tl hr]
      · refine Or.inr ⟨h1, h3, ?_⟩
        rw [← h3, hlead_tl h2]
    · rcases hnet with hold | ⟨h1, h2⟩
      · exact Or.inl (Or.inr ⟨l, mi, hold, hkm⟩)
      · simp only at h1 h2
        obtain ⟨ht, _, sender, l', p, pt, es, lc, hnet', hmi, hlm, hloop⟩ := hf.reply l t mi h2
        subst hmi
        obtain ⟨f1, f2, _, _⟩ := aux_ae_facts n m sender s tl hi hw t l' p pt es lc st'.log hnet' hlm hloop
        have hE : ∃ c, s.elected c t := ⟨sender, (hi.aeC _ _ _ _ _ _ _ _ hnet').2⟩
        refine Or.inr ⟨h1, ht.symm, ?_⟩
        rw [s1 t k hE (by omega)]
        have := congrArg (List.take k) f2
        rw [List.take_take, List.take_take, Nat.min_eq_left hkm] at this
        exact this
  have candLog : st'.role = .candidate → st'.log = (s.nodes m).log := by
    intro hrole
    rcases hf.shape with hlog | ⟨ext, _, hr1, _⟩ | ⟨_, _, _, _, _, _, _, _, _, hr1, _⟩
    · exact hlog
    · rw [hr1] at hrole; cases hrole
    · rw [hr1] at hrole; cases hrole
  constructor
  · -- tlSorted
    intro u
    by_cases hne : tl' u = tl u
    · rw [hne]; exact hl.tlSorted u
    · obtain ⟨hr, ht⟩ := tlc u hne
      rw [← ht, hlead_tl hr]
      rcases hf.shape with hlog | ⟨ext, _, _, _, hlog, hext⟩ | ⟨_, _, _, _, _, _, _, _, _, hr1, _⟩
      · rw [hlog]; exact aux_sorted_of_agree tl _ (hi.nodeB m) hl.tlSorted
      · rw [hlog]
        exact aux_sorted_append _ ext (s.nodes m).term
          (aux_sorted_of_agree tl _ (hi.nodeB m) hl.tlSorted) (hl.tbN m) hext
      · rw [hr1] at hr; cases hr
  · -- tbT
    intro u e hmem
    by_cases hne : tl' u = tl u
    · rw [hne] at hmem; exact hl.tbT u e hmem
    · obtain ⟨hr, ht⟩ := tlc u hne
      rw [← ht, hlead_tl hr] at hmem
      rcases hf.shape with hlog | ⟨ext, _, _, _, hlog, hext⟩ | ⟨_, _, _, _, _, _, _, _, _, hr1, _⟩
      · rw [hlog] at hmem; have := hl.tbN m e hmem; omega
      · rw [hlog] at hmem
        rcases List.mem_append.1 hmem with h | h
        · have := hl.tbN m e h; omega
        · have := hext e h; omega
      · rw [hr1] at hr; cases hr
  · -- tbN
    intro v e hmem
    by_cases hv : v = m
    · subst hv; rw [hnode_m] at hmem ⊢
      rcases hf.shape with hlog | ⟨ext, _, _, _, hlog, hext⟩ | ⟨sender, ta, la, p, pt, es, lc, hneta, hta, _, hlm, hloop⟩
      · rw [hlog] at hmem; have := hl.tbN v e hmem; omega
      · rw [hlog] at hmem
        rcases List.mem_append.1 hmem with h | h
        · have := hl.tbN v e h; omega
        · have := hext e h; omega
      · rcases aux_appendLoop_mem es _ _ _ hloop e hmem with h | h
        · have := hl.tbN v e h; omega
        · obtain ⟨_, _, _, f4⟩ := aux_ae_facts n v sender s tl hi hw ta la p pt es lc st'.log hneta hlm hloop
          have := hl.tbT ta e (f4 e h); omega
    · rw [hnode_ne v hv] at hmem ⊢; exact hl.tbN v e hmem
  · -- ackLe
    intro l v t mi hnet
    rcases hnet with hold | ⟨h1, h2⟩
    · obtain ⟨a, b, c, hc⟩ := hl.ackLe l v t mi hold
      refine ⟨le_trans a (termAll v), ?_, c, hel c t hc⟩
      obtain ⟨ext, hext, _⟩ := hmono t ⟨c, hc⟩
      rw [hext, List.length_append]; omega
    · simp only at h1 h2
      obtain ⟨ht, _, sender, l', p, pt, es, lc, hnet', hmi, hlm, hloop⟩ := hf.reply l t mi h2
      obtain ⟨f1, _, _, _⟩ := aux_ae_facts n m sender s tl hi hw t l' p pt es lc st'.log hnet' hlm hloop
      have hE := (hi.aeC _ _ _ _ _ _ _ _ hnet').2
      refine ⟨by rw [h1, hnode_m]; omega, ?_, sender, hel _ _ hE⟩
      obtain ⟨ext, hext, _⟩ := hmono t ⟨sender, hE⟩
      rw [hext, List.length_append]; omega
  · -- rq
    intro x c t lli llt hnet
    rcases hnet with hold | ⟨h1, h2⟩
    · obtain ⟨a, b⟩ := hl.rq x c t lli llt hold
      refine ⟨le_trans a (termAll c), ?_⟩
      by_cases hc : c = m
      · subst hc; rw [hnode_m]
        intro hterm hrole
        rcases aux_cand_of_eff n c s.net _ st' out hf.eff hrole with ⟨hr0, ht0⟩ | hlt
        · rw [candLog hrole]; exact b (by omega) hr0
        · omega
      · rw [hnode_ne c hc]; exact b
    · simp only at h1 h2
      obtain ⟨hr, ht, hlt, hpos⟩ := hf.reqv x t lli llt h2
      rw [h1, hnode_m]
      exact ⟨by omega, fun _ _ => hpos⟩
  · -- vr
    intro c v u hnet
    rcases hnet with hold | ⟨h1, h2⟩
    · exact le_trans (hl.vr c v u hold) (termAll c)
    · simp only at h1 h2
      obtain ⟨_, _, lli, llt, hreq, _⟩ := hf.grant c u h2
      exact le_trans (hl.rq m c u lli llt hreq).1 (termAll c)
  · -- h1
    intro v t k hH hT
    rcases heldNew v t k hH with hold | ⟨hv, ht, hpre⟩
    · have hT0 := termAt_back v t k hold hT
      obtain ⟨hkl, hE⟩ := heldLen v t k hold
      have hs1 := s1 t k hE hkl
      rcases hl.h1 v t k hold hT0 with hleft | hbad
      · by_cases hv : v = m
        · subst hv; rw [hnode_m]
          rcases hf.shape with hlog | ⟨ext, _, _, _, hlog, _⟩ | ⟨sender, u, la, p, pt, es, lc, hneta, hu, hrole, hlm, hloop⟩
          · left; rw [hlog, hs1]; exact hleft
          · left
            have hkv : k ≤ (s.nodes v).log.length := aux_take_len_of_eq _ _ k hleft hkl
            rw [hlog, List.take_append_of_le_length hkv, hs1]; exact hleft
          · have htu : t ≤ u := by have := heldTerm v t k hold; omega
            obtain ⟨_, _, f3, _⟩ := aux_ae_facts n v sender s tl hi hw u la p pt es lc st'.log hneta hlm hloop
            by_cases hp : Pre tl t k u
            · left
              have hku : k ≤ (tl u).length := aux_take_len_of_eq _ _ k hp hkl
              rw [f3 k hku (hleft.trans hp.symm), hs1]; exact hp
            · right
              have hlt : t < u := by
                rcases Nat.lt_or_ge t u with h | h
                · exact h
                · have : t = u := by omega
                  subst this; exact (hp (by unfold Pre; rfl)).elim
              have hEu : ∃ c, s.elected c u := ⟨sender, (hi.aeC _ _ _ _ _ _ _ _ hneta).2⟩
              refine ⟨u, hlt, by omega, ?_, fun hp' => hp ((preIff t k u hT0 hlt hEu).1 hp')⟩
              obtain ⟨c, hc⟩ := hEu; exact ⟨c, hel c u hc⟩
        · rw [hnode_ne v hv]; left; rw [hs1]; exact hleft
      · right; exact badFwd t k _ _ hT0 (by have := termAll v; omega) hbad
    · left; rw [hv, hnode_m]; exact hpre
  · -- mv
    intro c v u hnet hterm hrole t k htu hH hT
    have transfer : ∀ (L : List Entry), Held s tl v t k → TermAt tl t k →
        (L.take k = (tl t).take k ∨ Bad s tl t k u ∨ ∃ c', s.elected c' u) →
        (L.take k = (tl' t).take k ∨ Bad (s.update m st' out) tl' t k u ∨
          ∃ c', (s.update m st' out).elected c' u) := by
      intro L hold hT0 h
      obtain ⟨hkl, hE⟩ := heldLen v t k hold
      rcases h with h | h | ⟨c', h⟩
      · left; rw [s1 t k hE hkl]; exact h
      · right; left; exact badFwd t k u u hT0 (le_refl _) h
      · right; right; exact ⟨c', hel c' u h⟩
    rcases hnet with hold | ⟨h1, h2⟩
    · have hvt : u ≤ (s.nodes v).term := (he.grantPins v c u (Or.inl hold)).1
      have hHold : Held s tl v t k := by
        rcases heldNew v t k hH with h | ⟨hv, ht, _⟩
        · exact h
        · exfalso; rw [hv] at hvt; omega
      have hT0 := termAt_back v t k hHold hT
      by_cases hc : c = m
      · subst hc; rw [hnode_m] at hterm hrole ⊢
        rcases aux_cand_of_eff n c s.net _ st' out hf.eff hrole with ⟨hr0, ht0⟩ | hlt
        · rw [candLog hrole]
          exact transfer _ hHold hT0 (hl.mv c v u hold (by omega) hr0 t k htu hHold hT0)
        · have := hl.vr c v u hold; omega
      · rw [hnode_ne c hc] at hterm hrole ⊢
        exact transfer _ hHold hT0 (hl.mv c v u hold hterm hrole t k htu hHold hT0)
    · simp only at h1 h2
      obtain ⟨hu, hlog, lli, llt, hreq, hpg⟩ := hf.grant c u h2
      have hcm : c ≠ m := by
        have := (he.wfNet _ hreq).2.2
        simp only at this
        exact fun h => this h.symm
      rw [hnode_ne c hcm] at hterm hrole ⊢
      rw [h1] at hH
      have hHold : Held s tl m t k := by
        rcases heldNew m t k hH with h | ⟨_, ht, _⟩
        · exact h
        · exfalso; omega
      have hT0 := termAt_back m t k hHold hT
      have hpos := (hl.rq m c u lli llt hreq).2 hterm hrole
      have hHv : Held s tl v t k := by rw [h1]; exact hHold
      apply transfer _ hHv hT0
      rcases hl.h1 m t k hHold hT0 with hleft | ⟨u2, b1, b2, b3, b4⟩
      · have ht1 : 1 ≤ t := by
          obtain ⟨_, e, he0, het⟩ := hT0
          have := (hi.posT t e (List.mem_of_getElem? he0)).1; omega
        rw [← hpos] at hpg
        rcases aux_uptodate tl (s.nodes m).log (s.nodes c).log t k hl.tlSorted (hi.nodeB m) (hi.nodeB c)
            (hw.logWf m) (hw.logWf c) ht1 hT0 hleft hpg with h | ⟨ec, hlast, htec, hnp⟩
        · exact Or.inl h
        · have hmem : ec ∈ (s.nodes c).log := by
            rw [List.getLast?_eq_getElem?] at hlast
            exact List.mem_of_getElem? hlast
          have hb := hl.tbN c ec hmem
          have hE := (hi.pos c ec hmem).2
          rcases Nat.lt_or_ge ec.term u with hlt | hge
          · exact Or.inr (Or.inl ⟨ec.term, htec, hlt, hE, hnp⟩)
          · have : ec.term = u := by omega
            rw [this] at hE; exact Or.inr (Or.inr hE)
      · rcases Nat.lt_or_ge u2 u with hlt | hge
        · exact Or.inr (Or.inl ⟨u2, b1, hlt, b3, b4⟩)
        · have : u2 = u := by omega
          rw [this] at b3; exact Or.inr (Or.inr b3)
  · -- eq
    intro c u hE
    have transferQ : ∀ v, u ≤ (s.nodes v).term →
        (∀ t k, t < u → Held s tl v t k → TermAt tl t k → Pre tl t k u ∨ Bad s tl t k u) →
        (∃ c0, s.elected c0 u) →
        ∀ t k, t < u → Held (s.update m st' out) tl' v t k → TermAt tl' t k →
          Pre tl' t k u ∨ Bad (s.update m st' out) tl' t k u := by
      intro v hvt hP hEu t k htu hH hT
      have hHold : Held s tl v t k := by
        rcases heldNew v t k hH with h | ⟨hv, ht, _⟩
        · exact h
        · exfalso; rw [hv] at hvt; omega
      have hT0 := termAt_back v t k hHold hT
      rcases hP t k htu hHold hT0 with h | h
      · left; exact (preIff t k u hT0 htu hEu).2 h
      · right; exact badFwd t k u u hT0 (le_refl _) h
    by_cases hold : s.elected c u
    · obtain ⟨Q, nd, maj, hq⟩ := hl.eq c u hold
      refine ⟨Q, nd, maj, fun v hv => ?_⟩
      obtain ⟨hvn, hvt, hP⟩ := hq v hv
      exact ⟨hvn, le_trans hvt (termAll v), transferQ v hvt hP ⟨c, hold⟩⟩
    · rcases hE with hE | ⟨h1, h2, h3⟩
      · exact absurd hE hold
      · have hnone : ∀ c0, ¬ s.elected c0 u := by
          rcases hf.cf.lead h2 with ⟨hr0, ht0⟩ | hn
          · exfalso; apply hold; rw [h1, ← h3, ht0]; exact he.leaderRecorded m hr0
          · rw [h3] at hn; exact hn
        have hwin : ((s.nodes m).role = .candidate ∧ st'.term = (s.nodes m).term) ∨
            st'.term = (s.nodes m).term + 1 := by
          rcases aux_eff_facts n m s.net (s.nodes m) st' out hf.eff (hi.nfPos m) with ⟨_, hc⟩ | ⟨_, f2, _, _⟩
          · exact hc
          · exfalso
            obtain ⟨hr0, ht0⟩ := f2 h2
            apply hold; rw [h1, ← h3, ht0]; exact he.leaderRecorded m hr0
        have hlog : st'.log = (s.nodes m).log := by
          rcases hf.shape with hlog | ⟨ext, hr0, _, ht0, _, _⟩ | ⟨_, _, _, _, _, _, _, _, _, hr1, _⟩
          · exact hlog
          · exfalso; apply hold; rw [h1, ← h3, ht0]; exact he.leaderRecorded m hr0
          · rw [hr1] at h2; cases h2
        have htlu : tl' u = (s.nodes m).log := by rw [← h3, hlead_tl h2, hlog]
        have e' : (s.update m st' out).elected m u := Or.inr ⟨rfl, h2, h3⟩
        obtain ⟨_, Q, nd, maj, hq⟩ := he'.electedQuorum m u e'
        refine ⟨Q, nd, maj, fun v hv => ?_⟩
        obtain ⟨hvn, hg⟩ := hq v hv
        have fromLog : ∀ t k, Held s tl v t k → TermAt tl t k →
            (s.nodes m).log.take k = (tl t).take k → Pre tl' t k u := by
          intro t k hH0 hT0 h
          obtain ⟨hkl, hEt⟩ := heldLen v t k hH0
          unfold Pre; rw [htlu, s1 t k hEt hkl]; exact h
        rcases hg with hmsg | ⟨hvm, _⟩
        · have hvne : m ≠ v := by
            have := (he'.wfNet _ hmsg).2.2
            simpa using this
          rcases hmsg with hmsg | ⟨h1', _⟩
          · have hvt : u ≤ (s.nodes v).term := (he.grantPins v m u (Or.inl hmsg)).1
            refine ⟨hvn, by rw [hnode_ne v (Ne.symm hvne)]; exact hvt, ?_⟩
            intro t k htu hH hT
            have hHold : Held s tl v t k := by
              rcases heldNew v t k hH with h | ⟨hv', _, _⟩
              · exact h
              · exact absurd hv'.symm hvne
            have hT0 := termAt_back v t k hHold hT
            rcases hwin with ⟨hr0, ht0⟩ | ht0
            · rcases hl.mv m v u hmsg (by omega) hr0 t k htu hHold hT0 with h | h | ⟨c0, h⟩
              · exact Or.inl (fromLog t k hHold hT0 h)
              · exact Or.inr (badFwd t k u u hT0 (le_refl _) h)
              · exact absurd h (hnone c0)
            · have := hl.vr m v u hmsg; omega
          · simp only at h1'; exact absurd h1'.symm hvne
        · refine ⟨hvn, by rw [hvm, hnode_m]; omega, ?_⟩
          intro t k htu hH hT
          rw [hvm] at hH
          have hHold : Held s tl m t k := by
            rcases heldNew m t k hH with h | ⟨_, ht, _⟩
            · exact h
            · exfalso; omega
          have hT0 := termAt_back m t k hHold hT
          rcases hl.h1 m t k hHold hT0 with h | ⟨u2, b1, b2, b3, b4⟩
          · left; exact fromLog t k (by rw [hvm]; exact hHold) hT0 h
          · right
            have hne : u2 ≠ u := by
              intro h; rw [h] at b3; obtain ⟨c0, hc0⟩ := b3; exact hnone c0 hc0
            exact badFwd t k u u hT0 (le_refl _) ⟨u2, b1, by omega, b3, b4⟩

end HvProto.Raft
