/-
  Log matching (RAFT §5.3) for the system of Spec/Raft.lean.
  Ghost `tl : Nat → List Entry` ("term log"): `tl t` is the log of the (unique) leader of term `t` as of
  its last step as leader.  Every log position holding an entry of term `t` agrees with `tl t` on the
  whole prefix up to that position; hence two logs that hold the same term at a position agree up to it.
-/
import HvProto.Lemmas.RaftLog

namespace HvProto.Raft

/-- every position of `L` agrees, as a prefix, with the term log of the entry it holds -/
def Agree (tl : Nat → List Entry) (L : List Entry) : Prop :=
  ∀ i e, L[i]? = some e → (tl e.term).take (i + 1) = L.take (i + 1)

theorem aux_agree_nil (tl : Nat → List Entry) : Agree tl [] := by intro i e h; simp at h

theorem aux_take_succ_of_get (L : List Entry) (i : Nat) (e : Entry) (h : L[i]? = some e) :
    L.take (i + 1) = L.take i ++ [e] := by
  rw [List.take_add_one, h]; rfl

theorem aux_agree_take (tl : Nat → List Entry) (L : List Entry) (k : Nat) (h : Agree tl L) :
    Agree tl (L.take k) := by
  intro i e he
  rw [List.getElem?_take] at he
  split at he
  · next hik =>
    rw [h i e he, List.take_take]
    congr 1; omega
  · cases he

/-- if `L` and `X` agree up to `k` and `X` is self-consistent, then `L.take k` … -/
theorem aux_agree_of_prefix (tl : Nat → List Entry) (X L : List Entry) (k : Nat) (hX : Agree tl X)
    (h : L = X.take k) : Agree tl L := by
  subst h; exact aux_agree_take tl X k hX

theorem aux_agree_push (tl : Nat → List Entry) (L : List Entry) (e : Entry) (h : Agree tl L)
    (he : (tl e.term).take (L.length + 1) = L ++ [e]) : Agree tl (L ++ [e]) := by
  intro i x hx
  by_cases hi : i < L.length
  · rw [List.getElem?_append_left hi] at hx
    rw [h i x hx, List.take_append_of_le_length (by omega)]
  · rw [List.getElem?_append_right (by omega)] at hx
    by_cases h0 : i - L.length = 0
    · rw [h0] at hx; simp at hx; subst hx
      have : i = L.length := by omega
      subst this
      rw [he]; simp
    · have : ([e] : List Entry)[i - L.length]? = none := by
        apply List.getElem?_eq_none; simp; omega
      rw [this] at hx; cases hx

/-- the append loop keeps a log in agreement with the term logs, when the incoming segment is a
    segment of the leader's term log `X` and the log agrees with `X` up to `p` -/
theorem aux_appendLoop_agree (tl : Nat → List Entry) (X : List Entry) (hX : Agree tl X) (es : List Entry) :
    ∀ (L : List Entry) (ci p : Nat) (L' : List Entry),
    Agree tl L → LogWf L → Consec p es → p ≤ L.length → L.take p = X.take p →
    X.take p ++ es = X.take (p + es.length) →
    appendEntriesLoop L ci es = some L' → Agree tl L' := by
  induction es with
  | nil =>
    intro L ci p L' hA _ _ _ _ _ h
    simp only [appendEntriesLoop] at h
    injection h with h; subst h; exact hA
  | cons e rest ih =>
    intro L ci p L' hA hw hcs hp hLX hseg h
    obtain ⟨he, hrest⟩ := aux_consec_tail p e rest hcs
    -- `e` is `X[p]`
    have hlen : p + (rest.length + 1) ≤ X.length := by
      have := congrArg List.length hseg
      simp [List.length_take] at this
      omega
    have hXp : X[p]? = some e := by
      have h1 : (X.take p ++ e :: rest)[p]? = some e := by
        rw [List.getElem?_append_right (by simp [List.length_take])]
        have : min p X.length = p := by omega
        simp [List.length_take, this]
      rw [hseg, List.getElem?_take] at h1
      simpa [show p < p + (e :: rest).length by simp] using h1
    have hXsucc : X.take (p + 1) = X.take p ++ [e] := aux_take_succ_of_get X p e hXp
    have hseg' : X.take (p + 1) ++ rest = X.take (p + 1 + rest.length) := by
      rw [hXsucc, List.append_assoc]
      simpa [Nat.add_assoc, Nat.add_comm 1] using hseg
    unfold appendEntriesLoop at h
    split at h
    · next hlenL =>
      split at h
      · split at h
        · -- conflict: truncate and push
          have hL1 : List.take (e.index - 1) L ++ [e] = X.take (p + 1) := by
            rw [hXsucc, he]; simp [hLX]
          rw [hL1] at h
          refine ih (X.take (p + 1)) ci (p + 1) L' (aux_agree_take tl X _ hX) ?_ hrest ?_ ?_ hseg' h
          · rw [← hL1]; apply aux_logwf_push _ _ (aux_logwf_take _ _ hw); simp [List.length_take]; omega
          · simp [List.length_take]; omega
          · simp
        · cases h
      · next hsame =>
        -- same term at position p: the prefixes up to p+1 coincide
        have hLp : ∃ e', L[p]? = some e' := by
          have : p < L.length := by simp at hlenL; omega
          exact ⟨L[p], by simp [this]⟩
        obtain ⟨e', he'⟩ := hLp
        have hterm : e'.term = e.term := by
          simp [entryAt, he, he'] at hsame
          exact hsame
        have h1 := hA p e' he'
        have h2 := hX p e hXp
        rw [hterm] at h1
        have hLX' : L.take (p + 1) = X.take (p + 1) := by rw [← h1, h2]
        have hp' : p + 1 ≤ L.length := by simp at hlenL; omega
        exact ih L ci (p + 1) L' hA hw hrest hp' hLX' hseg' h
    · next hlenL =>
      have hl : L.length = p := by simp at hlenL; omega
      have hL1 : L ++ [e] = X.take (p + 1) := by
        rw [hXsucc, ← hLX, ← hl]; simp
      rw [hL1] at h
      refine ih (X.take (p + 1)) ci (p + 1) L' (aux_agree_take tl X _ hX) ?_ hrest ?_ ?_ hseg' h
      · rw [← hL1]; exact aux_logwf_push _ _ hw (by omega)
      · simp [List.length_take]; omega
      · simp

/-- the shape of an `AppendEntries` w.r.t. the term log of its term: either it was cut beyond the end of
    the leader's log (`prev_log_term = 0`, no entries: it can never match), or it is a segment of it -/
def AeOk (tl : Nat → List Entry) (t p pt : Nat) (es : List Entry) : Prop :=
  (pt = 0 ∧ p ≠ 0 ∧ es = []) ∨
  (p ≤ (tl t).length ∧ (tl t).take p ++ es = (tl t).take (p + es.length) ∧
    (p = 0 ∨ ∃ e, (tl t)[p - 1]? = some e ∧ e.term = pt))

structure TInv (n : Nat) (s : Sys) (tl : Nat → List Entry) : Prop where
  leaderLog : ∀ c, (s.nodes c).role = .leader → tl (s.nodes c).term = (s.nodes c).log
  nodeB : ∀ v, Agree tl (s.nodes v).log
  tlB : ∀ u, Agree tl (tl u)
  aeC : ∀ dst frm t l p pt es lc, s.net ⟨dst, frm, .appendEntries t l p pt es lc⟩ →
      AeOk tl t p pt es ∧ s.elected frm t
  pos : ∀ v e, e ∈ (s.nodes v).log → 1 ≤ e.term ∧ ∃ c, s.elected c e.term
  posT : ∀ u e, e ∈ tl u → 1 ≤ e.term ∧ ∃ c, s.elected c e.term
  nfPos : ∀ c, (s.nodes c).role ≠ .follower → 1 ≤ (s.nodes c).term
  electedStays : ∀ c t, s.elected c t → (s.nodes c).term = t → (s.nodes c).role = .leader

/-- U1: a step of member `m` that creates no new leadership and keeps `tl` -/
theorem aux_tinv_keep (n m : Nat) (s : Sys) (tl : Nat → List Entry) (hi : TInv n s tl) (he : EInv n s)
    (st' : NodeState) (out : List (Nat × Rpc))
    (h_term : (s.nodes m).term ≤ st'.term)
    (h_lead : st'.role = .leader → (s.nodes m).role = .leader ∧ st'.term = (s.nodes m).term ∧ st'.log = (s.nodes m).log)
    (h_stay : (s.nodes m).role = .leader → st'.term = (s.nodes m).term → st'.role = .leader)
    (h_agree : Agree tl st'.log)
    (h_pos : ∀ e, e ∈ st'.log → 1 ≤ e.term ∧ ∃ c, s.elected c e.term)
    (h_nf : st'.role ≠ .follower → 1 ≤ st'.term)
    (h_ae : ∀ x ∈ out, ∀ t l p pt es lc, x.2 = .appendEntries t l p pt es lc →
        AeOk tl t p pt es ∧ (s.elected m t ∨ (st'.role = .leader ∧ st'.term = t))) :
    TInv n (s.update m st' out) tl := by
  have hnode_m : (s.update m st' out).nodes m = st' := by simp [Sys.update]
  have hnode_ne : ∀ x, x ≠ m → (s.update m st' out).nodes x = s.nodes x := by
    intro x hx; simp [Sys.update, hx]
  have hel : ∀ c t, s.elected c t → (s.update m st' out).elected c t := fun c t h => Or.inl h
  constructor
  · intro c hr
    by_cases hc : c = m
    · subst hc; rw [hnode_m] at hr ⊢
      obtain ⟨a, b, c'⟩ := h_lead hr
      rw [b, c']; exact hi.leaderLog c a
    · rw [hnode_ne c hc] at hr ⊢; exact hi.leaderLog c hr
  · intro v
    by_cases hv : v = m
    · subst hv; rw [hnode_m]; exact h_agree
    · rw [hnode_ne v hv]; exact hi.nodeB v
  · exact hi.tlB
  · intro dst frm t l p pt es lc h
    rcases h with h | ⟨h1, h2⟩
    · obtain ⟨a, b⟩ := hi.aeC _ _ _ _ _ _ _ _ h
      exact ⟨a, hel _ _ b⟩
    · simp only at h1 h2
      obtain ⟨a, b⟩ := h_ae _ h2 t l p pt es lc rfl
      refine ⟨a, ?_⟩
      rw [h1]
      rcases b with b | ⟨b1, b2⟩
      · exact Or.inl b
      · exact Or.inr ⟨rfl, b1, b2⟩
  · intro v e hmem
    by_cases hv : v = m
    · subst hv; rw [hnode_m] at hmem
      obtain ⟨a, c, hc⟩ := h_pos e hmem
      exact ⟨a, c, hel _ _ hc⟩
    · rw [hnode_ne v hv] at hmem
      obtain ⟨a, c, hc⟩ := hi.pos v e hmem
      exact ⟨a, c, hel _ _ hc⟩
  · intro u e hmem
    obtain ⟨a, c, hc⟩ := hi.posT u e hmem
    exact ⟨a, c, hel _ _ hc⟩
  · intro c hr
    by_cases hc : c = m
    · subst hc; rw [hnode_m] at hr ⊢; exact h_nf hr
    · rw [hnode_ne c hc] at hr ⊢; exact hi.nfPos c hr
  · intro c t hE hT
    by_cases hc : c = m
    · subst hc; rw [hnode_m] at hT ⊢
      rcases hE with hE | ⟨_, h2, _⟩
      · have hp := (he.grantPins c c t (Or.inr ⟨rfl, hE⟩)).1
        have hst : (s.nodes c).term = t := by omega
        exact h_stay (hi.electedStays c t hE hst) (by omega)
      · exact h2
    · rw [hnode_ne c hc] at hT ⊢
      rcases hE with hE | ⟨h1, _⟩
      · exact hi.electedStays c t hE hT
      · exact absurd h1 hc

def tlSet (tl : Nat → List Entry) (t : Nat) (L : List Entry) : Nat → List Entry :=
  fun u => if u = t then L else tl u

theorem aux_agree_tlSet_noterm (tl : Nat → List Entry) (t : Nat) (X L : List Entry) (h : Agree tl L)
    (hno : ∀ e, e ∈ L → e.term ≠ t) : Agree (tlSet tl t X) L := by
  intro i e he
  have hmem : e ∈ L := List.mem_of_getElem? he
  simp only [tlSet, hno e hmem, if_false]
  exact h i e he

/-- U3: member `m` becomes the leader of a term in which nobody was elected before -/
theorem aux_tinv_win (n m : Nat) (s : Sys) (tl : Nat → List Entry) (hi : TInv n s tl) (he : EInv n s)
    (st' : NodeState) (out : List (Nat × Rpc))
    (h_role : st'.role = .leader) (h_log : st'.log = (s.nodes m).log) (h_pos : 1 ≤ st'.term)
    (h_none : ∀ c, ¬ s.elected c st'.term)
    (h_ae : ∀ x ∈ out, ∀ t l p pt es lc, x.2 ≠ .appendEntries t l p pt es lc) :
    TInv n (s.update m st' out) (tlSet tl st'.term st'.log) := by
  have hnode_m : (s.update m st' out).nodes m = st' := by simp [Sys.update]
  have hnode_ne : ∀ x, x ≠ m → (s.update m st' out).nodes x = s.nodes x := by
    intro x hx; simp [Sys.update, hx]
  have hel : ∀ c t, s.elected c t → (s.update m st' out).elected c t := fun c t h => Or.inl h
  have noLog : ∀ v e, e ∈ (s.nodes v).log → e.term ≠ st'.term := by
    intro v e hm hte
    obtain ⟨_, c, hc⟩ := hi.pos v e hm
    rw [hte] at hc; exact h_none c hc
  have noTl : ∀ u e, e ∈ tl u → e.term ≠ st'.term := by
    intro u e hm hte
    obtain ⟨_, c, hc⟩ := hi.posT u e hm
    rw [hte] at hc; exact h_none c hc
  constructor
  · intro c hr
    by_cases hc : c = m
    · subst hc; rw [hnode_m]; simp [tlSet]
    · rw [hnode_ne c hc] at hr ⊢
      have hne : (s.nodes c).term ≠ st'.term := by
        intro hte
        have := he.leaderRecorded c hr
        rw [hte] at this; exact h_none c this
      simp only [tlSet, hne, if_false]
      exact hi.leaderLog c hr
  · intro v
    by_cases hv : v = m
    · subst hv; rw [hnode_m, h_log]
      exact aux_agree_tlSet_noterm tl _ _ _ (hi.nodeB v) (noLog v)
    · rw [hnode_ne v hv]
      exact aux_agree_tlSet_noterm tl _ _ _ (hi.nodeB v) (noLog v)
  · intro u
    by_cases hu : u = st'.term
    · simp only [tlSet, hu, if_true]
      have := aux_agree_tlSet_noterm tl st'.term st'.log _ (hi.nodeB m) (noLog m)
      rw [h_log]; rw [h_log] at this; simpa [tlSet] using this
    · have := aux_agree_tlSet_noterm tl st'.term st'.log _ (hi.tlB u) (noTl u)
      simpa [tlSet, hu] using this
  · intro dst frm t l p pt es lc h
    rcases h with h | ⟨_, h2⟩
    · obtain ⟨a, b⟩ := hi.aeC _ _ _ _ _ _ _ _ h
      have hne : t ≠ st'.term := by intro hte; rw [hte] at b; exact h_none _ b
      refine ⟨?_, hel _ _ b⟩
      simpa [AeOk, tlSet, hne] using a
    · exact absurd rfl (h_ae _ h2 t l p pt es lc)
  · intro v e hmem
    by_cases hv : v = m
    · subst hv; rw [hnode_m, h_log] at hmem
      obtain ⟨a, c, hc⟩ := hi.pos v e hmem
      exact ⟨a, c, hel _ _ hc⟩
    · rw [hnode_ne v hv] at hmem
      obtain ⟨a, c, hc⟩ := hi.pos v e hmem
      exact ⟨a, c, hel _ _ hc⟩
  · intro u e hmem
    by_cases hu : u = st'.term
    · simp only [tlSet, hu, if_true] at hmem
      rw [h_log] at hmem
      obtain ⟨a, c, hc⟩ := hi.pos m e hmem
      exact ⟨a, c, hel _ _ hc⟩
    · simp only [tlSet, hu, if_false] at hmem
      obtain ⟨a, c, hc⟩ := hi.posT u e hmem
      exact ⟨a, c, hel _ _ hc⟩
  · intro c hr
    by_cases hc : c = m
    · subst hc; rw [hnode_m]; exact h_pos
    · rw [hnode_ne c hc] at hr ⊢; exact hi.nfPos c hr
  · intro c t hE hT
    by_cases hc : c = m
    · subst hc; rw [hnode_m]; exact h_role
    · rw [hnode_ne c hc] at hT ⊢
      rcases hE with hE | ⟨h1, _⟩
      · exact hi.electedStays c t hE hT
      · exact absurd h1 hc

theorem aux_agree_ext (tl : Nat → List Entry) (t : Nat) (ext L : List Entry) (h : Agree tl L) :
    Agree (tlSet tl t (tl t ++ ext)) L := by
  intro i e he
  by_cases hte : e.term = t
  · simp only [tlSet, hte, if_true]
    have h1 := h i e he
    rw [hte] at h1
    have hlen : i + 1 ≤ (tl t).length := by
      have := congrArg List.length h1
      have hi : i < L.length := by
        by_contra hn
        have : L[i]? = none := List.getElem?_eq_none (by omega)
        rw [this] at he; cases he
      simp [List.length_take] at this
      omega
    rw [List.take_append_of_le_length hlen]; exact h1
  · simp only [tlSet, hte, if_false]; exact h i e he

theorem aux_aeok_ext (tl : Nat → List Entry) (t : Nat) (ext : List Entry) (t' p pt : Nat) (es : List Entry)
    (h : AeOk tl t' p pt es) : AeOk (tlSet tl t (tl t ++ ext)) t' p pt es := by
  by_cases hte : t' = t
  · subst hte
    rcases h with h | ⟨h1, h2, h3⟩
    · exact Or.inl h
    · right
      have hlen : p + es.length ≤ (tl t').length := by
        have := congrArg List.length h2
        simp [List.length_take] at this
        omega
      simp only [tlSet, if_true]
      refine ⟨by simp; omega, ?_, ?_⟩
      · rw [List.take_append_of_le_length (by omega), List.take_append_of_le_length hlen]; exact h2
      · rcases h3 with h3 | ⟨e, h3, h4⟩
        · exact Or.inl h3
        · right
          refine ⟨e, ?_, h4⟩
          have hp1 : p - 1 < (tl t').length := by
            by_contra hn
            have : (tl t')[p - 1]? = none := List.getElem?_eq_none (by omega)
            rw [this] at h3; cases h3
          rw [List.getElem?_append_left hp1]; exact h3
  · simpa [AeOk, tlSet, hte] using h

/-- U2: the leader `m` of term `t` appends entries of term `t` to its log -/
theorem aux_tinv_append (n m : Nat) (s : Sys) (tl : Nat → List Entry) (hi : TInv n s tl) (he : EInv n s)
    (st' : NodeState) (ext : List Entry)
    (h_leader : (s.nodes m).role = .leader)
    (h_role : st'.role = .leader) (h_term : st'.term = (s.nodes m).term)
    (h_log : st'.log = (s.nodes m).log ++ ext) (h_ext : ∀ e, e ∈ ext → e.term = (s.nodes m).term) :
    TInv n (s.update m st' []) (tlSet tl st'.term st'.log) := by
  have hnode_m : (s.update m st' []).nodes m = st' := by simp [Sys.update]
  have hnode_ne : ∀ x, x ≠ m → (s.update m st' []).nodes x = s.nodes x := by
    intro x hx; simp [Sys.update, hx]
  have hel : ∀ c t, s.elected c t → (s.update m st' []).elected c t := fun c t h => Or.inl h
  have htl : tl (s.nodes m).term = (s.nodes m).log := hi.leaderLog m h_leader
  have hset : tlSet tl st'.term st'.log = tlSet tl (s.nodes m).term (tl (s.nodes m).term ++ ext) := by
    rw [h_term, h_log, htl]
  have hElected : s.elected m (s.nodes m).term := he.leaderRecorded m h_leader
  have hposT : 1 ≤ (s.nodes m).term := hi.nfPos m (by rw [h_leader]; simp)
  -- agreement of the new log with the new term log
  have hAgreeNew : Agree (tlSet tl (s.nodes m).term (tl (s.nodes m).term ++ ext)) ((s.nodes m).log ++ ext) := by
    intro i e hget
    by_cases hte : e.term = (s.nodes m).term
    · simp only [tlSet, hte, if_true, htl]
    · have hi' : i < (s.nodes m).log.length := by
        by_contra hn
        rw [List.getElem?_append_right (by omega)] at hget
        exact hte (h_ext e (List.mem_of_getElem? hget))
      rw [List.getElem?_append_left hi'] at hget
      have := aux_agree_ext tl (s.nodes m).term ext _ (hi.nodeB m) i e hget
      rw [this, List.take_append_of_le_length (by omega)]
  constructor
  · intro c hr
    by_cases hc : c = m
    · subst hc; rw [hnode_m]; simp [tlSet]
    · rw [hnode_ne c hc] at hr ⊢
      have hne : (s.nodes c).term ≠ st'.term := by
        intro hte
        have h1 := he.leaderRecorded c hr
        rw [hte, h_term] at h1
        exact hc (aux_einv_safety n s he c m _ h1 hElected)
      simp only [tlSet, hne, if_false]
      exact hi.leaderLog c hr
  · intro v
    rw [hset]
    by_cases hv : v = m
    · subst hv; rw [hnode_m, h_log]; exact hAgreeNew
    · rw [hnode_ne v hv]; exact aux_agree_ext tl _ ext _ (hi.nodeB v)
  · intro u
    rw [hset]
    by_cases hu : u = (s.nodes m).term
    · simp only [tlSet, hu, if_true]
      have := hAgreeNew
      rw [← htl] at this
      simpa [tlSet] using this
    · have := aux_agree_ext tl (s.nodes m).term ext _ (hi.tlB u)
      simpa [tlSet, hu] using this
  · intro dst frm t l p pt es lc h
    rcases h with h | ⟨_, h2⟩
    · obtain ⟨a, b⟩ := hi.aeC _ _ _ _ _ _ _ _ h
      rw [hset]
      exact ⟨aux_aeok_ext tl _ ext t p pt es a, hel _ _ b⟩
    · cases h2
  · intro v e hmem
    by_cases hv : v = m
    · subst hv; rw [hnode_m, h_log] at hmem
      rcases List.mem_append.1 hmem with hmem | hmem
      · obtain ⟨a, c, hc⟩ := hi.pos v e hmem
        exact ⟨a, c, hel _ _ hc⟩
      · rw [h_ext e hmem]; exact ⟨hposT, v, hel _ _ hElected⟩
    · rw [hnode_ne v hv] at hmem
      obtain ⟨a, c, hc⟩ := hi.pos v e hmem
      exact ⟨a, c, hel _ _ hc⟩
  · intro u e hmem
    by_cases hu : u = st'.term
    · simp only [tlSet, hu, if_true] at hmem
      rw [h_log] at hmem
      rcases List.mem_append.1 hmem with hmem | hmem
      · obtain ⟨a, c, hc⟩ := hi.pos m e hmem
        exact ⟨a, c, hel _ _ hc⟩
      · rw [h_ext e hmem]; exact ⟨hposT, m, hel _ _ hElected⟩
    · simp only [tlSet, hu, if_false] at hmem
      obtain ⟨a, c, hc⟩ := hi.posT u e hmem
      exact ⟨a, c, hel _ _ hc⟩
  · intro c hr
    by_cases hc : c = m
    · subst hc; rw [hnode_m, h_term]; exact hposT
    · rw [hnode_ne c hc] at hr ⊢; exact hi.nfPos c hr
  · intro c t hE hT
    by_cases hc : c = m
    · subst hc; rw [hnode_m]; exact h_role
    · rw [hnode_ne c hc] at hT ⊢
      rcases hE with hE | ⟨h1, _⟩
      · exact hi.electedStays c t hE hT
      · exact absurd h1 hc

/-! dispatch over the micro steps -/

theorem aux_appendLoop_mem (es : List Entry) : ∀ (L : List Entry) (ci : Nat) (L' : List Entry),
    appendEntriesLoop L ci es = some L' → ∀ e, e ∈ L' → e ∈ L ∨ e ∈ es := by
  induction es with
  | nil => intro L ci L' h e he; simp only [appendEntriesLoop] at h; injection h with h; subst h; exact Or.inl he
  | cons x rest ih =>
    intro L ci L' h e he
    unfold appendEntriesLoop at h
    split at h
    · split at h
      · split at h
        · rcases ih _ ci L' h e he with h1 | h1
          · rcases List.mem_append.1 h1 with h2 | h2
            · exact Or.inl (List.mem_of_mem_take h2)
            · simp at h2; subst h2; exact Or.inr (by simp)
          · exact Or.inr (List.mem_cons_of_mem _ h1)
        · cases h
      · rcases ih _ ci L' h e he with h1 | h1
        · exact Or.inl h1
        · exact Or.inr (List.mem_cons_of_mem _ h1)
    · rcases ih _ ci L' h e he with h1 | h1
      · rcases List.mem_append.1 h1 with h2 | h2
        · exact Or.inl h2
        · simp at h2; subst h2; exact Or.inr (by simp)
      · exact Or.inr (List.mem_cons_of_mem _ h1)

/-- how one message changes the log: not at all, or by the append loop of a current-term `AppendEntries` -/
theorem aux_handleMsg_logshape (oth : List Nat) (maj sender : Nat) (st st' : NodeState) (rpc : Rpc)
    (out : List (Nat × Rpc)) (h : handleMsg oth maj st sender rpc = some (st', out)) :
    (∀ x ∈ out, ∀ t l p pt es lc, x.2 ≠ .appendEntries t l p pt es lc) ∧
    (st'.log = st.log ∨
      ∃ t l p pt es lc, rpc = .appendEntries t l p pt es lc ∧ t = st'.term ∧ st'.role ≠ .leader ∧
        logMatches st.log p pt = true ∧ appendEntriesLoop st.log st.commitIndex es = some st'.log) := by
  obtain ⟨o1, o2, _⟩ := aux_observeTerm_log st (match rpc with
    | .requestVote t _ _ => t | .requestVoteResponse t => t
    | .appendEntries t _ _ _ _ _ => t | .appendEntriesReply t _ _ => t)
  cases rpc with
  | requestVote term lli llt =>
    simp only at o1
    simp only [handleMsg] at h
    split at h
    · injection h with h
      unfold onRequestVote at h; dsimp only at h
      split at h <;> (injection h with e1 e2; subst e1; subst e2; exact ⟨by simp, Or.inl o1⟩)
    · injection h with h; injection h with e1 e2; subst e1; subst e2; exact ⟨by simp, Or.inl o1⟩
  | requestVoteResponse term =>
    simp only at o1
    simp only [handleMsg] at h
    split at h
    · injection h with h
      unfold onVoteResponse at h
      split at h
      · dsimp only at h
        split at h <;> (injection h with e1 e2; subst e1; subst e2; exact ⟨by simp, Or.inl o1⟩)
      · injection h with e1 e2; subst e1; subst e2; exact ⟨by simp, Or.inl o1⟩
    · injection h with h; injection h with e1 e2; subst e1; subst e2; exact ⟨by simp, Or.inl o1⟩
  | appendEntries term leader prev prevTerm entries leaderCommit =>
    simp only at o1 o2
    simp only [handleMsg] at h
    split at h
    · next hcur =>
      have hterm : term = (observeTerm st term).1.term := by
        rcases aux_observeTerm st term with ⟨h1, _, h4⟩ | ⟨_, _, h4, _⟩
        · rw [h1]; exact h4.1 hcur
        · exact h4.symm
      unfold onAppendEntries at h
      split at h
      · cases h
      · next hnl =>
        have hrole : ∀ l, (aeAccept (observeTerm st term).1 l).role ≠ .leader := by
          intro l; unfold aeAccept
          by_cases hr : (observeTerm st term).1.role = .candidate
          · simp [hr]
          · have : ((observeTerm st term).1.role == Role.candidate) = false := by simpa using hr
            simp only [this]; simpa using hnl
        split at h
        · injection h with h; injection h with e1 e2; subst e1; subst e2
          exact ⟨by simp, Or.inl o1⟩
        · next hlm =>
          split at h
          · cases h
          · next log' hloop =>
            injection h with h; injection h with e1 e2; subst e1; subst e2
            refine ⟨by simp, Or.inr ⟨term, leader, prev, prevTerm, entries, leaderCommit, rfl, hterm, hrole leader, ?_, ?_⟩⟩
            · rw [← o1]; simpa using hlm
            · rw [← o1, ← o2]; exact hloop
    · injection h with h; injection h with e1 e2; subst e1; subst e2; exact ⟨by simp, Or.inl o1⟩
  | appendEntriesReply term success matchIdx =>
    simp only at o1
    simp only [handleMsg] at h
    split at h
    · injection h with h
      unfold onAppendReply at h
      split at h
      · injection h with e1 e2; subst e1; subst e2; exact ⟨by simp, Or.inl o1⟩
      · split at h
        · injection h with e1 e2; subst e1; subst e2; exact ⟨by simp, Or.inl o1⟩
        · split at h <;> (injection h with e1 e2; subst e1; subst e2; exact ⟨by simp, Or.inl o1⟩)
    · injection h with h; injection h with e1 e2; subst e1; subst e2; exact ⟨by simp, Or.inl o1⟩

/-- role/term facts of a step that is not an election win -/
theorem aux_eff_facts (n m : Nat) (net : Envelope → Prop) (st st' : NodeState) (out : List (Nat × Rpc))
    (h : ElecEff n m net st st' out) (hnf : st.role ≠ .follower → 1 ≤ st.term) :
    (st'.role = .leader ∧ ((st.role = .candidate ∧ st'.term = st.term) ∨ st'.term = st.term + 1)) ∨
    (st.term ≤ st'.term ∧ (st'.role = .leader → st.role = .leader ∧ st'.term = st.term) ∧
      (st.role = .leader → st'.term = st.term → st'.role = .leader) ∧
      (st'.role ≠ .follower → 1 ≤ st'.term)) := by
  cases h with
  | same h1 h2 h3 h4 _ =>
    right
    refine ⟨by omega, ?_, ?_, ?_⟩
    · intro hr; exact ⟨by rw [← h3]; exact hr, h1⟩
    · intro hr _; rw [h3]; exact hr
    · intro hr; rw [h1]; exact hnf (by rw [← h3]; exact hr)
  | demote h1 _ h3 h4 _ =>
    right
    refine ⟨by omega, ?_, ?_, ?_⟩
    · intro hr; rw [h3] at hr; cases hr
    · intro hr _; exact absurd hr h4
    · intro hr; exact absurd h3 hr
  | bump h1 _ h3 _ =>
    right
    refine ⟨by omega, ?_, ?_, ?_⟩
    · intro hr; rw [h3] at hr; cases hr
    · intro _ he; omega
    · intro hr; exact absurd h3 hr
  | grant c h1 h2 h3 _ _ _ =>
    right
    refine ⟨h1, ?_, ?_, ?_⟩
    · intro hr
      rcases Nat.lt_or_ge st.term st'.term with hlt | hge
      · rw [h3 hlt] at hr; cases hr
      · have he : st'.term = st.term := by omega
        exact ⟨by rw [← (h2 he).2.1]; exact hr, he⟩
    · intro hr he; rw [(h2 he).2.1]; exact hr
    · intro hr
      rcases Nat.lt_or_ge st.term st'.term with hlt | hge
      · exact absurd (h3 hlt) hr
      · have he : st'.term = st.term := by omega
        rw [he]; exact hnf (by rw [← (h2 he).2.1]; exact hr)
  | vote v h1 _ h3 h4 _ _ _ =>
    right
    refine ⟨by omega, ?_, ?_, ?_⟩
    · intro hr; rw [h4] at hr; cases hr
    · intro hr _; rw [h3] at hr; cases hr
    · intro _; rw [h1]; exact hnf (by rw [h3]; simp)
  | win v h1 _ h3 h4 _ _ _ => left; exact ⟨h4, Or.inl ⟨h3, h1⟩⟩
  | campaign h1 _ h3 _ _ =>
    right
    refine ⟨by omega, ?_, ?_, ?_⟩
    · intro hr; rw [h3] at hr; cases hr
    · intro _ he; omega
    · intro _; omega
  | campaignWin h1 _ h3 _ _ => left; exact ⟨h3, Or.inr h1⟩

theorem aux_none_elected (n m : Nat) (s : Sys) (tl : Nat → List Entry) (hi : TInv n s tl) (he : EInv n s)
    (st' : NodeState) (out : List (Nat × Rpc)) (he' : EInv n (s.update m st' out))
    (hr : st'.role = .leader)
    (hc : ((s.nodes m).role = .candidate ∧ st'.term = (s.nodes m).term) ∨ st'.term = (s.nodes m).term + 1) :
    ∀ c, ¬ s.elected c st'.term := by
  intro c hE
  have h1 : (s.update m st' out).elected c st'.term := Or.inl hE
  have h2 : (s.update m st' out).elected m st'.term := Or.inr ⟨rfl, hr, rfl⟩
  have hcm := aux_einv_safety n _ he' c m _ h1 h2
  subst hcm
  rcases hc with ⟨hcand, hterm⟩ | hterm
  · have := hi.electedStays c st'.term hE hterm.symm
    rw [hcand] at this; cases this
  · have := (he.grantPins c c st'.term (Or.inr ⟨rfl, hE⟩)).1
    omega

theorem aux_entryAt_get (L : List Entry) (p : Nat) (hp : p ≠ 0) (hl : p ≤ L.length) :
    L[p - 1]? = some (entryAt L p) := by
  unfold entryAt
  have : p - 1 < L.length := by omega
  simp [List.getD, List.getElem?_eq_getElem this]

theorem aux_handleRequests_shape (rs : List Nat) : ∀ (st : NodeState) (red : List (Nat × Option Nat)),
    (st.role ≠ .leader → (handleRequests st red rs).1 = st) ∧
    (st.role = .leader → (handleRequests st red rs).1.role = .leader ∧
      (handleRequests st red rs).1.term = st.term ∧
      ∃ ext, (handleRequests st red rs).1.log = st.log ++ ext ∧ ∀ e, e ∈ ext → e.term = st.term) := by
  induction rs with
  | nil => intro st red; simp [handleRequests]
  | cons r rs ih =>
    intro st red
    unfold handleRequests
    constructor
    · intro hr
      have : (st.role == Role.leader) = false := by simpa using hr
      simp only [this]
      exact (ih st _).1 hr
    · intro hr
      have hb : (st.role == Role.leader) = true := by simp [hr]
      simp only [hb, if_true]
      obtain ⟨a, b, ext, c, d⟩ := (ih { st with log := st.log ++ [{ msg := r, term := st.term, index := st.log.length + 1 }] } red).2 hr
      refine ⟨a, b, { msg := r, term := st.term, index := st.log.length + 1 } :: ext, ?_, ?_⟩
      · rw [c]; simp
      · intro e hm
        rcases List.mem_cons.1 hm with hm | hm
        · subst hm; rfl
        · exact d e hm

theorem aux_electionTimer_log (m : Nat) (oth : List Nat) (maj : Nat) (st : NodeState) :
    (electionTimer m oth maj true st).1.log = st.log ∧
    ∀ x ∈ (electionTimer m oth maj true st).2, ∀ t l p pt es lc, x.2 ≠ .appendEntries t l p pt es lc := by
  unfold electionTimer
  split
  · split
    · simp
    · dsimp only
      split
      · simp [becomeLeader]
      · refine ⟨rfl, ?_⟩
        intro x hx t l p pt es lc he
        simp at hx; obtain ⟨a, _, rfl⟩ := hx; simp at he
  · simp

/-- how the ghost term logs move in one step (second half of "`tl u` is the log of the leader of term `u`
    as of the last state in which it was leader"): terms without a current leader keep their term log -/
def TlKeep (s' : Sys) (tl tl' : Nat → List Entry) : Prop :=
  ∀ u, (∀ c, (s'.nodes c).role = .leader → (s'.nodes c).term ≠ u) → tl' u = tl u

/-- the term log of a term that already had a leader only grows by appending -/
def TlMono (s : Sys) (tl tl' : Nat → List Entry) : Prop :=
  ∀ u, (∃ c, s.elected c u) → ∃ ext, tl' u = tl u ++ ext ∧ ∀ e, e ∈ ext → e.term = u

theorem aux_tlkeep_refl (s' : Sys) (tl : Nat → List Entry) : TlKeep s' tl tl := fun _ _ => rfl

theorem aux_tlmono_refl (s : Sys) (tl : Nat → List Entry) : TlMono s tl tl := fun _ _ => ⟨[], by simp, by simp⟩

theorem aux_tlkeep_set (s : Sys) (m : Nat) (st' : NodeState) (out : List (Nat × Rpc)) (tl : Nat → List Entry)
    (L : List Entry) (hr : st'.role = .leader) : TlKeep (s.update m st' out) tl (tlSet tl st'.term L) := by
  intro u hu
  have hne : st'.term ≠ u := by
    have := hu m
    simp only [Sys.update, if_true] at this
    exact this hr
  simp [tlSet, Ne.symm hne]

theorem aux_tinv_micro (n : Nat) (s s' : Sys) (tl : Nat → List Entry) (hi : TInv n s tl) (he : EInv n s)
    (hw : WInv n s) (h : MicroStep n s s') : ∃ tl', TInv n s' tl' ∧ TlKeep s' tl tl' ∧ TlMono s tl tl' := by
  have he' : EInv n s' := aux_einv_micro n s s' he h
  have keep : ∀ {s'}, TInv n s' tl → ∃ tl', TInv n s' tl' ∧ TlKeep s' tl tl' ∧ TlMono s tl tl' :=
    fun h => ⟨tl, h, aux_tlkeep_refl _ _, aux_tlmono_refl _ _⟩
  have win : ∀ (m : Nat) (st' : NodeState) (out : List (Nat × Rpc)), st'.role = .leader →
      (∀ c, ¬ s.elected c st'.term) → TInv n (s.update m st' out) (tlSet tl st'.term st'.log) →
      ∃ tl', TInv n (s.update m st' out) tl' ∧ TlKeep (s.update m st' out) tl tl' ∧ TlMono s tl tl' := by
    intro m st' out hr hnone h
    refine ⟨_, h, aux_tlkeep_set s m st' out tl _ hr, ?_⟩
    intro u ⟨c, hc⟩
    have : u ≠ st'.term := by intro hu; subst hu; exact hnone c hc
    exact ⟨[], by simp [tlSet, this], by simp⟩
  cases h with
  | deliver m sender rpc st' out hm hnet hh =>
    obtain ⟨w1, w2, w3⟩ := he.wfNet _ hnet
    simp only at w1 w2 w3
    have heff := aux_handleMsg_eff n m sender s.net (s.nodes m) st' rpc out (Ne.symm w3) hnet hh
    obtain ⟨hnoae, hshape⟩ := aux_handleMsg_logshape _ _ _ _ _ _ _ hh
    rcases aux_eff_facts n m s.net (s.nodes m) st' out heff (hi.nfPos m) with ⟨hr, hc⟩ | ⟨f1, f2, f3, f4⟩
    · -- election win
      have hlog : st'.log = (s.nodes m).log := by
        rcases hshape with hl | ⟨t, l, p, pt, es, lc, _, _, hnl, _⟩
        · exact hl
        · exact absurd hr hnl
      have hpos : 1 ≤ st'.term := by
        rcases hc with ⟨hcand, hterm⟩ | hterm
        · rw [hterm]; exact hi.nfPos m (by rw [hcand]; simp)
        · omega
      exact win m st' out hr (aux_none_elected n m s tl hi he st' out he' hr hc)
        (aux_tinv_win n m s tl hi he st' out hr hlog hpos
        (aux_none_elected n m s tl hi he st' out he' hr hc) hnoae)
    · refine keep (aux_tinv_keep n m s tl hi he st' out f1 ?_ f3 ?_ ?_ f4 ?_)
      · intro hr
        obtain ⟨a, b⟩ := f2 hr
        refine ⟨a, b, ?_⟩
        rcases hshape with hl | ⟨t, l, p, pt, es, lc, _, _, hnl, _⟩
        · exact hl
        · exact absurd hr hnl
      · -- agreement of the new log
        rcases hshape with hl | ⟨t, l, p, pt, es, lc, hrpc, _, _, hlm, hloop⟩
        · rw [hl]; exact hi.nodeB m
        · subst hrpc
          obtain ⟨hok, _⟩ := hi.aeC _ _ _ _ _ _ _ _ hnet
          have hlm' : p = 0 ∨ (p ≤ (s.nodes m).log.length ∧ (entryAt (s.nodes m).log p).term = pt) := by
            simp only [logMatches] at hlm
            simp at hlm
            rcases hlm with hz | ⟨hz1, hz2⟩
            · exact Or.inl hz
            · exact Or.inr ⟨hz1, hz2⟩
          rcases hok with ⟨h0, hp0, _⟩ | ⟨hpX, hseg, hprev⟩
          · -- a cut-off AppendEntries can never match
            rcases hlm' with hz | ⟨hl1, hl2⟩
            · exact absurd hz hp0
            · have hget := aux_entryAt_get _ p hp0 hl1
              have := (hi.pos m _ (List.mem_of_getElem? hget)).1
              rw [hl2, h0] at this; omega
          · have hp : p ≤ (s.nodes m).log.length := by
              rcases hlm' with hz | ⟨hl1, _⟩
              · omega
              · exact hl1
            have hLX : (s.nodes m).log.take p = (tl t).take p := by
              by_cases hp0 : p = 0
              · subst hp0; simp
              · rcases hlm' with hz | ⟨hl1, hl2⟩
                · exact absurd hz hp0
                · have hget := aux_entryAt_get _ p hp0 hl1
                  rcases hprev with hz | ⟨e2, hx2, ht2⟩
                  · exact absurd hz hp0
                  · have a1 := hi.nodeB m (p - 1) _ hget
                    have a2 := hi.tlB t (p - 1) e2 hx2
                    have hpp : p - 1 + 1 = p := by omega
                    rw [hpp] at a1 a2
                    rw [hl2] at a1
                    rw [ht2] at a2
                    rw [← a1, a2]
            exact aux_appendLoop_agree tl (tl t) (hi.tlB t) es _ _ p _ (hi.nodeB m) (hw.logWf m)
              (hw.aeWf _ _ _ _ _ _ _ _ hnet) hp hLX hseg hloop
      · -- entries of the new log
        intro e hmem
        rcases hshape with hl | ⟨t, l, p, pt, es, lc, hrpc, _, _, hlm, hloop⟩
        · rw [hl] at hmem; exact hi.pos m e hmem
        · subst hrpc
          rcases aux_appendLoop_mem es _ _ _ hloop e hmem with h1 | h1
          · exact hi.pos m e h1
          · obtain ⟨hok, _⟩ := hi.aeC _ _ _ _ _ _ _ _ hnet
            rcases hok with ⟨_, _, hes⟩ | ⟨_, hseg, _⟩
            · rw [hes] at h1; cases h1
            · have : e ∈ (tl t).take p ++ es := List.mem_append_right _ h1
              rw [hseg] at this
              exact hi.posT t e (List.mem_of_mem_take this)
      · intro x hx t l p pt es lc hxe
        exact absurd hxe (hnoae x hx t l p pt es lc)
  | request m rs hm =>
    obtain ⟨hnl, hl⟩ := aux_handleRequests_shape rs (s.nodes m) []
    by_cases hr : (s.nodes m).role = .leader
    · obtain ⟨a, b, ext, c, d⟩ := hl hr
      refine ⟨_, aux_tinv_append n m s tl hi he _ ext hr a b c d, aux_tlkeep_set s m _ [] tl _ a, ?_⟩
      intro u _
      by_cases hu : u = (handleRequests (s.nodes m) [] rs).1.term
      · refine ⟨ext, ?_, ?_⟩
        · subst hu
          simp only [tlSet, if_true]
          rw [c, b, hi.leaderLog m hr]
        · intro e he'
          rw [hu, b]; exact d e he'
      · exact ⟨[], by simp [tlSet, hu], by simp⟩
    · rw [hnl hr]
      refine keep (aux_tinv_keep n m s tl hi he _ [] (le_refl _) (fun h => absurd h hr) (fun h => absurd h hr)
        (hi.nodeB m) (hi.pos m) (hi.nfPos m) (by simp))
  | timer m hm =>
    obtain ⟨heff, _⟩ := aux_electionTimer_eff n m s.net (s.nodes m)
    obtain ⟨hlog, hnoae⟩ := aux_electionTimer_log m (others n m) (majority n) (s.nodes m)
    rcases aux_eff_facts n m s.net (s.nodes m) _ _ heff (hi.nfPos m) with ⟨hr, hc⟩ | ⟨f1, f2, f3, f4⟩
    · have hpos : 1 ≤ (electionTimer m (others n m) (majority n) true (s.nodes m)).1.term := by
        rcases hc with ⟨hcand, hterm⟩ | hterm
        · rw [hterm]; exact hi.nfPos m (by rw [hcand]; simp)
        · omega
      exact win m _ _ hr (aux_none_elected n m s tl hi he _ _ he' hr hc)
        (aux_tinv_win n m s tl hi he _ _ hr hlog hpos (aux_none_elected n m s tl hi he _ _ he' hr hc) hnoae)
    · refine keep (aux_tinv_keep n m s tl hi he _ _ f1 ?_ f3 (by rw [hlog]; exact hi.nodeB m)
        (by rw [hlog]; exact hi.pos m) f4 ?_)
      · intro hr; obtain ⟨a, b⟩ := f2 hr; exact ⟨a, b, hlog⟩
      · intro x hx t l p pt es lc hxe; exact absurd hxe (hnoae x hx t l p pt es lc)
  | advance m hm =>
    obtain ⟨a, b, c, d⟩ := aux_advanceCommit_elec (others n m) (majority n) (s.nodes m)
    have hlog : (advanceCommit (others n m) (majority n) (s.nodes m)).log = (s.nodes m).log := by
      unfold advanceCommit; split <;> rfl
    refine keep (aux_tinv_keep n m s tl hi he _ [] (by omega) ?_ ?_ (by rw [hlog]; exact hi.nodeB m)
      (by rw [hlog]; exact hi.pos m) ?_ (by simp))
    · intro hr; exact ⟨by rw [← c]; exact hr, a, hlog⟩
    · intro hr _; rw [c]; exact hr
    · intro hr; rw [a]; exact hi.nfPos m (by rw [← c]; exact hr)
  | heartbeat m hm =>
    refine keep (aux_tinv_keep n m s tl hi he _ _ (le_refl _) (fun hr => ⟨hr, rfl, rfl⟩) (fun hr _ => hr)
      (hi.nodeB m) (hi.pos m) (hi.nfPos m) ?_)
    intro x hx t l p pt es lc hxe
    unfold heartbeat at hx
    split at hx
    · next hcond =>
      have hlead : (s.nodes m).role = .leader := by simpa using hcond
      simp at hx
      obtain ⟨f, _, rfl⟩ := hx
      simp at hxe
      obtain ⟨e1, _, e3, e4, e5, _⟩ := hxe
      have htl := hi.leaderLog m hlead
      refine ⟨?_, Or.inr ⟨hlead, e1⟩⟩
      rw [← e1]
      subst e3; subst e5
      unfold AeOk
      rw [htl]
      generalize (mapGet (s.nodes m).nextIndex f).getD ((s.nodes m).log.length + 1) - 1 = q at e4 ⊢
      by_cases hle : q ≤ (s.nodes m).log.length
      · right
        refine ⟨hle, ?_, ?_⟩
        · have : q + (List.drop q (s.nodes m).log).length = (s.nodes m).log.length := by
            simp [List.length_drop]; omega
          rw [this, List.take_append_drop, List.take_of_length_le (le_refl _)]
        · by_cases hp0 : q = 0
          · exact Or.inl hp0
          · right
            refine ⟨_, aux_entryAt_get _ _ hp0 hle, ?_⟩
            rw [← e4]; simp [hp0]
      · left
        have hp0 : q ≠ 0 := by omega
        refine ⟨?_, hp0, ?_⟩
        · rw [← e4]; simp only [hp0, if_false]
          unfold entryAt
          have : (s.nodes m).log[q - 1]? = none := List.getElem?_eq_none (by omega)
          simp [List.getD, this]; rfl
        · apply List.drop_eq_nil_of_le; omega
    · simp at hx
  | emit m hm =>
    obtain ⟨a, b, c, d⟩ := aux_emitLoop_elec (s.nodes m) [] ((s.nodes m).commitIndex - (s.nodes m).emittedIndex)
    obtain ⟨hlog, _, _⟩ := aux_emitLoop_log ((s.nodes m).commitIndex - (s.nodes m).emittedIndex) (s.nodes m) []
      (hw.emitLe m)
    unfold emit
    refine keep (aux_tinv_keep n m s tl hi he _ [] (by omega) ?_ ?_ (by rw [hlog]; exact hi.nodeB m)
      (by rw [hlog]; exact hi.pos m) ?_ (by simp))
    · intro hr; exact ⟨by rw [← c]; exact hr, a, hlog⟩
    · intro hr _; rw [c]; exact hr
    · intro hr; rw [a]; exact hi.nfPos m (by rw [← c]; exact hr)

theorem aux_tinv_init (n : Nat) : TInv n initSys (fun _ => []) := by
  constructor
  · intro c hr; simp [initSys] at hr
  · intro v; exact aux_agree_nil _
  · intro u; exact aux_agree_nil _
  · intro dst frm t l p pt es lc h; cases h
  · intro v e h; simp [initSys] at h
  · intro u e h; simp at h
  · intro c hr; simp [initSys] at hr
  · intro c t h; cases h

theorem aux_tinv_microReach (n : Nat) (s : Sys) (h : MicroReach n s) : ∃ tl, TInv n s tl := by
  induction h with
  | init => exact ⟨_, aux_tinv_init n⟩
  | step hr hs ih =>
    obtain ⟨tl, hi⟩ := ih
    obtain ⟨tl', h', _⟩ := aux_tinv_micro n _ _ tl hi (aux_einv_microReach n _ hr) (aux_winv_microReach n _ hr) hs
    exact ⟨tl', h'⟩

/-- **Log matching** for every state reached by `raft_step` calls -/
theorem aux_log_matching (n : Nat) (s : Sys) (h : Reach n s) (a b i : Nat) (ea eb : Entry)
    (ha : (s.nodes a).log[i]? = some ea) (hb : (s.nodes b).log[i]? = some eb) (ht : ea.term = eb.term) :
    (s.nodes a).log.take (i + 1) = (s.nodes b).log.take (i + 1) := by
  obtain ⟨sm, hrm, hn, _, _⟩ := aux_reach_sim n s h
  obtain ⟨tl, hi⟩ := aux_tinv_microReach n sm hrm
  rw [hn] at ha hb ⊢
  rw [← hi.nodeB a i ea ha, ← hi.nodeB b i eb hb, ht]

end HvProto.Raft
