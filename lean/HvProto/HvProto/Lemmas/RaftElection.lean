/-
  Election safety of the system of Spec/Raft.lean.
  Part 1: the election-relevant effect (`ElecEff`) of every micro step, computed from the model code.
-/
import HvProto.Spec.Raft
import Mathlib.Data.Finset.Card
import Mathlib.Data.Finset.Range

namespace HvProto.Raft

def isVote (r : Rpc) : Prop := ∃ t, r = .requestVoteResponse t

/-- the effect of a micro step of member `m` on `(term, votedFor, role, votes)` and on the vote
    messages it sends -/
inductive ElecEff (n m : Nat) (net : Envelope → Prop) (st st' : NodeState) (out : List (Nat × Rpc)) : Prop where
  | same : st'.term = st.term → st'.votedFor = st.votedFor → st'.role = st.role → st'.votes = st.votes →
      (∀ x ∈ out, ¬ isVote x.2) → ElecEff n m net st st' out
  | demote : st'.term = st.term → st'.votedFor = st.votedFor → st'.role = .follower → st.role ≠ .leader →
      (∀ x ∈ out, ¬ isVote x.2) → ElecEff n m net st st' out
  | bump : st.term < st'.term → st'.votedFor = none → st'.role = .follower →
      (∀ x ∈ out, ¬ isVote x.2) → ElecEff n m net st st' out
  | grant (c : Nat) : st.term ≤ st'.term →
      (st'.term = st.term → (st.votedFor = none ∨ st.votedFor = some c) ∧ st'.role = st.role ∧ st'.votes = st.votes) →
      (st.term < st'.term → st'.role = .follower) →
      st'.votedFor = some c → c ≠ m →
      (∀ x ∈ out, ∀ t, x.2 = .requestVoteResponse t → x.1 = c ∧ t = st'.term) → ElecEff n m net st st' out
  | vote (v : Nat) : st'.term = st.term → st'.votedFor = st.votedFor → st.role = .candidate →
      st'.role = .candidate → st'.votes = setInsert st.votes v → net ⟨m, v, .requestVoteResponse st.term⟩ →
      (∀ x ∈ out, ¬ isVote x.2) → ElecEff n m net st st' out
  | win (v : Nat) : st'.term = st.term → st'.votedFor = st.votedFor → st.role = .candidate →
      st'.role = .leader → majority n ≤ (setInsert st.votes v).length →
      net ⟨m, v, .requestVoteResponse st.term⟩ →
      (∀ x ∈ out, ¬ isVote x.2) → ElecEff n m net st st' out
  | campaign : st'.term = st.term + 1 → st'.votedFor = some m → st'.role = .candidate → st'.votes = [m] →
      (∀ x ∈ out, ¬ isVote x.2) → ElecEff n m net st st' out
  | campaignWin : st'.term = st.term + 1 → st'.votedFor = some m → st'.role = .leader → majority n ≤ 1 →
      (∀ x ∈ out, ¬ isVote x.2) → ElecEff n m net st st' out

theorem aux_observeTerm (st : NodeState) (t : Nat) :
    ((observeTerm st t).1 = st ∧ t ≤ st.term ∧ ((observeTerm st t).2 = true ↔ t = st.term)) ∨
    (st.term < t ∧ (observeTerm st t).2 = true ∧ (observeTerm st t).1.term = t ∧
      (observeTerm st t).1.votedFor = none ∧ (observeTerm st t).1.role = .follower ∧
      (observeTerm st t).1.votes = [] ∧ (observeTerm st t).1.log = st.log) := by
  unfold observeTerm
  by_cases h : t > st.term
  · right; simp [h]
  · left; simp [h]; omega

theorem aux_others_mem (n m x : Nat) : x ∈ others n m ↔ x < n ∧ x ≠ m := by
  unfold others; simp

theorem aux_handleMsg_eff (n m sender : Nat) (net : Envelope → Prop) (st st' : NodeState) (rpc : Rpc)
    (out : List (Nat × Rpc)) (hs : sender ≠ m) (hnet : net ⟨m, sender, rpc⟩)
    (h : handleMsg (others n m) (majority n) st sender rpc = some (st', out)) :
    ElecEff n m net st st' out := by
  cases rpc with
  | requestVote term lli llt =>
    simp only [handleMsg] at h
    rcases aux_observeTerm st term with ⟨h1, h2, h4⟩ | ⟨h1, h2, h4, h5, h6, h7, _⟩
    · -- no bump
      by_cases hc : (observeTerm st term).2 = true
      · simp only [hc, if_true, Option.some.injEq] at h
        rw [h1] at h
        unfold onRequestVote at h
        dsimp only at h
        split at h
        · next hg =>
          injection h with e1 e2; subst e1; subst e2
          simp only [Bool.and_eq_true, Bool.or_eq_true] at hg
          refine .grant sender (le_refl _) (fun _ => ⟨?_, rfl, rfl⟩) (fun hh => absurd hh (lt_irrefl _)) rfl hs ?_
          · rcases hg.2 with hg | hg
            · left; simpa using hg
            · right; simpa using hg
          · intro x hx t ht; simp at hx; subst hx; simp at ht; exact ⟨rfl, ht.symm⟩
        · injection h with e1 e2; subst e1; subst e2
          exact .same rfl rfl rfl rfl (by simp)
      · simp only [hc] at h
        simp at h
        obtain ⟨e1, e2⟩ := h; subst e2; rw [h1] at e1; subst e1
        exact .same rfl rfl rfl rfl (by simp)
    · simp only [h2, if_true, Option.some.injEq] at h
      unfold onRequestVote at h
      dsimp only at h
      split at h
      · injection h with e1 e2; subst e1; subst e2
        refine .grant sender (by simp [h4]; omega) (fun hh => ?_) (fun _ => by simp [h6]) rfl hs ?_
        · simp [h4] at hh; omega
        · intro x hx t ht; simp at hx; subst hx; simp at ht; simp [← ht]
      · injection h with e1 e2; subst e1; subst e2
        exact .bump (by omega) h5 h6 (by simp)
  | requestVoteResponse term =>
    simp only [handleMsg] at h
    rcases aux_observeTerm st term with ⟨h1, h2, h4⟩ | ⟨h1, h2, h4, h5, h6, h7, _⟩
    · by_cases hc : (observeTerm st term).2 = true
      · simp only [hc, if_true, Option.some.injEq] at h
        rw [h1] at h
        have ht : term = st.term := h4.1 hc
        subst ht
        unfold onVoteResponse at h
        by_cases hr : st.role = .candidate
        · simp only [hr, beq_self_eq_true, if_true] at h
          split at h
          · next hm =>
            injection h with e1 e2; subst e1; subst e2
            refine .win sender rfl rfl hr rfl ?_ hnet (by simp)
            simpa [majority] using hm
          · injection h with e1 e2; subst e1; subst e2
            exact .vote sender rfl rfl hr rfl rfl hnet (by simp)
        · have : (st.role == Role.candidate) = false := by simpa using hr
          simp only [this] at h
          simp at h
          obtain ⟨e1, e2⟩ := h; subst e1; subst e2
          exact .same rfl rfl rfl rfl (by simp)
      · simp only [hc] at h
        simp at h
        obtain ⟨e1, e2⟩ := h; subst e2; rw [h1] at e1; subst e1
        exact .same rfl rfl rfl rfl (by simp)
    · simp only [h2, if_true, Option.some.injEq] at h
      unfold onVoteResponse at h
      have : ((observeTerm st term).1.role == Role.candidate) = false := by simp [h6]
      simp only [this] at h
      simp at h
      obtain ⟨e1, e2⟩ := h; subst e1; subst e2
      exact .bump (by omega) h5 h6 (by simp)
  | appendEntries term leader prev prevTerm entries leaderCommit =>
    simp only [handleMsg] at h
    have key : ∀ st1 : NodeState, onAppendEntries st1 sender leader prev prevTerm entries leaderCommit = some (st', out) →
        st'.term = st1.term ∧ st'.votedFor = st1.votedFor ∧ st'.votes = st1.votes ∧
        (st'.role = st1.role ∨ st'.role = .follower) ∧ (∀ x ∈ out, ¬ isVote x.2) ∧ st1.role ≠ .leader := by
      intro st1 hh
      have hacc : ∀ l, (aeAccept st1 l).role = st1.role ∨ (aeAccept st1 l).role = .follower := by
        intro l; unfold aeAccept
        by_cases hr : st1.role = .candidate <;> simp [hr]
      unfold onAppendEntries at hh
      split at hh
      · cases hh
      · next hnl =>
        have hnl' : st1.role ≠ .leader := by simpa using hnl
        split at hh
        · injection hh with hh; injection hh with e1 e2; subst e1; subst e2
          exact ⟨rfl, rfl, rfl, hacc leader, by simp [isVote], hnl'⟩
        · split at hh
          · cases hh
          · injection hh with hh; injection hh with e1 e2; subst e1; subst e2
            exact ⟨rfl, rfl, rfl, hacc leader, by simp [isVote], hnl'⟩
    rcases aux_observeTerm st term with ⟨h1, h2, h4⟩ | ⟨h1, h2, h4, h5, h6, h7, _⟩
    · by_cases hc : (observeTerm st term).2 = true
      · simp only [hc, if_true] at h
        rw [h1] at h
        obtain ⟨k1, k2, k3, k4, k5, k6⟩ := key st h
        rcases k4 with k4 | k4
        · exact .same k1 k2 k4 k3 k5
        · exact .demote k1 k2 k4 k6 k5
      · simp only [hc] at h
        simp at h
        obtain ⟨e1, e2⟩ := h; subst e2; rw [h1] at e1; subst e1
        exact .same rfl rfl rfl rfl (by simp [isVote])
    · simp only [h2, if_true] at h
      obtain ⟨k1, k2, k3, k4, k5, _⟩ := key _ h
      refine .bump (by omega) (by rw [k2, h5]) ?_ k5
      rcases k4 with k4 | k4
      · rw [k4, h6]
      · exact k4
  | appendEntriesReply term success matchIdx =>
    simp only [handleMsg] at h
    have key : ∀ st1 : NodeState, onAppendReply st1 sender success matchIdx = (st', out) →
        st'.term = st1.term ∧ st'.votedFor = st1.votedFor ∧ st'.votes = st1.votes ∧
        st'.role = st1.role ∧ out = [] := by
      intro st1 hh
      unfold onAppendReply at hh
      split at hh
      · injection hh with e1 e2; subst e1; subst e2; exact ⟨rfl, rfl, rfl, rfl, rfl⟩
      · split at hh
        · injection hh with e1 e2; subst e1; subst e2; exact ⟨rfl, rfl, rfl, rfl, rfl⟩
        · split at hh
          · injection hh with e1 e2; subst e1; subst e2; exact ⟨rfl, rfl, rfl, rfl, rfl⟩
          · injection hh with e1 e2; subst e1; subst e2; exact ⟨rfl, rfl, rfl, rfl, rfl⟩
    rcases aux_observeTerm st term with ⟨h1, h2, h4⟩ | ⟨h1, h2, h4, h5, h6, h7, _⟩
    · by_cases hc : (observeTerm st term).2 = true
      · simp only [hc, if_true, Option.some.injEq] at h
        rw [h1] at h
        obtain ⟨k1, k2, k3, k4, k5⟩ := key st h
        subst k5
        exact .same k1 k2 k4 k3 (by simp)
      · simp only [hc] at h
        simp at h
        obtain ⟨e1, e2⟩ := h; subst e2; rw [h1] at e1; subst e1
        exact .same rfl rfl rfl rfl (by simp)
    · simp only [h2, if_true, Option.some.injEq] at h
      obtain ⟨k1, k2, k3, k4, k5⟩ := key _ h
      subst k5
      exact .bump (by omega) (by rw [k2, h5]) (by rw [k4, h6]) (by simp)

/-! Part 2: the invariant and its preservation. -/

/-- "`v` granted its vote of term `t` to `c`": a vote message, or `c`'s own vote when it was elected -/
def Granted (s : Sys) (v c t : Nat) : Prop :=
  s.net ⟨c, v, .requestVoteResponse t⟩ ∨ (v = c ∧ s.elected c t)

structure EInv (n : Nat) (s : Sys) : Prop where
  /-- every envelope goes between two different members -/
  wfNet : ∀ e, s.net e → e.to < n ∧ e.frm < n ∧ e.to ≠ e.frm
  /-- a grant of term `t` pins `votedFor` for as long as the voter stays in term `t` -/
  grantPins : ∀ v c t, Granted s v c t → t ≤ (s.nodes v).term ∧ ((s.nodes v).term = t → (s.nodes v).votedFor = some c)
  /-- at most one grant per voter and term -/
  grantUnique : ∀ v c c' t, Granted s v c t → Granted s v c' t → c = c'
  selfVote : ∀ c, (s.nodes c).role ≠ .follower → (s.nodes c).votedFor = some c
  votesBacked : ∀ c, (s.nodes c).role = .candidate → (s.nodes c).votes.Nodup ∧
      ∀ v ∈ (s.nodes c).votes, v < n ∧ (v = c ∨ s.net ⟨c, v, .requestVoteResponse (s.nodes c).term⟩)
  leaderRecorded : ∀ c, (s.nodes c).role = .leader → s.elected c (s.nodes c).term
  electedQuorum : ∀ c t, s.elected c t → c < n ∧ ∃ Q : List Nat, Q.Nodup ∧ majority n ≤ Q.length ∧
      ∀ v ∈ Q, v < n ∧ Granted s v c t

theorem aux_quorum_inter (n : Nat) (Q Q' : List Nat) (h1 : Q.Nodup) (h2 : Q'.Nodup)
    (b1 : ∀ v ∈ Q, v < n) (b2 : ∀ v ∈ Q', v < n)
    (l1 : n / 2 + 1 ≤ Q.length) (l2 : n / 2 + 1 ≤ Q'.length) : ∃ v, v ∈ Q ∧ v ∈ Q' := by
  by_contra hne
  have hd : Disjoint Q.toFinset Q'.toFinset := by
    rw [Finset.disjoint_left]
    intro a ha hb
    exact hne ⟨a, List.mem_toFinset.1 ha, List.mem_toFinset.1 hb⟩
  have hsub : Q.toFinset ∪ Q'.toFinset ⊆ Finset.range n := by
    intro a ha
    rcases Finset.mem_union.1 ha with h | h
    · exact Finset.mem_range.2 (b1 a (List.mem_toFinset.1 h))
    · exact Finset.mem_range.2 (b2 a (List.mem_toFinset.1 h))
  have hc := Finset.card_le_card hsub
  rw [Finset.card_union_of_disjoint hd, List.toFinset_card_of_nodup h1, List.toFinset_card_of_nodup h2,
    Finset.card_range] at hc
  omega

/-- election safety from the invariant -/
theorem aux_einv_safety (n : Nat) (s : Sys) (hi : EInv n s) (c c' t : Nat)
    (h1 : s.elected c t) (h2 : s.elected c' t) : c = c' := by
  obtain ⟨_, Q, hQ, hl, hq⟩ := hi.electedQuorum c t h1
  obtain ⟨_, Q', hQ', hl', hq'⟩ := hi.electedQuorum c' t h2
  obtain ⟨v, hv, hv'⟩ := aux_quorum_inter n Q Q' hQ hQ' (fun v h => (hq v h).1) (fun v h => (hq' v h).1)
    (by simpa [majority] using hl) (by simpa [majority] using hl')
  exact hi.grantUnique v c c' t (hq v hv).2 (hq' v hv').2

theorem aux_einv_init (n : Nat) : EInv n initSys := by
  constructor <;> intros <;> simp_all [initSys, Granted]

theorem aux_setInsert_mem (l : List Nat) (x y : Nat) : y ∈ setInsert l x ↔ y ∈ l ∨ y = x := by
  unfold setInsert
  by_cases h : x ∈ l
  · have hc : l.contains x = true := by simpa using h
    simp only [hc, if_true]
    constructor
    · exact Or.inl
    · rintro (h1 | h1)
      · exact h1
      · subst h1; exact h
  · simp [h]

theorem aux_setInsert_nodup (l : List Nat) (x : Nat) (h : l.Nodup) : (setInsert l x).Nodup := by
  unfold setInsert
  by_cases hx : x ∈ l
  · have hc : l.contains x = true := by simpa using hx
    simp only [hc, if_true]; exact h
  · have hc : l.contains x = false := by simpa using hx
    simp only [hc, Bool.false_eq_true, if_false]
    rw [List.nodup_append]
    refine ⟨h, by simp, ?_⟩
    intro a ha b hb; simp at hb; subst hb; intro hab; subst hab; exact hx ha

/-- what the invariant proof needs to know about one step of member `m` (`st' `, `out`) -/
structure Foot (n m : Nat) (s : Sys) (st' : NodeState) (out : List (Nat × Rpc)) : Prop where
  termMono : (s.nodes m).term ≤ st'.term
  voteStable : st'.term = (s.nodes m).term → ∀ c, (s.nodes m).votedFor = some c → st'.votedFor = some c
  newVote : ∀ c t, (c, Rpc.requestVoteResponse t) ∈ out → t = st'.term ∧ st'.votedFor = some c ∧
      st'.role = .follower ∧
      (st'.term = (s.nodes m).term → (s.nodes m).votedFor = none ∨ (s.nodes m).votedFor = some c)
  selfVote : st'.role ≠ .follower → st'.votedFor = some m
  cand : st'.role = .candidate → st'.votes.Nodup ∧
      ∀ v ∈ st'.votes, v < n ∧ (v = m ∨ s.net ⟨m, v, .requestVoteResponse st'.term⟩)
  lead : st'.role = .leader → ((s.nodes m).role = .leader ∧ st'.term = (s.nodes m).term) ∨
      ((st'.term = (s.nodes m).term → (s.nodes m).votedFor = some m) ∧
       ∃ Q : List Nat, Q.Nodup ∧ majority n ≤ Q.length ∧
        ∀ v ∈ Q, v < n ∧ (v = m ∨ s.net ⟨m, v, .requestVoteResponse st'.term⟩))

theorem aux_foot_of_eff (n m : Nat) (s : Sys) (hi : EInv n s) (hm : m < n) (st' : NodeState)
    (out : List (Nat × Rpc)) (h : ElecEff n m s.net (s.nodes m) st' out) : Foot n m s st' out := by
  have hsv := hi.selfVote m
  have hvb := hi.votesBacked m
  have novote : (∀ x ∈ out, ¬ isVote x.2) → ∀ c t, (c, Rpc.requestVoteResponse t) ∈ out → False :=
    fun hno c t hx => hno _ hx ⟨t, rfl⟩
  cases h with
  | same h1 h2 h3 h4 h5 =>
    refine ⟨by omega, fun _ c hc => by rw [h2]; exact hc, fun c t hx => (novote h5 c t hx).elim, ?_, ?_, ?_⟩
    · intro hr; rw [h2]; exact hsv (by rw [← h3]; exact hr)
    · intro hr; rw [h4, h1]; exact hvb (by rw [← h3]; exact hr)
    · intro hr; left; exact ⟨by rw [← h3]; exact hr, h1⟩
  | demote h1 h2 h3 _ h5 =>
    refine ⟨by omega, fun _ c hc => by rw [h2]; exact hc, fun c t hx => (novote h5 c t hx).elim, ?_, ?_, ?_⟩
    · intro hr; exact absurd h3 hr
    · intro hr; rw [h3] at hr; cases hr
    · intro hr; rw [h3] at hr; cases hr
  | bump h1 h2 h3 h5 =>
    refine ⟨by omega, fun hh => by omega, fun c t hx => (novote h5 c t hx).elim, ?_, ?_, ?_⟩
    · intro hr; exact absurd h3 hr
    · intro hr; rw [h3] at hr; cases hr
    · intro hr; rw [h3] at hr; cases hr
  | grant c h1 h2 h3 h4 h5 h6 =>
    have hfol : st'.role = .follower := by
      rcases Nat.lt_or_ge (s.nodes m).term st'.term with hlt | hge
      · exact h3 hlt
      · have he : st'.term = (s.nodes m).term := by omega
        obtain ⟨ha, hb, _⟩ := h2 he
        rw [hb]
        by_contra hne
        have := hsv hne
        rcases ha with ha | ha
        · rw [ha] at this; cases this
        · rw [ha] at this; injection this with this; exact h5 this
    refine ⟨h1, ?_, ?_, ?_, ?_, ?_⟩
    · intro he c0 hc0
      rcases (h2 he).1 with ha | ha
      · rw [ha] at hc0; cases hc0
      · rw [ha] at hc0; injection hc0 with hc0; rw [h4, hc0]
    · intro c0 t hx
      obtain ⟨e1, e2⟩ := h6 _ hx t rfl
      simp only at e1
      subst e1; subst e2
      exact ⟨rfl, h4, hfol, fun he => (h2 he).1⟩
    · intro hr; exact absurd hfol hr
    · intro hr; rw [hfol] at hr; cases hr
    · intro hr; rw [hfol] at hr; cases hr
  | vote v h1 h2 h3 h4 h5 h6 h7 =>
    refine ⟨by omega, fun _ c hc => by rw [h2]; exact hc, fun c t hx => (novote h7 c t hx).elim, ?_, ?_, ?_⟩
    · intro _; rw [h2]; exact hsv (by rw [h3]; simp)
    · intro _
      obtain ⟨hn, hb⟩ := hvb h3
      rw [h5, h1]
      refine ⟨aux_setInsert_nodup _ _ hn, fun x hx => ?_⟩
      rcases (aux_setInsert_mem _ _ _).1 hx with hx | hx
      · exact hb x hx
      · subst hx; exact ⟨(hi.wfNet _ h6).2.1, Or.inr h6⟩
    · intro hr; rw [h4] at hr; cases hr
  | win v h1 h2 h3 h4 h5 h6 h7 =>
    refine ⟨by omega, fun _ c hc => by rw [h2]; exact hc, fun c t hx => (novote h7 c t hx).elim, ?_, ?_, ?_⟩
    · intro _; rw [h2]; exact hsv (by rw [h3]; simp)
    · intro hr; rw [h4] at hr; cases hr
    · intro _; right
      obtain ⟨hn, hb⟩ := hvb h3
      refine ⟨fun _ => hsv (by rw [h3]; simp), setInsert (s.nodes m).votes v, aux_setInsert_nodup _ _ hn, h5, fun x hx => ?_⟩
      rw [h1]
      rcases (aux_setInsert_mem _ _ _).1 hx with hx | hx
      · exact hb x hx
      · subst hx; exact ⟨(hi.wfNet _ h6).2.1, Or.inr h6⟩
  | campaign h1 h2 h3 h4 h5 =>
    refine ⟨by omega, fun hh => by omega, fun c t hx => (novote h5 c t hx).elim, fun _ => h2, ?_, ?_⟩
    · intro _; rw [h4]; exact ⟨by simp, fun v hv => by simp at hv; subst hv; exact ⟨hm, Or.inl rfl⟩⟩
    · intro hr; rw [h3] at hr; cases hr
  | campaignWin h1 h2 h3 h4 h5 =>
    refine ⟨by omega, fun hh => by omega, fun c t hx => (novote h5 c t hx).elim, fun _ => h2, ?_, ?_⟩
    · intro hr; rw [h3] at hr; cases hr
    · intro _; right
      exact ⟨fun hh => by omega, [m], by simp, by simpa using h4, fun v hv => by simp at hv; subst hv; exact ⟨hm, Or.inl rfl⟩⟩

theorem aux_einv_update (n m : Nat) (s : Sys) (hi : EInv n s) (hm : m < n) (st' : NodeState)
    (out : List (Nat × Rpc)) (hf : Foot n m s st' out) (htg : ∀ x ∈ out, x.1 < n ∧ x.1 ≠ m) :
    EInv n (s.update m st' out) := by
  -- how `Granted` changes
  have hG : ∀ v c t, Granted (s.update m st' out) v c t →
      Granted s v c t ∨ (v = m ∧ (c, Rpc.requestVoteResponse t) ∈ out) ∨
      (v = m ∧ c = m ∧ st'.role = .leader ∧ st'.term = t) := by
    intro v c t h
    rcases h with h | ⟨h1, h2⟩
    · rcases h with h | ⟨h1, h2⟩
      · exact Or.inl (Or.inl h)
      · exact Or.inr (Or.inl ⟨h1, h2⟩)
    · rcases h2 with h2 | ⟨h3, h4, h5⟩
      · exact Or.inl (Or.inr ⟨h1, h2⟩)
      · exact Or.inr (Or.inr ⟨by rw [h1, h3], h3, h4, h5⟩)
  have hGmono : ∀ v c t, Granted s v c t → Granted (s.update m st' out) v c t := by
    intro v c t h
    rcases h with h | ⟨h1, h2⟩
    · exact Or.inl (Or.inl h)
    · exact Or.inr ⟨h1, Or.inl h2⟩
  have hnode_m : (s.update m st' out).nodes m = st' := by simp [Sys.update]
  have hnode_ne : ∀ x, x ≠ m → (s.update m st' out).nodes x = s.nodes x := by
    intro x hx; simp [Sys.update, hx]
  -- pins for the three kinds of grants of member m
  have pin_m : ∀ c t, Granted s m c t → t ≤ st'.term ∧ (st'.term = t → st'.votedFor = some c) := by
    intro c t h
    obtain ⟨h1, h2⟩ := hi.grantPins m c t h
    refine ⟨le_trans h1 hf.termMono, fun he => ?_⟩
    have hte : (s.nodes m).term = t := by have := hf.termMono; omega
    exact hf.voteStable (by omega) c (h2 hte)
  constructor
  · -- wfNet
    intro e he
    rcases he with he | ⟨h1, h2⟩
    · exact hi.wfNet e he
    · obtain ⟨t1, t2⟩ := htg _ h2
      exact ⟨t1, by rw [h1]; exact hm, by rw [h1]; exact t2⟩
  · -- grantPins
    intro v c t h
    by_cases hv : v = m
    · subst hv
      rw [hnode_m]
      rcases hG _ _ _ h with h | ⟨_, h⟩ | ⟨_, h1, h2, h3⟩
      · exact pin_m c t h
      · obtain ⟨e1, e2, _, _⟩ := hf.newVote c t h
        exact ⟨by omega, fun _ => e2⟩
      · subst h1
        exact ⟨by omega, fun _ => hf.selfVote (by rw [h2]; simp)⟩
    · rw [hnode_ne v hv]
      rcases hG _ _ _ h with h | ⟨h0, _⟩ | ⟨h0, _⟩
      · exact hi.grantPins v c t h
      · exact absurd h0 hv
      · exact absurd h0 hv
  · -- grantUnique
    intro v c c' t h h'
    by_cases hv : v = m
    · subst hv
      rcases hG _ _ _ h with h | ⟨_, h⟩ | ⟨_, h1, h2, h3⟩
      · rcases hG _ _ _ h' with h' | ⟨_, h'⟩ | ⟨_, h1', h2', h3'⟩
        · exact hi.grantUnique _ _ _ _ h h'
        · -- old grant vs new vote
          obtain ⟨e1, e2, _, e4⟩ := hf.newVote c' t h'
          obtain ⟨p1, p2⟩ := hi.grantPins v c t h
          have hte : st'.term = (s.nodes v).term := by have := hf.termMono; omega
          have hvf := p2 (by omega)
          rcases e4 hte with e4 | e4
          · rw [e4] at hvf; cases hvf
          · rw [e4] at hvf; injection hvf with hvf; exact hvf.symm
        · -- old grant vs new election
          subst h1'
          obtain ⟨p1, p2⟩ := pin_m c t h
          have := p2 h3'
          have hs := hf.selfVote (by rw [h2']; simp)
          rw [hs] at this; injection this with this; exact this.symm
      · obtain ⟨e1, e2, e3, e4⟩ := hf.newVote c t h
        rcases hG _ _ _ h' with h' | ⟨_, h'⟩ | ⟨_, h1', h2', h3'⟩
        · obtain ⟨p1, p2⟩ := hi.grantPins v c' t h'
          have hte : st'.term = (s.nodes v).term := by have := hf.termMono; omega
          have hvf := p2 (by omega)
          rcases e4 hte with e4 | e4
          · rw [e4] at hvf; cases hvf
          · rw [e4] at hvf; injection hvf with hvf
        · obtain ⟨_, e2', _, _⟩ := hf.newVote c' t h'
          rw [e2] at e2'; injection e2' with e2'
        · rw [e3] at h2'; cases h2'
      · subst h1
        rcases hG _ _ _ h' with h' | ⟨_, h'⟩ | ⟨_, h1', _, _⟩
        · obtain ⟨p1, p2⟩ := pin_m c' t h'
          have := p2 h3
          have hs := hf.selfVote (by rw [h2]; simp)
          rw [hs] at this; injection this with this
        · obtain ⟨_, _, e3, _⟩ := hf.newVote c' t h'
          rw [e3] at h2; cases h2
        · exact h1'.symm
    · rcases hG _ _ _ h with h | ⟨h0, _⟩ | ⟨h0, _⟩
      · rcases hG _ _ _ h' with h' | ⟨h0, _⟩ | ⟨h0, _⟩
        · exact hi.grantUnique _ _ _ _ h h'
        · exact absurd h0 hv
        · exact absurd h0 hv
      · exact absurd h0 hv
      · exact absurd h0 hv
  · -- selfVote
    intro c hr
    by_cases hc : c = m
    · subst hc; rw [hnode_m] at hr ⊢; exact hf.selfVote hr
    · rw [hnode_ne c hc] at hr ⊢; exact hi.selfVote c hr
  · -- votesBacked
    intro c hr
    by_cases hc : c = m
    · subst hc; rw [hnode_m] at hr ⊢
      obtain ⟨h1, h2⟩ := hf.cand hr
      refine ⟨h1, fun v hv => ?_⟩
      obtain ⟨h3, h4⟩ := h2 v hv
      exact ⟨h3, h4.imp id Or.inl⟩
    · rw [hnode_ne c hc] at hr ⊢
      obtain ⟨h1, h2⟩ := hi.votesBacked c hr
      refine ⟨h1, fun v hv => ?_⟩
      obtain ⟨h3, h4⟩ := h2 v hv
      exact ⟨h3, h4.imp id Or.inl⟩
  · -- leaderRecorded
    intro c hr
    by_cases hc : c = m
    · subst hc; rw [hnode_m] at hr ⊢
      exact Or.inr ⟨rfl, hr, rfl⟩
    · rw [hnode_ne c hc] at hr ⊢
      exact Or.inl (hi.leaderRecorded c hr)
  · -- electedQuorum
    intro c t h
    rcases h with h | ⟨h1, h2, h3⟩
    · obtain ⟨hc, Q, q1, q2, q3⟩ := hi.electedQuorum c t h
      exact ⟨hc, Q, q1, q2, fun v hv => ⟨(q3 v hv).1, hGmono _ _ _ (q3 v hv).2⟩⟩
    · subst h1
      refine ⟨hm, ?_⟩
      rcases hf.lead h2 with ⟨l1, l2⟩ | ⟨_, Q, q1, q2, q3⟩
      · have hel := hi.leaderRecorded c l1
        rw [← l2, h3] at hel
        obtain ⟨_, Q, q1, q2, q3⟩ := hi.electedQuorum c t hel
        exact ⟨Q, q1, q2, fun v hv => ⟨(q3 v hv).1, hGmono _ _ _ (q3 v hv).2⟩⟩
      · refine ⟨Q, q1, q2, fun v hv => ?_⟩
        obtain ⟨b1, b2⟩ := q3 v hv
        refine ⟨b1, ?_⟩
        rcases b2 with b2 | b2
        · subst b2; exact Or.inr ⟨rfl, Or.inr ⟨rfl, h2, h3⟩⟩
        · rw [h3] at b2; exact Or.inl (Or.inl b2)

/-! Part 3: every micro step has an election effect and well-formed targets. -/

theorem aux_handleMsg_targets (oth : List Nat) (maj sender : Nat) (st st' : NodeState) (rpc : Rpc)
    (out : List (Nat × Rpc)) (h : handleMsg oth maj st sender rpc = some (st', out)) :
    ∀ x ∈ out, x.1 = sender := by
  cases rpc with
  | requestVote term lli llt =>
    simp only [handleMsg] at h
    split at h
    · injection h with h
      unfold onRequestVote at h; dsimp only at h
      split at h <;> (injection h with e1 e2; subst e2; simp)
    · injection h with h; injection h with e1 e2; subst e2; simp
  | requestVoteResponse term =>
    simp only [handleMsg] at h
    split at h
    · injection h with h
      unfold onVoteResponse at h
      split at h
      · dsimp only at h
        split at h <;> (injection h with e1 e2; subst e2; simp)
      · injection h with e1 e2; subst e2; simp
    · injection h with h; injection h with e1 e2; subst e2; simp
  | appendEntries term leader prev prevTerm entries leaderCommit =>
    simp only [handleMsg] at h
    split at h
    · unfold onAppendEntries at h
      split at h
      · cases h
      · split at h
        · injection h with h; injection h with e1 e2; subst e2; simp
        · split at h
          · cases h
          · injection h with h; injection h with e1 e2; subst e2; simp
    · injection h with h; injection h with e1 e2; subst e2; simp
  | appendEntriesReply term success matchIdx =>
    simp only [handleMsg] at h
    split at h
    · injection h with h
      unfold onAppendReply at h
      split at h
      · injection h with e1 e2; subst e2; simp
      · split at h
        · injection h with e1 e2; subst e2; simp
        · split at h <;> (injection h with e1 e2; subst e2; simp)
    · injection h with h; injection h with e1 e2; subst e2; simp

theorem aux_handleRequests_elec (st : NodeState) (red : List (Nat × Option Nat)) (rs : List Nat) :
    (handleRequests st red rs).1.term = st.term ∧ (handleRequests st red rs).1.votedFor = st.votedFor ∧
    (handleRequests st red rs).1.role = st.role ∧ (handleRequests st red rs).1.votes = st.votes := by
  induction rs generalizing st red with
  | nil => simp [handleRequests]
  | cons r rs ih =>
    unfold handleRequests
    split
    · obtain ⟨a, b, c, d⟩ := ih { st with log := st.log ++ [{ msg := r, term := st.term, index := st.log.length + 1 }] } red
      exact ⟨a, b, c, d⟩
    · exact ih st _

theorem aux_emitLoop_elec (st : NodeState) (acc : List Entry) (k : Nat) :
    (emitLoop st acc k).1.term = st.term ∧ (emitLoop st acc k).1.votedFor = st.votedFor ∧
    (emitLoop st acc k).1.role = st.role ∧ (emitLoop st acc k).1.votes = st.votes := by
  induction k generalizing st acc with
  | zero => simp [emitLoop]
  | succ k ih =>
    unfold emitLoop
    split
    · obtain ⟨a, b, c, d⟩ := ih { st with emittedIndex := st.emittedIndex + 1 }
        (acc ++ [entryAt st.log (st.emittedIndex + 1)])
      exact ⟨a, b, c, d⟩
    · simp

theorem aux_advanceCommit_elec (oth : List Nat) (maj : Nat) (st : NodeState) :
    (advanceCommit oth maj st).term = st.term ∧ (advanceCommit oth maj st).votedFor = st.votedFor ∧
    (advanceCommit oth maj st).role = st.role ∧ (advanceCommit oth maj st).votes = st.votes := by
  unfold advanceCommit
  split <;> simp

theorem aux_electionTimer_eff (n m : Nat) (net : Envelope → Prop) (st : NodeState) :
    ElecEff n m net st (electionTimer m (others n m) (majority n) true st).1
      (electionTimer m (others n m) (majority n) true st).2 ∧
    ∀ x ∈ (electionTimer m (others n m) (majority n) true st).2, x.1 < n ∧ x.1 ≠ m := by
  unfold electionTimer
  by_cases hl : st.role = .leader
  · simp only [hl]
    exact ⟨.same rfl rfl rfl rfl (by simp), by simp⟩
  · have : (true && st.role != Role.leader) = true := by simpa using hl
    simp only [this, if_true]
    by_cases hh : st.heartbeatSeen = true
    · simp only [hh, if_true]
      exact ⟨.same rfl rfl rfl rfl (by simp), by simp⟩
    · have hh' : st.heartbeatSeen = false := by simpa using hh
      simp only [hh', Bool.false_eq_true, if_false]
      by_cases hmaj : [m].length ≥ majority n
      · simp only [hmaj, if_true]
        refine ⟨.campaignWin rfl rfl rfl ?_ (by simp), by simp⟩
        simpa using hmaj
      · simp only [hmaj, if_false]
        refine ⟨.campaign rfl rfl rfl rfl ?_, ?_⟩
        · intro x hx; simp at hx; obtain ⟨a, _, rfl⟩ := hx; simp [isVote]
        · intro x hx; simp at hx; obtain ⟨a, ha, rfl⟩ := hx
          exact (aux_others_mem n m a).1 ha

theorem aux_heartbeat_targets (n m : Nat) (st : NodeState) :
    (∀ x ∈ heartbeat m (others n m) true st, ¬ isVote x.2) ∧
    ∀ x ∈ heartbeat m (others n m) true st, x.1 < n ∧ x.1 ≠ m := by
  unfold heartbeat
  split
  · constructor
    · intro x hx; simp at hx; obtain ⟨a, _, rfl⟩ := hx; simp [isVote]
    · intro x hx; simp at hx; obtain ⟨a, ha, rfl⟩ := hx; exact (aux_others_mem n m a).1 ha
  · simp

theorem aux_einv_micro (n : Nat) (s s' : Sys) (hi : EInv n s) (h : MicroStep n s s') : EInv n s' := by
  cases h with
  | deliver m sender rpc st' out hm hnet hh =>
    obtain ⟨w1, w2, w3⟩ := hi.wfNet _ hnet
    simp only at w1 w2 w3
    have heff := aux_handleMsg_eff n m sender s.net (s.nodes m) st' rpc out (Ne.symm w3) hnet hh
    have htg := aux_handleMsg_targets _ _ _ _ _ _ _ hh
    exact aux_einv_update n m s hi hm st' out (aux_foot_of_eff n m s hi hm st' out heff)
      (fun x hx => by rw [htg x hx]; exact ⟨w2, Ne.symm w3⟩)
  | request m rs hm =>
    obtain ⟨a, b, c, d⟩ := aux_handleRequests_elec (s.nodes m) [] rs
    exact aux_einv_update n m s hi hm _ [] (aux_foot_of_eff n m s hi hm _ [] (.same a b c d (by simp))) (by simp)
  | timer m hm =>
    obtain ⟨heff, htg⟩ := aux_electionTimer_eff n m s.net (s.nodes m)
    exact aux_einv_update n m s hi hm _ _ (aux_foot_of_eff n m s hi hm _ _ heff) htg
  | advance m hm =>
    obtain ⟨a, b, c, d⟩ := aux_advanceCommit_elec (others n m) (majority n) (s.nodes m)
    exact aux_einv_update n m s hi hm _ [] (aux_foot_of_eff n m s hi hm _ [] (.same a b c d (by simp))) (by simp)
  | heartbeat m hm =>
    obtain ⟨h1, h2⟩ := aux_heartbeat_targets n m (s.nodes m)
    exact aux_einv_update n m s hi hm _ _ (aux_foot_of_eff n m s hi hm _ _ (.same rfl rfl rfl rfl h1)) h2
  | emit m hm =>
    obtain ⟨a, b, c, d⟩ := aux_emitLoop_elec (s.nodes m) [] ((s.nodes m).commitIndex - (s.nodes m).emittedIndex)
    exact aux_einv_update n m s hi hm _ [] (aux_foot_of_eff n m s hi hm _ [] (.same a b c d (by simp))) (by simp)

theorem aux_einv_microReach (n : Nat) (s : Sys) (h : MicroReach n s) : EInv n s := by
  induction h with
  | init => exact aux_einv_init n
  | step _ hs ih => exact aux_einv_micro n _ _ ih hs

/-- election safety for the micro-step system -/
theorem aux_election_safety_micro (n : Nat) (s : Sys) (h : MicroReach n s) (c c' t : Nat)
    (h1 : s.elected c t) (h2 : s.elected c' t) : c = c' :=
  aux_einv_safety n s (aux_einv_microReach n s h) c c' t h1 h2

end HvProto.Raft
