/-
  The `committed` output stream of a member is exactly its committed prefix: what `raft_step` emits in one
  call are the log positions `emitted_index+1 ..= commit_index` of the resulting state.
-/
import HvProto.Lemmas.RaftCommit

namespace HvProto.Raft

theorem aux_handleMsg_emitted (oth : List Nat) (maj sender : Nat) (st st' : NodeState) (rpc : Rpc)
    (out : List (Nat × Rpc)) (h : handleMsg oth maj st sender rpc = some (st', out)) :
    st'.emittedIndex = st.emittedIndex := by
  obtain ⟨_, _, o3⟩ := aux_observeTerm_log st (match rpc with
    | .requestVote t _ _ => t | .requestVoteResponse t => t
    | .appendEntries t _ _ _ _ _ => t | .appendEntriesReply t _ _ => t)
  cases rpc with
  | requestVote term lli llt =>
    simp only at o3
    simp only [handleMsg] at h
    split at h
    · injection h with h
      unfold onRequestVote at h; dsimp only at h
      split at h <;> (injection h with e1 e2; subst e1; exact o3)
    · injection h with h; injection h with e1 e2; subst e1; exact o3
  | requestVoteResponse term =>
    simp only at o3
    simp only [handleMsg] at h
    split at h
    · injection h with h
      unfold onVoteResponse at h
      split at h
      · dsimp only at h
        split at h <;> (injection h with e1 e2; subst e1; exact o3)
      · injection h with e1 e2; subst e1; exact o3
    · injection h with h; injection h with e1 e2; subst e1; exact o3
  | appendEntries term leader prev prevTerm entries leaderCommit =>
    simp only at o3
    simp only [handleMsg] at h
    split at h
    · unfold onAppendEntries at h
      split at h
      · cases h
      · split at h
        · injection h with h; injection h with e1 e2; subst e1; exact o3
        · split at h
          · cases h
          · injection h with h; injection h with e1 e2; subst e1; exact o3
    · injection h with h; injection h with e1 e2; subst e1; exact o3
  | appendEntriesReply term success matchIdx =>
    simp only at o3
    simp only [handleMsg] at h
    split at h
    · injection h with h
      unfold onAppendReply at h
      split at h
      · injection h with e1 e2; subst e1; exact o3
      · split at h
        · injection h with e1 e2; subst e1; exact o3
        · split at h <;> (injection h with e1 e2; subst e1; exact o3)
    · injection h with h; injection h with e1 e2; subst e1; exact o3

theorem aux_handleMsgs_emitted (oth : List Nat) (maj : Nat) : ∀ (msgs : List (Nat × Rpc)) (st : NodeState)
    (acc : List (Nat × Rpc)) (st' : NodeState) (out : List (Nat × Rpc)),
    handleMsgs oth maj st acc msgs = some (st', out) → st'.emittedIndex = st.emittedIndex := by
  intro msgs
  induction msgs with
  | nil =>
    intro st acc st' out h
    simp only [handleMsgs] at h
    injection h with h; injection h with e1 _; subst e1; rfl
  | cons x t ih =>
    intro st acc st' out h
    obtain ⟨sd, rpc⟩ := x
    simp only [handleMsgs] at h
    split at h
    · cases h
    · next st1 new heq =>
      rw [ih _ _ _ _ h]; exact aux_handleMsg_emitted _ _ _ _ _ _ _ heq

theorem aux_electionTimer_emitted (m : Nat) (oth : List Nat) (maj : Nat) (el : Bool) (st : NodeState) :
    (electionTimer m oth maj el st).1.emittedIndex = st.emittedIndex := by
  unfold electionTimer
  split
  · split
    · simp
    · dsimp only
      split
      · simp [becomeLeader]
      · rfl
  · simp

theorem aux_advanceCommit_emitted (oth : List Nat) (maj : Nat) (st : NodeState) :
    (advanceCommit oth maj st).emittedIndex = st.emittedIndex := by
  unfold advanceCommit; split <;> rfl

/-- the emit loop outputs the log positions `emitted_index+1 ..= commit_index` -/
theorem aux_emitLoop_spec : ∀ (k : Nat) (st : NodeState) (acc : List Entry),
    st.emittedIndex + k = st.commitIndex → st.commitIndex ≤ st.log.length →
    (emitLoop st acc k).1.emittedIndex = st.commitIndex ∧
    (emitLoop st acc k).2 = acc ++ (st.log.take st.commitIndex).drop st.emittedIndex := by
  intro k
  induction k with
  | zero =>
    intro st acc hk hl
    simp only [emitLoop]
    refine ⟨by omega, ?_⟩
    have : (st.log.take st.commitIndex).drop st.emittedIndex = [] := by
      apply List.drop_eq_nil_of_le
      simp [List.length_take]; omega
    rw [this]; simp
  | succ k ih =>
    intro st acc hk hl
    have hlt : st.emittedIndex < st.commitIndex := by omega
    unfold emitLoop
    simp only [hlt, if_true]
    obtain ⟨a, b⟩ := ih { st with emittedIndex := st.emittedIndex + 1 }
      (acc ++ [entryAt st.log (st.emittedIndex + 1)]) (by simp; omega) hl
    refine ⟨a, ?_⟩
    rw [b]
    simp only [List.append_assoc]
    congr 1
    have hlen : st.emittedIndex < (st.log.take st.commitIndex).length := by
      simp [List.length_take]; omega
    rw [List.drop_eq_getElem_cons hlen]
    simp only [List.singleton_append]
    congr 1
    have hl2 : st.emittedIndex < st.log.length := by omega
    simp [entryAt, List.getD, List.getElem?_eq_getElem hl2, List.getElem_take]

/-- one `raft_step` call emits exactly the newly committed log positions of the resulting state -/
theorem aux_raftStep_emit (st : NodeState) (inp : StepInput) (r : StepResult) (h : raftStep st inp = some r)
    (hle : r.st.commitIndex ≤ r.st.log.length) (hem : st.emittedIndex ≤ r.st.commitIndex) :
    r.st.emittedIndex = r.st.commitIndex ∧
    r.out.committed = (r.st.log.take r.st.commitIndex).drop st.emittedIndex := by
  unfold raftStep at h
  simp only at h
  split at h
  · cases h
  · next st1 out1 heq =>
    have e1 := aux_handleMsgs_emitted _ _ _ _ _ _ _ heq
    have e2 : (handleRequests st1 [] inp.requests).1.emittedIndex = st1.emittedIndex := by
      obtain ⟨a, b, c, d⟩ := aux_handleRequests_elec st1 [] inp.requests
      have : ∀ (rs : List Nat) (s0 : NodeState) (red : List (Nat × Option Nat)),
          (handleRequests s0 red rs).1.emittedIndex = s0.emittedIndex := by
        intro rs
        induction rs with
        | nil => intro s0 red; simp [handleRequests]
        | cons x t ih =>
          intro s0 red
          unfold handleRequests
          split
          · exact ih _ red
          · exact ih s0 _
      exact this _ _ _
    generalize hst2 : (handleRequests st1 [] inp.requests).1 = st2 at h e2
    have e3 := aux_electionTimer_emitted inp.me inp.others (majority inp.clusterSize) inp.electionFired st2
    generalize hst3 : (electionTimer inp.me inp.others (majority inp.clusterSize) inp.electionFired st2).1 = st3 at h e3
    have e4 := aux_advanceCommit_emitted inp.others (majority inp.clusterSize) st3
    generalize hst4 : advanceCommit inp.others (majority inp.clusterSize) st3 = st4 at h e4
    injection h with h
    subst h
    have hem4 : st4.emittedIndex = st.emittedIndex := by rw [e4, e3, e2, e1]
    have hlog : (emit st4).1.log = st4.log ∧ (emit st4).1.commitIndex = st4.commitIndex := by
      unfold emit
      by_cases hc : st4.emittedIndex ≤ st4.commitIndex
      · obtain ⟨a, b, _⟩ := aux_emitLoop_log (st4.commitIndex - st4.emittedIndex) st4 [] hc
        exact ⟨a, b⟩
      · have : st4.commitIndex - st4.emittedIndex = 0 := by omega
        rw [this]; simp [emitLoop]
    have hle4 : st4.commitIndex ≤ st4.log.length := by
      have := hle
      simp only at this
      rw [hlog.1, hlog.2] at this; exact this
    have hem' : st4.emittedIndex ≤ st4.commitIndex := by
      have := hem
      simp only at this
      rw [hlog.2] at this; omega
    obtain ⟨a, b⟩ := aux_emitLoop_spec (st4.commitIndex - st4.emittedIndex) st4 [] (by omega) hle4
    simp only
    refine ⟨?_, ?_⟩
    · rw [hlog.2]; exact a
    · rw [hlog.1, hlog.2, ← hem4]
      unfold emit
      rw [b]; simp

/-- executions of the implementation together with the history of every member's `committed` output stream
    (`hist v` = everything member `v` has emitted so far, in order) -/
inductive ReachOut (n : Nat) : Sys → (Nat → List Entry) → Prop where
  | init : ReachOut n initSys (fun _ => [])
  | step {s hist} (m : Nat) (el hb : Bool) (reqs : List Nat) (msgs : List (Nat × Rpc)) (r : StepResult) :
      ReachOut n s hist → m < n → (∀ sm ∈ msgs, s.net ⟨m, sm.1, sm.2⟩) →
      raftStep (s.nodes m) (mkInput n m el hb reqs msgs) = some r →
      ReachOut n (s.update m r.st r.out.outbound) (fun v => if v = m then hist v ++ r.out.committed else hist v)

/-- the emitted history of a member is its log up to `emitted_index` -/
theorem aux_hist_is_prefix (n : Nat) (s : Sys) (hist : Nat → List Entry) (h : ReachOut n s hist) :
    Reach n s ∧ ∀ v, hist v = (s.nodes v).log.take (s.nodes v).emittedIndex := by
  induction h with
  | init => exact ⟨.init, fun v => by simp [initSys]⟩
  | @step s hist m el hb reqs msgs r _ hm hmsgs hstep ih =>
    obtain ⟨hr, hh⟩ := ih
    have hmac : MacroStep n s (s.update m r.st r.out.outbound) := .tick s m el hb reqs msgs r hm hmsgs hstep
    have hr' : Reach n (s.update m r.st r.out.outbound) := .step hr hmac
    refine ⟨hr', fun v => ?_⟩
    by_cases hv : v = m
    · subst hv
      have hw := aux_winv_reach n s hr
      have hw' := aux_winv_reach n _ hr'
      obtain ⟨hmono, hkeep⟩ := aux_no_retraction n s _ hr hmac v
      have hnode : (s.update v r.st r.out.outbound).nodes v = r.st := by simp [Sys.update]
      rw [hnode] at hmono hkeep
      have hle : r.st.commitIndex ≤ r.st.log.length := by have := hw'.commitLe v; rw [hnode] at this; exact this
      have hel := hw.emitLe v
      obtain ⟨e1, e2⟩ := aux_raftStep_emit _ _ r hstep hle (by omega)
      simp only [if_true, hnode]
      rw [hh v, e2, e1]
      have h1 : r.st.log.take (s.nodes v).emittedIndex = (s.nodes v).log.take (s.nodes v).emittedIndex := by
        have := congrArg (List.take (s.nodes v).emittedIndex) hkeep
        rw [List.take_take, List.take_take, Nat.min_eq_left hel] at this
        exact this
      have h2 : (r.st.log.take r.st.commitIndex).take (s.nodes v).emittedIndex =
          r.st.log.take (s.nodes v).emittedIndex := by
        rw [List.take_take, Nat.min_eq_left (by omega)]
      rw [← h1, ← h2, List.take_append_drop]
    · have hnode : (s.update m r.st r.out.outbound).nodes v = s.nodes v := by simp [Sys.update, hv]
      simp only [hv, if_false, hnode]
      exact hh v

end HvProto.Raft
