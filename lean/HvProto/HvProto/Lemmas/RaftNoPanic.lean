/-
  The two `assert!`s of `raft_step` never fire: in every execution every `raft_step` call on sent messages
  returns normally (so the `= some r` side condition of `MacroStep.tick` never excludes a call).
-/
import HvProto.Lemmas.RaftLC3

namespace HvProto.Raft

/-- the truncation guard never fires when the committed prefix agrees with the leader's term log -/
theorem aux_appendLoop_some (tl : Nat → List Entry) (X : List Entry) (hX : Agree tl X) (k : Nat)
    (es : List Entry) :
    ∀ (L : List Entry) (p : Nat),
    Agree tl L → LogWf L → Consec p es → p ≤ L.length → L.take p = X.take p →
    X.take p ++ es = X.take (p + es.length) → L.take k = X.take k → k ≤ X.length →
    ∃ L', appendEntriesLoop L k es = some L' := by
  induction es with
  | nil => intro L p _ _ _ _ _ _ _ _; exact ⟨L, by simp [appendEntriesLoop]⟩
  | cons e rest ih =>
    intro L p hA hw hcs hp hLX hseg hk hkX
    obtain ⟨he, hrest⟩ := aux_consec_tail p e rest hcs
    have hlen : p + (rest.length + 1) ≤ X.length := by
      have := congrArg List.length hseg
      simp [List.length_take] at this
      omega
    have hXp : X[p]? = some e := by
      have h1 : (X.take p ++ e :: rest)[p]? = some e := by
        rw [List.getElem?_append_right (by simp [List.length_take])]
        have : min p X.length = p := by omega
        simp [List.length_take, this]
      rw [hseg, List.getElem?_take] at h1
      simpa [show p < p + (e :: rest).length by simp] using h1
    have hXsucc : X.take (p + 1) = X.take p ++ [e] := aux_take_succ_of_get X p e hXp
    have hseg' : X.take (p + 1) ++ rest = X.take (p + 1 + rest.length) := by
      rw [hXsucc, List.append_assoc]
      simpa [Nat.add_assoc, Nat.add_comm 1] using hseg
    have hsmall : k ≤ p + 1 → (X.take (p + 1)).take k = X.take k := by
      intro hkp; rw [List.take_take]; congr 1; omega
    unfold appendEntriesLoop
    split
    · next hlenL =>
      split
      · next hconf =>
        have hkp : k ≤ p := by
          by_contra hcon
          have hLp : L[p]? = some e := by
            rw [aux_get_of_take_eq L X k p hk (by omega)]; exact hXp
          simp [entryAt, he, hLp] at hconf
        have hgt : e.index > k := by omega
        simp only [hgt, if_true]
        have hL1 : List.take (e.index - 1) L ++ [e] = X.take (p + 1) := by
          rw [hXsucc, he]; simp [hLX]
        rw [hL1]
        refine ih (X.take (p + 1)) (p + 1) (aux_agree_take tl X _ hX) ?_ hrest ?_ ?_ hseg' (hsmall (by omega)) hkX
        · rw [← hL1]; apply aux_logwf_push _ _ (aux_logwf_take _ _ hw); simp [List.length_take]; omega
        · simp [List.length_take]; omega
        · simp
      · next hsame =>
        have hLp : ∃ e', L[p]? = some e' := by
          have : p < L.length := by simp at hlenL; omega
          exact ⟨L[p], by simp [this]⟩
        obtain ⟨e', he'⟩ := hLp
        have hterm : e'.term = e.term := by
          simp [entryAt, he, he'] at hsame
          exact hsame
        have h1 := hA p e' he'
        have h2 := hX p e hXp
        rw [hterm] at h1
        have hLX' : L.take (p + 1) = X.take (p + 1) := by rw [← h1, h2]
        have hp' : p + 1 ≤ L.length := by simp at hlenL; omega
        exact ih L (p + 1) hA hw hrest hp' hLX' hseg' hk hkX
    · next hlenL =>
      have hl : L.length = p := by simp at hlenL; omega
      have hL1 : L ++ [e] = X.take (p + 1) := by
        rw [hXsucc, ← hLX, ← hl]; simp
      rw [hL1]
      have hkp : k ≤ p + 1 := by
        have := aux_take_len_of_eq L X k hk hkX
        omega
      refine ih (X.take (p + 1)) (p + 1) (aux_agree_take tl X _ hX) ?_ hrest ?_ ?_ hseg' (hsmall hkp) hkX
      · rw [← hL1]; exact aux_logwf_push _ _ hw (by omega)
      · simp [List.length_take]; omega
      · simp

/-- no delivered message makes `handleMsg` panic -/
theorem aux_handleMsg_some (n m sender : Nat) (s : Sys) (tl : Nat → List Entry) (cm : Nat → Nat)
    (hg : GReach n s tl cm) (rpc : Rpc) (hnet : s.net ⟨m, sender, rpc⟩) :
    ∃ st' out, handleMsg (others n m) (majority n) (s.nodes m) sender rpc = some (st', out) := by
  obtain ⟨hr, hi, hc, hl, hq⟩ := aux_greach_all n s tl cm hg
  have he := aux_einv_microReach n s hr
  have hw := aux_winv_microReach n s hr
  cases rpc with
  | requestVote term lli llt => simp only [handleMsg]; split <;> exact ⟨_, _, rfl⟩
  | requestVoteResponse term => simp only [handleMsg]; split <;> exact ⟨_, _, rfl⟩
  | appendEntriesReply term success mi => simp only [handleMsg]; split <;> exact ⟨_, _, rfl⟩
  | appendEntries term leader prev prevTerm entries leaderCommit =>
    obtain ⟨o1, o2, _⟩ := aux_observeTerm_log (s.nodes m) term
    obtain ⟨_, o4⟩ := aux_observeTerm_mi (s.nodes m) term
    obtain ⟨hok, hEl⟩ := hi.aeC _ _ _ _ _ _ _ _ hnet
    obtain ⟨w1, w2, w3⟩ := he.wfNet _ hnet
    simp only at w1 w2 w3
    simp only [handleMsg]
    split
    · next hcur =>
      have hterm : term = (observeTerm (s.nodes m) term).1.term := by
        rcases aux_observeTerm (s.nodes m) term with ⟨h1, _, h4⟩ | ⟨_, _, h4, _⟩
        · rw [h1]; exact h4.1 hcur
        · exact h4.symm
      have htm : (s.nodes m).term ≤ term := by
        rcases aux_observeTerm (s.nodes m) term with ⟨h1, _, h4⟩ | ⟨h1, _⟩
        · have := h4.1 hcur; omega
        · omega
      unfold onAppendEntries
      split
      · next hlead =>
        exfalso
        have hl' : (observeTerm (s.nodes m) term).1.role = .leader := by simpa using hlead
        obtain ⟨a, b⟩ := o4 hl'
        have e1 := he.leaderRecorded m a
        rw [← b, ← hterm] at e1
        exact w3 (aux_einv_safety n s he m sender term e1 hEl)
      · split
        · exact ⟨_, _, rfl⟩
        · next hlm =>
          have hlm' : logMatches (s.nodes m).log prev prevTerm = true := by rw [← o1]; simpa using hlm
          -- the committed prefix agrees with the term log of `term`
          obtain ⟨t1, z1, e1, c1, p1⟩ := hc.nodeC m
          have hci : (s.nodes m).log.take (s.nodes m).commitIndex = (tl term).take (s.nodes m).commitIndex := by
            by_cases hz : (s.nodes m).commitIndex = 0
            · rw [hz]; simp
            · rcases Nat.lt_or_ge t1 term with hlt | hge
              · have := aux_leader_completeness n s tl cm hg t1 term hlt ⟨sender, hEl⟩
                have h2 := congrArg (List.take (s.nodes m).commitIndex) this
                rw [List.take_take, List.take_take, Nat.min_eq_left c1] at h2
                rw [p1, h2]
              · have : t1 = term := by omega
                rw [this] at p1; exact p1
          have hcX : (s.nodes m).commitIndex ≤ (tl term).length := by
            have := aux_take_len_of_eq _ _ _ hci.symm (hw.commitLe m)
            exact this
          -- segment facts (as in `aux_ae_facts`)
          have hseg : ∃ L', appendEntriesLoop (s.nodes m).log (s.nodes m).commitIndex entries = some L' := by
            have hlmm : prev = 0 ∨ (prev ≤ (s.nodes m).log.length ∧ (entryAt (s.nodes m).log prev).term = prevTerm) := by
              simp only [logMatches] at hlm'
              simp at hlm'
              rcases hlm' with hz | ⟨hz1, hz2⟩
              · exact Or.inl hz
              · exact Or.inr ⟨hz1, hz2⟩
            rcases hok with ⟨h0, hp0, _⟩ | ⟨hpX, hsg, hprev⟩
            · rcases hlmm with hz | ⟨hl1, hl2⟩
              · exact absurd hz hp0
              · have hget := aux_entryAt_get _ prev hp0 hl1
                have := (hi.pos m _ (List.mem_of_getElem? hget)).1
                rw [hl2, h0] at this; omega
            · have hp : prev ≤ (s.nodes m).log.length := by
                rcases hlmm with hz | ⟨hl1, _⟩
                · omega
                · exact hl1
              have hLX : (s.nodes m).log.take prev = (tl term).take prev := by
                by_cases hp0 : prev = 0
                · subst hp0; simp
                · rcases hlmm with hz | ⟨hl1, hl2⟩
                  · exact absurd hz hp0
                  · have hget := aux_entryAt_get _ prev hp0 hl1
                    rcases hprev with hz | ⟨e2, hx2, ht2⟩
                    · exact absurd hz hp0
                    · have a1 := hi.nodeB m (prev - 1) _ hget
                      have a2 := hi.tlB term (prev - 1) e2 hx2
                      have hpp : prev - 1 + 1 = prev := by omega
                      rw [hpp] at a1 a2
                      rw [hl2] at a1
                      rw [ht2] at a2
                      rw [← a1, a2]
              exact aux_appendLoop_some tl (tl term) (hi.tlB term) _ entries _ prev (hi.nodeB m) (hw.logWf m)
                (hw.aeWf _ _ _ _ _ _ _ _ hnet) hp hLX hsg hci hcX
          obtain ⟨L', hL'⟩ := hseg
          simp only [show appendEntriesLoop (observeTerm (s.nodes m) term).1.log
            (observeTerm (s.nodes m) term).1.commitIndex entries = some L' from by rw [o1, o2]; exact hL']
          exact ⟨_, _, rfl⟩
    · exact ⟨_, _, rfl⟩

theorem aux_handleMsgs_some (n : Nat) (s : Sys) (m : Nat) (hm : m < n) (msgs : List (Nat × Rpc)) :
    ∀ (st : NodeState) (acc : List (Nat × Rpc)) (s2 : Sys),
    MicroReach n s2 → Upd s m st acc s2 → (∀ x ∈ msgs, s.net ⟨m, x.1, x.2⟩) →
    ∃ st1 out1, handleMsgs (others n m) (majority n) st acc msgs = some (st1, out1) := by
  induction msgs with
  | nil => intro st acc s2 _ _ _; exact ⟨st, acc, by simp [handleMsgs]⟩
  | cons x t ih =>
    intro st acc s2 hr hu hnet
    obtain ⟨sd, rpc⟩ := x
    have hnet2 : s2.net ⟨m, sd, rpc⟩ := (hu.net _).2 (Or.inl (hnet (sd, rpc) (by simp)))
    obtain ⟨tl, cm, hg⟩ := aux_greach_exists n s2 hr
    obtain ⟨st', new, heq⟩ := aux_handleMsg_some n m sd s2 tl cm hg rpc hnet2
    have hstep : MicroStep n s2 (s2.update m st' new) := MicroStep.deliver s2 m sd rpc st' new hm hnet2 heq
    rw [aux_upd_node s m st acc s2 hu] at heq
    obtain ⟨st1, out1, h1⟩ := ih st' (acc ++ new) _ (.step hr hstep) (aux_upd_step s m st acc s2 hu st' new)
      (fun y hy => hnet y (List.mem_cons_of_mem _ hy))
    refine ⟨st1, out1, ?_⟩
    simp only [handleMsgs, heq]; exact h1

/-- every `raft_step` call on sent messages in a reachable state returns normally -/
theorem aux_raftStep_some (n : Nat) (s : Sys) (h : Reach n s) (m : Nat) (hm : m < n) (el hb : Bool)
    (reqs : List Nat) (msgs : List (Nat × Rpc)) (hmsgs : ∀ sm ∈ msgs, s.net ⟨m, sm.1, sm.2⟩) :
    ∃ r, raftStep (s.nodes m) (mkInput n m el hb reqs msgs) = some r := by
  obtain ⟨sm, hrm, hn, hnet, _⟩ := aux_reach_sim n s h
  rw [hn]
  have hmsgs' : ∀ x ∈ msgs, sm.net ⟨m, x.1, x.2⟩ := by
    intro x hx; rw [← hnet]; exact hmsgs x hx
  have hbase : Upd sm m (sm.nodes m) [] sm := by
    refine ⟨fun x => ?_, fun e => by simp, fun c t h => h, fun hl => ?_⟩
    · by_cases hx : x = m
      · simp [hx]
      · simp [hx]
    · exact (aux_einv_microReach n sm hrm).leaderRecorded m hl
  obtain ⟨st1, out1, h1⟩ := aux_handleMsgs_some n sm m hm (sortMsgs msgs) (sm.nodes m) [] sm hrm hbase
    (fun x hx => hmsgs' x (aux_sortMsgs_mem msgs x hx))
  unfold raftStep mkInput
  simp only [h1]
  exact ⟨_, rfl⟩

end HvProto.Raft
