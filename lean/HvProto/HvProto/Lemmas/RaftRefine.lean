/-
  Every `MacroStep` (one call of `raftStep` = `raft_step`) is a finite sequence of `MicroStep`s, so
  the invariants proved on micro steps hold in every state the implementation's executions reach.
-/
import HvProto.Lemmas.RaftElection

namespace HvProto.Raft

/-- `s2` is `s` after member `m` moved to `st` and sent `out` (ghost `elected` may have grown more) -/
structure Upd (s : Sys) (m : Nat) (st : NodeState) (out : List (Nat × Rpc)) (s2 : Sys) : Prop where
  nodes : ∀ x, s2.nodes x = if x = m then st else s.nodes x
  net : ∀ e, s2.net e ↔ (s.net e ∨ (e.frm = m ∧ (e.to, e.rpc) ∈ out))
  electedMono : ∀ c t, s.elected c t → s2.elected c t
  leader : st.role = .leader → s2.elected m st.term

theorem aux_upd_step (s : Sys) (m : Nat) (st : NodeState) (out : List (Nat × Rpc)) (s2 : Sys)
    (h : Upd s m st out s2) (st' : NodeState) (new : List (Nat × Rpc)) :
    Upd s m st' (out ++ new) (s2.update m st' new) := by
  constructor
  · intro x; simp only [Sys.update]
    by_cases hx : x = m
    · simp [hx]
    · simp [hx, h.nodes x]
  · intro e; simp only [Sys.update, h.net e, List.mem_append]
    constructor
    · rintro ((h1 | ⟨h1, h2⟩) | ⟨h1, h2⟩)
      · exact Or.inl h1
      · exact Or.inr ⟨h1, Or.inl h2⟩
      · exact Or.inr ⟨h1, Or.inr h2⟩
    · rintro (h1 | ⟨h1, h2 | h2⟩)
      · exact Or.inl (Or.inl h1)
      · exact Or.inl (Or.inr ⟨h1, h2⟩)
      · exact Or.inr ⟨h1, h2⟩
  · intro c t hc; exact Or.inl (h.electedMono c t hc)
  · intro hr; exact Or.inr ⟨rfl, hr, rfl⟩

theorem aux_upd_node (s : Sys) (m : Nat) (st : NodeState) (out : List (Nat × Rpc)) (s2 : Sys)
    (h : Upd s m st out s2) : s2.nodes m = st := by
  rw [h.nodes m]; simp

theorem aux_insertSorted_mem (x y : Nat × Rpc) (l : List (Nat × Rpc)) :
    y ∈ insertSorted x l → y = x ∨ y ∈ l := by
  induction l with
  | nil => intro h; simp [insertSorted] at h; exact Or.inl h
  | cons z t ih =>
    intro h
    unfold insertSorted at h
    split at h
    · rcases List.mem_cons.1 h with h | h
      · exact Or.inr (by simp [h])
      · rcases ih h with h | h
        · exact Or.inl h
        · exact Or.inr (List.mem_cons_of_mem _ h)
    · rcases List.mem_cons.1 h with h | h
      · exact Or.inl h
      · exact Or.inr h

theorem aux_sortMsgs_mem (l : List (Nat × Rpc)) (y : Nat × Rpc) : y ∈ sortMsgs l → y ∈ l := by
  unfold sortMsgs
  have : ∀ (l acc : List (Nat × Rpc)), y ∈ l.foldl (fun acc x => insertSorted x acc) acc → y ∈ acc ∨ y ∈ l := by
    intro l
    induction l with
    | nil => intro acc h; exact Or.inl h
    | cons x t ih =>
      intro acc h
      simp only [List.foldl_cons] at h
      rcases ih _ h with h | h
      · rcases aux_insertSorted_mem x y acc h with h | h
        · exact Or.inr (by simp [h])
        · exact Or.inl h
      · exact Or.inr (List.mem_cons_of_mem _ h)
  intro h
  rcases this l [] h with h | h
  · cases h
  · exact h

theorem aux_chain_msgs_gen (n : Nat) (P : Sys → Prop) (hP : ∀ x y, P x → MicroStep n x y → P y)
    (s : Sys) (m : Nat) (hm : m < n) (msgs : List (Nat × Rpc)) :
    ∀ (st : NodeState) (acc : List (Nat × Rpc)) (s2 : Sys) (st1 : NodeState) (out1 : List (Nat × Rpc)),
    P s2 → Upd s m st acc s2 → (∀ x ∈ msgs, s.net ⟨m, x.1, x.2⟩) →
    handleMsgs (others n m) (majority n) st acc msgs = some (st1, out1) →
    ∃ s3, P s3 ∧ Upd s m st1 out1 s3 := by
  induction msgs with
  | nil =>
    intro st acc s2 st1 out1 hr hu _ hh
    simp only [handleMsgs] at hh
    injection hh with hh; injection hh with e1 e2; subst e1; subst e2
    exact ⟨s2, hr, hu⟩
  | cons x t ih =>
    intro st acc s2 st1 out1 hr hu hnet hh
    obtain ⟨sd, rpc⟩ := x
    simp only [handleMsgs] at hh
    split at hh
    · cases hh
    · next st' new heq =>
      have hstep : MicroStep n s2 (s2.update m st' new) := by
        refine MicroStep.deliver s2 m sd rpc st' new hm ?_ ?_
        · exact (hu.net _).2 (Or.inl (hnet (sd, rpc) (by simp)))
        · rw [aux_upd_node s m st acc s2 hu]; exact heq
      exact ih st' (acc ++ new) _ st1 out1 (hP _ _ hr hstep) (aux_upd_step s m st acc s2 hu st' new)
        (fun y hy => hnet y (List.mem_cons_of_mem _ hy)) hh

/-- a macro step is matched by micro steps; `P` is any predicate preserved by micro steps (reachability,
    possibly together with a property that is stable under micro steps) -/
theorem aux_macro_refines_gen (n : Nat) (P : Sys → Prop) (hP : ∀ x y, P x → MicroStep n x y → P y)
    (s : Sys) (hr : P s) (hE : EInv n s) (m : Nat) (el hb : Bool)
    (reqs : List Nat) (msgs : List (Nat × Rpc)) (r : StepResult) (hm : m < n)
    (hnet : ∀ sm ∈ msgs, s.net ⟨m, sm.1, sm.2⟩)
    (hstep : raftStep (s.nodes m) (mkInput n m el hb reqs msgs) = some r) :
    ∃ s3, P s3 ∧ Upd s m r.st r.out.outbound s3 := by
  have hbase : Upd s m (s.nodes m) [] s := by
    refine ⟨fun x => ?_, fun e => by simp, fun c t h => h, fun hl => ?_⟩
    · by_cases hx : x = m
      · simp [hx]
      · simp [hx]
    · exact hE.leaderRecorded m hl
  unfold raftStep mkInput at hstep
  simp only at hstep
  split at hstep
  · cases hstep
  · next st1 out1 heq =>
    obtain ⟨s1, hr1, hu1⟩ := aux_chain_msgs_gen n P hP s m hm (sortMsgs msgs) (s.nodes m) [] s st1 out1 hr hbase
      (fun x hx => hnet x (aux_sortMsgs_mem msgs x hx)) heq
    -- requests
    have hn1 := aux_upd_node s m st1 out1 s1 hu1
    have hr2 : P (s1.update m (handleRequests st1 [] reqs).1 []) := by
      have := MicroStep.request s1 m reqs hm
      rw [hn1] at this
      exact hP _ _ hr1 this
    have hu2 := aux_upd_step s m st1 out1 s1 hu1 (handleRequests st1 [] reqs).1 []
    rw [List.append_nil] at hu2
    generalize hst2 : (handleRequests st1 [] reqs).1 = st2 at hr2 hu2 hstep
    generalize hs2 : s1.update m st2 [] = s2 at hr2 hu2
    -- election timer
    have hn2 := aux_upd_node s m st2 out1 s2 hu2
    have h3 : ∃ s3, P s3 ∧
        Upd s m (electionTimer m (others n m) (majority n) el st2).1
          (out1 ++ (electionTimer m (others n m) (majority n) el st2).2) s3 := by
      cases el with
      | true =>
        have := MicroStep.timer s2 m hm
        rw [hn2] at this
        exact ⟨_, hP _ _ hr2 this, aux_upd_step s m st2 out1 s2 hu2 _ _⟩
      | false =>
        have : electionTimer m (others n m) (majority n) false st2 = (st2, []) := by
          simp [electionTimer]
        rw [this]; simp only [List.append_nil]
        exact ⟨s2, hr2, hu2⟩
    obtain ⟨s3, hr3, hu3⟩ := h3
    generalize hst3 : (electionTimer m (others n m) (majority n) el st2).1 = st3 at hu3 hstep
    generalize hout2 : (electionTimer m (others n m) (majority n) el st2).2 = out2 at hu3 hstep
    -- advance
    have hn3 := aux_upd_node s m st3 _ s3 hu3
    have hr4 : P (s3.update m (advanceCommit (others n m) (majority n) st3) []) := by
      have := MicroStep.advance s3 m hm
      rw [hn3] at this
      exact hP _ _ hr3 this
    have hu4 := aux_upd_step s m st3 _ s3 hu3 (advanceCommit (others n m) (majority n) st3) []
    rw [List.append_nil] at hu4
    generalize hst4 : advanceCommit (others n m) (majority n) st3 = st4 at hr4 hu4 hstep
    generalize hs4 : s3.update m st4 [] = s4 at hr4 hu4
    -- heartbeat
    have hn4 := aux_upd_node s m st4 _ s4 hu4
    have h5 : ∃ s5, P s5 ∧
        Upd s m st4 (out1 ++ out2 ++ heartbeat m (others n m) hb st4) s5 := by
      cases hb with
      | true =>
        have := MicroStep.heartbeat s4 m hm
        rw [hn4] at this
        exact ⟨_, hP _ _ hr4 this, aux_upd_step s m st4 _ s4 hu4 _ _⟩
      | false =>
        have : heartbeat m (others n m) false st4 = [] := by simp [heartbeat]
        rw [this]; simp only [List.append_nil]
        exact ⟨s4, hr4, hu4⟩
    obtain ⟨s5, hr5, hu5⟩ := h5
    -- emit
    have hn5 := aux_upd_node s m st4 _ s5 hu5
    have hr6 : P (s5.update m (emit st4).1 []) := by
      have := MicroStep.emit s5 m hm
      rw [hn5] at this
      exact hP _ _ hr5 this
    have hu6 := aux_upd_step s m st4 _ s5 hu5 (emit st4).1 []
    rw [List.append_nil] at hu6
    injection hstep with hstep
    subst hstep
    exact ⟨_, hr6, hu6⟩

/-- a macro step from a micro-reachable state is matched by micro steps -/
theorem aux_macro_refines (n : Nat) (s : Sys) (hr : MicroReach n s) (m : Nat) (el hb : Bool)
    (reqs : List Nat) (msgs : List (Nat × Rpc)) (r : StepResult) (hm : m < n)
    (hnet : ∀ sm ∈ msgs, s.net ⟨m, sm.1, sm.2⟩)
    (hstep : raftStep (s.nodes m) (mkInput n m el hb reqs msgs) = some r) :
    ∃ s3, MicroReach n s3 ∧ Upd s m r.st r.out.outbound s3 :=
  aux_macro_refines_gen n (MicroReach n) (fun _ _ h hs => .step h hs) s hr (aux_einv_microReach n s hr)
    m el hb reqs msgs r hm hnet hstep

/-- simulation relation between implementation executions and micro executions -/
def Sim (s sm : Sys) : Prop :=
  s.nodes = sm.nodes ∧ s.net = sm.net ∧ ∀ c t, s.elected c t → sm.elected c t

theorem aux_reach_sim (n : Nat) (s : Sys) (h : Reach n s) : ∃ sm, MicroReach n sm ∧ Sim s sm := by
  induction h with
  | init => exact ⟨initSys, .init, rfl, rfl, fun _ _ h => h⟩
  | step _ hs ih =>
    obtain ⟨sm, hrm, hn, hnet, hel⟩ := ih
    cases hs with
    | tick m el hb reqs msgs r hm hmsgs hstep =>
      rw [hn] at hstep
      have hmsgs' : ∀ x ∈ msgs, sm.net ⟨m, x.1, x.2⟩ := by
        intro x hx; rw [← hnet]; exact hmsgs x hx
      obtain ⟨s3, hr3, hu3⟩ := aux_macro_refines n sm hrm m el hb reqs msgs r hm hmsgs' hstep
      refine ⟨s3, hr3, ?_, ?_, ?_⟩
      · funext x; simp only [Sys.update]; rw [hu3.nodes x, hn]
      · funext e; simp only [Sys.update]; rw [hnet]; exact propext (hu3.net e).symm
      · intro c t hc
        rcases hc with hc | ⟨h1, h2, h3⟩
        · exact hu3.electedMono c t (hel c t hc)
        · subst h1; subst h3; exact hu3.leader h2

/-- **Election safety** for the executions of the implementation's step function: in every state
    reached by any sequence of `raft_step` calls, no term has two leaders (over the whole history). -/
theorem aux_election_safety (n : Nat) (s : Sys) (h : Reach n s) (c c' t : Nat)
    (h1 : s.elected c t) (h2 : s.elected c' t) : c = c' := by
  obtain ⟨sm, hrm, _, _, hel⟩ := aux_reach_sim n s h
  exact aux_election_safety_micro n sm hrm c c' t (hel c t h1) (hel c' t h2)

/-- every `EInv` fact that only mentions nodes and the network transfers to implementation executions -/
theorem aux_reach_inv (n : Nat) (s : Sys) (h : Reach n s) : ∃ sm, MicroReach n sm ∧ Sim s sm ∧ EInv n sm := by
  obtain ⟨sm, hrm, hs⟩ := aux_reach_sim n s h
  exact ⟨sm, hrm, hs, aux_einv_microReach n sm hrm⟩

end HvProto.Raft
