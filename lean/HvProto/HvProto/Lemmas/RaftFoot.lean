/-
  Footprints of the micro steps that the leader-completeness invariants (Lemmas/RaftLC.lean) need:
  what exactly is sent (votes, successful AppendEntries replies, vote requests) and how the log moves.
-/
import HvProto.Lemmas.RaftCommit

namespace HvProto.Raft

/-- the messages one `handleMsg` call sends -/
theorem aux_handleMsg_out (oth : List Nat) (maj sender : Nat) (st st' : NodeState) (rpc : Rpc)
    (out : List (Nat × Rpc)) (h : handleMsg oth maj st sender rpc = some (st', out)) :
    out = [] ∨
    (∃ lli llt, rpc = .requestVote st'.term lli llt ∧ out = [(sender, .requestVoteResponse st'.term)] ∧
      pairGe (llt, lli) (lastLogPosition st.log) = true ∧ st'.log = st.log) ∨
    (∃ t, out = [(sender, .appendEntriesReply t false 0)]) ∨
    (∃ l p pt es lc, rpc = .appendEntries st'.term l p pt es lc ∧
      out = [(sender, .appendEntriesReply st'.term true (p + es.length))] ∧ st'.role = .follower ∧
      logMatches st.log p pt = true ∧ appendEntriesLoop st.log st.commitIndex es = some st'.log) := by
  obtain ⟨o1, o2, _⟩ := aux_observeTerm_log st (match rpc with
    | .requestVote t _ _ => t | .requestVoteResponse t => t
    | .appendEntries t _ _ _ _ _ => t | .appendEntriesReply t _ _ => t)
  cases rpc with
  | requestVote term lli llt =>
    simp only at o1 o2
    simp only [handleMsg] at h
    split at h
    · next hcur =>
      have hterm : term = (observeTerm st term).1.term := by
        rcases aux_observeTerm st term with ⟨h1, _, h4⟩ | ⟨_, _, h4, _⟩
        · rw [h1]; exact h4.1 hcur
        · exact h4.symm
      injection h with h
      unfold onRequestVote at h; dsimp only at h
      split at h
      · next hcond =>
        injection h with e1 e2; subst e1; subst e2
        right; left
        refine ⟨lli, llt, ?_, rfl, ?_, o1⟩
        · exact congrArg (fun t => Rpc.requestVote t lli llt) hterm
        · rw [← o1]; simp only [Bool.and_eq_true] at hcond; exact hcond.1
      · injection h with e1 e2; subst e1; subst e2; exact Or.inl rfl
    · injection h with h; injection h with e1 e2; subst e1; subst e2; exact Or.inl rfl
  | requestVoteResponse term =>
    simp only [handleMsg] at h
    split at h
    · injection h with h
      unfold onVoteResponse at h
      split at h
      · dsimp only at h
        split at h <;> (injection h with e1 e2; subst e1; subst e2; exact Or.inl rfl)
      · injection h with e1 e2; subst e1; subst e2; exact Or.inl rfl
    · injection h with h; injection h with e1 e2; subst e1; subst e2; exact Or.inl rfl
  | appendEntries term leader prev prevTerm entries leaderCommit =>
    simp only at o1 o2
    simp only [handleMsg] at h
    split at h
    · next hcur =>
      have hterm : term = (observeTerm st term).1.term := by
        rcases aux_observeTerm st term with ⟨h1, _, h4⟩ | ⟨_, _, h4, _⟩
        · rw [h1]; exact h4.1 hcur
        · exact h4.symm
      unfold onAppendEntries at h
      split at h
      · cases h
      · next hnl =>
        have hrole : ∀ l, (aeAccept (observeTerm st term).1 l).role = .follower := by
          intro l; unfold aeAccept
          by_cases hr : (observeTerm st term).1.role = .candidate
          · simp [hr]
          · have : ((observeTerm st term).1.role == Role.candidate) = false := by simpa using hr
            simp only [this]
            have hnl' : (observeTerm st term).1.role ≠ .leader := by simpa using hnl
            cases hrr : (observeTerm st term).1.role with
            | follower => simp
            | candidate => exact absurd hrr hr
            | leader => exact absurd hrr hnl'
        split at h
        · injection h with h; injection h with e1 e2; subst e1; subst e2
          exact Or.inr (Or.inr (Or.inl ⟨_, rfl⟩))
        · next hlm =>
          split at h
          · cases h
          · next log' hloop =>
            injection h with h; injection h with e1 e2; subst e1; subst e2
            refine Or.inr (Or.inr (Or.inr ⟨leader, prev, prevTerm, entries, leaderCommit, ?_, ?_, hrole leader, ?_, ?_⟩))
            · exact congrArg (fun t => Rpc.appendEntries t leader prev prevTerm entries leaderCommit) hterm
            · rfl
            · rw [← o1]; simpa using hlm
            · rw [← o1, ← o2]; exact hloop
    · injection h with h; injection h with e1 e2; subst e1; subst e2
      exact Or.inr (Or.inr (Or.inl ⟨_, rfl⟩))
  | appendEntriesReply term success matchIdx =>
    simp only [handleMsg] at h
    split at h
    · injection h with h
      unfold onAppendReply at h
      split at h
      · injection h with e1 e2; subst e1; subst e2; exact Or.inl rfl
      · split at h
        · injection h with e1 e2; subst e1; subst e2; exact Or.inl rfl
        · split at h <;> (injection h with e1 e2; subst e1; subst e2; exact Or.inl rfl)
    · injection h with h; injection h with e1 e2; subst e1; subst e2; exact Or.inl rfl

/-! ### `match_index` bookkeeping -/

theorem aux_mapGet_mapSet (M : List (Nat × Nat)) (k v f : Nat) :
    mapGet (mapSet M k v) f = if f = k then some v else mapGet M f := by
  induction M with
  | nil =>
    by_cases h : f = k
    · subst h; simp [mapSet, mapGet]
    · have h' : ¬ k = f := fun e => h e.symm
      simp [mapSet, mapGet, h, h']
  | cons x t ih =>
    obtain ⟨k', v'⟩ := x
    by_cases h1 : k' = k
    · subst h1
      by_cases h2 : f = k'
      · subst h2; simp [mapSet, mapGet]
      · have h2' : ¬ k' = f := fun e => h2 e.symm
        simp [mapSet, mapGet, h2, h2']
    · by_cases h2 : k' = f
      · subst h2
        have h3 : ¬ k' = k := h1
        simp [mapSet, mapGet, h1]
      · simp [mapSet, mapGet, h1, h2, ih]

theorem aux_foldl_zero (oth : List Nat) : ∀ (M : List (Nat × Nat)) (f x : Nat),
    mapGet (oth.foldl (fun m f => mapSet m f 0) M) f = some x → x = 0 ∨ mapGet M f = some x := by
  induction oth with
  | nil => intro M f x h; exact Or.inr h
  | cons a t ih =>
    intro M f x h
    simp only [List.foldl_cons] at h
    rcases ih _ f x h with h0 | h1
    · exact Or.inl h0
    · rw [aux_mapGet_mapSet] at h1
      split at h1
      · injection h1 with h1; exact Or.inl h1.symm
      · exact Or.inr h1

theorem aux_observeTerm_mi (st : NodeState) (t : Nat) :
    (observeTerm st t).1.matchIndex = st.matchIndex ∧
    ((observeTerm st t).1.role = .leader → st.role = .leader ∧ (observeTerm st t).1.term = st.term) := by
  unfold observeTerm
  by_cases h : t > st.term
  · simp [h]
  · simp [h]

/-- what one message does to `match_index` -/
theorem aux_handleMsg_mi (oth : List Nat) (maj sender : Nat) (st st' : NodeState) (rpc : Rpc)
    (out : List (Nat × Rpc)) (h : handleMsg oth maj st sender rpc = some (st', out)) :
    (st'.matchIndex = st.matchIndex ∧ (st'.role = .leader → st.role = .leader ∧ st'.term = st.term)) ∨
    st'.matchIndex = oth.foldl (fun m f => mapSet m f 0) [] ∨
    (∃ mi, rpc = .appendEntriesReply st'.term true mi ∧ st.role = .leader ∧ st'.term = st.term ∧
       st'.matchIndex = mapSet st.matchIndex sender
         (if mi > (mapGet st.matchIndex sender).getD 0 then mi else (mapGet st.matchIndex sender).getD 0)) := by
  cases rpc with
  | requestVote term lli llt =>
    obtain ⟨o3, o4⟩ := aux_observeTerm_mi st term
    simp only [handleMsg] at h
    split at h
    · injection h with h
      unfold onRequestVote at h; dsimp only at h
      split at h <;> (injection h with e1 e2; subst e1; subst e2; exact Or.inl ⟨o3, o4⟩)
    · injection h with h; injection h with e1 e2; subst e1; subst e2; exact Or.inl ⟨o3, o4⟩
  | requestVoteResponse term =>
    obtain ⟨o3, o4⟩ := aux_observeTerm_mi st term
    simp only [handleMsg] at h
    split at h
    · injection h with h
      unfold onVoteResponse at h
      split at h
      · dsimp only at h
        split at h
        · injection h with e1 e2; subst e1; subst e2; exact Or.inr (Or.inl rfl)
        · injection h with e1 e2; subst e1; subst e2; exact Or.inl ⟨o3, o4⟩
      · injection h with e1 e2; subst e1; subst e2; exact Or.inl ⟨o3, o4⟩
    · injection h with h; injection h with e1 e2; subst e1; subst e2; exact Or.inl ⟨o3, o4⟩
  | appendEntries term leader prev prevTerm entries leaderCommit =>
    obtain ⟨o3, o4⟩ := aux_observeTerm_mi st term
    simp only [handleMsg] at h
    split at h
    · unfold onAppendEntries at h
      split at h
      · cases h
      · next hnl =>
        have hrole : ∀ l, (aeAccept (observeTerm st term).1 l).role ≠ .leader := by
          intro l; unfold aeAccept
          by_cases hr : (observeTerm st term).1.role = .candidate
          · simp [hr]
          · have : ((observeTerm st term).1.role == Role.candidate) = false := by simpa using hr
            simp only [this]; simpa using hnl
        split at h
        · injection h with h; injection h with e1 e2; subst e1; subst e2
          exact Or.inl ⟨o3, fun hr => absurd hr (hrole leader)⟩
        · split at h
          · cases h
          · injection h with h; injection h with e1 e2; subst e1; subst e2
            exact Or.inl ⟨o3, fun hr => absurd hr (hrole leader)⟩
    · injection h with h; injection h with e1 e2; subst e1; subst e2; exact Or.inl ⟨o3, o4⟩
  | appendEntriesReply term success matchIdx =>
    obtain ⟨o3, o4⟩ := aux_observeTerm_mi st term
    simp only [handleMsg] at h
    split at h
    · next hcur =>
      have hterm : term = (observeTerm st term).1.term := by
        rcases aux_observeTerm st term with ⟨h1, _, h4⟩ | ⟨_, _, h4, _⟩
        · rw [h1]; exact h4.1 hcur
        · exact h4.symm
      injection h with h
      unfold onAppendReply at h
      split at h
      · injection h with e1 e2; subst e1; subst e2; exact Or.inl ⟨o3, o4⟩
      · next hlead =>
        have hl : (observeTerm st term).1.role = .leader := by simpa using hlead
        obtain ⟨hsl, hst⟩ := o4 hl
        split at h
        · next hsucc =>
          injection h with e1 e2; subst e1; subst e2
          subst hsucc
          refine Or.inr (Or.inr ⟨matchIdx, ?_, hsl, hst, ?_⟩)
          · exact congrArg (fun t => Rpc.appendEntriesReply t true matchIdx) hterm
          · rw [← o3]
        · split at h <;> (injection h with e1 e2; subst e1; subst e2; exact Or.inl ⟨o3, o4⟩)
    · injection h with h; injection h with e1 e2; subst e1; subst e2; exact Or.inl ⟨o3, o4⟩

theorem aux_handleRequests_mi (rs : List Nat) : ∀ (st : NodeState) (red : List (Nat × Option Nat)),
    (handleRequests st red rs).1.matchIndex = st.matchIndex := by
  induction rs with
  | nil => intro st red; simp [handleRequests]
  | cons r rs ih =>
    intro st red
    unfold handleRequests
    split
    · exact ih _ red
    · exact ih st _

theorem aux_emitLoop_mi (k : Nat) : ∀ (st : NodeState) (acc : List Entry),
    (emitLoop st acc k).1.matchIndex = st.matchIndex := by
  induction k with
  | zero => intro st acc; simp [emitLoop]
  | succ k ih =>
    intro st acc
    unfold emitLoop
    split
    · exact ih _ _
    · rfl

theorem aux_electionTimer_mi (m : Nat) (oth : List Nat) (maj : Nat) (st : NodeState) :
    ((electionTimer m oth maj true st).1.matchIndex = st.matchIndex ∧
      ((electionTimer m oth maj true st).1.role = .leader →
        st.role = .leader ∧ (electionTimer m oth maj true st).1.term = st.term)) ∨
    (electionTimer m oth maj true st).1.matchIndex = oth.foldl (fun m f => mapSet m f 0) [] := by
  unfold electionTimer
  split
  · next hc =>
    split
    · left
      refine ⟨rfl, fun h => ?_⟩
      have h' : st.role = .leader := h
      simp [h'] at hc
    · dsimp only
      split
      · right; rfl
      · left; exact ⟨rfl, fun h => by cases h⟩
  · left; exact ⟨rfl, fun h => ⟨h, rfl⟩⟩

/-- the leader-side footprint of a micro step: `match_index` entries are zero, inherited, or backed by a
    successful reply of the current term; a leader's `commit_index` moves only in `advanceCommit` -/
structure MFoot (n : Nat) (s : Sys) (m : Nat) (st' : NodeState) : Prop where
  mi : st'.role = .leader → ∀ f v, mapGet st'.matchIndex f = some v →
      v = 0 ∨ ((s.nodes m).role = .leader ∧ st'.term = (s.nodes m).term ∧ mapGet (s.nodes m).matchIndex f = some v) ∨
      s.net ⟨m, f, .appendEntriesReply st'.term true v⟩
  ci : st'.role = .leader → st'.commitIndex = (s.nodes m).commitIndex ∨
      ((s.nodes m).role = .leader ∧ st' = advanceCommit (others n m) (majority n) (s.nodes m))

theorem aux_mi_of_shape (n : Nat) (s : Sys) (m : Nat) (st' : NodeState) (sender : Nat) (rpc : Rpc)
    (hnet : ∀ mi, rpc = .appendEntriesReply st'.term true mi → s.net ⟨m, sender, .appendEntriesReply st'.term true mi⟩)
    (h : (st'.matchIndex = (s.nodes m).matchIndex ∧
        (st'.role = .leader → (s.nodes m).role = .leader ∧ st'.term = (s.nodes m).term)) ∨
      st'.matchIndex = (others n m).foldl (fun m f => mapSet m f 0) [] ∨
      (∃ mi, rpc = .appendEntriesReply st'.term true mi ∧ (s.nodes m).role = .leader ∧ st'.term = (s.nodes m).term ∧
        st'.matchIndex = mapSet (s.nodes m).matchIndex sender
          (if mi > (mapGet (s.nodes m).matchIndex sender).getD 0 then mi
           else (mapGet (s.nodes m).matchIndex sender).getD 0))) :
    st'.role = .leader → ∀ f v, mapGet st'.matchIndex f = some v →
      v = 0 ∨ ((s.nodes m).role = .leader ∧ st'.term = (s.nodes m).term ∧ mapGet (s.nodes m).matchIndex f = some v) ∨
      s.net ⟨m, f, .appendEntriesReply st'.term true v⟩ := by
  intro hr f v hv
  rcases h with ⟨hsame, hrole⟩ | hz | ⟨mi, hrpc, hl, ht, hset⟩
  · obtain ⟨a, b⟩ := hrole hr
    rw [hsame] at hv
    exact Or.inr (Or.inl ⟨a, b, hv⟩)
  · rw [hz] at hv
    rcases aux_foldl_zero _ _ f v hv with h0 | h1
    · exact Or.inl h0
    · simp [mapGet] at h1
  · rw [hset, aux_mapGet_mapSet] at hv
    split at hv
    · next hfs =>
      subst hfs
      injection hv with hv
      split at hv
      · subst hv; exact Or.inr (Or.inr (hnet mi hrpc))
      · cases hb : mapGet (s.nodes m).matchIndex f with
        | none => rw [hb] at hv; simp at hv; exact Or.inl hv.symm
        | some b => rw [hb] at hv; simp at hv; subst hv; exact Or.inr (Or.inl ⟨hl, ht, by first | exact hb | rfl⟩)
    · exact Or.inr (Or.inl ⟨hl, ht, hv⟩)

/-- the three ways a log moves in one micro step -/
inductive LogShape (s : Sys) (m : Nat) (st' : NodeState) : Prop where
  | same : st'.log = (s.nodes m).log → LogShape s m st'
  | append (ext : List Entry) : (s.nodes m).role = .leader → st'.role = .leader → st'.term = (s.nodes m).term →
      st'.log = (s.nodes m).log ++ ext → (∀ e, e ∈ ext → e.term = (s.nodes m).term) → LogShape s m st'
  | accept (sender t l p pt : Nat) (es : List Entry) (lc : Nat) :
      s.net ⟨m, sender, .appendEntries t l p pt es lc⟩ → t = st'.term → st'.role = .follower →
      logMatches (s.nodes m).log p pt = true →
      appendEntriesLoop (s.nodes m).log (s.nodes m).commitIndex es = some st'.log → LogShape s m st'

structure LFoot (n : Nat) (s : Sys) (m : Nat) (st' : NodeState) (out : List (Nat × Rpc)) : Prop where
  eff : ElecEff n m s.net (s.nodes m) st' out
  cf : CFoot n s m st' out
  shape : LogShape s m st'
  /-- a vote is granted in answer to a `RequestVote` of the current term that passed the §5.4.1 check -/
  grant : ∀ c t, (c, Rpc.requestVoteResponse t) ∈ out → t = st'.term ∧ st'.log = (s.nodes m).log ∧
      ∃ lli llt, s.net ⟨m, c, .requestVote t lli llt⟩ ∧ pairGe (llt, lli) (lastLogPosition (s.nodes m).log) = true
  /-- a successful reply reports `prev + entries.len()` of an accepted current-term `AppendEntries` -/
  reply : ∀ x t mi, (x, Rpc.appendEntriesReply t true mi) ∈ out → t = st'.term ∧ st'.role = .follower ∧
      ∃ sender l p pt es lc, s.net ⟨m, sender, .appendEntries t l p pt es lc⟩ ∧ mi = p + es.length ∧
        logMatches (s.nodes m).log p pt = true ∧
        appendEntriesLoop (s.nodes m).log (s.nodes m).commitIndex es = some st'.log
  /-- vote requests are sent by a member that just started a candidacy, and describe its log -/
  reqv : ∀ x t lli llt, (x, Rpc.requestVote t lli llt) ∈ out → st'.role = .candidate ∧ t = st'.term ∧
      (s.nodes m).term < st'.term ∧ lastLogPosition st'.log = (llt, lli)
  mf : MFoot n s m st'

theorem aux_electionTimer_reqv (m : Nat) (oth : List Nat) (maj : Nat) (st : NodeState) :
    ∀ x t lli llt, (x, Rpc.requestVote t lli llt) ∈ (electionTimer m oth maj true st).2 →
      (electionTimer m oth maj true st).1.role = .candidate ∧ t = (electionTimer m oth maj true st).1.term ∧
      st.term < (electionTimer m oth maj true st).1.term ∧
      lastLogPosition (electionTimer m oth maj true st).1.log = (llt, lli) := by
  unfold electionTimer
  by_cases hl : st.role = .leader
  · simp only [hl]
    intro x t lli llt hmem; simp at hmem
  · have : (true && st.role != Role.leader) = true := by simpa using hl
    simp only [this, if_true]
    by_cases hh : st.heartbeatSeen = true
    · simp only [hh, if_true]
      intro x t lli llt hmem; simp at hmem
    · have hh' : st.heartbeatSeen = false := by simpa using hh
      simp only [hh', Bool.false_eq_true, if_false]
      by_cases hmaj : [m].length ≥ maj
      · simp only [hmaj, if_true]
        intro x t lli llt hmem; simp at hmem
      · simp only [hmaj, if_false]
        intro x t lli llt hmem
        simp only [List.mem_map, Prod.mk.injEq, Rpc.requestVote.injEq] at hmem
        obtain ⟨a, _, _, ht, hlli, hllt⟩ := hmem
        refine ⟨by first | trivial | rfl, by first | exact ht.symm | simp [ht], by first | trivial | simp | omega, ?_⟩
        first | (rw [← hlli, ← hllt]) | simp [← hlli, ← hllt]

theorem aux_lfoot_micro (n : Nat) (s s' : Sys) (tl : Nat → List Entry) (hi : TInv n s tl) (he : EInv n s)
    (hw : WInv n s) (h : MicroStep n s s') :
    ∃ m st' out, m < n ∧ s' = s.update m st' out ∧ LFoot n s m st' out := by
  have he' : EInv n s' := aux_einv_micro n s s' he h
  cases h with
  | deliver m sender rpc st' out hm hnet hh =>
    refine ⟨m, st', out, hm, rfl, ?_⟩
    obtain ⟨w1, w2, w3⟩ := he.wfNet _ hnet
    simp only at w1 w2 w3
    have heff := aux_handleMsg_eff n m sender s.net (s.nodes m) st' rpc out (Ne.symm w3) hnet hh
    have hout := aux_handleMsg_out _ _ _ _ _ _ _ hh
    obtain ⟨hnoae, hsh⟩ := aux_handleMsg_cshape _ _ _ _ _ _ _ hh
    have hfoot := aux_handleMsg_logfoot _ _ sender (s.nodes m) st' rpc out (hw.logWf m) (hw.commitLe m)
      (hw.emitLe m) (by intro t l p pt es lc hrpc; subst hrpc; exact hw.aeWf _ _ _ _ _ _ _ _ hnet) hh
    have hcfm : CFoot n s m st' out := by
      refine ⟨aux_lead_of_eff n m s tl hi he st' out he' heff, hfoot.commitMono, ?_, ?_, ?_,
        (aux_foot_of_eff n m s he hm st' out heff).termMono⟩
      · rcases hsh with ⟨hl, _⟩ | ⟨t, l, p, pt, es, lc, _, _, _, _, hloop, _⟩
        · rw [hl]
        · exact aux_appendLoop_keep es _ _ _ (hw.commitLe m) hloop
      · intro _
        rcases hsh with hl | ⟨t, l, p, pt, es, lc, hrpc, ht, _, hlm, hloop, hci⟩
        · exact Or.inl hl
        · subst hrpc
          exact Or.inr ⟨sender, t, l, p, pt, es, lc, hnet, ht, hlm, hloop, hci⟩
      · intro x hx t l p pt es lc hxe
        exact absurd hxe (hnoae x hx t l p pt es lc)
    have hmf : MFoot n s m st' := by
      refine ⟨aux_mi_of_shape n s m st' sender rpc (fun mi hrpc => by rw [hrpc] at hnet; exact hnet)
        (aux_handleMsg_mi _ _ _ _ _ _ _ hh), ?_⟩
      intro hr
      rcases hsh with ⟨_, hci⟩ | ⟨t, l, p, pt, es, lc, _, _, hrole, _⟩
      · exact Or.inl hci
      · rw [hrole] at hr; cases hr
    refine ⟨heff, hcfm, ?_, ?_, ?_, ?_, hmf⟩
    · rcases hsh with ⟨hl, _⟩ | ⟨t, l, p, pt, es, lc, hrpc, ht, hrole, hlm, hloop, _⟩
      · exact .same hl
      · subst hrpc
        exact .accept sender t l p pt es lc hnet ht hrole hlm hloop
    · intro c t hmem
      rcases hout with ho | ⟨lli, llt, hrpc, ho, hpg, hl⟩ | ⟨t', ho⟩ | ⟨l, p, pt, es, lc, _, ho, _⟩
      · rw [ho] at hmem; cases hmem
      · rw [ho] at hmem
        simp only [List.mem_singleton, Prod.mk.injEq, Rpc.requestVoteResponse.injEq] at hmem
        obtain ⟨hc, ht⟩ := hmem
        subst hc; subst ht
        subst hrpc
        exact ⟨rfl, hl, lli, llt, hnet, hpg⟩
      · rw [ho] at hmem; simp at hmem
      · rw [ho] at hmem; simp at hmem
    · intro x t mi hmem
      rcases hout with ho | ⟨lli, llt, _, ho, _, _⟩ | ⟨t', ho⟩ | ⟨l, p, pt, es, lc, hrpc, ho, hrole, hlm, hloop⟩
      · rw [ho] at hmem; cases hmem
      · rw [ho] at hmem; simp at hmem
      · rw [ho] at hmem; simp at hmem
      · rw [ho] at hmem
        simp only [List.mem_singleton, Prod.mk.injEq, Rpc.appendEntriesReply.injEq, true_and] at hmem
        obtain ⟨_, ht, hmi⟩ := hmem
        subst ht; subst hmi
        subst hrpc
        exact ⟨rfl, hrole, sender, l, p, pt, es, lc, hnet, rfl, hlm, hloop⟩
    · intro x t lli llt hmem
      rcases hout with ho | ⟨_, _, _, ho, _, _⟩ | ⟨t', ho⟩ | ⟨l, p, pt, es, lc, _, ho, _⟩
      · rw [ho] at hmem; cases hmem
      · rw [ho] at hmem; simp at hmem
      · rw [ho] at hmem; simp at hmem
      · rw [ho] at hmem; simp at hmem
  | request m rs hm =>
    refine ⟨m, _, _, hm, rfl, ?_⟩
    obtain ⟨a, b, c, d⟩ := aux_handleRequests_elec (s.nodes m) [] rs
    obtain ⟨_, b', _, _⟩ := aux_handleRequests_log rs (s.nodes m) [] (hw.logWf m) (hw.commitLe m)
    obtain ⟨hnl, hl⟩ := aux_handleRequests_shape rs (s.nodes m) []
    have heff : ElecEff n m s.net (s.nodes m) (handleRequests (s.nodes m) [] rs).1 [] := .same a b c d (by simp)
    refine ⟨heff, ⟨aux_lead_of_eff n m s tl hi he _ [] he' heff, by rw [b'], ?_, ?_, by simp,
      (aux_foot_of_eff n m s he hm _ [] heff).termMono⟩, ?_, by simp, by simp, by simp, ?_⟩
    · by_cases hr : (s.nodes m).role = .leader
      · obtain ⟨_, _, ext, hext, _⟩ := hl hr
        rw [hext, List.take_append_of_le_length (hw.commitLe m)]
      · rw [hnl hr]
    · intro hr
      have : (s.nodes m).role ≠ .leader := by rw [← c]; exact hr
      rw [hnl this]; exact Or.inl ⟨rfl, rfl⟩
    · by_cases hr : (s.nodes m).role = .leader
      · obtain ⟨h1, h2, ext, hext, h4⟩ := hl hr
        exact .append ext hr h1 h2 hext h4
      · rw [hnl hr]; exact .same rfl
    · exact ⟨aux_mi_of_shape n s m _ 0 (.requestVoteResponse 0) (fun mi h => by cases h)
        (Or.inl ⟨aux_handleRequests_mi rs _ _, fun hr => ⟨by rw [← c]; exact hr, a⟩⟩), fun _ => Or.inl b'⟩
  | timer m hm =>
    refine ⟨m, _, _, hm, rfl, ?_⟩
    obtain ⟨heff, _⟩ := aux_electionTimer_eff n m s.net (s.nodes m)
    obtain ⟨hlog, hnoae⟩ := aux_electionTimer_log m (others n m) (majority n) (s.nodes m)
    have hci : (electionTimer m (others n m) (majority n) true (s.nodes m)).1.commitIndex = (s.nodes m).commitIndex := by
      unfold electionTimer
      split
      · split
        · simp
        · dsimp only
          split
          · simp [becomeLeader]
          · rfl
      · simp
    refine ⟨heff, ⟨aux_lead_of_eff n m s tl hi he _ _ he' heff, by rw [hci], by rw [hlog],
      fun _ => Or.inl ⟨hlog, hci⟩, ?_, (aux_foot_of_eff n m s he hm _ _ heff).termMono⟩, .same hlog, ?_, ?_, ?_, ?_⟩
    · intro x hx t l p pt es lc hxe
      exact absurd hxe (hnoae x hx t l p pt es lc)
    · intro c t hmem
      exfalso
      unfold electionTimer at hmem
      split at hmem
      · split at hmem
        · simp at hmem
        · dsimp only at hmem
          split at hmem
          · simp at hmem
          · simp at hmem
      · simp at hmem
    · intro x t mi hmem
      exfalso
      unfold electionTimer at hmem
      split at hmem
      · split at hmem
        · simp at hmem
        · dsimp only at hmem
          split at hmem
          · simp at hmem
          · simp at hmem
      · simp at hmem
    · exact aux_electionTimer_reqv m (others n m) (majority n) (s.nodes m)
    · refine ⟨aux_mi_of_shape n s m _ 0 (.requestVoteResponse 0) (fun mi h => by cases h) ?_, fun _ => Or.inl hci⟩
      rcases aux_electionTimer_mi m (others n m) (majority n) (s.nodes m) with h | h
      · exact Or.inl h
      · exact Or.inr (Or.inl h)
  | advance m hm =>
    refine ⟨m, _, _, hm, rfl, ?_⟩
    obtain ⟨a, b, c, d⟩ := aux_advanceCommit_elec (others n m) (majority n) (s.nodes m)
    have hlog : (advanceCommit (others n m) (majority n) (s.nodes m)).log = (s.nodes m).log := by
      unfold advanceCommit; split <;> rfl
    have heff : ElecEff n m s.net (s.nodes m) (advanceCommit (others n m) (majority n) (s.nodes m)) [] :=
      .same a b c d (by simp)
    refine ⟨heff, ⟨aux_lead_of_eff n m s tl hi he _ [] he' heff, ?_, by rw [hlog], ?_, by simp,
      (aux_foot_of_eff n m s he hm _ [] heff).termMono⟩, .same hlog, by simp, by simp, by simp, ?_⟩
    · unfold advanceCommit
      split
      · exact (aux_advanceLoop_bounds (s.nodes m) (others n m) (majority n) (s.nodes m).log.length).1
      · exact le_refl _
    · intro hr
      have hr' : (s.nodes m).role ≠ .leader := by rw [← c]; exact hr
      have : advanceCommit (others n m) (majority n) (s.nodes m) = s.nodes m := by
        unfold advanceCommit; simp [hr']
      rw [this]; exact Or.inl ⟨rfl, rfl⟩
    · have hmi : (advanceCommit (others n m) (majority n) (s.nodes m)).matchIndex = (s.nodes m).matchIndex := by
        unfold advanceCommit; split <;> rfl
      refine ⟨aux_mi_of_shape n s m _ 0 (.requestVoteResponse 0) (fun mi h => by cases h)
        (Or.inl ⟨hmi, fun hr => ⟨by rw [← c]; exact hr, a⟩⟩), fun hr => Or.inr ⟨by rw [← c]; exact hr, rfl⟩⟩
  | heartbeat m hm =>
    refine ⟨m, _, _, hm, rfl, ?_⟩
    obtain ⟨h1, _⟩ := aux_heartbeat_targets n m (s.nodes m)
    have heff : ElecEff n m s.net (s.nodes m) (s.nodes m) (heartbeat m (others n m) true (s.nodes m)) :=
      .same rfl rfl rfl rfl h1
    have hshape : ∀ x ∈ heartbeat m (others n m) true (s.nodes m), ∃ t l p pt es lc,
        x.2 = Rpc.appendEntries t l p pt es lc ∧ (s.nodes m).role = .leader ∧ t = (s.nodes m).term ∧
        lc = (s.nodes m).commitIndex := by
      intro x hx
      unfold heartbeat at hx
      split at hx
      · next hcond =>
        have hlead : (s.nodes m).role = .leader := by simpa using hcond
        simp only [List.mem_map] at hx
        obtain ⟨f, _, rfl⟩ := hx
        exact ⟨_, _, _, _, _, _, rfl, hlead, rfl, rfl⟩
      · simp at hx
    refine ⟨heff, ⟨aux_lead_of_eff n m s tl hi he _ _ he' heff, le_refl _, rfl,
      fun _ => Or.inl ⟨rfl, rfl⟩, ?_, le_refl _⟩, .same rfl, ?_, ?_, ?_, ?_⟩
    · intro x hx t l p pt es lc hxe
      obtain ⟨t', l', p', pt', es', lc', hx2, hlead, ht, hlc⟩ := hshape x hx
      rw [hxe] at hx2
      injection hx2 with e1 _ _ _ _ e6
      exact ⟨hlead, by rw [e1, ht], by rw [e6, hlc]⟩
    · intro c t hmem
      obtain ⟨_, _, _, _, _, _, hx2, _⟩ := hshape _ hmem
      cases hx2
    · intro x t mi hmem
      obtain ⟨_, _, _, _, _, _, hx2, _⟩ := hshape _ hmem
      cases hx2
    · intro x t lli llt hmem
      obtain ⟨_, _, _, _, _, _, hx2, _⟩ := hshape _ hmem
      cases hx2
    · exact ⟨aux_mi_of_shape n s m _ 0 (.requestVoteResponse 0) (fun mi h => by cases h)
        (Or.inl ⟨rfl, fun hr => ⟨hr, rfl⟩⟩), fun _ => Or.inl rfl⟩
  | emit m hm =>
    refine ⟨m, _, _, hm, rfl, ?_⟩
    obtain ⟨a, b, c, d⟩ := aux_emitLoop_elec (s.nodes m) [] ((s.nodes m).commitIndex - (s.nodes m).emittedIndex)
    obtain ⟨hlog, hci, _⟩ := aux_emitLoop_log ((s.nodes m).commitIndex - (s.nodes m).emittedIndex) (s.nodes m) []
      (hw.emitLe m)
    unfold emit
    have heff : ElecEff n m s.net (s.nodes m)
        (emitLoop (s.nodes m) [] ((s.nodes m).commitIndex - (s.nodes m).emittedIndex)).1 [] := .same a b c d (by simp)
    refine ⟨heff, ⟨aux_lead_of_eff n m s tl hi he _ [] he' heff, by rw [hci], by rw [hlog],
      fun _ => Or.inl ⟨hlog, hci⟩, by simp, by rw [a]⟩, .same hlog, by simp, by simp, by simp, ?_⟩
    refine ⟨aux_mi_of_shape n s m _ 0 (.requestVoteResponse 0) (fun mi h => by cases h)
      (Or.inl ⟨aux_emitLoop_mi _ _ _, fun hr => ⟨by rw [← c]; exact hr, a⟩⟩), fun _ => Or.inl hci⟩

end HvProto.Raft
