/-
  Leader completeness (RAFT §5.4.3) for the system of Spec/Raft.lean - pure list lemmas, the history
  predicates (`Ack`, `Held`, `Bad`) and the invariant `LInv` with its preservation.
-/
import HvProto.Lemmas.RaftFoot

namespace HvProto.Raft

/-! ### list facts -/

/-- terms never decrease along a log -/
def SortedT (L : List Entry) : Prop :=
  ∀ (i j : Nat) (ei ej : Entry), i ≤ j → L[i]? = some ei → L[j]? = some ej → ei.term ≤ ej.term

theorem aux_take_len_of_eq (L M : List Entry) (k : Nat) (h : L.take k = M.take k) (hk : k ≤ M.length) :
    k ≤ L.length := by
  have := congrArg List.length h
  simp only [List.length_take] at this
  omega

theorem aux_get_of_take_eq (L M : List Entry) (k i : Nat) (h : L.take k = M.take k) (hi : i < k) :
    L[i]? = M[i]? := by
  have := congrArg (fun l => l[i]?) h
  simpa [List.getElem?_take, hi] using this

theorem aux_pre_stable (A ext B : List Entry) (k t u : Nat) (hk : k ≤ B.length)
    (hB : ∀ e, e ∈ B → e.term ≤ t) (hext : ∀ e, e ∈ ext → e.term = u) (htu : t < u) :
    (A ++ ext).take k = B.take k ↔ A.take k = B.take k := by
  constructor
  · intro h
    by_cases hka : k ≤ A.length
    · rwa [List.take_append_of_le_length hka] at h
    · exfalso
      have hlen := aux_take_len_of_eq _ _ k h hk
      simp only [List.length_append] at hlen
      have hj : A.length < k := by omega
      have h1 := aux_get_of_take_eq _ _ k A.length h hj
      rw [List.getElem?_append_right (le_refl _)] at h1
      simp only [Nat.sub_self] at h1
      have hne : 0 < ext.length := by omega
      have hB' : A.length < B.length := by omega
      rw [List.getElem?_eq_getElem hne, List.getElem?_eq_getElem hB'] at h1
      injection h1 with h1
      have e1 := hext _ (List.getElem_mem hne)
      have e2 := hB _ (List.getElem_mem hB')
      rw [h1] at e1
      omega
  · intro h
    have hka := aux_take_len_of_eq _ _ k h hk
    rw [List.take_append_of_le_length hka]; exact h

theorem aux_sorted_of_agree (tl : Nat → List Entry) (L : List Entry) (hA : Agree tl L)
    (hs : ∀ u, SortedT (tl u)) : SortedT L := by
  intro i j ei ej hij hi hj
  have h := hA j ej hj
  have h1 : (tl ej.term)[i]? = some ei := by
    rw [aux_get_of_take_eq _ _ (j + 1) i h (by omega)]; exact hi
  have h2 : (tl ej.term)[j]? = some ej := by
    rw [aux_get_of_take_eq _ _ (j + 1) j h (by omega)]; exact hj
  exact hs _ i j ei ej hij h1 h2

theorem aux_sorted_append (L ext : List Entry) (u : Nat) (hs : SortedT L) (hb : ∀ e, e ∈ L → e.term ≤ u)
    (hext : ∀ e, e ∈ ext → e.term = u) : SortedT (L ++ ext) := by
  intro i j ei ej hij hi hj
  by_cases hjl : j < L.length
  · rw [List.getElem?_append_left hjl] at hj
    rw [List.getElem?_append_left (by omega)] at hi
    exact hs i j ei ej hij hi hj
  · rw [List.getElem?_append_right (by omega)] at hj
    have e2 := hext _ (List.mem_of_getElem? hj)
    by_cases hil : i < L.length
    · rw [List.getElem?_append_left hil] at hi
      have := hb _ (List.mem_of_getElem? hi); omega
    · rw [List.getElem?_append_right (by omega)] at hi
      have := hext _ (List.mem_of_getElem? hi); omega

/-- the append loop keeps a log in agreement with the leader's term log `X` on any prefix on which it
    already agreed -/
theorem aux_appendLoop_keepX (tl : Nat → List Entry) (X : List Entry) (hX : Agree tl X) (k : Nat)
    (es : List Entry) :
    ∀ (L : List Entry) (ci p : Nat) (L' : List Entry),
    Agree tl L → LogWf L → Consec p es → p ≤ L.length → L.take p = X.take p →
    X.take p ++ es = X.take (p + es.length) → L.take k = X.take k → k ≤ X.length →
    appendEntriesLoop L ci es = some L' → L'.take k = X.take k := by
  induction es with
  | nil =>
    intro L ci p L' _ _ _ _ _ _ hk _ h
    simp only [appendEntriesLoop] at h
    injection h with h; subst h; exact hk
  | cons e rest ih =>
    intro L ci p L' hA hw hcs hp hLX hseg hk hkX h
    obtain ⟨he, hrest⟩ := aux_consec_tail p e rest hcs
    have hlen : p + (rest.length + 1) ≤ X.length := by
      have := congrArg List.length hseg
      simp [List.length_take] at this
      omega
    have hXp : X[p]? = some e := by
      have h1 : (X.take p ++ e :: rest)[p]? = some e := by
        rw [List.getElem?_append_right (by simp [List.length_take])]
        have : min p X.length = p := by omega
        simp [List.length_take, this]
      rw [hseg, List.getElem?_take] at h1
      simpa [show p < p + (e :: rest).length by simp] using h1
    have hXsucc : X.take (p + 1) = X.take p ++ [e] := aux_take_succ_of_get X p e hXp
    have hseg' : X.take (p + 1) ++ rest = X.take (p + 1 + rest.length) := by
      rw [hXsucc, List.append_assoc]
      simpa [Nat.add_assoc, Nat.add_comm 1] using hseg
    have hsmall : k ≤ p + 1 → (X.take (p + 1)).take k = X.take k := by
      intro hkp; rw [List.take_take]; congr 1; omega
    unfold appendEntriesLoop at h
    split at h
    · next hlenL =>
      split at h
      · next hconf =>
        split at h
        · have hL1 : List.take (e.index - 1) L ++ [e] = X.take (p + 1) := by
            rw [hXsucc, he]; simp [hLX]
          rw [hL1] at h
          have hkp : k ≤ p + 1 := by
            by_contra hcon
            have hLp : L[p]? = some e := by
              rw [aux_get_of_take_eq L X k p hk (by omega)]; exact hXp
            simp [entryAt, he, hLp] at hconf
          refine ih (X.take (p + 1)) ci (p + 1) L' (aux_agree_take tl X _ hX) ?_ hrest ?_ ?_ hseg' (hsmall hkp) hkX h
          · rw [← hL1]; apply aux_logwf_push _ _ (aux_logwf_take _ _ hw); simp [List.length_take]; omega
          · simp [List.length_take]; omega
          · simp
        · cases h
      · next hsame =>
        have hLp : ∃ e', L[p]? = some e' := by
          have : p < L.length := by simp at hlenL; omega
          exact ⟨L[p], by simp [this]⟩
        obtain ⟨e', he'⟩ := hLp
        have hterm : e'.term = e.term := by
          simp [entryAt, he, he'] at hsame
          exact hsame
        have h1 := hA p e' he'
        have h2 := hX p e hXp
        rw [hterm] at h1
        have hLX' : L.take (p + 1) = X.take (p + 1) := by rw [← h1, h2]
        have hp' : p + 1 ≤ L.length := by simp at hlenL; omega
        exact ih L ci (p + 1) L' hA hw hrest hp' hLX' hseg' hk hkX h
    · next hlenL =>
      have hl : L.length = p := by simp at hlenL; omega
      have hL1 : L ++ [e] = X.take (p + 1) := by
        rw [hXsucc, ← hLX, ← hl]; simp
      rw [hL1] at h
      have hkp : k ≤ p + 1 := by
        have := aux_take_len_of_eq L X k hk hkX
        omega
      refine ih (X.take (p + 1)) ci (p + 1) L' (aux_agree_take tl X _ hX) ?_ hrest ?_ ?_ hseg' (hsmall hkp) hkX h
      · rw [← hL1]; exact aux_logwf_push _ _ hw (by omega)
      · simp [List.length_take]; omega
      · simp

/-- everything an accepted current-term `AppendEntries` does to the log, relative to the term log of its term -/
theorem aux_ae_facts (n m sender : Nat) (s : Sys) (tl : Nat → List Entry) (hi : TInv n s tl) (hw : WInv n s)
    (t l p pt : Nat) (es : List Entry) (lc : Nat) (L' : List Entry)
    (hnet : s.net ⟨m, sender, .appendEntries t l p pt es lc⟩)
    (hlm : logMatches (s.nodes m).log p pt = true)
    (hloop : appendEntriesLoop (s.nodes m).log (s.nodes m).commitIndex es = some L') :
    p + es.length ≤ (tl t).length ∧ L'.take (p + es.length) = (tl t).take (p + es.length) ∧
    (∀ k, k ≤ (tl t).length → (s.nodes m).log.take k = (tl t).take k → L'.take k = (tl t).take k) ∧
    (∀ e, e ∈ es → e ∈ tl t) := by
  obtain ⟨hok, _⟩ := hi.aeC _ _ _ _ _ _ _ _ hnet
  have hlm' : p = 0 ∨ (p ≤ (s.nodes m).log.length ∧ (entryAt (s.nodes m).log p).term = pt) := by
    simp only [logMatches] at hlm
    simp at hlm
    rcases hlm with hz | ⟨hz1, hz2⟩
    · exact Or.inl hz
    · exact Or.inr ⟨hz1, hz2⟩
  rcases hok with ⟨h0, hp0, _⟩ | ⟨hpX, hseg, hprev⟩
  · rcases hlm' with hz | ⟨hl1, hl2⟩
    · exact absurd hz hp0
    · have hget := aux_entryAt_get _ p hp0 hl1
      have := (hi.pos m _ (List.mem_of_getElem? hget)).1
      rw [hl2, h0] at this; omega
  · have hp : p ≤ (s.nodes m).log.length := by
      rcases hlm' with hz | ⟨hl1, _⟩
      · omega
      · exact hl1
    have hLX : (s.nodes m).log.take p = (tl t).take p := by
      by_cases hp0 : p = 0
      · subst hp0; simp
      · rcases hlm' with hz | ⟨hl1, hl2⟩
        · exact absurd hz hp0
        · have hget := aux_entryAt_get _ p hp0 hl1
          rcases hprev with hz | ⟨e2, hx2, ht2⟩
          · exact absurd hz hp0
          · have a1 := hi.nodeB m (p - 1) _ hget
            have a2 := hi.tlB t (p - 1) e2 hx2
            have hpp : p - 1 + 1 = p := by omega
            rw [hpp] at a1 a2
            rw [hl2] at a1
            rw [ht2] at a2
            rw [← a1, a2]
    have hlen : p + es.length ≤ (tl t).length := by
      have := congrArg List.length hseg
      simp [List.length_take] at this
      omega
    refine ⟨hlen, ?_, ?_, ?_⟩
    · exact aux_appendLoop_prefix tl (tl t) (hi.tlB t) es _ _ p _ (hi.nodeB m) (hw.logWf m)
        (hw.aeWf _ _ _ _ _ _ _ _ hnet) hp hLX hseg hloop
    · intro k hk hkk
      exact aux_appendLoop_keepX tl (tl t) (hi.tlB t) k es _ _ p _ (hi.nodeB m) (hw.logWf m)
        (hw.aeWf _ _ _ _ _ _ _ _ hnet) hp hLX hseg hkk hk hloop
    · intro e he
      have : e ∈ (tl t).take p ++ es := List.mem_append_right _ he
      rw [hseg] at this
      exact List.mem_of_mem_take this

/-! ### history predicates -/

/-- the commit rule's side condition: position `k` of the term log of `t` holds an entry of term `t` -/
def TermAt (tl : Nat → List Entry) (t k : Nat) : Prop := 1 ≤ k ∧ ∃ e, (tl t)[k - 1]? = some e ∧ e.term = t

/-- the term log of `u` starts with the first `k` entries of the term log of `t` -/
def Pre (tl : Nat → List Entry) (t k u : Nat) : Prop := (tl u).take k = (tl t).take k

/-- `v` has acknowledged, in term `t`, a match index of at least `k` -/
def Ack (s : Sys) (v t k : Nat) : Prop := ∃ l mi, s.net ⟨l, v, .appendEntriesReply t true mi⟩ ∧ k ≤ mi

/-- `v` is the leader of `t` with at least `k` entries, or has acknowledged `k` entries in term `t` -/
def Held (s : Sys) (tl : Nat → List Entry) (v t k : Nat) : Prop :=
  (s.elected v t ∧ k ≤ (tl t).length) ∨ Ack s v t k

/-- some term strictly between `t` and `b` has a leader whose log does not start with the `(t,k)` prefix -/
def Bad (s : Sys) (tl : Nat → List Entry) (t k b : Nat) : Prop :=
  ∃ u, t < u ∧ u < b ∧ (∃ c, s.elected c u) ∧ ¬ Pre tl t k u

theorem aux_lastLog_some (L : List Entry) (e : Entry) (h : L.getLast? = some e) :
    lastLogPosition L = (e.term, e.index) := by simp [lastLogPosition, h]

/-- the §5.4.1 up-to-date check: a candidate whose last log position is at least the voter's holds every
    `(t,k)` prefix the voter holds, unless the candidate's last entry is of a later term whose leader lacks it -/
theorem aux_uptodate (tl : Nat → List Entry) (Lx Lc : List Entry) (t k : Nat) (hs : ∀ u, SortedT (tl u))
    (hAx : Agree tl Lx) (hAc : Agree tl Lc) (hwx : LogWf Lx) (hwc : LogWf Lc) (ht1 : 1 ≤ t)
    (hT : TermAt tl t k) (hpre : Lx.take k = (tl t).take k)
    (hge : pairGe (lastLogPosition Lc) (lastLogPosition Lx) = true) :
    Lc.take k = (tl t).take k ∨ ∃ ec, Lc.getLast? = some ec ∧ t < ec.term ∧ ¬ Pre tl t k ec.term := by
  obtain ⟨hk1, e0, he0, het⟩ := hT
  have hkt : k ≤ (tl t).length := by
    obtain ⟨h, _⟩ := List.getElem?_eq_some_iff.1 he0
    omega
  have hkx : k ≤ Lx.length := aux_take_len_of_eq _ _ k hpre hkt
  have hx0 : Lx[k - 1]? = some e0 := by
    rw [aux_get_of_take_eq _ _ k (k - 1) hpre (by omega)]; exact he0
  have hxlt : Lx.length - 1 < Lx.length := by omega
  have hxl : Lx[Lx.length - 1]? = some Lx[Lx.length - 1] := List.getElem?_eq_getElem hxlt
  generalize Lx[Lx.length - 1] = ex at hxl
  have hxlast : Lx.getLast? = some ex := by rw [List.getLast?_eq_getElem?]; exact hxl
  have hsx := aux_sorted_of_agree tl Lx hAx hs
  have htx : t ≤ ex.term := by
    have := hsx (k - 1) (Lx.length - 1) e0 ex (by omega) hx0 hxl
    omega
  have hxi : ex.index = Lx.length := by have := hwx _ _ hxl; omega
  rw [aux_lastLog_some Lx ex hxlast] at hge
  cases hcl : Lc.getLast? with
  | none =>
    have : lastLogPosition Lc = (0, 0) := by simp [lastLogPosition, hcl]
    rw [this] at hge
    simp [pairGe] at hge
    omega
  | some ec =>
    rw [aux_lastLog_some Lc ec hcl] at hge
    have hcl' : Lc[Lc.length - 1]? = some ec := by rw [← List.getLast?_eq_getElem?]; exact hcl
    obtain ⟨hclt, _⟩ := List.getElem?_eq_some_iff.1 hcl'
    have hci : ec.index = Lc.length := by have := hwc _ _ hcl'; omega
    have hcc : (tl ec.term).take Lc.length = Lc := by
      have hcA := hAc _ _ hcl'
      have : Lc.length - 1 + 1 = Lc.length := by omega
      rw [this] at hcA
      rw [hcA]; exact List.take_length
    simp only [pairGe, Bool.or_eq_true, Bool.and_eq_true, decide_eq_true_eq, beq_iff_eq] at hge
    rcases hge with hgt | ⟨heq, hidx⟩
    · by_cases hp : Pre tl t k ec.term
      · left
        have hk0 : (tl ec.term)[k - 1]? = some e0 := by
          rw [aux_get_of_take_eq _ _ k (k - 1) hp (by omega)]; exact he0
        have hcl2 : (tl ec.term)[Lc.length - 1]? = some ec := by
          have := aux_get_of_take_eq (tl ec.term) Lc Lc.length (Lc.length - 1)
            (hcc.trans List.take_length.symm) hclt
          rw [this]; exact hcl'
        have hklt : k - 1 < Lc.length - 1 := by
          by_contra hcon
          have := hs ec.term (Lc.length - 1) (k - 1) ec e0 (by omega) hcl2 hk0
          omega
        have h1 : Lc.take k = (tl ec.term).take k := by
          calc Lc.take k = ((tl ec.term).take Lc.length).take k := by rw [hcc]
            _ = (tl ec.term).take k := by rw [List.take_take]; congr 1; omega
        rw [h1]; exact hp
      · right; exact ⟨ec, rfl, by omega, hp⟩
    · left
      have hxx : (tl ex.term).take Lx.length = Lx := by
        have hxA := hAx _ _ hxl
        have : Lx.length - 1 + 1 = Lx.length := by omega
        rw [this] at hxA
        rw [hxA]; exact List.take_length
      rw [heq] at hcc
      have hlen : Lx.length ≤ Lc.length := by omega
      have h1 : Lc.take k = Lx.take k := by
        calc Lc.take k = ((tl ex.term).take Lc.length).take k := by rw [hcc]
          _ = (tl ex.term).take k := by rw [List.take_take]; congr 1; omega
          _ = ((tl ex.term).take Lx.length).take k := by rw [List.take_take]; congr 1; omega
          _ = Lx.take k := by rw [hxx]
      rw [h1]; exact hpre

/-- who can become a candidate / a leader in one step -/
theorem aux_cand_of_eff (n m : Nat) (net : Envelope → Prop) (st st' : NodeState) (out : List (Nat × Rpc))
    (h : ElecEff n m net st st' out) (hc : st'.role = .candidate) :
    (st.role = .candidate ∧ st'.term = st.term) ∨ st.term < st'.term := by
  cases h with
  | same h1 _ h3 _ _ => exact Or.inl ⟨by rw [← h3]; exact hc, h1⟩
  | demote _ _ h3 _ _ => rw [h3] at hc; cases hc
  | bump _ _ h3 _ => rw [h3] at hc; cases hc
  | grant c h1 h2 h3 _ _ _ =>
    rcases Nat.lt_or_ge st.term st'.term with hlt | hge
    · exact Or.inr hlt
    · have he : st'.term = st.term := by omega
      exact Or.inl ⟨by rw [← (h2 he).2.1]; exact hc, he⟩
  | vote v h1 _ h3 _ _ _ _ => exact Or.inl ⟨h3, h1⟩
  | win v _ _ _ h4 _ _ _ => rw [h4] at hc; cases hc
  | campaign h1 _ _ _ _ => exact Or.inr (by omega)
  | campaignWin _ _ h3 _ _ => rw [h3] at hc; cases hc

end HvProto.Raft
