/-
  Safety of the abstract Paxos of Spec/Paxos.lean: Lamport's `SafeAt` invariant, adapted to two
  quirks of the code (acceptor_p2):
   * an acceptor whose promise (`a_max_ballot`) is BELOW the p2a ballot logs the entry but answers `Err`;
   * an acceptor answers `Ok` to a p2a of its promised ballot even if its log keeps an entry of a
     HIGHER ballot (logged earlier without a vote), so p1b reports are "a log entry whose ballot
     dominates every vote", not "the highest vote".
-/
import HvProto.Spec.Paxos

namespace HvProto.Paxos

variable {A B V : Type} [LinearOrder B] [DecidableEq A]

/-- the inductive invariant -/
structure Inv (qs : QuorumSystem A) (st : State A B V) : Prop where
  /-- one value per (ballot, slot) -/
  oneVal : ∀ b s v v', st.msgs (.p2a b s v) → st.msgs (.p2a b s v') → v = v'
  voteSent : ∀ a b s, st.msgs (.p2b a b s) → ∃ v, st.msgs (.p2a b s v)
  votePromised : ∀ a b s, st.msgs (.p2b a b s) → ∃ x, (st.acc a).maxBal = some x ∧ b ≤ x
  logSent : ∀ a s β w, (st.acc a).log s = some (β, w) → st.msgs (.p2a β s w)
  reportSent : ∀ a b lg s β w, st.msgs (.p1b a b lg) → lg s = some (β, w) → st.msgs (.p2a β s w)
  /-- the stored ballot dominates every vote -/
  logDominates : ∀ a b s, st.msgs (.p2b a b s) → ∃ β w, (st.acc a).log s = some (β, w) ∧ b ≤ β
  p1bPromised : ∀ a b lg, st.msgs (.p1b a b lg) → ∃ x, (st.acc a).maxBal = some x ∧ b ≤ x
  /-- a p1b report dominates every vote below its ballot -/
  p1bReports : ∀ a b lg s c, st.msgs (.p1b a b lg) → c < b → st.msgs (.p2b a c s) →
      ∃ β w, lg s = some (β, w) ∧ c ≤ β
  /-- SafeAt -/
  safeAt : ∀ b s v, st.msgs (.p2a b s v) → ∀ c, c < b → ∃ Q, qs.isQ Q ∧ ∀ a, Q a →
      (∃ x, (st.acc a).maxBal = some x ∧ c < x) ∧ (¬ st.msgs (.p2b a c s) ∨ st.msgs (.p2a c s v))

theorem aux_inv_init (qs : QuorumSystem A) : Inv qs (init : State A B V) := by
  constructor <;> intros <;> simp_all [init]

theorem aux_logPut_cases (lg : Nat → Option (B × V)) (s : Nat) (b : B) (v : V) (x : Nat) :
    (x ≠ s ∧ logPut lg s b v x = lg x) ∨
    (x = s ∧ logPut lg s b v x = some (b, v) ∧ (lg s = none ∨ ∃ β w, lg s = some (β, w) ∧ β < b)) ∨
    (x = s ∧ ∃ β w, lg s = some (β, w) ∧ b ≤ β ∧ logPut lg s b v x = some (β, w)) := by
  unfold logPut
  by_cases hx : x = s
  · subst hx
    simp only [if_true]
    cases h : lg x with
    | none => right; left; simp
    | some p =>
      obtain ⟨β, w⟩ := p
      by_cases hb : β < b
      · right; left; simp [hb]
      · right; right; exact ⟨by simp, β, w, rfl, le_of_not_gt hb, by simp [hb]⟩
  · left; simp [hx]

/-- preservation by the two acceptor p2a transitions (vote := whether a p2b is sent) -/
theorem aux_inv_recvP2a (qs : QuorumSystem A) (st : State A B V) (hi : Inv qs st)
    (a : A) (b : B) (s : Nat) (v : V) (hm : st.msgs (.p2a b s v))
    (acc' : A → AccState B V)
    (hmax : ∀ a', (acc' a').maxBal = (st.acc a').maxBal)
    (hlogne : ∀ a', a' ≠ a → (acc' a').log = (st.acc a').log)
    (hloga : (acc' a).log = logPut (st.acc a).log s b v)
    (msgs' : Msg A B V → Prop)
    (hmsgs : (∀ m, msgs' m ↔ st.msgs m) ∨
             ((st.acc a).maxBal = some b ∧ ∀ m, msgs' m ↔ (m = .p2b a b s ∨ st.msgs m))) :
    Inv qs { acc := acc', msgs := msgs' } := by
  -- facts shared by both variants
  have hp1a : ∀ m, (∀ a' b' s', m ≠ .p2b a' b' s') → (msgs' m ↔ st.msgs m) := by
    intro m hne
    rcases hmsgs with h | ⟨_, h⟩
    · exact h m
    · rw [h m]; constructor
      · rintro (h1 | h1)
        · exact absurd h1 (hne _ _ _)
        · exact h1
      · exact Or.inr
  have hp2a : ∀ b' s' v', msgs' (.p2a b' s' v') ↔ st.msgs (.p2a b' s' v') :=
    fun b' s' v' => hp1a _ (by intros; simp)
  have hp1b : ∀ a' b' lg, msgs' (.p1b a' b' lg) ↔ st.msgs (.p1b a' b' lg) :=
    fun a' b' lg => hp1a _ (by intros; simp)
  have hp2b : ∀ a' b' s', msgs' (.p2b a' b' s') →
      st.msgs (.p2b a' b' s') ∨ (a' = a ∧ b' = b ∧ s' = s ∧ (st.acc a).maxBal = some b) := by
    intro a' b' s' h
    rcases hmsgs with h0 | ⟨hmb, h0⟩
    · exact Or.inl ((h0 _).1 h)
    · rcases (h0 _).1 h with h1 | h1
      · injection h1 with h1 h2 h3; exact Or.inr ⟨h1, h2, h3, hmb⟩
      · exact Or.inl h1
  have hp2b' : ∀ a' b' s', st.msgs (.p2b a' b' s') → msgs' (.p2b a' b' s') := by
    intro a' b' s' h
    rcases hmsgs with h0 | ⟨_, h0⟩
    · exact (h0 _).2 h
    · exact (h0 _).2 (Or.inr h)
  constructor
  · intro b' s' v1 v2 h1 h2
    exact hi.oneVal b' s' v1 v2 ((hp2a _ _ _).1 h1) ((hp2a _ _ _).1 h2)
  · intro a' b' s' h
    rcases hp2b _ _ _ h with h | ⟨_, rfl, rfl, _⟩
    · obtain ⟨v', hv'⟩ := hi.voteSent _ _ _ h; exact ⟨v', (hp2a _ _ _).2 hv'⟩
    · exact ⟨v, (hp2a _ _ _).2 hm⟩
  · intro a' b' s' h
    simp only [hmax]
    rcases hp2b _ _ _ h with h | ⟨rfl, rfl, rfl, hmb⟩
    · exact hi.votePromised _ _ _ h
    · exact ⟨b', hmb, le_refl _⟩
  · intro a' s' β w h
    apply (hp2a _ _ _).2
    by_cases ha : a' = a
    · subst ha
      simp only [hloga] at h
      rcases aux_logPut_cases (st.acc a').log s b v s' with ⟨_, h1⟩ | ⟨rfl, h1, _⟩ | ⟨rfl, β', w', h1, _, h2⟩
      · rw [h1] at h; exact hi.logSent _ _ _ _ h
      · rw [h1] at h; injection h with h; injection h with h3 h4; subst h3; subst h4; exact hm
      · rw [h2] at h; injection h with h; injection h with h3 h4; subst h3; subst h4
        exact hi.logSent _ _ _ _ h1
    · simp only [hlogne a' ha] at h; exact hi.logSent _ _ _ _ h
  · intro a' b' lg s' β w h1 h2
    exact (hp2a _ _ _).2 (hi.reportSent _ _ _ _ _ _ ((hp1b _ _ _).1 h1) h2)
  · intro a' b' s' h
    by_cases ha : a' = a
    · subst ha
      simp only [hloga]
      rcases hp2b _ _ _ h with h | ⟨_, rfl, rfl, _⟩
      · obtain ⟨β, w, hl, hle⟩ := hi.logDominates _ _ _ h
        rcases aux_logPut_cases (st.acc a').log s b v s' with ⟨_, h1⟩ | ⟨rfl, h1, h3⟩ | ⟨rfl, β', w', h1, _, h2⟩
        · exact ⟨β, w, by rw [h1]; exact hl, hle⟩
        · refine ⟨b, v, h1, ?_⟩
          rcases h3 with h3 | ⟨β', w', h3, h4⟩
          · rw [h3] at hl; cases hl
          · rw [h3] at hl; injection hl with hl; injection hl with h5 h6; subst h5
            exact le_of_lt (lt_of_le_of_lt hle h4)
        · rw [h1] at hl; injection hl with hl; injection hl with h5 h6; subst h5; subst h6
          exact ⟨β', w', h2, hle⟩
      · rcases aux_logPut_cases (st.acc a').log s' b' v s' with ⟨h0, _⟩ | ⟨_, h1, _⟩ | ⟨_, β', w', _, h3, h2⟩
        · exact absurd rfl h0
        · exact ⟨b', v, h1, le_refl _⟩
        · exact ⟨β', w', h2, h3⟩
    · simp only [hlogne a' ha]
      rcases hp2b _ _ _ h with h | ⟨h0, _⟩
      · exact hi.logDominates _ _ _ h
      · exact absurd h0 ha
  · intro a' b' lg h
    simp only [hmax]
    exact hi.p1bPromised _ _ _ ((hp1b _ _ _).1 h)
  · intro a' b' lg s' c h hc hv
    have h' := (hp1b _ _ _).1 h
    rcases hp2b _ _ _ hv with hv | ⟨rfl, rfl, rfl, hmb⟩
    · exact hi.p1bReports _ _ _ _ _ h' hc hv
    · -- a vote at c = its promised ballot, but a p1b for b' > c was already sent: impossible
      obtain ⟨x, hx, hle⟩ := hi.p1bPromised _ _ _ h'
      rw [hmb] at hx; injection hx with hx; subst hx
      exact absurd hc (not_lt_of_ge hle)
  · intro b' s' v' h c hc
    obtain ⟨Q, hQ, hq⟩ := hi.safeAt _ _ _ ((hp2a _ _ _).1 h) c hc
    refine ⟨Q, hQ, fun a' ha' => ?_⟩
    obtain ⟨⟨x, hx, hcx⟩, hor⟩ := hq a' ha'
    simp only [hmax]
    refine ⟨⟨x, hx, hcx⟩, ?_⟩
    rcases hor with hor | hor
    · left
      intro hv
      rcases hp2b _ _ _ hv with hv | ⟨rfl, rfl, rfl, hmb⟩
      · exact hor hv
      · rw [hmb] at hx; injection hx with hx; subst hx; exact lt_irrefl _ hcx
    · right; exact (hp2a _ _ _).2 hor

theorem aux_inv_step (qs : QuorumSystem A) (st st' : State A B V) (hi : Inv qs st)
    (hs : Step qs st st') : Inv qs st' := by
  cases hs with
  | sendP1a b =>
    have hm : ∀ m, (∀ b', m ≠ .p1a b') → (addMsg st (.p1a b) m ↔ st.msgs m) := by
      intro m hne; unfold addMsg; constructor
      · rintro (h | h)
        · exact absurd h (hne _)
        · exact h
      · exact Or.inr
    constructor
    · intro b' s v v' h1 h2
      exact hi.oneVal _ _ _ _ ((hm _ (by intros; simp)).1 h1) ((hm _ (by intros; simp)).1 h2)
    · intro a b' s h
      obtain ⟨v, hv⟩ := hi.voteSent _ _ _ ((hm _ (by intros; simp)).1 h)
      exact ⟨v, (hm _ (by intros; simp)).2 hv⟩
    · intro a b' s h; exact hi.votePromised _ _ _ ((hm _ (by intros; simp)).1 h)
    · intro a s β w h; exact (hm _ (by intros; simp)).2 (hi.logSent _ _ _ _ h)
    · intro a b' lg s β w h1 h2
      exact (hm _ (by intros; simp)).2 (hi.reportSent _ _ _ _ _ _ ((hm _ (by intros; simp)).1 h1) h2)
    · intro a b' s h; exact hi.logDominates _ _ _ ((hm _ (by intros; simp)).1 h)
    · intro a b' lg h; exact hi.p1bPromised _ _ _ ((hm _ (by intros; simp)).1 h)
    · intro a b' lg s c h hc hv
      exact hi.p1bReports _ _ _ _ _ ((hm _ (by intros; simp)).1 h) hc ((hm _ (by intros; simp)).1 hv)
    · intro b' s v h c hc
      obtain ⟨Q, hQ, hq⟩ := hi.safeAt _ _ _ ((hm _ (by intros; simp)).1 h) c hc
      refine ⟨Q, hQ, fun a ha => ?_⟩
      obtain ⟨hx, hor⟩ := hq a ha
      refine ⟨hx, ?_⟩
      rcases hor with hor | hor
      · left; intro hv; exact hor ((hm _ (by intros; simp)).1 hv)
      · right; exact (hm _ (by intros; simp)).2 hor
  | recvP1a a b hm hge =>
    have hmm : ∀ m, (∀ a' b' lg, m ≠ .p1b a' b' lg) →
        (addMsg st (.p1b a b (st.acc a).log) m ↔ st.msgs m) := by
      intro m hne; unfold addMsg; constructor
      · rintro (h | h)
        · exact absurd h (hne _ _ _)
        · exact h
      · exact Or.inr
    have hmax : ∀ a' x, (st.acc a').maxBal = some x →
        ∃ y, (setAcc st a { maxBal := some b, log := (st.acc a).log } a').maxBal = some y ∧ x ≤ y := by
      intro a' x hx; unfold setAcc
      by_cases h : a' = a
      · subst h; simp only [if_true]; exact ⟨b, rfl, hge x hx⟩
      · simp only [h, if_false]; exact ⟨x, hx, le_refl _⟩
    have hlog : ∀ a', (setAcc st a { maxBal := some b, log := (st.acc a).log } a').log = (st.acc a').log := by
      intro a'; unfold setAcc; by_cases h : a' = a
      · subst h; simp
      · simp [h]
    have hp1b : ∀ a' b' lg, addMsg st (.p1b a b (st.acc a).log) (.p1b a' b' lg) →
        st.msgs (.p1b a' b' lg) ∨ (a' = a ∧ b' = b ∧ lg = (st.acc a).log) := by
      intro a' b' lg h; rcases h with h | h
      · injection h with h1 h2 h3; exact Or.inr ⟨h1, h2, h3⟩
      · exact Or.inl h
    constructor
    · intro b' s v v' h1 h2
      exact hi.oneVal _ _ _ _ ((hmm _ (by intros; simp)).1 h1) ((hmm _ (by intros; simp)).1 h2)
    · intro a' b' s h
      obtain ⟨v, hv⟩ := hi.voteSent _ _ _ ((hmm _ (by intros; simp)).1 h)
      exact ⟨v, (hmm _ (by intros; simp)).2 hv⟩
    · intro a' b' s h
      obtain ⟨x, hx, hle⟩ := hi.votePromised _ _ _ ((hmm _ (by intros; simp)).1 h)
      obtain ⟨y, hy, hxy⟩ := hmax a' x hx
      exact ⟨y, hy, le_trans hle hxy⟩
    · intro a' s β w h
      simp only [hlog] at h
      exact (hmm _ (by intros; simp)).2 (hi.logSent _ _ _ _ h)
    · intro a' b' lg s β w h1 h2
      apply (hmm _ (by intros; simp)).2
      rcases hp1b _ _ _ h1 with h1 | ⟨_, _, rfl⟩
      · exact hi.reportSent _ _ _ _ _ _ h1 h2
      · exact hi.logSent _ _ _ _ h2
    · intro a' b' s h
      simp only [hlog]
      exact hi.logDominates _ _ _ ((hmm _ (by intros; simp)).1 h)
    · intro a' b' lg h
      rcases hp1b _ _ _ h with h | ⟨rfl, rfl, _⟩
      · obtain ⟨x, hx, hle⟩ := hi.p1bPromised _ _ _ h
        obtain ⟨y, hy, hxy⟩ := hmax a' x hx
        exact ⟨y, hy, le_trans hle hxy⟩
      · exact ⟨b', by unfold setAcc; simp, le_refl _⟩
    · intro a' b' lg s c h hc hv
      have hv' := (hmm _ (by intros; simp)).1 hv
      rcases hp1b _ _ _ h with h | ⟨rfl, rfl, rfl⟩
      · exact hi.p1bReports _ _ _ _ _ h hc hv'
      · exact hi.logDominates _ _ _ hv'
    · intro b' s v h c hc
      obtain ⟨Q, hQ, hq⟩ := hi.safeAt _ _ _ ((hmm _ (by intros; simp)).1 h) c hc
      refine ⟨Q, hQ, fun a' ha' => ?_⟩
      obtain ⟨⟨x, hx, hcx⟩, hor⟩ := hq a' ha'
      obtain ⟨y, hy, hxy⟩ := hmax a' x hx
      refine ⟨⟨y, hy, lt_of_lt_of_le hcx hxy⟩, ?_⟩
      rcases hor with hor | hor
      · left; intro hv; exact hor ((hmm _ (by intros; simp)).1 hv)
      · right; exact (hmm _ (by intros; simp)).2 hor
  | sendP2a b s v Q lgs hQ hp1bs hsel hdisc =>
    have hmm : ∀ m, (∀ b' s' v', m ≠ .p2a b' s' v') → (addMsg st (.p2a b s v) m ↔ st.msgs m) := by
      intro m hne; unfold addMsg; constructor
      · rintro (h | h)
        · exact absurd h (hne _ _ _)
        · exact h
      · exact Or.inr
    have hp2a : ∀ b' s' v', addMsg st (.p2a b s v) (.p2a b' s' v') →
        st.msgs (.p2a b' s' v') ∨ (b' = b ∧ s' = s ∧ v' = v) := by
      intro b' s' v' h; rcases h with h | h
      · injection h with h1 h2 h3; exact Or.inr ⟨h1, h2, h3⟩
      · exact Or.inl h
    have hmono : ∀ m, st.msgs m → addMsg st (.p2a b s v) m := fun m h => Or.inr h
    constructor
    · intro b' s' v1 v2 h1 h2
      rcases hp2a _ _ _ h1 with h1 | ⟨e1, e2, e3⟩
      · rcases hp2a _ _ _ h2 with h2 | ⟨e4, e5, e6⟩
        · exact hi.oneVal _ _ _ _ h1 h2
        · rw [e6]; rw [e4, e5] at h1; exact hdisc _ h1
      · rcases hp2a _ _ _ h2 with h2 | ⟨e4, e5, e6⟩
        · rw [e3]; rw [e1, e2] at h2; exact (hdisc _ h2).symm
        · rw [e3, e6]
    · intro a' b' s' h
      obtain ⟨v', hv'⟩ := hi.voteSent _ _ _ ((hmm _ (by intros; simp)).1 h)
      exact ⟨v', hmono _ hv'⟩
    · intro a' b' s' h; exact hi.votePromised _ _ _ ((hmm _ (by intros; simp)).1 h)
    · intro a' s' β w h; exact hmono _ (hi.logSent _ _ _ _ h)
    · intro a' b' lg s' β w h1 h2
      exact hmono _ (hi.reportSent _ _ _ _ _ _ ((hmm _ (by intros; simp)).1 h1) h2)
    · intro a' b' s' h; exact hi.logDominates _ _ _ ((hmm _ (by intros; simp)).1 h)
    · intro a' b' lg h; exact hi.p1bPromised _ _ _ ((hmm _ (by intros; simp)).1 h)
    · intro a' b' lg s' c h hc hv
      exact hi.p1bReports _ _ _ _ _ ((hmm _ (by intros; simp)).1 h) hc ((hmm _ (by intros; simp)).1 hv)
    · intro b' s' v' h c hc
      -- monotone transfer of an old SafeAt witness
      have transfer : ∀ b'' v'', st.msgs (.p2a b'' s' v'') → (∀ c, c < b'' → ∃ Q, qs.isQ Q ∧ ∀ a, Q a →
          (∃ x, (st.acc a).maxBal = some x ∧ c < x) ∧
          (¬ addMsg st (.p2a b s v) (.p2b a c s') ∨ addMsg st (.p2a b s v) (.p2a c s' v''))) := by
        intro b'' v'' h0 c hc
        obtain ⟨Q', hQ', hq⟩ := hi.safeAt _ _ _ h0 c hc
        refine ⟨Q', hQ', fun a' ha' => ?_⟩
        obtain ⟨hx, hor⟩ := hq a' ha'
        refine ⟨hx, ?_⟩
        rcases hor with hor | hor
        · left; intro hv; exact hor ((hmm _ (by intros; simp)).1 hv)
        · right; exact hmono _ hor
      rcases hp2a _ _ _ h with h | ⟨rfl, rfl, rfl⟩
      · exact transfer b' v' h c hc
      · -- the new p2a: establish SafeAt from the quorum of p1b reports
        have hprom : ∀ a, Q a → ∃ x, (st.acc a).maxBal = some x ∧ c < x := by
          intro a ha
          obtain ⟨x, hx, hle⟩ := hi.p1bPromised _ _ _ (hp1bs a ha)
          exact ⟨x, hx, lt_of_lt_of_le hc hle⟩
        rcases hsel with hnone | ⟨a₀, β, ha₀, hβ, hmaxβ⟩
        · refine ⟨Q, hQ, fun a ha => ⟨hprom a ha, Or.inl ?_⟩⟩
          intro hv
          obtain ⟨β, w, hl, _⟩ := hi.p1bReports _ _ _ s' c (hp1bs a ha) hc ((hmm _ (by intros; simp)).1 hv)
          rw [hnone a ha] at hl; cases hl
        · have hβsent : st.msgs (.p2a β s' v') := hi.reportSent _ _ _ _ _ _ (hp1bs a₀ ha₀) hβ
          rcases lt_trichotomy c β with hlt | heq | hgt
          · exact transfer β v' hβsent c hlt
          · subst heq
            exact ⟨Q, hQ, fun a ha => ⟨hprom a ha, Or.inr (hmono _ hβsent)⟩⟩
          · refine ⟨Q, hQ, fun a ha => ⟨hprom a ha, Or.inl ?_⟩⟩
            intro hv
            obtain ⟨β', w, hl, hle⟩ :=
              hi.p1bReports _ _ _ s' c (hp1bs a ha) hc ((hmm _ (by intros; simp)).1 hv)
            exact absurd (lt_of_le_of_lt (le_trans hle (hmaxβ a β' w ha hl)) hgt) (lt_irrefl _)
  | recvP2aVote a b s v hm hmb =>
    refine aux_inv_recvP2a qs st hi a b s v hm _ ?_ ?_ ?_ _ (Or.inr ⟨hmb, fun m => Iff.rfl⟩)
    · intro a'; unfold setAcc; by_cases h : a' = a
      · subst h; simp
      · simp [h]
    · intro a' h; unfold setAcc; simp [h]
    · unfold setAcc; simp
  | recvP2aLog a b s v hm hge =>
    refine aux_inv_recvP2a qs st hi a b s v hm _ ?_ ?_ ?_ _ (Or.inl fun m => Iff.rfl)
    · intro a'; unfold setAcc; by_cases h : a' = a
      · subst h; simp
      · simp [h]
    · intro a' h; unfold setAcc; simp [h]
    · unfold setAcc; simp

theorem aux_inv_reachable (qs : QuorumSystem A) (st : State A B V) (h : Reachable qs st) : Inv qs st := by
  induction h with
  | init => exact aux_inv_init qs
  | step _ hs ih => exact aux_inv_step qs _ _ ih hs

/-- **Agreement**: in every reachable state of the abstract Paxos, no slot has two different
    chosen values (all ballots, all slots, all schedules, loss/duplication/reordering included). -/
theorem agreement (qs : QuorumSystem A) (st : State A B V) (hr : Reachable qs st)
    (b b' : B) (s : Nat) (v v' : V)
    (h1 : chosen qs st b s v) (h2 : chosen qs st b' s v') : v = v' := by
  have hi := aux_inv_reachable qs st hr
  obtain ⟨hp, Q, hQ, hq⟩ := h1
  obtain ⟨hp', Q', hQ', hq'⟩ := h2
  rcases lt_trichotomy b b' with hlt | heq | hgt
  · obtain ⟨Q₀, hQ₀, h0⟩ := hi.safeAt _ _ _ hp' b hlt
    obtain ⟨a, ha0, ha⟩ := qs.inter Q₀ Q hQ₀ hQ
    rcases (h0 a ha0).2 with hn | hs
    · exact absurd (hq a ha) hn
    · exact hi.oneVal _ _ _ _ hp hs
  · subst heq; exact hi.oneVal _ _ _ _ hp hp'
  · obtain ⟨Q₀, hQ₀, h0⟩ := hi.safeAt _ _ _ hp b' hgt
    obtain ⟨a, ha0, ha⟩ := qs.inter Q₀ Q' hQ₀ hQ'
    rcases (h0 a ha0).2 with hn | hs
    · exact absurd (hq' a ha) hn
    · exact (hi.oneVal _ _ _ _ hp' hs).symm

end HvProto.Paxos
