/-
  Instances that connect the generic Paxos theorem to the code:
   * the concrete ballot order (`impl Ord for Ballot`) is a linear order;
   * "f + 1 out of 2 f + 1" is a quorum system;
   * the executable decision rules of Model/PaxosRules.lean (whose operators are re-extracted from
     paxos.rs on every run, Gen/PaxosTable.lean) are exactly the guards of the abstract transitions.
-/
import HvProto.Lemmas.PaxosSafety
import HvProto.Model.PaxosRules
import Mathlib.Data.Prod.Lex
import Mathlib.Order.Basic
import Mathlib.Data.Fintype.Card
import Mathlib.Data.Fintype.BigOperators

namespace HvProto.Paxos
open HvProto.PaxosRules

def ballotKey (b : Ballot) : Nat ×ₗ Nat := toLex (b.num, b.pid)

theorem aux_ballotKey_inj : Function.Injective ballotKey := by
  intro a b h
  have h' : (a.num, a.pid) = (b.num, b.pid) := by simpa [ballotKey] using h
  cases a; cases b; simp_all

/-- the order of `impl Ord for Ballot` (num, then proposer id) -/
instance : LinearOrder Ballot := LinearOrder.lift' ballotKey aux_ballotKey_inj

theorem aux_ballot_lt (a b : Ballot) : a < b ↔ (a.num < b.num ∨ (a.num = b.num ∧ a.pid < b.pid)) := by
  show ballotKey a < ballotKey b ↔ _
  simp [ballotKey, Prod.Lex.lt_iff]

theorem aux_ballot_le (a b : Ballot) : a ≤ b ↔ (a.num < b.num ∨ (a.num = b.num ∧ a.pid ≤ b.pid)) := by
  show ballotKey a ≤ ballotKey b ↔ _
  simp [ballotKey, Prod.Lex.le_iff]

/-- `Ballot.cmp` (built from the extracted comparison order) is the comparison of that linear order -/
theorem aux_cmp_lt (a b : Ballot) : a.cmp b = .lt ↔ a < b := by
  rw [aux_ballot_lt]
  unfold Ballot.cmp
  simp only [Gen.ballotOrderNumFirst, if_true]
  rcases Nat.lt_trichotomy a.num b.num with h | h | h
  · simp [Ordering.then, Nat.compare_eq_lt.2 h, h]
  · rcases Nat.lt_trichotomy a.pid b.pid with h' | h' | h'
    · simp [Ordering.then, h, Nat.compare_eq_lt.2 h', h']
    · simp [Ordering.then, h, h']
    · simp [Ordering.then, h, Nat.compare_eq_gt.2 h']; omega
  · simp [Ordering.then, Nat.compare_eq_gt.2 h]; omega

theorem aux_cmp_eq (a b : Ballot) : a.cmp b = .eq ↔ a = b := by
  unfold Ballot.cmp
  simp only [Gen.ballotOrderNumFirst, if_true]
  cases a with | mk an ap => cases b with | mk bn bp =>
  simp only [Ballot.mk.injEq]
  rcases Nat.lt_trichotomy an bn with h | h | h
  · simp [Ordering.then, Nat.compare_eq_lt.2 h]; omega
  · rcases Nat.lt_trichotomy ap bp with h' | h' | h'
    · simp [Ordering.then, h, Nat.compare_eq_lt.2 h']; omega
    · simp [Ordering.then, h, h']
    · simp [Ordering.then, h, Nat.compare_eq_gt.2 h']; omega
  · simp [Ordering.then, Nat.compare_eq_gt.2 h]; omega

theorem aux_cmp_gt (a b : Ballot) : a.cmp b = .gt ↔ b < a := by
  constructor
  · intro h
    rcases lt_trichotomy a b with h1 | h1 | h1
    · rw [(aux_cmp_lt a b).2 h1] at h; cases h
    · rw [(aux_cmp_eq a b).2 h1] at h; cases h
    · exact h1
  · intro h
    cases hc : a.cmp b with
    | lt => exact absurd ((aux_cmp_lt a b).1 hc) (not_lt_of_gt h)
    | eq => exact absurd ((aux_cmp_eq a b).1 hc) (ne_of_gt h)
    | gt => rfl

/-- acceptor_p1 (`if Some(ballot) == max_ballot {Ok(log)}` after `max`): `Ok` iff `Some(b) >= old max`
    - the guard of `Step.recvP1a`; and then the new max is `Some(b)` -/
theorem aux_rule_p1b (b : Ballot) (old : Option Ballot) :
    (p1bOk b (updMax old b) = true ↔ geOpt b old) ∧ (geOpt b old → updMax old b = some b) := by
  unfold p1bOk updMax geOpt cmpSomeOpt
  cases old with
  | none => simp [Gen.p1bOkCmp, Cmp.eval, (aux_cmp_eq b b).2 rfl]
  | some x =>
    simp only [Option.some.injEq, forall_eq']
    cases hc : x.cmp b with
    | lt =>
      have hlt := (aux_cmp_lt x b).1 hc
      simp [Gen.p1bOkCmp, Cmp.eval, (aux_cmp_eq b b).2 rfl, le_of_lt hlt]
    | eq =>
      have he := (aux_cmp_eq x b).1 hc
      subst he
      simp [Gen.p1bOkCmp, Cmp.eval, hc]
    | gt =>
      have hgt := (aux_cmp_gt x b).1 hc
      have : b.cmp x = .lt := (aux_cmp_lt b x).2 hgt
      simp [Gen.p1bOkCmp, Cmp.eval, this, not_le_of_gt hgt]

/-- acceptor_p2: the p2a enters the log fold iff `Some(b) >= max_ballot` - the guard of `recvP2aLog` -/
theorem aux_rule_p2aLog (b : Ballot) (m : Option Ballot) : p2aLoggable b m = true ↔ geOpt b m := by
  unfold p2aLoggable geOpt cmpSomeOpt
  cases m with
  | none => simp [Gen.p2aLogCmp, Cmp.eval]
  | some x =>
    simp only [Option.some.injEq, forall_eq']
    cases hc : b.cmp x with
    | lt => simp [Gen.p2aLogCmp, Cmp.eval]; exact (aux_cmp_lt b x).1 hc
    | eq => simp [Gen.p2aLogCmp, Cmp.eval]; exact le_of_eq ((aux_cmp_eq b x).1 hc).symm
    | gt => simp [Gen.p2aLogCmp, Cmp.eval]; exact le_of_lt ((aux_cmp_gt b x).1 hc)

/-- acceptor_p2: the p2b is `Ok` iff `max_ballot == Some(b)` - the guard of `recvP2aVote` -/
theorem aux_rule_p2bOk (b : Ballot) (m : Option Ballot) : p2bOk b m = true ↔ m = some b := by
  unfold p2bOk cmpSomeOpt
  cases m with
  | none => simp [Gen.p2bOkCmp, Cmp.eval]
  | some x =>
    simp only [Option.some.injEq]
    cases hc : b.cmp x with
    | lt => simp [Gen.p2bOkCmp, Cmp.eval]; intro h; subst h; rw [(aux_cmp_eq _ _).2 rfl] at hc; cases hc
    | eq => simp [Gen.p2bOkCmp, Cmp.eval]; exact ((aux_cmp_eq b x).1 hc).symm
    | gt => simp [Gen.p2bOkCmp, Cmp.eval]; intro h; subst h; rw [(aux_cmp_eq _ _).2 rfl] at hc; cases hc

/-- acceptor_p2: the stored entry is replaced iff the new ballot is strictly larger - `logPut` -/
theorem aux_rule_logReplace (e p : Ballot) : logReplaces e p = true ↔ p < e := by
  unfold logReplaces
  cases hc : e.cmp p with
  | lt => simp [Gen.logReplaceCmp, Cmp.eval]; exact le_of_lt ((aux_cmp_lt e p).1 hc)
  | eq => simp [Gen.logReplaceCmp, Cmp.eval]; exact le_of_eq ((aux_cmp_eq e p).1 hc)
  | gt => simp [Gen.logReplaceCmp, Cmp.eval]; exact (aux_cmp_gt e p).1 hc

theorem aux_recommitFold_inv (es : List (Ballot × Nat)) : ∀ (acc : Nat × Option (Ballot × Nat)) (seen : List (Ballot × Nat)),
    (acc.2 = none → seen = []) →
    (∀ cb cv, acc.2 = some (cb, cv) → (cb, cv) ∈ seen ∧ ∀ b' w, (b', w) ∈ seen → b' ≤ cb) →
    (((es.foldl recommitFold acc).2 = none → seen ++ es = []) ∧
     ∀ cb cv, (es.foldl recommitFold acc).2 = some (cb, cv) →
       (cb, cv) ∈ seen ++ es ∧ ∀ b' w, (b', w) ∈ seen ++ es → b' ≤ cb) := by
  induction es with
  | nil => intro acc seen h1 h2; simpa using ⟨h1, h2⟩
  | cons e rest ih =>
    intro acc seen h1 h2
    simp only [List.foldl_cons]
    have key : ((recommitFold acc e).2 = none → seen ++ [e] = []) ∧
        ∀ cb cv, (recommitFold acc e).2 = some (cb, cv) →
          (cb, cv) ∈ seen ++ [e] ∧ ∀ b' w, (b', w) ∈ seen ++ [e] → b' ≤ cb := by
      obtain ⟨eb, ev⟩ := e
      unfold recommitFold
      cases hacc : acc.2 with
      | none =>
        have hs := h1 hacc
        subst hs
        simp
      | some p =>
        obtain ⟨cb, cv⟩ := p
        obtain ⟨hin, hmax⟩ := h2 cb cv hacc
        simp only
        by_cases hh : Cmp.eval Gen.recommitHigherCmp (eb.cmp cb) = true
        · have hlt : cb < eb := by
            have : eb.cmp cb = .gt := by
              cases hc : eb.cmp cb <;> simp [Gen.recommitHigherCmp, Cmp.eval, hc] at hh ⊢
            exact (aux_cmp_gt eb cb).1 this
          simp only [hh, if_true]
          by_cases hsame : (ev == cv) = true
          · have hev : ev = cv := by simpa using hsame
            simp only [hsame, Bool.not_true, Bool.false_eq_true, if_false]
            refine ⟨by simp, ?_⟩
            intro cb' cv' heq
            simp at heq
            obtain ⟨e1, e2⟩ := heq
            subst e1; subst e2
            refine ⟨by simp [hev], ?_⟩
            intro b' w hm
            simp at hm
            rcases hm with hm | hm
            · exact le_trans (hmax b' w hm) (le_of_lt hlt)
            · rw [hm.1]
          · simp only [hsame, Bool.not_false, if_true]
            refine ⟨by simp, ?_⟩
            intro cb' cv' heq
            simp at heq
            obtain ⟨e1, e2⟩ := heq
            subst e1; subst e2
            refine ⟨by simp, ?_⟩
            intro b' w hm
            simp at hm
            rcases hm with hm | hm
            · exact le_trans (hmax b' w hm) (le_of_lt hlt)
            · rw [hm.1]
        · simp only [hh]
          have hle : eb ≤ cb := by
            by_contra hn
            have hgt : cb < eb := lt_of_not_ge hn
            have := (aux_cmp_gt eb cb).2 hgt
            simp [Gen.recommitHigherCmp, Cmp.eval, this] at hh
          refine ⟨by simp, ?_⟩
          intro cb' cv' heq
          simp at heq
          obtain ⟨e1, e2⟩ := heq
          subst e1; subst e2
          refine ⟨by simp [hin], ?_⟩
          intro b' w hm
          simp at hm
          rcases hm with hm | hm
          · exact hmax b' w hm
          · rw [hm.1]; exact hle
    have := ih (recommitFold acc e) (seen ++ [e]) key.1 key.2
    simpa [List.append_assoc] using this

/-- recommit_after_leader_election: the value proposed for a slot is the value of a reported entry
    with the highest ballot - guard (b) of `Step.sendP2a` -/
theorem aux_rule_recommit (f : Nat) (es : List (Ballot × Nat)) (v : Nat) (h : recommitValue f es = some v) :
    ∃ b, (b, v) ∈ es ∧ ∀ b' w, (b', w) ∈ es → b' ≤ b := by
  unfold recommitValue at h
  have hinv := aux_recommitFold_inv es (0, none) [] (fun _ => rfl) (by intro cb cv hh; cases hh)
  cases hf : es.foldl recommitFold (0, none) with
  | mk count o =>
    rw [hf] at h hinv
    cases o with
    | none => simp at h
    | some p =>
      obtain ⟨cb, cv⟩ := p
      simp only at h
      split at h
      · cases h
      · injection h with h; subst h
        obtain ⟨h1, h2⟩ := hinv.2 cb cv rfl
        exact ⟨cb, by simpa using h1, fun b' w hm => h2 b' w (by simpa using hm)⟩

/-- "f + 1 out of 2 f + 1" (`collect_quorum(.., f + 1, 2 * f + 1)`) is a quorum system -/
def majorityQS (f : Nat) : QuorumSystem (Fin (2 * f + 1)) where
  isQ Q := ∃ S : Finset (Fin (2 * f + 1)), Gen.p2Quorum f ≤ S.card ∧ ∀ a ∈ S, Q a
  inter := by
    rintro Q₁ Q₂ ⟨S₁, c₁, h₁⟩ ⟨S₂, c₂, h₂⟩
    by_contra hne
    have hd : Disjoint S₁ S₂ := by
      rw [Finset.disjoint_left]
      intro a ha hb
      exact hne ⟨a, h₁ a ha, h₂ a hb⟩
    have hc := Finset.card_le_univ (S₁ ∪ S₂)
    rw [Finset.card_union_of_disjoint hd, Fintype.card_fin] at hc
    simp only [Gen.p2Quorum] at c₁ c₂
    omega

end HvProto.Paxos
