/-
`hvdrv_proto`: line-protocol driver for the C40 models.  One output line per input line.

  #case <n> <tags>          reset all members and the network; echoes the line
  step <me> <n> <el> <hb> O <other ids> R <payloads> M <messages>
        run `raftStep` of member <me> (cluster size <n>, timers el/hb ∈ {0,1}) on the given batch.
        -> `panic` (an `assert!` of raft_step fires) or
           `ok out=.. com=.. red=.. view=.. st=.. net=ok|unsent:<msg>`
        `net=` is the trace-inclusion part: every delivered message must have been sent to <me>
        earlier in this case (the abstract network is the set of messages sent so far: loss,
        duplication and reordering are allowed, forging is not).
  paxos rules               -> the Paxos decision-rule table the theorems were proved against
  paxos acc|put|recommit .. -> evaluate one Paxos decision rule (Model/PaxosRules.lean)
  sim-complete | sim-build  -> ok (bookkeeping lines of the simulator part)
Message syntax (peer = sender on input, target on output):
  rv:<peer>:<term>:<lastLogIndex>:<lastLogTerm>      rvr:<peer>:<term>
  ae:<peer>:<term>:<leader>:<prev>:<prevTerm>:<commit>:<entries>    aer:<peer>:<term>:<0|1>:<match>
  entries = `index.term.payload` joined by `,` or `-`.
Anything else -> bad-op.
-/
import HvProto.Model.Raft
import HvProto.Model.PaxosRules
open HvProto HvProto.Raft

def nat? (s : String) : Option Nat := s.toNat?

def parseEntry (s : String) : Option Entry :=
  match s.splitOn "." with
  | [i, t, p] => do
    let i ← nat? i; let t ← nat? t; let p ← nat? p
    some { msg := p, term := t, index := i }
  | _ => none

def parseEntries (s : String) : Option (List Entry) :=
  if s == "-" then some [] else (s.splitOn ",").mapM parseEntry

def parseMsg (s : String) : Option (Nat × Rpc) :=
  match s.splitOn ":" with
  | ["rv", p, t, lli, llt] => do
    let p ← nat? p; let t ← nat? t; let lli ← nat? lli; let llt ← nat? llt
    some (p, .requestVote t lli llt)
  | ["rvr", p, t] => do
    let p ← nat? p; let t ← nat? t
    some (p, .requestVoteResponse t)
  | ["ae", p, t, l, prev, pt, c, es] => do
    let p ← nat? p; let t ← nat? t; let l ← nat? l; let prev ← nat? prev
    let pt ← nat? pt; let c ← nat? c; let es ← parseEntries es
    some (p, .appendEntries t l prev pt es c)
  | ["aer", p, t, s, m] => do
    let p ← nat? p; let t ← nat? t; let s ← nat? s; let m ← nat? m
    some (p, .appendEntriesReply t (s != 0) m)
  | _ => none

def showEntry (e : Entry) : String := s!"{e.index}.{e.term}.{e.msg}"
def joinOr (sep : String) (xs : List String) : String := if xs.isEmpty then "-" else sep.intercalate xs
def showEntries (es : List Entry) : String := joinOr "," (es.map showEntry)

def showMsg (peer : Nat) : Rpc → String
  | .requestVote t lli llt => s!"rv:{peer}:{t}:{lli}:{llt}"
  | .requestVoteResponse t => s!"rvr:{peer}:{t}"
  | .appendEntries t l prev pt es c => s!"ae:{peer}:{t}:{l}:{prev}:{pt}:{c}:{showEntries es}"
  | .appendEntriesReply t s m => s!"aer:{peer}:{t}:{if s then 1 else 0}:{m}"

def showOptNat : Option Nat → String
  | none => "-"
  | some x => toString x

def showRole : Role → String
  | .follower => "F" | .candidate => "C" | .leader => "L"

def sortNat (xs : List Nat) : List Nat := xs.mergeSort (fun a b => a ≤ b)
def sortKV (xs : List (Nat × Nat)) : List (Nat × Nat) := xs.mergeSort (fun a b => a.1 ≤ b.1)

def showState (st : NodeState) : String :=
  "/".intercalate [toString st.term, showRole st.role, showOptNat st.votedFor, toString st.commitIndex,
    toString st.emittedIndex, (if st.heartbeatSeen then "1" else "0"), showOptNat st.knownLeader,
    showEntries st.log, joinOr "," ((sortNat st.votes).map toString),
    joinOr "," ((sortKV st.nextIndex).map fun kv => s!"{kv.1}:{kv.2}"),
    joinOr "," ((sortKV st.matchIndex).map fun kv => s!"{kv.1}:{kv.2}")]

def showResult (r : StepResult) : String :=
  let out := joinOr ";" (r.out.outbound.map fun tm => showMsg tm.1 tm.2)
  let com := showEntries r.out.committed
  let red := joinOr "," (r.out.redirected.map fun ph => s!"{ph.1}@{showOptNat ph.2}")
  let view := match r.view with
    | none => "-"
    | some (t, l) => s!"{t}@{showOptNat l}"
  s!"out={out} com={com} red={red} view={view} st={showState r.st}"

structure DSt where
  nodes : List (Nat × NodeState) := []          -- member ↦ state (absent = initial)
  net : List (Nat × Nat × Rpc) := []            -- (to, from, message) sent so far
  dead : Bool := false

def getNode (d : DSt) (m : Nat) : NodeState :=
  match d.nodes.find? (fun p => p.1 == m) with
  | some p => p.2
  | none => {}

def setNode (d : DSt) (m : Nat) (st : NodeState) : DSt :=
  { d with nodes := (m, st) :: d.nodes.filter (fun p => p.1 != m) }

/-- split `xs` at the first occurrence of marker `m` -/
def splitAt1 (m : String) (xs : List String) : List String × List String :=
  (xs.takeWhile (· != m), (xs.dropWhile (· != m)).drop 1)

def raftOp (d : DSt) (ws : List String) : Option (DSt × String) :=
  match ws with
  | me :: n :: el :: hb :: "O" :: rest => do
    let me ← nat? me; let n ← nat? n; let el ← nat? el; let hb ← nat? hb
    let (os, rest) := splitAt1 "R" rest
    let (rs, ms) := splitAt1 "M" rest
    let others ← os.mapM nat?
    let reqs ← rs.mapM nat?
    let msgs ← ms.mapM parseMsg
    if d.dead then some (d, "dead") else
    let unsent := msgs.filter fun sm => !(d.net.contains (me, sm.1, sm.2))
    let netAns := match unsent with
      | [] => "net=ok"
      | sm :: _ => s!"net=unsent:{showMsg sm.1 sm.2}"
    let inp : StepInput := { me := me, others := others, clusterSize := n, electionFired := el != 0,
                             heartbeatFired := hb != 0, requests := reqs, messages := msgs }
    match raftStep (getNode d me) inp with
    | none => some ({ d with dead := true }, "panic")
    | some r =>
      let d := setNode d me r.st
      let d := { d with net := d.net ++ r.out.outbound.map fun tm => (tm.1, me, tm.2) }
      some (d, s!"ok {showResult r} {netAns}")
  | _ => none

def step (d : DSt) (line : String) : DSt × String :=
  match line.trimAscii.toString.splitOn " " with
  | "#case" :: _ => ({}, line.trimAscii.toString)
  | "step" :: ws => match raftOp d ws with
    | some r => r
    | none => (d, "bad-op")
  | "paxos" :: ws => (d, PaxosRules.driverOp ws)
  | ["sim-complete"] => (d, "ok")     -- the harness answers `failed: ..` when the simulator run broke
  | ["sim-build"] => (d, "ok")
  | _ => (d, "bad-op")

partial def loop (h : IO.FS.Stream) (out : IO.FS.Stream) (st : DSt) : IO Unit := do
  let line ← h.getLine
  if line.isEmpty then return ()
  let (st', o) := step st line
  out.putStrLn o
  loop h out st'

def main : IO Unit := do
  let stdin ← IO.getStdin
  let stdout ← IO.getStdout
  loop stdin stdout {}
