/-
  C40 - "Replicated log examples never diverge" (hydro_test/src/cluster/{raft,paxos,paxos_with_client}.rs).

  Only property theorems live here (helpers are `aux_*` in Lemmas/).  What is proved:

  PAXOS (abstract message-level protocol of Spec/Paxos.lean, transcribed from paxos.rs; network = set of
  sent messages, i.e. loss / duplication / reordering; fail-stop):
    * `paxos_agreement`              no slot has two different chosen values, all executions (generic quorums/ballots)
    * `paxos_agreement_majority`     the same for the code's `f+1` of `2f+1` quorums and `impl Ord for Ballot`
    * `paxos_rules_are_spec_guards`  the decision rules evaluated with the operators re-extracted from paxos.rs on
                                     this run (Gen/PaxosTable.lean) ARE the guards of the abstract transitions
    ASSUMED by the abstract protocol and NOT tied to paxos.rs by a theorem or an executable tie (reviewers doubt
    both for the code as written, see checks/C40.py level_note): (1) a proposer sends one value per (ballot, slot)
    (guard of `sendP2a`); (2) a quorum of `Ok` replies comes from f+1 DISTINCT acceptors (`isQ`; the code's
    `collect_quorum*` counts responses per key and p1a is re-broadcast with an unchanged ballot).
  RAFT (the system whose per-member transition is `raftStep` = the Lean transcription of `raft_step`, diffed
  against the real function on every run; executions = arbitrary sequences of `raft_step` calls on arbitrary
  batches of sent messages, timers, requests):
    * `raft_election_safety`         at most one leader per term over the whole history
    * `raft_no_two_leaders_now`      two members that are leader in the same term at the same time are equal
    * `raft_one_vote_per_term`       a member never grants two different candidates in one term
    * `raft_leader_has_quorum`       every leader was granted by a majority
    * `raft_log_matching`            same (position, term) in two logs ⇒ identical prefixes (full)
    * `raft_log_wellformed`          index consistency of logs and AppendEntries segments
  STATE MACHINE SAFETY (the property clause for Raft) - FULL:
    * `raft_leader_completeness`     RAFT §5.4.3 on the executions instrumented with the canonical history
                                     variables `tl` / `cm` (per-term leader log / leader commit index)
    * `raft_emitted_streams_never_diverge`  the property as stated, for the `committed` output streams of all members
    * `raft_committed_prefix_agreement`  in every state reached by any sequence of `raft_step` calls the committed
                                     prefixes of any two members agree position by position
    * `raft_step_never_panics`       the two `assert!`s of `raft_step` never fire in any execution
    * `raft_agreement_of_leader_completeness`, `raft_commit_provenance`, `raft_no_retraction`,
      `raft_commit_index_bounds` (commit <= log length, emitted <= commit)
-/
import HvProto.Lemmas.PaxosInst
import HvProto.Lemmas.RaftRefine
import HvProto.Lemmas.RaftLog
import HvProto.Lemmas.RaftMatch
import HvProto.Lemmas.RaftCommit
import HvProto.Lemmas.RaftLC3
import HvProto.Lemmas.RaftEmit
import HvProto.Lemmas.RaftNoPanic

namespace HvProto.C40
open HvProto

/-! ## Paxos -/

/-- Agreement, generic: any linear order of ballots, any pairwise-intersecting quorum system. -/
theorem paxos_agreement {A B V : Type} [LinearOrder B] [DecidableEq A]
    (qs : Paxos.QuorumSystem A) (st : Paxos.State A B V) (hr : Paxos.Reachable qs st)
    (b b' : B) (s : Nat) (v v' : V)
    (h1 : Paxos.chosen qs st b s v) (h2 : Paxos.chosen qs st b' s v') : v = v' :=
  Paxos.agreement qs st hr b b' s v v' h1 h2

/-- Agreement for the code's parameters: ballots `Ballot {num, proposer_id}` ordered by `impl Ord`,
    acceptors `0 .. 2f`, quorums of `f + 1` (for every `f`). -/
theorem paxos_agreement_majority (f : Nat) {V : Type}
    (st : Paxos.State (Fin (2 * f + 1)) PaxosRules.Ballot V)
    (hr : Paxos.Reachable (Paxos.majorityQS f) st)
    (b b' : PaxosRules.Ballot) (s : Nat) (v v' : V)
    (h1 : Paxos.chosen (Paxos.majorityQS f) st b s v)
    (h2 : Paxos.chosen (Paxos.majorityQS f) st b' s v') : v = v' :=
  Paxos.agreement (Paxos.majorityQS f) st hr b b' s v v' h1 h2

/-- The executable decision rules (operators from the current paxos.rs) are the guards of the abstract
    transitions `recvP1a`, `recvP2aLog`, `recvP2aVote` and the replacement test of `logPut`. -/
theorem paxos_rules_are_spec_guards (b : PaxosRules.Ballot) (m : Option PaxosRules.Ballot) (p : PaxosRules.Ballot) :
    (PaxosRules.p1bOk b (PaxosRules.updMax m b) = true ↔ Paxos.geOpt b m) ∧
    (Paxos.geOpt b m → PaxosRules.updMax m b = some b) ∧
    (PaxosRules.p2aLoggable b m = true ↔ Paxos.geOpt b m) ∧
    (PaxosRules.p2bOk b m = true ↔ m = some b) ∧
    (PaxosRules.logReplaces b p = true ↔ p < b) ∧
    (∀ f, Gen.p1Quorum f = f + 1 ∧ Gen.p1Participants f = 2 * f + 1 ∧
          Gen.p2Quorum f = f + 1 ∧ Gen.p2Participants f = 2 * f + 1) :=
  ⟨(Paxos.aux_rule_p1b b m).1, (Paxos.aux_rule_p1b b m).2, Paxos.aux_rule_p2aLog b m,
   Paxos.aux_rule_p2bOk b m, Paxos.aux_rule_logReplace b p, fun _ => ⟨rfl, rfl, rfl, rfl⟩⟩

/-- `recommit_after_leader_election`: the fold over the entries reported for a slot (with the operators
    of the current source) proposes the value of a reported entry with the highest ballot - guard (b) of
    the abstract `sendP2a`; whatever the order in which the entries are folded. -/
theorem paxos_recommit_value_is_highest_ballot (f : Nat) (es : List (PaxosRules.Ballot × Nat)) (v : Nat)
    (h : PaxosRules.recommitValue f es = some v) :
    ∃ b, (b, v) ∈ es ∧ ∀ b' w, (b', w) ∈ es → b' ≤ b :=
  Paxos.aux_rule_recommit f es v h

example : PaxosRules.recommitValue 1 [(⟨1, 0⟩, 5), (⟨2, 1⟩, 6)] = some 6 := by decide

/-! non-vacuity: a reachable state (f = 1, three acceptors) in which value 7 is chosen for slot 0 -/
namespace PaxosExample
open Paxos
abbrev A := Fin 3
abbrev b0 : PaxosRules.Ballot := ⟨1, 0⟩
def qs := majorityQS 1
def Q01 : A → Prop := fun a => a = 0 ∨ a = 1
theorem aux_q01 : qs.isQ Q01 := ⟨{0, 1}, by decide, by intro a ha; simp at ha; exact ha⟩
def s0 : State A PaxosRules.Ballot Nat := init
def s1 : State A PaxosRules.Ballot Nat := { s0 with msgs := addMsg s0 (.p1a b0) }
def s2 : State A PaxosRules.Ballot Nat :=
  { acc := setAcc s1 0 { maxBal := some b0, log := (s1.acc 0).log }, msgs := addMsg s1 (.p1b 0 b0 (s1.acc 0).log) }
def s3 : State A PaxosRules.Ballot Nat :=
  { acc := setAcc s2 1 { maxBal := some b0, log := (s2.acc 1).log }, msgs := addMsg s2 (.p1b 1 b0 (s2.acc 1).log) }
def s4 : State A PaxosRules.Ballot Nat := { s3 with msgs := addMsg s3 (.p2a b0 0 7) }
def s5 : State A PaxosRules.Ballot Nat :=
  { acc := setAcc s4 0 { maxBal := (s4.acc 0).maxBal, log := logPut (s4.acc 0).log 0 b0 7 }, msgs := addMsg s4 (.p2b 0 b0 0) }
def s6 : State A PaxosRules.Ballot Nat :=
  { acc := setAcc s5 1 { maxBal := (s5.acc 1).maxBal, log := logPut (s5.acc 1).log 0 b0 7 }, msgs := addMsg s5 (.p2b 1 b0 0) }

example : Reachable qs s6 ∧ chosen qs s6 b0 0 7 := by
  have r0 : Reachable qs s0 := .init
  have r1 : Reachable qs s1 := .step r0 (.sendP1a s0 b0)
  have r2 : Reachable qs s2 := .step r1 (.recvP1a s1 0 b0 (Or.inl rfl) (by intro x hx; cases hx))
  have r3 : Reachable qs s3 := .step r2 (.recvP1a s2 1 b0 (Or.inr (Or.inl rfl)) (by intro x hx; cases hx))
  have r4 : Reachable qs s4 := by
    refine .step r3 (.sendP2a s3 b0 0 7 Q01 (fun _ _ => none) aux_q01 ?_ (Or.inl fun _ _ => rfl) ?_)
    · intro a ha
      rcases ha with ha | ha
      · subst ha; exact Or.inr (Or.inl rfl)
      · subst ha; exact Or.inl rfl
    · intro v' h
      rcases h with h | h | h | h <;> cases h
  have r5 : Reachable qs s5 := .step r4 (.recvP2aVote s4 0 b0 0 7 (Or.inl rfl) rfl)
  refine ⟨.step r5 (.recvP2aVote s5 1 b0 0 7 (Or.inr (Or.inl rfl)) rfl), Or.inr (Or.inr (Or.inl rfl)), Q01, aux_q01, ?_⟩
  intro a ha
  rcases ha with ha | ha
  · subst ha; exact Or.inr (Or.inl rfl)
  · subst ha; exact Or.inl rfl
end PaxosExample

/-- non-vacuity of `paxos_rules_are_spec_guards`: an acceptor promised to (1,0) logs a p2a of (2,1) but does not vote for it -/
example : PaxosRules.p2aLoggable ⟨2, 1⟩ (some ⟨1, 0⟩) = true ∧ PaxosRules.p2bOk ⟨2, 1⟩ (some ⟨1, 0⟩) = false := by decide

/-! ## Raft -/

/-- Election safety: over the whole history of any execution, a term has at most one leader. -/
theorem raft_election_safety (n : Nat) (s : Raft.Sys) (h : Raft.Reach n s) (c c' t : Nat)
    (h1 : s.elected c t) (h2 : s.elected c' t) : c = c' :=
  Raft.aux_election_safety n s h c c' t h1 h2

/-- In particular two members that are simultaneously leaders of the same term are the same member
    (the situation `raft_step` guards with `assert!("two leaders share term")`). -/
theorem raft_no_two_leaders_now (n : Nat) (s : Raft.Sys) (h : Raft.Reach n s) (c c' : Nat)
    (h1 : (s.nodes c).role = .leader) (h2 : (s.nodes c').role = .leader)
    (ht : (s.nodes c).term = (s.nodes c').term) : c = c' := by
  obtain ⟨sm, hrm, ⟨hn, _, _⟩, hi⟩ := Raft.aux_reach_inv n s h
  rw [hn] at h1 h2 ht
  have e1 := hi.leaderRecorded c h1
  have e2 := hi.leaderRecorded c' h2
  rw [ht] at e1
  exact Raft.aux_einv_safety n sm hi c c' _ e1 e2

/-- A member grants at most one candidate per term: two vote messages of the same voter and term
    go to the same candidate. -/
theorem raft_one_vote_per_term (n : Nat) (s : Raft.Sys) (h : Raft.Reach n s) (v c c' t : Nat)
    (h1 : s.net ⟨c, v, .requestVoteResponse t⟩) (h2 : s.net ⟨c', v, .requestVoteResponse t⟩) : c = c' := by
  obtain ⟨sm, _, ⟨_, hnet, _⟩, hi⟩ := Raft.aux_reach_inv n s h
  rw [hnet] at h1 h2
  exact hi.grantUnique v c c' t (Or.inl h1) (Or.inl h2)

/-- Every (current) leader holds votes of a majority: a duplicate-free list of at least `n/2+1` members
    each of which is the leader itself or sent it a vote for that term. -/
theorem raft_leader_has_quorum (n : Nat) (s : Raft.Sys) (h : Raft.Reach n s) (c : Nat)
    (h1 : (s.nodes c).role = .leader) :
    ∃ Q : List Nat, Q.Nodup ∧ n / 2 + 1 ≤ Q.length ∧
      ∀ v ∈ Q, v < n ∧ (v = c ∨ s.net ⟨c, v, .requestVoteResponse (s.nodes c).term⟩) := by
  obtain ⟨sm, _, ⟨hn, hnet, _⟩, hi⟩ := Raft.aux_reach_inv n s h
  rw [hn] at h1 ⊢
  rw [hnet]
  obtain ⟨_, Q, q1, q2, q3⟩ := hi.electedQuorum c _ (hi.leaderRecorded c h1)
  refine ⟨Q, q1, by simpa [Raft.majority] using q2, fun v hv => ⟨(q3 v hv).1, ?_⟩⟩
  rcases (q3 v hv).2 with hg | ⟨hg, _⟩
  · exact Or.inr hg
  · exact Or.inl hg

/-! non-vacuity: three members; member 0 times out, member 1 grants, member 0 wins term 1 and
    appends request 7 - an execution of three `raft_step` calls -/
namespace RaftExample
open Raft
def ra : StepResult := (raftStep {} (mkInput 3 0 true false [] [])).getD default
theorem aux_ha : raftStep (initSys.nodes 0) (mkInput 3 0 true false [] []) = some ra := by rfl
def sa : Sys := initSys.update 0 ra.st ra.out.outbound
def rb : StepResult := (raftStep {} (mkInput 3 1 false false [] [(0, .requestVote 1 0 0)])).getD default
theorem aux_hb : raftStep (sa.nodes 1) (mkInput 3 1 false false [] [(0, .requestVote 1 0 0)]) = some rb := by rfl
def sb : Sys := sa.update 1 rb.st rb.out.outbound
def rc : StepResult := (raftStep ra.st (mkInput 3 0 false false [7] [(1, .requestVoteResponse 1)])).getD default
theorem aux_hc : raftStep (sb.nodes 0) (mkInput 3 0 false false [7] [(1, .requestVoteResponse 1)]) = some rc := by rfl
def sc : Sys := sb.update 0 rc.st rc.out.outbound

example : Reach 3 sc ∧ sc.elected 0 1 ∧ (sc.nodes 0).role = .leader ∧
    (sc.nodes 0).log = [{ msg := 7, term := 1, index := 1 }] := by
  have r1 : Reach 3 sa := .step .init (.tick initSys 0 true false [] [] ra (by decide) (by intro sm h; cases h) aux_ha)
  have r2 : Reach 3 sb := by
    refine .step r1 (.tick sa 1 false false [] [(0, .requestVote 1 0 0)] rb (by decide) ?_ aux_hb)
    intro sm h; simp at h; subst h
    exact Or.inr ⟨rfl, by decide⟩
  refine ⟨.step r2 (.tick sb 0 false false [7] [(1, .requestVoteResponse 1)] rc (by decide) ?_ aux_hc),
    Or.inr ⟨rfl, by rfl, by rfl⟩, by rfl, by rfl⟩
  intro sm h; simp at h; subst h
  exact Or.inr ⟨rfl, by decide⟩
end RaftExample

/-! ### state machine safety -/

/-- State machine safety: the committed prefixes of any two members are prefix-comparable
    (no two members commit different entries at the same log position). -/
def RaftCommittedPrefixAgreementStatement (n : Nat) : Prop :=
  ∀ s, Raft.Reach n s → ∀ a b i, i < (s.nodes a).commitIndex → i < (s.nodes b).commitIndex →
    (s.nodes a).log.getD i default = (s.nodes b).log.getD i default

/-- **Log matching** (RAFT §5.3), full: in every state reached by any sequence of `raft_step` calls, if the
    logs of two members hold entries of the same term at the same position, the two logs are identical up to
    and including that position (payloads included). Proved with a ghost per-term canonical log through the
    truncate/skip/append loop of the `AppendEntries` arm. -/
theorem raft_log_matching (n : Nat) (s : Raft.Sys) (h : Raft.Reach n s) (a b i : Nat) (ea eb : Raft.Entry)
    (ha : (s.nodes a).log[i]? = some ea) (hb : (s.nodes b).log[i]? = some eb) (ht : ea.term = eb.term) :
    (s.nodes a).log.take (i + 1) = (s.nodes b).log.take (i + 1) :=
  Raft.aux_log_matching n s h a b i ea eb ha hb ht

/-- Logs are index-consistent (`log[i].index = i+1`, which `raft_step` relies on when it addresses
    `state.log[entry.index - 1]`) and every `AppendEntries` in flight carries consecutive positions. -/
theorem raft_log_wellformed (n : Nat) (s : Raft.Sys) (h : Raft.Reach n s) :
    (∀ v i e, (s.nodes v).log[i]? = some e → e.index = i + 1) ∧
    (∀ dst frm t l p pt es lc, s.net ⟨dst, frm, .appendEntries t l p pt es lc⟩ →
        ∀ k e, es[k]? = some e → e.index = p + k + 1) := by
  have hw := Raft.aux_winv_reach n s h
  exact ⟨fun v => hw.logWf v, fun dst frm t l p pt es lc hh => hw.aeWf dst frm t l p pt es lc hh⟩

/-- In every reachable state the committed
    prefix of every member really is a prefix of its log (`commit_index <= log.len()`, so the emission loop
    never indexes out of bounds and the truncation guard protects it), and what was emitted is committed
    (`emitted_index <= commit_index`). -/
theorem raft_commit_index_bounds (n : Nat) (s : Raft.Sys) (h : Raft.Reach n s) (v : Nat) :
    (s.nodes v).commitIndex ≤ (s.nodes v).log.length ∧ (s.nodes v).emittedIndex ≤ (s.nodes v).commitIndex := by
  have hw := Raft.aux_winv_reach n s h
  exact ⟨hw.commitLe v, hw.emitLe v⟩

/-- No retraction: a `raft_step` call (in any reachable state, by any member, on any batch of sent messages)
    never decreases a member's `commit_index` and never changes its committed prefix - the truncation guard
    `entry.index > state.commit_index` of the append loop (the `assert!` behind it makes the step panic, i.e. the
    member stops, instead of truncating committed entries). -/
theorem raft_no_retraction (n : Nat) (s s' : Raft.Sys) (h : Raft.Reach n s) (hs : Raft.MacroStep n s s') (v : Nat) :
    (s.nodes v).commitIndex ≤ (s'.nodes v).commitIndex ∧
    (s'.nodes v).log.take (s.nodes v).commitIndex = (s.nodes v).log.take (s.nodes v).commitIndex :=
  Raft.aux_no_retraction n s s' h hs v

/-- **Leader completeness** (RAFT §5.4.3), stated on the executions instrumented with two history variables
    that are determined by the execution (`Raft.GReach`, Lemmas/RaftCommit.lean): `tl u` / `cm u` = the log /
    the `commit_index` of the leader of term `u` as of the last state in which it was leader.  It says: whenever
    a later term `u > t` has a leader, the log of that leader (from its election on) starts with the `cm t`
    entries the leader of term `t` has committed.  Proved below (`raft_leader_completeness`). -/
def RaftLeaderCompletenessStatement (n : Nat) : Prop :=
  ∀ s tl cm, Raft.GReach n s tl cm → ∀ t u, t < u → (∃ c, s.elected c u) →
    (tl u).take (cm t) = (tl t).take (cm t)

/-- The reduction.  Committed-prefix agreement follows from leader completeness
    by commit provenance (proved: every member's committed prefix is a prefix of the term log of a term whose
    leader had committed at least as much - it was adopted by `min(leader_commit, new_match)` from an accepted
    `AppendEntries` of that leader after the append loop made the log equal to the leader's up to `new_match`,
    or the member is that leader; the truncation guard never touches it) and log matching. -/
theorem raft_agreement_of_leader_completeness (n : Nat) (h : RaftLeaderCompletenessStatement n) :
    RaftCommittedPrefixAgreementStatement n :=
  fun s hs a b i ha hb => Raft.aux_agreement_of_lc n h s hs a b i ha hb

/-- Commit provenance, as used by the reduction: every execution of the implementation has history variables
    `tl`, `cm` (per-term leader log / leader commit index) such that the committed prefix of every member `v` is
    the prefix of `tl t` for some term `t` (that had a leader, unless nothing is committed) whose leader
    committed at least `commit_index(v)` entries; leaders never commit beyond their log. -/
theorem raft_commit_provenance (n : Nat) (s : Raft.Sys) (h : Raft.Reach n s) :
    ∃ sm tl cm, Raft.GReach n sm tl cm ∧ s.nodes = sm.nodes ∧ s.net = sm.net ∧
      (∀ c, (s.nodes c).role = .leader →
        tl (s.nodes c).term = (s.nodes c).log ∧ cm (s.nodes c).term = (s.nodes c).commitIndex) ∧
      (∀ u, cm u ≤ (tl u).length) ∧
      ∀ v, ∃ t, t ≤ (s.nodes v).term ∧ ((∃ c, sm.elected c t) ∨ (s.nodes v).commitIndex = 0) ∧
        (s.nodes v).commitIndex ≤ cm t ∧
        (s.nodes v).log.take (s.nodes v).commitIndex = (tl t).take (s.nodes v).commitIndex := by
  obtain ⟨sm, hrm, hn, hnet, _⟩ := Raft.aux_reach_sim n s h
  obtain ⟨tl, cm, hg⟩ := Raft.aux_greach_exists n sm hrm
  obtain ⟨_, hi, hc⟩ := Raft.aux_greach_inv n sm tl cm hg
  refine ⟨sm, tl, cm, hg, hn, hnet, ?_, hc.cmLe, ?_⟩
  · intro c hr; rw [hn] at hr ⊢; exact ⟨hi.leaderLog c hr, hc.leaderCm c hr⟩
  · intro v; rw [hn]; exact hc.nodeC v

/-- **Leader completeness** (RAFT §5.4.3) for every execution, proved from the interplay of the commit rule
    (`advanceLoop`: an entry of the leader's CURRENT term at position `k` with `match_index >= k` on a majority;
    every `match_index` entry is backed by a successful `AppendEntriesReply` of that term, which the follower sent
    when its log equalled the leader's up to `k`) with the §5.4.1 vote check (`(last_log_term, last_log_index)` of the
    candidate >= the voter's): by induction on the later term, the election quorum of `u` and the acknowledging
    majority share a member, which voted after acknowledging and can only have lost the prefix to a leader of an
    intermediate term (Lemmas/RaftLC.lean, RaftLC2.lean, RaftLC3.lean; invariants `LInv`, `QInv`). -/
theorem raft_leader_completeness (n : Nat) : RaftLeaderCompletenessStatement n :=
  Raft.aux_leader_completeness n

/-- **State machine safety**, full: in every state reached by ANY sequence of `raft_step` calls (any members, any
    batches of sent messages - loss, duplication, reordering -, any timers, any requests; a crashed or panicked
    member takes no more steps) no two members have committed different entries at the same log position. -/
theorem raft_committed_prefix_agreement (n : Nat) : RaftCommittedPrefixAgreementStatement n :=
  raft_agreement_of_leader_completeness n (raft_leader_completeness n)

/-- the same, spelled out: committed prefixes of two members are equal as lists up to the smaller commit index -/
theorem raft_committed_prefixes_comparable (n : Nat) (s : Raft.Sys) (h : Raft.Reach n s) (a b : Nat)
    (hab : (s.nodes a).commitIndex ≤ (s.nodes b).commitIndex) :
    (s.nodes a).log.take (s.nodes a).commitIndex = (s.nodes b).log.take (s.nodes a).commitIndex := by
  have hw := Raft.aux_winv_reach n s h
  apply List.ext_getElem?
  intro i
  by_cases hi : i < (s.nodes a).commitIndex
  · have h1 := raft_committed_prefix_agreement n s h a b i hi (by omega)
    have la := hw.commitLe a
    have lb := hw.commitLe b
    simp only [List.getElem?_take, hi, if_true]
    simp only [List.getD_eq_getElem?_getD] at h1
    rw [List.getElem?_eq_getElem (by omega), List.getElem?_eq_getElem (by omega)] at h1 ⊢
    simpa using h1
  · simp only [List.getElem?_take, hi, if_false]

/-- **The property as stated**, for the `committed` output streams: take any execution of the implementation
    (`Raft.ReachOut`: any sequence of `raft_step` calls, recording for every member the sequence `hist v` of
    entries it has emitted on its `committed` output so far).  Then (1) what a member has emitted is exactly the
    first `emitted_index` entries of its log, in order and without gaps, and (2) no two members have emitted
    different entries at the same position. -/
theorem raft_emitted_streams_never_diverge (n : Nat) (s : Raft.Sys) (hist : Nat → List Raft.Entry)
    (h : Raft.ReachOut n s hist) :
    (∀ v, hist v = (s.nodes v).log.take (s.nodes v).emittedIndex) ∧
    ∀ a b i, i < (hist a).length → i < (hist b).length → (hist a)[i]? = (hist b)[i]? := by
  obtain ⟨hr, hh⟩ := Raft.aux_hist_is_prefix n s hist h
  refine ⟨hh, fun a b i ha hb => ?_⟩
  have hw := Raft.aux_winv_reach n s hr
  rw [hh a] at ha ⊢
  rw [hh b] at hb ⊢
  simp only [List.length_take] at ha hb
  have ea := hw.emitLe a
  have eb := hw.emitLe b
  have la := hw.commitLe a
  have lb := hw.commitLe b
  have h1 := raft_committed_prefix_agreement n s hr a b i (by omega) (by omega)
  simp only [List.getD_eq_getElem?_getD] at h1
  have ia : i < (s.nodes a).emittedIndex := by omega
  have ib : i < (s.nodes b).emittedIndex := by omega
  simp only [List.getElem?_take, ia, ib, if_true]
  rw [List.getElem?_eq_getElem (by omega), List.getElem?_eq_getElem (by omega)] at h1 ⊢
  simpa using h1

/-- The two protocol-violation `assert!`s of `raft_step` ("two leaders share term", "truncate committed entries")
    never fire: in every reachable state, every `raft_step` call by any member on any batch of messages that were
    sent to it returns normally.  So the `= some r` side condition of an execution step never excludes a call,
    and no member ever stops because of a panic. -/
theorem raft_step_never_panics (n : Nat) (s : Raft.Sys) (h : Raft.Reach n s) (m : Nat) (hm : m < n) (el hb : Bool)
    (reqs : List Nat) (msgs : List (Nat × Raft.Rpc)) (hmsgs : ∀ sm ∈ msgs, s.net ⟨m, sm.1, sm.2⟩) :
    ∃ r, Raft.raftStep (s.nodes m) (Raft.mkInput n m el hb reqs msgs) = some r :=
  Raft.aux_raftStep_some n s h m hm el hb reqs msgs hmsgs

/-! non-vacuity of the commit statements: the execution of `RaftExample` continued by a heartbeat of the
    leader, the follower's acceptance and the leader's commit - six `raft_step` calls after which member 0 has
    committed position 1 and member 1 holds the same entry -/
namespace RaftExample
open Raft
def ae1 : Rpc := .appendEntries 1 0 0 0 [{ msg := 7, term := 1, index := 1 }] 0
def rd : StepResult := (raftStep rc.st (mkInput 3 0 false true [] [])).getD default
theorem aux_hd : raftStep (sc.nodes 0) (mkInput 3 0 false true [] []) = some rd := by rfl
def sd : Sys := sc.update 0 rd.st rd.out.outbound
def re : StepResult := (raftStep rb.st (mkInput 3 1 false false [] [(0, ae1)])).getD default
theorem aux_he : raftStep (sd.nodes 1) (mkInput 3 1 false false [] [(0, ae1)]) = some re := by rfl
def se : Sys := sd.update 1 re.st re.out.outbound
def rf : StepResult := (raftStep rd.st (mkInput 3 0 false false [] [(1, .appendEntriesReply 1 true 1)])).getD default
theorem aux_hf : raftStep (se.nodes 0) (mkInput 3 0 false false [] [(1, .appendEntriesReply 1 true 1)]) = some rf := by rfl
def sf : Sys := se.update 0 rf.st rf.out.outbound

theorem aux_reach_sc : Reach 3 sc := by
  have r1 : Reach 3 sa := .step .init (.tick initSys 0 true false [] [] ra (by decide) (by intro sm h; cases h) aux_ha)
  have r2 : Reach 3 sb := by
    refine .step r1 (.tick sa 1 false false [] [(0, .requestVote 1 0 0)] rb (by decide) ?_ aux_hb)
    intro sm h; simp at h; subst h
    exact Or.inr ⟨rfl, by decide⟩
  refine .step r2 (.tick sb 0 false false [7] [(1, .requestVoteResponse 1)] rc (by decide) ?_ aux_hc)
  intro sm h; simp at h; subst h
  exact Or.inr ⟨rfl, by decide⟩

example : Reach 3 sf ∧ (sf.nodes 0).commitIndex = 1 ∧ (sf.nodes 0).role = .leader ∧
    (sf.nodes 1).log = (sf.nodes 0).log ∧ (sf.nodes 0).log = [{ msg := 7, term := 1, index := 1 }] := by
  have r4 : Reach 3 sd := .step aux_reach_sc (.tick sc 0 false true [] [] rd (by decide) (by intro sm h; cases h) aux_hd)
  have r5 : Reach 3 se := by
    refine .step r4 (.tick sd 1 false false [] [(0, ae1)] re (by decide) ?_ aux_he)
    intro sm h; simp at h; subst h
    exact Or.inr ⟨rfl, by decide⟩
  refine ⟨.step r5 (.tick se 0 false false [] [(1, .appendEntriesReply 1 true 1)] rf (by decide) ?_ aux_hf),
    by rfl, by rfl, by rfl, by rfl⟩
  intro sm h; simp at h; subst h
  exact Or.inr ⟨rfl, by decide⟩
/-- non-vacuity of `raft_emitted_streams_never_diverge`: the same six calls as a `ReachOut` execution; member 0
    has emitted the entry it committed -/
example : ∃ hist, ReachOut 3 sf hist ∧ hist 0 = [{ msg := 7, term := 1, index := 1 }] := by
  have net1 : ∀ sm ∈ [(0, Rpc.requestVote 1 0 0)], sa.net ⟨1, sm.1, sm.2⟩ := by
    intro sm h; simp at h; subst h; exact Or.inr ⟨rfl, by decide⟩
  have net2 : ∀ sm ∈ [(1, Rpc.requestVoteResponse 1)], sb.net ⟨0, sm.1, sm.2⟩ := by
    intro sm h; simp at h; subst h; exact Or.inr ⟨rfl, by decide⟩
  have net4 : ∀ sm ∈ [(0, ae1)], sd.net ⟨1, sm.1, sm.2⟩ := by
    intro sm h; simp at h; subst h; exact Or.inr ⟨rfl, by decide⟩
  have net5 : ∀ sm ∈ [(1, Rpc.appendEntriesReply 1 true 1)], se.net ⟨0, sm.1, sm.2⟩ := by
    intro sm h; simp at h; subst h; exact Or.inr ⟨rfl, by decide⟩
  have r1 := ReachOut.step 0 true false [] [] ra .init (by decide) (by intro sm h; cases h) aux_ha
  have r2 := ReachOut.step 1 false false [] _ rb r1 (by decide) net1 aux_hb
  have r3 := ReachOut.step 0 false false [7] _ rc r2 (by decide) net2 aux_hc
  have r4 := ReachOut.step 0 false true [] [] rd r3 (by decide) (by intro sm h; cases h) aux_hd
  have r5 := ReachOut.step 1 false false [] _ re r4 (by decide) net4 aux_he
  have r6 := ReachOut.step 0 false false [] _ rf r5 (by decide) net5 aux_hf
  exact ⟨_, r6, by rfl⟩
end RaftExample

end HvProto.C40
