/-
  Executable decision rules of /repo/hydro_test/src/cluster/paxos.rs, parametrised by the
  operator table `Gen/PaxosTable.lean` that is re-extracted from the Rust source on every run.
  No imports outside the project (links into the native driver).
-/
import HvProto.Gen.PaxosTable
namespace HvProto.PaxosRules
open HvProto.Gen

/-- `Ballot { num, proposer_id }` -/
structure Ballot where
  num : Nat
  pid : Nat
deriving DecidableEq, Repr, Inhabited

/-- `impl Ord for Ballot` as a three-way comparison -/
def Ballot.cmp (a b : Ballot) : Ordering :=
  if ballotOrderNumFirst then (compare a.num b.num).then (compare a.pid b.pid)
  else (compare a.pid b.pid).then (compare a.num b.num)

def Cmp.eval (c : Cmp) (o : Ordering) : Bool :=
  match c, o with
  | .lt, .lt => true | .le, .lt => true | .le, .eq => true | .eq, .eq => true
  | .ge, .eq => true | .ge, .gt => true | .gt, .gt => true | .ne, .lt => true | .ne, .gt => true
  | _, _ => false

/-- Rust `Option<Ballot>` comparison `Some(b) ? m` (`None < Some(_)`) -/
def cmpSomeOpt (b : Ballot) (m : Option Ballot) : Ordering :=
  match m with
  | none => .gt
  | some x => b.cmp x

/-- acceptor_p1: `a_max_ballot = p1a … .across_ticks(|s| s.max())` after one more p1a -/
def updMax (old : Option Ballot) (b : Ballot) : Option Ballot :=
  match old with
  | none => some b
  | some x => if x.cmp b == .lt then some b else some x

/-- acceptor_p1: is the reply to `p1a(ballot)` an `Ok(log)`, given the (already updated) max ballot -/
def p1bOk (ballot : Ballot) (maxBallot : Option Ballot) : Bool := Cmp.eval p1bOkCmp (cmpSomeOpt ballot maxBallot)
/-- acceptor_p2: does the p2a enter the log fold -/
def p2aLoggable (ballot : Ballot) (maxBallot : Option Ballot) : Bool := Cmp.eval p2aLogCmp (cmpSomeOpt ballot maxBallot)
/-- acceptor_p2: does the new entry replace the stored one -/
def logReplaces (entryBallot prevBallot : Ballot) : Bool := Cmp.eval logReplaceCmp (entryBallot.cmp prevBallot)
/-- acceptor_p2: is the p2b reply `Ok(())` -/
def p2bOk (ballot : Ballot) (maxBallot : Option Ballot) : Bool := Cmp.eval p2bOkCmp (cmpSomeOpt ballot maxBallot)

/-- the fold of `recommit_after_leader_election` over the entries reported for one slot:
    state `(count, Some(LogValue))`, values are `Nat` here -/
def recommitFold (acc : Nat × Option (Ballot × Nat)) (e : Ballot × Nat) : Nat × Option (Ballot × Nat) :=
  match acc.2 with
  | none => (1, some e)
  | some (cb, cv) =>
    let same := e.2 == cv
    let higher := Cmp.eval recommitHigherCmp (e.1.cmp cb)
    let count := if same then acc.1 + 1 else acc.1
    if higher then
      if !same then (1, some (e.1, e.2)) else (count, some (e.1, cv))
    else (count, some (cb, cv))

/-- value chosen for a slot from the reported entries, `none` when the slot is skipped (`count > f`) or empty -/
def recommitValue (f : Nat) (entries : List (Ballot × Nat)) : Option Nat :=
  match entries.foldl recommitFold (0, none) with
  | (_, none) => none
  | (count, some (_, v)) => if Cmp.eval recommitSkipCmp (compare count f) then none else some v

def showCmp : Cmp → String
  | .lt => "<" | .le => "<=" | .eq => "==" | .ge => ">=" | .gt => ">" | .ne => "!="

def parseBallot (s : String) : Option Ballot :=
  match s.splitOn "." with
  | [n, p] => do let n ← n.toNat?; let p ← p.toNat?; some ⟨n, p⟩
  | _ => none

def parseOptBallot (s : String) : Option (Option Ballot) :=
  if s == "-" then some none else (parseBallot s).map some

def showBool (b : Bool) : String := if b then "1" else "0"

/-- `paxos rules` | `paxos acc <ballot> <max|->` | `paxos put <entryBallot> <prevBallot>` |
    `paxos recommit <f> <n.p.v> ...` -/
def driverOp (ws : List String) : String :=
  match ws with
  | ["rules"] =>
    s!"p1bOk{showCmp p1bOkCmp} p2aLog{showCmp p2aLogCmp} logReplace{showCmp logReplaceCmp} " ++
    s!"p2bOk{showCmp p2bOkCmp} recommitHigher{showCmp recommitHigherCmp} recommitSkip{showCmp recommitSkipCmp} " ++
    s!"numFirst={showBool ballotOrderNumFirst} q1={p1Quorum 1}/{p1Participants 1} q2={p2Quorum 1}/{p2Participants 1}"
  | ["acc", b, m] =>
    match parseBallot b, parseOptBallot m with
    | some b, some m => s!"p1bOk={showBool (p1bOk b m)} log={showBool (p2aLoggable b m)} p2bOk={showBool (p2bOk b m)}"
    | _, _ => "bad-op"
  | ["put", e, p] =>
    match parseBallot e, parseBallot p with
    | some e, some p => s!"replace={showBool (logReplaces e p)}"
    | _, _ => "bad-op"
  | "recommit" :: f :: es =>
    match f.toNat?, es.mapM (fun s => match s.splitOn "." with
        | [n, p, v] => do let n ← n.toNat?; let p ← p.toNat?; let v ← v.toNat?; some ((⟨n, p⟩ : Ballot), v)
        | _ => none) with
    | some f, some es => match recommitValue f es with
      | some v => s!"value={v}"
      | none => "skip"
    | _, _ => "bad-op"
  | _ => "bad-op"

end HvProto.PaxosRules
