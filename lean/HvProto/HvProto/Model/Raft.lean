/-
  Executable model of `raft_step` (/repo/hydro_test/src/cluster/raft.rs, lines 443-802),
  transcribed phase by phase.  No imports (links into the native driver).

  `&mut state` becomes "returns the new state"; `HashSet<MemberId>` is a duplicate-free list,
  `HashMap<MemberId, usize>` an association list; members are `Nat` raw ids; payloads are `Nat`.
  The two `assert!`s of the Rust code are modelled by `none` (= the step panics).
-/
namespace HvProto.Raft

inductive Role where
  | follower | candidate | leader
deriving DecidableEq, Repr, Inhabited

/-- `LogEntry<T>` -/
structure Entry where
  msg : Nat
  term : Nat      -- `term_received`
  index : Nat     -- 1-based
deriving DecidableEq, Repr, Inhabited

/-- `RaftRpc<T, ClusterTag>` -/
inductive Rpc where
  | requestVote (term lastLogIndex lastLogTerm : Nat)
  | requestVoteResponse (term : Nat)
  | appendEntries (term leader prevLogIndex prevLogTerm : Nat) (entries : List Entry) (leaderCommit : Nat)
  | appendEntriesReply (term : Nat) (success : Bool) (matchIndex : Nat)
deriving DecidableEq, Repr, Inhabited

/-- `RaftServerState<T, ClusterTag>` -/
structure NodeState where
  term : Nat := 0
  votedFor : Option Nat := none
  role : Role := .follower
  votes : List Nat := []
  heartbeatSeen : Bool := false
  knownLeader : Option Nat := none
  log : List Entry := []
  commitIndex : Nat := 0
  emittedIndex : Nat := 0
  nextIndex : List (Nat × Nat) := []
  matchIndex : List (Nat × Nat) := []
deriving Repr, Inhabited

/-- `RaftStepOutput` (accumulated while the step runs) -/
structure Out where
  outbound : List (Nat × Rpc) := []          -- (target, message), in push order
  committed : List Entry := []
  redirected : List (Nat × Option Nat) := []  -- (payload, leader hint)
deriving Repr, Inhabited

/-! ### small container helpers -/

def mapGet (m : List (Nat × Nat)) (k : Nat) : Option Nat :=
  match m with
  | [] => none
  | (k', v) :: t => if k' = k then some v else mapGet t k

def mapSet (m : List (Nat × Nat)) (k v : Nat) : List (Nat × Nat) :=
  match m with
  | [] => [(k, v)]
  | (k', v') :: t => if k' = k then (k, v) :: t else (k', v') :: mapSet t k v

def setInsert (s : List Nat) (x : Nat) : List Nat :=
  if s.contains x then s else s ++ [x]

/-- `state.log[i - 1]` for a 1-based `i` (total: default entry when out of range; the Rust code panics there) -/
def entryAt (log : List Entry) (i : Nat) : Entry := log.getD (i - 1) default

/-- `last_log_position`: `(term, index)` of the last entry, `(0,0)` for an empty log -/
def lastLogPosition (log : List Entry) : Nat × Nat :=
  match log.getLast? with
  | none => (0, 0)
  | some e => (e.term, e.index)

/-- lexicographic `(a1, a2) >= (b1, b2)` on pairs of `usize` -/
def pairGe (a b : Nat × Nat) : Bool :=
  a.1 > b.1 || (a.1 == b.1 && a.2 >= b.2)

/-! ### helpers of `raft_step` -/

/-- ```
    if term > state.term { state.term = term; state.role = Follower; state.voted_for = None;
                           state.votes.clear(); state.known_leader = None; }
    term == state.term
    ``` -/
def observeTerm (st : NodeState) (term : Nat) : NodeState × Bool :=
  let st' := if term > st.term then
      { st with term := term, role := .follower, votedFor := none, votes := [], knownLeader := none }
    else st
  (st', term == st'.term)

/-- `become_leader` -/
def becomeLeader (st : NodeState) (others : List Nat) : NodeState :=
  { st with role := .leader, knownLeader := none,
            nextIndex := others.foldl (fun m f => mapSet m f (st.log.length + 1)) [],
            matchIndex := others.foldl (fun m f => mapSet m f 0) [] }

/-- `sort_key` -/
def sortKey : Rpc → Nat × Nat × Nat × Nat
  | .requestVote t lli llt => (0, t, llt, lli)
  | .requestVoteResponse t => (1, t, 0, 0)
  | .appendEntries t _ p _ es _ => (2, t, p, es.length)
  | .appendEntriesReply t s m => (3, t, m, if s then 1 else 0)

def key4Le (a b : Nat × Nat × Nat × Nat) : Bool :=
  a.1 < b.1 || (a.1 == b.1 && (a.2.1 < b.2.1 || (a.2.1 == b.2.1 &&
    (a.2.2.1 < b.2.2.1 || (a.2.2.1 == b.2.2.1 && a.2.2.2 <= b.2.2.2)))))

def key4Eq (a b : Nat × Nat × Nat × Nat) : Bool :=
  a.1 == b.1 && a.2.1 == b.2.1 && a.2.2.1 == b.2.2.1 && a.2.2.2 == b.2.2.2

/-- `sort_key(a).cmp(sort_key(b)).then_with(|| sender_a.cmp(sender_b))` as a `≤` test -/
def msgLe (a b : Nat × Rpc) : Bool :=
  let ka := sortKey a.2
  let kb := sortKey b.2
  if key4Eq ka kb then a.1 <= b.1 else key4Le ka kb

/-- stable insertion (Rust's `sort_by` is stable): insert after every element `≤ x` -/
def insertSorted (x : Nat × Rpc) : List (Nat × Rpc) → List (Nat × Rpc)
  | [] => [x]
  | y :: t => if msgLe y x then y :: insertSorted x t else x :: y :: t

def sortMsgs (ms : List (Nat × Rpc)) : List (Nat × Rpc) :=
  ms.foldl (fun acc x => insertSorted x acc) []

/-- the append loop of the `AppendEntries` arm; `none` = the truncation guard `assert!` fired -/
def appendEntriesLoop (log : List Entry) (commitIndex : Nat) : List Entry → Option (List Entry)
  | [] => some log
  | e :: es =>
    if log.length >= e.index then
      if (entryAt log e.index).term != e.term then
        if e.index > commitIndex then
          appendEntriesLoop ((log.take (e.index - 1)) ++ [e]) commitIndex es
        else none
      else appendEntriesLoop log commitIndex es
    else appendEntriesLoop (log ++ [e]) commitIndex es

/-! (a) the arms of `match message` for a message whose term is current (after `observe_term`);
    each returns the new state and the messages pushed to `outbound` -/

/-- `RaftRpc::RequestVote` arm (§5.4.1 up-to-date check + one vote per term) -/
def onRequestVote (st : NodeState) (sender lli llt : Nat) : NodeState × List (Nat × Rpc) :=
  let upToDate := pairGe (llt, lli) (lastLogPosition st.log)
  let canVote := st.votedFor.isNone || st.votedFor == some sender
  if upToDate && canVote then
    ({ st with votedFor := some sender }, [(sender, .requestVoteResponse st.term)])
  else (st, [])

/-- `RaftRpc::RequestVoteResponse` arm -/
def onVoteResponse (st : NodeState) (others : List Nat) (majority sender : Nat) : NodeState × List (Nat × Rpc) :=
  if st.role == .candidate then
    let st := { st with votes := setInsert st.votes sender }
    if st.votes.length >= majority then (becomeLeader st others, []) else (st, [])
  else (st, [])

/-- "A live leader exists for the current term: suppress the next election, depose our candidacy,
    learn the leader's identity." -/
def aeAccept (st : NodeState) (leader : Nat) : NodeState :=
  { st with heartbeatSeen := true,
            role := if st.role == .candidate then .follower else st.role,
            knownLeader := some leader }

/-- "Log-matching check (RAFT §5.3)" -/
def logMatches (log : List Entry) (prev prevTerm : Nat) : Bool :=
  prev == 0 || (log.length >= prev && (entryAt log prev).term == prevTerm)

/-- store the reconciled log and adopt `min(leader_commit, new_match)` if it is larger -/
def aeStore (st : NodeState) (log' : List Entry) (leaderCommit newMatch : Nat) : NodeState :=
  let commitCap := min leaderCommit newMatch
  { st with log := log',
            commitIndex := if commitCap > st.commitIndex then commitCap else st.commitIndex }

/-- `RaftRpc::AppendEntries` arm; `none` = one of the two `assert!`s fired -/
def onAppendEntries (st : NodeState) (sender leader prev prevTerm : Nat) (entries : List Entry)
    (leaderCommit : Nat) : Option (NodeState × List (Nat × Rpc)) :=
  -- assert!(state.role != RaftState::Leader, "protocol violation: two leaders share term")
  if st.role == .leader then none else
  if !(logMatches st.log prev prevTerm) then
    some (aeAccept st leader, [(sender, .appendEntriesReply st.term false 0)])
  else
    match appendEntriesLoop st.log st.commitIndex entries with
    | none => none
    | some log' =>
      some (aeStore (aeAccept st leader) log' leaderCommit (prev + entries.length),
            [(sender, .appendEntriesReply st.term true (prev + entries.length))])

/-- `RaftRpc::AppendEntriesReply` arm -/
def onAppendReply (st : NodeState) (sender : Nat) (success : Bool) (matchIdx : Nat) : NodeState × List (Nat × Rpc) :=
  if st.role != .leader then (st, []) else
  if success then
    let best := (mapGet st.matchIndex sender).getD 0
    let mi := mapSet st.matchIndex sender (if matchIdx > best then matchIdx else best)
    let next := (mapGet st.nextIndex sender).getD 1
    let ni := mapSet st.nextIndex sender (if matchIdx + 1 > next then matchIdx + 1 else next)
    ({ st with matchIndex := mi, nextIndex := ni }, [])
  else
    match mapGet st.nextIndex sender with
    | some next => ({ st with nextIndex := mapSet st.nextIndex sender (max (next - 1) 1) }, [])
    | none => (st, [])

/-- one iteration of `for (sender, message) in messages`: `observe_term`, then the arm.
    Returns the new state and the messages pushed to `outbound`; `none` = panic -/
def handleMsg (others : List Nat) (majority : Nat)
    (st : NodeState) (sender : Nat) (m : Rpc) : Option (NodeState × List (Nat × Rpc)) :=
  match m with
  | .requestVote term lli llt =>
    let (st, cur) := observeTerm st term
    if cur then some (onRequestVote st sender lli llt) else some (st, [])
  | .requestVoteResponse term =>
    let (st, cur) := observeTerm st term
    if cur then some (onVoteResponse st others majority sender) else some (st, [])
  | .appendEntries term leader prev prevTerm entries leaderCommit =>
    let (st, cur) := observeTerm st term
    if cur then onAppendEntries st sender leader prev prevTerm entries leaderCommit
    else some (st, [(sender, .appendEntriesReply st.term false 0)])
  | .appendEntriesReply term success matchIdx =>
    let (st, cur) := observeTerm st term
    if cur then some (onAppendReply st sender success matchIdx) else some (st, [])

def handleMsgs (others : List Nat) (majority : Nat)
    (st : NodeState) (acc : List (Nat × Rpc)) : List (Nat × Rpc) → Option (NodeState × List (Nat × Rpc))
  | [] => some (st, acc)
  | (s, m) :: t =>
    match handleMsg others majority st s m with
    | none => none
    | some (st', new) => handleMsgs others majority st' (acc ++ new) t

/-- (b) client requests: returns the new state and the `redirected` pairs -/
def handleRequests (st : NodeState) (red : List (Nat × Option Nat)) : List Nat → NodeState × List (Nat × Option Nat)
  | [] => (st, red)
  | r :: rs =>
    if st.role == .leader then
      let e : Entry := { msg := r, term := st.term, index := st.log.length + 1 }
      handleRequests { st with log := st.log ++ [e] } red rs
    else
      handleRequests st (red ++ [(r, st.knownLeader)]) rs

/-- (c) election timer interrupt: new state and the `RequestVote`s pushed -/
def electionTimer (me : Nat) (others : List Nat) (majority : Nat) (fired : Bool)
    (st : NodeState) : NodeState × List (Nat × Rpc) :=
  if fired && st.role != .leader then
    if st.heartbeatSeen then ({ st with heartbeatSeen := false }, [])
    else
      let st := { st with term := st.term + 1, role := .candidate, votedFor := some me,
                          votes := [me], knownLeader := none }
      if st.votes.length >= majority then (becomeLeader st others, [])
      else
        let (llt, lli) := lastLogPosition st.log
        (st, others.map (fun t => (t, Rpc.requestVote st.term lli llt)))
  else (st, [])

/-- (d) the `while candidate > state.commit_index` loop (fuel = `candidate`) -/
def advanceLoop (st : NodeState) (others : List Nat) (majority : Nat) : Nat → Nat
  | 0 => st.commitIndex
  | c + 1 =>
    if c + 1 > st.commitIndex then
      if (entryAt st.log (c + 1)).term == st.term then
        let acks := 1 + (others.filter (fun m => match mapGet st.matchIndex m with
                                                  | some mi => mi >= c + 1 | none => false)).length
        if acks >= majority then c + 1 else advanceLoop st others majority c
      else advanceLoop st others majority c
    else st.commitIndex

def advanceCommit (others : List Nat) (majority : Nat) (st : NodeState) : NodeState :=
  if st.role == .leader then { st with commitIndex := advanceLoop st others majority st.log.length }
  else st

/-- (e) heartbeat timer interrupt: the `AppendEntries` pushed -/
def heartbeat (me : Nat) (others : List Nat) (fired : Bool) (st : NodeState) : List (Nat × Rpc) :=
  if fired && st.role == .leader then
    others.map (fun f =>
        let next := (mapGet st.nextIndex f).getD (st.log.length + 1)
        let prev := next - 1
        let prevTerm := if prev == 0 then 0 else (entryAt st.log prev).term
        (f, Rpc.appendEntries st.term me prev prevTerm (st.log.drop prev) st.commitIndex))
  else []

/-- (f) emit newly committed entries (fuel = number of entries to emit) -/
def emitLoop (st : NodeState) (acc : List Entry) : Nat → NodeState × List Entry
  | 0 => (st, acc)
  | n + 1 =>
    if st.emittedIndex < st.commitIndex then
      let st := { st with emittedIndex := st.emittedIndex + 1 }
      emitLoop st (acc ++ [entryAt st.log st.emittedIndex]) n
    else (st, acc)

def emit (st : NodeState) : NodeState × List Entry :=
  emitLoop st [] (st.commitIndex - st.emittedIndex)

/-- the `LeaderView` of a state -/
def viewOf (me : Nat) (st : NodeState) : Nat × Option Nat :=
  (st.term, if st.role == .leader then some me else st.knownLeader)

structure StepInput where
  me : Nat
  others : List Nat
  clusterSize : Nat
  electionFired : Bool
  heartbeatFired : Bool
  requests : List Nat
  messages : List (Nat × Rpc)
deriving Repr, Inhabited

structure StepResult where
  st : NodeState
  out : Out
  view : Option (Nat × Option Nat)
deriving Repr, Inhabited

/-- `let majority = cluster_size / 2 + 1;` -/
def majority (n : Nat) : Nat := n / 2 + 1

/-- `raft_step`; `none` = one of the protocol-violation `assert!`s fired -/
def raftStep (st : NodeState) (inp : StepInput) : Option StepResult :=
  let majority := majority inp.clusterSize
  let oldView := viewOf inp.me st
  match handleMsgs inp.others majority st [] (sortMsgs inp.messages) with
  | none => none
  | some (st, out1) =>
    let (st, red) := handleRequests st [] inp.requests
    let (st, out2) := electionTimer inp.me inp.others majority inp.electionFired st
    let st := advanceCommit inp.others majority st
    let out3 := heartbeat inp.me inp.others inp.heartbeatFired st
    let (st, com) := emit st
    let newView := viewOf inp.me st
    some { st := st, out := { outbound := out1 ++ out2 ++ out3, committed := com, redirected := red },
           view := if newView != oldView then some newView else none }

end HvProto.Raft
