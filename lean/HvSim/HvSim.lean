import HvSim.Model.Sim
import HvSim.Model.Enum
