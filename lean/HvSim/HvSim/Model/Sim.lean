/-
Model of the Hydro simulator's release hooks (`hydro_lang/src/sim/runtime.rs`) and of the
scheduler's hook resolution (`run_hooks`, `hook_can_release`, `SimTick::can_run`,
`SimObservation::can_run` in `hydro_lang/src/sim/compiled.rs`).

Conventions
* The bolero driver is a choice tape `List Nat`; every `generate(driver)` call of the code consumes
  exactly one entry, in the order the code makes the calls, and maps it into the requested range
  (`lo + x % (hi - lo + 1)`; an exhausted tape answers `0`).  An empty range answers `None`, which the
  code `unwrap`s: the model answers `none` (= the real code panics).  Each call is logged.
* A `VecDeque` is a `List` (front = head).  An `FxHashMap<K, VecDeque<V>>` is an association list in
  the map's *iteration order*; that order is an explicit input (the theorems hold for every order).
* `none` always means "the real code panics here".
No imports: this file is linked into the native driver.
-/
namespace HvSim

/-! ## the driver (choice tape) -/

inductive Call where
  | u (lo hi v : Nat)
  | b (v : Bool)
  deriving Repr, DecidableEq

structure Drv where
  tape : List Nat
  log : List Call := []   -- most recent call first
  deriving Repr, DecidableEq

/-- `(lo..=hi).generate(driver)` -/
def Drv.nat (d : Drv) (lo hi : Nat) : Option (Nat × Drv) :=
  if hi < lo then none
  else
    let v := lo + d.tape.headD 0 % (hi - lo + 1)
    some (v, ⟨d.tape.tail, .u lo hi v :: d.log⟩)

/-- `(lo..hi).generate(driver)` (exclusive upper bound) -/
def Drv.natEx (d : Drv) (lo hi : Nat) : Option (Nat × Drv) :=
  if hi ≤ lo then none else d.nat lo (hi - 1)

/-- `produce::<bool>().generate(driver)` -/
def Drv.bool (d : Drv) : Bool × Drv :=
  let v := d.tape.headD 0 % 2 == 1
  (v, ⟨d.tape.tail, .b v :: d.log⟩)

/-- a short-circuited `cond && produce::<bool>().generate(driver).unwrap()`: the boolean is drawn
only when `draw` holds -/
def Drv.boolIf (d : Drv) (draw : Bool) : Bool × Drv := if draw then d.bool else (false, d)

/-! ## StreamHook<T, TotalOrder> -/

/-- `autonomous_decision`: returns (to_release, new input queue, nontrivial, driver) -/
def streamTotalAuto {α} (q : List α) (d : Drv) (force : Bool) : Option (List α × List α × Bool × Drv) :=
  match d.nat (if force then 1 else 0) q.length with
  | none => none
  | some (count, d') => some (q.take count, q.drop count, decide (0 < count), d')

/-! ## StreamHook<T, NoOrder> -/

/-- the `while !current_input.is_empty()` loop; `fuel` is the queue length (one item leaves per round) -/
def streamNoLoop {α} : Nat → Bool → List α → List α → Nat → Drv → Option (List α × List α × Drv)
  | 0, _, q, out, _, d => some (out, q, d)
  | fuel + 1, force, q, out, minIndex, d =>
    if q.isEmpty then some (out, q, d)
    else
      let mustRelease := force && out.isEmpty
      let (stop, d1) := d.boolIf (!mustRelease)
      if stop then some (out, q, d1)
      else
        match d1.natEx minIndex q.length with
        | none => none
        | some (idx, d2) =>
          match q[idx]? with
          | none => none
          | some item =>
            let q' := q.eraseIdx idx
            let out' := out ++ [item]
            if idx == q'.length then some (out', q', d2)
            else streamNoLoop fuel force q' out' idx d2

def streamNoAuto {α} (q : List α) (d : Drv) (force : Bool) : Option (List α × List α × Bool × Drv) :=
  match streamNoLoop q.length force q [] 0 d with
  | none => none
  | some (out, q', d') => some (out, q', !out.isEmpty, d')

/-! ## keyed inputs -/

abbrev KMap (κ α : Type) := List (κ × List α)

def nonemptyKeyCount {κ α} (m : KMap κ α) : Nat := (m.filter (fun e => !e.2.isEmpty)).length

def kmapAllEmpty {κ α} (m : KMap κ α) : Bool := m.all (fun e => e.2.isEmpty)

/-! ## KeyedStreamHook<K, V, TotalOrder> -/

/-- the `for (key, queue) in current_input.iter_mut()` loop: returns (released, new map, driver) -/
def keyedTotalLoop {κ α} : KMap κ α → Nat → Bool → Drv → Option (List (κ × α) × KMap κ α × Drv)
  | [], _, _, d => some ([], [], d)
  | (k, q) :: rest, remaining, force, d =>
    if q.isEmpty then
      match keyedTotalLoop rest remaining force d with
      | none => none
      | some (rel, m', d') => some (rel, (k, q) :: m', d')
    else
      let remaining := remaining - 1
      match d.nat (if force && remaining == 0 then 1 else 0) q.length with
      | none => none
      | some (count, d1) =>
        let force' := if 0 < count then false else force
        match keyedTotalLoop rest remaining force' d1 with
        | none => none
        | some (rel, m', d') => some ((q.take count).map (fun v => (k, v)) ++ rel, (k, q.drop count) :: m', d')

def keyedTotalAuto {κ α} (m : KMap κ α) (d : Drv) (force : Bool) :
    Option (List (κ × α) × KMap κ α × Bool × Drv) :=
  match keyedTotalLoop m (nonemptyKeyCount m) force d with
  | none => none
  | some (rel, m', d') => some (rel, m', !rel.isEmpty, d')

/-! ## KeyedStreamHook<K, V, NoOrder> -/

/-- inner `while !queue.is_empty()` loop for one key; returns (released values, queue, force, driver) -/
def keyedNoInner {α} : Nat → Bool → Nat → List α → List α → Nat → Drv → Option (List α × List α × Bool × Drv)
  | 0, force, _, q, out, _, d => some (out, q, force, d)
  | fuel + 1, force, remaining, q, out, minIndex, d =>
    if q.isEmpty then some (out, q, force, d)
    else
      let mustRelease := force && remaining == 0
      let (stop, d1) := d.boolIf (!mustRelease)
      if stop then some (out, q, force, d1)
      else
        match d1.natEx minIndex q.length with
        | none => none
        | some (idx, d2) =>
          match q[idx]? with
          | none => none
          | some item =>
            let q' := q.eraseIdx idx
            let out' := out ++ [item]
            if idx == q'.length then some (out', q', false, d2)
            else keyedNoInner fuel false remaining q' out' idx d2

def keyedNoLoop {κ α} : KMap κ α → Nat → Bool → Drv → Option (List (κ × α) × KMap κ α × Drv)
  | [], _, _, d => some ([], [], d)
  | (k, q) :: rest, remaining, force, d =>
    if q.isEmpty then
      match keyedNoLoop rest remaining force d with
      | none => none
      | some (rel, m', d') => some (rel, (k, q) :: m', d')
    else
      let remaining := remaining - 1
      match keyedNoInner q.length force remaining q [] 0 d with
      | none => none
      | some (out, q', force', d1) =>
        match keyedNoLoop rest remaining force' d1 with
        | none => none
        | some (rel, m', d') => some (out.map (fun v => (k, v)) ++ rel, (k, q') :: m', d')

def keyedNoAuto {κ α} (m : KMap κ α) (d : Drv) (force : Bool) :
    Option (List (κ × α) × KMap κ α × Bool × Drv) :=
  match keyedNoLoop m (nonemptyKeyCount m) force d with
  | none => none
  | some (rel, m', d') => some (rel, m', !rel.isEmpty, d')

/-! ## SingletonHook<T> -/

structure SingSt (α : Type) where
  q : List α
  rel : Option (α × Bool) := none
  last : Option α := none
  skipped : List α := []
  deriving Repr, DecidableEq

def singletonAuto {α} (s : SingSt α) (d : Drv) (force : Bool) : Option (Bool × SingSt α × Drv) :=
  if s.q.isEmpty then
    if force then none
    else match s.last with
      | some l => some (false, { s with rel := some (l, false) }, d)
      | none => none
  else
    -- `!force_nontrivial && let Some(last) = &self.last_released && produce().generate(driver).unwrap()`
    let (rerelease, d1) := d.boolIf (!force && s.last.isSome)
    if rerelease then
      match s.last with
      | some l => some (false, { s with rel := some (l, false) }, d1)
      | none => none
    else
      match d1.natEx 0 s.q.length with
      | none => none
      | some (idx, d2) =>
        match s.q.drop idx with
        | [] => none
        | item :: rest =>
          some (true, { q := rest, rel := some (item, true), last := s.last, skipped := s.q.take idx }, d2)

/-- `release_decision`: returns (state, item sent on the output channel) -/
def singletonRelease {α} (s : SingSt α) : Option (SingSt α × α) :=
  match s.rel with
  | none => none
  | some (x, _) => some ({ s with rel := none, last := some x }, x)

/-! ## PassthroughSingletonHook<T> -/

/-- `autonomous_decision` (after the F36 fix: the hook keeps `last_released` like `SingletonHook` and
re-releases it unchanged when the fold produced nothing new); no driver call is made.
Returns (nontrivial, queue, to_release = (data, is new)) -/
def passthroughAuto {α} (q : List α) (last : Option α) (force : Bool) : Option (Bool × List α × (α × Bool)) :=
  match q.getLast? with
  | some item => some (true, [], (item, true))
  | none =>
    if force then none   -- panic!("Cannot make nontrivial decision when there is no input")
    else match last with
      | some l => some (false, q, (l, false))
      | none => none     -- panic!("No input and no last released item to re-release")

/-! ## KeyedSingletonHook<K, V> -/

def lookup {κ α} [DecidableEq κ] (k : κ) : List (κ × α) → Option α
  | [] => none
  | (k', v) :: r => if k' = k then some v else lookup k r

def insertKV {κ α} [DecidableEq κ] (k : κ) (v : α) : List (κ × α) → List (κ × α)
  | [] => [(k, v)]
  | (k', v') :: r => if k' = k then (k, v) :: r else (k', v') :: insertKV k v r

/-- the `for (key, queue)` loop: returns (to_release, map, last_released, any_nontrivial, driver) -/
def keyedSingLoop {κ α} [DecidableEq κ] :
    KMap κ α → Nat → Bool → List (κ × α) → Drv →
    Option (List (κ × α × Bool) × KMap κ α × List (κ × α) × Bool × Drv)
  | [], _, _, last, d => some ([], [], last, false, d)
  | (k, q) :: rest, remaining, force, last, d =>
    if q.isEmpty then
      match lookup k last with
      | none => none
      | some l =>
        match keyedSingLoop rest remaining force last d with
        | none => none
        | some (rel, m', last', nt, d') => some ((k, l, false) :: rel, (k, q) :: m', last', nt, d')
    else
      let remaining := remaining - 1
      let doNontrivial := force && remaining == 0
      let (rerelease, d1) := d.boolIf (!doNontrivial && (lookup k last).isSome)
      if rerelease then
        match lookup k last with
        | none => none
        | some l =>
          match keyedSingLoop rest remaining force last d1 with
          | none => none
          | some (rel, m', last', nt, d') => some ((k, l, false) :: rel, (k, q) :: m', last', nt, d')
      else
        let allowNull := !doNontrivial && (lookup k last).isNone
        let (nullRelease, d2) := d1.boolIf allowNull
        if nullRelease then
          match keyedSingLoop rest remaining force last d2 with
          | none => none
          | some (rel, m', last', nt, d') => some (rel, (k, q) :: m', last', nt, d')
        else
          match d2.natEx 0 q.length with
          | none => none
          | some (idx, d3) =>
            match q.drop idx with
            | [] => none
            | item :: qrest =>
              match keyedSingLoop rest remaining false (insertKV k item last) d3 with
              | none => none
              | some (rel, m', last', _, d') => some ((k, item, true) :: rel, (k, qrest) :: m', last', true, d')

/-! ## TopLevelStreamOrderHook<T> -/

def tlOrderAuto {α} (q : List α) (d : Drv) (force : Bool) : Option (List α × List α × Bool × Drv) :=
  if q.isEmpty then some ([], q, false, d)
  else
    let (skip, d1) := d.boolIf (!force)
    if skip then some ([], q, false, d1)
    else
      match d1.natEx 0 q.length with
      | none => none
      | some (idx, d2) =>
        match q[idx]? with
        | none => none
        | some item => some ([item], q.eraseIdx idx, true, d2)

/-! ## TopLevelFoldHook<T> -/

/-- subset selection `for (i, item) in current_input.drain(..).enumerate()` -/
def foldSelect {α} : List α → List α → List α → Drv → List α × List α × Drv
  | [], sel, rem, d => (sel, rem, d)
  | [x], sel, rem, d =>
    if sel.isEmpty then (sel ++ [x], rem, d)
    else
      let (inc, d1) := d.bool
      if inc then (sel ++ [x], rem, d1) else (sel, rem ++ [x], d1)
  | x :: y :: r, sel, rem, d =>
    let (inc, d1) := d.bool
    if inc then foldSelect (y :: r) (sel ++ [x]) rem d1 else foldSelect (y :: r) sel (rem ++ [x]) d1

def swapAt {α} (l : List α) (i j : Nat) : List α :=
  match l[i]?, l[j]? with
  | some a, some b => (l.set i b).set j a
  | _, _ => l

/-- Fisher–Yates `for i in (1..slen).rev() { j = (0..=i); swap(i, j) }`; called with `n = slen - 1` -/
def fisherYates {α} : Nat → List α → Drv → Option (List α × Drv)
  | 0, l, d => some (l, d)
  | i + 1, l, d =>
    match d.nat 0 (i + 1) with
    | none => none
    | some (j, d1) => fisherYates i (swapAt l (i + 1) j) d1

def tlFoldAuto {α} (q : List α) (d : Drv) (force : Bool) : Option (List α × List α × Bool × Drv) :=
  if q.isEmpty then
    if force then none else some ([], q, false, d)
  else
    let (sel, rem, d1) := foldSelect q [] [] d
    match fisherYates (sel.length - 1) sel d1 with
    | none => none
    | some (sel', d2) => some (sel', rem, true, d2)

/-! ## TopLevelKeyedStreamOrderHook / TopLevelPartiallyOrderedStreamHook -/

def nonemptyKeys {κ α} (m : KMap κ α) : List (κ × Nat) :=
  (m.filter (fun e => !e.2.isEmpty)).map (fun e => (e.1, e.2.length))

/-- `current_input.get_mut(key).unwrap().remove(idx).unwrap()` on the first entry with that key -/
def removeAt {κ α} [DecidableEq κ] (k : κ) (idx : Nat) : KMap κ α → Option (α × KMap κ α)
  | [] => none
  | (k', q) :: r =>
    if k' = k then
      match q[idx]? with
      | none => none
      | some item => some (item, (k', q.eraseIdx idx) :: r)
    else
      match removeAt k idx r with
      | none => none
      | some (item, r') => some (item, (k', q) :: r')

def tlKeyedOrderAuto {κ α} [DecidableEq κ] (m : KMap κ α) (d : Drv) (force : Bool) :
    Option (List (κ × α) × KMap κ α × Bool × Drv) :=
  let ks := nonemptyKeys m
  if ks.isEmpty then some ([], m, false, d)
  else
    let (skip, d1) := d.boolIf (!force)
    if skip then some ([], m, false, d1)
    else
      match d1.natEx 0 ks.length with
      | none => none
      | some (keyIdx, d2) =>
        match ks[keyIdx]? with
        | none => none
        | some (key, qlen) =>
          match d2.natEx 0 qlen with
          | none => none
          | some (itemIdx, d3) =>
            match removeAt key itemIdx m with
            | none => none
            | some (item, m') => some ([(key, item)], m', true, d3)

def tlPartialAuto {κ α} [DecidableEq κ] (m : KMap κ α) (d : Drv) (force : Bool) :
    Option (List (κ × α) × KMap κ α × Bool × Drv) :=
  let ks := nonemptyKeys m
  if ks.isEmpty then some ([], m, false, d)
  else
    let (skip, d1) := d.boolIf (!force)
    if skip then some ([], m, false, d1)
    else
      match d1.natEx 0 ks.length with
      | none => none
      | some (keyIdx, d2) =>
        match ks[keyIdx]? with
        | none => none
        | some (key, _) =>
          match removeAt key 0 m with
          | none => none
          | some (item, m') => some ([(key, item)], m', true, d2)

/-! ## TopLevelMergeOrderedHook<T> -/

/-- returns (to_release, first, second, nontrivial, driver) -/
def tlMergeAuto {α} (q1 q2 : List α) (d : Drv) (force : Bool) :
    Option (List α × List α × List α × Bool × Drv) :=
  if q1.isEmpty && q2.isEmpty then some ([], q1, q2, false, d)
  else
    let (skip, d1) := d.boolIf (!force)
    if skip then some ([], q1, q2, false, d1)
    else
      match q1, q2 with
      | [], [] => none
      | [], y :: r2 => some ([y], [], r2, true, d1)
      | x :: r1, [] => some ([x], r1, [], true, d1)
      | x :: r1, y :: r2 =>
        let (takeSecond, d2) := d1.bool
        if takeSecond then some ([y], x :: r1, r2, true, d2) else some ([x], r1, y :: r2, true, d2)

/-! ## TopLevelKeyedMergeOrderedHook<K, V> -/

def candidates {κ α} (m1 m2 : KMap κ α) : List (Bool × κ) :=
  (m1.filter (fun e => !e.2.isEmpty)).map (fun e => (false, e.1)) ++
  (m2.filter (fun e => !e.2.isEmpty)).map (fun e => (true, e.1))

def tlKeyedMergeAuto {κ α} [DecidableEq κ] (m1 m2 : KMap κ α) (d : Drv) (force : Bool) :
    Option (List (κ × α) × KMap κ α × KMap κ α × Bool × Drv) :=
  let cs := candidates m1 m2
  if cs.isEmpty then some ([], m1, m2, false, d)
  else
    let (skip, d1) := d.boolIf (!force)
    if skip then some ([], m1, m2, false, d1)
    else
      match d1.natEx 0 cs.length with
      | none => none
      | some (idx, d2) =>
        match cs[idx]? with
        | none => none
        | some (takeSecond, key) =>
          if takeSecond then
            match removeAt key 0 m2 with
            | none => none
            | some (item, m2') => some ([(key, item)], m1, m2', true, d2)
          else
            match removeAt key 0 m1 with
            | none => none
            | some (item, m1') => some ([(key, item)], m1', m2, true, d2)

/-! ## the `SimHook` trait over all hook kinds -/

/-- a message on a hook's output channel -/
inductive Msg (κ α : Type) where
  | item (a : α)
  | kv (k : κ) (a : α)
  | batch (l : List α)
  deriving Repr, DecidableEq

inductive Hook (κ α : Type) where
  | streamTotal (q : List α) (rel : Option (List α))
  | streamNo (q : List α) (rel : Option (List α))
  | keyedTotal (m : KMap κ α) (rel : Option (List (κ × α)))
  | keyedNo (m : KMap κ α) (rel : Option (List (κ × α)))
  | singleton (s : SingSt α)
  | passthrough (q : List α) (rel : Option (α × Bool)) (last : Option α)
  | keyedSingleton (m : KMap κ α) (rel : Option (List (κ × α × Bool))) (last : List (κ × α))
  | tlOrder (q : List α) (rel : Option (List α))
  | tlFold (q : List α) (rel : Option (List α))
  | tlKeyedOrder (m : KMap κ α) (rel : Option (List (κ × α)))
  | tlPartial (m : KMap κ α) (rel : Option (List (κ × α)))
  | tlMerge (q1 q2 : List α) (rel : Option (List α))
  | tlKeyedMerge (m1 m2 : KMap κ α) (rel : Option (List (κ × α)))
  deriving Repr, DecidableEq

variable {κ α : Type}

def relNonempty {β} (r : Option (List β)) : Option Bool := r.map (fun v => !v.isEmpty)

/-- `current_decision` -/
def Hook.cur : Hook κ α → Option Bool
  | .streamTotal _ r => relNonempty r
  | .streamNo _ r => relNonempty r
  | .keyedTotal _ r => relNonempty r
  | .keyedNo _ r => relNonempty r
  | .singleton s => s.rel.map (fun t => t.2)
  | .passthrough _ r _ => r.map (fun t => t.2)
  | .keyedSingleton _ r _ => r.map (fun v => v.any (fun t => t.2.2))
  | .tlOrder _ r => relNonempty r
  | .tlFold _ r => relNonempty r
  | .tlKeyedOrder _ r => relNonempty r
  | .tlPartial _ r => relNonempty r
  | .tlMerge _ _ r => relNonempty r
  | .tlKeyedMerge _ _ r => relNonempty r

/-- `can_make_nontrivial_decision` -/
def Hook.canNT : Hook κ α → Bool
  | .streamTotal q _ => !q.isEmpty
  | .streamNo q _ => !q.isEmpty
  | .keyedTotal m _ => !kmapAllEmpty m
  | .keyedNo m _ => !kmapAllEmpty m
  | .singleton s => !s.q.isEmpty
  | .passthrough q _ _ => !q.isEmpty
  | .keyedSingleton m _ _ => !kmapAllEmpty m
  | .tlOrder q _ => !q.isEmpty
  | .tlFold q _ => !q.isEmpty
  | .tlKeyedOrder m _ => !kmapAllEmpty m
  | .tlPartial m _ => !kmapAllEmpty m
  | .tlMerge q1 q2 _ => !q1.isEmpty || !q2.isEmpty
  | .tlKeyedMerge m1 m2 _ => !kmapAllEmpty m1 || !kmapAllEmpty m2

/-- `is_ready` (default `true`; overridden by `SingletonHook` and `PassthroughSingletonHook`) -/
def Hook.ready : Hook κ α → Bool
  | .singleton s => !s.q.isEmpty || s.last.isSome
  | .passthrough q _ last => !q.isEmpty || last.isSome
  | _ => true

/-- `autonomous_decision(driver, force_nontrivial)` -/
def Hook.auto [DecidableEq κ] (h : Hook κ α) (d : Drv) (force : Bool) : Option (Bool × Hook κ α × Drv) :=
  match h with
  | .streamTotal q _ => (streamTotalAuto q d force).map fun (r, q', nt, d') => (nt, .streamTotal q' (some r), d')
  | .streamNo q _ => (streamNoAuto q d force).map fun (r, q', nt, d') => (nt, .streamNo q' (some r), d')
  | .keyedTotal m _ => (keyedTotalAuto m d force).map fun (r, m', nt, d') => (nt, .keyedTotal m' (some r), d')
  | .keyedNo m _ => (keyedNoAuto m d force).map fun (r, m', nt, d') => (nt, .keyedNo m' (some r), d')
  | .singleton s => (singletonAuto s d force).map fun (nt, s', d') => (nt, .singleton s', d')
  | .passthrough q _ last =>
    (passthroughAuto q last force).map fun (nt, q', r') => (nt, .passthrough q' (some r') last, d)
  | .keyedSingleton m _ last =>
    (keyedSingLoop m (nonemptyKeyCount m) force last d).map fun (r, m', last', nt, d') =>
      (nt, .keyedSingleton m' (some r) last', d')
  | .tlOrder q _ => (tlOrderAuto q d force).map fun (r, q', nt, d') => (nt, .tlOrder q' (some r), d')
  | .tlFold q _ => (tlFoldAuto q d force).map fun (r, q', nt, d') => (nt, .tlFold q' (some r), d')
  | .tlKeyedOrder m _ => (tlKeyedOrderAuto m d force).map fun (r, m', nt, d') => (nt, .tlKeyedOrder m' (some r), d')
  | .tlPartial m _ => (tlPartialAuto m d force).map fun (r, m', nt, d') => (nt, .tlPartial m' (some r), d')
  | .tlMerge q1 q2 _ =>
    (tlMergeAuto q1 q2 d force).map fun (r, q1', q2', nt, d') => (nt, .tlMerge q1' q2' (some r), d')
  | .tlKeyedMerge m1 m2 _ =>
    (tlKeyedMergeAuto m1 m2 d force).map fun (r, m1', m2', nt, d') => (nt, .tlKeyedMerge m1' m2' (some r), d')

/-- `release_decision`: `none` = `panic!("No decision to release")` -/
def Hook.release (h : Hook κ α) : Option (Hook κ α × List (Msg κ α)) :=
  match h with
  | .streamTotal q r => r.map fun v => (.streamTotal q none, v.map .item)
  | .streamNo q r => r.map fun v => (.streamNo q none, v.map .item)
  | .keyedTotal m r => r.map fun v => (.keyedTotal m none, v.map fun e => .kv e.1 e.2)
  | .keyedNo m r => r.map fun v => (.keyedNo m none, v.map fun e => .kv e.1 e.2)
  | .singleton s => (singletonRelease s).map fun (s', x) => (.singleton s', [.item x])
  | .passthrough q r _ => r.map fun x => (.passthrough q none (some x.1), [.item x.1])
  | .keyedSingleton m r last => r.map fun v => (.keyedSingleton m none last, v.map fun e => .kv e.1 e.2.1)
  | .tlOrder q r => r.map fun v => (.tlOrder q none, v.map .item)
  | .tlFold q r => r.map fun v => (.tlFold q none, [.batch v])
  | .tlKeyedOrder m r => r.map fun v => (.tlKeyedOrder m none, v.map fun e => .kv e.1 e.2)
  | .tlPartial m r => r.map fun v => (.tlPartial m none, v.map fun e => .kv e.1 e.2)
  | .tlMerge q1 q2 r => r.map fun v => (.tlMerge q1 q2 none, v.map .item)
  | .tlKeyedMerge m1 m2 r => r.map fun v => (.tlKeyedMerge m1 m2 none, v.map fun e => .kv e.1 e.2)

/-! ## scheduler: `hook_can_release`, `can_run`, `run_hooks` -/

/-- `hook.current_decision().unwrap_or(false) || hook.can_make_nontrivial_decision()` -/
def hookCanRelease (h : Hook κ α) : Bool := h.cur.getD false || h.canNT

/-- `SimTick::can_run` -/
def tickCanRun (hs : List (Hook κ α)) : Bool := hs.all Hook.ready && hs.any hookCanRelease

/-- `SimObservation::can_run` -/
def obsCanRun (h : Hook κ α) : Bool := hookCanRelease h

/-- first pass of `run_hooks`: returns (hooks, made_nontrivial_decision, remaining_decision_count, driver) -/
def runPass1 [DecidableEq κ] : List (Hook κ α) → Bool → Nat → Drv → Option (List (Hook κ α) × Bool × Nat × Drv)
  | [], made, remaining, d => some ([], made, remaining, d)
  | h :: rest, made, remaining, d =>
    match h.cur with
    | some nt =>
      match runPass1 rest (made || nt) (remaining - 1) d with
      | none => none
      | some (hs, made', rem', d') => some (h :: hs, made', rem', d')
    | none =>
      if !h.canNT then
        match h.auto d false with
        | none => none
        | some (_, h', d1) =>
          match runPass1 rest made (remaining - 1) d1 with
          | none => none
          | some (hs, made', rem', d') => some (h' :: hs, made', rem', d')
      else
        match runPass1 rest made remaining d with
        | none => none
        | some (hs, made', rem', d') => some (h :: hs, made', rem', d')

/-- second pass: returns (hooks, per-hook output messages, made_nontrivial_decision, driver).
`remaining_decision_count -= 1` on `usize` 0 is a panic (overflow checks) -/
def runPass2 [DecidableEq κ] : List (Hook κ α) → Bool → Nat → Drv →
    Option (List (Hook κ α) × List (List (Msg κ α)) × Bool × Drv)
  | [], made, _, d => some ([], [], made, d)
  | h :: rest, made, remaining, d =>
    let step : Option (Hook κ α × Bool × Nat × Drv) :=
      match h.cur with
      | none =>
        match h.auto d (!made && remaining == 1) with
        | none => none
        | some (nt, h', d1) => if remaining == 0 then none else some (h', made || nt, remaining - 1, d1)
      | some _ => some (h, made, remaining, d)
    match step with
    | none => none
    | some (h1, made1, rem1, d1) =>
      match h1.release with
      | none => none
      | some (h2, out) =>
        match runPass2 rest made1 rem1 d1 with
        | none => none
        | some (hs, outs, made', d') => some (h2 :: hs, out :: outs, made', d')

/-- `run_hooks` -/
def runHooks [DecidableEq κ] (hs : List (Hook κ α)) (d : Drv) :
    Option (List (Hook κ α) × List (List (Msg κ α)) × Bool × Drv) :=
  match runPass1 hs false hs.length d with
  | none => none
  | some (hs1, made, remaining, d1) => runPass2 hs1 made remaining d1

end HvSim
