/-
`run_hooks` (hydro_lang/src/sim/compiled.rs) with the trace of the calls it makes on the hooks:
which hook's `autonomous_decision` is called, in which order, with which `force_nontrivial`
argument and what it returned, and which hook's `release_decision` is called.

`runPass1T` / `runPass2T` / `runHooksT` are `runPass1` / `runPass2` / `runHooks` of `Model/Sim.lean`
line by line, plus the trace (`Props/C37.lean: runHooksT_erases_to_runHooks` proves that forgetting
the trace gives back `runHooks`).  The harness observes the same trace on the real `run_hooks` through
hooks wrapped in a recording `SimHook`, so the forcing flag of every call is diffed tape by tape.

The accumulation of the second pass is `made_nontrivial_decision |= hook.autonomous_decision(..)`
(`made || nt` below): a non-trivial decision of *any* earlier hook switches the forcing off for the
rest of the tick, not only the decision of the hook visited immediately before.
No imports outside the model: this file is linked into the native driver.
-/
import HvSim.Model.Sim
namespace HvSim

/-- one call `run_hooks` makes on the hook at index `i` of its slice -/
inductive Ev where
  /-- `hooks[i].autonomous_decision(driver, force)` returned `nt` -/
  | auto (i : Nat) (force nt : Bool)
  /-- `hooks[i].release_decision(..)` -/
  | rel (i : Nat)
  deriving Repr, DecidableEq

variable {κ α : Type}

/-- first pass (`runPass1`) with its trace; `i` = index of the head of the list in the slice -/
def runPass1T [DecidableEq κ] : List (Hook κ α) → Nat → Bool → Nat → Drv →
    Option (List (Hook κ α) × Bool × Nat × Drv × List Ev)
  | [], _, made, remaining, d => some ([], made, remaining, d, [])
  | h :: rest, i, made, remaining, d =>
    match h.cur with
    | some nt =>
      -- made_nontrivial_decision |= is_nontrivial; remaining_decision_count -= 1
      match runPass1T rest (i + 1) (made || nt) (remaining - 1) d with
      | none => none
      | some (hs, made', rem', d', ev) => some (h :: hs, made', rem', d', ev)
    | none =>
      if !h.canNT then
        -- hook.autonomous_decision(driver, false); the answer is dropped
        match h.auto d false with
        | none => none
        | some (nt, h', d1) =>
          match runPass1T rest (i + 1) made (remaining - 1) d1 with
          | none => none
          | some (hs, made', rem', d', ev) => some (h' :: hs, made', rem', d', .auto i false nt :: ev)
      else
        match runPass1T rest (i + 1) made remaining d with
        | none => none
        | some (hs, made', rem', d', ev) => some (h :: hs, made', rem', d', ev)

/-- second pass (`runPass2`) with its trace -/
def runPass2T [DecidableEq κ] : List (Hook κ α) → Nat → Bool → Nat → Drv →
    Option (List (Hook κ α) × List (List (Msg κ α)) × Bool × Drv × List Ev)
  | [], _, made, _, d => some ([], [], made, d, [])
  | h :: rest, i, made, remaining, d =>
    let step : Option (Hook κ α × Bool × Nat × Drv × List Ev) :=
      match h.cur with
      | none =>
        -- made_nontrivial_decision |= hook.autonomous_decision(driver,
        --     !made_nontrivial_decision && remaining_decision_count == 1);
        match h.auto d (!made && remaining == 1) with
        | none => none
        | some (nt, h', d1) =>
          if remaining == 0 then none
          else some (h', made || nt, remaining - 1, d1, [.auto i (!made && remaining == 1) nt])
      | some _ => some (h, made, remaining, d, [])
    match step with
    | none => none
    | some (h1, made1, rem1, d1, ev1) =>
      match h1.release with
      | none => none
      | some (h2, out) =>
        match runPass2T rest (i + 1) made1 rem1 d1 with
        | none => none
        | some (hs, outs, made', d', ev) => some (h2 :: hs, out :: outs, made', d', ev1 ++ .rel i :: ev)

/-- `run_hooks` with its trace (first-pass calls, then second-pass calls) -/
def runHooksT [DecidableEq κ] (hs : List (Hook κ α)) (d : Drv) :
    Option (List (Hook κ α) × List (List (Msg κ α)) × Bool × Drv × List Ev) :=
  match runPass1T hs 0 false hs.length d with
  | none => none
  | some (hs1, made, remaining, d1, ev1) =>
    match runPass2T hs1 0 made remaining d1 with
    | none => none
    | some (hs2, outs, made', d', ev2) => some (hs2, outs, made', d', ev1 ++ ev2)

/-! ### reading a trace -/

/-- the call returned "non-trivial" -/
def Ev.isNT : Ev → Bool
  | .auto _ _ nt => nt
  | .rel _ => false

/-- the trace contains no `autonomous_decision` call -/
def noAuto : List Ev → Bool
  | [] => true
  | .auto .. :: _ => false
  | .rel _ :: r => noAuto r

/-- the forcing discipline of the second pass, as a property of a trace: every
`autonomous_decision` call is forced exactly when nothing non-trivial was decided before it
(`made` = before the trace starts) and no further call follows it -/
def forcesOK : Bool → List Ev → Bool
  | _, [] => true
  | made, .rel _ :: r => forcesOK made r
  | made, .auto _ f nt :: r => (f == (!made && noAuto r)) && forcesOK (made || nt) r

end HvSim
