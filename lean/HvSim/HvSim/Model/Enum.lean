/-
Enumeration of a hook's decision space (C37).

* `specPrefixes`, `specSplits`, … : the *specified* sets of decisions (every prefix size, every
  sub-multiset, every snapshot version) — the sets the completeness theorems of `Props/C37.lean`
  quantify over.
* `enumOutcomes`: depth-first enumeration of the model's decision tree by replaying tapes, driven by
  the ranges recorded in the call log (the same search bolero's exhaustive driver performs on the
  real hooks).  Driver-side device only; no theorem is about it.
-/
import HvSim.Model.Sim
namespace HvSim

/-- every (released prefix, remaining suffix) with at least `lo` released items -/
def specPrefixes {α} (q : List α) (lo : Nat) : List (List α × List α) :=
  ((List.range (q.length + 1)).filter (fun c => lo ≤ c)).map fun c => (q.take c, q.drop c)

/-- every split of `q` into (selected, not selected), both in queue order -/
def specSplits {α} : List α → List (List α × List α)
  | [] => [([], [])]
  | x :: r => (specSplits r).flatMap fun (s, t) => [(x :: s, t), (s, x :: t)]

/-- every snapshot decision of a singleton buffer: skip `i` versions and release the next one -/
def specVersions {α} (q : List α) : List (α × List α) :=
  (List.range q.length).filterMap fun i =>
    match q.drop i with
    | [] => none
    | x :: r => some (x, r)

/-! ### tape search -/

def callFrame : Call → Nat × Nat
  | .u lo hi v => (v - lo, hi - lo)
  | .b v => (if v then 1 else 0, 1)

/-- next tape in depth-first order: bump the last frame that still has room, drop what follows -/
def nextFrames (fs : List (Nat × Nat)) : Option (List (Nat × Nat)) :=
  let rec go : List (Nat × Nat) → Option (List (Nat × Nat))   -- on the reversed list
    | [] => none
    | (v, b) :: r => if v < b then some ((v + 1, b) :: r) else go r
  (go fs.reverse).map List.reverse

partial def dfs {R} (run : List Nat → Option (R × List Call)) (frames : List (Nat × Nat))
    (acc : Array (Option R)) : Array (Option R) :=
  let tape := frames.map (·.1)
  match run tape with
  | none =>
    -- a panic: nothing is known below this point
    let acc := acc.push none
    match nextFrames frames with
    | none => acc
    | some f => dfs run f acc
  | some (r, log) =>
    let acc := acc.push (some r)
    match nextFrames (log.reverse.map callFrame) with
    | none => acc
    | some f => dfs run f acc

/-- all outcomes (nontrivial flag, released messages, hook afterwards) of `autonomous_decision`
followed by `release_decision`, one per execution of the exhaustive search -/
def enumOutcomes {κ α} [DecidableEq κ] (h : Hook κ α) (force : Bool) :
    List (Option (Bool × List (Msg κ α) × Hook κ α)) :=
  let run := fun (tape : List Nat) =>
    match h.auto ⟨tape, []⟩ force with
    | none => none
    | some (nt, h', d) =>
      match h'.release with
      | none => none
      | some (h'', out) => some ((nt, out, h''), d.log)
  (dfs run [] #[]).toList

end HvSim
