/-
Model of the in-tick ("inline") order hooks of `hydro_lang/src/sim/runtime.rs`
(`SimInlineHook::autonomous_decision`): `StreamOrderHook`, `MergeOrderedHook`,
`KeyedStreamOrderHook`, `PartiallyOrderedStreamHook`, `KeyedMergeOrderedHook`.
Same conventions as `Model/Sim.lean`.  No imports outside the project.
-/
import HvSim.Model.Sim
namespace HvSim

/-- "from Bolero" shuffle: `for src in 0..max_dst { dst = (src..=max_dst); swap(src, dst) }`;
`fuel = max_dst - src` -/
def shuffleFrom {α} : Nat → Nat → Nat → List α → Drv → Option (List α × Drv)
  | 0, _, _, l, d => some (l, d)
  | fuel + 1, src, maxDst, l, d =>
    match d.nat src maxDst with
    | none => none
    | some (dst, d1) => shuffleFrom fuel (src + 1) maxDst (swapAt l src dst) d1

/-- `StreamOrderHook::autonomous_decision` on the taken input batch -/
def streamOrderAuto {α} (l : List α) (d : Drv) : Option (List α × Drv) :=
  let maxDst := l.length - 1
  shuffleFrom maxDst 0 maxDst l d

/-- `MergeOrderedHook`: `while first_remaining > 0 && second_remaining > 0 { take_second = bool … }`,
then the rest of first, then the rest of second; returns (result, sources, driver) -/
def mergeOrderedAuto {α} : List α → List α → Drv → List α × List Bool × Drv
  | [], l2, d => (l2, l2.map (fun _ => true), d)
  | x :: r1, [], d => (x :: r1, (x :: r1).map (fun _ => false), d)
  | x :: r1, y :: r2, d =>
    let (takeSecond, d1) := d.bool
    if takeSecond then
      let (res, src, d2) := mergeOrderedAuto (x :: r1) r2 d1
      (y :: res, true :: src, d2)
    else
      let (res, src, d2) := mergeOrderedAuto r1 (y :: r2) d1
      (x :: res, false :: src, d2)
termination_by l1 l2 => l1.length + l2.length

def valuesOf {κ α} [DecidableEq κ] (k : κ) (l : List (κ × α)) : List α :=
  (l.filter (fun e => e.1 = k)).map Prod.snd

/-- per-key shuffles in the iteration order of `grouped` -/
def keyedShuffle {κ α} [DecidableEq κ] (inputs : List (κ × α)) : List κ → Drv → Option (List (κ × List α) × Drv)
  | [], d => some ([], d)
  | k :: ks, d =>
    match streamOrderAuto (valuesOf k inputs) d with
    | none => none
    | some (vs, d1) =>
      match keyedShuffle inputs ks d1 with
      | none => none
      | some (rest, d2) => some ((k, vs) :: rest, d2)

/-- `KeyedStreamOrderHook`: `gorder` = iteration order of the `grouped` map, `oorder` = iteration order of
the `out` map (both observed); the released batch is flattened in `oorder` -/
def keyedStreamOrderAuto {κ α} [DecidableEq κ] (inputs : List (κ × α)) (gorder oorder : List κ) (d : Drv) :
    Option (List (κ × α) × Drv) :=
  match keyedShuffle inputs gorder d with
  | none => none
  | some (out, d1) =>
    some (oorder.flatMap (fun k => ((lookup k out).getD []).map (fun v => (k, v))), d1)

/-- keys in first-seen order with their values in input order -/
def groupFirstSeen {κ α} [DecidableEq κ] : List (κ × α) → List (κ × List α) → List (κ × List α)
  | [], acc => acc
  | (k, v) :: r, acc =>
    if acc.any (fun e => e.1 = k) then
      groupFirstSeen r (acc.map (fun e => if e.1 = k then (e.1, e.2 ++ [v]) else e))
    else groupFirstSeen r (acc ++ [(k, [v])])

def nonemptyIdx {κ α} (g : List (κ × List α)) : List Nat :=
  ((List.range g.length).zip g).filterMap (fun p => if p.2.2.isEmpty then none else some p.1)

def popFrontAt {κ α} : Nat → List (κ × List α) → Option ((κ × α) × List (κ × List α))
  | _, [] => none
  | 0, (k, q) :: r => match q with
    | [] => none
    | v :: q' => some ((k, v), (k, q') :: r)
  | i + 1, e :: r => match popFrontAt i r with
    | none => none
    | some (x, r') => some (x, e :: r')

/-- `PartiallyOrderedStreamHook`: repeatedly pick a non-empty key and take its front; `fuel` = #items -/
def partialLoop {κ α} : Nat → List (κ × List α) → List (κ × α) → Drv → Option (List (κ × α) × Drv)
  | 0, _, out, d => some (out, d)
  | fuel + 1, g, out, d =>
    let ne := nonemptyIdx g
    if ne.isEmpty then some (out, d)
    else
      match d.natEx 0 ne.length with
      | none => none
      | some (i, d1) =>
        match ne[i]? with
        | none => none
        | some pick =>
          match popFrontAt pick g with
          | none => none
          | some (x, g') => partialLoop fuel g' (out ++ [x]) d1

def partiallyOrderedAuto {κ α} [DecidableEq κ] (inputs : List (κ × α)) (d : Drv) : Option (List (κ × α) × Drv) :=
  partialLoop inputs.length (groupFirstSeen inputs []) [] d

/-- key order of `KeyedMergeOrderedHook`: first seen in the first input, then new ones of the second -/
def mergeKeyOrder {κ α} [DecidableEq κ] (in1 in2 : List (κ × α)) : List κ :=
  ((in1 ++ in2).map Prod.fst).eraseDups

def keyedMergeLoop {κ α} [DecidableEq κ] (in1 in2 : List (κ × α)) : List κ → Drv → List (κ × α) × List Bool × Drv
  | [], d => ([], [], d)
  | k :: ks, d =>
    let (res, src, d1) := mergeOrderedAuto (valuesOf k in1) (valuesOf k in2) d
    let (rest, srcs, d2) := keyedMergeLoop in1 in2 ks d1
    (res.map (fun v => (k, v)) ++ rest, src ++ srcs, d2)

def keyedMergeOrderedAuto {κ α} [DecidableEq κ] (in1 in2 : List (κ × α)) (d : Drv) :
    List (κ × α) × List Bool × Drv :=
  keyedMergeLoop in1 in2 (mergeKeyOrder in1 in2) d

end HvSim
