/-
`hvdrv_sim`: line-protocol driver for the simulator-hook model (C36/C37/C38).
One output line per input line; see `harness/hv_sim/src/main.rs` for the protocol.
After a `panic` answer the case is dead: further lines of the case answer `dead`
(the harness never emits any).
-/
import HvSim.Model.Sim
import HvSim.Model.Enum
import HvSim.Model.Inline
import HvSim.Model.Trace
open HvSim

abbrev H := Hook Nat Nat

structure St where
  hooks : List H := []
  dead : Bool := false

/-! ### parsing -/

def parseListC (sep : String) (s : String) : Option (List Nat) :=
  if s == "-" then some [] else (s.splitOn sep).mapM (fun p => p.toNat?)
def showListC (l : List Nat) : String := if l.isEmpty then "-" else ",".intercalate (l.map toString)
def showCallsOf (log : List Call) : String :=
  if log.isEmpty then "-" else ",".intercalate (log.reverse.map fun c => match c with
    | .u lo hi v => s!"u{lo}:{hi}:{v}"
    | .b v => if v then "b1" else "b0")

def parseList (sep : String) (s : String) : Option (List Nat) :=
  if s == "-" then some [] else (s.splitOn sep).mapM (fun p => p.toNat?)

def parseMap (s : String) : Option (KMap Nat Nat) :=
  if s == "-" then some [] else
  (s.splitOn ";").mapM fun e =>
    match e.splitOn ":" with
    | [k, vs] => do
      let k ← k.toNat?
      let vs ← parseList "." vs
      pure (k, vs)
    | _ => none

structure Args where
  q : List Nat := []
  q2 : List Nat := []
  m : KMap Nat Nat := []
  m2 : KMap Nat Nat := []

def parseArgs : List String → Args → Option Args
  | [], a => some a
  | w :: ws, a =>
    match w.splitOn "=" with
    | ["q", v] => (parseList "," v).bind fun l => parseArgs ws { a with q := l }
    | ["q2", v] => (parseList "," v).bind fun l => parseArgs ws { a with q2 := l }
    | ["m", v] => (parseMap v).bind fun l => parseArgs ws { a with m := l }
    | ["m2", v] => (parseMap v).bind fun l => parseArgs ws { a with m2 := l }
    | _ => none

def parsePairs (s : String) : Option (List (Nat × Nat)) :=
  if s == "-" then some [] else
  (s.splitOn ",").mapM fun e =>
    match e.splitOn ":" with
    | [k, v] => do
      let k ← k.toNat?
      let v ← v.toNat?
      pure (k, v)
    | _ => none

def showPairs (l : List (Nat × Nat)) : String :=
  if l.isEmpty then "-" else ",".intercalate (l.map fun e => s!"{e.1}:{e.2}")

def argOf (ws : List String) (key : String) : Option String :=
  ws.findSome? fun w => match w.splitOn "=" with
    | [k, v] => if k == key then some v else none
    | _ => none

/-- `inline <kind> <tape> a=.. [b=..] [go=..] [oo=..]` -/
def inlineOp (kind : String) (tape : List Nat) (ws : List String) : Option String :=
  let d : Drv := ⟨tape, []⟩
  let fin := fun (o : Option (String × Drv)) => match o with
    | some (out, d') => s!"out={out} calls={showCallsOf d'.log}"
    | none => "panic"
  match kind with
  | "sOrder" => do
    let a ← (argOf ws "a").bind (parseListC ",")
    pure (fin ((streamOrderAuto a d).map fun (r, d') => (showListC r, d')))
  | "merge" => do
    let a ← (argOf ws "a").bind (parseListC ",")
    let b ← (argOf ws "b").bind (parseListC ",")
    let (r, _, d') := mergeOrderedAuto a b d
    pure (fin (some (showListC r, d')))
  | "kOrder" => do
    let a ← (argOf ws "a").bind parsePairs
    let go ← (argOf ws "go").bind (parseListC ",")
    let oo ← (argOf ws "oo").bind (parseListC ",")
    pure (fin ((keyedStreamOrderAuto a go oo d).map fun (r, d') => (showPairs r, d')))
  | "pOrder" => do
    let a ← (argOf ws "a").bind parsePairs
    pure (fin ((partiallyOrderedAuto a d).map fun (r, d') => (showPairs r, d')))
  | "kMerge" => do
    let a ← (argOf ws "a").bind parsePairs
    let b ← (argOf ws "b").bind parsePairs
    let (r, _, d') := keyedMergeOrderedAuto a b d
    pure (fin (some (showPairs r, d')))
  | _ => none

def mkHook (kind : String) (a : Args) : Option H :=
  match kind with
  | "streamTotal" => some (.streamTotal a.q none)
  | "streamNo" => some (.streamNo a.q none)
  | "keyedTotal" => some (.keyedTotal a.m none)
  | "keyedNo" => some (.keyedNo a.m none)
  | "singleton" => some (.singleton { q := a.q })
  | "passthrough" => some (.passthrough a.q none none)
  | "keyedSingleton" => some (.keyedSingleton a.m none [])
  | "tlOrder" => some (.tlOrder a.q none)
  | "tlFold" => some (.tlFold a.q none)
  | "tlKeyedOrder" => some (.tlKeyedOrder a.m none)
  | "tlPartial" => some (.tlPartial a.m none)
  | "tlMerge" => some (.tlMerge a.q a.q2 none)
  | "tlKeyedMerge" => some (.tlKeyedMerge a.m a.m2 none)
  | _ => none

/-! ### printing -/

def showList (l : List Nat) : String := if l.isEmpty then "-" else ",".intercalate (l.map toString)
def showDots (l : List Nat) : String := if l.isEmpty then "-" else ".".intercalate (l.map toString)
def showMap (m : KMap Nat Nat) : String :=
  if m.isEmpty then "-" else ";".intercalate (m.map fun e => s!"{e.1}:{showDots e.2}")
def showBool (b : Bool) : String := if b then "true" else "false"
def showOptB : Option Bool → String
  | some true => "some(true)"
  | some false => "some(false)"
  | none => "none"
def showMsg : Msg Nat Nat → String
  | .item a => toString a
  | .kv k a => s!"{k}:{a}"
  | .batch l => "[" ++ ".".intercalate (l.map toString) ++ "]"
def showMsgs (ms : List (Msg Nat Nat)) : String :=
  if ms.isEmpty then "-" else ",".intercalate (ms.map showMsg)
def showCall : Call → String
  | .u lo hi v => s!"u{lo}:{hi}:{v}"
  | .b v => if v then "b1" else "b0"
def showCalls (log : List Call) : String :=
  if log.isEmpty then "-" else ",".intercalate (log.reverse.map showCall)

def showState (h : H) : String :=
  let body := match h with
    | .streamTotal q _ | .streamNo q _ | .passthrough q _ _ | .tlOrder q _ | .tlFold q _ => s!"q={showList q}"
    | .singleton s => s!"q={showList s.q}"
    | .keyedTotal m _ | .keyedNo m _ | .keyedSingleton m _ _ | .tlKeyedOrder m _ | .tlPartial m _ => s!"m={showMap m}"
    | .tlMerge q1 q2 _ => s!"q={showList q1} q2={showList q2}"
    | .tlKeyedMerge m1 m2 _ => s!"m={showMap m1} m2={showMap m2}"
  s!"{body} cur={showOptB h.cur}"


/-- what is still pending in a hook (the `rest` part of an outcome) -/
def showRest (h : H) : String :=
  match h with
  | .streamTotal q _ | .streamNo q _ | .passthrough q _ _ | .tlOrder q _ | .tlFold q _ => showList q
  | .singleton s => showList s.q
  | .keyedTotal m _ | .keyedNo m _ | .keyedSingleton m _ _ | .tlKeyedOrder m _ | .tlPartial m _ => showMap m
  | .tlMerge q1 q2 _ => s!"{showList q1}+{showList q2}"
  | .tlKeyedMerge m1 m2 _ => s!"{showMap m1}+{showMap m2}"

def showEv : Ev → String
  | .auto i f nt => s!"a{i}:{if f then 1 else 0}:{if nt then 1 else 0}"
  | .rel i => s!"r{i}"
def showEvs (ev : List Ev) : String := if ev.isEmpty then "-" else ",".intercalate (ev.map showEv)

/-- the decision flag of hook `i` in a `run_hooks` call: what its `autonomous_decision` call returned,
or the decision it already carried -/
def ntOf (before : List H) (ev : List Ev) (i : Nat) : Bool :=
  match ev.findSome? (fun e => match e with | .auto j _ nt => if j == i then some nt else none | .rel _ => none) with
  | some nt => nt
  | none => (before[i]?.bind Hook.cur).getD false

/-- the decision vector of a `run_hooks` call: per hook `nontrivial/released/remaining`, joined by `|` -/
def showVector (before after : List H) (outs : List (List (Msg Nat Nat))) (ev : List Ev) : String :=
  let comps := (List.range after.length).map fun i =>
    match after[i]?, outs[i]? with
    | some h, some o => s!"{if ntOf before ev i then 1 else 0}/{showMsgs o}/{showRest h}"
    | _, _ => "?"
  "|".intercalate comps

/-! ### operations -/

def pushQ (h : H) (second : Bool) (items : List Nat) : Option H :=
  match h, second with
  | .streamTotal q r, false => some (.streamTotal (q ++ items) r)
  | .streamNo q r, false => some (.streamNo (q ++ items) r)
  | .singleton s, false => some (.singleton { s with q := s.q ++ items })
  | .passthrough q r l, false => some (.passthrough (q ++ items) r l)
  | .tlOrder q r, false => some (.tlOrder (q ++ items) r)
  | .tlFold q r, false => some (.tlFold (q ++ items) r)
  | .tlMerge q1 q2 r, false => some (.tlMerge (q1 ++ items) q2 r)
  | .tlMerge q1 q2 r, true => some (.tlMerge q1 (q2 ++ items) r)
  | _, _ => none

def setM (h : H) (second : Bool) (m : KMap Nat Nat) : Option H :=
  match h, second with
  | .keyedTotal _ r, false => some (.keyedTotal m r)
  | .keyedNo _ r, false => some (.keyedNo m r)
  | .keyedSingleton _ r last, false => some (.keyedSingleton m r last)
  | .tlKeyedOrder _ r, false => some (.tlKeyedOrder m r)
  | .tlPartial _ r, false => some (.tlPartial m r)
  | .tlKeyedMerge _ m2 r, false => some (.tlKeyedMerge m m2 r)
  | .tlKeyedMerge m1 _ r, true => some (.tlKeyedMerge m1 m r)
  | _, _ => none

def withHook (st : St) (i : String) (f : Nat → H → St × String) : St × String :=
  match i.toNat? with
  | some n =>
    match st.hooks[n]? with
    | some h => f n h
    | none => (st, "bad-op")
  | none => (st, "bad-op")

def setHook (st : St) (n : Nat) (h : H) : St := { st with hooks := st.hooks.set n h }

def step (st : St) (line : String) : St × String :=
  let l := line.trimAscii.toString
  match l.splitOn " " with
  | "#case" :: _ => ({}, l)
  | ws =>
    if st.dead then (st, "dead") else
    match ws with
    | "new" :: kind :: rest =>
      match (parseArgs rest {}).bind (mkHook kind) with
      | some h => ({ st with hooks := st.hooks ++ [h] }, "ok")
      | none => (st, "bad-op")
    | [op, i, a] =>
      if op == "push" || op == "push2" then
        match a.splitOn "=" with
        | ["q", v] =>
          match parseList "," v with
          | some items => withHook st i fun n h =>
              match pushQ h (op == "push2") items with
              | some h' => (setHook st n h', "ok")
              | none => (st, "bad-op")
          | none => (st, "bad-op")
        | _ => (st, "bad-op")
      else if op == "set" || op == "set2" then
        match a.splitOn "=" with
        | ["m", v] =>
          match parseMap v with
          | some m => withHook st i fun n h =>
              match setM h (op == "set2") m with
              | some h' => (setHook st n h', "ok")
              | none => (st, "bad-op")
          | none => (st, "bad-op")
        | _ => (st, "bad-op")
      else (st, "bad-op")
    | ["state", i] => withHook st i fun _ h => (st, showState h)
    | ["cur", i] => withHook st i fun _ h => (st, showOptB h.cur)
    | ["can", i] => withHook st i fun _ h => (st, showBool h.canNT)
    | ["ready", i] => withHook st i fun _ h => (st, showBool h.ready)
    | ["obscan", i] => withHook st i fun _ h => (st, showBool (obsCanRun h))
    | ["auto", i, f, t] =>
      match parseList "," t, (if f == "0" then some false else if f == "1" then some true else none) with
      | some tape, some force => withHook st i fun n h =>
          match h.auto ⟨tape, []⟩ force with
          | some (nt, h', d) => (setHook st n h', s!"nt={showBool nt} calls={showCalls d.log}")
          | none => ({ st with dead := true }, "panic")
      | _, _ => (st, "bad-op")
    | ["rel", i] => withHook st i fun n h =>
        match h.release with
        | some (h', out) => (setHook st n h', s!"out={showMsgs out}")
        | none => ({ st with dead := true }, "panic")
    | ["canrun"] => (st, showBool (tickCanRun st.hooks))
    | "inline" :: kind :: t :: rest =>
      match parseList "," t with
      | some tape => (st, (inlineOp kind tape rest).getD "bad-op")
      | none => (st, "bad-op")
    | ["run", t] =>
      match parseList "," t with
      | some tape =>
        match runHooksT st.hooks ⟨tape, []⟩ with
        | some (hs, outs, _, d, ev) =>
          ({ st with hooks := hs }, s!"outs={"|".intercalate (outs.map showMsgs)} calls={showCalls d.log} ev={showEvs ev}")
        | none => ({ st with dead := true }, "panic")
      | none => (st, "bad-op")
    | ["xrun", t] =>
      -- `run_hooks` on a copy of the tick: the state is left as it is
      match parseList "," t with
      | some tape =>
        match runHooksT st.hooks ⟨tape, []⟩ with
        | some (hs, outs, _, d, ev) =>
          (st, s!"vec={showVector st.hooks hs outs ev} calls={showCalls d.log} ev={showEvs ev}")
        | none => (st, "panic")
      | none => (st, "bad-op")
    | ["enumrun"] =>
      -- the set of decision vectors `run_hooks` reaches on this tick over all tapes (depth-first search
      -- over the model's decision tree, as bolero's exhaustive driver does on the real code)
      let run := fun (tape : List Nat) =>
        match runHooksT st.hooks ⟨tape, []⟩ with
        | none => none
        | some (hs, outs, _, d, ev) => some (showVector st.hooks hs outs ev, d.log)
      let outs := (dfs run [] #[]).toList.map fun o => o.getD "panic"
      let distinct := (outs.toArray.qsort (· < ·)).toList.eraseDups
      (st, s!"n={outs.length} set={" ".intercalate distinct}")
    | "enum" :: kind :: f :: rest =>
      match (parseArgs rest {}).bind (mkHook kind), (if f == "0" then some false else if f == "1" then some true else none) with
      | some h, some force =>
        let outs := (enumOutcomes h force).map fun o =>
          match o with
          | none => "panic"
          | some (nt, msgs, h') =>
            let rest := match h' with
              | .streamTotal q _ | .streamNo q _ | .passthrough q _ _ | .tlOrder q _ | .tlFold q _ => showList q
              | .singleton s => showList s.q
              | .keyedTotal m _ | .keyedNo m _ | .keyedSingleton m _ _ | .tlKeyedOrder m _ | .tlPartial m _ => showMap m
              | .tlMerge q1 q2 _ => s!"{showList q1}+{showList q2}"
              | .tlKeyedMerge m1 m2 _ => s!"{showMap m1}+{showMap m2}"
            s!"{if nt then 1 else 0}/{showMsgs msgs}/{rest}"
        let sorted := (outs.toArray.qsort (· < ·)).toList
        let distinct := sorted.eraseDups
        -- for the kinds whose decision space is specified (Props/C37): the answer is the *specified* set,
        -- cross-checked against the search over the model's decision tree
        let showSplit := fun (p : List Nat × List Nat) =>
          s!"{if p.1.isEmpty then 0 else 1}/{showMsgs (p.1.map .item)}/{showList p.2}"
        let spec : Option (List String) := match h with
          | .streamTotal q _ =>
            if force && q.isEmpty then none
            else some ((specPrefixes q (if force then 1 else 0)).map showSplit)
          | .streamNo q _ =>
            if force && q.isEmpty then none
            else some (((specSplits q).filter fun p => !(force && p.1.isEmpty)).map showSplit)
          | .singleton s =>
            if s.q.isEmpty then none
            else some ((specVersions s.q).map fun p => s!"1/{p.1}/{showList p.2}")
          | _ => none
        match spec with
        | none => (st, s!"n={outs.length} set={" ".intercalate distinct}")
        | some sp =>
          let spSorted := (sp.toArray.qsort (· < ·)).toList.eraseDups
          if spSorted == distinct && sp.length == outs.length then
            (st, s!"n={sp.length} set={" ".intercalate spSorted}")
          else (st, s!"spec-mismatch spec={" ".intercalate spSorted} search={" ".intercalate distinct}")
      | _, _ => (st, "bad-op")
    | _ => (st, "bad-op")

partial def loop (h : IO.FS.Stream) (out : IO.FS.Stream) (st : St) : IO Unit := do
  let line ← h.getLine
  if line.isEmpty then return ()
  let (st', o) := step st line
  out.putStrLn o
  loop h out st'

def main : IO Unit := do
  let stdin ← IO.getStdin
  let stdout ← IO.getStdout
  loop stdin stdout {}
