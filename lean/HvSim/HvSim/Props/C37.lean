/-
C37 — exhaustive simulation covers every distinct schedule (completeness of the decision spaces).

Soundness (C36) says every tape yields an allowed decision; here the converse: every allowed decision
is produced by *some* tape — every prefix size of an ordered input, every in-order sub-multiset of an
unordered one (the `min_index` pruning loses none), every per-key combination for keyed inputs,
every buffered snapshot version, every ready tick/observation.  bolero's exhaustive driver
enumerates all tapes (its depth-first search is exercised, not modelled: the harness compares the
set of outcomes it reaches on the real hooks with the sets specified here).
-/
import HvSim.Props.C36
import HvSim.Model.Enum
namespace HvSim
variable {α κ β : Type}

/-! ### driver: every value of a range is some tape entry -/

theorem aux_nat_hit (lo hi v : Nat) (log : List Call) (rest : List Nat) (h1 : lo ≤ v) (h2 : v ≤ hi) :
    (⟨(v - lo) :: rest, log⟩ : Drv).nat lo hi = some (v, ⟨rest, .u lo hi v :: log⟩) := by
  have : ¬ hi < lo := by omega
  have hm : (v - lo) % (hi - lo + 1) = v - lo := Nat.mod_eq_of_lt (by omega)
  simp only [Drv.nat, this, ↓reduceIte, List.headD_cons, hm, List.tail_cons, Option.some.injEq, Prod.mk.injEq,
    Drv.mk.injEq, List.cons.injEq, Call.u.injEq, true_and, and_true]
  omega

theorem aux_natEx_hit (lo hi v : Nat) (log : List Call) (rest : List Nat) (h1 : lo ≤ v) (h2 : v < hi) :
    (⟨(v - lo) :: rest, log⟩ : Drv).natEx lo hi = some (v, ⟨rest, .u lo (hi - 1) v :: log⟩) := by
  have : ¬ hi ≤ lo := by omega
  simp only [Drv.natEx, this, ↓reduceIte]
  exact aux_nat_hit lo (hi - 1) v log rest h1 (by omega)

theorem aux_bool_hit (b : Bool) (log : List Call) (rest : List Nat) :
    (⟨(if b then 1 else 0) :: rest, log⟩ : Drv).bool = (b, ⟨rest, .b b :: log⟩) := by
  cases b <;> simp [Drv.bool]

theorem aux_boolIf_hit (b : Bool) (log : List Call) (rest : List Nat) :
    (⟨(if b then 1 else 0) :: rest, log⟩ : Drv).boolIf true = (b, ⟨rest, .b b :: log⟩) := by
  simp [Drv.boolIf, aux_bool_hit]

/-! ### the scheduler's pick among ready ticks and observations -/

/-- `(0..(possibly_ready_ticks.len() + possibly_ready_observations.len())).any()` in `LaunchedSim::step`:
`inl i` runs tick `i`, `inr j` resolves observation `j` -/
def schedPick (nTicks nObs : Nat) (d : Drv) : Option ((Nat ⊕ Nat) × Drv) :=
  match d.natEx 0 (nTicks + nObs) with
  | none => none
  | some (i, d') => some (if i < nTicks then .inl i else .inr (i - nTicks), d')

/-- every ready tick and every ready observation is picked by some tape -/
theorem scheduler_pick_any_ready (nTicks nObs : Nat) (log : List Call) :
    (∀ i, i < nTicks → ∃ tape d', schedPick nTicks nObs ⟨tape, log⟩ = some (.inl i, d')) ∧
    (∀ j, j < nObs → ∃ tape d', schedPick nTicks nObs ⟨tape, log⟩ = some (.inr j, d')) := by
  constructor
  · intro i hi
    refine ⟨[i], ?_⟩
    have := aux_natEx_hit 0 (nTicks + nObs) i log [] (Nat.zero_le _) (by omega)
    simp only [Nat.sub_zero] at this
    simp only [schedPick, this, hi, ↓reduceIte]
    exact ⟨_, rfl⟩
  · intro j hj
    refine ⟨[nTicks + j], ?_⟩
    have := aux_natEx_hit 0 (nTicks + nObs) (nTicks + j) log [] (Nat.zero_le _) (by omega)
    simp only [Nat.sub_zero] at this
    have hnot : ¬ nTicks + j < nTicks := by omega
    simp only [schedPick, this, hnot, ↓reduceIte, Nat.add_sub_cancel_left]
    exact ⟨_, rfl⟩

/-! ### StreamHook<TotalOrder>: every prefix size -/

/-- every prefix size (at least one item when forced) is released by some tape -/
theorem streamTotal_every_prefix_reachable (q : List α) (force : Bool) (c : Nat) (log : List Call)
    (hlo : force = true → 1 ≤ c) (hhi : c ≤ q.length) :
    ∃ tape d', streamTotalAuto q ⟨tape, log⟩ force = some (q.take c, q.drop c, decide (0 < c), d') := by
  refine ⟨[c - (if force then 1 else 0)], ?_⟩
  have hlo' : (if force = true then 1 else 0) ≤ c := by
    cases force <;> simp_all
  simp only [streamTotalAuto, aux_nat_hit _ _ c log [] hlo' hhi]
  exact ⟨_, rfl⟩

/-- the decisions `specPrefixes` lists are exactly the reachable ones -/
theorem streamTotal_spec_reachable (q : List α) (force : Bool) (log : List Call) (r q' : List α)
    (h : (r, q') ∈ specPrefixes q (if force then 1 else 0)) :
    ∃ tape nt d', streamTotalAuto q ⟨tape, log⟩ force = some (r, q', nt, d') := by
  simp only [specPrefixes, List.mem_map, List.mem_filter, List.mem_range, decide_eq_true_eq, Prod.mk.injEq] at h
  obtain ⟨c, ⟨hc, hlo⟩, rfl, rfl⟩ := h
  obtain ⟨tape, d', ht⟩ := streamTotal_every_prefix_reachable q force c log
    (by intro hf; subst hf; simpa using hlo) (by omega)
  exact ⟨tape, _, d', ht⟩

example : ∃ tape d', streamTotalAuto [10, 20, 30] ⟨tape, []⟩ true = some ([10, 20], [30], true, d') :=
  streamTotal_every_prefix_reachable [10, 20, 30] true 2 [] (by simp) (by simp)


/-! ### StreamHook<NoOrder>: every in-order sub-multiset (the `min_index` pruning loses none) -/

theorem aux_split_first {l s r : List α} {x : α} (h : Split l (x :: s) r) :
    ∃ a b r', l = a ++ x :: b ∧ r = a ++ r' ∧ Split b s r' := by
  generalize hxs : x :: s = xs at h
  induction h with
  | nil => simp at hxs
  | @left y l a b hs _ =>
    simp only [List.cons.injEq] at hxs
    obtain ⟨rfl, rfl⟩ := hxs
    exact ⟨[], l, b, rfl, rfl, hs⟩
  | @right y l a b _ ih =>
    obtain ⟨a', b', r', h1, h2, h3⟩ := ih hxs
    exact ⟨y :: a', b', r', by simp [h1], by simp [h2], h3⟩

theorem aux_split_nil_left {l r : List α} (h : Split l [] r) : r = l := by
  generalize hs : ([] : List α) = s at h
  induction h with
  | nil => rfl
  | left _ _ => simp at hs
  | right _ ih => simp [ih hs]

theorem aux_split_of_nil {s r : List α} (h : Split [] s r) : s = [] ∧ r = [] := by
  cases h; exact ⟨rfl, rfl⟩

theorem aux_streamNoLoop_complete : ∀ (fuel : Nat) (pre post out : List α) (log : List Call) (force : Bool)
    (sel rem : List α), fuel = (pre ++ post).length → (post = [] → pre = []) → Split post sel rem →
    ((force && out.isEmpty) = true → sel ≠ []) →
    ∃ tape d', streamNoLoop fuel force (pre ++ post) out pre.length ⟨tape, log⟩ = some (out ++ sel, pre ++ rem, d') := by
  intro fuel
  induction fuel with
  | zero =>
    intro pre post out log force sel rem hf hp hs _
    have hq : pre ++ post = [] := List.length_eq_zero_iff.mp hf.symm
    simp only [List.append_eq_nil_iff] at hq
    obtain ⟨rfl, rfl⟩ := hq
    obtain ⟨rfl, rfl⟩ := aux_split_of_nil hs
    exact ⟨[], ⟨[], log⟩, by simp [streamNoLoop]⟩
  | succ n ih =>
    intro pre post out log force sel rem hf hp hs hforce
    by_cases hpost : post = []
    · subst hpost
      have := hp rfl; subst this
      obtain ⟨rfl, rfl⟩ := aux_split_of_nil hs
      exact ⟨[], ⟨[], log⟩, by simp [streamNoLoop]⟩
    · have hne : (pre ++ post).isEmpty = false := by
        cases post with
        | nil => exact absurd rfl hpost
        | cons _ _ => simp
      cases sel with
      | nil =>
        -- stop here: the driver answers `true` to "done?"
        have hrem := aux_split_nil_left hs
        subst hrem
        have hmust : (force && out.isEmpty) = false := by
          cases hm : (force && out.isEmpty) with
          | false => rfl
          | true => exact absurd rfl (hforce hm)
        refine ⟨[1], ?_⟩
        unfold streamNoLoop
        simp only [hne, Bool.false_eq_true, ↓reduceIte, hmust, Bool.not_false]
        have := aux_boolIf_hit true log []
        simp only [↓reduceIte] at this
        simp only [this, ↓reduceIte, List.append_nil]
        exact ⟨_, rfl⟩
      | cons x s' =>
        obtain ⟨a, b, r', hl, hr, hsb⟩ := aux_split_first hs
        subst hr
        -- the tape: (a "not done" answer unless forced), the index of `x`, then the rest
        have hidx : (pre ++ post)[(pre ++ a).length]? = some x := by
          rw [hl, ← List.append_assoc]; simp
        have hlen : (pre ++ a).length < (pre ++ post).length := by
          rw [hl]; simp
        have herase : (pre ++ post).eraseIdx (pre ++ a).length = (pre ++ a) ++ b := by
          rw [hl, ← List.append_assoc, List.eraseIdx_append_of_length_le (Nat.le_refl _)]; simp
        have hrec : ∀ log', ∃ tape d', (if ((pre ++ a).length == ((pre ++ a) ++ b).length) = true
              then some (out ++ [x], (pre ++ a) ++ b, (⟨tape, log'⟩ : Drv))
              else streamNoLoop n force ((pre ++ a) ++ b) (out ++ [x]) (pre ++ a).length ⟨tape, log'⟩)
            = some (out ++ x :: s', pre ++ (a ++ r'), d') := by
          intro log'
          cases hb : b with
          | nil =>
            subst hb
            obtain ⟨rfl, rfl⟩ := aux_split_of_nil hsb
            exact ⟨[], ⟨[], log'⟩, by simp⟩
          | cons b0 bs =>
            have hneq : ((pre ++ a).length == ((pre ++ a) ++ b).length) = false := by
              simp [hb]
            have hfuel : n = ((pre ++ a) ++ b).length := by
              have := hf; rw [hl] at this; simp at this ⊢; omega
            obtain ⟨tape, d', ht⟩ := ih (pre ++ a) b (out ++ [x]) log' force s' r' hfuel
              (by intro hbn; simp [hb] at hbn) hsb (by simp)
            refine ⟨tape, d', ?_⟩
            rw [← hb, hneq]
            simp only [Bool.false_eq_true, ↓reduceIte]
            simpa [List.append_assoc] using ht
        cases hm : (force && out.isEmpty) with
        | true =>
          obtain ⟨tape, d', ht⟩ := hrec (.u pre.length ((pre ++ post).length - 1) (pre ++ a).length :: log)
          refine ⟨((pre ++ a).length - pre.length) :: tape, d', ?_⟩
          unfold streamNoLoop
          simp only [hne, Bool.false_eq_true, ↓reduceIte, hm, Bool.not_true, aux_boolIf_false]
          rw [aux_natEx_hit pre.length (pre ++ post).length (pre ++ a).length log tape (by simp) hlen]
          simp only [hidx, herase]
          exact ht
        | false =>
          obtain ⟨tape, d', ht⟩ := hrec (.u pre.length ((pre ++ post).length - 1) (pre ++ a).length :: .b false :: log)
          refine ⟨0 :: ((pre ++ a).length - pre.length) :: tape, d', ?_⟩
          unfold streamNoLoop
          simp only [hne, Bool.false_eq_true, ↓reduceIte, hm, Bool.not_false]
          have hb0 := aux_boolIf_hit false log (((pre ++ a).length - pre.length) :: tape)
          simp only [Bool.false_eq_true, ↓reduceIte] at hb0
          simp only [hb0, Bool.false_eq_true, ↓reduceIte]
          rw [aux_natEx_hit pre.length (pre ++ post).length (pre ++ a).length _ tape (by simp) hlen]
          simp only [hidx, herase]
          exact ht

/-- every split of the pending queue into a released in-order sub-multiset and the rest (non-empty
when forced) is produced by some tape: the `min_index` pruning loses no subset -/
theorem streamNo_every_split_reachable (q r q' : List α) (force : Bool) (log : List Call)
    (hs : Split q r q') (hf : force = true → r ≠ []) :
    ∃ tape d', streamNoAuto q ⟨tape, log⟩ force = some (r, q', !r.isEmpty, d') := by
  obtain ⟨tape, d', ht⟩ := aux_streamNoLoop_complete q.length [] q [] log force r q' (by simp) (by simp) hs
    (by intro h; simp at h; exact hf h)
  refine ⟨tape, d', ?_⟩
  simp only [List.nil_append, List.length_nil] at ht
  simp [streamNoAuto, ht]


example : ∃ tape d', streamNoAuto [10, 20, 30] ⟨tape, []⟩ false = some ([10, 30], [20], true, d') :=
  streamNo_every_split_reachable _ _ _ false [] (.left (.right (.left .nil))) (by simp)


/-! ### keyed streams: every per-key combination -/

theorem aux_keyedRel_empty {P : List α → List α → List α → Prop} (hP : ∀ r q', P [] r q' → r = [])
    {m m' : KMap κ α} {rel : List (κ × α)} (h : KeyedRel P m rel m') (hz : nonemptyKeyCount m = 0) :
    rel = [] := by
  induction h with
  | nil => rfl
  | @cons k q r q' m0 rel0 m0' hp _ ih =>
    by_cases hq : q.isEmpty = true
    · rw [aux_nonemptyKeyCount_cons_empty hq] at hz
      have : q = [] := by simpa using hq
      subst this
      simp [hP _ _ hp, ih hz]
    · rw [aux_nonemptyKeyCount_cons_nonempty hq] at hz; omega

theorem aux_keyedTotal_complete {m m' : KMap κ α} {rel : List (κ × α)} (h : KeyedRel PrefixP m rel m') :
    ∀ (force : Bool) (log : List Call), (force = true → rel ≠ []) →
    ∃ tape d', keyedTotalLoop m (nonemptyKeyCount m) force ⟨tape, log⟩ = some (rel, m', d') := by
  induction h with
  | nil => intro force log _; exact ⟨[], ⟨[], log⟩, by simp [keyedTotalLoop]⟩
  | @cons k q r q' m0 rel0 m0' hp hrest ih =>
    intro force log hf
    have hp' : r ++ q' = q := hp
    by_cases hq : q.isEmpty = true
    · have hqe : q = [] := by simpa using hq
      subst hqe
      simp only [List.append_eq_nil_iff] at hp'
      obtain ⟨rfl, rfl⟩ := hp'
      obtain ⟨tape, d', ht⟩ := ih force log (by simpa using hf)
      refine ⟨tape, d', ?_⟩
      unfold keyedTotalLoop
      simp only [List.isEmpty_nil, ↓reduceIte, aux_nonemptyKeyCount_cons_empty (k := k) (rest := m0) hq, ht,
        List.map_nil, List.nil_append]
    · have hcnt := aux_nonemptyKeyCount_cons_nonempty (k := k) (rest := m0) hq
      have htake : q.take r.length = r := by rw [← hp']; simp
      have hdrop : q.drop r.length = q' := by rw [← hp']; simp
      have hlen : r.length ≤ q.length := by rw [← hp']; simp
      have hlo : (if (force && nonemptyKeyCount m0 == 0) = true then 1 else 0) ≤ r.length := by
        split
        · rename_i hc
          simp only [Bool.and_eq_true, beq_iff_eq] at hc
          have hrel0 := aux_keyedRel_empty (P := PrefixP) (by intro r q' h; simp [PrefixP] at h; exact h.1) hrest hc.2
          have := hf hc.1
          rw [hrel0] at this
          cases r with
          | nil => simp at this
          | cons _ _ => simp
        · exact Nat.zero_le _
      obtain ⟨tape, d', ht⟩ := ih (if 0 < r.length then false else force)
        (.u (if (force && nonemptyKeyCount m0 == 0) = true then 1 else 0) q.length r.length :: log) (by
          intro hff
          split at hff
          · simp at hff
          · rename_i h0
            have : r = [] := by cases r with
              | nil => rfl
              | cons _ _ => simp at h0
            subst this
            simpa using hf hff)
      refine ⟨(r.length - (if (force && nonemptyKeyCount m0 == 0) = true then 1 else 0)) :: tape, d', ?_⟩
      unfold keyedTotalLoop
      simp only [hq, Bool.false_eq_true, ↓reduceIte, hcnt, Nat.add_sub_cancel]
      rw [aux_nat_hit _ _ r.length log tape hlo hlen]
      simp only [ht, htake, hdrop]

/-- every combination of per-key prefixes (not all empty when forced) is released by some tape -/
theorem keyedTotal_every_prefix_vector_reachable {m m' : KMap κ α} {rel : List (κ × α)} (force : Bool)
    (log : List Call) (h : KeyedRel PrefixP m rel m') (hf : force = true → rel ≠ []) :
    ∃ tape d', keyedTotalAuto m ⟨tape, log⟩ force = some (rel, m', !rel.isEmpty, d') := by
  obtain ⟨tape, d', ht⟩ := aux_keyedTotal_complete h force log hf
  exact ⟨tape, d', by simp [keyedTotalAuto, ht]⟩


/-! ### KeyedStreamHook<NoOrder>: every combination of per-key sub-multisets -/

theorem aux_keyedNoInner_complete : ∀ (fuel : Nat) (pre post out : List α) (log : List Call) (force : Bool)
    (remaining : Nat) (sel rem : List α), fuel = (pre ++ post).length → (post = [] → pre = []) → Split post sel rem →
    ((force && remaining == 0) = true → sel ≠ []) →
    ∃ tape log', ∀ rest, keyedNoInner fuel force remaining (pre ++ post) out pre.length ⟨tape ++ rest, log⟩
      = some (out ++ sel, pre ++ rem, (if sel.isEmpty then force else false), ⟨rest, log'⟩) := by
  intro fuel
  induction fuel with
  | zero =>
    intro pre post out log force remaining sel rem hf hp hs _
    have hq : pre ++ post = [] := List.length_eq_zero_iff.mp hf.symm
    simp only [List.append_eq_nil_iff] at hq
    obtain ⟨rfl, rfl⟩ := hq
    obtain ⟨rfl, rfl⟩ := aux_split_of_nil hs
    exact ⟨[], log, fun rest => by simp [keyedNoInner]⟩
  | succ n ih =>
    intro pre post out log force remaining sel rem hf hp hs hforce
    by_cases hpost : post = []
    · subst hpost
      have := hp rfl; subst this
      obtain ⟨rfl, rfl⟩ := aux_split_of_nil hs
      exact ⟨[], log, fun rest => by simp [keyedNoInner]⟩
    · have hne : (pre ++ post).isEmpty = false := by
        cases post with
        | nil => exact absurd rfl hpost
        | cons _ _ => simp
      cases sel with
      | nil =>
        have hrem := aux_split_nil_left hs
        subst hrem
        have hmust : (force && remaining == 0) = false := by
          cases hm : (force && remaining == 0) with
          | false => rfl
          | true => exact absurd rfl (hforce hm)
        refine ⟨[1], .b true :: log, fun rest => ?_⟩
        unfold keyedNoInner
        simp only [hne, Bool.false_eq_true, ↓reduceIte, hmust, Bool.not_false]
        have := aux_boolIf_hit true log rest
        simp only [↓reduceIte] at this
        simp only [List.cons_append, List.nil_append, this, ↓reduceIte, List.append_nil, List.isEmpty_nil]
      | cons x s' =>
        obtain ⟨a, b, r', hl, hr, hsb⟩ := aux_split_first hs
        subst hr
        have hidx : (pre ++ post)[(pre ++ a).length]? = some x := by
          rw [hl, ← List.append_assoc]; simp
        have hlen : (pre ++ a).length < (pre ++ post).length := by
          rw [hl]; simp
        have herase : (pre ++ post).eraseIdx (pre ++ a).length = (pre ++ a) ++ b := by
          rw [hl, ← List.append_assoc, List.eraseIdx_append_of_length_le (Nat.le_refl _)]; simp
        have hrec : ∀ log', ∃ tape log'', ∀ rest, (if ((pre ++ a).length == ((pre ++ a) ++ b).length) = true
              then some (out ++ [x], (pre ++ a) ++ b, false, (⟨tape ++ rest, log'⟩ : Drv))
              else keyedNoInner n false remaining ((pre ++ a) ++ b) (out ++ [x]) (pre ++ a).length ⟨tape ++ rest, log'⟩)
            = some (out ++ x :: s', pre ++ (a ++ r'), false, ⟨rest, log''⟩) := by
          intro log'
          cases hb : b with
          | nil =>
            subst hb
            obtain ⟨rfl, rfl⟩ := aux_split_of_nil hsb
            exact ⟨[], log', fun rest => by simp⟩
          | cons b0 bs =>
            have hneq : ((pre ++ a).length == ((pre ++ a) ++ b).length) = false := by
              simp [hb]
            have hfuel : n = ((pre ++ a) ++ b).length := by
              have := hf; rw [hl] at this; simp at this ⊢; omega
            obtain ⟨tape, log'', ht⟩ := ih (pre ++ a) b (out ++ [x]) log' false remaining s' r' hfuel
              (by intro hbn; simp [hb] at hbn) hsb (by simp)
            refine ⟨tape, log'', fun rest => ?_⟩
            rw [← hb, hneq]
            simp only [Bool.false_eq_true, ↓reduceIte]
            simpa [List.append_assoc] using ht rest
        cases hm : (force && remaining == 0) with
        | true =>
          obtain ⟨tape, log'', ht⟩ := hrec (.u pre.length ((pre ++ post).length - 1) (pre ++ a).length :: log)
          refine ⟨((pre ++ a).length - pre.length) :: tape, log'', fun rest => ?_⟩
          unfold keyedNoInner
          simp only [hne, Bool.false_eq_true, ↓reduceIte, hm, Bool.not_true, aux_boolIf_false, List.cons_append]
          rw [aux_natEx_hit pre.length (pre ++ post).length (pre ++ a).length log (tape ++ rest) (by simp) hlen]
          simp only [hidx, herase, List.isEmpty_cons]
          exact ht rest
        | false =>
          obtain ⟨tape, log'', ht⟩ := hrec (.u pre.length ((pre ++ post).length - 1) (pre ++ a).length :: .b false :: log)
          refine ⟨0 :: ((pre ++ a).length - pre.length) :: tape, log'', fun rest => ?_⟩
          unfold keyedNoInner
          simp only [hne, Bool.false_eq_true, ↓reduceIte, hm, Bool.not_false, List.cons_append]
          have hb0 := aux_boolIf_hit false log (((pre ++ a).length - pre.length) :: (tape ++ rest))
          simp only [Bool.false_eq_true, ↓reduceIte] at hb0
          simp only [hb0, Bool.false_eq_true, ↓reduceIte]
          rw [aux_natEx_hit pre.length (pre ++ post).length (pre ++ a).length _ (tape ++ rest) (by simp) hlen]
          simp only [hidx, herase, List.isEmpty_cons]
          exact ht rest

theorem aux_keyedNo_complete {m m' : KMap κ α} {rel : List (κ × α)} (h : KeyedRel Split m rel m') :
    ∀ (force : Bool) (log : List Call), (force = true → rel ≠ []) →
    ∃ tape d', keyedNoLoop m (nonemptyKeyCount m) force ⟨tape, log⟩ = some (rel, m', d') := by
  induction h with
  | nil => intro force log _; exact ⟨[], ⟨[], log⟩, by simp [keyedNoLoop]⟩
  | @cons k q r q' m0 rel0 m0' hp hrest ih =>
    intro force log hf
    by_cases hq : q.isEmpty = true
    · have hqe : q = [] := by simpa using hq
      subst hqe
      obtain ⟨rfl, rfl⟩ := aux_split_of_nil hp
      obtain ⟨tape, d', ht⟩ := ih force log (by simpa using hf)
      refine ⟨tape, d', ?_⟩
      unfold keyedNoLoop
      simp only [List.isEmpty_nil, ↓reduceIte, aux_nonemptyKeyCount_cons_empty (k := k) (rest := m0) hq, ht,
        List.map_nil, List.nil_append]
    · have hcnt := aux_nonemptyKeyCount_cons_nonempty (k := k) (rest := m0) hq
      have hqne : q ≠ [] := by intro hh; subst hh; simp at hq
      have hmust : (force && nonemptyKeyCount m0 == 0) = true → r ≠ [] := by
        intro hc
        simp only [Bool.and_eq_true, beq_iff_eq] at hc
        have hrel0 := aux_keyedRel_empty (P := Split) (fun r q' h => (aux_split_of_nil h).1) hrest hc.2
        have := hf hc.1
        rw [hrel0] at this
        intro hr; subst hr; simp at this
      obtain ⟨tape1, log1, ht1⟩ := aux_keyedNoInner_complete q.length [] q [] log force (nonemptyKeyCount m0) r q'
        (by simp) (by intro h; exact absurd h hqne) hp hmust
      simp only [List.nil_append, List.length_nil] at ht1
      obtain ⟨tape2, d', ht2⟩ := ih (if r.isEmpty then force else false) log1 (by
        intro hff
        cases r with
        | nil => simpa using hf (by simpa using hff)
        | cons _ _ => simp at hff)
      refine ⟨tape1 ++ tape2, d', ?_⟩
      unfold keyedNoLoop
      simp only [hq, Bool.false_eq_true, ↓reduceIte, hcnt, Nat.add_sub_cancel, ht1 tape2, ht2]

/-- every combination of per-key in-order sub-multisets (not all empty when forced) is released by
some tape -/
theorem keyedNo_every_split_vector_reachable {m m' : KMap κ α} {rel : List (κ × α)} (force : Bool)
    (log : List Call) (h : KeyedRel Split m rel m') (hf : force = true → rel ≠ []) :
    ∃ tape d', keyedNoAuto m ⟨tape, log⟩ force = some (rel, m', !rel.isEmpty, d') := by
  obtain ⟨tape, d', ht⟩ := aux_keyedNo_complete h force log hf
  exact ⟨tape, d', by simp [keyedNoAuto, ht]⟩


example : ∃ tape d', keyedNoAuto [(7, [1, 2]), (9, [3])] ⟨tape, []⟩ false
    = some ([(7, 2), (9, 3)], [(7, [1]), (9, [])], true, d') :=
  keyedNo_every_split_vector_reachable (m := [(7, [1, 2]), (9, [3])]) false []
    (.cons (r := [2]) (q' := [1]) (.right (.left .nil)) (.cons (r := [3]) (q' := []) (.left .nil) .nil)) (by simp)

/-! ### SingletonHook: every buffered version, and the unchanged snapshot -/

/-- every buffered snapshot version is released by some tape (skipping the older ones) -/
theorem singleton_every_version_reachable (s : SingSt α) (force : Bool) (log : List Call) (i : Nat) (x : α)
    (hx : s.q[i]? = some x) :
    ∃ tape d', singletonAuto s ⟨tape, log⟩ force
      = some (true, { q := s.q.drop (i + 1), rel := some (x, true), last := s.last, skipped := s.q.take i }, d') := by
  have hi : i < s.q.length := by
    rcases Nat.lt_or_ge i s.q.length with h | h
    · exact h
    · simp [List.getElem?_eq_none h] at hx
  have hne : s.q.isEmpty = false := by
    cases hq : s.q with
    | nil => simp [hq] at hi
    | cons _ _ => simp
  have hdrop : s.q.drop i = x :: s.q.drop (i + 1) := by
    rw [List.getElem?_eq_getElem hi] at hx
    simp only [Option.some.injEq] at hx
    rw [← hx]; exact List.drop_eq_getElem_cons hi
  cases hdraw : (!force && s.last.isSome) with
  | false =>
    refine ⟨[i], ?_⟩
    unfold singletonAuto
    simp only [hne, Bool.false_eq_true, ↓reduceIte, hdraw, aux_boolIf_false]
    have := aux_natEx_hit 0 s.q.length i log [] (Nat.zero_le _) hi
    simp only [Nat.sub_zero] at this
    simp only [this, hdrop]
    exact ⟨_, rfl⟩
  | true =>
    refine ⟨[0, i], ?_⟩
    unfold singletonAuto
    simp only [hne, Bool.false_eq_true, ↓reduceIte, hdraw]
    have hb := aux_boolIf_hit false log [i]
    simp only [Bool.false_eq_true, ↓reduceIte] at hb
    simp only [hb, Bool.false_eq_true, ↓reduceIte]
    have := aux_natEx_hit 0 s.q.length i (.b false :: log) [] (Nat.zero_le _) hi
    simp only [Nat.sub_zero] at this
    simp only [this, hdrop]
    exact ⟨_, rfl⟩

/-- when not forced, re-releasing the last snapshot unchanged is reachable as well -/
theorem singleton_unchanged_reachable (s : SingSt α) (log : List Call) (l : α) (hl : s.last = some l) :
    ∃ tape d', singletonAuto s ⟨tape, log⟩ false = some (false, { s with rel := some (l, false) }, d') := by
  by_cases hq : s.q.isEmpty = true
  · exact ⟨[], ⟨[], log⟩, by simp [singletonAuto, hq, hl]⟩
  · refine ⟨[1], ?_⟩
    unfold singletonAuto
    simp only [hq, Bool.false_eq_true, ↓reduceIte, Bool.not_false, hl, Option.isSome_some, Bool.and_self]
    have hb := aux_boolIf_hit true log []
    simp only [↓reduceIte] at hb
    simp only [hb, ↓reduceIte]
    exact ⟨_, rfl⟩

/-! ### `run_hooks`: a tick / observation with one hook explores that hook's forced decision space -/

/-- The scheduler resolves a runnable single-hook tick or observation by forcing that hook:
`run_hooks [h]` = `h.autonomous_decision(driver, true)` followed by `release_decision`; the
"stay silent" decision is the scheduler not picking it (`scheduler_pick_any_ready`). -/
theorem runHooks_single_is_forced [DecidableEq κ] (h : Hook κ α) (d : Drv)
    (hidle : h.cur = none) (hcan : h.canNT = true) :
    runHooks [h] d =
      match h.auto d true with
      | none => none
      | some (nt, h1, d1) =>
        match h1.release with
        | none => none
        | some (h2, out) => some ([h2], [out], nt, d1) := by
  simp only [runHooks, runPass1, hidle, hcan, Bool.not_true, Bool.false_eq_true, ↓reduceIte, List.length_cons,
    List.length_nil, Nat.zero_add, runPass2, Bool.not_false, BEq.rfl, Bool.and_self]
  cases h.auto d true with
  | none => rfl
  | some res =>
    obtain ⟨nt, h1, d1⟩ := res
    simp only [Nat.sub_self, Bool.false_or]
    cases hr : h1.release with
    | none => simp [hr]
    | some r => obtain ⟨h2, out⟩ := r; simp [hr]

/-- Full completeness of the two-pass forcing logic for ticks with several hooks: every vector of
per-hook decisions (each reachable unforced) that has at least one non-trivial component is produced
by some tape.  Only the statement; proved here for one hook (`runHooks_single_is_forced`) — the
general case needs a tape-framing lemma per hook kind and is exercised by the correspondence check. -/
def runHooksReachesEveryVectorStatement (κ α : Type) [DecidableEq κ] : Prop :=
  ∀ (hs : List (Hook κ α)) (tapes : List (List Nat)) (res : List (Bool × Hook κ α × List (Msg κ α))),
    (∀ h ∈ hs, h.cur = none) → tapes.length = hs.length → res.length = hs.length →
    (∀ i (hi : i < hs.length), ∃ t r h1 d1, tapes[i]? = some t ∧ res[i]? = some r ∧
        hs[i].auto ⟨t, []⟩ false = some (r.1, h1, d1) ∧ h1.release = some (r.2.1, r.2.2)) →
    (∃ r ∈ res, r.1 = true) →
    ∃ tape d', runHooks hs ⟨tape, []⟩ = some (res.map (·.2.1), res.map (·.2.2), true, d')


example : ∃ tape d', keyedTotalAuto [(7, [1, 2]), (9, [3])] ⟨tape, []⟩ true
    = some ([(7, 1)], [(7, [2]), (9, [3])], true, d') :=
  keyedTotal_every_prefix_vector_reachable (m := [(7, [1, 2]), (9, [3])]) true []
    (.cons (r := [1]) (q' := [2]) rfl (.cons (r := []) (q' := [3]) rfl .nil)) (by simp)

example : ∃ tape d', singletonAuto { q := [5, 6, 7], last := some 4 } ⟨tape, []⟩ false
    = some (true, { q := [7], rel := some (6, true), last := some 4, skipped := [5] }, d') :=
  singleton_every_version_reachable { q := [5, 6, 7], last := some 4 } false [] 1 6 rfl


/-! ### the `min_index` pruning explores every subset exactly once -/

theorem aux_natEx_log {d d' : Drv} {lo hi v : Nat} (h : d.natEx lo hi = some (v, d')) :
    d'.log = .u lo (hi - 1) v :: d.log := by
  unfold Drv.natEx at h
  split at h
  · simp at h
  · unfold Drv.nat at h
    split at h
    · simp at h
    · simp only [Option.some.injEq, Prod.mk.injEq] at h
      obtain ⟨rfl, rfl⟩ := h; rfl

/-- one round of the `StreamHook<NoOrder>` loop on a non-empty queue: it stops, or picks `idx ≥ min_index` -/
theorem aux_streamNo_step {n : Nat} {force : Bool} {q out : List α} {mi : Nat} {d : Drv}
    {o q' : List α} {d' : Drv} (hq : q.isEmpty = false)
    (h : streamNoLoop (n + 1) force q out mi d = some (o, q', d')) :
    (o = out ∧ q' = q ∧ (force && out.isEmpty) = false ∧ d'.log = .b true :: d.log) ∨
    (∃ idx item d2, q[idx]? = some item ∧
      d2.log = .u mi (q.length - 1) idx :: (if (force && out.isEmpty) = true then d.log else .b false :: d.log) ∧
      (if (idx == (q.eraseIdx idx).length) = true then (o, q', d') = (out ++ [item], q.eraseIdx idx, d2)
       else streamNoLoop n force (q.eraseIdx idx) (out ++ [item]) idx d2 = some (o, q', d'))) := by
  unfold streamNoLoop at h
  simp only [hq, Bool.false_eq_true, ↓reduceIte] at h
  cases hm : (force && out.isEmpty) with
  | true =>
    simp only [hm, Bool.not_true, aux_boolIf_false, Bool.false_eq_true, ↓reduceIte] at h
    right
    split at h
    · simp at h
    · rename_i idx d2 hidx
      split at h
      · simp at h
      · rename_i item hitem
        refine ⟨idx, item, d2, hitem, by simp [aux_natEx_log hidx], ?_⟩
        split at h
        · rename_i hc
          simp only [Option.some.injEq] at h
          simp [hc, h.symm]
        · rename_i hc
          simp [hc, h]
  | false =>
    simp only [hm, Bool.not_false] at h
    have hb : d.boolIf true = (d.bool.1, d.bool.2) := rfl
    rw [hb] at h
    simp only at h
    cases hv : d.bool.1 with
    | true =>
      simp only [hv, ↓reduceIte, Option.some.injEq, Prod.mk.injEq] at h
      obtain ⟨rfl, rfl, rfl⟩ := h
      left
      refine ⟨rfl, rfl, rfl, ?_⟩
      simp [Drv.bool] at hv ⊢
      exact hv
    | false =>
      simp only [hv, Bool.false_eq_true, ↓reduceIte] at h
      right
      have hlog : d.bool.2.log = .b false :: d.log := by
        simp [Drv.bool] at hv ⊢; exact hv
      split at h
      · simp at h
      · rename_i idx d2 hidx
        split at h
        · simp at h
        · rename_i item hitem
          refine ⟨idx, item, d2, hitem, by simp [aux_natEx_log hidx, hlog], ?_⟩
          split at h
          · rename_i hc
            simp only [Option.some.injEq] at h
            simp [hc, h.symm]
          · rename_i hc
            simp [hc, h]

theorem aux_getElem?_inj {q : List α} (hnd : q.Nodup) {i j : Nat} {x : α}
    (hi : q[i]? = some x) (hj : q[j]? = some x) : i = j := by
  have hil : i < q.length := by
    rcases Nat.lt_or_ge i q.length with h | h
    · exact h
    · simp [List.getElem?_eq_none h] at hi
  have hjl : j < q.length := by
    rcases Nat.lt_or_ge j q.length with h | h
    · exact h
    · simp [List.getElem?_eq_none h] at hj
  rw [List.getElem?_eq_getElem hil] at hi
  rw [List.getElem?_eq_getElem hjl] at hj
  simp only [Option.some.injEq] at hi hj
  exact (List.getElem_inj hnd).mp (hi.trans hj.symm)

theorem aux_streamNoLoop_unique : ∀ (fuel : Nat) (force : Bool) (q out : List α) (mi : Nat) (da db : Drv)
    {o qa qb : List α} {da' db' : Drv}, q.Nodup → mi ≤ q.length → da.log = db.log →
    streamNoLoop fuel force q out mi da = some (o, qa, da') →
    streamNoLoop fuel force q out mi db = some (o, qb, db') →
    da'.log = db'.log ∧ qa = qb := by
  intro fuel
  induction fuel with
  | zero =>
    intro force q out mi da db o qa qb da' db' _ _ hl ha hb
    simp only [streamNoLoop, Option.some.injEq, Prod.mk.injEq] at ha hb
    obtain ⟨_, rfl, rfl⟩ := ha
    obtain ⟨_, rfl, rfl⟩ := hb
    exact ⟨hl, rfl⟩
  | succ n ih =>
    intro force q out mi da db o qa qb da' db' hnd hmi hl ha hb
    by_cases hq : q.isEmpty = true
    · unfold streamNoLoop at ha hb
      simp only [hq, ↓reduceIte, Option.some.injEq, Prod.mk.injEq] at ha hb
      obtain ⟨_, rfl, rfl⟩ := ha
      obtain ⟨_, rfl, rfl⟩ := hb
      exact ⟨hl, rfl⟩
    · have hq' : q.isEmpty = false := by simpa using hq
      -- what the result says about the released items
      have grow : ∀ {d : Drv} {idx : Nat} {item : α} {d2 : Drv} {q' : List α} {d' : Drv},
          q[idx]? = some item →
          (if (idx == (q.eraseIdx idx).length) = true then (o, q', d') = (out ++ [item], q.eraseIdx idx, d2)
           else streamNoLoop n force (q.eraseIdx idx) (out ++ [item]) idx d2 = some (o, q', d')) →
          ∃ sel, o = out ++ item :: sel := by
        intro d idx item d2 q' d' hitem hres
        split at hres
        · simp only [Prod.mk.injEq] at hres
          exact ⟨[], by simp [hres.1]⟩
        · rename_i hc
          have hlt : idx < q.length := by
            rcases Nat.lt_or_ge idx q.length with h | h
            · exact h
            · simp [List.getElem?_eq_none h] at hitem
          have hle : idx ≤ (q.eraseIdx idx).length := by
            rw [List.length_eraseIdx]; simp [hlt]; omega
          obtain ⟨sel, rem, h1, _, _⟩ := aux_streamNoLoop _ _ _ _ _ _ hle hres
          exact ⟨sel, by simp [h1]⟩
      rcases aux_streamNo_step hq' ha with ⟨ha1, ha2, ham, hal⟩ | ⟨ia, xa, da2, hxa, hla, hra⟩
      · rcases aux_streamNo_step hq' hb with ⟨hb1, hb2, hbm, hbl⟩ | ⟨ib, xb, db2, hxb, hlb, hrb⟩
        · exact ⟨by rw [hal, hbl, hl], by rw [ha2, hb2]⟩
        · obtain ⟨sel, hsel⟩ := grow (d := db) hxb hrb
          rw [ha1] at hsel
          have := congrArg List.length hsel
          simp at this
      · rcases aux_streamNo_step hq' hb with ⟨hb1, hb2, hbm, hbl⟩ | ⟨ib, xb, db2, hxb, hlb, hrb⟩
        · obtain ⟨sel, hsel⟩ := grow (d := da) hxa hra
          rw [hb1] at hsel
          have := congrArg List.length hsel
          simp at this
        · obtain ⟨sa, hsa⟩ := grow (d := da) hxa hra
          obtain ⟨sb, hsb⟩ := grow (d := db) hxb hrb
          have hx : xa = xb := by
            rw [hsa] at hsb
            have := List.append_cancel_left hsb
            simp only [List.cons.injEq] at this
            exact this.1
          subst hx
          have hi : ia = ib := aux_getElem?_inj hnd hxa hxb
          subst hi
          have hl2 : da2.log = db2.log := by rw [hla, hlb, hl]
          split at hra
          · rename_i hc
            simp only [hc, ↓reduceIte, Prod.mk.injEq] at hra hrb
            obtain ⟨_, rfl, rfl⟩ := hra
            obtain ⟨_, rfl, rfl⟩ := hrb
            exact ⟨hl2, rfl⟩
          · rename_i hc
            simp only [hc, Bool.false_eq_true, ↓reduceIte] at hrb
            have hlt : ia < q.length := by
              rcases Nat.lt_or_ge ia q.length with h | h
              · exact h
              · simp [List.getElem?_eq_none h] at hxa
            have hle : ia ≤ (q.eraseIdx ia).length := by
              rw [List.length_eraseIdx]; simp [hlt]; omega
            exact ih force _ _ _ da2 db2 (hnd.sublist (List.eraseIdx_sublist ..)) hle hl2 hra hrb

/-- Together with `streamNo_every_split_reachable`: on a queue of distinct items, a released batch
determines the whole sequence of driver calls (ranges and answers) that produced it and the remaining
queue — every in-order sub-multiset is reached by exactly one pick sequence, so the exhaustive search
visits each subset once. -/
theorem noOrder_pick_sequence_unique {q r qa qb : List α} {force nta ntb : Bool} {ta tb : List Nat} {da db : Drv}
    (hnd : q.Nodup)
    (ha : streamNoAuto q ⟨ta, []⟩ force = some (r, qa, nta, da))
    (hb : streamNoAuto q ⟨tb, []⟩ force = some (r, qb, ntb, db)) :
    da.log = db.log ∧ qa = qb := by
  unfold streamNoAuto at ha hb
  split at ha
  · simp at ha
  · rename_i hla
    split at hb
    · simp at hb
    · rename_i hlb
      simp only [Option.some.injEq, Prod.mk.injEq] at ha hb
      obtain ⟨rfl, rfl, _, rfl⟩ := ha
      obtain ⟨rfl, rfl, _, rfl⟩ := hb
      exact aux_streamNoLoop_unique _ _ _ _ _ ⟨ta, []⟩ ⟨tb, []⟩ hnd (Nat.zero_le _) rfl hla hlb


example : (streamNoAuto [10, 20, 30] ⟨[0, 1, 1], []⟩ false).map (·.1) = some [20] ∧
    (streamNoAuto [10, 20, 30] ⟨[2, 4, 3], []⟩ false).map (·.1) = some [20] := by decide


/-! ### top-level order hooks: every single release -/

/-- `TopLevelStreamOrderHook`: every pending item can be the one released next -/
theorem tlOrder_every_item_reachable (q : List α) (force : Bool) (log : List Call) (idx : Nat) (x : α)
    (hx : q[idx]? = some x) :
    ∃ tape d', tlOrderAuto q ⟨tape, log⟩ force = some ([x], q.eraseIdx idx, true, d') := by
  have hi : idx < q.length := by
    rcases Nat.lt_or_ge idx q.length with h | h
    · exact h
    · simp [List.getElem?_eq_none h] at hx
  have hne : q.isEmpty = false := by
    cases hq : q with
    | nil => simp [hq] at hi
    | cons _ _ => simp
  cases force with
  | true =>
    refine ⟨[idx], ?_⟩
    unfold tlOrderAuto
    simp only [hne, Bool.false_eq_true, ↓reduceIte, Bool.not_true, aux_boolIf_false]
    have := aux_natEx_hit 0 q.length idx log [] (Nat.zero_le _) hi
    simp only [Nat.sub_zero] at this
    simp only [this, hx]
    exact ⟨_, rfl⟩
  | false =>
    refine ⟨[0, idx], ?_⟩
    unfold tlOrderAuto
    simp only [hne, Bool.false_eq_true, ↓reduceIte, Bool.not_false]
    have hb := aux_boolIf_hit false log [idx]
    simp only [Bool.false_eq_true, ↓reduceIte] at hb
    simp only [hb, Bool.false_eq_true, ↓reduceIte]
    have := aux_natEx_hit 0 q.length idx (.b false :: log) [] (Nat.zero_le _) hi
    simp only [Nat.sub_zero] at this
    simp only [this, hx]
    exact ⟨_, rfl⟩

/-- … and, when not forced, so can "release nothing" -/
theorem tlOrder_silence_reachable (q : List α) (log : List Call) :
    ∃ tape d', tlOrderAuto q ⟨tape, log⟩ false = some ([], q, false, d') := by
  by_cases hq : q.isEmpty = true
  · exact ⟨[], ⟨[], log⟩, by simp [tlOrderAuto, hq]⟩
  · refine ⟨[1], ?_⟩
    unfold tlOrderAuto
    simp only [hq, Bool.false_eq_true, ↓reduceIte, Bool.not_false]
    have hb := aux_boolIf_hit true log []
    simp only [↓reduceIte] at hb
    simp only [hb, ↓reduceIte]
    exact ⟨_, rfl⟩

/-- `TopLevelMergeOrderedHook`: with both inputs pending, either front can be released next -/
theorem tlMerge_either_front_reachable (x y : α) (r1 r2 : List α) (force : Bool) (log : List Call) :
    (∃ tape d', tlMergeAuto (x :: r1) (y :: r2) ⟨tape, log⟩ force = some ([x], r1, y :: r2, true, d')) ∧
    (∃ tape d', tlMergeAuto (x :: r1) (y :: r2) ⟨tape, log⟩ force = some ([y], x :: r1, r2, true, d')) := by
  cases force with
  | true =>
    constructor
    · refine ⟨[0], ?_⟩
      simp only [tlMergeAuto, List.isEmpty_cons, Bool.and_self, Bool.false_eq_true, ↓reduceIte, Bool.not_true,
        aux_boolIf_false]
      have hb := aux_bool_hit false log []
      simp only [Bool.false_eq_true, ↓reduceIte] at hb
      simp only [hb, Bool.false_eq_true, ↓reduceIte]
      exact ⟨_, rfl⟩
    · refine ⟨[1], ?_⟩
      simp only [tlMergeAuto, List.isEmpty_cons, Bool.and_self, Bool.false_eq_true, ↓reduceIte, Bool.not_true,
        aux_boolIf_false]
      have hb := aux_bool_hit true log []
      simp only [↓reduceIte] at hb
      simp only [hb, ↓reduceIte]
      exact ⟨_, rfl⟩
  | false =>
    have hb0 := fun rest => aux_boolIf_hit false log rest
    simp only [Bool.false_eq_true, ↓reduceIte] at hb0
    constructor
    · refine ⟨[0, 0], ?_⟩
      simp only [tlMergeAuto, List.isEmpty_cons, Bool.and_self, Bool.false_eq_true, ↓reduceIte, Bool.not_false, hb0]
      have hb := aux_bool_hit false (.b false :: log) []
      simp only [Bool.false_eq_true, ↓reduceIte] at hb
      simp only [hb, Bool.false_eq_true, ↓reduceIte]
      exact ⟨_, rfl⟩
    · refine ⟨[0, 1], ?_⟩
      simp only [tlMergeAuto, List.isEmpty_cons, Bool.and_self, Bool.false_eq_true, ↓reduceIte, Bool.not_false, hb0]
      have hb := aux_bool_hit true (.b false :: log) []
      simp only [↓reduceIte] at hb
      simp only [hb, ↓reduceIte]
      exact ⟨_, rfl⟩



/-! ### TopLevelFoldHook: every non-empty subset is selected (in some order) -/

theorem aux_split_single {x : α} {s r : List α} (h : Split [x] s r) : (s = [x] ∧ r = []) ∨ (s = [] ∧ r = [x]) := by
  cases h with
  | left h' => cases h'; exact Or.inl ⟨rfl, rfl⟩
  | right h' => cases h'; exact Or.inr ⟨rfl, rfl⟩

theorem aux_foldSelect_complete : ∀ (q s0 r0 sel rem : List α) (log : List Call), Split q sel rem →
    (q ≠ [] → s0 ++ sel ≠ []) →
    ∃ tape d', foldSelect q s0 r0 ⟨tape, log⟩ = (s0 ++ sel, r0 ++ rem, d') := by
  intro q
  induction q with
  | nil =>
    intro s0 r0 sel rem log hs _
    obtain ⟨rfl, rfl⟩ := aux_split_of_nil hs
    exact ⟨[], ⟨[], log⟩, by simp [foldSelect]⟩
  | cons x r ih =>
    intro s0 r0 sel rem log hs hne
    cases r with
    | nil =>
      rcases aux_split_single hs with ⟨rfl, rfl⟩ | ⟨rfl, rfl⟩
      · by_cases he : s0.isEmpty = true
        · exact ⟨[], ⟨[], log⟩, by simp [foldSelect, he]⟩
        · refine ⟨[1], ?_⟩
          have hb := aux_bool_hit true log []
          simp only [↓reduceIte] at hb
          simp only [foldSelect, he, Bool.false_eq_true, ↓reduceIte, hb, List.append_nil]
          exact ⟨_, rfl⟩
      · have he : s0.isEmpty = false := by
          have := hne (by simp)
          cases s0 with
          | nil => simp at this
          | cons _ _ => simp
        refine ⟨[0], ?_⟩
        have hb := aux_bool_hit false log []
        simp only [Bool.false_eq_true, ↓reduceIte] at hb
        simp only [foldSelect, he, Bool.false_eq_true, ↓reduceIte, hb, List.append_nil]
        exact ⟨_, rfl⟩
    | cons y r' =>
      cases hs with
      | @left _ _ a b hs' =>
        obtain ⟨tape, d', ht⟩ := ih (s0 ++ [x]) r0 a rem (.b true :: log) hs' (by simp)
        refine ⟨1 :: tape, d', ?_⟩
        have hb := aux_bool_hit true log tape
        simp only [↓reduceIte] at hb
        simp only [foldSelect, hb, ↓reduceIte]
        simpa using ht
      | @right _ _ a b hs' =>
        obtain ⟨tape, d', ht⟩ := ih s0 (r0 ++ [x]) sel b (.b false :: log) hs' (by
          intro _; exact hne (by simp))
        refine ⟨0 :: tape, d', ?_⟩
        have hb := aux_bool_hit false log tape
        simp only [Bool.false_eq_true, ↓reduceIte] at hb
        simp only [foldSelect, hb, Bool.false_eq_true, ↓reduceIte]
        simpa using ht

theorem aux_fisherYates_some : ∀ (n : Nat) (l : List α) (d : Drv), ∃ l' d', fisherYates n l d = some (l', d') := by
  intro n
  induction n with
  | zero => intro l d; exact ⟨l, d, rfl⟩
  | succ i ih =>
    intro l d
    unfold fisherYates
    have : ∃ j d1, d.nat 0 (i + 1) = some (j, d1) := by
      unfold Drv.nat; simp
    obtain ⟨j, d1, hj⟩ := this
    simp only [hj]
    exact ih _ _

/-- every non-empty sub-multiset of the buffered fold inputs is released (in some order) by some
tape, the rest staying buffered in queue order -/
theorem tlFold_every_selection_reachable [DecidableEq α] (q sel rem : List α) (force : Bool) (log : List Call)
    (hs : Split q sel rem) (hne : sel ≠ []) :
    ∃ tape r d', tlFoldAuto q ⟨tape, log⟩ force = some (r, rem, true, d') ∧ r.Perm sel := by
  have hq : q.isEmpty = false := by
    cases q with
    | nil => exact absurd (aux_split_of_nil hs).1 hne
    | cons _ _ => simp
  obtain ⟨tape, d1, ht⟩ := aux_foldSelect_complete q [] [] sel rem log hs (by simpa using fun _ => hne)
  simp only [List.nil_append] at ht
  obtain ⟨r, d2, hfy⟩ := aux_fisherYates_some (sel.length - 1) sel d1
  refine ⟨tape, r, d2, ?_, aux_fisherYates_perm _ _ _ hfy⟩
  simp [tlFoldAuto, hq, ht, hfy]



/-- the proved part of `runHooksReachesEveryVectorStatement`: ticks / observations with one hook —
every decision the hook can make when forced is what `run_hooks` produces on the same tape
(missing: several hooks, which needs a tape-framing lemma per hook kind) -/
theorem runHooks_reaches_every_vector_partial [DecidableEq κ] (h : Hook κ α) (tape : List Nat)
    (hidle : h.cur = none) (hcan : h.canNT = true) {nt : Bool} {h1 h2 : Hook κ α} {d1 : Drv}
    {out : List (Msg κ α)} (ha : h.auto ⟨tape, []⟩ true = some (nt, h1, d1)) (hr : h1.release = some (h2, out)) :
    runHooks [h] ⟨tape, []⟩ = some ([h2], [out], nt, d1) := by
  rw [runHooks_single_is_forced h _ hidle hcan]
  simp [ha, hr]


end HvSim
