/-
C37 — exhaustive simulation covers every distinct schedule (completeness of the decision spaces).

Soundness (C36) says every tape yields an allowed decision; here the converse: every allowed decision
is produced by *some* tape — every prefix size of an ordered input, every in-order sub-multiset of an
unordered one (the `min_index` pruning loses none), every per-key combination for keyed inputs,
every buffered snapshot version, every ready tick/observation.  bolero's exhaustive driver
enumerates all tapes (its depth-first search is exercised, not modelled: the harness compares the
set of outcomes it reaches on the real hooks with the sets specified here).
-/
import HvSim.Props.C36
import HvSim.Model.Enum
import HvSim.Model.Trace
namespace HvSim
variable {α κ β : Type}

/-! ### driver: every value of a range is some tape entry -/

theorem aux_nat_hit (lo hi v : Nat) (log : List Call) (rest : List Nat) (h1 : lo ≤ v) (h2 : v ≤ hi) :
    (⟨(v - lo) :: rest, log⟩ : Drv).nat lo hi = some (v, ⟨rest, .u lo hi v :: log⟩) := by
  have : ¬ hi < lo := by omega
  have hm : (v - lo) % (hi - lo + 1) = v - lo := Nat.mod_eq_of_lt (by omega)
  simp only [Drv.nat, this, ↓reduceIte, List.headD_cons, hm, List.tail_cons, Option.some.injEq, Prod.mk.injEq,
    Drv.mk.injEq, List.cons.injEq, Call.u.injEq, true_and, and_true]
  omega

theorem aux_natEx_hit (lo hi v : Nat) (log : List Call) (rest : List Nat) (h1 : lo ≤ v) (h2 : v < hi) :
    (⟨(v - lo) :: rest, log⟩ : Drv).natEx lo hi = some (v, ⟨rest, .u lo (hi - 1) v :: log⟩) := by
  have : ¬ hi ≤ lo := by omega
  simp only [Drv.natEx, this, ↓reduceIte]
  exact aux_nat_hit lo (hi - 1) v log rest h1 (by omega)

theorem aux_bool_hit (b : Bool) (log : List Call) (rest : List Nat) :
    (⟨(if b then 1 else 0) :: rest, log⟩ : Drv).bool = (b, ⟨rest, .b b :: log⟩) := by
  cases b <;> simp [Drv.bool]

theorem aux_boolIf_hit (b : Bool) (log : List Call) (rest : List Nat) :
    (⟨(if b then 1 else 0) :: rest, log⟩ : Drv).boolIf true = (b, ⟨rest, .b b :: log⟩) := by
  simp [Drv.boolIf, aux_bool_hit]

/-! ### the scheduler's pick among ready ticks and observations -/

/-- `(0..(possibly_ready_ticks.len() + possibly_ready_observations.len())).any()` in `LaunchedSim::step`:
`inl i` runs tick `i`, `inr j` resolves observation `j` -/
def schedPick (nTicks nObs : Nat) (d : Drv) : Option ((Nat ⊕ Nat) × Drv) :=
  match d.natEx 0 (nTicks + nObs) with
  | none => none
  | some (i, d') => some (if i < nTicks then .inl i else .inr (i - nTicks), d')

/-- every ready tick and every ready observation is picked by some tape -/
theorem scheduler_pick_any_ready (nTicks nObs : Nat) (log : List Call) :
    (∀ i, i < nTicks → ∃ tape d', schedPick nTicks nObs ⟨tape, log⟩ = some (.inl i, d')) ∧
    (∀ j, j < nObs → ∃ tape d', schedPick nTicks nObs ⟨tape, log⟩ = some (.inr j, d')) := by
  constructor
  · intro i hi
    refine ⟨[i], ?_⟩
    have := aux_natEx_hit 0 (nTicks + nObs) i log [] (Nat.zero_le _) (by omega)
    simp only [Nat.sub_zero] at this
    simp only [schedPick, this, hi, ↓reduceIte]
    exact ⟨_, rfl⟩
  · intro j hj
    refine ⟨[nTicks + j], ?_⟩
    have := aux_natEx_hit 0 (nTicks + nObs) (nTicks + j) log [] (Nat.zero_le _) (by omega)
    simp only [Nat.sub_zero] at this
    have hnot : ¬ nTicks + j < nTicks := by omega
    simp only [schedPick, this, hnot, ↓reduceIte, Nat.add_sub_cancel_left]
    exact ⟨_, rfl⟩

/-! ### StreamHook<TotalOrder>: every prefix size -/

/-- every prefix size (at least one item when forced) is released by some tape -/
theorem streamTotal_every_prefix_reachable (q : List α) (force : Bool) (c : Nat) (log : List Call)
    (hlo : force = true → 1 ≤ c) (hhi : c ≤ q.length) :
    ∃ tape d', streamTotalAuto q ⟨tape, log⟩ force = some (q.take c, q.drop c, decide (0 < c), d') := by
  refine ⟨[c - (if force then 1 else 0)], ?_⟩
  have hlo' : (if force = true then 1 else 0) ≤ c := by
    cases force <;> simp_all
  simp only [streamTotalAuto, aux_nat_hit _ _ c log [] hlo' hhi]
  exact ⟨_, rfl⟩

/-- the decisions `specPrefixes` lists are exactly the reachable ones -/
theorem streamTotal_spec_reachable (q : List α) (force : Bool) (log : List Call) (r q' : List α)
    (h : (r, q') ∈ specPrefixes q (if force then 1 else 0)) :
    ∃ tape nt d', streamTotalAuto q ⟨tape, log⟩ force = some (r, q', nt, d') := by
  simp only [specPrefixes, List.mem_map, List.mem_filter, List.mem_range, decide_eq_true_eq, Prod.mk.injEq] at h
  obtain ⟨c, ⟨hc, hlo⟩, rfl, rfl⟩ := h
  obtain ⟨tape, d', ht⟩ := streamTotal_every_prefix_reachable q force c log
    (by intro hf; subst hf; simpa using hlo) (by omega)
  exact ⟨tape, _, d', ht⟩

example : ∃ tape d', streamTotalAuto [10, 20, 30] ⟨tape, []⟩ true = some ([10, 20], [30], true, d') :=
  streamTotal_every_prefix_reachable [10, 20, 30] true 2 [] (by simp) (by simp)


/-! ### StreamHook<NoOrder>: every in-order sub-multiset (the `min_index` pruning loses none) -/

theorem aux_split_first {l s r : List α} {x : α} (h : Split l (x :: s) r) :
    ∃ a b r', l = a ++ x :: b ∧ r = a ++ r' ∧ Split b s r' := by
  generalize hxs : x :: s = xs at h
  induction h with
  | nil => simp at hxs
  | @left y l a b hs _ =>
    simp only [List.cons.injEq] at hxs
    obtain ⟨rfl, rfl⟩ := hxs
    exact ⟨[], l, b, rfl, rfl, hs⟩
  | @right y l a b _ ih =>
    obtain ⟨a', b', r', h1, h2, h3⟩ := ih hxs
    exact ⟨y :: a', b', r', by simp [h1], by simp [h2], h3⟩

theorem aux_split_nil_left {l r : List α} (h : Split l [] r) : r = l := by
  generalize hs : ([] : List α) = s at h
  induction h with
  | nil => rfl
  | left _ _ => simp at hs
  | right _ ih => simp [ih hs]

theorem aux_split_of_nil {s r : List α} (h : Split [] s r) : s = [] ∧ r = [] := by
  cases h; exact ⟨rfl, rfl⟩

theorem aux_streamNoLoop_complete : ∀ (fuel : Nat) (pre post out : List α) (log : List Call) (force : Bool)
    (sel rem : List α), fuel = (pre ++ post).length → (post = [] → pre = []) → Split post sel rem →
    ((force && out.isEmpty) = true → sel ≠ []) →
    ∃ tape d', streamNoLoop fuel force (pre ++ post) out pre.length ⟨tape, log⟩ = some (out ++ sel, pre ++ rem, d') := by
  intro fuel
  induction fuel with
  | zero =>
    intro pre post out log force sel rem hf hp hs _
    have hq : pre ++ post = [] := List.length_eq_zero_iff.mp hf.symm
    simp only [List.append_eq_nil_iff] at hq
    obtain ⟨rfl, rfl⟩ := hq
    obtain ⟨rfl, rfl⟩ := aux_split_of_nil hs
    exact ⟨[], ⟨[], log⟩, by simp [streamNoLoop]⟩
  | succ n ih =>
    intro pre post out log force sel rem hf hp hs hforce
    by_cases hpost : post = []
    · subst hpost
      have := hp rfl; subst this
      obtain ⟨rfl, rfl⟩ := aux_split_of_nil hs
      exact ⟨[], ⟨[], log⟩, by simp [streamNoLoop]⟩
    · have hne : (pre ++ post).isEmpty = false := by
        cases post with
        | nil => exact absurd rfl hpost
        | cons _ _ => simp
      cases sel with
      | nil =>
        -- stop here: the driver answers `true` to "done?"
        have hrem := aux_split_nil_left hs
        subst hrem
        have hmust : (force && out.isEmpty) = false := by
          cases hm : (force && out.isEmpty) with
          | false => rfl
          | true => exact absurd rfl (hforce hm)
        refine ⟨[1], ?_⟩
        unfold streamNoLoop
        simp only [hne, Bool.false_eq_true, ↓reduceIte, hmust, Bool.not_false]
        have := aux_boolIf_hit true log []
        simp only [↓reduceIte] at this
        simp only [this, ↓reduceIte, List.append_nil]
        exact ⟨_, rfl⟩
      | cons x s' =>
        obtain ⟨a, b, r', hl, hr, hsb⟩ := aux_split_first hs
        subst hr
        -- the tape: (a "not done" answer unless forced), the index of `x`, then the rest
        have hidx : (pre ++ post)[(pre ++ a).length]? = some x := by
          rw [hl, ← List.append_assoc]; simp
        have hlen : (pre ++ a).length < (pre ++ post).length := by
          rw [hl]; simp
        have herase : (pre ++ post).eraseIdx (pre ++ a).length = (pre ++ a) ++ b := by
          rw [hl, ← List.append_assoc, List.eraseIdx_append_of_length_le (Nat.le_refl _)]; simp
        have hrec : ∀ log', ∃ tape d', (if ((pre ++ a).length == ((pre ++ a) ++ b).length) = true
              then some (out ++ [x], (pre ++ a) ++ b, (⟨tape, log'⟩ : Drv))
              else streamNoLoop n force ((pre ++ a) ++ b) (out ++ [x]) (pre ++ a).length ⟨tape, log'⟩)
            = some (out ++ x :: s', pre ++ (a ++ r'), d') := by
          intro log'
          cases hb : b with
          | nil =>
            subst hb
            obtain ⟨rfl, rfl⟩ := aux_split_of_nil hsb
            exact ⟨[], ⟨[], log'⟩, by simp⟩
          | cons b0 bs =>
            have hneq : ((pre ++ a).length == ((pre ++ a) ++ b).length) = false := by
              simp [hb]
            have hfuel : n = ((pre ++ a) ++ b).length := by
              have := hf; rw [hl] at this; simp at this ⊢; omega
            obtain ⟨tape, d', ht⟩ := ih (pre ++ a) b (out ++ [x]) log' force s' r' hfuel
              (by intro hbn; simp [hb] at hbn) hsb (by simp)
            refine ⟨tape, d', ?_⟩
            rw [← hb, hneq]
            simp only [Bool.false_eq_true, ↓reduceIte]
            simpa [List.append_assoc] using ht
        cases hm : (force && out.isEmpty) with
        | true =>
          obtain ⟨tape, d', ht⟩ := hrec (.u pre.length ((pre ++ post).length - 1) (pre ++ a).length :: log)
          refine ⟨((pre ++ a).length - pre.length) :: tape, d', ?_⟩
          unfold streamNoLoop
          simp only [hne, Bool.false_eq_true, ↓reduceIte, hm, Bool.not_true, aux_boolIf_false]
          rw [aux_natEx_hit pre.length (pre ++ post).length (pre ++ a).length log tape (by simp) hlen]
          simp only [hidx, herase]
          exact ht
        | false =>
          obtain ⟨tape, d', ht⟩ := hrec (.u pre.length ((pre ++ post).length - 1) (pre ++ a).length :: .b false :: log)
          refine ⟨0 :: ((pre ++ a).length - pre.length) :: tape, d', ?_⟩
          unfold streamNoLoop
          simp only [hne, Bool.false_eq_true, ↓reduceIte, hm, Bool.not_false]
          have hb0 := aux_boolIf_hit false log (((pre ++ a).length - pre.length) :: tape)
          simp only [Bool.false_eq_true, ↓reduceIte] at hb0
          simp only [hb0, Bool.false_eq_true, ↓reduceIte]
          rw [aux_natEx_hit pre.length (pre ++ post).length (pre ++ a).length _ tape (by simp) hlen]
          simp only [hidx, herase]
          exact ht

/-- every split of the pending queue into a released in-order sub-multiset and the rest (non-empty
when forced) is produced by some tape: the `min_index` pruning loses no subset -/
theorem streamNo_every_split_reachable (q r q' : List α) (force : Bool) (log : List Call)
    (hs : Split q r q') (hf : force = true → r ≠ []) :
    ∃ tape d', streamNoAuto q ⟨tape, log⟩ force = some (r, q', !r.isEmpty, d') := by
  obtain ⟨tape, d', ht⟩ := aux_streamNoLoop_complete q.length [] q [] log force r q' (by simp) (by simp) hs
    (by intro h; simp at h; exact hf h)
  refine ⟨tape, d', ?_⟩
  simp only [List.nil_append, List.length_nil] at ht
  simp [streamNoAuto, ht]


example : ∃ tape d', streamNoAuto [10, 20, 30] ⟨tape, []⟩ false = some ([10, 30], [20], true, d') :=
  streamNo_every_split_reachable _ _ _ false [] (.left (.right (.left .nil))) (by simp)


/-! ### keyed streams: every per-key combination -/

theorem aux_keyedRel_empty {P : List α → List α → List α → Prop} (hP : ∀ r q', P [] r q' → r = [])
    {m m' : KMap κ α} {rel : List (κ × α)} (h : KeyedRel P m rel m') (hz : nonemptyKeyCount m = 0) :
    rel = [] := by
  induction h with
  | nil => rfl
  | @cons k q r q' m0 rel0 m0' hp _ ih =>
    by_cases hq : q.isEmpty = true
    · rw [aux_nonemptyKeyCount_cons_empty hq] at hz
      have : q = [] := by simpa using hq
      subst this
      simp [hP _ _ hp, ih hz]
    · rw [aux_nonemptyKeyCount_cons_nonempty hq] at hz; omega

theorem aux_keyedTotal_complete {m m' : KMap κ α} {rel : List (κ × α)} (h : KeyedRel PrefixP m rel m') :
    ∀ (force : Bool) (log : List Call), (force = true → rel ≠ []) →
    ∃ tape d', keyedTotalLoop m (nonemptyKeyCount m) force ⟨tape, log⟩ = some (rel, m', d') := by
  induction h with
  | nil => intro force log _; exact ⟨[], ⟨[], log⟩, by simp [keyedTotalLoop]⟩
  | @cons k q r q' m0 rel0 m0' hp hrest ih =>
    intro force log hf
    have hp' : r ++ q' = q := hp
    by_cases hq : q.isEmpty = true
    · have hqe : q = [] := by simpa using hq
      subst hqe
      simp only [List.append_eq_nil_iff] at hp'
      obtain ⟨rfl, rfl⟩ := hp'
      obtain ⟨tape, d', ht⟩ := ih force log (by simpa using hf)
      refine ⟨tape, d', ?_⟩
      unfold keyedTotalLoop
      simp only [List.isEmpty_nil, ↓reduceIte, aux_nonemptyKeyCount_cons_empty (k := k) (rest := m0) hq, ht,
        List.map_nil, List.nil_append]
    · have hcnt := aux_nonemptyKeyCount_cons_nonempty (k := k) (rest := m0) hq
      have htake : q.take r.length = r := by rw [← hp']; simp
      have hdrop : q.drop r.length = q' := by rw [← hp']; simp
      have hlen : r.length ≤ q.length := by rw [← hp']; simp
      have hlo : (if (force && nonemptyKeyCount m0 == 0) = true then 1 else 0) ≤ r.length := by
        split
        · rename_i hc
          simp only [Bool.and_eq_true, beq_iff_eq] at hc
          have hrel0 := aux_keyedRel_empty (P := PrefixP) (by intro r q' h; simp [PrefixP] at h; exact h.1) hrest hc.2
          have := hf hc.1
          rw [hrel0] at this
          cases r with
          | nil => simp at this
          | cons _ _ => simp
        · exact Nat.zero_le _
      obtain ⟨tape, d', ht⟩ := ih (if 0 < r.length then false else force)
        (.u (if (force && nonemptyKeyCount m0 == 0) = true then 1 else 0) q.length r.length :: log) (by
          intro hff
          split at hff
          · simp at hff
          · rename_i h0
            have : r = [] := by cases r with
              | nil => rfl
              | cons _ _ => simp at h0
            subst this
            simpa using hf hff)
      refine ⟨(r.length - (if (force && nonemptyKeyCount m0 == 0) = true then 1 else 0)) :: tape, d', ?_⟩
      unfold keyedTotalLoop
      simp only [hq, Bool.false_eq_true, ↓reduceIte, hcnt, Nat.add_sub_cancel]
      rw [aux_nat_hit _ _ r.length log tape hlo hlen]
      simp only [ht, htake, hdrop]

/-- every combination of per-key prefixes (not all empty when forced) is released by some tape -/
theorem keyedTotal_every_prefix_vector_reachable {m m' : KMap κ α} {rel : List (κ × α)} (force : Bool)
    (log : List Call) (h : KeyedRel PrefixP m rel m') (hf : force = true → rel ≠ []) :
    ∃ tape d', keyedTotalAuto m ⟨tape, log⟩ force = some (rel, m', !rel.isEmpty, d') := by
  obtain ⟨tape, d', ht⟩ := aux_keyedTotal_complete h force log hf
  exact ⟨tape, d', by simp [keyedTotalAuto, ht]⟩


/-! ### KeyedStreamHook<NoOrder>: every combination of per-key sub-multisets -/

theorem aux_keyedNoInner_complete : ∀ (fuel : Nat) (pre post out : List α) (log : List Call) (force : Bool)
    (remaining : Nat) (sel rem : List α), fuel = (pre ++ post).length → (post = [] → pre = []) → Split post sel rem →
    ((force && remaining == 0) = true → sel ≠ []) →
    ∃ tape log', ∀ rest, keyedNoInner fuel force remaining (pre ++ post) out pre.length ⟨tape ++ rest, log⟩
      = some (out ++ sel, pre ++ rem, (if sel.isEmpty then force else false), ⟨rest, log'⟩) := by
  intro fuel
  induction fuel with
  | zero =>
    intro pre post out log force remaining sel rem hf hp hs _
    have hq : pre ++ post = [] := List.length_eq_zero_iff.mp hf.symm
    simp only [List.append_eq_nil_iff] at hq
    obtain ⟨rfl, rfl⟩ := hq
    obtain ⟨rfl, rfl⟩ := aux_split_of_nil hs
    exact ⟨[], log, fun rest => by simp [keyedNoInner]⟩
  | succ n ih =>
    intro pre post out log force remaining sel rem hf hp hs hforce
    by_cases hpost : post = []
    · subst hpost
      have := hp rfl; subst this
      obtain ⟨rfl, rfl⟩ := aux_split_of_nil hs
      exact ⟨[], log, fun rest => by simp [keyedNoInner]⟩
    · have hne : (pre ++ post).isEmpty = false := by
        cases post with
        | nil => exact absurd rfl hpost
        | cons _ _ => simp
      cases sel with
      | nil =>
        have hrem := aux_split_nil_left hs
        subst hrem
        have hmust : (force && remaining == 0) = false := by
          cases hm : (force && remaining == 0) with
          | false => rfl
          | true => exact absurd rfl (hforce hm)
        refine ⟨[1], .b true :: log, fun rest => ?_⟩
        unfold keyedNoInner
        simp only [hne, Bool.false_eq_true, ↓reduceIte, hmust, Bool.not_false]
        have := aux_boolIf_hit true log rest
        simp only [↓reduceIte] at this
        simp only [List.cons_append, List.nil_append, this, ↓reduceIte, List.append_nil, List.isEmpty_nil]
      | cons x s' =>
        obtain ⟨a, b, r', hl, hr, hsb⟩ := aux_split_first hs
        subst hr
        have hidx : (pre ++ post)[(pre ++ a).length]? = some x := by
          rw [hl, ← List.append_assoc]; simp
        have hlen : (pre ++ a).length < (pre ++ post).length := by
          rw [hl]; simp
        have herase : (pre ++ post).eraseIdx (pre ++ a).length = (pre ++ a) ++ b := by
          rw [hl, ← List.append_assoc, List.eraseIdx_append_of_length_le (Nat.le_refl _)]; simp
        have hrec : ∀ log', ∃ tape log'', ∀ rest, (if ((pre ++ a).length == ((pre ++ a) ++ b).length) = true
              then some (out ++ [x], (pre ++ a) ++ b, false, (⟨tape ++ rest, log'⟩ : Drv))
              else keyedNoInner n false remaining ((pre ++ a) ++ b) (out ++ [x]) (pre ++ a).length ⟨tape ++ rest, log'⟩)
            = some (out ++ x :: s', pre ++ (a ++ r'), false, ⟨rest, log''⟩) := by
          intro log'
          cases hb : b with
          | nil =>
            subst hb
            obtain ⟨rfl, rfl⟩ := aux_split_of_nil hsb
            exact ⟨[], log', fun rest => by simp⟩
          | cons b0 bs =>
            have hneq : ((pre ++ a).length == ((pre ++ a) ++ b).length) = false := by
              simp [hb]
            have hfuel : n = ((pre ++ a) ++ b).length := by
              have := hf; rw [hl] at this; simp at this ⊢; omega
            obtain ⟨tape, log'', ht⟩ := ih (pre ++ a) b (out ++ [x]) log' false remaining s' r' hfuel
              (by intro hbn; simp [hb] at hbn) hsb (by simp)
            refine ⟨tape, log'', fun rest => ?_⟩
            rw [← hb, hneq]
            simp only [Bool.false_eq_true, ↓reduceIte]
            simpa [List.append_assoc] using ht rest
        cases hm : (force && remaining == 0) with
        | true =>
          obtain ⟨tape, log'', ht⟩ := hrec (.u pre.length ((pre ++ post).length - 1) (pre ++ a).length :: log)
          refine ⟨((pre ++ a).length - pre.length) :: tape, log'', fun rest => ?_⟩
          unfold keyedNoInner
          simp only [hne, Bool.false_eq_true, ↓reduceIte, hm, Bool.not_true, aux_boolIf_false, List.cons_append]
          rw [aux_natEx_hit pre.length (pre ++ post).length (pre ++ a).length log (tape ++ rest) (by simp) hlen]
          simp only [hidx, herase, List.isEmpty_cons]
          exact ht rest
        | false =>
          obtain ⟨tape, log'', ht⟩ := hrec (.u pre.length ((pre ++ post).length - 1) (pre ++ a).length :: .b false :: log)
          refine ⟨0 :: ((pre ++ a).length - pre.length) :: tape, log'', fun rest => ?_⟩
          unfold keyedNoInner
          simp only [hne, Bool.false_eq_true, ↓reduceIte, hm, Bool.not_false, List.cons_append]
          have hb0 := aux_boolIf_hit false log (((pre ++ a).length - pre.length) :: (tape ++ rest))
          simp only [Bool.false_eq_true, ↓reduceIte] at hb0
          simp only [hb0, Bool.false_eq_true, ↓reduceIte]
          rw [aux_natEx_hit pre.length (pre ++ post).length (pre ++ a).length _ (tape ++ rest) (by simp) hlen]
          simp only [hidx, herase, List.isEmpty_cons]
          exact ht rest

theorem aux_keyedNo_complete {m m' : KMap κ α} {rel : List (κ × α)} (h : KeyedRel Split m rel m') :
    ∀ (force : Bool) (log : List Call), (force = true → rel ≠ []) →
    ∃ tape d', keyedNoLoop m (nonemptyKeyCount m) force ⟨tape, log⟩ = some (rel, m', d') := by
  induction h with
  | nil => intro force log _; exact ⟨[], ⟨[], log⟩, by simp [keyedNoLoop]⟩
  | @cons k q r q' m0 rel0 m0' hp hrest ih =>
    intro force log hf
    by_cases hq : q.isEmpty = true
    · have hqe : q = [] := by simpa using hq
      subst hqe
      obtain ⟨rfl, rfl⟩ := aux_split_of_nil hp
      obtain ⟨tape, d', ht⟩ := ih force log (by simpa using hf)
      refine ⟨tape, d', ?_⟩
      unfold keyedNoLoop
      simp only [List.isEmpty_nil, ↓reduceIte, aux_nonemptyKeyCount_cons_empty (k := k) (rest := m0) hq, ht,
        List.map_nil, List.nil_append]
    · have hcnt := aux_nonemptyKeyCount_cons_nonempty (k := k) (rest := m0) hq
      have hqne : q ≠ [] := by intro hh; subst hh; simp at hq
      have hmust : (force && nonemptyKeyCount m0 == 0) = true → r ≠ [] := by
        intro hc
        simp only [Bool.and_eq_true, beq_iff_eq] at hc
        have hrel0 := aux_keyedRel_empty (P := Split) (fun r q' h => (aux_split_of_nil h).1) hrest hc.2
        have := hf hc.1
        rw [hrel0] at this
        intro hr; subst hr; simp at this
      obtain ⟨tape1, log1, ht1⟩ := aux_keyedNoInner_complete q.length [] q [] log force (nonemptyKeyCount m0) r q'
        (by simp) (by intro h; exact absurd h hqne) hp hmust
      simp only [List.nil_append, List.length_nil] at ht1
      obtain ⟨tape2, d', ht2⟩ := ih (if r.isEmpty then force else false) log1 (by
        intro hff
        cases r with
        | nil => simpa using hf (by simpa using hff)
        | cons _ _ => simp at hff)
      refine ⟨tape1 ++ tape2, d', ?_⟩
      unfold keyedNoLoop
      simp only [hq, Bool.false_eq_true, ↓reduceIte, hcnt, Nat.add_sub_cancel, ht1 tape2, ht2]

/-- every combination of per-key in-order sub-multisets (not all empty when forced) is released by
some tape -/
theorem keyedNo_every_split_vector_reachable {m m' : KMap κ α} {rel : List (κ × α)} (force : Bool)
    (log : List Call) (h : KeyedRel Split m rel m') (hf : force = true → rel ≠ []) :
    ∃ tape d', keyedNoAuto m ⟨tape, log⟩ force = some (rel, m', !rel.isEmpty, d') := by
  obtain ⟨tape, d', ht⟩ := aux_keyedNo_complete h force log hf
  exact ⟨tape, d', by simp [keyedNoAuto, ht]⟩


example : ∃ tape d', keyedNoAuto [(7, [1, 2]), (9, [3])] ⟨tape, []⟩ false
    = some ([(7, 2), (9, 3)], [(7, [1]), (9, [])], true, d') :=
  keyedNo_every_split_vector_reachable (m := [(7, [1, 2]), (9, [3])]) false []
    (.cons (r := [2]) (q' := [1]) (.right (.left .nil)) (.cons (r := [3]) (q' := []) (.left .nil) .nil)) (by simp)

/-! ### SingletonHook: every buffered version, and the unchanged snapshot -/

/-- every buffered snapshot version is released by some tape (skipping the older ones) -/
theorem singleton_every_version_reachable (s : SingSt α) (force : Bool) (log : List Call) (i : Nat) (x : α)
    (hx : s.q[i]? = some x) :
    ∃ tape d', singletonAuto s ⟨tape, log⟩ force
      = some (true, { q := s.q.drop (i + 1), rel := some (x, true), last := s.last, skipped := s.q.take i }, d') := by
  have hi : i < s.q.length := by
    rcases Nat.lt_or_ge i s.q.length with h | h
    · exact h
    · simp [List.getElem?_eq_none h] at hx
  have hne : s.q.isEmpty = false := by
    cases hq : s.q with
    | nil => simp [hq] at hi
    | cons _ _ => simp
  have hdrop : s.q.drop i = x :: s.q.drop (i + 1) := by
    rw [List.getElem?_eq_getElem hi] at hx
    simp only [Option.some.injEq] at hx
    rw [← hx]; exact List.drop_eq_getElem_cons hi
  cases hdraw : (!force && s.last.isSome) with
  | false =>
    refine ⟨[i], ?_⟩
    unfold singletonAuto
    simp only [hne, Bool.false_eq_true, ↓reduceIte, hdraw, aux_boolIf_false]
    have := aux_natEx_hit 0 s.q.length i log [] (Nat.zero_le _) hi
    simp only [Nat.sub_zero] at this
    simp only [this, hdrop]
    exact ⟨_, rfl⟩
  | true =>
    refine ⟨[0, i], ?_⟩
    unfold singletonAuto
    simp only [hne, Bool.false_eq_true, ↓reduceIte, hdraw]
    have hb := aux_boolIf_hit false log [i]
    simp only [Bool.false_eq_true, ↓reduceIte] at hb
    simp only [hb, Bool.false_eq_true, ↓reduceIte]
    have := aux_natEx_hit 0 s.q.length i (.b false :: log) [] (Nat.zero_le _) hi
    simp only [Nat.sub_zero] at this
    simp only [this, hdrop]
    exact ⟨_, rfl⟩

/-- when not forced, re-releasing the last snapshot unchanged is reachable as well -/
theorem singleton_unchanged_reachable (s : SingSt α) (log : List Call) (l : α) (hl : s.last = some l) :
    ∃ tape d', singletonAuto s ⟨tape, log⟩ false = some (false, { s with rel := some (l, false) }, d') := by
  by_cases hq : s.q.isEmpty = true
  · exact ⟨[], ⟨[], log⟩, by simp [singletonAuto, hq, hl]⟩
  · refine ⟨[1], ?_⟩
    unfold singletonAuto
    simp only [hq, Bool.false_eq_true, ↓reduceIte, Bool.not_false, hl, Option.isSome_some, Bool.and_self]
    have hb := aux_boolIf_hit true log []
    simp only [↓reduceIte] at hb
    simp only [hb, ↓reduceIte]
    exact ⟨_, rfl⟩

/-! ### `run_hooks`: a tick / observation with one hook explores that hook's forced decision space -/

/-- The scheduler resolves a runnable single-hook tick or observation by forcing that hook:
`run_hooks [h]` = `h.autonomous_decision(driver, true)` followed by `release_decision`; the
"stay silent" decision is the scheduler not picking it (`scheduler_pick_any_ready`). -/
theorem runHooks_single_is_forced [DecidableEq κ] (h : Hook κ α) (d : Drv)
    (hidle : h.cur = none) (hcan : h.canNT = true) :
    runHooks [h] d =
      match h.auto d true with
      | none => none
      | some (nt, h1, d1) =>
        match h1.release with
        | none => none
        | some (h2, out) => some ([h2], [out], nt, d1) := by
  simp only [runHooks, runPass1, hidle, hcan, Bool.not_true, Bool.false_eq_true, ↓reduceIte, List.length_cons,
    List.length_nil, Nat.zero_add, runPass2, Bool.not_false, BEq.rfl, Bool.and_self]
  cases h.auto d true with
  | none => rfl
  | some res =>
    obtain ⟨nt, h1, d1⟩ := res
    simp only [Nat.sub_self, Bool.false_or]
    cases hr : h1.release with
    | none => simp [hr]
    | some r => obtain ⟨h2, out⟩ := r; simp [hr]

/-- Full completeness of the two-pass forcing logic for ticks with several hooks: every vector of
per-hook decisions (each reachable unforced) that has at least one non-trivial component is produced
by some tape.  The two-pass tape-framing argument itself is proved for arbitrary hook kinds
(`runHooks_reaches_every_framed_vector`, from per-hook `HookTarget` facts); the statement below is
proved for all hook kinds that occur in ticks (`runHooks_reaches_every_vector_partial`); what is
missing for the full statement is the framed decision space (`HookTarget`) of the `TopLevel*` hooks
(observations: always resolved alone). -/
def runHooksReachesEveryVectorStatement (κ α : Type) [DecidableEq κ] : Prop :=
  ∀ (hs : List (Hook κ α)) (tapes : List (List Nat)) (res : List (Bool × Hook κ α × List (Msg κ α))),
    (∀ h ∈ hs, h.cur = none) → tapes.length = hs.length → res.length = hs.length →
    (∀ i (hi : i < hs.length), ∃ t r h1 d1, tapes[i]? = some t ∧ res[i]? = some r ∧
        hs[i].auto ⟨t, []⟩ false = some (r.1, h1, d1) ∧ h1.release = some (r.2.1, r.2.2)) →
    (∃ r ∈ res, r.1 = true) →
    ∃ tape d', runHooks hs ⟨tape, []⟩ = some (res.map (·.2.1), res.map (·.2.2), true, d')


example : ∃ tape d', keyedTotalAuto [(7, [1, 2]), (9, [3])] ⟨tape, []⟩ true
    = some ([(7, 1)], [(7, [2]), (9, [3])], true, d') :=
  keyedTotal_every_prefix_vector_reachable (m := [(7, [1, 2]), (9, [3])]) true []
    (.cons (r := [1]) (q' := [2]) rfl (.cons (r := []) (q' := [3]) rfl .nil)) (by simp)

example : ∃ tape d', singletonAuto { q := [5, 6, 7], last := some 4 } ⟨tape, []⟩ false
    = some (true, { q := [7], rel := some (6, true), last := some 4, skipped := [5] }, d') :=
  singleton_every_version_reachable { q := [5, 6, 7], last := some 4 } false [] 1 6 rfl


/-! ### the `min_index` pruning explores every subset exactly once -/

theorem aux_natEx_log {d d' : Drv} {lo hi v : Nat} (h : d.natEx lo hi = some (v, d')) :
    d'.log = .u lo (hi - 1) v :: d.log := by
  unfold Drv.natEx at h
  split at h
  · simp at h
  · unfold Drv.nat at h
    split at h
    · simp at h
    · simp only [Option.some.injEq, Prod.mk.injEq] at h
      obtain ⟨rfl, rfl⟩ := h; rfl

/-- one round of the `StreamHook<NoOrder>` loop on a non-empty queue: it stops, or picks `idx ≥ min_index` -/
theorem aux_streamNo_step {n : Nat} {force : Bool} {q out : List α} {mi : Nat} {d : Drv}
    {o q' : List α} {d' : Drv} (hq : q.isEmpty = false)
    (h : streamNoLoop (n + 1) force q out mi d = some (o, q', d')) :
    (o = out ∧ q' = q ∧ (force && out.isEmpty) = false ∧ d'.log = .b true :: d.log) ∨
    (∃ idx item d2, q[idx]? = some item ∧
      d2.log = .u mi (q.length - 1) idx :: (if (force && out.isEmpty) = true then d.log else .b false :: d.log) ∧
      (if (idx == (q.eraseIdx idx).length) = true then (o, q', d') = (out ++ [item], q.eraseIdx idx, d2)
       else streamNoLoop n force (q.eraseIdx idx) (out ++ [item]) idx d2 = some (o, q', d'))) := by
  unfold streamNoLoop at h
  simp only [hq, Bool.false_eq_true, ↓reduceIte] at h
  cases hm : (force && out.isEmpty) with
  | true =>
    simp only [hm, Bool.not_true, aux_boolIf_false, Bool.false_eq_true, ↓reduceIte] at h
    right
    split at h
    · simp at h
    · rename_i idx d2 hidx
      split at h
      · simp at h
      · rename_i item hitem
        refine ⟨idx, item, d2, hitem, by simp [aux_natEx_log hidx], ?_⟩
        split at h
        · rename_i hc
          simp only [Option.some.injEq] at h
          simp [hc, h.symm]
        · rename_i hc
          simp [hc, h]
  | false =>
    simp only [hm, Bool.not_false] at h
    have hb : d.boolIf true = (d.bool.1, d.bool.2) := rfl
    rw [hb] at h
    simp only at h
    cases hv : d.bool.1 with
    | true =>
      simp only [hv, ↓reduceIte, Option.some.injEq, Prod.mk.injEq] at h
      obtain ⟨rfl, rfl, rfl⟩ := h
      left
      refine ⟨rfl, rfl, rfl, ?_⟩
      simp [Drv.bool] at hv ⊢
      exact hv
    | false =>
      simp only [hv, Bool.false_eq_true, ↓reduceIte] at h
      right
      have hlog : d.bool.2.log = .b false :: d.log := by
        simp [Drv.bool] at hv ⊢; exact hv
      split at h
      · simp at h
      · rename_i idx d2 hidx
        split at h
        · simp at h
        · rename_i item hitem
          refine ⟨idx, item, d2, hitem, by simp [aux_natEx_log hidx, hlog], ?_⟩
          split at h
          · rename_i hc
            simp only [Option.some.injEq] at h
            simp [hc, h.symm]
          · rename_i hc
            simp [hc, h]

theorem aux_getElem?_inj {q : List α} (hnd : q.Nodup) {i j : Nat} {x : α}
    (hi : q[i]? = some x) (hj : q[j]? = some x) : i = j := by
  have hil : i < q.length := by
    rcases Nat.lt_or_ge i q.length with h | h
    · exact h
    · simp [List.getElem?_eq_none h] at hi
  have hjl : j < q.length := by
    rcases Nat.lt_or_ge j q.length with h | h
    · exact h
    · simp [List.getElem?_eq_none h] at hj
  rw [List.getElem?_eq_getElem hil] at hi
  rw [List.getElem?_eq_getElem hjl] at hj
  simp only [Option.some.injEq] at hi hj
  exact (List.getElem_inj hnd).mp (hi.trans hj.symm)

theorem aux_streamNoLoop_unique : ∀ (fuel : Nat) (force : Bool) (q out : List α) (mi : Nat) (da db : Drv)
    {o qa qb : List α} {da' db' : Drv}, q.Nodup → mi ≤ q.length → da.log = db.log →
    streamNoLoop fuel force q out mi da = some (o, qa, da') →
    streamNoLoop fuel force q out mi db = some (o, qb, db') →
    da'.log = db'.log ∧ qa = qb := by
  intro fuel
  induction fuel with
  | zero =>
    intro force q out mi da db o qa qb da' db' _ _ hl ha hb
    simp only [streamNoLoop, Option.some.injEq, Prod.mk.injEq] at ha hb
    obtain ⟨_, rfl, rfl⟩ := ha
    obtain ⟨_, rfl, rfl⟩ := hb
    exact ⟨hl, rfl⟩
  | succ n ih =>
    intro force q out mi da db o qa qb da' db' hnd hmi hl ha hb
    by_cases hq : q.isEmpty = true
    · unfold streamNoLoop at ha hb
      simp only [hq, ↓reduceIte, Option.some.injEq, Prod.mk.injEq] at ha hb
      obtain ⟨_, rfl, rfl⟩ := ha
      obtain ⟨_, rfl, rfl⟩ := hb
      exact ⟨hl, rfl⟩
    · have hq' : q.isEmpty = false := by simpa using hq
      -- what the result says about the released items
      have grow : ∀ {d : Drv} {idx : Nat} {item : α} {d2 : Drv} {q' : List α} {d' : Drv},
          q[idx]? = some item →
          (if (idx == (q.eraseIdx idx).length) = true then (o, q', d') = (out ++ [item], q.eraseIdx idx, d2)
           else streamNoLoop n force (q.eraseIdx idx) (out ++ [item]) idx d2 = some (o, q', d')) →
          ∃ sel, o = out ++ item :: sel := by
        intro d idx item d2 q' d' hitem hres
        split at hres
        · simp only [Prod.mk.injEq] at hres
          exact ⟨[], by simp [hres.1]⟩
        · rename_i hc
          have hlt : idx < q.length := by
            rcases Nat.lt_or_ge idx q.length with h | h
            · exact h
            · simp [List.getElem?_eq_none h] at hitem
          have hle : idx ≤ (q.eraseIdx idx).length := by
            rw [List.length_eraseIdx]; simp [hlt]; omega
          obtain ⟨sel, rem, h1, _, _⟩ := aux_streamNoLoop _ _ _ _ _ _ hle hres
          exact ⟨sel, by simp [h1]⟩
      rcases aux_streamNo_step hq' ha with ⟨ha1, ha2, ham, hal⟩ | ⟨ia, xa, da2, hxa, hla, hra⟩
      · rcases aux_streamNo_step hq' hb with ⟨hb1, hb2, hbm, hbl⟩ | ⟨ib, xb, db2, hxb, hlb, hrb⟩
        · exact ⟨by rw [hal, hbl, hl], by rw [ha2, hb2]⟩
        · obtain ⟨sel, hsel⟩ := grow (d := db) hxb hrb
          rw [ha1] at hsel
          have := congrArg List.length hsel
          simp at this
      · rcases aux_streamNo_step hq' hb with ⟨hb1, hb2, hbm, hbl⟩ | ⟨ib, xb, db2, hxb, hlb, hrb⟩
        · obtain ⟨sel, hsel⟩ := grow (d := da) hxa hra
          rw [hb1] at hsel
          have := congrArg List.length hsel
          simp at this
        · obtain ⟨sa, hsa⟩ := grow (d := da) hxa hra
          obtain ⟨sb, hsb⟩ := grow (d := db) hxb hrb
          have hx : xa = xb := by
            rw [hsa] at hsb
            have := List.append_cancel_left hsb
            simp only [List.cons.injEq] at this
            exact this.1
          subst hx
          have hi : ia = ib := aux_getElem?_inj hnd hxa hxb
          subst hi
          have hl2 : da2.log = db2.log := by rw [hla, hlb, hl]
          split at hra
          · rename_i hc
            simp only [hc, ↓reduceIte, Prod.mk.injEq] at hra hrb
            obtain ⟨_, rfl, rfl⟩ := hra
            obtain ⟨_, rfl, rfl⟩ := hrb
            exact ⟨hl2, rfl⟩
          · rename_i hc
            simp only [hc, Bool.false_eq_true, ↓reduceIte] at hrb
            have hlt : ia < q.length := by
              rcases Nat.lt_or_ge ia q.length with h | h
              · exact h
              · simp [List.getElem?_eq_none h] at hxa
            have hle : ia ≤ (q.eraseIdx ia).length := by
              rw [List.length_eraseIdx]; simp [hlt]; omega
            exact ih force _ _ _ da2 db2 (hnd.sublist (List.eraseIdx_sublist ..)) hle hl2 hra hrb

/-- Together with `streamNo_every_split_reachable`: on a queue of distinct items, a released batch
determines the whole sequence of driver calls (ranges and answers) that produced it and the remaining
queue — every in-order sub-multiset is reached by exactly one pick sequence, so the exhaustive search
visits each subset once. -/
theorem noOrder_pick_sequence_unique {q r qa qb : List α} {force nta ntb : Bool} {ta tb : List Nat} {da db : Drv}
    (hnd : q.Nodup)
    (ha : streamNoAuto q ⟨ta, []⟩ force = some (r, qa, nta, da))
    (hb : streamNoAuto q ⟨tb, []⟩ force = some (r, qb, ntb, db)) :
    da.log = db.log ∧ qa = qb := by
  unfold streamNoAuto at ha hb
  split at ha
  · simp at ha
  · rename_i hla
    split at hb
    · simp at hb
    · rename_i hlb
      simp only [Option.some.injEq, Prod.mk.injEq] at ha hb
      obtain ⟨rfl, rfl, _, rfl⟩ := ha
      obtain ⟨rfl, rfl, _, rfl⟩ := hb
      exact aux_streamNoLoop_unique _ _ _ _ _ ⟨ta, []⟩ ⟨tb, []⟩ hnd (Nat.zero_le _) rfl hla hlb


example : (streamNoAuto [10, 20, 30] ⟨[0, 1, 1], []⟩ false).map (·.1) = some [20] ∧
    (streamNoAuto [10, 20, 30] ⟨[2, 4, 3], []⟩ false).map (·.1) = some [20] := by decide


/-! ### top-level order hooks: every single release -/

/-- `TopLevelStreamOrderHook`: every pending item can be the one released next -/
theorem tlOrder_every_item_reachable (q : List α) (force : Bool) (log : List Call) (idx : Nat) (x : α)
    (hx : q[idx]? = some x) :
    ∃ tape d', tlOrderAuto q ⟨tape, log⟩ force = some ([x], q.eraseIdx idx, true, d') := by
  have hi : idx < q.length := by
    rcases Nat.lt_or_ge idx q.length with h | h
    · exact h
    · simp [List.getElem?_eq_none h] at hx
  have hne : q.isEmpty = false := by
    cases hq : q with
    | nil => simp [hq] at hi
    | cons _ _ => simp
  cases force with
  | true =>
    refine ⟨[idx], ?_⟩
    unfold tlOrderAuto
    simp only [hne, Bool.false_eq_true, ↓reduceIte, Bool.not_true, aux_boolIf_false]
    have := aux_natEx_hit 0 q.length idx log [] (Nat.zero_le _) hi
    simp only [Nat.sub_zero] at this
    simp only [this, hx]
    exact ⟨_, rfl⟩
  | false =>
    refine ⟨[0, idx], ?_⟩
    unfold tlOrderAuto
    simp only [hne, Bool.false_eq_true, ↓reduceIte, Bool.not_false]
    have hb := aux_boolIf_hit false log [idx]
    simp only [Bool.false_eq_true, ↓reduceIte] at hb
    simp only [hb, Bool.false_eq_true, ↓reduceIte]
    have := aux_natEx_hit 0 q.length idx (.b false :: log) [] (Nat.zero_le _) hi
    simp only [Nat.sub_zero] at this
    simp only [this, hx]
    exact ⟨_, rfl⟩

/-- … and, when not forced, so can "release nothing" -/
theorem tlOrder_silence_reachable (q : List α) (log : List Call) :
    ∃ tape d', tlOrderAuto q ⟨tape, log⟩ false = some ([], q, false, d') := by
  by_cases hq : q.isEmpty = true
  · exact ⟨[], ⟨[], log⟩, by simp [tlOrderAuto, hq]⟩
  · refine ⟨[1], ?_⟩
    unfold tlOrderAuto
    simp only [hq, Bool.false_eq_true, ↓reduceIte, Bool.not_false]
    have hb := aux_boolIf_hit true log []
    simp only [↓reduceIte] at hb
    simp only [hb, ↓reduceIte]
    exact ⟨_, rfl⟩

/-- `TopLevelMergeOrderedHook`: with both inputs pending, either front can be released next -/
theorem tlMerge_either_front_reachable (x y : α) (r1 r2 : List α) (force : Bool) (log : List Call) :
    (∃ tape d', tlMergeAuto (x :: r1) (y :: r2) ⟨tape, log⟩ force = some ([x], r1, y :: r2, true, d')) ∧
    (∃ tape d', tlMergeAuto (x :: r1) (y :: r2) ⟨tape, log⟩ force = some ([y], x :: r1, r2, true, d')) := by
  cases force with
  | true =>
    constructor
    · refine ⟨[0], ?_⟩
      simp only [tlMergeAuto, List.isEmpty_cons, Bool.and_self, Bool.false_eq_true, ↓reduceIte, Bool.not_true,
        aux_boolIf_false]
      have hb := aux_bool_hit false log []
      simp only [Bool.false_eq_true, ↓reduceIte] at hb
      simp only [hb, Bool.false_eq_true, ↓reduceIte]
      exact ⟨_, rfl⟩
    · refine ⟨[1], ?_⟩
      simp only [tlMergeAuto, List.isEmpty_cons, Bool.and_self, Bool.false_eq_true, ↓reduceIte, Bool.not_true,
        aux_boolIf_false]
      have hb := aux_bool_hit true log []
      simp only [↓reduceIte] at hb
      simp only [hb, ↓reduceIte]
      exact ⟨_, rfl⟩
  | false =>
    have hb0 := fun rest => aux_boolIf_hit false log rest
    simp only [Bool.false_eq_true, ↓reduceIte] at hb0
    constructor
    · refine ⟨[0, 0], ?_⟩
      simp only [tlMergeAuto, List.isEmpty_cons, Bool.and_self, Bool.false_eq_true, ↓reduceIte, Bool.not_false, hb0]
      have hb := aux_bool_hit false (.b false :: log) []
      simp only [Bool.false_eq_true, ↓reduceIte] at hb
      simp only [hb, Bool.false_eq_true, ↓reduceIte]
      exact ⟨_, rfl⟩
    · refine ⟨[0, 1], ?_⟩
      simp only [tlMergeAuto, List.isEmpty_cons, Bool.and_self, Bool.false_eq_true, ↓reduceIte, Bool.not_false, hb0]
      have hb := aux_bool_hit true (.b false :: log) []
      simp only [↓reduceIte] at hb
      simp only [hb, ↓reduceIte]
      exact ⟨_, rfl⟩



/-! ### TopLevelFoldHook: every non-empty subset is selected (in some order) -/

theorem aux_split_single {x : α} {s r : List α} (h : Split [x] s r) : (s = [x] ∧ r = []) ∨ (s = [] ∧ r = [x]) := by
  cases h with
  | left h' => cases h'; exact Or.inl ⟨rfl, rfl⟩
  | right h' => cases h'; exact Or.inr ⟨rfl, rfl⟩

theorem aux_foldSelect_complete : ∀ (q s0 r0 sel rem : List α) (log : List Call), Split q sel rem →
    (q ≠ [] → s0 ++ sel ≠ []) →
    ∃ tape d', foldSelect q s0 r0 ⟨tape, log⟩ = (s0 ++ sel, r0 ++ rem, d') := by
  intro q
  induction q with
  | nil =>
    intro s0 r0 sel rem log hs _
    obtain ⟨rfl, rfl⟩ := aux_split_of_nil hs
    exact ⟨[], ⟨[], log⟩, by simp [foldSelect]⟩
  | cons x r ih =>
    intro s0 r0 sel rem log hs hne
    cases r with
    | nil =>
      rcases aux_split_single hs with ⟨rfl, rfl⟩ | ⟨rfl, rfl⟩
      · by_cases he : s0.isEmpty = true
        · exact ⟨[], ⟨[], log⟩, by simp [foldSelect, he]⟩
        · refine ⟨[1], ?_⟩
          have hb := aux_bool_hit true log []
          simp only [↓reduceIte] at hb
          simp only [foldSelect, he, Bool.false_eq_true, ↓reduceIte, hb, List.append_nil]
          exact ⟨_, rfl⟩
      · have he : s0.isEmpty = false := by
          have := hne (by simp)
          cases s0 with
          | nil => simp at this
          | cons _ _ => simp
        refine ⟨[0], ?_⟩
        have hb := aux_bool_hit false log []
        simp only [Bool.false_eq_true, ↓reduceIte] at hb
        simp only [foldSelect, he, Bool.false_eq_true, ↓reduceIte, hb, List.append_nil]
        exact ⟨_, rfl⟩
    | cons y r' =>
      cases hs with
      | @left _ _ a b hs' =>
        obtain ⟨tape, d', ht⟩ := ih (s0 ++ [x]) r0 a rem (.b true :: log) hs' (by simp)
        refine ⟨1 :: tape, d', ?_⟩
        have hb := aux_bool_hit true log tape
        simp only [↓reduceIte] at hb
        simp only [foldSelect, hb, ↓reduceIte]
        simpa using ht
      | @right _ _ a b hs' =>
        obtain ⟨tape, d', ht⟩ := ih s0 (r0 ++ [x]) sel b (.b false :: log) hs' (by
          intro _; exact hne (by simp))
        refine ⟨0 :: tape, d', ?_⟩
        have hb := aux_bool_hit false log tape
        simp only [Bool.false_eq_true, ↓reduceIte] at hb
        simp only [foldSelect, hb, Bool.false_eq_true, ↓reduceIte]
        simpa using ht

theorem aux_fisherYates_some : ∀ (n : Nat) (l : List α) (d : Drv), ∃ l' d', fisherYates n l d = some (l', d') := by
  intro n
  induction n with
  | zero => intro l d; exact ⟨l, d, rfl⟩
  | succ i ih =>
    intro l d
    unfold fisherYates
    have : ∃ j d1, d.nat 0 (i + 1) = some (j, d1) := by
      unfold Drv.nat; simp
    obtain ⟨j, d1, hj⟩ := this
    simp only [hj]
    exact ih _ _

/-- every non-empty sub-multiset of the buffered fold inputs is released (in some order) by some
tape, the rest staying buffered in queue order -/
theorem tlFold_every_selection_reachable [DecidableEq α] (q sel rem : List α) (force : Bool) (log : List Call)
    (hs : Split q sel rem) (hne : sel ≠ []) :
    ∃ tape r d', tlFoldAuto q ⟨tape, log⟩ force = some (r, rem, true, d') ∧ r.Perm sel := by
  have hq : q.isEmpty = false := by
    cases q with
    | nil => exact absurd (aux_split_of_nil hs).1 hne
    | cons _ _ => simp
  obtain ⟨tape, d1, ht⟩ := aux_foldSelect_complete q [] [] sel rem log hs (by simpa using fun _ => hne)
  simp only [List.nil_append] at ht
  obtain ⟨r, d2, hfy⟩ := aux_fisherYates_some (sel.length - 1) sel d1
  refine ⟨tape, r, d2, ?_, aux_fisherYates_perm _ _ _ hfy⟩
  simp [tlFoldAuto, hq, ht, hfy]



/-- ticks / observations with one hook: every decision the hook can make when forced is what
`run_hooks` produces on the same tape -/
theorem runHooks_single_hook_is_its_forced_decision [DecidableEq κ] (h : Hook κ α) (tape : List Nat)
    (hidle : h.cur = none) (hcan : h.canNT = true) {nt : Bool} {h1 h2 : Hook κ α} {d1 : Drv}
    {out : List (Msg κ α)} (ha : h.auto ⟨tape, []⟩ true = some (nt, h1, d1)) (hr : h1.release = some (h2, out)) :
    runHooks [h] ⟨tape, []⟩ = some ([h2], [out], nt, d1) := by
  rw [runHooks_single_is_forced h _ hidle hcan]
  simp [ha, hr]

/-! ### `run_hooks` on several hooks: the tape-framing argument -/

/-- pointwise relation between two lists of the same length -/
inductive All₂ {A B : Type} (R : A → B → Prop) : List A → List B → Prop
  | nil : All₂ R [] []
  | cons {a b l₁ l₂} : R a b → All₂ R l₁ l₂ → All₂ R (a :: l₁) (b :: l₂)

/-- the decision `(nt, h1)` of hook `h` under forcing `f` is produced by a tape *prefix* `t`, whatever
follows on the tape and whatever was logged before: `autonomous_decision` consumes exactly `t` -/
def FramedReach [DecidableEq κ] (h : Hook κ α) (f nt : Bool) (h1 : Hook κ α) : Prop :=
  ∀ log : List Call, ∃ (t : List Nat) (log' : List Call), ∀ rest : List Nat,
    h.auto ⟨t ++ rest, log⟩ f = some (nt, h1, ⟨rest, log'⟩)

/-- what one hook of the tick is to do: its decision flag, its state after `autonomous_decision`,
its state after `release_decision` and what it sends -/
structure Target (κ α : Type) where
  nt : Bool
  decided : Hook κ α
  released : Hook κ α
  out : List (Msg κ α)

/-- `t` is in the decision space of the idle hook `h`, in tape-framed form: reachable unforced, and —
when it is non-trivial — reachable forced as well (`run_hooks` forces the last undecided hook when
nothing non-trivial was decided before it) -/
structure HookTarget [DecidableEq κ] (h : Hook κ α) (t : Target κ α) : Prop where
  idle : h.cur = none
  unforced : FramedReach h false t.nt t.decided
  forced : t.nt = true → FramedReach h true true t.decided
  rel : t.decided.release = some (t.released, t.out)
  trivial_of_cannot : h.canNT = false → t.nt = false

/-- the hook list after the first pass of `run_hooks`: hooks that cannot make a non-trivial decision
are decided (trivially), the others are left for the second pass -/
def pass1Result : List (Hook κ α) → List (Target κ α) → List (Hook κ α)
  | h :: hs, t :: ts => (if h.canNT then h else t.decided) :: pass1Result hs ts
  | _, _ => []

theorem aux_pass1_framed [DecidableEq κ] {hs : List (Hook κ α)} {ts : List (Target κ α)}
    (hft : All₂ HookTarget hs ts) :
    ∀ (log : List Call) (made : Bool) (rem : Nat), ∃ tape log' made1 rem1, ∀ rest : List Nat,
      runPass1 hs made rem ⟨tape ++ rest, log⟩ = some (pass1Result hs ts, made1, rem1, ⟨rest, log'⟩) := by
  induction hft with
  | nil => exact fun log made rem => ⟨[], log, made, rem, fun rest => by simp [runPass1, pass1Result]⟩
  | @cons h t hs ts hht _ ih =>
    intro log made rem
    cases hcan : h.canNT with
    | false =>
      obtain ⟨t0, log1, h0⟩ := hht.unforced log
      obtain ⟨tape', log', made1, rem1, hr⟩ := ih log1 made (rem - 1)
      refine ⟨t0 ++ tape', log', made1, rem1, fun rest => ?_⟩
      have ha := h0 (tape' ++ rest)
      have hr' := hr rest
      unfold runPass1
      simp only [hht.idle, hcan, Bool.not_false, ↓reduceIte, List.append_assoc, ha, hr', pass1Result,
        Bool.false_eq_true]
    | true =>
      obtain ⟨tape', log', made1, rem1, hr⟩ := ih log made rem
      refine ⟨tape', log', made1, rem1, fun rest => ?_⟩
      have hr' := hr rest
      unfold runPass1
      simp only [hht.idle, hcan, Bool.not_true, Bool.false_eq_true, ↓reduceIte, hr', pass1Result]

/-- a hook as the second pass finds it -/
inductive Pass2Rel [DecidableEq κ] : Hook κ α → Target κ α → Prop
  | undecided {h t} : HookTarget h t → h.canNT = true → Pass2Rel h t
  | decided {t} {b : Bool} : t.decided.cur = some b → t.decided.release = some (t.released, t.out) →
      Pass2Rel t.decided t

/-- some hook still undecided is to make a non-trivial decision -/
def ntU : List (Hook κ α) → List (Target κ α) → Bool
  | h :: hs, t :: ts => (h.cur.isNone && t.nt) || ntU hs ts
  | _, _ => false

theorem aux_ntU_undecided [DecidableEq κ] {hs : List (Hook κ α)} {ts : List (Target κ α)}
    (h2 : All₂ Pass2Rel hs ts) (hz : undecided hs = 0) : ntU hs ts = false := by
  induction h2 with
  | nil => rfl
  | @cons h t hs ts hp _ ih =>
    cases hp with
    | undecided hht hcan =>
      simp [undecided, hht.idle, hcan] at hz
    | decided hc _ =>
      have hu : undecided (t.decided :: hs) = undecided hs := by simp [undecided, hc]
      simp only [ntU, hc, Option.isNone_some, Bool.false_and, Bool.false_or]
      exact ih (by rw [← hu]; exact hz)

theorem aux_pass2_framed [DecidableEq κ] {hs : List (Hook κ α)} {ts : List (Target κ α)}
    (h2 : All₂ Pass2Rel hs ts) :
    ∀ (made : Bool) (rem : Nat), rem = undecided hs → (made || ntU hs ts) = true →
    ∀ log : List Call, ∃ tape log', ∀ rest : List Nat,
      runPass2 hs made rem ⟨tape ++ rest, log⟩
        = some (ts.map (·.released), ts.map (·.out), true, ⟨rest, log'⟩) := by
  induction h2 with
  | nil =>
    intro made rem _ hm log
    simp only [ntU, Bool.or_false] at hm
    exact ⟨[], log, fun rest => by simp [runPass2, hm]⟩
  | @cons h t hs ts hp hrest ih =>
    intro made rem hrem hm log
    cases hp with
    | undecided hht hcan =>
      have hc := hht.idle
      have hu : undecided (h :: hs) = undecided hs + 1 := by simp [undecided, hc, hcan]
      have hne : (rem == 0) = false := by rw [hrem, hu]; simp
      cases hforce : (!made && rem == 1) with
      | true =>
        simp only [Bool.and_eq_true, Bool.not_eq_true', beq_iff_eq] at hforce
        obtain ⟨hmade, hrem1⟩ := hforce
        have hz : undecided hs = 0 := by omega
        have hnt : t.nt = true := by
          have := aux_ntU_undecided hrest hz
          simpa [ntU, hmade, hc, this] using hm
        obtain ⟨t0, log1, h0⟩ := hht.forced hnt log
        obtain ⟨tape', log', hr⟩ := ih (made || true) (rem - 1) (by omega) (by simp) log1
        refine ⟨t0 ++ tape', log', fun rest => ?_⟩
        have ha := h0 (tape' ++ rest)
        have hr' := hr rest
        unfold runPass2
        have hf : (!made && rem == 1) = true := by simp [hmade, hrem1]
        simp only [hc, hf, List.append_assoc, ha, hne, Bool.false_eq_true, ↓reduceIte, hht.rel, hr',
          List.map_cons]
      | false =>
        obtain ⟨t0, log1, h0⟩ := hht.unforced log
        obtain ⟨tape', log', hr⟩ := ih (made || t.nt) (rem - 1) (by omega) (by
          simp only [ntU, hc, Option.isNone_none, Bool.true_and] at hm
          simpa [Bool.or_assoc] using hm) log1
        refine ⟨t0 ++ tape', log', fun rest => ?_⟩
        have ha := h0 (tape' ++ rest)
        have hr' := hr rest
        unfold runPass2
        simp only [hc, hforce, List.append_assoc, ha, hne, Bool.false_eq_true, ↓reduceIte, hht.rel, hr',
          List.map_cons]
    | decided hc hrel =>
      have hu : undecided (t.decided :: hs) = undecided hs := by simp [undecided, hc]
      obtain ⟨tape', log', hr⟩ := ih made rem (by rw [hrem, hu]) (by
        simpa [ntU, hc] using hm) log
      refine ⟨tape', log', fun rest => ?_⟩
      have hr' := hr rest
      unfold runPass2
      simp only [hc, hrel, hr', List.map_cons]

theorem aux_pass1Result_rel [DecidableEq κ] {hs : List (Hook κ α)} {ts : List (Target κ α)}
    (hft : All₂ HookTarget hs ts) : All₂ Pass2Rel (pass1Result hs ts) ts := by
  induction hft with
  | nil => exact .nil
  | @cons h t hs ts hht _ ih =>
    simp only [pass1Result]
    refine .cons ?_ ih
    cases hcan : h.canNT with
    | true => simpa using Pass2Rel.undecided hht hcan
    | false =>
      obtain ⟨t0, log', h0⟩ := hht.unforced []
      have hsome := aux_auto_cur h (h0 [])
      obtain ⟨b, hb⟩ := Option.isSome_iff_exists.mp hsome
      simpa using Pass2Rel.decided hb hht.rel

theorem aux_ntU_pass1 [DecidableEq κ] {hs : List (Hook κ α)} {ts : List (Target κ α)}
    (hft : All₂ HookTarget hs ts) (hsome : ∃ t ∈ ts, t.nt = true) :
    ntU (pass1Result hs ts) ts = true := by
  induction hft with
  | nil => simp at hsome
  | @cons h t hs ts hht _ ih =>
    obtain ⟨t', ht', hnt⟩ := hsome
    simp only [List.mem_cons] at ht'
    rcases ht' with rfl | ht'
    · have hcan : h.canNT = true := by
        cases hc : h.canNT with
        | true => rfl
        | false => have := hht.trivial_of_cannot hc; simp [this] at hnt
      simp [pass1Result, ntU, hcan, hht.idle, hnt]
    · simp [pass1Result, ntU, ih ⟨t', ht', hnt⟩]

/-- **Multi-hook completeness of `run_hooks`** (the tape-framing argument): for a tick with idle
hooks, *every* vector of per-hook decisions, each taken from that hook's (framed) decision space,
with at least one non-trivial component, is produced by some tape — the concatenation of the
per-hook tape prefixes, first the trivially decided hooks (first pass), then the others in order
(second pass), where the last undecided hook uses its forced tape iff nothing non-trivial was
decided before it. -/
theorem runHooks_reaches_every_framed_vector [DecidableEq κ] {hs : List (Hook κ α)} {ts : List (Target κ α)}
    (hft : All₂ HookTarget hs ts) (hsome : ∃ t ∈ ts, t.nt = true) :
    ∃ tape d', runHooks hs ⟨tape, []⟩ = some (ts.map (·.released), ts.map (·.out), true, d') := by
  have hidle : ∀ h ∈ hs, h.cur = none := by
    intro h hh
    clear hsome
    induction hft with
    | nil => simp at hh
    | cons hht _ ih =>
      simp only [List.mem_cons] at hh
      rcases hh with rfl | hh
      · exact hht.idle
      · exact ih hh
  obtain ⟨tape1, log1, made1, rem1, hp1⟩ := aux_pass1_framed hft [] false hs.length
  have hrel := aux_pass1Result_rel hft
  obtain ⟨hm1, _, hu1, hr1⟩ := aux_pass1 hs false hs.length _ hidle (hp1 [])
  have hle := aux_canCount_le hs
  have hrem : rem1 = undecided (pass1Result hs ts) := by rw [hr1, hu1]; omega
  obtain ⟨tape2, log2, hp2⟩ := aux_pass2_framed hrel false rem1 hrem
    (by simp [aux_ntU_pass1 hft hsome]) log1
  refine ⟨tape1 ++ tape2, ⟨[], log2⟩, ?_⟩
  have := hp2 []
  simp only [List.append_nil] at this
  simp only [runHooks, hp1 tape2, hm1, this]

/-! ### the framed decision spaces of the tick hooks -/

theorem hookTarget_passthrough [DecidableEq κ] {q : List α} {last : Option α} {d d1 : Drv} {nt : Bool}
    {h1 h2 : Hook κ α} {out : List (Msg κ α)}
    (ha : (Hook.passthrough q none last).auto d false = some (nt, h1, d1)) (hr : h1.release = some (h2, out)) :
    HookTarget (Hook.passthrough q none last) ⟨nt, h1, h2, out⟩ := by
  simp only [Hook.auto, Option.map_eq_some_iff] at ha
  obtain ⟨⟨nt1, q1, r1⟩, hh, heq⟩ := ha
  simp only [Prod.mk.injEq] at heq
  obtain ⟨rfl, rfl, rfl⟩ := heq
  refine ⟨rfl, fun log => ⟨[], log, fun rest => by simp [Hook.auto, hh]⟩, ?_, hr, ?_⟩
  · intro hnt
    simp only at hnt
    subst hnt
    refine fun log => ⟨[], log, fun rest => ?_⟩
    unfold passthroughAuto at hh
    split at hh
    · rename_i item hl
      simp only [Option.some.injEq, Prod.mk.injEq] at hh
      obtain ⟨_, rfl, rfl⟩ := hh
      simp [Hook.auto, passthroughAuto, hl]
    · split at hh
      · simp at hh
      · split at hh <;> simp at hh
  · intro hcan
    simp only [Hook.canNT, Bool.not_eq_eq_eq_not, Bool.not_false, List.isEmpty_iff] at hcan
    subst hcan
    simp only [passthroughAuto, List.getLast?_nil, Bool.false_eq_true, ↓reduceIte] at hh
    split at hh
    · simp only [Option.some.injEq, Prod.mk.injEq] at hh; exact hh.1.symm
    · simp at hh

theorem hookTarget_streamTotal [DecidableEq κ] {q : List α} {d d1 : Drv} {nt : Bool}
    {h1 h2 : Hook κ α} {out : List (Msg κ α)}
    (ha : (Hook.streamTotal q none).auto d false = some (nt, h1, d1)) (hr : h1.release = some (h2, out)) :
    HookTarget (Hook.streamTotal q none) ⟨nt, h1, h2, out⟩ := by
  simp only [Hook.auto, Option.map_eq_some_iff] at ha
  obtain ⟨⟨r1, q1, nt1, d1'⟩, hh, heq⟩ := ha
  simp only [Prod.mk.injEq] at heq
  obtain ⟨rfl, rfl, rfl⟩ := heq
  unfold streamTotalAuto at hh
  split at hh
  · simp at hh
  · rename_i c dc hc
    simp only [Option.some.injEq, Prod.mk.injEq] at hh
    obtain ⟨rfl, rfl, rfl, rfl⟩ := hh
    have hrange := aux_nat_range hc
    simp only [Bool.false_eq_true, ↓reduceIte] at hrange
    refine ⟨rfl, fun log => ⟨[c], .u 0 q.length c :: log, fun rest => ?_⟩, ?_, hr, ?_⟩
    · have := aux_nat_hit 0 q.length c log rest (Nat.zero_le _) hrange.2
      simp only [Nat.sub_zero] at this
      simp [Hook.auto, streamTotalAuto, this]
    · intro hnt
      simp only [decide_eq_true_eq] at hnt
      refine fun log => ⟨[c - 1], .u 1 q.length c :: log, fun rest => ?_⟩
      have := aux_nat_hit 1 q.length c log rest hnt hrange.2
      simp [Hook.auto, streamTotalAuto, this, hnt]
    · intro hcan
      simp only [Hook.canNT, Bool.not_eq_eq_eq_not, Bool.not_false, List.isEmpty_iff] at hcan
      subst hcan
      simp only [List.length_nil] at hrange
      simp only [decide_eq_false_iff_not]
      omega

theorem hookTarget_singleton [DecidableEq κ] {s : SingSt α} (hs : s.rel = none) {d d1 : Drv} {nt : Bool}
    {h1 h2 : Hook κ α} {out : List (Msg κ α)}
    (ha : (Hook.singleton s).auto d false = some (nt, h1, d1)) (hr : h1.release = some (h2, out)) :
    HookTarget (Hook.singleton (κ := κ) s) ⟨nt, h1, h2, out⟩ := by
  simp only [Hook.auto, Option.map_eq_some_iff] at ha
  obtain ⟨⟨nt1, s1, d1'⟩, hh, heq⟩ := ha
  simp only [Prod.mk.injEq] at heq
  obtain ⟨rfl, rfl, rfl⟩ := heq
  have hidle : (Hook.singleton (κ := κ) s).cur = none := by simp [Hook.cur, hs]
  unfold singletonAuto at hh
  split at hh
  · -- empty buffer: the last snapshot again, no draw
    rename_i hq
    simp only [Bool.false_eq_true, ↓reduceIte] at hh
    split at hh
    · rename_i l hl
      simp only [Option.some.injEq, Prod.mk.injEq] at hh
      obtain ⟨rfl, rfl, rfl⟩ := hh
      refine ⟨hidle, fun log => ⟨[], log, fun rest => by simp [Hook.auto, singletonAuto, hq, hl]⟩, by simp, hr,
        fun _ => rfl⟩
    · simp at hh
  · rename_i hq
    have hcanT : (Hook.singleton (κ := κ) s).canNT = true := by simp [Hook.canNT, hq]
    rcases hsd : d.boolIf (!false && s.last.isSome) with ⟨rr, dd⟩
    simp only [hsd] at hh
    split at hh
    · -- the unchanged snapshot (only drawn when there is one)
      split at hh
      · rename_i l hl
        simp only [Option.some.injEq, Prod.mk.injEq] at hh
        obtain ⟨rfl, rfl, rfl⟩ := hh
        refine ⟨hidle, fun log => ⟨[1], .b true :: log, fun rest => ?_⟩, by simp, hr, fun hc => by simp [hcanT] at hc⟩
        have hb := aux_boolIf_hit true log rest
        simp only [↓reduceIte] at hb
        simp [Hook.auto, singletonAuto, hq, hl, hb]
      · simp at hh
    · split at hh
      · simp at hh
      · rename_i idx d2 hidx
        have hrange := aux_natEx_range hidx
        split at hh
        · simp at hh
        · rename_i item rst hdrop
          simp only [Option.some.injEq, Prod.mk.injEq] at hh
          obtain ⟨rfl, rfl, rfl⟩ := hh
          have hforced : FramedReach (Hook.singleton (κ := κ) s) true true
              (.singleton { q := rst, rel := some (item, true), last := s.last, skipped := s.q.take idx }) := by
            intro log
            refine ⟨[idx], .u 0 (s.q.length - 1) idx :: log, fun rest => ?_⟩
            have := aux_natEx_hit 0 s.q.length idx log rest (Nat.zero_le _) hrange.2
            simp only [Nat.sub_zero] at this
            simp [Hook.auto, singletonAuto, hq, aux_boolIf_false, this, hdrop]
          refine ⟨hidle, ?_, fun _ => hforced, hr, fun hc => by simp [hcanT] at hc⟩
          cases hl : s.last.isSome with
          | false =>
            refine fun log => ⟨[idx], .u 0 (s.q.length - 1) idx :: log, fun rest => ?_⟩
            have := aux_natEx_hit 0 s.q.length idx log rest (Nat.zero_le _) hrange.2
            simp only [Nat.sub_zero] at this
            simp [Hook.auto, singletonAuto, hq, hl, aux_boolIf_false, this, hdrop]
          | true =>
            refine fun log => ⟨[0, idx], .u 0 (s.q.length - 1) idx :: .b false :: log, fun rest => ?_⟩
            have hb := aux_boolIf_hit false log (idx :: rest)
            simp only [Bool.false_eq_true, ↓reduceIte] at hb
            have := aux_natEx_hit 0 s.q.length idx (.b false :: log) rest (Nat.zero_le _) hrange.2
            simp only [Nat.sub_zero] at this
            simp [Hook.auto, singletonAuto, hq, hl, hb, this, hdrop]

theorem aux_streamNoLoop_framed : ∀ (fuel : Nat) (pre post out : List α) (log : List Call) (force : Bool)
    (sel rem : List α), fuel = (pre ++ post).length → (post = [] → pre = []) → Split post sel rem →
    ((force && out.isEmpty) = true → sel ≠ []) →
    ∃ tape log', ∀ rest, streamNoLoop fuel force (pre ++ post) out pre.length ⟨tape ++ rest, log⟩
      = some (out ++ sel, pre ++ rem, ⟨rest, log'⟩) := by
  intro fuel
  induction fuel with
  | zero =>
    intro pre post out log force sel rem hf hp hs _
    have hq : pre ++ post = [] := List.length_eq_zero_iff.mp hf.symm
    simp only [List.append_eq_nil_iff] at hq
    obtain ⟨rfl, rfl⟩ := hq
    obtain ⟨rfl, rfl⟩ := aux_split_of_nil hs
    exact ⟨[], log, fun rest => by simp [streamNoLoop]⟩
  | succ n ih =>
    intro pre post out log force sel rem hf hp hs hforce
    by_cases hpost : post = []
    · subst hpost
      have := hp rfl; subst this
      obtain ⟨rfl, rfl⟩ := aux_split_of_nil hs
      exact ⟨[], log, fun rest => by simp [streamNoLoop]⟩
    · have hne : (pre ++ post).isEmpty = false := by
        cases post with
        | nil => exact absurd rfl hpost
        | cons _ _ => simp
      cases sel with
      | nil =>
        have hrem := aux_split_nil_left hs
        subst hrem
        have hmust : (force && out.isEmpty) = false := by
          cases hm : (force && out.isEmpty) with
          | false => rfl
          | true => exact absurd rfl (hforce hm)
        refine ⟨[1], .b true :: log, fun rest => ?_⟩
        unfold streamNoLoop
        simp only [hne, Bool.false_eq_true, ↓reduceIte, hmust, Bool.not_false]
        have := aux_boolIf_hit true log rest
        simp only [↓reduceIte] at this
        simp only [List.cons_append, List.nil_append, this, ↓reduceIte, List.append_nil]
      | cons x s' =>
        obtain ⟨a, b, r', hl, hr, hsb⟩ := aux_split_first hs
        subst hr
        have hidx : (pre ++ post)[(pre ++ a).length]? = some x := by
          rw [hl, ← List.append_assoc]; simp
        have hlen : (pre ++ a).length < (pre ++ post).length := by
          rw [hl]; simp
        have herase : (pre ++ post).eraseIdx (pre ++ a).length = (pre ++ a) ++ b := by
          rw [hl, ← List.append_assoc, List.eraseIdx_append_of_length_le (Nat.le_refl _)]; simp
        have hrec : ∀ log', ∃ tape log'', ∀ rest, (if ((pre ++ a).length == ((pre ++ a) ++ b).length) = true
              then some (out ++ [x], (pre ++ a) ++ b, (⟨tape ++ rest, log'⟩ : Drv))
              else streamNoLoop n force ((pre ++ a) ++ b) (out ++ [x]) (pre ++ a).length ⟨tape ++ rest, log'⟩)
            = some (out ++ x :: s', pre ++ (a ++ r'), ⟨rest, log''⟩) := by
          intro log'
          cases hb : b with
          | nil =>
            subst hb
            obtain ⟨rfl, rfl⟩ := aux_split_of_nil hsb
            exact ⟨[], log', fun rest => by simp⟩
          | cons b0 bs =>
            have hneq : ((pre ++ a).length == ((pre ++ a) ++ b).length) = false := by
              simp [hb]
            have hfuel : n = ((pre ++ a) ++ b).length := by
              have := hf; rw [hl] at this; simp at this ⊢; omega
            obtain ⟨tape, log'', ht⟩ := ih (pre ++ a) b (out ++ [x]) log' force s' r' hfuel
              (by intro hbn; simp [hb] at hbn) hsb (by simp)
            refine ⟨tape, log'', fun rest => ?_⟩
            rw [← hb, hneq]
            simp only [Bool.false_eq_true, ↓reduceIte]
            simpa [List.append_assoc] using ht rest
        cases hm : (force && out.isEmpty) with
        | true =>
          obtain ⟨tape, log'', ht⟩ := hrec (.u pre.length ((pre ++ post).length - 1) (pre ++ a).length :: log)
          refine ⟨((pre ++ a).length - pre.length) :: tape, log'', fun rest => ?_⟩
          unfold streamNoLoop
          simp only [hne, Bool.false_eq_true, ↓reduceIte, hm, Bool.not_true, aux_boolIf_false, List.cons_append]
          rw [aux_natEx_hit pre.length (pre ++ post).length (pre ++ a).length log (tape ++ rest) (by simp) hlen]
          simp only [hidx, herase]
          exact ht rest
        | false =>
          obtain ⟨tape, log'', ht⟩ := hrec (.u pre.length ((pre ++ post).length - 1) (pre ++ a).length :: .b false :: log)
          refine ⟨0 :: ((pre ++ a).length - pre.length) :: tape, log'', fun rest => ?_⟩
          unfold streamNoLoop
          simp only [hne, Bool.false_eq_true, ↓reduceIte, hm, Bool.not_false, List.cons_append]
          have hb0 := aux_boolIf_hit false log (((pre ++ a).length - pre.length) :: (tape ++ rest))
          simp only [Bool.false_eq_true, ↓reduceIte] at hb0
          simp only [hb0, Bool.false_eq_true, ↓reduceIte]
          rw [aux_natEx_hit pre.length (pre ++ post).length (pre ++ a).length _ (tape ++ rest) (by simp) hlen]
          simp only [hidx, herase]
          exact ht rest

theorem hookTarget_streamNo [DecidableEq κ] {q : List α} {d d1 : Drv} {nt : Bool}
    {h1 h2 : Hook κ α} {out : List (Msg κ α)}
    (ha : (Hook.streamNo q none).auto d false = some (nt, h1, d1)) (hr : h1.release = some (h2, out)) :
    HookTarget (Hook.streamNo q none) ⟨nt, h1, h2, out⟩ := by
  simp only [Hook.auto, Option.map_eq_some_iff] at ha
  obtain ⟨⟨r1, q1, nt1, d1'⟩, hh, heq⟩ := ha
  simp only [Prod.mk.injEq] at heq
  obtain ⟨rfl, rfl, rfl⟩ := heq
  obtain ⟨hsplit, _, _, hnt⟩ := streamNo_released_is_sublist hh
  have hntv : nt1 = !r1.isEmpty := by
    cases r1 <;> cases nt1 <;> simp_all
  have reach : ∀ f : Bool, (f = true → r1 ≠ []) → FramedReach (Hook.streamNo (κ := κ) q none) f nt1 (.streamNo q1 (some r1)) := by
    intro f hf log
    obtain ⟨tape, log', ht⟩ := aux_streamNoLoop_framed q.length [] q [] log f r1 q1 (by simp) (by simp) hsplit
      (by intro h; simp at h; exact hf h)
    refine ⟨tape, log', fun rest => ?_⟩
    have := ht rest
    simp only [List.nil_append, List.length_nil] at this
    simp [Hook.auto, streamNoAuto, this, hntv]
  refine ⟨rfl, reach false (by simp), ?_, hr, ?_⟩
  · intro hn
    simp only at hn
    have := reach true (fun _ => hnt.mp hn)
    rwa [hn] at this
  · intro hcan
    simp only [Hook.canNT, Bool.not_eq_eq_eq_not, Bool.not_false, List.isEmpty_iff] at hcan
    subst hcan
    obtain ⟨rfl, _⟩ := aux_split_of_nil hsplit
    simp [hntv]

theorem aux_keyedTotal_framed {m m' : KMap κ α} {rel : List (κ × α)} (h : KeyedRel PrefixP m rel m') :
    ∀ (force : Bool) (log : List Call), (force = true → rel ≠ []) →
    ∃ tape log', ∀ rest, keyedTotalLoop m (nonemptyKeyCount m) force ⟨tape ++ rest, log⟩ = some (rel, m', ⟨rest, log'⟩) := by
  induction h with
  | nil => intro force log _; exact ⟨[], log, fun rest => by simp [keyedTotalLoop]⟩
  | @cons k q r q' m0 rel0 m0' hp hrest ih =>
    intro force log hf
    have hp' : r ++ q' = q := hp
    by_cases hq : q.isEmpty = true
    · have hqe : q = [] := by simpa using hq
      subst hqe
      simp only [List.append_eq_nil_iff] at hp'
      obtain ⟨rfl, rfl⟩ := hp'
      obtain ⟨tape, log', ht⟩ := ih force log (by simpa using hf)
      refine ⟨tape, log', fun rest => ?_⟩
      unfold keyedTotalLoop
      simp only [List.isEmpty_nil, ↓reduceIte, aux_nonemptyKeyCount_cons_empty (k := k) (rest := m0) hq, ht rest,
        List.map_nil, List.nil_append]
    · have hcnt := aux_nonemptyKeyCount_cons_nonempty (k := k) (rest := m0) hq
      have htake : q.take r.length = r := by rw [← hp']; simp
      have hdrop : q.drop r.length = q' := by rw [← hp']; simp
      have hlen : r.length ≤ q.length := by rw [← hp']; simp
      have hlo : (if (force && nonemptyKeyCount m0 == 0) = true then 1 else 0) ≤ r.length := by
        split
        · rename_i hc
          simp only [Bool.and_eq_true, beq_iff_eq] at hc
          have hrel0 := aux_keyedRel_empty (P := PrefixP) (by intro r q' h; simp [PrefixP] at h; exact h.1) hrest hc.2
          have := hf hc.1
          rw [hrel0] at this
          cases r with
          | nil => simp at this
          | cons _ _ => simp
        · exact Nat.zero_le _
      obtain ⟨tape, log', ht⟩ := ih (if 0 < r.length then false else force)
        (.u (if (force && nonemptyKeyCount m0 == 0) = true then 1 else 0) q.length r.length :: log) (by
          intro hff
          split at hff
          · simp at hff
          · rename_i h0
            have : r = [] := by cases r with
              | nil => rfl
              | cons _ _ => simp at h0
            subst this
            simpa using hf hff)
      refine ⟨(r.length - (if (force && nonemptyKeyCount m0 == 0) = true then 1 else 0)) :: tape, log', fun rest => ?_⟩
      unfold keyedTotalLoop
      simp only [hq, Bool.false_eq_true, ↓reduceIte, hcnt, Nat.add_sub_cancel, List.cons_append]
      rw [aux_nat_hit _ _ r.length log (tape ++ rest) hlo hlen]
      simp only [ht rest, htake, hdrop]

theorem aux_keyedNo_framed {m m' : KMap κ α} {rel : List (κ × α)} (h : KeyedRel Split m rel m') :
    ∀ (force : Bool) (log : List Call), (force = true → rel ≠ []) →
    ∃ tape log', ∀ rest, keyedNoLoop m (nonemptyKeyCount m) force ⟨tape ++ rest, log⟩ = some (rel, m', ⟨rest, log'⟩) := by
  induction h with
  | nil => intro force log _; exact ⟨[], log, fun rest => by simp [keyedNoLoop]⟩
  | @cons k q r q' m0 rel0 m0' hp hrest ih =>
    intro force log hf
    by_cases hq : q.isEmpty = true
    · have hqe : q = [] := by simpa using hq
      subst hqe
      obtain ⟨rfl, rfl⟩ := aux_split_of_nil hp
      obtain ⟨tape, log', ht⟩ := ih force log (by simpa using hf)
      refine ⟨tape, log', fun rest => ?_⟩
      unfold keyedNoLoop
      simp only [List.isEmpty_nil, ↓reduceIte, aux_nonemptyKeyCount_cons_empty (k := k) (rest := m0) hq, ht rest,
        List.map_nil, List.nil_append]
    · have hcnt := aux_nonemptyKeyCount_cons_nonempty (k := k) (rest := m0) hq
      have hqne : q ≠ [] := by intro hh; subst hh; simp at hq
      have hmust : (force && nonemptyKeyCount m0 == 0) = true → r ≠ [] := by
        intro hc
        simp only [Bool.and_eq_true, beq_iff_eq] at hc
        have hrel0 := aux_keyedRel_empty (P := Split) (fun r q' h => (aux_split_of_nil h).1) hrest hc.2
        have := hf hc.1
        rw [hrel0] at this
        intro hr; subst hr; simp at this
      obtain ⟨tape1, log1, ht1⟩ := aux_keyedNoInner_complete q.length [] q [] log force (nonemptyKeyCount m0) r q'
        (by simp) (by intro h; exact absurd h hqne) hp hmust
      simp only [List.nil_append, List.length_nil] at ht1
      obtain ⟨tape2, log', ht2⟩ := ih (if r.isEmpty then force else false) log1 (by
        intro hff
        cases r with
        | nil => simpa using hf (by simpa using hff)
        | cons _ _ => simp at hff)
      refine ⟨tape1 ++ tape2, log', fun rest => ?_⟩
      unfold keyedNoLoop
      simp only [hq, Bool.false_eq_true, ↓reduceIte, hcnt, Nat.add_sub_cancel, List.append_assoc,
        ht1 (tape2 ++ rest), ht2 rest]

theorem aux_kmapAllEmpty_count {m : KMap κ α} (h : kmapAllEmpty m = true) : nonemptyKeyCount m = 0 := by
  induction m with
  | nil => rfl
  | cons e rest ih =>
    obtain ⟨k, q⟩ := e
    simp only [kmapAllEmpty, List.all_cons, Bool.and_eq_true] at h
    rw [aux_nonemptyKeyCount_cons_empty h.1]
    exact ih (by simpa [kmapAllEmpty] using h.2)

theorem hookTarget_keyedTotal [DecidableEq κ] {m : KMap κ α} {d d1 : Drv} {nt : Bool}
    {h1 h2 : Hook κ α} {out : List (Msg κ α)}
    (ha : (Hook.keyedTotal m none).auto d false = some (nt, h1, d1)) (hr : h1.release = some (h2, out)) :
    HookTarget (Hook.keyedTotal m none) ⟨nt, h1, h2, out⟩ := by
  simp only [Hook.auto, Option.map_eq_some_iff] at ha
  obtain ⟨⟨r1, m1, nt1, d1'⟩, hh, heq⟩ := ha
  simp only [Prod.mk.injEq] at heq
  obtain ⟨rfl, rfl, rfl⟩ := heq
  obtain ⟨hrel, hnt⟩ := keyedTotal_released_is_prefix_per_key hh
  have hntv : nt1 = !r1.isEmpty := by
    cases r1 <;> cases nt1 <;> simp_all
  have reach : ∀ f : Bool, (f = true → r1 ≠ []) → FramedReach (Hook.keyedTotal m none) f nt1 (.keyedTotal m1 (some r1)) := by
    intro f hf log
    obtain ⟨tape, log', ht⟩ := aux_keyedTotal_framed hrel f log hf
    exact ⟨tape, log', fun rest => by simp [Hook.auto, keyedTotalAuto, ht rest, hntv]⟩
  refine ⟨rfl, reach false (by simp), ?_, hr, ?_⟩
  · intro hn
    simp only at hn
    have := reach true (fun _ => hnt.mp hn)
    rwa [hn] at this
  · intro hcan
    simp only [Hook.canNT, Bool.not_eq_eq_eq_not, Bool.not_false] at hcan
    have := aux_keyedRel_empty (P := PrefixP) (by intro r q' h; simp [PrefixP] at h; exact h.1) hrel
      (aux_kmapAllEmpty_count hcan)
    simp [hntv, this]

theorem hookTarget_keyedNo [DecidableEq κ] {m : KMap κ α} {d d1 : Drv} {nt : Bool}
    {h1 h2 : Hook κ α} {out : List (Msg κ α)}
    (ha : (Hook.keyedNo m none).auto d false = some (nt, h1, d1)) (hr : h1.release = some (h2, out)) :
    HookTarget (Hook.keyedNo m none) ⟨nt, h1, h2, out⟩ := by
  simp only [Hook.auto, Option.map_eq_some_iff] at ha
  obtain ⟨⟨r1, m1, nt1, d1'⟩, hh, heq⟩ := ha
  simp only [Prod.mk.injEq] at heq
  obtain ⟨rfl, rfl, rfl⟩ := heq
  obtain ⟨hrel, hnt⟩ := keyedNo_released_is_sublist_per_key hh
  have hntv : nt1 = !r1.isEmpty := by
    cases r1 <;> cases nt1 <;> simp_all
  have reach : ∀ f : Bool, (f = true → r1 ≠ []) → FramedReach (Hook.keyedNo m none) f nt1 (.keyedNo m1 (some r1)) := by
    intro f hf log
    obtain ⟨tape, log', ht⟩ := aux_keyedNo_framed hrel f log hf
    exact ⟨tape, log', fun rest => by simp [Hook.auto, keyedNoAuto, ht rest, hntv]⟩
  refine ⟨rfl, reach false (by simp), ?_, hr, ?_⟩
  · intro hn
    simp only at hn
    have := reach true (fun _ => hnt.mp hn)
    rwa [hn] at this
  · intro hcan
    simp only [Hook.canNT, Bool.not_eq_eq_eq_not, Bool.not_false] at hcan
    have := aux_keyedRel_empty (P := Split) (fun r q' h => (aux_split_of_nil h).1) hrel
      (aux_kmapAllEmpty_count hcan)
    simp [hntv, this]

/-! ### KeyedSingletonHook: every per-key combination of unchanged / withheld / buffered version -/

theorem aux_nonemptyKeyCount_cons_le {k : κ} {q : List α} {m : KMap κ α} :
    nonemptyKeyCount m ≤ nonemptyKeyCount ((k, q) :: m) := by
  by_cases hq : q.isEmpty = true
  · rw [aux_nonemptyKeyCount_cons_empty hq]; exact Nat.le_refl _
  · rw [aux_nonemptyKeyCount_cons_nonempty hq]; omega

theorem aux_kSnapRel_fresh_nonempty [DecidableEq κ] {last last' : List (κ × α)} {m m' : KMap κ α}
    {rel : List (κ × α × Bool)} (h : KSnapRel last m rel m' last') :
    rel.any (fun e => e.2.2) = true → 0 < nonemptyKeyCount m := by
  induction h with
  | nil => intro h; simp at h
  | unchanged _ _ ih =>
    intro h
    simp only [List.any_cons, Bool.false_or] at h
    exact Nat.lt_of_lt_of_le (ih h) aux_nonemptyKeyCount_cons_le
  | withheld _ _ _ ih =>
    intro h
    exact Nat.lt_of_lt_of_le (ih h) aux_nonemptyKeyCount_cons_le
  | @fresh last k skipped x q' m0 rel0 m0' last0' _ _ =>
    intro _
    have hq : ¬ (skipped ++ x :: q').isEmpty = true := by simp
    rw [aux_nonemptyKeyCount_cons_nonempty hq]; omega

/-- every decision of the shape `KSnapRel` (per key: unchanged / withheld / a buffered version, older
ones dropped) — with a new snapshot for some key when forced — is produced by a tape prefix -/
theorem aux_keyedSing_framed [DecidableEq κ] {last last' : List (κ × α)} {m m' : KMap κ α}
    {rel : List (κ × α × Bool)} (h : KSnapRel last m rel m' last') :
    ∀ (force : Bool) (log : List Call), (force = true → rel.any (fun e => e.2.2) = true) →
    ∃ tape log', ∀ rest, keyedSingLoop m (nonemptyKeyCount m) force last ⟨tape ++ rest, log⟩
      = some (rel, m', last', rel.any (fun e => e.2.2), ⟨rest, log'⟩) := by
  induction h with
  | nil => intro force log _; exact ⟨[], log, fun rest => by simp [keyedSingLoop]⟩
  | @unchanged last k q l m0 rel0 m0' last0' hl hrest ih =>
    intro force log hf
    have hf0 : force = true → rel0.any (fun e => e.2.2) = true := by
      intro h; simpa using hf h
    by_cases hq : q.isEmpty = true
    · obtain ⟨tape, log', ht⟩ := ih force log hf0
      refine ⟨tape, log', fun rest => ?_⟩
      unfold keyedSingLoop
      simp only [hq, ↓reduceIte, hl, aux_nonemptyKeyCount_cons_empty (k := k) (rest := m0) hq, ht rest,
        List.any_cons, Bool.false_or]
    · have hcnt := aux_nonemptyKeyCount_cons_nonempty (k := k) (rest := m0) hq
      have hnd : (force && nonemptyKeyCount m0 == 0) = false := by
        cases hfc : force with
        | false => simp
        | true =>
          have := aux_kSnapRel_fresh_nonempty hrest (hf0 hfc)
          have : (nonemptyKeyCount m0 == 0) = false := by simp; omega
          simp [this]
      obtain ⟨tape, log', ht⟩ := ih force (.b true :: log) hf0
      refine ⟨1 :: tape, log', fun rest => ?_⟩
      unfold keyedSingLoop
      have hb := aux_boolIf_hit true log (tape ++ rest)
      simp only [↓reduceIte] at hb
      simp only [hq, Bool.false_eq_true, ↓reduceIte, hcnt, Nat.add_sub_cancel, hnd, Bool.not_false, hl,
        Option.isSome_some, Bool.and_self, List.cons_append, hb, ht rest, List.any_cons, Bool.false_or]
  | @withheld last k q m0 rel0 m0' last0' hl hne hrest ih =>
    intro force log hf
    have hq : ¬ q.isEmpty = true := by simpa using hne
    have hcnt := aux_nonemptyKeyCount_cons_nonempty (k := k) (rest := m0) hq
    have hnd : (force && nonemptyKeyCount m0 == 0) = false := by
      cases hfc : force with
      | false => simp
      | true =>
        have := aux_kSnapRel_fresh_nonempty hrest (hf hfc)
        have : (nonemptyKeyCount m0 == 0) = false := by simp; omega
        simp [this]
    obtain ⟨tape, log', ht⟩ := ih force (.b true :: log) hf
    refine ⟨1 :: tape, log', fun rest => ?_⟩
    unfold keyedSingLoop
    have hb := aux_boolIf_hit true log (tape ++ rest)
    simp only [↓reduceIte] at hb
    simp only [hq, Bool.false_eq_true, ↓reduceIte, hcnt, Nat.add_sub_cancel, hnd, Bool.not_false, hl,
      Option.isSome_none, Bool.and_false, aux_boolIf_false, Option.isNone_none, Bool.and_self,
      List.cons_append, hb, ht rest]
  | @fresh last k skipped x q' m0 rel0 m0' last0' hrest ih =>
    intro force log hf
    have hq : ¬ (skipped ++ x :: q').isEmpty = true := by simp
    have hcnt := aux_nonemptyKeyCount_cons_nonempty (k := k) (rest := m0) hq
    have hlen : skipped.length < (skipped ++ x :: q').length := by simp
    have hdrop : (skipped ++ x :: q').drop skipped.length = x :: q' := by simp
    have hidx := fun log0 rest0 => aux_natEx_hit 0 (skipped ++ x :: q').length skipped.length log0 rest0
      (Nat.zero_le _) hlen
    simp only [Nat.sub_zero] at hidx
    cases hnd : (force && nonemptyKeyCount m0 == 0) with
    | true =>
      -- the forced new snapshot: no boolean is drawn
      obtain ⟨tape, log', ht⟩ := ih false (.u 0 ((skipped ++ x :: q').length - 1) skipped.length :: log) (by simp)
      refine ⟨skipped.length :: tape, log', fun rest => ?_⟩
      unfold keyedSingLoop
      simp only [hq, Bool.false_eq_true, ↓reduceIte, hcnt, Nat.add_sub_cancel, hnd, Bool.not_true,
        Bool.false_and, aux_boolIf_false, List.cons_append, hidx, hdrop, ht rest, List.any_cons, Bool.true_or]
    | false =>
      cases hl : lookup k last with
      | some l =>
        obtain ⟨tape, log', ht⟩ := ih false
          (.u 0 ((skipped ++ x :: q').length - 1) skipped.length :: .b false :: log) (by simp)
        refine ⟨0 :: skipped.length :: tape, log', fun rest => ?_⟩
        unfold keyedSingLoop
        have hb := aux_boolIf_hit false log (skipped.length :: (tape ++ rest))
        simp only [Bool.false_eq_true, ↓reduceIte] at hb
        simp only [hq, Bool.false_eq_true, ↓reduceIte, hcnt, Nat.add_sub_cancel, hnd, Bool.not_false, hl,
          Option.isSome_some, Bool.and_self, List.cons_append, hb, Option.isNone_some, Bool.and_false,
          aux_boolIf_false, hidx, hdrop, ht rest, List.any_cons, Bool.true_or]
      | none =>
        obtain ⟨tape, log', ht⟩ := ih false
          (.u 0 ((skipped ++ x :: q').length - 1) skipped.length :: .b false :: log) (by simp)
        refine ⟨0 :: skipped.length :: tape, log', fun rest => ?_⟩
        unfold keyedSingLoop
        have hb := aux_boolIf_hit false log (skipped.length :: (tape ++ rest))
        simp only [Bool.false_eq_true, ↓reduceIte] at hb
        simp only [hq, Bool.false_eq_true, ↓reduceIte, hcnt, Nat.add_sub_cancel, hnd, Bool.not_false, hl,
          Option.isSome_none, Bool.and_false, aux_boolIf_false, Option.isNone_none, Bool.and_self,
          List.cons_append, hb, hidx, hdrop, ht rest, List.any_cons, Bool.true_or]


/-- completeness for `KeyedSingletonHook` in plain form: every decision of shape `KSnapRel` is reached
by some tape (with a new snapshot for some key when forced) -/
theorem keyedSingleton_every_decision_reachable [DecidableEq κ] {last last' : List (κ × α)} {m m' : KMap κ α}
    {rel : List (κ × α × Bool)} (h : KSnapRel last m rel m' last') (force : Bool) (log : List Call)
    (hf : force = true → rel.any (fun e => e.2.2) = true) :
    ∃ tape d', (Hook.keyedSingleton m none last).auto ⟨tape, log⟩ force
      = some (rel.any (fun e => e.2.2), .keyedSingleton m' (some rel) last', d') := by
  obtain ⟨tape, log', ht⟩ := aux_keyedSing_framed h force log hf
  refine ⟨tape, ⟨[], log'⟩, ?_⟩
  have := ht []
  simp only [List.append_nil] at this
  simp [Hook.auto, this]

theorem hookTarget_keyedSingleton [DecidableEq κ] {m : KMap κ α} {last : List (κ × α)} {d d1 : Drv} {nt : Bool}
    {h1 h2 : Hook κ α} {out : List (Msg κ α)}
    (ha : (Hook.keyedSingleton m none last).auto d false = some (nt, h1, d1)) (hr : h1.release = some (h2, out)) :
    HookTarget (Hook.keyedSingleton m none last) ⟨nt, h1, h2, out⟩ := by
  simp only [Hook.auto, Option.map_eq_some_iff] at ha
  obtain ⟨⟨r1, m1, l1, nt1, d1'⟩, hh, heq⟩ := ha
  simp only [Prod.mk.injEq] at heq
  obtain ⟨rfl, rfl, rfl⟩ := heq
  obtain ⟨hshape, hnt⟩ := keyedSingleton_release_shape _ _ _ _ _ hh
  have reach : ∀ f : Bool, (f = true → r1.any (fun e => e.2.2) = true) →
      FramedReach (Hook.keyedSingleton m none last) f nt1 (.keyedSingleton m1 (some r1) l1) := by
    intro f hf log
    obtain ⟨tape, log', ht⟩ := aux_keyedSing_framed hshape f log hf
    exact ⟨tape, log', fun rest => by simp [Hook.auto, ht rest, hnt]⟩
  refine ⟨rfl, reach false (by simp), ?_, hr, ?_⟩
  · intro hn
    simp only at hn
    have := reach true (fun _ => by rw [← hnt]; exact hn)
    rwa [hn] at this
  · intro hcan
    simp only [Hook.canNT, Bool.not_eq_eq_eq_not, Bool.not_false] at hcan
    have hz := aux_kmapAllEmpty_count hcan
    cases hany : r1.any (fun e => e.2.2) with
    | false => simp [hnt, hany]
    | true => have := aux_kSnapRel_fresh_nonempty hshape hany; omega

/-- hook kinds whose framed decision space is proved: every hook that `batch` / `snapshot` put into a
tick (the `TopLevel*` hooks are observations: one hook per `run_hooks` call) -/
def Hook.framable : Hook κ α → Bool
  | .streamTotal _ _ => true
  | .streamNo _ _ => true
  | .keyedTotal _ _ => true
  | .keyedNo _ _ => true
  | .singleton _ => true
  | .passthrough _ _ _ => true
  | .keyedSingleton _ _ _ => true
  | _ => false

/-- every decision an idle framable hook takes on *some* tape is in its framed decision space -/
theorem hookTarget_of_decision [DecidableEq κ] (h : Hook κ α) (hfr : h.framable = true) (hidle : h.cur = none)
    {d d1 : Drv} {nt : Bool} {h1 h2 : Hook κ α} {out : List (Msg κ α)}
    (ha : h.auto d false = some (nt, h1, d1)) (hr : h1.release = some (h2, out)) :
    HookTarget h ⟨nt, h1, h2, out⟩ := by
  cases h with
  | streamTotal q r =>
    have : r = none := by simpa [Hook.cur, relNonempty] using hidle
    subst this; exact hookTarget_streamTotal ha hr
  | streamNo q r =>
    have : r = none := by simpa [Hook.cur, relNonempty] using hidle
    subst this; exact hookTarget_streamNo ha hr
  | keyedTotal m r =>
    have : r = none := by simpa [Hook.cur, relNonempty] using hidle
    subst this; exact hookTarget_keyedTotal ha hr
  | keyedNo m r =>
    have : r = none := by simpa [Hook.cur, relNonempty] using hidle
    subst this; exact hookTarget_keyedNo ha hr
  | singleton s =>
    exact hookTarget_singleton (by simpa [Hook.cur] using hidle) ha hr
  | passthrough q r last =>
    have : r = none := by simpa [Hook.cur] using hidle
    subst this; exact hookTarget_passthrough ha hr
  | keyedSingleton m r last =>
    have : r = none := by simpa [Hook.cur] using hidle
    subst this; exact hookTarget_keyedSingleton ha hr
  | tlOrder _ _ => simp [Hook.framable] at hfr
  | tlFold _ _ => simp [Hook.framable] at hfr
  | tlKeyedOrder _ _ => simp [Hook.framable] at hfr
  | tlPartial _ _ => simp [Hook.framable] at hfr
  | tlMerge _ _ _ => simp [Hook.framable] at hfr
  | tlKeyedMerge _ _ _ => simp [Hook.framable] at hfr

theorem aux_targets_of_index [DecidableEq κ] : ∀ (hs : List (Hook κ α)) (res : List (Bool × Hook κ α × List (Msg κ α))),
    res.length = hs.length → (∀ h ∈ hs, h.framable = true) → (∀ h ∈ hs, h.cur = none) →
    (∀ i (hi : i < hs.length), ∃ (t : List Nat) (r : Bool × Hook κ α × List (Msg κ α)) (h1 : Hook κ α) (d1 : Drv),
        res[i]? = some r ∧ hs[i].auto ⟨t, []⟩ false = some (r.1, h1, d1) ∧ h1.release = some (r.2.1, r.2.2)) →
    ∃ ts : List (Target κ α), All₂ HookTarget hs ts ∧ ts.map (·.released) = res.map (·.2.1) ∧
      ts.map (·.out) = res.map (·.2.2) ∧ ts.map (·.nt) = res.map (·.1) := by
  intro hs
  induction hs with
  | nil =>
    intro res hl _ _ _
    have : res = [] := List.length_eq_zero_iff.mp (by simpa using hl)
    subst this
    exact ⟨[], .nil, rfl, rfl, rfl⟩
  | cons h hs ih =>
    intro res hl hfr hidle hdec
    cases res with
    | nil => simp at hl
    | cons r res =>
      obtain ⟨t, r0, h1, d1, hr0, ha, hrel⟩ := hdec 0 (by simp)
      simp only [List.getElem?_cons_zero, Option.some.injEq] at hr0
      subst hr0
      simp only [List.getElem_cons_zero] at ha
      have hht := hookTarget_of_decision h (hfr h (List.mem_cons_self ..)) (hidle h (List.mem_cons_self ..)) ha hrel
      obtain ⟨ts, i1, i2, i3, i4⟩ := ih res (by simpa using hl)
        (fun x hx => hfr x (List.mem_cons_of_mem _ hx)) (fun x hx => hidle x (List.mem_cons_of_mem _ hx))
        (fun i hi => by
          obtain ⟨t', r', h1', d1', a, b, c⟩ := hdec (i + 1) (by simpa using hi)
          exact ⟨t', r', h1', d1', by simpa using a, by simpa using b, c⟩)
      exact ⟨_ :: ts, .cons hht i1, by simp [i2], by simp [i3], by simp [i4]⟩

/-- The proved part of `runHooksReachesEveryVectorStatement`: the full statement for ticks made of the
hooks the builder puts into ticks — `StreamHook` (both orders), `KeyedStreamHook` (both orders),
`SingletonHook`, `PassthroughSingletonHook`, `KeyedSingletonHook` — every vector of per-hook
decisions (each taken on some tape, unforced) with a non-trivial component is produced by `run_hooks`
on some tape.  Missing for the full statement (arbitrary hook lists): the framed decision space of
the six `TopLevel*` hooks, which never share a `run_hooks` call (one observation = one hook,
`runHooks_single_is_forced`). -/
theorem runHooks_reaches_every_vector_partial [DecidableEq κ]
    (hs : List (Hook κ α)) (tapes : List (List Nat)) (res : List (Bool × Hook κ α × List (Msg κ α)))
    (hfr : ∀ h ∈ hs, h.framable = true)
    (hidle : ∀ h ∈ hs, h.cur = none) (_htl : tapes.length = hs.length) (hrl : res.length = hs.length)
    (hdec : ∀ i (hi : i < hs.length), ∃ t r h1 d1, tapes[i]? = some t ∧ res[i]? = some r ∧
        hs[i].auto ⟨t, []⟩ false = some (r.1, h1, d1) ∧ h1.release = some (r.2.1, r.2.2))
    (hsome : ∃ r ∈ res, r.1 = true) :
    ∃ tape d', runHooks hs ⟨tape, []⟩ = some (res.map (·.2.1), res.map (·.2.2), true, d') := by
  obtain ⟨ts, hft, e1, e2, e3⟩ := aux_targets_of_index hs res hrl hfr hidle (fun i hi => by
    obtain ⟨t, r, h1, d1, _, b, c, e⟩ := hdec i hi
    exact ⟨t, r, h1, d1, b, c, e⟩)
  have hs' : ∃ t ∈ ts, t.nt = true := by
    obtain ⟨r, hr, hrt⟩ := hsome
    have : true ∈ res.map (·.1) := List.mem_map.mpr ⟨r, hr, hrt⟩
    rw [← e3] at this
    obtain ⟨t, ht, htn⟩ := List.mem_map.mp this
    exact ⟨t, ht, htn⟩
  obtain ⟨tape, d', hrun⟩ := runHooks_reaches_every_framed_vector hft hs'
  exact ⟨tape, d', by rw [hrun, e1, e2]⟩

/-- non-vacuity: a tick of a batch (2 pending) and a fold snapshot whose buffer is empty — the F36
shape — reaches "release both items, re-release the unchanged snapshot" -/
example : ∃ tape d', runHooks [Hook.streamTotal (κ := Nat) [10, 20] none, .passthrough [] none (some 0)] ⟨tape, []⟩
    = some ([.streamTotal [] none, .passthrough [] none (some 0)], [[.item 10, .item 20], [.item 0]], true, d') :=
  runHooks_reaches_every_vector_partial
    [Hook.streamTotal (κ := Nat) [10, 20] none, .passthrough [] none (some 0)] [[2], []]
    [(true, .streamTotal [] none, [.item 10, .item 20]), (false, .passthrough [] none (some 0), [.item 0])]
    (by decide) (by decide) rfl rfl
    (fun i hi => by
      match i, hi with
      | 0, _ => exact ⟨[2], _, .streamTotal [] (some [10, 20]), ⟨[], [.u 0 2 2]⟩, rfl, rfl, rfl, rfl⟩
      | 1, _ => exact ⟨[], _, .passthrough [] (some (0, false)) (some 0), ⟨[], []⟩, rfl, rfl, rfl, rfl⟩)
    ⟨_, List.mem_cons_self .., rfl⟩


/-! ### keyed top-level hooks: every single release -/

/-- `TopLevelKeyedStreamOrderHook`: every pending item of every non-empty key can be the one released
next (and "release nothing" when not forced) -/
theorem tlKeyedOrder_every_item_reachable [DecidableEq κ] (m : KMap κ α) (force : Bool) (log : List Call)
    (keyIdx itemIdx qlen : Nat) (key : κ) (item : α) (m' : KMap κ α)
    (hk : (nonemptyKeys m)[keyIdx]? = some (key, qlen)) (hi : itemIdx < qlen)
    (hrem : removeAt key itemIdx m = some (item, m')) :
    ∃ tape d', tlKeyedOrderAuto m ⟨tape, log⟩ force = some ([(key, item)], m', true, d') := by
  have hklen : keyIdx < (nonemptyKeys m).length := by
    rcases Nat.lt_or_ge keyIdx (nonemptyKeys m).length with h | h
    · exact h
    · simp [List.getElem?_eq_none h] at hk
  have hne : (nonemptyKeys m).isEmpty = false := by
    cases hq : nonemptyKeys m with
    | nil => simp [hq] at hklen
    | cons _ _ => simp
  cases force with
  | true =>
    refine ⟨[keyIdx, itemIdx], ?_⟩
    unfold tlKeyedOrderAuto
    simp only [hne, Bool.false_eq_true, ↓reduceIte, Bool.not_true, aux_boolIf_false]
    have h1 := aux_natEx_hit 0 (nonemptyKeys m).length keyIdx log [itemIdx] (Nat.zero_le _) hklen
    have h2 := aux_natEx_hit 0 qlen itemIdx (.u 0 ((nonemptyKeys m).length - 1) keyIdx :: log) [] (Nat.zero_le _) hi
    simp only [Nat.sub_zero] at h1 h2
    simp only [h1, hk, h2, hrem]
    exact ⟨_, rfl⟩
  | false =>
    refine ⟨[0, keyIdx, itemIdx], ?_⟩
    unfold tlKeyedOrderAuto
    simp only [hne, Bool.false_eq_true, ↓reduceIte, Bool.not_false]
    have hb := aux_boolIf_hit false log [keyIdx, itemIdx]
    simp only [Bool.false_eq_true, ↓reduceIte] at hb
    have h1 := aux_natEx_hit 0 (nonemptyKeys m).length keyIdx (.b false :: log) [itemIdx] (Nat.zero_le _) hklen
    have h2 := aux_natEx_hit 0 qlen itemIdx (.u 0 ((nonemptyKeys m).length - 1) keyIdx :: .b false :: log) []
      (Nat.zero_le _) hi
    simp only [Nat.sub_zero] at h1 h2
    simp only [hb, Bool.false_eq_true, ↓reduceIte, h1, hk, h2, hrem]
    exact ⟨_, rfl⟩

/-- `TopLevelPartiallyOrderedStreamHook`: the front item of every non-empty key can be released next -/
theorem tlPartial_every_front_reachable [DecidableEq κ] (m : KMap κ α) (force : Bool) (log : List Call)
    (keyIdx qlen : Nat) (key : κ) (item : α) (m' : KMap κ α)
    (hk : (nonemptyKeys m)[keyIdx]? = some (key, qlen))
    (hrem : removeAt key 0 m = some (item, m')) :
    ∃ tape d', tlPartialAuto m ⟨tape, log⟩ force = some ([(key, item)], m', true, d') := by
  have hklen : keyIdx < (nonemptyKeys m).length := by
    rcases Nat.lt_or_ge keyIdx (nonemptyKeys m).length with h | h
    · exact h
    · simp [List.getElem?_eq_none h] at hk
  have hne : (nonemptyKeys m).isEmpty = false := by
    cases hq : nonemptyKeys m with
    | nil => simp [hq] at hklen
    | cons _ _ => simp
  cases force with
  | true =>
    refine ⟨[keyIdx], ?_⟩
    unfold tlPartialAuto
    simp only [hne, Bool.false_eq_true, ↓reduceIte, Bool.not_true, aux_boolIf_false]
    have h1 := aux_natEx_hit 0 (nonemptyKeys m).length keyIdx log [] (Nat.zero_le _) hklen
    simp only [Nat.sub_zero] at h1
    simp only [h1, hk, hrem]
    exact ⟨_, rfl⟩
  | false =>
    refine ⟨[0, keyIdx], ?_⟩
    unfold tlPartialAuto
    simp only [hne, Bool.false_eq_true, ↓reduceIte, Bool.not_false]
    have hb := aux_boolIf_hit false log [keyIdx]
    simp only [Bool.false_eq_true, ↓reduceIte] at hb
    have h1 := aux_natEx_hit 0 (nonemptyKeys m).length keyIdx (.b false :: log) [] (Nat.zero_le _) hklen
    simp only [Nat.sub_zero] at h1
    simp only [hb, Bool.false_eq_true, ↓reduceIte, h1, hk, hrem]
    exact ⟨_, rfl⟩

/-- `TopLevelKeyedMergeOrderedHook`: the front of every non-empty key queue of either input can be
released next -/
theorem tlKeyedMerge_every_candidate_reachable [DecidableEq κ] (m1 m2 : KMap κ α) (force : Bool) (log : List Call)
    (idx : Nat) (second : Bool) (key : κ) (item : α) (mm : KMap κ α)
    (hc : (candidates m1 m2)[idx]? = some (second, key))
    (hrem : removeAt key 0 (if second then m2 else m1) = some (item, mm)) :
    ∃ tape d', tlKeyedMergeAuto m1 m2 ⟨tape, log⟩ force
      = some ([(key, item)], (if second then m1 else mm), (if second then mm else m2), true, d') := by
  have hlen : idx < (candidates m1 m2).length := by
    rcases Nat.lt_or_ge idx (candidates m1 m2).length with h | h
    · exact h
    · simp [List.getElem?_eq_none h] at hc
  have hne : (candidates m1 m2).isEmpty = false := by
    cases hq : candidates m1 m2 with
    | nil => simp [hq] at hlen
    | cons _ _ => simp
  cases force with
  | true =>
    refine ⟨[idx], ?_⟩
    unfold tlKeyedMergeAuto
    simp only [hne, Bool.false_eq_true, ↓reduceIte, Bool.not_true, aux_boolIf_false]
    have h1 := aux_natEx_hit 0 (candidates m1 m2).length idx log [] (Nat.zero_le _) hlen
    simp only [Nat.sub_zero] at h1
    simp only [h1, hc]
    cases second with
    | true => simp only [↓reduceIte] at hrem ⊢; simp only [hrem]; exact ⟨_, rfl⟩
    | false => simp only [Bool.false_eq_true, ↓reduceIte] at hrem ⊢; simp only [hrem]; exact ⟨_, rfl⟩
  | false =>
    refine ⟨[0, idx], ?_⟩
    unfold tlKeyedMergeAuto
    simp only [hne, Bool.false_eq_true, ↓reduceIte, Bool.not_false]
    have hb := aux_boolIf_hit false log [idx]
    simp only [Bool.false_eq_true, ↓reduceIte] at hb
    have h1 := aux_natEx_hit 0 (candidates m1 m2).length idx (.b false :: log) [] (Nat.zero_le _) hlen
    simp only [Nat.sub_zero] at h1
    simp only [hb, Bool.false_eq_true, ↓reduceIte, h1, hc]
    cases second with
    | true => simp only [↓reduceIte] at hrem ⊢; simp only [hrem]; exact ⟨_, rfl⟩
    | false => simp only [Bool.false_eq_true, ↓reduceIte] at hrem ⊢; simp only [hrem]; exact ⟨_, rfl⟩

/-- "release nothing" is reachable for the three keyed top-level hooks when not forced -/
theorem tlKeyed_silence_reachable [DecidableEq κ] (m m2 : KMap κ α) (log : List Call) :
    (∃ tape d', tlKeyedOrderAuto m ⟨tape, log⟩ false = some ([], m, false, d')) ∧
    (∃ tape d', tlPartialAuto m ⟨tape, log⟩ false = some ([], m, false, d')) ∧
    (∃ tape d', tlKeyedMergeAuto m m2 ⟨tape, log⟩ false = some ([], m, m2, false, d')) := by
  have hb := aux_boolIf_hit true log []
  simp only [↓reduceIte] at hb
  refine ⟨?_, ?_, ?_⟩
  · by_cases hq : (nonemptyKeys m).isEmpty = true
    · exact ⟨[], ⟨[], log⟩, by simp [tlKeyedOrderAuto, hq]⟩
    · exact ⟨[1], ⟨[], .b true :: log⟩, by simp [tlKeyedOrderAuto, hq, hb]⟩
  · by_cases hq : (nonemptyKeys m).isEmpty = true
    · exact ⟨[], ⟨[], log⟩, by simp [tlPartialAuto, hq]⟩
    · exact ⟨[1], ⟨[], .b true :: log⟩, by simp [tlPartialAuto, hq, hb]⟩
  · by_cases hq : (candidates m m2).isEmpty = true
    · exact ⟨[], ⟨[], log⟩, by simp [tlKeyedMergeAuto, hq]⟩
    · exact ⟨[1], ⟨[], .b true :: log⟩, by simp [tlKeyedMergeAuto, hq, hb]⟩



/-! ### `run_hooks`: which call is forced (the `|=` accumulation of the second pass) -/

theorem aux_pass1T_erase [DecidableEq κ] : ∀ (hs : List (Hook κ α)) (i : Nat) (made : Bool) (rem : Nat) (d : Drv),
    (runPass1T hs i made rem d).map (fun r => (r.1, r.2.1, r.2.2.1, r.2.2.2.1)) = runPass1 hs made rem d := by
  intro hs
  induction hs with
  | nil => intro i made rem d; simp [runPass1T, runPass1]
  | cons h rest ih =>
    intro i made rem d
    unfold runPass1T runPass1
    cases hc : h.cur with
    | some nt =>
      simp only []
      rw [← ih (i + 1) (made || nt) (rem - 1) d]
      cases runPass1T rest (i + 1) (made || nt) (rem - 1) d <;> rfl
    | none =>
      simp only []
      cases hcan : h.canNT with
      | false =>
        simp only [Bool.not_false, ↓reduceIte]
        cases ha : h.auto d false with
        | none => rfl
        | some res =>
          obtain ⟨nt, h', d1⟩ := res
          simp only []
          rw [← ih (i + 1) made (rem - 1) d1]
          cases runPass1T rest (i + 1) made (rem - 1) d1 <;> rfl
      | true =>
        simp only [Bool.not_true, Bool.false_eq_true, ↓reduceIte]
        rw [← ih (i + 1) made rem d]
        cases runPass1T rest (i + 1) made rem d <;> rfl

theorem aux_pass2T_erase [DecidableEq κ] : ∀ (hs : List (Hook κ α)) (i : Nat) (made : Bool) (rem : Nat) (d : Drv),
    (runPass2T hs i made rem d).map (fun r => (r.1, r.2.1, r.2.2.1, r.2.2.2.1)) = runPass2 hs made rem d := by
  intro hs
  induction hs with
  | nil => intro i made rem d; simp [runPass2T, runPass2]
  | cons h rest ih =>
    intro i made rem d
    unfold runPass2T runPass2
    cases hc : h.cur with
    | some b =>
      simp only []
      cases hr : h.release with
      | none => rfl
      | some r =>
        obtain ⟨h2, out⟩ := r
        simp only []
        rw [← ih (i + 1) made rem d]
        cases runPass2T rest (i + 1) made rem d <;> rfl
    | none =>
      simp only []
      cases ha : h.auto d (!made && rem == 1) with
      | none => rfl
      | some res =>
        obtain ⟨nt, h', d1⟩ := res
        simp only []
        cases hz : (rem == 0) with
        | true => rfl
        | false =>
          simp only [Bool.false_eq_true, ↓reduceIte]
          cases hr : h'.release with
          | none => rfl
          | some r =>
            obtain ⟨h2, out⟩ := r
            simp only []
            rw [← ih (i + 1) (made || nt) (rem - 1) d1]
            cases runPass2T rest (i + 1) (made || nt) (rem - 1) d1 <;> rfl

/-- the traced `run_hooks` is `run_hooks`: forgetting the trace gives `runHooks` (so the trace the
driver prints, and the theorems below, are about the computation all other theorems are about) -/
theorem runHooksT_erases_to_runHooks [DecidableEq κ] (hs : List (Hook κ α)) (d : Drv) :
    (runHooksT hs d).map (fun r => (r.1, r.2.1, r.2.2.1, r.2.2.2.1)) = runHooks hs d := by
  unfold runHooksT runHooks
  rw [← aux_pass1T_erase hs 0 false hs.length d]
  cases runPass1T hs 0 false hs.length d with
  | none => rfl
  | some r =>
    obtain ⟨hs1, made, rem, d1, ev1⟩ := r
    simp only [Option.map_some]
    rw [← aux_pass2T_erase hs1 0 made rem d1]
    cases runPass2T hs1 0 made rem d1 <;> rfl

/-! the forcing discipline read off a trace -/

theorem aux_forcesOK_split : ∀ (ev : List Ev) (made : Bool), forcesOK made ev = true →
    ∀ (pre post : List Ev) (j : Nat) (f nt : Bool), ev = pre ++ Ev.auto j f nt :: post →
      f = (!made && !(pre.any Ev.isNT) && noAuto post) := by
  intro ev
  induction ev with
  | nil => intro made _ pre post j f nt h; simp at h
  | cons e r ih =>
    intro made hok pre post j f nt h
    cases pre with
    | nil =>
      simp only [List.nil_append, List.cons.injEq] at h
      obtain ⟨rfl, rfl⟩ := h
      simp only [forcesOK, Bool.and_eq_true, beq_iff_eq] at hok
      simp [hok.1]
    | cons e' pre' =>
      simp only [List.cons_append, List.cons.injEq] at h
      obtain ⟨rfl, hr⟩ := h
      cases e with
      | rel i =>
        simp only [forcesOK] at hok
        have := ih made hok pre' post j f nt hr
        simp [this, Ev.isNT]
      | auto i f0 nt0 =>
        simp only [forcesOK, Bool.and_eq_true, beq_iff_eq] at hok
        have := ih (made || nt0) hok.2 pre' post j f nt hr
        simp only [this, List.any_cons, Ev.isNT]
        cases made <;> cases nt0 <;> simp

theorem aux_pass2T_forces [DecidableEq κ] : ∀ (hs : List (Hook κ α)) (i : Nat) (made : Bool) (rem : Nat) (d : Drv)
    {hs' : List (Hook κ α)} {outs : List (List (Msg κ α))} {made' : Bool} {d' : Drv} {ev : List Ev},
    QInv hs → rem = undecided hs → runPass2T hs i made rem d = some (hs', outs, made', d', ev) →
    forcesOK made ev = true ∧ noAuto ev = decide (undecided hs = 0) := by
  intro hs
  induction hs with
  | nil =>
    intro i made rem d hs' outs made' d' ev _ _ h
    simp only [runPass2T, Option.some.injEq, Prod.mk.injEq] at h
    obtain ⟨_, _, _, _, rfl⟩ := h
    simp [forcesOK, noAuto, undecided]
  | cons h rest ih =>
    intro i made rem d hs' outs made' d' ev hq hrem hrun
    have hqrest : QInv rest := fun x hx => hq x (List.mem_cons_of_mem _ hx)
    unfold runPass2T at hrun
    cases hc : h.cur with
    | some b =>
      have hu : undecided (h :: rest) = undecided rest := by simp [undecided, hc]
      simp only [hc] at hrun
      split at hrun
      · simp at hrun
      · split at hrun
        · simp at hrun
        · rename_i hrec
          simp only [Option.some.injEq, Prod.mk.injEq] at hrun
          obtain ⟨_, _, _, _, rfl⟩ := hrun
          obtain ⟨i1, i2⟩ := ih (i + 1) made rem d hqrest (by rw [hrem, hu]) hrec
          simp only [List.nil_append, forcesOK, noAuto, hu]
          exact ⟨i1, i2⟩
    | none =>
      simp only [hc] at hrun
      cases ha : h.auto d (!made && rem == 1) with
      | none => simp [ha] at hrun
      | some res =>
        obtain ⟨nt, h1, d1⟩ := res
        simp only [ha] at hrun
        have hcan := hq h (List.mem_cons_self ..) hc
        have hu : undecided (h :: rest) = undecided rest + 1 := by simp [undecided, hc, hcan]
        have hne : (rem == 0) = false := by rw [hrem, hu]; simp
        simp only [hne, Bool.false_eq_true, ↓reduceIte] at hrun
        split at hrun
        · simp at hrun
        · split at hrun
          · simp at hrun
          · rename_i hrec
            simp only [Option.some.injEq, Prod.mk.injEq] at hrun
            obtain ⟨_, _, _, _, rfl⟩ := hrun
            obtain ⟨i1, i2⟩ := ih (i + 1) (made || nt) (rem - 1) d1 hqrest (by rw [hrem, hu]; simp) hrec
            have hk : (rem == 1) = decide (undecided rest = 0) := by
              rw [hrem, hu]; cases undecided rest <;> simp
            simp only [List.cons_append, List.nil_append, forcesOK, noAuto, i1, i2, hk, hu, Bool.and_true,
              beq_self_eq_true, true_and]
            simp

theorem aux_pass1T_unforced [DecidableEq κ] : ∀ (hs : List (Hook κ α)) (i : Nat) (made : Bool) (rem : Nat) (d : Drv)
    {hs1 : List (Hook κ α)} {made1 : Bool} {rem1 : Nat} {d1 : Drv} {ev : List Ev},
    runPass1T hs i made rem d = some (hs1, made1, rem1, d1, ev) → ∀ e ∈ ev, ∃ j nt, e = Ev.auto j false nt := by
  intro hs
  induction hs with
  | nil =>
    intro i made rem d hs1 made1 rem1 d1 ev h
    simp only [runPass1T, Option.some.injEq, Prod.mk.injEq] at h
    obtain ⟨_, _, _, _, rfl⟩ := h
    simp
  | cons h rest ih =>
    intro i made rem d hs1 made1 rem1 d1 ev hrun
    unfold runPass1T at hrun
    split at hrun
    · split at hrun
      · simp at hrun
      · rename_i hrec
        simp only [Option.some.injEq, Prod.mk.injEq] at hrun
        obtain ⟨_, _, _, _, rfl⟩ := hrun
        exact ih _ _ _ _ hrec
    · split at hrun
      · split at hrun
        · simp at hrun
        · split at hrun
          · simp at hrun
          · rename_i hrec
            simp only [Option.some.injEq, Prod.mk.injEq] at hrun
            obtain ⟨_, _, _, _, rfl⟩ := hrun
            intro e he
            simp only [List.mem_cons] at he
            rcases he with rfl | he
            · exact ⟨_, _, rfl⟩
            · exact ih _ _ _ _ hrec e he
      · split at hrun
        · simp at hrun
        · rename_i hrec
          simp only [Option.some.injEq, Prod.mk.injEq] at hrun
          obtain ⟨_, _, _, _, rfl⟩ := hrun
          exact ih _ _ _ _ hrec

/-- **The forcing flag of every second-pass call of `run_hooks`** (any hook list whose undecided
hooks can all release, `remaining_decision_count` = their number — what the first pass establishes):
the call is forced iff `made_nontrivial_decision` was false when the pass started, *no* earlier call
of the pass returned "non-trivial" (the `|=` accumulation: any earlier hook, not only the previous
one) and no further call follows (it is the last undecided hook). -/
theorem runHooks_second_pass_forcing_flag [DecidableEq κ] {hs hs' : List (Hook κ α)} {i : Nat} {made made' : Bool}
    {rem : Nat} {d d' : Drv} {outs : List (List (Msg κ α))} {ev : List Ev}
    (hq : QInv hs) (hrem : rem = undecided hs)
    (hrun : runPass2T hs i made rem d = some (hs', outs, made', d', ev))
    {pre post : List Ev} {j : Nat} {f nt : Bool} (hsplit : ev = pre ++ Ev.auto j f nt :: post) :
    f = (!made && !(pre.any Ev.isNT) && noAuto post) :=
  aux_forcesOK_split ev made (aux_pass2T_forces hs i made rem d hq hrem hrun).1 pre post j f nt hsplit

/-- **`run_hooks` on an idle tick: the last undecided hook is forced iff no earlier hook made a
non-trivial decision.**  The trace of `run_hooks` is the first-pass calls — never forced (trivial
decisions of the hooks that cannot release) — followed by the second-pass calls, and a second-pass
`autonomous_decision` call is forced exactly when no earlier second-pass call returned
"non-trivial" and no further call follows it.  (With `made_nontrivial_decision = …` instead of
`|= …` the last call would be forced whenever the call just before it was trivial.) -/
theorem runHooks_forces_last_hook_iff_no_earlier_nontrivial [DecidableEq κ] {hs hs2 : List (Hook κ α)} {d d2 : Drv}
    {outs : List (List (Msg κ α))} {made2 : Bool} {ev : List Ev}
    (hidle : ∀ h ∈ hs, h.cur = none) (hrun : runHooksT hs d = some (hs2, outs, made2, d2, ev)) :
    ∃ ev1 ev2, ev = ev1 ++ ev2 ∧ (∀ e ∈ ev1, ∃ j nt, e = Ev.auto j false nt) ∧
      ∀ (pre post : List Ev) (j : Nat) (f nt : Bool), ev2 = pre ++ Ev.auto j f nt :: post →
        (f = true ↔ (∀ e ∈ pre, e.isNT = false) ∧ noAuto post = true) := by
  unfold runHooksT at hrun
  split at hrun
  · simp at hrun
  · rename_i hs1 made1 rem1 d1 ev1 h1
    split at hrun
    · simp at hrun
    · rename_i hs2' outs' made' d' ev2 h2
      simp only [Option.some.injEq, Prod.mk.injEq] at hrun
      obtain ⟨_, _, _, _, rfl⟩ := hrun
      refine ⟨ev1, ev2, rfl, aux_pass1T_unforced hs 0 false hs.length d h1, ?_⟩
      have he := aux_pass1T_erase hs 0 false hs.length d
      rw [h1] at he
      simp only [Option.map_some] at he
      obtain ⟨hm, hq, hu, hr⟩ := aux_pass1 hs false hs.length d hidle he.symm
      have hle := aux_canCount_le hs
      intro pre post j f nt hsplit
      have hf := runHooks_second_pass_forcing_flag hq (by rw [hr, hu]; omega) h2 hsplit
      rw [hf, hm]
      simp only [Bool.not_false, Bool.true_and, Bool.and_eq_true, Bool.not_eq_true', List.any_eq_false]
      constructor
      · rintro ⟨a, b⟩
        exact ⟨fun e he => by simpa using a e he, b⟩
      · rintro ⟨a, b⟩
        exact ⟨fun e he => by simpa using a e he, b⟩

/-- non-vacuity, and the witness that separates `|=` from `=`: three batches with one pending item
each; the first releases, the second and the third withhold — the third call is *not* forced,
although the call just before it was trivial -/
example : (runHooksT [Hook.streamTotal (κ := Nat) [1] none, .streamTotal [2] none, .streamTotal [3] none]
      ⟨[1, 0, 0], []⟩).map (·.2.2.2.2)
    = some [.auto 0 false true, .rel 0, .auto 1 false false, .rel 1, .auto 2 false false, .rel 2] := by
  decide

/-- … and when the first two withhold, the third is forced -/
example : (runHooksT [Hook.streamTotal (κ := Nat) [1] none, .streamTotal [2] none, .streamTotal [3] none]
      ⟨[0, 0, 0], []⟩).map (·.2.2.2.2)
    = some [.auto 0 false false, .rel 0, .auto 1 false false, .rel 1, .auto 2 true true, .rel 2] := by
  decide

end HvSim
