/-
C38 — simulator runs replay deterministically.

The model is a *function* of (initial hook states, choice tape): replay determinism of the model is
true by construction, and the theorems below are trivial — they are stated only so that the claim is
explicit.  The real content of the property — that the implementation has no other input (hash
seeds, addresses, iteration order of `FxHashMap` in the keyed hooks) — cannot be carried by a theorem
about the model; it is checked by the correspondence: every tape is replayed in the same process and
in two separately started processes, and decision logs, outputs and verdicts are compared with each
other and with the model's trace.  Level: proof-of-model (trivial) + replay correspondence; partial.
-/
import HvSim.Props.C37
namespace HvSim
variable {κ α : Type} [DecidableEq κ]

/-- (trivial) the same decision input gives the same decisions, outputs and verdict for `run_hooks` -/
theorem run_deterministic (hs₁ hs₂ : List (Hook κ α)) (t₁ t₂ : List Nat)
    (hh : hs₁ = hs₂) (ht : t₁ = t₂) : runHooks hs₁ ⟨t₁, []⟩ = runHooks hs₂ ⟨t₂, []⟩ := by
  subst hh; subst ht; rfl

/-- (trivial) the same for a single hook decision -/
theorem hook_decision_deterministic (h₁ h₂ : Hook κ α) (t₁ t₂ : List Nat) (f₁ f₂ : Bool)
    (hh : h₁ = h₂) (ht : t₁ = t₂) (hf : f₁ = f₂) : h₁.auto ⟨t₁, []⟩ f₁ = h₂.auto ⟨t₂, []⟩ f₂ := by
  subst hh; subst ht; subst hf; rfl

/-- a run consumes the tape from the front only: what a decision logs is what it drew, in order, so
a recorded log replays to itself (stated for the two driver primitives every hook is built from) -/
theorem driver_calls_replay (d : Drv) (lo hi : Nat) :
    (∀ v d', d.nat lo hi = some (v, d') → d'.log = .u lo hi v :: d.log ∧ d'.tape = d.tape.tail) ∧
    ((d.bool).2.log = .b (d.bool).1 :: d.log ∧ (d.bool).2.tape = d.tape.tail) := by
  constructor
  · intro v d' h
    unfold Drv.nat at h
    split at h
    · simp at h
    · simp only [Option.some.injEq, Prod.mk.injEq] at h
      obtain ⟨rfl, rfl⟩ := h
      exact ⟨rfl, rfl⟩
  · exact ⟨rfl, rfl⟩

/-- a recorded driver call replays: feeding a driver primitive the value it logged (as offset into the
requested range, which is what bolero's replay of a recorded input does) returns the same value, logs
the same call and consumes exactly that entry — so a decision log determines a tape that reproduces it,
call by call (the lifting to whole `run_hooks` runs is by the same per-hook tape framing as in C37 and
is not proved here; it is what the replay correspondence exercises) -/
theorem recorded_call_replays (d : Drv) (lo hi v : Nat) (d' : Drv) (h : d.nat lo hi = some (v, d'))
    (rest : List Nat) (log : List Call) :
    (⟨(v - lo) :: rest, log⟩ : Drv).nat lo hi = some (v, ⟨rest, .u lo hi v :: log⟩) ∧
    (⟨(if (d.bool).1 then 1 else 0) :: rest, log⟩ : Drv).bool = ((d.bool).1, ⟨rest, .b (d.bool).1 :: log⟩) := by
  have hr := aux_nat_range h
  exact ⟨aux_nat_hit lo hi v log rest hr.1 hr.2, aux_bool_hit _ log rest⟩

/-- a hook that makes no driver call cannot depend on the decision input at all: the (fixed)
`PassthroughSingletonHook` decides the same on every tape -/
theorem passthrough_decision_ignores_tape (q : List α) (r : Option (α × Bool)) (last : Option α) (f : Bool)
    (d₁ d₂ : Drv) :
    ((Hook.passthrough (κ := κ) q r last).auto d₁ f).map (fun x => (x.1, x.2.1)) =
    ((Hook.passthrough (κ := κ) q r last).auto d₂ f).map (fun x => (x.1, x.2.1)) := by
  simp only [Hook.auto, Option.map_map]
  cases passthroughAuto q last f <;> rfl

example : runHooks [Hook.keyedNo [(7, [1, 2]), (9, [3])] none] ⟨[0, 1], []⟩
    = runHooks [Hook.keyedNo [(7, [1, 2]), (9, [3])] none] ⟨[0, 1], []⟩ :=
  run_deterministic _ _ _ _ rfl rfl

end HvSim
