/-
C36 — simulator decisions are sound.

For every choice tape (`Drv`, i.e. every sequence of answers of the bolero driver) and every
`force_nontrivial` flag:
* ordered inputs release an in-order prefix, unordered inputs an in-order sub-multiset
  (`Split`), per key for keyed inputs (`KeyedRel`);
* released ++ remaining is a permutation of what was pending (nothing lost, nothing twice);
* the snapshots a `SingletonHook` releases never go back to an older version, over every history
  of pushes and decisions;
* a tick/observation the scheduler may run (`tickCanRun`) whose hooks are idle and well-formed is
  resolved by `run_hooks` without a panic and releases at least one new item or snapshot
  (`runHooks_runnable_tick_releases`; F36 — the empty `PassthroughSingletonHook` buffer — is fixed in
  /repo and the model follows the fixed code);
* `run_hooks` acts hook by hook (`runHooks_is_hookwise`), so the per-hook clauses hold for every
  component of its result (`runHooks_nothing_lost_nothing_twice`).
-/
import HvSim.Model.Sim
import HvSim.Model.Inline
namespace HvSim

/-- `Split l a b`: `a` and `b` are complementary subsequences of `l` (a sub-multiset choice that keeps
queue order on both sides) -/
inductive Split {α : Type} : List α → List α → List α → Prop
  | nil : Split [] [] []
  | left {x l a b} : Split l a b → Split (x :: l) (x :: a) b
  | right {x l a b} : Split l a b → Split (x :: l) a (x :: b)

namespace Split
variable {α : Type}

theorem aux_all_right : ∀ (l : List α), Split l [] l
  | [] => .nil
  | _ :: l => .right (aux_all_right l)

theorem aux_all_left : ∀ (l : List α), Split l l []
  | [] => .nil
  | _ :: l => .left (aux_all_left l)

theorem aux_skip (p : List α) {l a b : List α} (h : Split l a b) : Split (p ++ l) a (p ++ b) := by
  induction p with
  | nil => simpa using h
  | cons x p ih => exact .right ih

theorem aux_sublist_left {l a b : List α} (h : Split l a b) : a.Sublist l := by
  induction h with
  | nil => exact .slnil
  | left _ ih => exact ih.cons_cons _
  | right _ ih => exact ih.cons _

theorem aux_sublist_right {l a b : List α} (h : Split l a b) : b.Sublist l := by
  induction h with
  | nil => exact .slnil
  | left _ ih => exact ih.cons _
  | right _ ih => exact ih.cons_cons _

theorem aux_perm {l a b : List α} (h : Split l a b) : (a ++ b).Perm l := by
  induction h with
  | nil => exact .nil
  | left _ ih => exact ih.cons _
  | right _ ih => exact (List.perm_middle).trans (ih.cons _)

theorem aux_append {l₁ a₁ b₁ l₂ a₂ b₂ : List α} (h₁ : Split l₁ a₁ b₁) (h₂ : Split l₂ a₂ b₂) :
    Split (l₁ ++ l₂) (a₁ ++ a₂) (b₁ ++ b₂) := by
  induction h₁ with
  | nil => simpa using h₂
  | left _ ih => exact .left ih
  | right _ ih => exact .right ih

end Split

variable {α κ β : Type}

/-! ### driver facts -/

theorem aux_nat_range {d d' : Drv} {lo hi v : Nat} (h : d.nat lo hi = some (v, d')) : lo ≤ v ∧ v ≤ hi := by
  unfold Drv.nat at h
  split at h
  · simp at h
  · simp only [Option.some.injEq, Prod.mk.injEq] at h
    obtain ⟨rfl, _⟩ := h
    have : d.tape.headD 0 % (hi - lo + 1) < hi - lo + 1 := Nat.mod_lt _ (by omega)
    omega

theorem aux_natEx_range {d d' : Drv} {lo hi v : Nat} (h : d.natEx lo hi = some (v, d')) : lo ≤ v ∧ v < hi := by
  unfold Drv.natEx at h
  split at h
  · simp at h
  · have := aux_nat_range h; omega

/-! ### StreamHook<TotalOrder> -/

/-- ordered input: what is released is a prefix of the pending queue, what stays is the rest -/
theorem streamTotal_released_is_prefix {q r q' : List α} {d d' : Drv} {force nt : Bool}
    (h : streamTotalAuto q d force = some (r, q', nt, d')) :
    r ++ q' = q ∧ r <+: q ∧ (nt = true ↔ r ≠ []) ∧ (force = true → nt = true) := by
  unfold streamTotalAuto at h
  split at h
  · simp at h
  · rename_i c d1 hc
    simp only [Option.some.injEq, Prod.mk.injEq] at h
    obtain ⟨rfl, rfl, rfl, rfl⟩ := h
    have hr := aux_nat_range hc
    refine ⟨List.take_append_drop c q, List.take_prefix c q, ?_, ?_⟩
    · simp only [decide_eq_true_eq, ne_eq, List.take_eq_nil_iff, not_or]
      constructor
      · intro h0; constructor
        · omega
        · intro hq; subst hq; simp at hr; omega
      · intro ⟨h0, _⟩; omega
    · intro hf; subst hf; simp at hr ⊢; omega

example : streamTotalAuto [10, 20, 30] ⟨[2], []⟩ false
    = some ([10, 20], [30], true, ⟨[], [.u 0 3 2]⟩) := by decide

/-! ### StreamHook<NoOrder> -/

theorem aux_decomp {q : List α} {idx : Nat} {item : α} (h : q[idx]? = some item) :
    ∃ pre post, q = pre ++ item :: post ∧ pre.length = idx := by
  refine ⟨q.take idx, q.drop (idx + 1), ?_, ?_⟩
  · have hlt : idx < q.length := by
      rcases Nat.lt_or_ge idx q.length with h' | h'
      · exact h'
      · simp [List.getElem?_eq_none h'] at h
    have : q[idx] = item := by
      rw [List.getElem?_eq_getElem hlt] at h; simpa using h
    rw [← this]
    simp
  · have hlt : idx < q.length := by
      rcases Nat.lt_or_ge idx q.length with h' | h'
      · exact h'
      · simp [List.getElem?_eq_none h'] at h
    simp [List.length_take]; omega

theorem aux_streamNoLoop : ∀ (fuel : Nat) (force : Bool) (q out : List α) (mi : Nat) (d : Drv)
    {out' q' : List α} {d' : Drv}, mi ≤ q.length →
    streamNoLoop fuel force q out mi d = some (out', q', d') →
    ∃ sel rem, out' = out ++ sel ∧ q' = q.take mi ++ rem ∧ Split (q.drop mi) sel rem := by
  intro fuel
  induction fuel with
  | zero =>
    intro force q out mi d out' q' d' hmi h
    simp only [streamNoLoop, Option.some.injEq, Prod.mk.injEq] at h
    obtain ⟨rfl, rfl, rfl⟩ := h
    exact ⟨[], q.drop mi, by simp, by simp, Split.aux_all_right _⟩
  | succ n ih =>
    intro force q out mi d out' q' d' hmi h
    have exitCase : ∀ {o : List α} {qq : List α}, out = o → q = qq →
        ∃ sel rem, o = out ++ sel ∧ qq = q.take mi ++ rem ∧ Split (q.drop mi) sel rem := by
      intro o qq ho hq; subst ho; subst hq
      exact ⟨[], q.drop mi, by simp, by simp, Split.aux_all_right _⟩
    unfold streamNoLoop at h
    split at h
    · simp only [Option.some.injEq, Prod.mk.injEq] at h
      exact exitCase h.1 h.2.1
    · -- the stop / continue decision
      generalize hsd : d.boolIf (!(force && out.isEmpty)) = sd at h
      obtain ⟨stop, d1⟩ := sd
      simp only at h
      split at h
      · simp only [Option.some.injEq, Prod.mk.injEq] at h
        exact exitCase h.1 h.2.1
      · split at h
        · simp at h
        · rename_i idx d2 hidx
          have hr := aux_natEx_range hidx
          split at h
          · simp at h
          · rename_i item hitem
            obtain ⟨pre, post, hq, hpre⟩ := aux_decomp hitem
            subst hq; subst hpre
            have herase : (pre ++ item :: post).eraseIdx pre.length = pre ++ post := by
              simp [List.eraseIdx_append_of_length_le]
            rw [herase] at h
            have key : ∃ sel' rem', out' = (out ++ [item]) ++ sel' ∧ q' = pre ++ rem' ∧ Split post sel' rem' := by
              split at h
              · simp only [Option.some.injEq, Prod.mk.injEq] at h
                obtain ⟨rfl, rfl, _⟩ := h
                exact ⟨[], post, by simp, rfl, Split.aux_all_right _⟩
              · obtain ⟨sel', rem', h1, h2, h3⟩ := ih force (pre ++ post) (out ++ [item]) pre.length d2 (by simp) h
                refine ⟨sel', rem', h1, ?_, ?_⟩
                · simpa using h2
                · simpa using h3
            obtain ⟨sel', rem', h1, h2, h3⟩ := key
            refine ⟨item :: sel', pre.drop mi ++ rem', by simp [h1], ?_, ?_⟩
            · rw [h2, List.take_append_of_le_length hr.1, ← List.append_assoc, List.take_append_drop]
            · rw [List.drop_append_of_le_length hr.1]
              exact Split.aux_skip _ (.left h3)

/-- unordered input: the released batch and the remaining queue are complementary in-order
sub-multisets of the pending queue (the `min_index` pruning only ever picks rightwards) -/
theorem streamNo_released_is_sublist {q r q' : List α} {d d' : Drv} {force nt : Bool}
    (h : streamNoAuto q d force = some (r, q', nt, d')) :
    Split q r q' ∧ r.Sublist q ∧ q'.Sublist q ∧ (nt = true ↔ r ≠ []) := by
  unfold streamNoAuto at h
  split at h
  · simp at h
  · rename_i out q1 d1 hl
    simp only [Option.some.injEq, Prod.mk.injEq] at h
    obtain ⟨rfl, rfl, rfl, rfl⟩ := h
    obtain ⟨sel, rem, h1, h2, h3⟩ := aux_streamNoLoop _ _ _ _ _ _ (Nat.zero_le _) hl
    simp only [List.nil_append, List.take_zero, List.drop_zero] at h1 h2 h3
    subst h1; subst h2
    exact ⟨h3, h3.aux_sublist_left, h3.aux_sublist_right, by cases out <;> simp⟩

example : streamNoAuto [10, 20, 30] ⟨[0, 1, 0, 0, 1], []⟩ false
    = some ([20, 30], [10], true, ⟨[1], [.u 1 1 1, .b false, .u 0 2 1, .b false]⟩) := by decide


/-! ### keyed stream hooks -/

/-- per-key relation between the keyed input before a decision, the released `(key, value)` pairs (in
the hash map's iteration order) and the keyed input afterwards: `P q r q'` holds for every key's
queue `q`, its released values `r` and what stays `q'`; keys and their order are unchanged -/
inductive KeyedRel (P : List α → List α → List α → Prop) : KMap κ α → List (κ × α) → KMap κ α → Prop
  | nil : KeyedRel P [] [] []
  | cons {k q r q' m rel m'} : P q r q' → KeyedRel P m rel m' →
      KeyedRel P ((k, q) :: m) (r.map (fun v => (k, v)) ++ rel) ((k, q') :: m')

def PrefixP (q r q' : List α) : Prop := r ++ q' = q

theorem aux_keyedTotalLoop : ∀ (m : KMap κ α) (remaining : Nat) (force : Bool) (d : Drv)
    {rel : List (κ × α)} {m' : KMap κ α} {d' : Drv},
    keyedTotalLoop m remaining force d = some (rel, m', d') → KeyedRel PrefixP m rel m' := by
  intro m
  induction m with
  | nil =>
    intro remaining force d rel m' d' h
    simp only [keyedTotalLoop, Option.some.injEq, Prod.mk.injEq] at h
    obtain ⟨rfl, rfl, _⟩ := h
    exact .nil
  | cons e rest ih =>
    obtain ⟨k, q⟩ := e
    intro remaining force d rel m' d' h
    unfold keyedTotalLoop at h
    split at h
    · split at h
      · simp at h
      · rename_i rel1 m1 d1 hrec
        simp only [Option.some.injEq, Prod.mk.injEq] at h
        obtain ⟨rfl, rfl, _⟩ := h
        have := KeyedRel.cons (k := k) (q := q) (r := []) (q' := q) (P := PrefixP) (by simp [PrefixP]) (ih _ _ _ hrec)
        simpa using this
    · simp only at h
      split at h
      · simp at h
      · rename_i c d1 hc
        split at h
        · simp at h
        · rename_i rel1 m1 d2 hrec
          simp only [Option.some.injEq, Prod.mk.injEq] at h
          obtain ⟨rfl, rfl, _⟩ := h
          exact .cons (by simp [PrefixP]) (ih _ _ _ hrec)

/-- keyed ordered input: per key, what is released is a prefix of that key's pending queue -/
theorem keyedTotal_released_is_prefix_per_key {m m' : KMap κ α} {rel : List (κ × α)} {d d' : Drv}
    {force nt : Bool} (h : keyedTotalAuto m d force = some (rel, m', nt, d')) :
    KeyedRel PrefixP m rel m' ∧ (nt = true ↔ rel ≠ []) := by
  unfold keyedTotalAuto at h
  split at h
  · simp at h
  · rename_i r1 m1 d1 hl
    simp only [Option.some.injEq, Prod.mk.injEq] at h
    obtain ⟨rfl, rfl, rfl, rfl⟩ := h
    exact ⟨aux_keyedTotalLoop _ _ _ _ hl, by cases r1 <;> simp⟩

theorem aux_keyedNoInner : ∀ (fuel : Nat) (force : Bool) (remaining : Nat) (q out : List α) (mi : Nat) (d : Drv)
    {out' q' : List α} {f' : Bool} {d' : Drv}, mi ≤ q.length →
    keyedNoInner fuel force remaining q out mi d = some (out', q', f', d') →
    ∃ sel rem, out' = out ++ sel ∧ q' = q.take mi ++ rem ∧ Split (q.drop mi) sel rem := by
  intro fuel
  induction fuel with
  | zero =>
    intro force remaining q out mi d out' q' f' d' hmi h
    simp only [keyedNoInner, Option.some.injEq, Prod.mk.injEq] at h
    obtain ⟨rfl, rfl, _⟩ := h
    exact ⟨[], q.drop mi, by simp, by simp, Split.aux_all_right _⟩
  | succ n ih =>
    intro force remaining q out mi d out' q' f' d' hmi h
    have exitCase : ∀ {o : List α} {qq : List α}, out = o → q = qq →
        ∃ sel rem, o = out ++ sel ∧ qq = q.take mi ++ rem ∧ Split (q.drop mi) sel rem := by
      intro o qq ho hq; subst ho; subst hq
      exact ⟨[], q.drop mi, by simp, by simp, Split.aux_all_right _⟩
    unfold keyedNoInner at h
    split at h
    · simp only [Option.some.injEq, Prod.mk.injEq] at h
      exact exitCase h.1 h.2.1
    · generalize hsd : d.boolIf (!(force && remaining == 0)) = sd at h
      obtain ⟨stop, d1⟩ := sd
      simp only at h
      split at h
      · simp only [Option.some.injEq, Prod.mk.injEq] at h
        exact exitCase h.1 h.2.1
      · split at h
        · simp at h
        · rename_i idx d2 hidx
          have hr := aux_natEx_range hidx
          split at h
          · simp at h
          · rename_i item hitem
            obtain ⟨pre, post, hq, hpre⟩ := aux_decomp hitem
            subst hq; subst hpre
            have herase : (pre ++ item :: post).eraseIdx pre.length = pre ++ post := by
              simp [List.eraseIdx_append_of_length_le]
            rw [herase] at h
            have key : ∃ sel' rem', out' = (out ++ [item]) ++ sel' ∧ q' = pre ++ rem' ∧ Split post sel' rem' := by
              split at h
              · simp only [Option.some.injEq, Prod.mk.injEq] at h
                obtain ⟨rfl, rfl, _⟩ := h
                exact ⟨[], post, by simp, rfl, Split.aux_all_right _⟩
              · obtain ⟨sel', rem', h1, h2, h3⟩ := ih false remaining (pre ++ post) (out ++ [item]) pre.length d2 (by simp) h
                refine ⟨sel', rem', h1, ?_, ?_⟩
                · simpa using h2
                · simpa using h3
            obtain ⟨sel', rem', h1, h2, h3⟩ := key
            refine ⟨item :: sel', pre.drop mi ++ rem', by simp [h1], ?_, ?_⟩
            · rw [h2, List.take_append_of_le_length hr.1, ← List.append_assoc, List.take_append_drop]
            · rw [List.drop_append_of_le_length hr.1]
              exact Split.aux_skip _ (.left h3)

theorem aux_keyedNoLoop : ∀ (m : KMap κ α) (remaining : Nat) (force : Bool) (d : Drv)
    {rel : List (κ × α)} {m' : KMap κ α} {d' : Drv},
    keyedNoLoop m remaining force d = some (rel, m', d') → KeyedRel Split m rel m' := by
  intro m
  induction m with
  | nil =>
    intro remaining force d rel m' d' h
    simp only [keyedNoLoop, Option.some.injEq, Prod.mk.injEq] at h
    obtain ⟨rfl, rfl, _⟩ := h
    exact .nil
  | cons e rest ih =>
    obtain ⟨k, q⟩ := e
    intro remaining force d rel m' d' h
    unfold keyedNoLoop at h
    split at h
    · split at h
      · simp at h
      · rename_i rel1 m1 d1 hrec
        simp only [Option.some.injEq, Prod.mk.injEq] at h
        obtain ⟨rfl, rfl, _⟩ := h
        have := KeyedRel.cons (k := k) (q := q) (r := []) (q' := q) (P := Split) (Split.aux_all_right _) (ih _ _ _ hrec)
        simpa using this
    · simp only at h
      split at h
      · simp at h
      · rename_i out q1 f1 d1 hin
        split at h
        · simp at h
        · rename_i rel1 m1 d2 hrec
          simp only [Option.some.injEq, Prod.mk.injEq] at h
          obtain ⟨rfl, rfl, _⟩ := h
          obtain ⟨sel, rem, h1, h2, h3⟩ := aux_keyedNoInner _ _ _ _ _ _ _ (Nat.zero_le _) hin
          simp only [List.nil_append, List.take_zero, List.drop_zero] at h1 h2 h3
          subst h1; subst h2
          exact .cons h3 (ih _ _ _ hrec)

/-- keyed unordered input: per key, released and remaining values are complementary in-order
sub-multisets of that key's pending queue -/
theorem keyedNo_released_is_sublist_per_key {m m' : KMap κ α} {rel : List (κ × α)} {d d' : Drv}
    {force nt : Bool} (h : keyedNoAuto m d force = some (rel, m', nt, d')) :
    KeyedRel Split m rel m' ∧ (nt = true ↔ rel ≠ []) := by
  unfold keyedNoAuto at h
  split at h
  · simp at h
  · rename_i r1 m1 d1 hl
    simp only [Option.some.injEq, Prod.mk.injEq] at h
    obtain ⟨rfl, rfl, rfl, rfl⟩ := h
    exact ⟨aux_keyedNoLoop _ _ _ _ hl, by cases r1 <;> simp⟩

theorem aux_keyedRel_keys {P : List α → List α → List α → Prop}
    {m m' : KMap κ α} {rel : List (κ × α)} (h : KeyedRel P m rel m') :
    ∀ e ∈ rel, e.1 ∈ m.map Prod.fst := by
  induction h with
  | nil => simp
  | @cons k0 q0 r0 q0' m0 rel0 m0' _ _ ih =>
    intro e he
    simp only [List.mem_append, List.mem_map] at he
    rcases he with ⟨v, _, rfl⟩ | he
    · simp
    · simp only [List.map_cons, List.mem_cons]
      exact Or.inr (ih e he)

/-- what `KeyedRel` says about one key when keys are distinct (as in a hash map): the released pairs
carrying that key are exactly that key's released values, in order -/
theorem keyedRel_per_key [DecidableEq κ] {P : List α → List α → List α → Prop}
    {m m' : KMap κ α} {rel : List (κ × α)} (h : KeyedRel P m rel m')
    (hnd : (m.map Prod.fst).Nodup) :
    m'.map Prod.fst = m.map Prod.fst ∧
    ∀ k q, (k, q) ∈ m → ∃ r q', (k, q') ∈ m' ∧ P q r q' ∧
      (rel.filter (fun e => e.1 = k)).map Prod.snd = r := by
  induction h with
  | nil => simp
  | @cons k0 q0 r0 q0' m0 rel0 m0' hp _ ih =>
    simp only [List.map_cons, List.nodup_cons] at hnd
    obtain ⟨hk0, hnd'⟩ := hnd
    obtain ⟨ihk, ihq⟩ := ih hnd'
    refine ⟨by simp [ihk], ?_⟩
    intro k q hmem
    simp only [List.mem_cons, Prod.mk.injEq] at hmem
    rcases hmem with ⟨rfl, rfl⟩ | hmem
    · refine ⟨r0, q0', by simp, hp, ?_⟩
      have hnone : rel0.filter (fun e => decide (e.1 = k)) = [] := by
        rw [List.filter_eq_nil_iff]
        intro e he
        -- every released pair of the tail carries a key of the tail
        have := aux_keyedRel_keys ‹KeyedRel P m0 rel0 m0'› e he
        simp only [decide_eq_true_eq]
        intro heq; subst heq; exact hk0 this
      simp [List.filter_append, hnone, List.filter_map, Function.comp_def]
    · obtain ⟨r, q', hm', hp', hf⟩ := ihq k q hmem
      refine ⟨r, q', by simp [hm'], hp', ?_⟩
      have hne : k0 ≠ k := by
        intro heq; subst heq
        exact hk0 (List.mem_map.mpr ⟨(k0, q), hmem, rfl⟩)
      simp [List.filter_append, List.filter_map, Function.comp_def, hne, hf]


/-! ### SingletonHook: snapshot versions -/

/-- one decision + release of a `SingletonHook`: the released snapshot is either the last released
one again (trivial decision, buffer untouched) or a buffered one, in which case everything up to it
leaves the buffer -/
theorem singleton_release_shape {s s1 s2 : SingSt α} {d d' : Drv} {force nt : Bool} {x : α}
    (h : singletonAuto s d force = some (nt, s1, d')) (hr : singletonRelease s1 = some (s2, x)) :
    s2.last = some x ∧ s2.rel = none ∧
    ((nt = false ∧ s.last = some x ∧ s2.q = s.q) ∨
     (nt = true ∧ ∃ skipped, s.q = skipped ++ x :: s2.q)) ∧
    (force = true → nt = true) := by
  unfold singletonAuto at h
  split at h
  · split at h
    · simp at h
    · split at h
      · rename_i l hl
        simp only [Option.some.injEq, Prod.mk.injEq] at h
        obtain ⟨rfl, rfl, _⟩ := h
        simp only [singletonRelease, Option.some.injEq, Prod.mk.injEq] at hr
        obtain ⟨rfl, rfl⟩ := hr
        simp_all
      · simp at h
  · generalize hsd : d.boolIf (!force && s.last.isSome) = sd at h
    obtain ⟨rr, d1⟩ := sd
    simp only at h
    split at h
    · rename_i hrr
      have hnf : force = false := by
        cases force with
        | false => rfl
        | true => simp [Drv.boolIf] at hsd; simp_all
      split at h
      · rename_i l hl
        simp only [Option.some.injEq, Prod.mk.injEq] at h
        obtain ⟨rfl, rfl, _⟩ := h
        simp only [singletonRelease, Option.some.injEq, Prod.mk.injEq] at hr
        obtain ⟨rfl, rfl⟩ := hr
        simp_all
      · simp at h
    · split at h
      · simp at h
      · rename_i idx d2 hidx
        split at h
        · simp at h
        · rename_i item rest hdrop
          simp only [Option.some.injEq, Prod.mk.injEq] at h
          obtain ⟨rfl, rfl, _⟩ := h
          simp only [singletonRelease, Option.some.injEq, Prod.mk.injEq] at hr
          obtain ⟨rfl, rfl⟩ := hr
          refine ⟨rfl, rfl, Or.inr ⟨rfl, s.q.take idx, ?_⟩, fun _ => rfl⟩
          rw [← hdrop, List.take_append_drop]

/-- a history of a singleton's buffer: the producer pushes successive values (the simulator tags
nothing; `next` is the ghost version counter), the scheduler decides and releases -/
inductive SOp (β : Type) where
  | push (b : β)
  | decide (tape : List Nat) (force : Bool)

structure SHist (β : Type) where
  st : SingSt (Nat × β) := { q := [] }
  next : Nat := 0
  released : List (Nat × β) := []

def sStep (h : SHist β) : SOp β → Option (SHist β)
  | .push b => some { h with st := { h.st with q := h.st.q ++ [(h.next, b)] }, next := h.next + 1 }
  | .decide tape force =>
    match singletonAuto h.st ⟨tape, []⟩ force with
    | none => none
    | some (_, s1, _) =>
      match singletonRelease s1 with
      | none => none
      | some (s2, x) => some { h with st := s2, released := h.released ++ [x] }

/-- run a history; a panicking decision ends it -/
def sRun (h : SHist β) : List (SOp β) → SHist β
  | [] => h
  | op :: ops => match sStep h op with
    | none => h
    | some h' => sRun h' ops

def SHistInv (h : SHist β) : Prop :=
  (h.st.q.map Prod.fst).Pairwise (· < ·) ∧
  (∀ x ∈ h.st.q, x.1 < h.next) ∧
  (∀ l, h.st.last = some l → l.1 < h.next ∧ ∀ x ∈ h.st.q, l.1 < x.1) ∧
  (h.released.map Prod.fst).Pairwise (· ≤ ·) ∧
  (∀ r ∈ h.released, ∃ l, h.st.last = some l ∧ r.1 ≤ l.1)

/-- releasing `x` — the last released snapshot again (buffer untouched) or a buffered one (everything
up to it leaves the buffer) — keeps the history invariant; shared by `SingletonHook` and
`PassthroughSingletonHook` -/
theorem aux_release_inv {h : SHist β} {s2 : SingSt (Nat × β)} {x : Nat × β}
    (hi : SHistInv h) (hlast : s2.last = some x)
    (hshape : (h.st.last = some x ∧ s2.q = h.st.q) ∨ (∃ skipped, h.st.q = skipped ++ x :: s2.q)) :
    SHistInv { h with st := s2, released := h.released ++ [x] } := by
  obtain ⟨i1, i2, i3, i4, i5⟩ := hi
  rcases hshape with ⟨hold, hq⟩ | ⟨skipped, hq⟩
  · -- the last released snapshot again
    obtain ⟨a, b'⟩ := i3 x hold
    refine ⟨by simpa [hq] using i1, by simpa [hq] using i2, ?_, ?_, ?_⟩
    · intro l hl; simp only [hlast, Option.some.injEq] at hl; subst hl
      exact ⟨a, by simpa [hq] using b'⟩
    · simp only [List.map_append, List.map_cons, List.map_nil, List.pairwise_append, List.pairwise_cons,
        List.not_mem_nil, false_imp_iff, implies_true, List.Pairwise.nil, and_self, List.mem_map,
        List.mem_cons, or_false, forall_exists_index, and_imp, true_and]
      refine ⟨i4, ?_⟩
      intro a' r hr har b'' hb''; subst har; subst hb''
      obtain ⟨l, hl, hle⟩ := i5 r hr
      simp only [hold, Option.some.injEq] at hl; subst hl; exact hle
    · intro r hr
      simp only [List.mem_append, List.mem_cons, List.not_mem_nil, or_false] at hr
      refine ⟨x, hlast, ?_⟩
      rcases hr with hr | rfl
      · obtain ⟨l, hl, hle⟩ := i5 r hr
        simp only [hold, Option.some.injEq] at hl; subst hl; exact hle
      · exact Nat.le_refl _
  · -- a buffered snapshot: everything before it is skipped
    rw [hq] at i1 i2 i3
    simp only [List.map_append, List.map_cons, List.pairwise_append, List.pairwise_cons, List.mem_map,
      forall_exists_index, and_imp, List.mem_cons] at i1
    obtain ⟨_, ⟨hx_lt, hrest⟩, _⟩ := i1
    have hxnext : x.1 < h.next := i2 x (by simp)
    have hlastle : ∀ l, h.st.last = some l → l.1 < x.1 := fun l hl => (i3 l hl).2 x (by simp)
    refine ⟨hrest, fun y hy => i2 y (by simp [hy]), ?_, ?_, ?_⟩
    · intro l hl; simp only [hlast, Option.some.injEq] at hl; subst hl
      exact ⟨hxnext, fun y hy => hx_lt y.1 y hy rfl⟩
    · simp only [List.map_append, List.map_cons, List.map_nil, List.pairwise_append, List.pairwise_cons,
        List.not_mem_nil, false_imp_iff, implies_true, List.Pairwise.nil, and_self, List.mem_map,
        List.mem_cons, or_false, forall_exists_index, and_imp, true_and]
      refine ⟨i4, ?_⟩
      intro a' r hr har b'' hb''; subst har; subst hb''
      obtain ⟨l, hl, hle⟩ := i5 r hr
      exact Nat.le_trans hle (Nat.le_of_lt (hlastle l hl))
    · intro r hr
      simp only [List.mem_append, List.mem_cons, List.not_mem_nil, or_false] at hr
      refine ⟨x, hlast, ?_⟩
      rcases hr with hr | rfl
      · obtain ⟨l, hl, hle⟩ := i5 r hr
        exact Nat.le_trans hle (Nat.le_of_lt (hlastle l hl))
      · exact Nat.le_refl _

theorem aux_sStep_inv {h h' : SHist β} {op : SOp β} (hi : SHistInv h) (hs : sStep h op = some h') :
    SHistInv h' := by
  obtain ⟨i1, i2, i3, i4, i5⟩ := hi
  cases op with
  | push b =>
    simp only [sStep, Option.some.injEq] at hs
    subst hs
    refine ⟨?_, ?_, ?_, i4, i5⟩
    · simp only [List.map_append, List.map_cons, List.map_nil, List.pairwise_append, List.pairwise_cons,
        List.not_mem_nil, false_imp_iff, implies_true, List.Pairwise.nil, and_self, List.mem_map,
        List.mem_cons, or_false, forall_exists_index, and_imp, true_and]
      refine ⟨i1, ?_⟩
      intro a x hx hax b' hb'; subst hax; subst hb'; exact i2 x hx
    · intro x hx
      simp only [List.mem_append, List.mem_cons, List.not_mem_nil, or_false] at hx
      rcases hx with hx | rfl
      · exact Nat.lt_succ_of_lt (i2 x hx)
      · exact Nat.lt_succ_self _
    · intro l hl
      obtain ⟨a, b'⟩ := i3 l hl
      refine ⟨Nat.lt_succ_of_lt a, ?_⟩
      intro x hx
      simp only [List.mem_append, List.mem_cons, List.not_mem_nil, or_false] at hx
      rcases hx with hx | rfl
      · exact b' x hx
      · exact a
  | decide tape force =>
    simp only [sStep] at hs
    split at hs
    · simp at hs
    · rename_i nt s1 d1 hauto
      split at hs
      · simp at hs
      · rename_i s2 x hrel
        simp only [Option.some.injEq] at hs
        subst hs
        obtain ⟨hlast, _, hshape, _⟩ := singleton_release_shape hauto hrel
        refine aux_release_inv ⟨i1, i2, i3, i4, i5⟩ hlast ?_
        rcases hshape with ⟨_, a, b⟩ | ⟨_, c⟩
        · exact Or.inl ⟨a, b⟩
        · exact Or.inr c

theorem aux_sRun_inv (ops : List (SOp β)) : ∀ (h : SHist β), SHistInv h → SHistInv (sRun h ops) := by
  induction ops with
  | nil => intro h hi; exact hi
  | cons op ops ih =>
    intro h hi
    simp only [sRun]
    split
    · exact hi
    · rename_i h' hs; exact ih h' (aux_sStep_inv hi hs)

/-- over every history of pushes and decisions (every tape, every forcing), the versions of the
snapshots a `SingletonHook` releases never decrease -/
theorem snapshot_version_monotone (ops : List (SOp β)) :
    ((sRun ({} : SHist β) ops).released.map Prod.fst).Pairwise (· ≤ ·) :=
  (aux_sRun_inv ops {} (by simp [SHistInv])).2.2.2.1

example : (sRun ({} : SHist String) [.push "a", .push "b", .push "c", .decide [1] false, .decide [1] false,
    .push "d", .decide [0, 1] false]).released = [(1, "b"), (1, "b"), (3, "d")] := by decide



/-! ### forcing: a hook that can make a non-trivial decision makes one when forced -/

theorem aux_boolIf_false (d : Drv) : d.boolIf false = (false, d) := rfl

theorem aux_streamNo_force {q r q' : List α} {d d' : Drv} {nt : Bool}
    (h : streamNoAuto q d true = some (r, q', nt, d')) (hq : q ≠ []) : nt = true := by
  unfold streamNoAuto at h
  split at h
  · simp at h
  · rename_i out q1 d1 hl
    simp only [Option.some.injEq, Prod.mk.injEq] at h
    obtain ⟨rfl, rfl, rfl, rfl⟩ := h
    cases q with
    | nil => exact absurd rfl hq
    | cons x xs =>
      simp only [List.length_cons] at hl
      unfold streamNoLoop at hl
      simp only [List.isEmpty_cons, Bool.false_eq_true, ↓reduceIte, List.isEmpty_nil, Bool.and_self,
        Bool.not_true, aux_boolIf_false] at hl
      split at hl
      · simp at hl
      · rename_i idx d2 hidx
        split at hl
        · simp at hl
        · rename_i item hitem
          split at hl
          · simp only [Option.some.injEq, Prod.mk.injEq] at hl
            obtain ⟨rfl, _⟩ := hl
            simp
          · have hlen : idx ≤ ((x :: xs).eraseIdx idx).length := by
              have := aux_natEx_range hidx
              simp only [List.length_cons] at this
              rw [List.length_eraseIdx]; simp; split <;> omega
            obtain ⟨sel, rem, h1, _, _⟩ := aux_streamNoLoop _ _ _ _ _ _ hlen hl
            subst h1; simp

theorem aux_keyedTotal_force : ∀ (m : KMap κ α) (remaining : Nat) (d : Drv)
    {rel : List (κ × α)} {m' : KMap κ α} {d' : Drv},
    remaining = nonemptyKeyCount m → 0 < remaining →
    keyedTotalLoop m remaining true d = some (rel, m', d') → rel ≠ [] := by
  intro m
  induction m with
  | nil => intro remaining d rel m' d' hr hpos; simp [nonemptyKeyCount] at hr; omega
  | cons e rest ih =>
    obtain ⟨k, q⟩ := e
    intro remaining d rel m' d' hr hpos h
    unfold keyedTotalLoop at h
    split at h
    · rename_i hq
      split at h
      · simp at h
      · rename_i rel1 m1 d1 hrec
        simp only [Option.some.injEq, Prod.mk.injEq] at h
        obtain ⟨rfl, _⟩ := h
        exact ih remaining d (by simpa [nonemptyKeyCount, hq] using hr) hpos hrec
    · rename_i hq
      simp only at h
      split at h
      · simp at h
      · rename_i c d1 hc
        split at h
        · simp at h
        · rename_i rel1 m1 d2 hrec
          simp only [Option.some.injEq, Prod.mk.injEq] at h
          obtain ⟨rfl, _⟩ := h
          have hrange := aux_nat_range hc
          have hrest : remaining - 1 = nonemptyKeyCount rest := by
            have : nonemptyKeyCount ((k, q) :: rest) = nonemptyKeyCount rest + 1 := by
              simp [nonemptyKeyCount, hq]
            omega
          have hqne : q ≠ [] := by intro hh; subst hh; simp at hq
          by_cases hc0 : 0 < c
          · intro hnil
            simp only [List.append_eq_nil_iff, List.map_eq_nil_iff, List.take_eq_nil_iff] at hnil
            rcases hnil.1 with h0 | h0
            · omega
            · exact hqne h0
          · have hc0' : c = 0 := by omega
            subst hc0'
            by_cases hz : remaining - 1 = 0
            · simp [hz] at hrange
            · simp only [Nat.lt_irrefl, ↓reduceIte] at hrec
              have := ih (remaining - 1) d1 hrest (Nat.pos_of_ne_zero hz) hrec
              simp [this]

theorem aux_keyedNoInner_force : ∀ (fuel : Nat) (q : List α) (d : Drv) {out' q' : List α} {f' : Bool} {d' : Drv},
    q ≠ [] → fuel = q.length →
    keyedNoInner fuel true 0 q [] 0 d = some (out', q', f', d') → out' ≠ [] := by
  intro fuel q d out' q' f' d' hq hf h
  cases q with
  | nil => exact absurd rfl hq
  | cons x xs =>
    subst hf
    simp only [List.length_cons] at h
    unfold keyedNoInner at h
    simp only [List.isEmpty_cons, Bool.false_eq_true, ↓reduceIte, BEq.rfl, Bool.and_self,
      Bool.not_true, aux_boolIf_false] at h
    split at h
    · simp at h
    · rename_i idx d2 hidx
      split at h
      · simp at h
      · rename_i item hitem
        split at h
        · simp only [Option.some.injEq, Prod.mk.injEq] at h
          obtain ⟨rfl, _⟩ := h
          simp
        · have hlen : idx ≤ ((x :: xs).eraseIdx idx).length := by
            have := aux_natEx_range hidx
            simp only [List.length_cons] at this
            rw [List.length_eraseIdx]; simp; split <;> omega
          obtain ⟨sel, rem, h1, _, _⟩ := aux_keyedNoInner _ _ _ _ _ _ _ hlen h
          subst h1; simp

/-- the force flag handed on by the inner loop: unchanged if nothing was released, `false` otherwise -/
theorem aux_keyedNoInner_flag : ∀ (fuel : Nat) (force : Bool) (remaining : Nat) (q out : List α) (mi : Nat) (d : Drv)
    {out' q' : List α} {f' : Bool} {d' : Drv},
    keyedNoInner fuel force remaining q out mi d = some (out', q', f', d') →
    (out' = out ∧ f' = force) ∨ (f' = false ∧ out' ≠ []) := by
  intro fuel
  induction fuel with
  | zero =>
    intro force remaining q out mi d out' q' f' d' h
    simp only [keyedNoInner, Option.some.injEq, Prod.mk.injEq] at h
    obtain ⟨rfl, _, rfl, _⟩ := h
    exact Or.inl ⟨rfl, rfl⟩
  | succ n ih =>
    intro force remaining q out mi d out' q' f' d' h
    unfold keyedNoInner at h
    split at h
    · simp only [Option.some.injEq, Prod.mk.injEq] at h
      obtain ⟨rfl, _, rfl, _⟩ := h
      exact Or.inl ⟨rfl, rfl⟩
    · generalize hsd : d.boolIf (!(force && remaining == 0)) = sd at h
      obtain ⟨stop, d1⟩ := sd
      simp only at h
      split at h
      · simp only [Option.some.injEq, Prod.mk.injEq] at h
        obtain ⟨rfl, _, rfl, _⟩ := h
        exact Or.inl ⟨rfl, rfl⟩
      · split at h
        · simp at h
        · split at h
          · simp at h
          · rename_i item hitem
            split at h
            · simp only [Option.some.injEq, Prod.mk.injEq] at h
              obtain ⟨rfl, _, rfl, _⟩ := h
              exact Or.inr ⟨rfl, by simp⟩
            · rcases ih _ _ _ _ _ _ h with ⟨h1, h2⟩ | ⟨h2, h3⟩
              · subst h1; exact Or.inr ⟨h2, by simp⟩
              · exact Or.inr ⟨h2, h3⟩


theorem aux_nonemptyKeyCount_cons_empty {k : κ} {q : List α} {rest : KMap κ α} (hq : q.isEmpty = true) :
    nonemptyKeyCount ((k, q) :: rest) = nonemptyKeyCount rest := by
  simp [nonemptyKeyCount, hq]

theorem aux_nonemptyKeyCount_cons_nonempty {k : κ} {q : List α} {rest : KMap κ α} (hq : ¬ q.isEmpty = true) :
    nonemptyKeyCount ((k, q) :: rest) = nonemptyKeyCount rest + 1 := by
  simp [nonemptyKeyCount, hq]

theorem aux_keyedNo_force : ∀ (m : KMap κ α) (remaining : Nat) (d : Drv)
    {rel : List (κ × α)} {m' : KMap κ α} {d' : Drv},
    remaining = nonemptyKeyCount m → 0 < remaining →
    keyedNoLoop m remaining true d = some (rel, m', d') → rel ≠ [] := by
  intro m
  induction m with
  | nil => intro remaining d rel m' d' hr hpos; simp [nonemptyKeyCount] at hr; omega
  | cons e rest ih =>
    obtain ⟨k, q⟩ := e
    intro remaining d rel m' d' hr hpos h
    unfold keyedNoLoop at h
    split at h
    · rename_i hq
      split at h
      · simp at h
      · rename_i rel1 m1 d1 hrec
        simp only [Option.some.injEq, Prod.mk.injEq] at h
        obtain ⟨rfl, _⟩ := h
        exact ih remaining d (by rw [hr, aux_nonemptyKeyCount_cons_empty hq]) hpos hrec
    · rename_i hq
      simp only at h
      split at h
      · simp at h
      · rename_i out q1 f1 d1 hin
        split at h
        · simp at h
        · rename_i rel1 m1 d2 hrec
          simp only [Option.some.injEq, Prod.mk.injEq] at h
          obtain ⟨rfl, _⟩ := h
          have hrest : remaining - 1 = nonemptyKeyCount rest := by
            have := aux_nonemptyKeyCount_cons_nonempty (k := k) (rest := rest) hq
            omega
          have hqne : q ≠ [] := by intro hh; subst hh; simp at hq
          by_cases hz : remaining - 1 = 0
          · rw [hz] at hin
            have := aux_keyedNoInner_force _ _ _ hqne rfl hin
            intro hnil
            simp only [List.append_eq_nil_iff, List.map_eq_nil_iff] at hnil
            exact this hnil.1
          · rcases aux_keyedNoInner_flag _ _ _ _ _ _ _ hin with ⟨h1, h2⟩ | ⟨_, h3⟩
            · subst h1; subst h2
              have := ih (remaining - 1) d1 hrest (Nat.pos_of_ne_zero hz) hrec
              simp [this]
            · intro hnil
              simp only [List.append_eq_nil_iff, List.map_eq_nil_iff] at hnil
              exact h3 hnil.1

theorem aux_keyedSing_force [DecidableEq κ] : ∀ (m : KMap κ α) (remaining : Nat) (last : List (κ × α)) (d : Drv)
    {rel : List (κ × α × Bool)} {m' : KMap κ α} {last' : List (κ × α)} {nt : Bool} {d' : Drv},
    remaining = nonemptyKeyCount m → 0 < remaining →
    keyedSingLoop m remaining true last d = some (rel, m', last', nt, d') → nt = true := by
  intro m
  induction m with
  | nil => intro remaining last d rel m' last' nt d' hr hpos; simp [nonemptyKeyCount] at hr; omega
  | cons e rest ih =>
    obtain ⟨k, q⟩ := e
    intro remaining last d rel m' last' nt d' hr hpos h
    unfold keyedSingLoop at h
    split at h
    · rename_i hq
      split at h
      · simp at h
      · split at h
        · simp at h
        · rename_i hrec
          simp only [Option.some.injEq, Prod.mk.injEq] at h
          obtain ⟨_, _, _, rfl, _⟩ := h
          exact ih remaining last d (by rw [hr, aux_nonemptyKeyCount_cons_empty hq]) hpos hrec
    · rename_i hq
      have hrest : remaining - 1 = nonemptyKeyCount rest := by
        have := aux_nonemptyKeyCount_cons_nonempty (k := k) (rest := rest) hq
        omega
      simp only at h
      generalize hsd : d.boolIf (!(true && remaining - 1 == 0) && (lookup k last).isSome) = sd at h
      obtain ⟨rr, d1⟩ := sd
      simp only at h
      split at h
      · -- re-release: only possible when this is not the last non-empty key
        rename_i hrr
        have hz : remaining - 1 ≠ 0 := by
          intro hz; simp [hz, Drv.boolIf] at hsd; simp_all
        split at h
        · simp at h
        · split at h
          · simp at h
          · rename_i hrec
            simp only [Option.some.injEq, Prod.mk.injEq] at h
            obtain ⟨_, _, _, rfl, _⟩ := h
            exact ih (remaining - 1) last d1 hrest (Nat.pos_of_ne_zero hz) hrec
      · generalize hsd2 : d1.boolIf (!(true && remaining - 1 == 0) && (lookup k last).isNone) = sd2 at h
        obtain ⟨nr, d2⟩ := sd2
        simp only at h
        split at h
        · rename_i hnr
          have hz : remaining - 1 ≠ 0 := by
            intro hz; simp [hz, Drv.boolIf] at hsd2; simp_all
          split at h
          · simp at h
          · rename_i hrec
            simp only [Option.some.injEq, Prod.mk.injEq] at h
            obtain ⟨_, _, _, rfl, _⟩ := h
            exact ih (remaining - 1) last d2 hrest (Nat.pos_of_ne_zero hz) hrec
        · split at h
          · simp at h
          · split at h
            · simp at h
            · split at h
              · simp at h
              · simp only [Option.some.injEq, Prod.mk.injEq] at h
                obtain ⟨_, _, _, rfl, _⟩ := h
                rfl

theorem aux_kmap_nonempty_count {m : KMap κ α} (h : kmapAllEmpty m = false) : 0 < nonemptyKeyCount m := by
  induction m with
  | nil => simp [kmapAllEmpty] at h
  | cons e rest ih =>
    obtain ⟨k, q⟩ := e
    by_cases hq : q.isEmpty = true
    · rw [aux_nonemptyKeyCount_cons_empty hq]
      apply ih
      simpa [kmapAllEmpty, hq] using h
    · rw [aux_nonemptyKeyCount_cons_nonempty hq]; omega

theorem aux_nonemptyKeys_ne {m : KMap κ α} (h : kmapAllEmpty m = false) : (nonemptyKeys m).isEmpty = false := by
  have := aux_kmap_nonempty_count h
  unfold nonemptyKeyCount at this
  unfold nonemptyKeys
  cases hf : m.filter (fun e => !e.2.isEmpty) with
  | nil => simp [hf] at this
  | cons a b => simp

theorem aux_candidates_ne {m1 m2 : KMap κ α} (h : (!kmapAllEmpty m1 || !kmapAllEmpty m2) = true) :
    (candidates m1 m2).isEmpty = false := by
  unfold candidates
  simp only [Bool.or_eq_true, Bool.not_eq_true'] at h
  rcases h with h | h
  · have := aux_kmap_nonempty_count h
    unfold nonemptyKeyCount at this
    cases hf : m1.filter (fun e => !e.2.isEmpty) with
    | nil => simp [hf] at this
    | cons a b => simp
  · have := aux_kmap_nonempty_count h
    unfold nonemptyKeyCount at this
    cases hf : m2.filter (fun e => !e.2.isEmpty) with
    | nil => simp [hf] at this
    | cons a b => simp

/-- `run_hooks` relies on this: forcing a hook that can make a non-trivial decision yields one -/
theorem hook_forced_decision_is_nontrivial [DecidableEq κ] (h : Hook κ α) {d d' : Drv} {nt : Bool} {h' : Hook κ α}
    (hc : h.canNT = true) (ha : h.auto d true = some (nt, h', d')) : nt = true := by
  cases h with
  | streamTotal q r =>
    simp only [Hook.auto, Option.map_eq_some_iff] at ha
    obtain ⟨⟨r1, q1, nt1, d1⟩, hh, heq⟩ := ha
    simp only [Prod.mk.injEq] at heq; obtain ⟨rfl, _⟩ := heq
    exact (streamTotal_released_is_prefix hh).2.2.2 rfl
  | streamNo q r =>
    simp only [Hook.auto, Option.map_eq_some_iff] at ha
    obtain ⟨⟨r1, q1, nt1, d1⟩, hh, heq⟩ := ha
    simp only [Prod.mk.injEq] at heq; obtain ⟨rfl, _⟩ := heq
    exact aux_streamNo_force hh (by intro hq; subst hq; simp [Hook.canNT] at hc)
  | keyedTotal m r =>
    simp only [Hook.auto, Option.map_eq_some_iff] at ha
    obtain ⟨⟨r1, q1, nt1, d1⟩, hh, heq⟩ := ha
    simp only [Prod.mk.injEq] at heq; obtain ⟨rfl, _⟩ := heq
    unfold keyedTotalAuto at hh
    split at hh
    · simp at hh
    · rename_i hl
      simp only [Option.some.injEq, Prod.mk.injEq] at hh
      obtain ⟨rfl, _, rfl, _⟩ := hh
      rename_i relx _ _
      have := aux_keyedTotal_force m _ d rfl (aux_kmap_nonempty_count (by simpa [Hook.canNT] using hc)) hl
      cases relx <;> simp_all
  | keyedNo m r =>
    simp only [Hook.auto, Option.map_eq_some_iff] at ha
    obtain ⟨⟨r1, q1, nt1, d1⟩, hh, heq⟩ := ha
    simp only [Prod.mk.injEq] at heq; obtain ⟨rfl, _⟩ := heq
    unfold keyedNoAuto at hh
    split at hh
    · simp at hh
    · rename_i hl
      simp only [Option.some.injEq, Prod.mk.injEq] at hh
      obtain ⟨rfl, _, rfl, _⟩ := hh
      rename_i relx _ _
      have := aux_keyedNo_force m _ d rfl (aux_kmap_nonempty_count (by simpa [Hook.canNT] using hc)) hl
      cases relx <;> simp_all
  | singleton s =>
    simp only [Hook.auto, Option.map_eq_some_iff] at ha
    obtain ⟨⟨nt1, s1, d1⟩, hh, heq⟩ := ha
    simp only [Prod.mk.injEq] at heq; obtain ⟨rfl, _⟩ := heq
    unfold singletonAuto at hh
    simp only [Hook.canNT, Bool.not_eq_true'] at hc
    simp only [hc, Bool.false_eq_true, ↓reduceIte, Bool.not_true, Bool.false_and, aux_boolIf_false] at hh
    split at hh
    · simp at hh
    · split at hh
      · simp at hh
      · simp only [Option.some.injEq, Prod.mk.injEq] at hh; exact hh.1.symm
  | passthrough q r last =>
    simp only [Hook.auto, Option.map_eq_some_iff] at ha
    obtain ⟨⟨nt1, q1, r1⟩, hh, heq⟩ := ha
    simp only [Prod.mk.injEq] at heq; obtain ⟨rfl, _⟩ := heq
    unfold passthroughAuto at hh
    split at hh
    · simp only [Option.some.injEq, Prod.mk.injEq] at hh; exact hh.1.symm
    · simp at hh
  | keyedSingleton m r last =>
    simp only [Hook.auto, Option.map_eq_some_iff] at ha
    obtain ⟨⟨r1, m1, l1, nt1, d1⟩, hh, heq⟩ := ha
    simp only [Prod.mk.injEq] at heq; obtain ⟨rfl, _⟩ := heq
    exact aux_keyedSing_force m _ last d rfl (aux_kmap_nonempty_count (by simpa [Hook.canNT] using hc)) hh
  | tlOrder q r =>
    simp only [Hook.auto, Option.map_eq_some_iff] at ha
    obtain ⟨⟨r1, q1, nt1, d1⟩, hh, heq⟩ := ha
    simp only [Prod.mk.injEq] at heq; obtain ⟨rfl, _⟩ := heq
    unfold tlOrderAuto at hh
    simp only [Hook.canNT, Bool.not_eq_true'] at hc
    simp only [hc, Bool.false_eq_true, ↓reduceIte, Bool.not_true, aux_boolIf_false] at hh
    split at hh
    · simp at hh
    · split at hh
      · simp at hh
      · simp only [Option.some.injEq, Prod.mk.injEq] at hh; exact hh.2.2.1.symm
  | tlFold q r =>
    simp only [Hook.auto, Option.map_eq_some_iff] at ha
    obtain ⟨⟨r1, q1, nt1, d1⟩, hh, heq⟩ := ha
    simp only [Prod.mk.injEq] at heq; obtain ⟨rfl, _⟩ := heq
    unfold tlFoldAuto at hh
    simp only [Hook.canNT, Bool.not_eq_true'] at hc
    simp only [hc, Bool.false_eq_true, ↓reduceIte] at hh
    split at hh
    · simp at hh
    · simp only [Option.some.injEq, Prod.mk.injEq] at hh; exact hh.2.2.1.symm
  | tlKeyedOrder m r =>
    simp only [Hook.auto, Option.map_eq_some_iff] at ha
    obtain ⟨⟨r1, q1, nt1, d1⟩, hh, heq⟩ := ha
    simp only [Prod.mk.injEq] at heq; obtain ⟨rfl, _⟩ := heq
    unfold tlKeyedOrderAuto at hh
    have hne := aux_nonemptyKeys_ne (m := m) (by simpa [Hook.canNT] using hc)
    simp only [hne, Bool.false_eq_true, ↓reduceIte, Bool.not_true, aux_boolIf_false] at hh
    split at hh
    · simp at hh
    · split at hh
      · simp at hh
      · split at hh
        · simp at hh
        · split at hh
          · simp at hh
          · simp only [Option.some.injEq, Prod.mk.injEq] at hh; exact hh.2.2.1.symm
  | tlPartial m r =>
    simp only [Hook.auto, Option.map_eq_some_iff] at ha
    obtain ⟨⟨r1, q1, nt1, d1⟩, hh, heq⟩ := ha
    simp only [Prod.mk.injEq] at heq; obtain ⟨rfl, _⟩ := heq
    unfold tlPartialAuto at hh
    have hne := aux_nonemptyKeys_ne (m := m) (by simpa [Hook.canNT] using hc)
    simp only [hne, Bool.false_eq_true, ↓reduceIte, Bool.not_true, aux_boolIf_false] at hh
    split at hh
    · simp at hh
    · split at hh
      · simp at hh
      · split at hh
        · simp at hh
        · simp only [Option.some.injEq, Prod.mk.injEq] at hh; exact hh.2.2.1.symm
  | tlMerge q1 q2 r =>
    simp only [Hook.auto, Option.map_eq_some_iff] at ha
    obtain ⟨⟨r1, qa, qb, nt1, d1⟩, hh, heq⟩ := ha
    simp only [Prod.mk.injEq] at heq; obtain ⟨rfl, _⟩ := heq
    unfold tlMergeAuto at hh
    simp only [Hook.canNT] at hc
    have hne : (q1.isEmpty && q2.isEmpty) = false := by
      cases q1 <;> cases q2 <;> simp_all
    simp only [hne, Bool.false_eq_true, ↓reduceIte, Bool.not_true, aux_boolIf_false] at hh
    split at hh
    · simp at hh
    · simp only [Option.some.injEq, Prod.mk.injEq] at hh; exact hh.2.2.2.1.symm
    · simp only [Option.some.injEq, Prod.mk.injEq] at hh; exact hh.2.2.2.1.symm
    · split at hh <;> (simp only [Option.some.injEq, Prod.mk.injEq] at hh; exact hh.2.2.2.1.symm)
  | tlKeyedMerge m1 m2 r =>
    simp only [Hook.auto, Option.map_eq_some_iff] at ha
    obtain ⟨⟨r1, ma, mb, nt1, d1⟩, hh, heq⟩ := ha
    simp only [Prod.mk.injEq] at heq; obtain ⟨rfl, _⟩ := heq
    unfold tlKeyedMergeAuto at hh
    have hne := aux_candidates_ne (m1 := m1) (m2 := m2) (by simpa [Hook.canNT] using hc)
    simp only [hne, Bool.false_eq_true, ↓reduceIte, Bool.not_true, aux_boolIf_false] at hh
    split at hh
    · simp at hh
    · split at hh
      · simp at hh
      · split at hh
        · split at hh
          · simp at hh
          · simp only [Option.some.injEq, Prod.mk.injEq] at hh; exact hh.2.2.2.1.symm
        · split at hh
          · simp at hh
          · simp only [Option.some.injEq, Prod.mk.injEq] at hh; exact hh.2.2.2.1.symm


/-! ### `run_hooks` -/

theorem aux_release_none [DecidableEq κ] (h : Hook κ α) (hc : h.cur = none) : h.release = none := by
  cases h <;> simp_all [Hook.cur, Hook.release, relNonempty, singletonRelease]

/-- `autonomous_decision` always records a decision (since the F36 fix this holds for every hook
kind, `PassthroughSingletonHook` included) -/
theorem aux_auto_cur [DecidableEq κ] (h : Hook κ α) {d d' : Drv} {f nt : Bool} {h' : Hook κ α}
    (ha : h.auto d f = some (nt, h', d')) : h'.cur.isSome = true := by
  cases h with
  | singleton s =>
    simp only [Hook.auto, Option.map_eq_some_iff] at ha
    obtain ⟨⟨nt1, s1, d1⟩, hh, heq⟩ := ha
    simp only [Prod.mk.injEq] at heq; obtain ⟨_, rfl, _⟩ := heq
    unfold singletonAuto at hh
    simp only [Hook.cur]
    repeat' split at hh
    all_goals first
      | (simp at hh; done)
      | (simp only [Option.some.injEq, Prod.mk.injEq] at hh; obtain ⟨_, rfl, _⟩ := hh; simp)
  | _ =>
    simp only [Hook.auto, Option.map_eq_some_iff] at ha
    obtain ⟨x, _, heq⟩ := ha
    simp only [Prod.mk.injEq] at heq; obtain ⟨_, rfl, _⟩ := heq
    simp [Hook.cur, relNonempty]

def QInv (hs : List (Hook κ α)) : Prop :=
  ∀ h ∈ hs, h.cur = none → h.canNT = true

/-- hooks still waiting for an autonomous decision that can be non-trivial -/
def undecided (hs : List (Hook κ α)) : Nat := (hs.filter (fun h => h.cur.isNone && h.canNT)).length

def canCount (hs : List (Hook κ α)) : Nat := (hs.filter (fun h => h.canNT)).length

theorem aux_canCount_le (hs : List (Hook κ α)) : canCount hs ≤ hs.length := List.length_filter_le _ _

theorem aux_pass2 [DecidableEq κ] : ∀ (hs : List (Hook κ α)) (made : Bool) (rem : Nat) (d : Drv)
    {hs' : List (Hook κ α)} {outs : List (List (Msg κ α))} {made' : Bool} {d' : Drv},
    QInv hs → rem = undecided hs → runPass2 hs made rem d = some (hs', outs, made', d') →
    (made = true ∨ 0 < undecided hs) → made' = true := by
  intro hs
  induction hs with
  | nil =>
    intro made rem d hs' outs made' d' _ _ h hm
    simp only [runPass2, Option.some.injEq, Prod.mk.injEq] at h
    obtain ⟨_, _, rfl, _⟩ := h
    simpa [undecided] using hm
  | cons h rest ih =>
    intro made rem d hs' outs made' d' hq hrem hrun hm
    have hqrest : QInv rest := fun x hx => hq x (List.mem_cons_of_mem _ hx)
    unfold runPass2 at hrun
    cases hc : h.cur with
    | some b =>
      have hu : undecided (h :: rest) = undecided rest := by simp [undecided, hc]
      simp only [hc] at hrun
      split at hrun
      · simp at hrun
      · split at hrun
        · simp at hrun
        · rename_i hrec
          simp only [Option.some.injEq, Prod.mk.injEq] at hrun
          obtain ⟨_, _, rfl, _⟩ := hrun
          exact ih made rem d hqrest (by rw [hrem, hu]) hrec (by rw [← hu]; exact hm)
    | none =>
      simp only [hc] at hrun
      cases ha : h.auto d (!made && rem == 1) with
      | none => simp [ha] at hrun
      | some res =>
        obtain ⟨nt, h1, d1⟩ := res
        simp only [ha] at hrun
        have hcan := hq h (List.mem_cons_self ..) hc
        have hu : undecided (h :: rest) = undecided rest + 1 := by simp [undecided, hc, hcan]
        have hne : (rem == 0) = false := by rw [hrem, hu]; simp
        simp only [hne, Bool.false_eq_true, ↓reduceIte] at hrun
        split at hrun
        · simp at hrun
        · split at hrun
          · simp at hrun
          · rename_i hrec
            simp only [Option.some.injEq, Prod.mk.injEq] at hrun
            obtain ⟨_, _, rfl, _⟩ := hrun
            refine ih (made || nt) (rem - 1) d1 hqrest (by rw [hrem, hu]; simp) hrec ?_
            cases hmade : made with
            | true => simp
            | false =>
              by_cases hz : undecided rest = 0
              · left
                have hforce : (!made && rem == 1) = true := by rw [hmade, hrem, hu, hz]; simp
                rw [hforce] at ha
                simp [hook_forced_decision_is_nontrivial h hcan ha]
              · right; omega

theorem aux_pass1 [DecidableEq κ] : ∀ (hs : List (Hook κ α)) (made : Bool) (rem : Nat) (d : Drv)
    {hs1 : List (Hook κ α)} {made1 : Bool} {rem1 : Nat} {d1 : Drv},
    (∀ h ∈ hs, h.cur = none) → runPass1 hs made rem d = some (hs1, made1, rem1, d1) →
    made1 = made ∧ QInv hs1 ∧ undecided hs1 = canCount hs ∧ rem1 = rem - (hs.length - canCount hs) := by
  intro hs
  induction hs with
  | nil =>
    intro made rem d hs1 made1 rem1 d1 _ h
    simp only [runPass1, Option.some.injEq, Prod.mk.injEq] at h
    obtain ⟨rfl, rfl, rfl, _⟩ := h
    exact ⟨rfl, by intro h hh; simp at hh, by simp [undecided, canCount], by simp⟩
  | cons h rest ih =>
    intro made rem d hs1 made1 rem1 d1 hidle hrun
    have hc : h.cur = none := hidle h (List.mem_cons_self ..)
    have hidle' : ∀ x ∈ rest, x.cur = none := fun x hx => hidle x (List.mem_cons_of_mem _ hx)
    have hle := aux_canCount_le rest
    unfold runPass1 at hrun
    simp only [hc] at hrun
    cases hcan : h.canNT with
    | false =>
      simp only [hcan, Bool.not_false, ↓reduceIte] at hrun
      split at hrun
      · simp at hrun
      · rename_i nt h' d2 ha
        split at hrun
        · simp at hrun
        · rename_i hrec
          simp only [Option.some.injEq, Prod.mk.injEq] at hrun
          obtain ⟨rfl, rfl, rfl, _⟩ := hrun
          obtain ⟨i1, i2, i3, i4⟩ := ih made (rem - 1) d2 hidle' hrec
          have hcc : canCount (h :: rest) = canCount rest := by simp [canCount, hcan]
          have hsome := aux_auto_cur h ha
          refine ⟨i1, ?_, ?_, ?_⟩
          · intro x hx hxc
            simp only [List.mem_cons] at hx
            rcases hx with rfl | hx
            · simp [hxc] at hsome
            · exact i2 x hx hxc
          · have : (h'.cur.isNone && h'.canNT) = false := by
              cases hh : h'.cur <;> simp_all
            simp only [undecided, List.filter_cons, this, Bool.false_eq_true, ↓reduceIte] at i3 ⊢
            rw [hcc]; exact i3
          · rw [i4, hcc]; simp only [List.length_cons]; omega
    | true =>
      simp only [hcan, Bool.not_true, Bool.false_eq_true, ↓reduceIte] at hrun
      split at hrun
      · simp at hrun
      · rename_i hrec
        simp only [Option.some.injEq, Prod.mk.injEq] at hrun
        obtain ⟨rfl, rfl, rfl, _⟩ := hrun
        obtain ⟨i1, i2, i3, i4⟩ := ih made rem d hidle' hrec
        have hcc : canCount (h :: rest) = canCount rest + 1 := by simp [canCount, hcan]
        refine ⟨i1, ?_, ?_, ?_⟩
        · intro x hx hxc
          simp only [List.mem_cons] at hx
          rcases hx with rfl | hx
          · exact hcan
          · exact i2 x hx hxc
        · simp only [undecided, List.filter_cons, hc, Option.isNone_none, hcan, Bool.and_self, ↓reduceIte,
            List.length_cons] at i3 ⊢
          rw [hcc, i3]
        · rw [i4, hcc]; simp only [List.length_cons]; omega

/-- Every tick the scheduler may run (`SimTick::can_run`) whose hooks carry no pending decision —
the state in which the scheduler calls `run_hooks` — makes, for every tape, at least one non-trivial
decision (releases a new item or snapshot) if `run_hooks` completes. -/
theorem runHooks_some_nontrivial [DecidableEq κ] {hs hs' : List (Hook κ α)} {d d' : Drv}
    {outs : List (List (Msg κ α))} {made : Bool}
    (hidle : ∀ h ∈ hs, h.cur = none) (hcan : tickCanRun hs = true)
    (hrun : runHooks hs d = some (hs', outs, made, d')) : made = true := by
  unfold runHooks at hrun
  split at hrun
  · simp at hrun
  · rename_i hs1 made1 rem1 d1 h1
    obtain ⟨rfl, hq, hu, hrem⟩ := aux_pass1 hs false hs.length d hidle h1
    have hpos : 0 < canCount hs := by
      simp only [tickCanRun, Bool.and_eq_true, List.any_eq_true] at hcan
      obtain ⟨_, x, hx, hxc⟩ := hcan
      have hxcan : x.canNT = true := by
        simpa [hookCanRelease, hidle x hx] using hxc
      unfold canCount
      exact List.length_pos_of_mem (List.mem_filter.mpr ⟨hx, hxcan⟩)
    have hle := aux_canCount_le hs
    refine aux_pass2 hs1 false rem1 d1 hq (by rw [hrem, hu]; omega) hrun (Or.inr (by rw [hu]; exact hpos))

/-- the same for a top-level observation (`SimObservation::can_run`, a single hook) -/
theorem runHooks_observation_nontrivial [DecidableEq κ] {h : Hook κ α} {hs' : List (Hook κ α)} {d d' : Drv}
    {outs : List (List (Msg κ α))} {made : Bool}
    (hidle : h.cur = none) (hcan : obsCanRun h = true)
    (hrun : runHooks [h] d = some (hs', outs, made, d')) : made = true := by
  refine runHooks_some_nontrivial (hs := [h]) (by simpa using hidle) ?_ hrun
  have hxcan : h.canNT = true := by simpa [obsCanRun, hookCanRelease, hidle] using hcan
  have hready : h.ready = true := by
    cases h <;> simp_all [Hook.ready, Hook.canNT]
  simp [tickCanRun, hready, hookCanRelease, hxcan]

example : runHooks [Hook.streamTotal [1, 2] none, Hook.singleton (κ := Nat) { q := [7] }] ⟨[0, 0], []⟩
    = some ([.streamTotal [1, 2] none, .singleton { q := [], last := some 7 }], [[], [.item 7]], true,
        ⟨[], [.u 0 0 0, .u 0 2 0]⟩) := by decide



/-! ### nothing lost, nothing released twice -/

def kmItems (m : KMap κ α) : List (κ × α) := m.flatMap (fun e => e.2.map (fun v => (e.1, v)))

theorem aux_keyedRel_perm {P : List α → List α → List α → Prop}
    (hP : ∀ q r q', P q r q' → (r ++ q').Perm q)
    {m m' : KMap κ α} {rel : List (κ × α)} (h : KeyedRel P m rel m') :
    (rel ++ kmItems m').Perm (kmItems m) := by
  induction h with
  | nil => simp [kmItems]
  | @cons k q r q' m0 rel0 m0' hp _ ih =>
    simp only [kmItems, List.flatMap_cons] at ih ⊢
    have h1 : (r.map (fun v => (k, v)) ++ q'.map (fun v => (k, v))).Perm (q.map (fun v => (k, v))) := by
      rw [← List.map_append]; exact (hP _ _ _ hp).map _
    refine List.Perm.trans ?_ (h1.append ih)
    simp only [List.append_assoc]
    apply List.Perm.append_left
    rw [← List.append_assoc, ← List.append_assoc]
    exact List.perm_append_comm.append_right _

theorem aux_removeAt_perm [DecidableEq κ] : ∀ (m : KMap κ α) (k : κ) (idx : Nat) {item : α} {m' : KMap κ α},
    removeAt k idx m = some (item, m') → ((k, item) :: kmItems m').Perm (kmItems m) := by
  intro m
  induction m with
  | nil => intro k idx item m' h; simp [removeAt] at h
  | cons e rest ih =>
    obtain ⟨k0, q⟩ := e
    intro k idx item m' h
    unfold removeAt at h
    split at h
    · rename_i hk
      subst hk
      split at h
      · simp at h
      · rename_i it hit
        simp only [Option.some.injEq, Prod.mk.injEq] at h
        obtain ⟨rfl, rfl⟩ := h
        obtain ⟨pre, post, hq, hpre⟩ := aux_decomp hit
        subst hq; subst hpre
        simp only [kmItems, List.flatMap_cons, List.eraseIdx_append_of_length_le (Nat.le_refl _),
          Nat.sub_self, List.eraseIdx_cons_zero, List.map_append, List.map_cons, List.append_assoc]
        exact (List.perm_middle (a := (k0, it))).symm
    · split at h
      · simp at h
      · rename_i it r' hrec
        simp only [Option.some.injEq, Prod.mk.injEq] at h
        obtain ⟨rfl, rfl⟩ := h
        have := ih k idx hrec
        simp only [kmItems, List.flatMap_cons] at this ⊢
        exact (List.perm_middle (a := (k, it))).symm.trans (this.append_left _)

theorem aux_foldSelect_split : ∀ (q sel rem : List α) (d : Drv) {sel' rem' : List α} {d' : Drv},
    foldSelect q sel rem d = (sel', rem', d') →
    ∃ s r, sel' = sel ++ s ∧ rem' = rem ++ r ∧ Split q s r := by
  intro q
  induction q with
  | nil =>
    intro sel rem d sel' rem' d' h
    simp only [foldSelect, Prod.mk.injEq] at h
    obtain ⟨rfl, rfl, _⟩ := h
    exact ⟨[], [], by simp, by simp, .nil⟩
  | cons x r ih =>
    intro sel rem d sel' rem' d' h
    cases r with
    | nil =>
      simp only [foldSelect] at h
      split at h
      · simp only [Prod.mk.injEq] at h
        obtain ⟨rfl, rfl, _⟩ := h
        exact ⟨[x], [], rfl, by simp, .left .nil⟩
      · split at h
        · simp only [Prod.mk.injEq] at h
          obtain ⟨rfl, rfl, _⟩ := h
          exact ⟨[x], [], rfl, by simp, .left .nil⟩
        · simp only [Prod.mk.injEq] at h
          obtain ⟨rfl, rfl, _⟩ := h
          exact ⟨[], [x], by simp, rfl, .right .nil⟩
    | cons y r' =>
      simp only [foldSelect] at h
      split at h
      · obtain ⟨s, rr, h1, h2, h3⟩ := ih _ _ _ h
        exact ⟨x :: s, rr, by simp [h1], h2, .left h3⟩
      · obtain ⟨s, rr, h1, h2, h3⟩ := ih _ _ _ h
        exact ⟨s, x :: rr, h1, by simp [h2], .right h3⟩

theorem aux_swapAt_perm [DecidableEq α] (l : List α) (i j : Nat) : (swapAt l i j).Perm l := by
  unfold swapAt
  split
  · rename_i a b ha hb
    have hi : i < l.length := by
      rcases Nat.lt_or_ge i l.length with h | h
      · exact h
      · simp [List.getElem?_eq_none h] at ha
    have hj : j < l.length := by
      rcases Nat.lt_or_ge j l.length with h | h
      · exact h
      · simp [List.getElem?_eq_none h] at hb
    have hai : l[i] = a := by rw [List.getElem?_eq_getElem hi] at ha; simpa using ha
    have hbj : l[j] = b := by rw [List.getElem?_eq_getElem hj] at hb; simpa using hb
    apply List.perm_iff_count.mpr
    intro x
    have hj' : j < (l.set i b).length := by simpa using hj
    rw [List.count_set hj', List.count_set hi, List.getElem_set, hai]
    have hmem : (if (a == x) = true then 1 else 0) ≤ List.count x l := by
      split
      · rename_i hax
        have : a = x := by simpa using hax
        subst this
        exact List.count_pos_iff.mpr (hai ▸ List.getElem_mem hi)
      · exact Nat.zero_le _
    by_cases hij : i = j
    · subst hij
      simp only [↓reduceIte]
      omega
    · simp only [hij, ↓reduceIte, hbj]
      omega
  · exact List.Perm.refl _

theorem aux_fisherYates_perm [DecidableEq α] : ∀ (n : Nat) (l : List α) (d : Drv) {l' : List α} {d' : Drv},
    fisherYates n l d = some (l', d') → l'.Perm l := by
  intro n
  induction n with
  | zero =>
    intro l d l' d' h
    simp only [fisherYates, Option.some.injEq, Prod.mk.injEq] at h
    exact h.1 ▸ List.Perm.refl _
  | succ i ih =>
    intro l d l' d' h
    unfold fisherYates at h
    split at h
    · simp at h
    · exact (ih _ _ h).trans (aux_swapAt_perm _ _ _)



theorem aux_tlOrder_perm {q r q' : List α} {d d' : Drv} {force nt : Bool}
    (h : tlOrderAuto q d force = some (r, q', nt, d')) : (r ++ q').Perm q ∧ r.length ≤ 1 := by
  unfold tlOrderAuto at h
  split at h
  · simp only [Option.some.injEq, Prod.mk.injEq] at h
    obtain ⟨rfl, rfl, _⟩ := h; simp
  · generalize hsd : d.boolIf (!force) = sd at h
    obtain ⟨skip, d1⟩ := sd
    simp only at h
    split at h
    · simp only [Option.some.injEq, Prod.mk.injEq] at h
      obtain ⟨rfl, rfl, _⟩ := h; simp
    · split at h
      · simp at h
      · split at h
        · simp at h
        · rename_i item hitem
          simp only [Option.some.injEq, Prod.mk.injEq] at h
          obtain ⟨rfl, rfl, _⟩ := h
          obtain ⟨pre, post, hq, hpre⟩ := aux_decomp hitem
          subst hq; subst hpre
          simp only [List.eraseIdx_append_of_length_le (Nat.le_refl _), Nat.sub_self, List.eraseIdx_cons_zero,
            List.cons_append, List.nil_append, List.length_cons, List.length_nil, Nat.le_refl, and_true]
          exact List.perm_middle.symm

theorem aux_tlFold_perm [DecidableEq α] {q r q' : List α} {d d' : Drv} {force nt : Bool}
    (h : tlFoldAuto q d force = some (r, q', nt, d')) : (r ++ q').Perm q ∧ q'.Sublist q := by
  unfold tlFoldAuto at h
  split at h
  · split at h
    · simp at h
    · simp only [Option.some.injEq, Prod.mk.injEq] at h
      obtain ⟨rfl, rfl, _⟩ := h; simp
  · generalize hfs : foldSelect q [] [] d = fs at h
    obtain ⟨sel, rem, d1⟩ := fs
    simp only at h
    split at h
    · simp at h
    · rename_i sel' d2 hfy
      simp only [Option.some.injEq, Prod.mk.injEq] at h
      obtain ⟨rfl, rfl, _⟩ := h
      obtain ⟨s, rr, h1, h2, h3⟩ := aux_foldSelect_split _ _ _ _ hfs
      simp only [List.nil_append] at h1 h2
      subst h1; subst h2
      exact ⟨((aux_fisherYates_perm _ _ _ hfy).append_right _).trans h3.aux_perm, h3.aux_sublist_right⟩

/-! items carry the key they are pending under (`none` for unkeyed buffers) -/
def tagN (l : List α) : List (Option κ × α) := l.map (fun a => (none, a))
def tagK (l : List (κ × α)) : List (Option κ × α) := l.map (fun e => (some e.1, e.2))

def msgItems : List (Msg κ α) → List (Option κ × α)
  | [] => []
  | .item a :: r => (none, a) :: msgItems r
  | .kv k a :: r => (some k, a) :: msgItems r
  | .batch l :: r => tagN l ++ msgItems r

/-- everything pending in a hook's input buffers -/
def Hook.pending : Hook κ α → List (Option κ × α)
  | .streamTotal q _ => tagN q
  | .streamNo q _ => tagN q
  | .keyedTotal m _ => tagK (kmItems m)
  | .keyedNo m _ => tagK (kmItems m)
  | .singleton s => tagN s.q
  | .passthrough q _ _ => tagN q
  | .keyedSingleton m _ _ => tagK (kmItems m)
  | .tlOrder q _ => tagN q
  | .tlFold q _ => tagN q
  | .tlKeyedOrder m _ => tagK (kmItems m)
  | .tlPartial m _ => tagK (kmItems m)
  | .tlMerge q1 q2 _ => tagN q1 ++ tagN q2
  | .tlKeyedMerge m1 m2 _ => tagK (kmItems m1) ++ tagK (kmItems m2)

/-- hooks that release stream items (every kind except the snapshot hooks, which drop skipped versions by design) -/
def Hook.streamLike : Hook κ α → Bool
  | .singleton _ => false
  | .passthrough _ _ _ => false
  | .keyedSingleton _ _ _ => false
  | _ => true

theorem aux_msgItems_item (v : List α) : msgItems (κ := κ) (v.map .item) = tagN v := by
  induction v with
  | nil => rfl
  | cons a r ih => simp [msgItems, tagN, ih] at *

theorem aux_msgItems_kv (v : List (κ × α)) : msgItems (v.map fun e => .kv e.1 e.2) = tagK v := by
  induction v with
  | nil => rfl
  | cons a r ih => simp [msgItems, tagK, ih] at *

theorem aux_tagN_perm {a b : List α} (h : a.Perm b) : (tagN (κ := κ) a).Perm (tagN b) := h.map _
theorem aux_tagK_perm {a b : List (κ × α)} (h : a.Perm b) : (tagK a).Perm (tagK b) := h.map _
theorem aux_tagN_append (a b : List α) : tagN (κ := κ) (a ++ b) = tagN a ++ tagN b := by simp [tagN]
theorem aux_tagK_append (a b : List (κ × α)) : tagK (a ++ b) = tagK a ++ tagK b := by simp [tagK]


theorem aux_tlKeyed_perm [DecidableEq κ] {m m' : KMap κ α} {r : List (κ × α)} {d d' : Drv} {force nt : Bool}
    (h : tlKeyedOrderAuto m d force = some (r, m', nt, d') ∨ tlPartialAuto m d force = some (r, m', nt, d')) :
    (r ++ kmItems m').Perm (kmItems m) := by
  rcases h with h | h
  · unfold tlKeyedOrderAuto at h
    simp only at h
    split at h
    · simp only [Option.some.injEq, Prod.mk.injEq] at h
      obtain ⟨rfl, rfl, _⟩ := h; simp
    · generalize hsd : d.boolIf (!force) = sd at h
      obtain ⟨skip, d1⟩ := sd
      simp only at h
      split at h
      · simp only [Option.some.injEq, Prod.mk.injEq] at h
        obtain ⟨rfl, rfl, _⟩ := h; simp
      · repeat' split at h
        all_goals first
          | (simp at h; done)
          | (rename_i hrem
             simp only [Option.some.injEq, Prod.mk.injEq] at h
             obtain ⟨rfl, rfl, _⟩ := h
             exact aux_removeAt_perm _ _ _ hrem)
  · unfold tlPartialAuto at h
    simp only at h
    split at h
    · simp only [Option.some.injEq, Prod.mk.injEq] at h
      obtain ⟨rfl, rfl, _⟩ := h; simp
    · generalize hsd : d.boolIf (!force) = sd at h
      obtain ⟨skip, d1⟩ := sd
      simp only at h
      split at h
      · simp only [Option.some.injEq, Prod.mk.injEq] at h
        obtain ⟨rfl, rfl, _⟩ := h; simp
      · repeat' split at h
        all_goals first
          | (simp at h; done)
          | (rename_i hrem
             simp only [Option.some.injEq, Prod.mk.injEq] at h
             obtain ⟨rfl, rfl, _⟩ := h
             exact aux_removeAt_perm _ _ _ hrem)

theorem aux_tlMerge_perm {q1 q2 r q1' q2' : List α} {d d' : Drv} {force nt : Bool}
    (h : tlMergeAuto q1 q2 d force = some (r, q1', q2', nt, d')) :
    (r ++ (q1' ++ q2')).Perm (q1 ++ q2) := by
  unfold tlMergeAuto at h
  split at h
  · simp only [Option.some.injEq, Prod.mk.injEq] at h
    obtain ⟨rfl, rfl, rfl, _⟩ := h; simp
  · generalize hsd : d.boolIf (!force) = sd at h
    obtain ⟨skip, d1⟩ := sd
    simp only at h
    split at h
    · simp only [Option.some.injEq, Prod.mk.injEq] at h
      obtain ⟨rfl, rfl, rfl, _⟩ := h; simp
    · split at h
      · simp at h
      · simp only [Option.some.injEq, Prod.mk.injEq] at h
        obtain ⟨rfl, rfl, rfl, _⟩ := h; simp
      · simp only [Option.some.injEq, Prod.mk.injEq] at h
        obtain ⟨rfl, rfl, rfl, _⟩ := h; simp
      · split at h
        · simp only [Option.some.injEq, Prod.mk.injEq] at h
          obtain ⟨rfl, rfl, rfl, _⟩ := h
          simp only [List.cons_append, List.nil_append]
          exact (List.perm_middle (l₁ := _ :: _)).symm
        · simp only [Option.some.injEq, Prod.mk.injEq] at h
          obtain ⟨rfl, rfl, rfl, _⟩ := h; simp

theorem aux_tlKeyedMerge_perm [DecidableEq κ] {m1 m2 m1' m2' : KMap κ α} {r : List (κ × α)} {d d' : Drv}
    {force nt : Bool} (h : tlKeyedMergeAuto m1 m2 d force = some (r, m1', m2', nt, d')) :
    (r ++ (kmItems m1' ++ kmItems m2')).Perm (kmItems m1 ++ kmItems m2) := by
  unfold tlKeyedMergeAuto at h
  simp only at h
  split at h
  · simp only [Option.some.injEq, Prod.mk.injEq] at h
    obtain ⟨rfl, rfl, rfl, _⟩ := h; simp
  · generalize hsd : d.boolIf (!force) = sd at h
    obtain ⟨skip, d1⟩ := sd
    simp only at h
    split at h
    · simp only [Option.some.injEq, Prod.mk.injEq] at h
      obtain ⟨rfl, rfl, rfl, _⟩ := h; simp
    · split at h
      · simp at h
      · split at h
        · simp at h
        · split at h
          · split at h
            · simp at h
            · rename_i hrem
              simp only [Option.some.injEq, Prod.mk.injEq] at h
              obtain ⟨rfl, rfl, rfl, _⟩ := h
              have := aux_removeAt_perm _ _ _ hrem
              simp only [List.cons_append, List.nil_append]
              exact (List.perm_middle (a := _)).symm.trans (this.append_left _)
          · split at h
            · simp at h
            · rename_i hrem
              simp only [Option.some.injEq, Prod.mk.injEq] at h
              obtain ⟨rfl, rfl, rfl, _⟩ := h
              have := aux_removeAt_perm _ _ _ hrem
              simp only [List.cons_append, List.nil_append]
              exact this.append_right _

/-- Nothing is lost and nothing is delivered twice: for every stream-releasing hook kind, every tape
and every forcing, what the decision puts on the output channel together with what stays buffered is
a permutation of what was buffered. -/
theorem released_plus_remaining_perm [DecidableEq κ] [DecidableEq α] (h : Hook κ α) {d d' : Drv}
    {force nt : Bool} {h1 h2 : Hook κ α} {out : List (Msg κ α)}
    (hs : h.streamLike = true) (ha : h.auto d force = some (nt, h1, d'))
    (hr : h1.release = some (h2, out)) : (msgItems out ++ h2.pending).Perm h.pending := by
  cases h with
  | singleton s => simp [Hook.streamLike] at hs
  | passthrough q r l => simp [Hook.streamLike] at hs
  | keyedSingleton m r l => simp [Hook.streamLike] at hs
  | streamTotal q r =>
    simp only [Hook.auto, Option.map_eq_some_iff] at ha
    obtain ⟨⟨r1, q1, nt1, d1⟩, hh, heq⟩ := ha
    simp only [Prod.mk.injEq] at heq; obtain ⟨_, rfl, _⟩ := heq
    simp only [Hook.release, Option.map_some, Option.some.injEq, Prod.mk.injEq] at hr
    obtain ⟨rfl, rfl⟩ := hr
    rw [aux_msgItems_item]; simp only [Hook.pending]; rw [← aux_tagN_append]
    exact aux_tagN_perm (by rw [(streamTotal_released_is_prefix hh).1])
  | streamNo q r =>
    simp only [Hook.auto, Option.map_eq_some_iff] at ha
    obtain ⟨⟨r1, q1, nt1, d1⟩, hh, heq⟩ := ha
    simp only [Prod.mk.injEq] at heq; obtain ⟨_, rfl, _⟩ := heq
    simp only [Hook.release, Option.map_some, Option.some.injEq, Prod.mk.injEq] at hr
    obtain ⟨rfl, rfl⟩ := hr
    rw [aux_msgItems_item]; simp only [Hook.pending]; rw [← aux_tagN_append]
    exact aux_tagN_perm (streamNo_released_is_sublist hh).1.aux_perm
  | keyedTotal m r =>
    simp only [Hook.auto, Option.map_eq_some_iff] at ha
    obtain ⟨⟨r1, q1, nt1, d1⟩, hh, heq⟩ := ha
    simp only [Prod.mk.injEq] at heq; obtain ⟨_, rfl, _⟩ := heq
    simp only [Hook.release, Option.map_some, Option.some.injEq, Prod.mk.injEq] at hr
    obtain ⟨rfl, rfl⟩ := hr
    rw [aux_msgItems_kv]; simp only [Hook.pending]; rw [← aux_tagK_append]
    exact aux_tagK_perm (aux_keyedRel_perm (fun q r q' hp => by rw [show r ++ q' = q from hp])
      (keyedTotal_released_is_prefix_per_key hh).1)
  | keyedNo m r =>
    simp only [Hook.auto, Option.map_eq_some_iff] at ha
    obtain ⟨⟨r1, q1, nt1, d1⟩, hh, heq⟩ := ha
    simp only [Prod.mk.injEq] at heq; obtain ⟨_, rfl, _⟩ := heq
    simp only [Hook.release, Option.map_some, Option.some.injEq, Prod.mk.injEq] at hr
    obtain ⟨rfl, rfl⟩ := hr
    rw [aux_msgItems_kv]; simp only [Hook.pending]; rw [← aux_tagK_append]
    exact aux_tagK_perm (aux_keyedRel_perm (fun q r q' hp => Split.aux_perm hp)
      (keyedNo_released_is_sublist_per_key hh).1)
  | tlOrder q r =>
    simp only [Hook.auto, Option.map_eq_some_iff] at ha
    obtain ⟨⟨r1, q1, nt1, d1⟩, hh, heq⟩ := ha
    simp only [Prod.mk.injEq] at heq; obtain ⟨_, rfl, _⟩ := heq
    simp only [Hook.release, Option.map_some, Option.some.injEq, Prod.mk.injEq] at hr
    obtain ⟨rfl, rfl⟩ := hr
    rw [aux_msgItems_item]; simp only [Hook.pending]; rw [← aux_tagN_append]
    exact aux_tagN_perm (aux_tlOrder_perm hh).1
  | tlFold q r =>
    simp only [Hook.auto, Option.map_eq_some_iff] at ha
    obtain ⟨⟨r1, q1, nt1, d1⟩, hh, heq⟩ := ha
    simp only [Prod.mk.injEq] at heq; obtain ⟨_, rfl, _⟩ := heq
    simp only [Hook.release, Option.map_some, Option.some.injEq, Prod.mk.injEq] at hr
    obtain ⟨rfl, rfl⟩ := hr
    simp only [msgItems, List.append_nil, Hook.pending]; rw [← aux_tagN_append]
    exact aux_tagN_perm (aux_tlFold_perm hh).1
  | tlKeyedOrder m r =>
    simp only [Hook.auto, Option.map_eq_some_iff] at ha
    obtain ⟨⟨r1, q1, nt1, d1⟩, hh, heq⟩ := ha
    simp only [Prod.mk.injEq] at heq; obtain ⟨_, rfl, _⟩ := heq
    simp only [Hook.release, Option.map_some, Option.some.injEq, Prod.mk.injEq] at hr
    obtain ⟨rfl, rfl⟩ := hr
    rw [aux_msgItems_kv]; simp only [Hook.pending]; rw [← aux_tagK_append]
    exact aux_tagK_perm (aux_tlKeyed_perm (Or.inl hh))
  | tlPartial m r =>
    simp only [Hook.auto, Option.map_eq_some_iff] at ha
    obtain ⟨⟨r1, q1, nt1, d1⟩, hh, heq⟩ := ha
    simp only [Prod.mk.injEq] at heq; obtain ⟨_, rfl, _⟩ := heq
    simp only [Hook.release, Option.map_some, Option.some.injEq, Prod.mk.injEq] at hr
    obtain ⟨rfl, rfl⟩ := hr
    rw [aux_msgItems_kv]; simp only [Hook.pending]; rw [← aux_tagK_append]
    exact aux_tagK_perm (aux_tlKeyed_perm (Or.inr hh))
  | tlMerge q1 q2 r =>
    simp only [Hook.auto, Option.map_eq_some_iff] at ha
    obtain ⟨⟨r1, qa, qb, nt1, d1⟩, hh, heq⟩ := ha
    simp only [Prod.mk.injEq] at heq; obtain ⟨_, rfl, _⟩ := heq
    simp only [Hook.release, Option.map_some, Option.some.injEq, Prod.mk.injEq] at hr
    obtain ⟨rfl, rfl⟩ := hr
    rw [aux_msgItems_item]; simp only [Hook.pending]; rw [← aux_tagN_append, ← aux_tagN_append, ← aux_tagN_append]
    exact aux_tagN_perm (aux_tlMerge_perm hh)
  | tlKeyedMerge m1 m2 r =>
    simp only [Hook.auto, Option.map_eq_some_iff] at ha
    obtain ⟨⟨r1, ma, mb, nt1, d1⟩, hh, heq⟩ := ha
    simp only [Prod.mk.injEq] at heq; obtain ⟨_, rfl, _⟩ := heq
    simp only [Hook.release, Option.map_some, Option.some.injEq, Prod.mk.injEq] at hr
    obtain ⟨rfl, rfl⟩ := hr
    rw [aux_msgItems_kv]; simp only [Hook.pending]; rw [← aux_tagK_append, ← aux_tagK_append, ← aux_tagK_append]
    exact aux_tagK_perm (aux_tlKeyedMerge_perm hh)



/-! ### the in-tick order hooks -/

theorem aux_shuffleFrom_perm [DecidableEq α] : ∀ (fuel src maxDst : Nat) (l : List α) (d : Drv) {l' : List α} {d' : Drv},
    shuffleFrom fuel src maxDst l d = some (l', d') → l'.Perm l := by
  intro fuel
  induction fuel with
  | zero =>
    intro src maxDst l d l' d' h
    simp only [shuffleFrom, Option.some.injEq, Prod.mk.injEq] at h
    exact h.1 ▸ List.Perm.refl _
  | succ n ih =>
    intro src maxDst l d l' d' h
    unfold shuffleFrom at h
    split at h
    · simp at h
    · exact (ih _ _ _ _ h).trans (aux_swapAt_perm _ _ _)

/-- `StreamOrderHook`: for every tape the observed order is a permutation of the batch
(nothing lost, nothing twice) -/
theorem streamOrder_released_is_perm [DecidableEq α] {l l' : List α} {d d' : Drv}
    (h : streamOrderAuto l d = some (l', d')) : l'.Perm l :=
  aux_shuffleFrom_perm _ _ _ _ _ h

/-- `MergeOrderedHook`: for every tape the merged batch is an interleaving of the two inputs that keeps
each input's order (`Split`), and the recorded sources tell the inputs apart -/
theorem mergeOrdered_is_interleaving : ∀ (l1 l2 : List α) (d : Drv),
    Split (mergeOrderedAuto l1 l2 d).1 l1 l2 ∧ (mergeOrderedAuto l1 l2 d).2.1.length = l1.length + l2.length := by
  intro l1 l2 d
  fun_induction mergeOrderedAuto l1 l2 d with
  | case1 l2 d => exact ⟨Split.aux_all_right _, by simp⟩
  | case2 x r1 d => exact ⟨Split.aux_all_left _, by simp⟩
  | case3 =>
    rename_i hrec _ ih
    rw [hrec] at ih
    exact ⟨.right ih.1, by simp only [List.length_cons] at ih ⊢; omega⟩
  | case4 =>
    rename_i ih
    have hrec := ‹mergeOrderedAuto _ _ _ = (_, _, _)›
    rw [hrec] at ih
    exact ⟨.left ih.1, by simp only [List.length_cons] at ih ⊢; omega⟩

example : streamOrderAuto [1, 2, 3] ⟨[1, 0], []⟩ = some ([2, 1, 3], ⟨[], [.u 1 2 1, .u 0 2 1]⟩) := by decide


/-! ### KeyedSingletonHook: per-key snapshots -/

/-- what one decision of a `KeyedSingletonHook` does, entry by entry in iteration order, threading the
`last_released` map: a key's snapshot is re-released unchanged (buffer untouched), withheld (only a key
never released before), or a buffered version is released and everything older is dropped -/
inductive KSnapRel [DecidableEq κ] : List (κ × α) → KMap κ α → List (κ × α × Bool) → KMap κ α → List (κ × α) → Prop
  | nil {last} : KSnapRel last [] [] [] last
  | unchanged {last k q l m rel m' last'} : lookup k last = some l → KSnapRel last m rel m' last' →
      KSnapRel last ((k, q) :: m) ((k, l, false) :: rel) ((k, q) :: m') last'
  | withheld {last k q m rel m' last'} : lookup k last = none → q ≠ [] → KSnapRel last m rel m' last' →
      KSnapRel last ((k, q) :: m) rel ((k, q) :: m') last'
  | fresh {last k skipped x q' m rel m' last'} : KSnapRel (insertKV k x last) m rel m' last' →
      KSnapRel last ((k, skipped ++ x :: q') :: m) ((k, x, true) :: rel) ((k, q') :: m') last'

theorem keyedSingleton_release_shape [DecidableEq κ] : ∀ (m : KMap κ α) (remaining : Nat) (force : Bool)
    (last : List (κ × α)) (d : Drv) {rel : List (κ × α × Bool)} {m' : KMap κ α} {last' : List (κ × α)}
    {nt : Bool} {d' : Drv},
    keyedSingLoop m remaining force last d = some (rel, m', last', nt, d') →
    KSnapRel last m rel m' last' ∧ nt = rel.any (fun e => e.2.2) := by
  intro m
  induction m with
  | nil =>
    intro remaining force last d rel m' last' nt d' h
    simp only [keyedSingLoop, Option.some.injEq, Prod.mk.injEq] at h
    obtain ⟨rfl, rfl, rfl, rfl, _⟩ := h
    exact ⟨.nil, rfl⟩
  | cons e rest ih =>
    obtain ⟨k, q⟩ := e
    intro remaining force last d rel m' last' nt d' h
    unfold keyedSingLoop at h
    split at h
    · split at h
      · simp at h
      · rename_i l hl
        split at h
        · simp at h
        · rename_i hrec
          simp only [Option.some.injEq, Prod.mk.injEq] at h
          obtain ⟨rfl, rfl, rfl, rfl, _⟩ := h
          obtain ⟨i1, i2⟩ := ih _ _ _ _ hrec
          exact ⟨.unchanged hl i1, by simp [i2]⟩
    · rename_i hq
      have hqne : q ≠ [] := by intro hh; subst hh; simp at hq
      simp only at h
      generalize hsd : d.boolIf (!(force && remaining - 1 == 0) && (lookup k last).isSome) = sd at h
      obtain ⟨rr, d1⟩ := sd
      simp only at h
      split at h
      · split at h
        · simp at h
        · rename_i l hl
          split at h
          · simp at h
          · rename_i hrec
            simp only [Option.some.injEq, Prod.mk.injEq] at h
            obtain ⟨rfl, rfl, rfl, rfl, _⟩ := h
            obtain ⟨i1, i2⟩ := ih _ _ _ _ hrec
            exact ⟨.unchanged hl i1, by simp [i2]⟩
      · generalize hsd2 : d1.boolIf (!(force && remaining - 1 == 0) && (lookup k last).isNone) = sd2 at h
        obtain ⟨nr, d2⟩ := sd2
        simp only at h
        split at h
        · rename_i hnr
          have hnone : lookup k last = none := by
            cases hl : lookup k last with
            | none => rfl
            | some _ => simp [hl, Drv.boolIf] at hsd2; simp_all
          split at h
          · simp at h
          · rename_i hrec
            simp only [Option.some.injEq, Prod.mk.injEq] at h
            obtain ⟨rfl, rfl, rfl, rfl, _⟩ := h
            obtain ⟨i1, i2⟩ := ih _ _ _ _ hrec
            exact ⟨.withheld hnone hqne i1, i2⟩
        · split at h
          · simp at h
          · rename_i idx d3 hidx
            split at h
            · simp at h
            · rename_i item qrest hdrop
              split at h
              · simp at h
              · rename_i hrec
                simp only [Option.some.injEq, Prod.mk.injEq] at h
                obtain ⟨rfl, rfl, rfl, rfl, _⟩ := h
                obtain ⟨i1, _⟩ := ih _ _ _ _ hrec
                have hq' : q = q.take idx ++ item :: qrest := by
                  rw [← hdrop, List.take_append_drop]
                rw [hq']
                refine ⟨?_, by simp⟩
                have := KSnapRel.fresh (k := k) (skipped := q.take idx) (x := item) (q' := qrest) i1
                simpa [← hq'] using this

theorem aux_lookup_insertKV_ne [DecidableEq κ] (k k0 : κ) (x : α) (last : List (κ × α)) (h : k0 ≠ k) :
    lookup k (insertKV k0 x last) = lookup k last := by
  induction last with
  | nil => simp [insertKV, lookup, h]
  | cons e r ih =>
    obtain ⟨k1, v1⟩ := e
    unfold insertKV
    split
    · rename_i h1; subst h1; simp [lookup, h]
    · rename_i h1
      by_cases h2 : k1 = k
      · simp [lookup, h2]
      · simp [lookup, h2, ih]

theorem aux_kSnapRel_keys [DecidableEq κ] {last last' : List (κ × α)} {m m' : KMap κ α} {rel : List (κ × α × Bool)}
    (h : KSnapRel last m rel m' last') : ∀ e ∈ rel, e.1 ∈ m.map Prod.fst := by
  induction h with
  | nil => simp
  | unchanged _ _ ih =>
    intro e he
    simp only [List.mem_cons] at he
    rcases he with rfl | he
    · simp
    · simp only [List.map_cons, List.mem_cons]; exact Or.inr (ih e he)
  | withheld _ _ _ ih =>
    intro e he
    simp only [List.map_cons, List.mem_cons]; exact Or.inr (ih e he)
  | fresh _ ih =>
    intro e he
    simp only [List.mem_cons] at he
    rcases he with rfl | he
    · simp
    · simp only [List.map_cons, List.mem_cons]; exact Or.inr (ih e he)

/-- Per key, a `KeyedSingletonHook` never goes back to an older version: with values tagged by their
version (buffer strictly increasing, last released older than everything buffered), whatever is
released for a key is at least as new as that key's last released snapshot, and a new snapshot comes
from the buffer. -/
theorem keyedSingleton_version_monotone [DecidableEq κ] {last last' : List (κ × (Nat × β))}
    {m m' : KMap κ (Nat × β)} {rel : List (κ × (Nat × β) × Bool)}
    (h : KSnapRel last m rel m' last') (hnd : (m.map Prod.fst).Nodup) :
    ∀ k x b, (k, x, b) ∈ rel → ∀ q, (k, q) ∈ m →
      (∀ l, lookup k last = some l → ∀ y ∈ q, l.1 < y.1) →
      (∀ l, lookup k last = some l → l.1 ≤ x.1) ∧ (b = true → x ∈ q) ∧ (b = false → lookup k last = some x) := by
  induction h with
  | nil => intro k x b hx; simp at hx
  | @unchanged last k0 q0 l m0 rel0 m0' last0' hl hrest ih =>
    simp only [List.map_cons, List.nodup_cons] at hnd
    intro k x b hx q hq hinv
    simp only [List.mem_cons, Prod.mk.injEq] at hx hq
    rcases hx with ⟨rfl, rfl, rfl⟩ | hx
    · rcases hq with ⟨_, rfl⟩ | hq
      · exact ⟨fun l' hl' => by rw [hl] at hl'; simp at hl'; subst hl'; exact Nat.le_refl _, by simp, fun _ => hl⟩
      · exact absurd (List.mem_map.mpr ⟨(k, q), hq, rfl⟩) hnd.1
    · rcases hq with ⟨rfl, rfl⟩ | hq
      · exact absurd (aux_kSnapRel_keys hrest _ hx) hnd.1
      · exact ih hnd.2 k x b hx q hq hinv
  | @withheld last k0 q0 m0 rel0 m0' last0' hl _ hrest ih =>
    simp only [List.map_cons, List.nodup_cons] at hnd
    intro k x b hx q hq hinv
    simp only [List.mem_cons, Prod.mk.injEq] at hq
    rcases hq with ⟨rfl, rfl⟩ | hq
    · exact absurd (aux_kSnapRel_keys hrest _ hx) hnd.1
    · exact ih hnd.2 k x b hx q hq hinv
  | @fresh last k0 skipped x0 q0' m0 rel0 m0' last0' hrest ih =>
    simp only [List.map_cons, List.nodup_cons] at hnd
    intro k x b hx q hq hinv
    simp only [List.mem_cons, Prod.mk.injEq] at hx hq
    rcases hx with ⟨rfl, rfl, rfl⟩ | hx
    · rcases hq with ⟨_, rfl⟩ | hq
      · exact ⟨fun l' hl' => Nat.le_of_lt (hinv l' hl' x (by simp)), fun _ => by simp, by simp⟩
      · exact absurd (List.mem_map.mpr ⟨(k, q), hq, rfl⟩) hnd.1
    · rcases hq with ⟨rfl, rfl⟩ | hq
      · exact absurd (aux_kSnapRel_keys hrest _ hx) hnd.1
      · have hne : k0 ≠ k := by
          intro heq; subst heq
          exact hnd.1 (List.mem_map.mpr ⟨(k0, q), hq, rfl⟩)
        have := ih hnd.2 k x b hx q hq (by rw [aux_lookup_insertKV_ne k k0 x0 last hne]; exact hinv)
        rw [aux_lookup_insertKV_ne k k0 x0 last hne] at this
        exact this


example : keyedSingLoop (κ := Nat) (α := Nat × Nat) [(7, [(1, 10), (2, 20)]), (9, [])] 1 false [(9, (0, 5))] ⟨[0, 1], []⟩
    = some ([(7, (2, 20), true), (9, (0, 5), false)], [(7, []), (9, [])], [(9, (0, 5)), (7, (2, 20))], true,
        ⟨[], [.u 0 1 1, .b false]⟩) := by rfl

/-! ### F36 (fixed): `run_hooks` on a runnable tick never panics and releases for every hook -/

theorem aux_nat_some (d : Drv) {lo hi : Nat} (h : lo ≤ hi) : ∃ v d', d.nat lo hi = some (v, d') := by
  unfold Drv.nat
  have : ¬ hi < lo := by omega
  simp [this]

theorem aux_natEx_some (d : Drv) {lo hi : Nat} (h : lo < hi) : ∃ v d', d.natEx lo hi = some (v, d') := by
  unfold Drv.natEx
  have : ¬ hi ≤ lo := by omega
  simp only [this, ↓reduceIte]
  exact aux_nat_some d (by omega)

theorem aux_getElem?_some (q : List α) {i : Nat} (h : i < q.length) : ∃ x, q[i]? = some x :=
  ⟨q[i], List.getElem?_eq_getElem h⟩

theorem aux_streamNoLoop_total : ∀ (fuel : Nat) (force : Bool) (q out : List α) (mi : Nat) (d : Drv),
    (q ≠ [] → mi < q.length) → ∃ r, streamNoLoop fuel force q out mi d = some r := by
  intro fuel
  induction fuel with
  | zero => intro force q out mi d _; exact ⟨_, rfl⟩
  | succ n ih =>
    intro force q out mi d hmi
    unfold streamNoLoop
    split
    · exact ⟨_, rfl⟩
    · rename_i hq
      have hqne : q ≠ [] := by intro h; subst h; simp at hq
      rcases hb : d.boolIf (!(force && out.isEmpty)) with ⟨stop, d1⟩
      simp only [hb]
      split
      · exact ⟨_, rfl⟩
      · obtain ⟨idx, d2, hidx⟩ := aux_natEx_some d1 (hmi hqne)
        have hr := aux_natEx_range hidx
        obtain ⟨x, hx⟩ := aux_getElem?_some q hr.2
        simp only [hidx, hx]
        split
        · exact ⟨_, rfl⟩
        · rename_i hne
          apply ih
          intro _
          have hl : (q.eraseIdx idx).length = q.length - 1 := by rw [List.length_eraseIdx]; simp [hr.2]
          simp only [beq_iff_eq] at hne
          omega

theorem aux_keyedNoInner_total : ∀ (fuel : Nat) (force : Bool) (remaining : Nat) (q out : List α) (mi : Nat) (d : Drv),
    (q ≠ [] → mi < q.length) → ∃ r, keyedNoInner fuel force remaining q out mi d = some r := by
  intro fuel
  induction fuel with
  | zero => intro force remaining q out mi d _; exact ⟨_, rfl⟩
  | succ n ih =>
    intro force remaining q out mi d hmi
    unfold keyedNoInner
    split
    · exact ⟨_, rfl⟩
    · rename_i hq
      have hqne : q ≠ [] := by intro h; subst h; simp at hq
      rcases hb : d.boolIf (!(force && remaining == 0)) with ⟨stop, d1⟩
      simp only [hb]
      split
      · exact ⟨_, rfl⟩
      · obtain ⟨idx, d2, hidx⟩ := aux_natEx_some d1 (hmi hqne)
        have hr := aux_natEx_range hidx
        obtain ⟨x, hx⟩ := aux_getElem?_some q hr.2
        simp only [hidx, hx]
        split
        · exact ⟨_, rfl⟩
        · rename_i hne
          apply ih
          intro _
          have hl : (q.eraseIdx idx).length = q.length - 1 := by rw [List.length_eraseIdx]; simp [hr.2]
          simp only [beq_iff_eq] at hne
          omega

theorem aux_keyedTotalLoop_total : ∀ (m : KMap κ α) (remaining : Nat) (force : Bool) (d : Drv),
    ∃ r, keyedTotalLoop m remaining force d = some r := by
  intro m
  induction m with
  | nil => intro remaining force d; exact ⟨_, rfl⟩
  | cons e rest ih =>
    obtain ⟨k, q⟩ := e
    intro remaining force d
    unfold keyedTotalLoop
    split
    · obtain ⟨r, hr⟩ := ih remaining force d
      simp only [hr]; exact ⟨_, rfl⟩
    · rename_i hq
      have hlen : 1 ≤ q.length := by
        cases q with
        | nil => simp at hq
        | cons _ _ => simp
      obtain ⟨c, d1, hc⟩ := aux_nat_some d (lo := if (force && remaining - 1 == 0) = true then 1 else 0)
        (hi := q.length) (by split <;> omega)
      simp only [hc]
      obtain ⟨r, hr⟩ := ih (remaining - 1) (if 0 < c then false else force) d1
      simp only [hr]; exact ⟨_, rfl⟩

theorem aux_keyedNoLoop_total : ∀ (m : KMap κ α) (remaining : Nat) (force : Bool) (d : Drv),
    ∃ r, keyedNoLoop m remaining force d = some r := by
  intro m
  induction m with
  | nil => intro remaining force d; exact ⟨_, rfl⟩
  | cons e rest ih =>
    obtain ⟨k, q⟩ := e
    intro remaining force d
    unfold keyedNoLoop
    split
    · obtain ⟨r, hr⟩ := ih remaining force d
      simp only [hr]; exact ⟨_, rfl⟩
    · rename_i hq
      have hqne : q ≠ [] := by intro h; subst h; simp at hq
      obtain ⟨⟨out, q', f', d1⟩, hin⟩ := aux_keyedNoInner_total q.length force (remaining - 1) q [] 0 d
        (fun h => List.length_pos_iff.mpr h)
      simp only [hin]
      obtain ⟨r, hr⟩ := ih (remaining - 1) f' d1
      simp only [hr]; exact ⟨_, rfl⟩

theorem aux_lookup_insertKV_self [DecidableEq κ] (k : κ) (x : α) (last : List (κ × α)) :
    lookup k (insertKV k x last) = some x := by
  induction last with
  | nil => simp [insertKV, lookup]
  | cons e r ih =>
    obtain ⟨k1, v1⟩ := e
    unfold insertKV
    split
    · simp [lookup]
    · rename_i h1; simp [lookup, h1, ih]

theorem aux_lookup_insertKV_isSome [DecidableEq κ] (k k0 : κ) (x : α) (last : List (κ × α))
    (h : (lookup k last).isSome = true) : (lookup k (insertKV k0 x last)).isSome = true := by
  by_cases hk : k0 = k
  · subst hk; simp [aux_lookup_insertKV_self]
  · rw [aux_lookup_insertKV_ne k k0 x last hk]; exact h

theorem aux_keyedSingLoop_total [DecidableEq κ] : ∀ (m : KMap κ α) (remaining : Nat) (force : Bool)
    (last : List (κ × α)) (d : Drv),
    (∀ e ∈ m, e.2 = [] → (lookup e.1 last).isSome = true) →
    ∃ r, keyedSingLoop m remaining force last d = some r := by
  intro m
  induction m with
  | nil => intro remaining force last d _; exact ⟨_, rfl⟩
  | cons e rest ih =>
    obtain ⟨k, q⟩ := e
    intro remaining force last d hwf
    have hwf' : ∀ e ∈ rest, e.2 = [] → (lookup e.1 last).isSome = true :=
      fun e he => hwf e (List.mem_cons_of_mem _ he)
    unfold keyedSingLoop
    split
    · rename_i hq
      have hqe : q = [] := by simpa using hq
      have := hwf (k, q) (List.mem_cons_self ..) hqe
      obtain ⟨l, hl⟩ := Option.isSome_iff_exists.mp this
      simp only at hl
      simp only [hl]
      obtain ⟨r, hr⟩ := ih remaining force last d hwf'
      simp only [hr]; exact ⟨_, rfl⟩
    · rename_i hq
      rcases hsd : d.boolIf (!(force && remaining - 1 == 0) && (lookup k last).isSome) with ⟨rr, d1⟩
      simp only [hsd]
      split
      · rename_i hrr
        have hsome : (lookup k last).isSome = true := by
          cases hl : (lookup k last).isSome with
          | true => rfl
          | false => simp [hl, Drv.boolIf] at hsd; simp_all
        obtain ⟨l, hl⟩ := Option.isSome_iff_exists.mp hsome
        simp only [hl]
        obtain ⟨r, hr⟩ := ih (remaining - 1) force last d1 hwf'
        simp only [hr]; exact ⟨_, rfl⟩
      · rcases hsd2 : d1.boolIf (!(force && remaining - 1 == 0) && (lookup k last).isNone) with ⟨nr, d2⟩
        simp only
        split
        · obtain ⟨r, hr⟩ := ih (remaining - 1) force last d2 hwf'
          simp only [hr]; exact ⟨_, rfl⟩
        · have hlen : 0 < q.length := by
            cases q with
            | nil => simp at hq
            | cons _ _ => simp
          obtain ⟨idx, d3, hidx⟩ := aux_natEx_some d2 hlen
          have hr := aux_natEx_range hidx
          simp only [hidx]
          have hdrop : q.drop idx = q[idx] :: q.drop (idx + 1) := List.drop_eq_getElem_cons hr.2
          simp only [hdrop]
          obtain ⟨r, hr⟩ := ih (remaining - 1) false (insertKV k q[idx] last) d3
            (fun e he he2 => aux_lookup_insertKV_isSome _ _ _ _ (hwf' e he he2))
          simp only [hr]; exact ⟨_, rfl⟩

theorem aux_fisherYates_total : ∀ (n : Nat) (l : List α) (d : Drv), ∃ r, fisherYates n l d = some r := by
  intro n
  induction n with
  | zero => intro l d; exact ⟨_, rfl⟩
  | succ i ih =>
    intro l d
    unfold fisherYates
    obtain ⟨j, d1, hj⟩ := aux_nat_some d (lo := 0) (hi := i + 1) (Nat.zero_le _)
    simp only [hj]
    exact ih _ _

theorem aux_removeAt_some [DecidableEq κ] : ∀ (m : KMap κ α) (k : κ) (q : List α) (idx : Nat),
    (m.map Prod.fst).Nodup → (k, q) ∈ m → idx < q.length → ∃ r, removeAt k idx m = some r := by
  intro m
  induction m with
  | nil => intro k q idx _ hm; simp at hm
  | cons e rest ih =>
    obtain ⟨k0, q0⟩ := e
    intro k q idx hnd hm hidx
    simp only [List.map_cons, List.nodup_cons] at hnd
    unfold removeAt
    split
    · rename_i hk
      subst hk
      simp only [List.mem_cons, Prod.mk.injEq, true_and] at hm
      rcases hm with rfl | hm
      · obtain ⟨x, hx⟩ := aux_getElem?_some q hidx
        simp only [hx]; exact ⟨_, rfl⟩
      · exact absurd (List.mem_map.mpr ⟨(k0, q), hm, rfl⟩) hnd.1
    · rename_i hk
      simp only [List.mem_cons, Prod.mk.injEq] at hm
      rcases hm with ⟨rfl, _⟩ | hm
      · exact absurd rfl hk
      · obtain ⟨r, hr⟩ := ih k q idx hnd.2 hm hidx
        simp only [hr]; exact ⟨_, rfl⟩

theorem aux_nonemptyKeys_mem {m : KMap κ α} {i : Nat} {k : κ} {n : Nat}
    (h : (nonemptyKeys m)[i]? = some (k, n)) : ∃ q, (k, q) ∈ m ∧ q.length = n ∧ 0 < n := by
  have hm := List.mem_of_getElem? h
  simp only [nonemptyKeys, List.mem_map, List.mem_filter, Bool.not_eq_true', Prod.mk.injEq] at hm
  obtain ⟨⟨k', q⟩, ⟨hmem, hne⟩, rfl, rfl⟩ := hm
  refine ⟨q, hmem, rfl, ?_⟩
  cases q with
  | nil => simp at hne
  | cons _ _ => simp

theorem aux_candidates_mem {m1 m2 : KMap κ α} {i : Nat} {b : Bool} {k : κ}
    (h : (candidates m1 m2)[i]? = some (b, k)) :
    ∃ q, (k, q) ∈ (if b then m2 else m1) ∧ 0 < q.length := by
  have hm := List.mem_of_getElem? h
  simp only [candidates, List.mem_append, List.mem_map, List.mem_filter, Bool.not_eq_true', Prod.mk.injEq] at hm
  rcases hm with ⟨⟨k', q⟩, ⟨hmem, hne⟩, rfl, rfl⟩ | ⟨⟨k', q⟩, ⟨hmem, hne⟩, rfl, rfl⟩
  · refine ⟨q, by simpa using hmem, ?_⟩
    cases q with
    | nil => simp at hne
    | cons _ _ => simp
  · refine ⟨q, by simpa using hmem, ?_⟩
    cases q with
    | nil => simp at hne
    | cons _ _ => simp

/-- state invariants of the hash-map backed hooks (keys of a hash map are distinct; a
`KeyedSingletonHook` key whose queue is empty has been released before — queues are created by
`entry(k).or_default().push_back(v)` and only emptied by releasing) -/
def Hook.WF [DecidableEq κ] : Hook κ α → Prop
  | .keyedSingleton m _ last => ∀ e ∈ m, e.2 = [] → (lookup e.1 last).isSome = true
  | .tlKeyedOrder m _ => (m.map Prod.fst).Nodup
  | .tlPartial m _ => (m.map Prod.fst).Nodup
  | .tlKeyedMerge m1 m2 _ => (m1.map Prod.fst).Nodup ∧ (m2.map Prod.fst).Nodup
  | _ => True

/-- `autonomous_decision` does not panic on a ready, well-formed hook, provided it is only forced
when it can make a non-trivial decision (which is how `run_hooks` calls it) -/
theorem hook_auto_total [DecidableEq κ] (h : Hook κ α) (d : Drv) (force : Bool)
    (hwf : h.WF) (hready : h.ready = true) (hf : force = true → h.canNT = true) :
    ∃ r, h.auto d force = some r := by
  cases h with
  | streamTotal q r =>
    have hlo : (if force = true then 1 else 0) ≤ q.length := by
      split
      · rename_i hft
        have := hf hft
        cases q with
        | nil => simp [Hook.canNT] at this
        | cons _ _ => simp
      · exact Nat.zero_le _
    obtain ⟨c, d1, hc⟩ := aux_nat_some d hlo
    exact ⟨_, by simp only [Hook.auto, streamTotalAuto, hc, Option.map_some]; rfl⟩
  | streamNo q r =>
    obtain ⟨⟨o, q', d'⟩, hl⟩ := aux_streamNoLoop_total q.length force q [] 0 d (fun h => List.length_pos_iff.mpr h)
    exact ⟨_, by simp only [Hook.auto, streamNoAuto, hl, Option.map_some]; rfl⟩
  | keyedTotal m r =>
    obtain ⟨⟨o, m', d'⟩, hl⟩ := aux_keyedTotalLoop_total m (nonemptyKeyCount m) force d
    exact ⟨_, by simp only [Hook.auto, keyedTotalAuto, hl, Option.map_some]; rfl⟩
  | keyedNo m r =>
    obtain ⟨⟨o, m', d'⟩, hl⟩ := aux_keyedNoLoop_total m (nonemptyKeyCount m) force d
    exact ⟨_, by simp only [Hook.auto, keyedNoAuto, hl, Option.map_some]; rfl⟩
  | singleton s =>
    simp only [Hook.auto]
    unfold singletonAuto
    split
    · rename_i hq
      have hnf : force = false := by
        cases force with
        | false => rfl
        | true => have := hf rfl; simp [Hook.canNT, hq] at this
      simp only [Hook.ready, hq, Bool.not_true, Bool.false_or] at hready
      obtain ⟨l, hl⟩ := Option.isSome_iff_exists.mp hready
      simp only [hnf, Bool.false_eq_true, ↓reduceIte, hl, Option.map_some]
      exact ⟨_, rfl⟩
    · rename_i hq
      rcases hsd : d.boolIf (!force && s.last.isSome) with ⟨rr, d1⟩
      simp only
      split
      · rename_i hrr
        have hsome : s.last.isSome = true := by
          cases hl : s.last.isSome with
          | true => rfl
          | false => simp [hl, Drv.boolIf] at hsd; simp_all
        obtain ⟨l, hl⟩ := Option.isSome_iff_exists.mp hsome
        simp only [hl, Option.map_some]
        exact ⟨_, rfl⟩
      · have hlen : 0 < s.q.length := by
          cases hqq : s.q with
          | nil => simp [hqq] at hq
          | cons _ _ => simp
        obtain ⟨idx, d2, hidx⟩ := aux_natEx_some d1 hlen
        have hr := aux_natEx_range hidx
        have hdrop : s.q.drop idx = s.q[idx] :: s.q.drop (idx + 1) := List.drop_eq_getElem_cons hr.2
        simp only [hidx, hdrop, Option.map_some]
        exact ⟨_, rfl⟩
  | passthrough q r last =>
    simp only [Hook.auto]
    unfold passthroughAuto
    split
    · simp only [Option.map_some]; exact ⟨_, rfl⟩
    · rename_i hl
      have hq : q = [] := by simpa [List.getLast?_eq_none_iff] using hl
      subst hq
      have hnf : force = false := by
        cases force with
        | false => rfl
        | true => have := hf rfl; simp [Hook.canNT] at this
      simp only [Hook.ready, List.isEmpty_nil, Bool.not_true, Bool.false_or] at hready
      obtain ⟨l, hl⟩ := Option.isSome_iff_exists.mp hready
      simp only [hnf, Bool.false_eq_true, ↓reduceIte, hl, Option.map_some]
      exact ⟨_, rfl⟩
  | keyedSingleton m r last =>
    obtain ⟨⟨o, m', l', nt, d'⟩, hl⟩ := aux_keyedSingLoop_total m (nonemptyKeyCount m) force last d hwf
    exact ⟨_, by simp only [Hook.auto, hl, Option.map_some]; rfl⟩
  | tlOrder q r =>
    simp only [Hook.auto]
    unfold tlOrderAuto
    split
    · simp only [Option.map_some]; exact ⟨_, rfl⟩
    · rename_i hq
      rcases hsd : d.boolIf (!force) with ⟨skip, d1⟩
      simp only
      split
      · simp only [Option.map_some]; exact ⟨_, rfl⟩
      · have hlen : 0 < q.length := by
          cases q with
          | nil => simp at hq
          | cons _ _ => simp
        obtain ⟨idx, d2, hidx⟩ := aux_natEx_some d1 hlen
        have hr := aux_natEx_range hidx
        obtain ⟨x, hx⟩ := aux_getElem?_some q hr.2
        simp only [hidx, hx, Option.map_some]
        exact ⟨_, rfl⟩
  | tlFold q r =>
    simp only [Hook.auto]
    unfold tlFoldAuto
    split
    · rename_i hq
      have hnf : force = false := by
        cases force with
        | false => rfl
        | true => have := hf rfl; simp [Hook.canNT, hq] at this
      simp only [hnf, Bool.false_eq_true, ↓reduceIte, Option.map_some]
      exact ⟨_, rfl⟩
    · rcases hfs : foldSelect q [] [] d with ⟨sel, rem, d1⟩
      simp only
      obtain ⟨⟨sel', d2⟩, hfy⟩ := aux_fisherYates_total (sel.length - 1) sel d1
      simp only [hfy, Option.map_some]
      exact ⟨_, rfl⟩
  | tlKeyedOrder m r =>
    simp only [Hook.auto]
    unfold tlKeyedOrderAuto
    simp only
    split
    · simp only [Option.map_some]; exact ⟨_, rfl⟩
    · rename_i hks
      rcases hsd : d.boolIf (!force) with ⟨skip, d1⟩
      simp only
      split
      · simp only [Option.map_some]; exact ⟨_, rfl⟩
      · have hlen : 0 < (nonemptyKeys m).length := by
          cases hk : nonemptyKeys m with
          | nil => simp [hk] at hks
          | cons _ _ => simp
        obtain ⟨ki, d2, hki⟩ := aux_natEx_some d1 hlen
        have hr := aux_natEx_range hki
        obtain ⟨⟨key, qlen⟩, hx⟩ := aux_getElem?_some (nonemptyKeys m) hr.2
        obtain ⟨q, hmem, hql, hpos⟩ := aux_nonemptyKeys_mem hx
        obtain ⟨ii, d3, hii⟩ := aux_natEx_some d2 hpos
        have hr2 := aux_natEx_range hii
        obtain ⟨⟨item, m'⟩, hrem⟩ := aux_removeAt_some m key q ii hwf hmem (by omega)
        simp only [hki, hx, hii, hrem, Option.map_some]
        exact ⟨_, rfl⟩
  | tlPartial m r =>
    simp only [Hook.auto]
    unfold tlPartialAuto
    simp only
    split
    · simp only [Option.map_some]; exact ⟨_, rfl⟩
    · rename_i hks
      rcases hsd : d.boolIf (!force) with ⟨skip, d1⟩
      simp only
      split
      · simp only [Option.map_some]; exact ⟨_, rfl⟩
      · have hlen : 0 < (nonemptyKeys m).length := by
          cases hk : nonemptyKeys m with
          | nil => simp [hk] at hks
          | cons _ _ => simp
        obtain ⟨ki, d2, hki⟩ := aux_natEx_some d1 hlen
        have hr := aux_natEx_range hki
        obtain ⟨⟨key, qlen⟩, hx⟩ := aux_getElem?_some (nonemptyKeys m) hr.2
        obtain ⟨q, hmem, hql, hpos⟩ := aux_nonemptyKeys_mem hx
        obtain ⟨⟨item, m'⟩, hrem⟩ := aux_removeAt_some m key q 0 hwf hmem (by omega)
        simp only [hki, hx, hrem, Option.map_some]
        exact ⟨_, rfl⟩
  | tlMerge q1 q2 r =>
    simp only [Hook.auto]
    unfold tlMergeAuto
    split
    · simp only [Option.map_some]; exact ⟨_, rfl⟩
    · rename_i hq
      rcases hsd : d.boolIf (!force) with ⟨skip, d1⟩
      simp only
      split
      · simp only [Option.map_some]; exact ⟨_, rfl⟩
      · split
        · simp at hq
        · simp only [Option.map_some]; exact ⟨_, rfl⟩
        · simp only [Option.map_some]; exact ⟨_, rfl⟩
        · rcases d1.bool with ⟨ts, d2⟩
          simp only
          split <;> (simp only [Option.map_some]; exact ⟨_, rfl⟩)
  | tlKeyedMerge m1 m2 r =>
    simp only [Hook.auto]
    unfold tlKeyedMergeAuto
    simp only
    split
    · simp only [Option.map_some]; exact ⟨_, rfl⟩
    · rename_i hks
      rcases hsd : d.boolIf (!force) with ⟨skip, d1⟩
      simp only
      split
      · simp only [Option.map_some]; exact ⟨_, rfl⟩
      · have hlen : 0 < (candidates m1 m2).length := by
          cases hk : candidates m1 m2 with
          | nil => simp [hk] at hks
          | cons _ _ => simp
        obtain ⟨ki, d2, hki⟩ := aux_natEx_some d1 hlen
        have hr := aux_natEx_range hki
        obtain ⟨⟨b, key⟩, hx⟩ := aux_getElem?_some (candidates m1 m2) hr.2
        obtain ⟨q, hmem, hpos⟩ := aux_candidates_mem hx
        simp only [hki, hx]
        cases b with
        | true =>
          obtain ⟨⟨item, m'⟩, hrem⟩ := aux_removeAt_some m2 key q 0 hwf.2 (by simpa using hmem) hpos
          simp only [↓reduceIte, hrem, Option.map_some]
          exact ⟨_, rfl⟩
        | false =>
          obtain ⟨⟨item, m'⟩, hrem⟩ := aux_removeAt_some m1 key q 0 hwf.1 (by simpa using hmem) hpos
          simp only [Bool.false_eq_true, ↓reduceIte, hrem, Option.map_some]
          exact ⟨_, rfl⟩

/-- `release_decision` does not panic once a decision is recorded -/
theorem aux_release_some (h : Hook κ α) (hc : h.cur.isSome = true) : ∃ r, h.release = some r := by
  cases h <;> simp only [Hook.cur, relNonempty, Option.isSome_map] at hc <;>
    (obtain ⟨v, hv⟩ := Option.isSome_iff_exists.mp hc) <;>
    simp [Hook.release, singletonRelease, hv]

theorem aux_pass1_total [DecidableEq κ] : ∀ (hs : List (Hook κ α)) (made : Bool) (rem : Nat) (d : Drv),
    (∀ h ∈ hs, h.cur = none ∧ h.WF ∧ h.ready = true) →
    ∃ hs1 made1 rem1 d1, runPass1 hs made rem d = some (hs1, made1, rem1, d1) ∧
      ∀ h ∈ hs1, h.cur = none → h.WF ∧ h.ready = true := by
  intro hs
  induction hs with
  | nil => intro made rem d _; exact ⟨[], made, rem, d, rfl, by simp⟩
  | cons h rest ih =>
    intro made rem d hall
    obtain ⟨hc, hwf, hready⟩ := hall h (List.mem_cons_self ..)
    have hall' : ∀ x ∈ rest, x.cur = none ∧ x.WF ∧ x.ready = true := fun x hx => hall x (List.mem_cons_of_mem _ hx)
    unfold runPass1
    simp only [hc]
    cases hcan : h.canNT with
    | false =>
      obtain ⟨⟨nt, h', d2⟩, ha⟩ := hook_auto_total h d false hwf hready (by simp)
      obtain ⟨hs1, made1, rem1, d1, hrec, hinv⟩ := ih made (rem - 1) d2 hall'
      simp only [Bool.not_false, ↓reduceIte, ha, hrec]
      refine ⟨_, _, _, _, rfl, ?_⟩
      intro x hx hxc
      simp only [List.mem_cons] at hx
      rcases hx with rfl | hx
      · have := aux_auto_cur h ha; simp [hxc] at this
      · exact hinv x hx hxc
    | true =>
      obtain ⟨hs1, made1, rem1, d1, hrec, hinv⟩ := ih made rem d hall'
      simp only [Bool.not_true, Bool.false_eq_true, ↓reduceIte, hrec]
      refine ⟨_, _, _, _, rfl, ?_⟩
      intro x hx hxc
      simp only [List.mem_cons] at hx
      rcases hx with rfl | hx
      · exact ⟨hwf, hready⟩
      · exact hinv x hx hxc

theorem aux_pass2_total [DecidableEq κ] : ∀ (hs : List (Hook κ α)) (made : Bool) (rem : Nat) (d : Drv),
    QInv hs → (∀ h ∈ hs, h.cur = none → h.WF ∧ h.ready = true) → rem = undecided hs →
    ∃ r, runPass2 hs made rem d = some r := by
  intro hs
  induction hs with
  | nil => intro made rem d _ _ _; exact ⟨_, rfl⟩
  | cons h rest ih =>
    intro made rem d hq hinv hrem
    have hqrest : QInv rest := fun x hx => hq x (List.mem_cons_of_mem _ hx)
    have hinv' : ∀ x ∈ rest, x.cur = none → x.WF ∧ x.ready = true := fun x hx => hinv x (List.mem_cons_of_mem _ hx)
    unfold runPass2
    cases hc : h.cur with
    | some b =>
      have hu : undecided (h :: rest) = undecided rest := by simp [undecided, hc]
      obtain ⟨⟨h2, out⟩, hrel⟩ := aux_release_some h (by simp [hc])
      obtain ⟨⟨hs', outs, made', d'⟩, hrec⟩ := ih made rem d hqrest hinv' (by rw [hrem, hu])
      simp only [hrel, hrec]
      exact ⟨_, rfl⟩
    | none =>
      have hcan := hq h (List.mem_cons_self ..) hc
      obtain ⟨hwf, hready⟩ := hinv h (List.mem_cons_self ..) hc
      have hu : undecided (h :: rest) = undecided rest + 1 := by simp [undecided, hc, hcan]
      obtain ⟨⟨nt, h1, d1⟩, ha⟩ := hook_auto_total h d (!made && rem == 1) hwf hready (fun _ => hcan)
      have hne : (rem == 0) = false := by rw [hrem, hu]; simp
      obtain ⟨⟨h2, out⟩, hrel⟩ := aux_release_some h1 (aux_auto_cur h ha)
      obtain ⟨⟨hs', outs, made', d'⟩, hrec⟩ := ih (made || nt) (rem - 1) d1 hqrest hinv' (by rw [hrem, hu]; simp)
      simp only [ha, hne, Bool.false_eq_true, ↓reduceIte, hrel, hrec]
      exact ⟨_, rfl⟩

/-- **F36 fixed.**  Every tick the scheduler may run (`SimTick::can_run`: all hooks ready, some hook
able to release) whose hooks are idle and well-formed is resolved by `run_hooks` without a panic, for
*every* choice tape: every hook — `PassthroughSingletonHook` with an empty buffer included, which now
re-releases its last snapshot — records and releases a decision, and at least one of the decisions
is non-trivial (a new item or a new snapshot). -/
theorem runHooks_runnable_tick_releases [DecidableEq κ] (hs : List (Hook κ α)) (d : Drv)
    (hidle : ∀ h ∈ hs, h.cur = none) (hwf : ∀ h ∈ hs, h.WF) (hcan : tickCanRun hs = true) :
    ∃ hs' outs d', runHooks hs d = some (hs', outs, true, d') := by
  have hready : ∀ h ∈ hs, h.ready = true := by
    simp only [tickCanRun, Bool.and_eq_true, List.all_eq_true] at hcan
    exact hcan.1
  obtain ⟨hs1, made1, rem1, d1, h1, hinv⟩ := aux_pass1_total hs false hs.length d
    (fun h hh => ⟨hidle h hh, hwf h hh, hready h hh⟩)
  obtain ⟨_, hq, hu, hrem⟩ := aux_pass1 hs false hs.length d hidle h1
  have hle := aux_canCount_le hs
  obtain ⟨⟨hs', outs, made, d'⟩, h2⟩ := aux_pass2_total hs1 made1 rem1 d1 hq hinv (by rw [hrem, hu]; omega)
  have hrun : runHooks hs d = some (hs', outs, made, d') := by
    simp only [runHooks, h1, h2]
  have := runHooks_some_nontrivial hidle hcan hrun
  subst this
  exact ⟨hs', outs, d', hrun⟩

/-- the F36 witness (a tick made of a batch hook with pending items and the snapshot of a top-level
commutative fold whose buffer is empty after the tick ran once): before the fix `run_hooks` panicked
for every tape; now the batch is released and the snapshot re-released unchanged -/
example : runHooks [Hook.streamTotal (κ := Nat) [20] none, .passthrough [] none (some 0)] ⟨[0], []⟩
    = some ([.streamTotal [] none, .passthrough [] none (some 0)], [[.item 20], [.item 0]], true,
        ⟨[], [.u 1 1 1]⟩) := by decide

example : tickCanRun [Hook.streamTotal (κ := Nat) [20] none, .passthrough [] none (some 0)] = true := by decide

/-- a tick is not runnable before the fold produced its first value (`is_ready`) -/
example : tickCanRun [Hook.streamTotal (κ := Nat) [20] none, .passthrough [] none none] = false := by decide


/-! ### PassthroughSingletonHook (fixed code): snapshot versions over every history -/

/-- one decision + release of a `PassthroughSingletonHook`: no driver call is made; the released
snapshot is the newest buffered one (the whole buffer is consumed) or, on an empty buffer, the last
released one again -/
theorem passthrough_release_shape [DecidableEq κ] {q : List α} {r : Option (α × Bool)} {last : Option α}
    {d d' : Drv} {force nt : Bool} {h1 h2 : Hook κ α} {out : List (Msg κ α)}
    (ha : (Hook.passthrough q r last).auto d force = some (nt, h1, d')) (hr : h1.release = some (h2, out)) :
    d' = d ∧ ∃ x, out = [.item x] ∧
      ((nt = false ∧ q = [] ∧ last = some x ∧ h2 = .passthrough [] none (some x)) ∨
       (nt = true ∧ ∃ skipped, q = skipped ++ [x] ∧ h2 = .passthrough [] none (some x))) := by
  simp only [Hook.auto, Option.map_eq_some_iff] at ha
  obtain ⟨⟨nt1, q1, x1, b1⟩, hh, heq⟩ := ha
  simp only [Prod.mk.injEq] at heq
  obtain ⟨rfl, rfl, rfl⟩ := heq
  simp only [Hook.release, Option.map_some, Option.some.injEq, Prod.mk.injEq] at hr
  obtain ⟨rfl, rfl⟩ := hr
  refine ⟨rfl, x1, rfl, ?_⟩
  unfold passthroughAuto at hh
  split at hh
  · rename_i item hl
    simp only [Option.some.injEq, Prod.mk.injEq] at hh
    obtain ⟨rfl, rfl, rfl, rfl⟩ := hh
    obtain ⟨ys, rfl⟩ := List.getLast?_eq_some_iff.mp hl
    exact Or.inr ⟨rfl, ys, rfl, rfl⟩
  · rename_i hl
    have hq : q = [] := by simpa [List.getLast?_eq_none_iff] using hl
    subst hq
    split at hh
    · simp at hh
    · split at hh
      · simp only [Option.some.injEq, Prod.mk.injEq] at hh
        obtain ⟨rfl, rfl, rfl, rfl⟩ := hh
        exact Or.inl ⟨rfl, rfl, rfl, rfl⟩
      · simp at hh

/-- a history of a passthrough hook's buffer: the fold pushes successive accumulator values, the
scheduler decides and releases (`SingSt` is reused for (buffer, last_released)) -/
def pStep (h : SHist β) : SOp β → Option (SHist β)
  | .push b => some { h with st := { h.st with q := h.st.q ++ [(h.next, b)] }, next := h.next + 1 }
  | .decide tape force =>
    match (Hook.passthrough (κ := Unit) h.st.q none h.st.last).auto ⟨tape, []⟩ force with
    | none => none
    | some (_, h1, _) =>
      match h1.release with
      | some (.passthrough q' _ last', [.item x]) =>
        some { h with st := { q := q', last := last' }, released := h.released ++ [x] }
      | _ => none

def pRun (h : SHist β) : List (SOp β) → SHist β
  | [] => h
  | op :: ops => match pStep h op with
    | none => h
    | some h' => pRun h' ops

theorem aux_pStep_inv {h h' : SHist β} {op : SOp β} (hi : SHistInv h) (hs : pStep h op = some h') :
    SHistInv h' := by
  cases op with
  | push b => exact aux_sStep_inv (op := .push b) hi hs
  | decide tape force =>
    simp only [pStep] at hs
    split at hs
    · simp at hs
    · rename_i nt h1 d1 hauto
      split at hs
      · rename_i q' r' last' x hrel
        simp only [Option.some.injEq] at hs
        subst hs
        obtain ⟨_, y, hy, hshape⟩ := passthrough_release_shape hauto hrel
        simp only [List.cons.injEq, Msg.item.injEq, and_true] at hy
        subst hy
        rcases hshape with ⟨_, hq, hl, heq⟩ | ⟨_, skipped, hq, heq⟩
        · simp only [Hook.passthrough.injEq] at heq
          obtain ⟨rfl, _, rfl⟩ := heq
          exact aux_release_inv hi rfl (Or.inl ⟨hl, hq.symm⟩)
        · simp only [Hook.passthrough.injEq] at heq
          obtain ⟨rfl, _, rfl⟩ := heq
          exact aux_release_inv hi rfl (Or.inr ⟨skipped, hq⟩)
      · simp at hs

theorem aux_pRun_inv (ops : List (SOp β)) : ∀ (h : SHist β), SHistInv h → SHistInv (pRun h ops) := by
  induction ops with
  | nil => intro h hi; exact hi
  | cons op ops ih =>
    intro h hi
    simp only [pRun]
    split
    · exact hi
    · rename_i h' hs; exact ih h' (aux_pStep_inv hi hs)

/-- over every history of pushes and decisions, the versions of the snapshots a (fixed)
`PassthroughSingletonHook` releases never decrease — re-releases of the unchanged snapshot included -/
theorem passthrough_snapshot_version_monotone (ops : List (SOp β)) :
    ((pRun ({} : SHist β) ops).released.map Prod.fst).Pairwise (· ≤ ·) :=
  (aux_pRun_inv ops {} (by simp [SHistInv])).2.2.2.1

example : (pRun ({} : SHist String) [.push "a", .push "b", .decide [] false, .decide [] false,
    .push "c", .decide [] true]).released = [(1, "b"), (1, "b"), (2, "c")] := by decide

/-! ### what `run_hooks` does to each hook of the list is one decision + release of that hook -/

/-- `h'`, `out` are the state and the output of hook `h` after one `autonomous_decision` (for some
driver state and forcing flag) followed by `release_decision` -/
def HookStep [DecidableEq κ] (h h' : Hook κ α) (out : List (Msg κ α)) : Prop :=
  ∃ d f nt h1 d', h.auto d f = some (nt, h1, d') ∧ h1.release = some (h', out)

inductive Steps [DecidableEq κ] : List (Hook κ α) → List (Hook κ α) → List (List (Msg κ α)) → Prop
  | nil : Steps [] [] []
  | cons {h h' out hs hs' outs} : HookStep h h' out → Steps hs hs' outs →
      Steps (h :: hs) (h' :: hs') (out :: outs)

/-- first pass: a hook is left alone or has taken its (unforced) decision -/
inductive Pass1Rel [DecidableEq κ] : List (Hook κ α) → List (Hook κ α) → Prop
  | nil : Pass1Rel [] []
  | same {h hs hs1} : h.cur = none → Pass1Rel hs hs1 → Pass1Rel (h :: hs) (h :: hs1)
  | decided {h h1 hs hs1} {d d' : Drv} {nt : Bool} : h.auto d false = some (nt, h1, d') →
      Pass1Rel hs hs1 → Pass1Rel (h :: hs) (h1 :: hs1)

theorem aux_pass1_rel [DecidableEq κ] : ∀ (hs : List (Hook κ α)) (made : Bool) (rem : Nat) (d : Drv)
    {hs1 : List (Hook κ α)} {made1 : Bool} {rem1 : Nat} {d1 : Drv},
    (∀ h ∈ hs, h.cur = none) → runPass1 hs made rem d = some (hs1, made1, rem1, d1) → Pass1Rel hs hs1 := by
  intro hs
  induction hs with
  | nil =>
    intro made rem d hs1 made1 rem1 d1 _ h
    simp only [runPass1, Option.some.injEq, Prod.mk.injEq] at h
    obtain ⟨rfl, _⟩ := h
    exact .nil
  | cons h rest ih =>
    intro made rem d hs1 made1 rem1 d1 hidle hrun
    have hc : h.cur = none := hidle h (List.mem_cons_self ..)
    have hidle' : ∀ x ∈ rest, x.cur = none := fun x hx => hidle x (List.mem_cons_of_mem _ hx)
    unfold runPass1 at hrun
    simp only [hc] at hrun
    split at hrun
    · split at hrun
      · simp at hrun
      · rename_i nt h' d2 ha
        split at hrun
        · simp at hrun
        · rename_i hrec
          simp only [Option.some.injEq, Prod.mk.injEq] at hrun
          obtain ⟨rfl, _⟩ := hrun
          exact .decided ha (ih _ _ _ hidle' hrec)
    · split at hrun
      · simp at hrun
      · rename_i hrec
        simp only [Option.some.injEq, Prod.mk.injEq] at hrun
        obtain ⟨rfl, _⟩ := hrun
        exact .same hc (ih _ _ _ hidle' hrec)

theorem aux_pass2_steps [DecidableEq κ] : ∀ (hs hs1 : List (Hook κ α)) (made : Bool) (rem : Nat) (d : Drv)
    {hs' : List (Hook κ α)} {outs : List (List (Msg κ α))} {made' : Bool} {d' : Drv},
    Pass1Rel hs hs1 → runPass2 hs1 made rem d = some (hs', outs, made', d') → Steps hs hs' outs := by
  intro hs hs1 made rem d hs' outs made' d' hrel
  induction hrel generalizing made rem d hs' outs made' d' with
  | nil =>
    intro h
    simp only [runPass2, Option.some.injEq, Prod.mk.injEq] at h
    obtain ⟨rfl, rfl, _⟩ := h
    exact .nil
  | @same h hs hs1 hc _ ih =>
    intro hrun
    unfold runPass2 at hrun
    simp only [hc] at hrun
    cases ha : h.auto d (!made && rem == 1) with
    | none => simp [ha] at hrun
    | some res =>
      obtain ⟨nt, h1, d1⟩ := res
      simp only [ha] at hrun
      split at hrun
      · simp at hrun
      · rename_i hstep
        split at hstep
        · simp at hstep
        · simp only [Option.some.injEq, Prod.mk.injEq] at hstep
          obtain ⟨rfl, rfl, rfl, rfl⟩ := hstep
          split at hrun
          · simp at hrun
          · rename_i h2 out hrl
            split at hrun
            · simp at hrun
            · rename_i hrec
              simp only [Option.some.injEq, Prod.mk.injEq] at hrun
              obtain ⟨rfl, rfl, _⟩ := hrun
              exact .cons ⟨d, _, nt, h1, d1, ha, hrl⟩ (ih _ _ _ hrec)
  | @decided h h1 hs hs1 d0 d0' nt0 ha0 _ ih =>
    intro hrun
    have hsome := aux_auto_cur h ha0
    obtain ⟨b, hb⟩ := Option.isSome_iff_exists.mp hsome
    unfold runPass2 at hrun
    simp only [hb] at hrun
    split at hrun
    · simp at hrun
    · rename_i h2 out hrl
      split at hrun
      · simp at hrun
      · rename_i hrec
        simp only [Option.some.injEq, Prod.mk.injEq] at hrun
        obtain ⟨rfl, rfl, _⟩ := hrun
        exact .cons ⟨d0, false, nt0, h1, d0', ha0, hrl⟩ (ih _ _ _ hrec)

/-- Whatever `run_hooks` does on an idle hook list, it does hook by hook: the final state and the
output of the `i`-th hook are those of one `autonomous_decision` + `release_decision` of that hook.
Every per-hook theorem of this file (prefix / sub-multiset / per key / permutation / snapshot shape)
therefore applies to each component of `run_hooks`' result. -/
theorem runHooks_is_hookwise [DecidableEq κ] {hs hs' : List (Hook κ α)} {d d' : Drv}
    {outs : List (List (Msg κ α))} {made : Bool}
    (hidle : ∀ h ∈ hs, h.cur = none) (hrun : runHooks hs d = some (hs', outs, made, d')) :
    Steps hs hs' outs := by
  unfold runHooks at hrun
  split at hrun
  · simp at hrun
  · rename_i hs1 made1 rem1 d1 h1
    exact aux_pass2_steps hs hs1 made1 rem1 d1 (aux_pass1_rel hs false hs.length d hidle h1) hrun

/-- … in particular nothing is lost and nothing is released twice by a whole tick: for every
stream-releasing hook of the tick, output ++ still-pending is a permutation of what was pending -/
theorem runHooks_nothing_lost_nothing_twice [DecidableEq κ] [DecidableEq α] {hs hs' : List (Hook κ α)}
    {outs : List (List (Msg κ α))} (hst : Steps hs hs' outs) :
    ∀ (i : Nat) (h : Hook κ α) (h' : Hook κ α) (out : List (Msg κ α)),
      hs[i]? = some h → hs'[i]? = some h' → outs[i]? = some out → h.streamLike = true →
      (msgItems out ++ h'.pending).Perm h.pending := by
  induction hst with
  | nil => intro i h h' out hh; simp at hh
  | @cons h0 h0' out0 hs hs' outs hstep _ ih =>
    intro i h h' out hh hh' ho hsl
    cases i with
    | zero =>
      simp only [List.getElem?_cons_zero, Option.some.injEq] at hh hh' ho
      subst hh; subst hh'; subst ho
      obtain ⟨d, f, nt, h1, d', ha, hr⟩ := hstep
      exact released_plus_remaining_perm _ hsl ha hr
    | succ j =>
      simp only [List.getElem?_cons_succ] at hh hh' ho
      exact ih j h h' out hh hh' ho hsl


/-! ### the soundness clause, stated on `run_hooks` itself -/

/-- what C36 demands of one hook of a tick, by hook kind: `h` before `run_hooks`, `h'` after, `out`
what was sent into the tick — an in-order prefix (ordered input), complementary in-order
sub-multisets (unordered input), the same per key (keyed inputs), one snapshot that is the last
released one again or a buffered one with everything older dropped (singletons, per key for keyed
singletons).  The `TopLevel*` hooks never belong to a tick. -/
def HookSound [DecidableEq κ] : Hook κ α → Hook κ α → List (Msg κ α) → Prop
  | .streamTotal q _, h', out =>
      ∃ r q', h' = .streamTotal q' none ∧ out = r.map .item ∧ r ++ q' = q
  | .streamNo q _, h', out =>
      ∃ r q', h' = .streamNo q' none ∧ out = r.map .item ∧ Split q r q'
  | .keyedTotal m _, h', out =>
      ∃ rel m', h' = .keyedTotal m' none ∧ out = rel.map (fun e => .kv e.1 e.2) ∧ KeyedRel PrefixP m rel m'
  | .keyedNo m _, h', out =>
      ∃ rel m', h' = .keyedNo m' none ∧ out = rel.map (fun e => .kv e.1 e.2) ∧ KeyedRel Split m rel m'
  | .singleton s, h', out =>
      ∃ s2 x, h' = .singleton s2 ∧ out = [.item x] ∧ s2.last = some x ∧
        ((s.last = some x ∧ s2.q = s.q) ∨ ∃ skipped, s.q = skipped ++ x :: s2.q)
  | .passthrough q _ last, h', out =>
      ∃ x, h' = .passthrough [] none (some x) ∧ out = [.item x] ∧
        ((q = [] ∧ last = some x) ∨ ∃ skipped, q = skipped ++ [x])
  | .keyedSingleton m _ last, h', out =>
      ∃ rel m' last', h' = .keyedSingleton m' none last' ∧ out = rel.map (fun e => .kv e.1 e.2.1) ∧
        KSnapRel last m rel m' last'
  | _, _, _ => True

theorem hookStep_sound [DecidableEq κ] {h h' : Hook κ α} {out : List (Msg κ α)} (hst : HookStep h h' out) :
    HookSound h h' out := by
  obtain ⟨d, f, nt, h1, d', ha, hr⟩ := hst
  cases h with
  | streamTotal q r =>
    simp only [Hook.auto, Option.map_eq_some_iff] at ha
    obtain ⟨⟨r1, q1, nt1, d1⟩, hh, heq⟩ := ha
    simp only [Prod.mk.injEq] at heq; obtain ⟨_, rfl, _⟩ := heq
    simp only [Hook.release, Option.map_some, Option.some.injEq, Prod.mk.injEq] at hr
    obtain ⟨rfl, rfl⟩ := hr
    exact ⟨r1, q1, rfl, rfl, (streamTotal_released_is_prefix hh).1⟩
  | streamNo q r =>
    simp only [Hook.auto, Option.map_eq_some_iff] at ha
    obtain ⟨⟨r1, q1, nt1, d1⟩, hh, heq⟩ := ha
    simp only [Prod.mk.injEq] at heq; obtain ⟨_, rfl, _⟩ := heq
    simp only [Hook.release, Option.map_some, Option.some.injEq, Prod.mk.injEq] at hr
    obtain ⟨rfl, rfl⟩ := hr
    exact ⟨r1, q1, rfl, rfl, (streamNo_released_is_sublist hh).1⟩
  | keyedTotal m r =>
    simp only [Hook.auto, Option.map_eq_some_iff] at ha
    obtain ⟨⟨r1, m1, nt1, d1⟩, hh, heq⟩ := ha
    simp only [Prod.mk.injEq] at heq; obtain ⟨_, rfl, _⟩ := heq
    simp only [Hook.release, Option.map_some, Option.some.injEq, Prod.mk.injEq] at hr
    obtain ⟨rfl, rfl⟩ := hr
    exact ⟨r1, m1, rfl, rfl, (keyedTotal_released_is_prefix_per_key hh).1⟩
  | keyedNo m r =>
    simp only [Hook.auto, Option.map_eq_some_iff] at ha
    obtain ⟨⟨r1, m1, nt1, d1⟩, hh, heq⟩ := ha
    simp only [Prod.mk.injEq] at heq; obtain ⟨_, rfl, _⟩ := heq
    simp only [Hook.release, Option.map_some, Option.some.injEq, Prod.mk.injEq] at hr
    obtain ⟨rfl, rfl⟩ := hr
    exact ⟨r1, m1, rfl, rfl, (keyedNo_released_is_sublist_per_key hh).1⟩
  | singleton s =>
    simp only [Hook.auto, Option.map_eq_some_iff] at ha
    obtain ⟨⟨nt1, s1, d1⟩, hh, heq⟩ := ha
    simp only [Prod.mk.injEq] at heq; obtain ⟨_, rfl, _⟩ := heq
    simp only [Hook.release, Option.map_eq_some_iff] at hr
    obtain ⟨⟨s2, x⟩, hrel, hy⟩ := hr
    simp only [Prod.mk.injEq] at hy; obtain ⟨rfl, rfl⟩ := hy
    obtain ⟨hlast, _, hshape, _⟩ := singleton_release_shape hh hrel
    refine ⟨s2, x, rfl, rfl, hlast, ?_⟩
    rcases hshape with ⟨_, a, b⟩ | ⟨_, c⟩
    · exact Or.inl ⟨a, b⟩
    · exact Or.inr c
  | passthrough q r last =>
    obtain ⟨_, x, hout, hshape⟩ := passthrough_release_shape ha hr
    rcases hshape with ⟨_, hq, hl, heq⟩ | ⟨_, skipped, hq, heq⟩
    · exact ⟨x, heq, hout, Or.inl ⟨hq, hl⟩⟩
    · exact ⟨x, heq, hout, Or.inr ⟨skipped, hq⟩⟩
  | keyedSingleton m r last =>
    simp only [Hook.auto, Option.map_eq_some_iff] at ha
    obtain ⟨⟨r1, m1, l1, nt1, d1⟩, hh, heq⟩ := ha
    simp only [Prod.mk.injEq] at heq; obtain ⟨_, rfl, _⟩ := heq
    simp only [Hook.release, Option.map_some, Option.some.injEq, Prod.mk.injEq] at hr
    obtain ⟨rfl, rfl⟩ := hr
    exact ⟨r1, m1, l1, rfl, rfl, (keyedSingleton_release_shape _ _ _ _ _ hh).1⟩
  | tlOrder _ _ => trivial
  | tlFold _ _ => trivial
  | tlKeyedOrder _ _ => trivial
  | tlPartial _ _ => trivial
  | tlMerge _ _ _ => trivial
  | tlKeyedMerge _ _ _ => trivial

/-- **C36 on `run_hooks`.**  Whatever `run_hooks` does to the idle hooks of a tick, for every tape:
each hook's output and new state satisfy the soundness clause of its kind (`HookSound`) — prefixes
for ordered inputs, sub-multisets for unordered ones, per key for keyed inputs, snapshots that are the
last one again or a newer buffered one. -/
theorem runHooks_tick_decisions_sound [DecidableEq κ] {hs hs' : List (Hook κ α)} {d d' : Drv}
    {outs : List (List (Msg κ α))} {made : Bool}
    (hidle : ∀ h ∈ hs, h.cur = none) (hrun : runHooks hs d = some (hs', outs, made, d')) :
    ∀ (i : Nat) (h h' : Hook κ α) (out : List (Msg κ α)),
      hs[i]? = some h → hs'[i]? = some h' → outs[i]? = some out → HookSound h h' out := by
  have hst := runHooks_is_hookwise hidle hrun
  clear hrun hidle
  induction hst with
  | nil => intro i h h' out hh; simp at hh
  | @cons h0 h0' out0 hs hs' outs hstep _ ih =>
    intro i h h' out hh hh' ho
    cases i with
    | zero =>
      simp only [List.getElem?_cons_zero, Option.some.injEq] at hh hh' ho
      subst hh; subst hh'; subst ho
      exact hookStep_sound hstep
    | succ j =>
      simp only [List.getElem?_cons_succ] at hh hh' ho
      exact ih j h h' out hh hh' ho


/-! ### `Hook.WF` is an invariant of decisions (so the no-panic theorem applies tick after tick) -/

theorem aux_kSnapRel_last_mono [DecidableEq κ] {last last' : List (κ × α)} {m m' : KMap κ α}
    {rel : List (κ × α × Bool)} (h : KSnapRel last m rel m' last') :
    ∀ k, (lookup k last).isSome = true → (lookup k last').isSome = true := by
  induction h with
  | nil => intro k hk; exact hk
  | unchanged _ _ ih => exact ih
  | withheld _ _ _ ih => exact ih
  | fresh _ ih => intro k hk; exact ih k (aux_lookup_insertKV_isSome _ _ _ _ hk)

theorem aux_kSnapRel_wf [DecidableEq κ] {last last' : List (κ × α)} {m m' : KMap κ α}
    {rel : List (κ × α × Bool)} (h : KSnapRel last m rel m' last')
    (hwf : ∀ e ∈ m, e.2 = [] → (lookup e.1 last).isSome = true) :
    ∀ e ∈ m', e.2 = [] → (lookup e.1 last').isSome = true := by
  induction h with
  | nil => intro e he; simp at he
  | @unchanged last k q l m0 rel0 m0' last0' hl hrest ih =>
    intro e he hq
    simp only [List.mem_cons] at he
    rcases he with rfl | he
    · exact aux_kSnapRel_last_mono hrest k (by simp [hl])
    · exact ih (fun e he => hwf e (List.mem_cons_of_mem _ he)) e he hq
  | @withheld last k q m0 rel0 m0' last0' hl hne hrest ih =>
    intro e he hq
    simp only [List.mem_cons] at he
    rcases he with rfl | he
    · exact absurd hq hne
    · exact ih (fun e he => hwf e (List.mem_cons_of_mem _ he)) e he hq
  | @fresh last k skipped x q' m0 rel0 m0' last0' hrest ih =>
    intro e he hq
    simp only [List.mem_cons] at he
    rcases he with rfl | he
    · exact aux_kSnapRel_last_mono hrest k (by simp [aux_lookup_insertKV_self])
    · exact ih (fun e he he2 => aux_lookup_insertKV_isSome _ _ _ _ (hwf e (List.mem_cons_of_mem _ he) he2)) e he hq

theorem aux_removeAt_keys [DecidableEq κ] : ∀ (m : KMap κ α) (k : κ) (idx : Nat) {item : α} {m' : KMap κ α},
    removeAt k idx m = some (item, m') → m'.map Prod.fst = m.map Prod.fst := by
  intro m
  induction m with
  | nil => intro k idx item m' h; simp [removeAt] at h
  | cons e rest ih =>
    obtain ⟨k0, q⟩ := e
    intro k idx item m' h
    unfold removeAt at h
    split at h
    · split at h
      · simp at h
      · simp only [Option.some.injEq, Prod.mk.injEq] at h
        obtain ⟨_, rfl⟩ := h
        simp
    · split at h
      · simp at h
      · rename_i it r' hrec
        simp only [Option.some.injEq, Prod.mk.injEq] at h
        obtain ⟨_, rfl⟩ := h
        simp [ih k idx hrec]

/-- a decision followed by its release keeps a hook well-formed -/
theorem hook_wf_preserved [DecidableEq κ] (h : Hook κ α) {d d' : Drv} {force nt : Bool} {h1 h2 : Hook κ α}
    {out : List (Msg κ α)} (hwf : h.WF) (ha : h.auto d force = some (nt, h1, d'))
    (hr : h1.release = some (h2, out)) : h2.WF := by
  cases h with
  | keyedSingleton m r last =>
    simp only [Hook.auto, Option.map_eq_some_iff] at ha
    obtain ⟨⟨r1, m1, l1, nt1, d1⟩, hh, heq⟩ := ha
    simp only [Prod.mk.injEq] at heq; obtain ⟨_, rfl, _⟩ := heq
    simp only [Hook.release, Option.map_some, Option.some.injEq, Prod.mk.injEq] at hr
    obtain ⟨rfl, _⟩ := hr
    exact aux_kSnapRel_wf (keyedSingleton_release_shape _ _ _ _ _ hh).1 hwf
  | tlKeyedOrder m r =>
    simp only [Hook.auto, Option.map_eq_some_iff] at ha
    obtain ⟨⟨r1, m1, nt1, d1⟩, hh, heq⟩ := ha
    simp only [Prod.mk.injEq] at heq; obtain ⟨_, rfl, _⟩ := heq
    simp only [Hook.release, Option.map_some, Option.some.injEq, Prod.mk.injEq] at hr
    obtain ⟨rfl, _⟩ := hr
    have hkeys : m1.map Prod.fst = m.map Prod.fst := by
      unfold tlKeyedOrderAuto at hh
      simp only at hh
      repeat' split at hh
      all_goals first
        | (simp at hh; done)
        | (simp only [Option.some.injEq, Prod.mk.injEq] at hh; obtain ⟨_, rfl, _⟩ := hh; rfl)
        | (rename_i hrem; simp only [Option.some.injEq, Prod.mk.injEq] at hh; obtain ⟨_, rfl, _⟩ := hh
           exact aux_removeAt_keys _ _ _ hrem)
    simp only [Hook.WF, hkeys]; exact hwf
  | tlPartial m r =>
    simp only [Hook.auto, Option.map_eq_some_iff] at ha
    obtain ⟨⟨r1, m1, nt1, d1⟩, hh, heq⟩ := ha
    simp only [Prod.mk.injEq] at heq; obtain ⟨_, rfl, _⟩ := heq
    simp only [Hook.release, Option.map_some, Option.some.injEq, Prod.mk.injEq] at hr
    obtain ⟨rfl, _⟩ := hr
    have hkeys : m1.map Prod.fst = m.map Prod.fst := by
      unfold tlPartialAuto at hh
      simp only at hh
      repeat' split at hh
      all_goals first
        | (simp at hh; done)
        | (simp only [Option.some.injEq, Prod.mk.injEq] at hh; obtain ⟨_, rfl, _⟩ := hh; rfl)
        | (rename_i hrem; simp only [Option.some.injEq, Prod.mk.injEq] at hh; obtain ⟨_, rfl, _⟩ := hh
           exact aux_removeAt_keys _ _ _ hrem)
    simp only [Hook.WF, hkeys]; exact hwf
  | tlKeyedMerge m1 m2 r =>
    simp only [Hook.auto, Option.map_eq_some_iff] at ha
    obtain ⟨⟨r1, ma, mb, nt1, d1⟩, hh, heq⟩ := ha
    simp only [Prod.mk.injEq] at heq; obtain ⟨_, rfl, _⟩ := heq
    simp only [Hook.release, Option.map_some, Option.some.injEq, Prod.mk.injEq] at hr
    obtain ⟨rfl, _⟩ := hr
    have hkeys : ma.map Prod.fst = m1.map Prod.fst ∧ mb.map Prod.fst = m2.map Prod.fst := by
      unfold tlKeyedMergeAuto at hh
      simp only at hh
      repeat' split at hh
      all_goals first
        | (simp at hh; done)
        | (simp only [Option.some.injEq, Prod.mk.injEq] at hh; obtain ⟨_, rfl, rfl, _⟩ := hh; exact ⟨rfl, rfl⟩)
        | (rename_i hrem; simp only [Option.some.injEq, Prod.mk.injEq] at hh; obtain ⟨_, rfl, rfl, _⟩ := hh
           exact ⟨rfl, aux_removeAt_keys _ _ _ hrem⟩)
        | (rename_i hrem; simp only [Option.some.injEq, Prod.mk.injEq] at hh; obtain ⟨_, rfl, rfl, _⟩ := hh
           exact ⟨aux_removeAt_keys _ _ _ hrem, rfl⟩)
    simp only [Hook.WF, hkeys.1, hkeys.2]; exact hwf
  | streamTotal q r =>
    simp only [Hook.auto, Option.map_eq_some_iff] at ha
    obtain ⟨x, _, heq⟩ := ha
    simp only [Prod.mk.injEq] at heq; obtain ⟨_, rfl, _⟩ := heq
    simp only [Hook.release, Option.map_some, Option.some.injEq, Prod.mk.injEq] at hr
    obtain ⟨rfl, _⟩ := hr; trivial
  | streamNo q r =>
    simp only [Hook.auto, Option.map_eq_some_iff] at ha
    obtain ⟨x, _, heq⟩ := ha
    simp only [Prod.mk.injEq] at heq; obtain ⟨_, rfl, _⟩ := heq
    simp only [Hook.release, Option.map_some, Option.some.injEq, Prod.mk.injEq] at hr
    obtain ⟨rfl, _⟩ := hr; trivial
  | keyedTotal q r =>
    simp only [Hook.auto, Option.map_eq_some_iff] at ha
    obtain ⟨x, _, heq⟩ := ha
    simp only [Prod.mk.injEq] at heq; obtain ⟨_, rfl, _⟩ := heq
    simp only [Hook.release, Option.map_some, Option.some.injEq, Prod.mk.injEq] at hr
    obtain ⟨rfl, _⟩ := hr; trivial
  | keyedNo q r =>
    simp only [Hook.auto, Option.map_eq_some_iff] at ha
    obtain ⟨x, _, heq⟩ := ha
    simp only [Prod.mk.injEq] at heq; obtain ⟨_, rfl, _⟩ := heq
    simp only [Hook.release, Option.map_some, Option.some.injEq, Prod.mk.injEq] at hr
    obtain ⟨rfl, _⟩ := hr; trivial
  | singleton s =>
    simp only [Hook.auto, Option.map_eq_some_iff] at ha
    obtain ⟨x, _, heq⟩ := ha
    simp only [Prod.mk.injEq] at heq; obtain ⟨_, rfl, _⟩ := heq
    simp only [Hook.release, Option.map_eq_some_iff] at hr
    obtain ⟨y, _, hy⟩ := hr
    simp only [Prod.mk.injEq] at hy; obtain ⟨rfl, _⟩ := hy; trivial
  | passthrough q r l =>
    simp only [Hook.auto, Option.map_eq_some_iff] at ha
    obtain ⟨x, _, heq⟩ := ha
    simp only [Prod.mk.injEq] at heq; obtain ⟨_, rfl, _⟩ := heq
    simp only [Hook.release, Option.map_some, Option.some.injEq, Prod.mk.injEq] at hr
    obtain ⟨rfl, _⟩ := hr; trivial
  | tlOrder q r =>
    simp only [Hook.auto, Option.map_eq_some_iff] at ha
    obtain ⟨x, _, heq⟩ := ha
    simp only [Prod.mk.injEq] at heq; obtain ⟨_, rfl, _⟩ := heq
    simp only [Hook.release, Option.map_some, Option.some.injEq, Prod.mk.injEq] at hr
    obtain ⟨rfl, _⟩ := hr; trivial
  | tlFold q r =>
    simp only [Hook.auto, Option.map_eq_some_iff] at ha
    obtain ⟨x, _, heq⟩ := ha
    simp only [Prod.mk.injEq] at heq; obtain ⟨_, rfl, _⟩ := heq
    simp only [Hook.release, Option.map_some, Option.some.injEq, Prod.mk.injEq] at hr
    obtain ⟨rfl, _⟩ := hr; trivial
  | tlMerge q1 q2 r =>
    simp only [Hook.auto, Option.map_eq_some_iff] at ha
    obtain ⟨x, _, heq⟩ := ha
    simp only [Prod.mk.injEq] at heq; obtain ⟨_, rfl, _⟩ := heq
    simp only [Hook.release, Option.map_some, Option.some.injEq, Prod.mk.injEq] at hr
    obtain ⟨rfl, _⟩ := hr; trivial

/-- … hence `run_hooks` keeps every hook of an idle, well-formed list well-formed (and, by
`runHooks_runnable_tick_releases`, the next runnable tick is again resolved without a panic) -/
theorem runHooks_preserves_wf [DecidableEq κ] {hs hs' : List (Hook κ α)} {outs : List (List (Msg κ α))}
    (hst : Steps hs hs' outs) (hwf : ∀ h ∈ hs, h.WF) : ∀ h ∈ hs', h.WF := by
  induction hst with
  | nil => intro h hh; simp at hh
  | @cons h0 h0' out0 hs hs' outs hstep _ ih =>
    intro h hh
    simp only [List.mem_cons] at hh
    rcases hh with rfl | hh
    · obtain ⟨d, f, nt, h1, d', ha, hr⟩ := hstep
      exact hook_wf_preserved h0 (hwf h0 (List.mem_cons_self ..)) ha hr
    · exact ih (fun x hx => hwf x (List.mem_cons_of_mem _ hx)) h hh


/-! ### non-vacuity: concrete instances of the hypotheses above -/

example : keyedTotalAuto [(7, [1, 2]), (9, [3])] ⟨[1, 1], []⟩ false
    = some ([(7, 1), (9, 3)], [(7, [2]), (9, [])], true, ⟨[], [.u 0 1 1, .u 0 2 1]⟩) := by decide

example : keyedNoAuto [(7, [1, 2]), (9, [3])] ⟨[0, 1, 1], []⟩ true
    = some ([(7, 2)], [(7, [1]), (9, [3])], true, ⟨[], [.b true, .u 0 1 1, .b false]⟩) := by decide

example : (Hook.tlFold (κ := Nat) [1, 2, 3] none).auto ⟨[1, 0, 1], []⟩ false
    = some (true, .tlFold [2] (some [3, 1]), ⟨[], [.u 0 1 0, .b true, .b false, .b true]⟩) := by decide

example : tickCanRun [Hook.streamTotal (κ := Nat) [1, 2] none, Hook.singleton { q := [7] }] = true := by decide

/-- a well-formed `KeyedSingletonHook` with an emptied queue: the hypotheses of
`runHooks_runnable_tick_releases` are satisfiable with every hook kind -/
example : (Hook.keyedSingleton (κ := Nat) (α := Nat) [(7, [1]), (9, [])] none [(9, 5)]).WF := by
  intro e he hq
  simp only [List.mem_cons, List.not_mem_nil, or_false] at he
  rcases he with rfl | rfl
  · simp at hq
  · simp [lookup]

example : tickCanRun [Hook.keyedSingleton (κ := Nat) (α := Nat) [(7, [1]), (9, [])] none [(9, 5)],
    .passthrough [] none (some 3)] = true := by decide

end HvSim
