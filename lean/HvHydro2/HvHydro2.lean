import HvHydro2.Model.Ops
import HvHydro2.Gen.C32Sites
import HvHydro2.Props.C32
