/-
Shared helper lemmas about the association-list model of keyed state (`upsert` / `lookup` / `group`).
Used by Props/C32.lean and Props/C33.lean.
-/
import HvHydro2.Model.Ops

set_option linter.unusedSectionVars false
set_option linter.unusedSimpArgs false

namespace HvHydro2
open List

section keyedLemmas
variable {κ : Type} [BEq κ] [LawfulBEq κ]

theorem aux_lookup_upsert {β : Type} (m : List (κ × β)) (k k' : κ) (g : Option β → β) :
    lookup (upsert m k g) k' = if k == k' then some (g (lookup m k)) else lookup m k' := by
  induction m with
  | nil =>
    by_cases h : k == k' <;> simp [upsert, lookup, h]
  | cons e rest ih =>
    obtain ⟨k0, b⟩ := e
    by_cases h0 : k0 == k
    · have e0 : k0 = k := eq_of_beq h0
      subst e0
      by_cases h : k0 == k' <;> simp [upsert, lookup, h]
    · by_cases h : k == k'
      · have e1 : k = k' := eq_of_beq h
        subst e1
        simp [upsert, lookup, h0, ih]
      · by_cases h1 : k0 == k' <;> simp [upsert, lookup, h0, h1, ih, h]

/-- a keyed accumulation step by step: `g v old` is the new accumulator of the key of `(k, v)` -/
def foldUp {α β : Type} (g : α → Option β → β) (l : List (κ × α)) (m : List (κ × β)) : List (κ × β) :=
  l.foldl (fun m kv => upsert m kv.1 (g kv.2)) m

theorem aux_group_cons {α : Type} (k k0 : κ) (v : α) (l : List (κ × α)) :
    group k ((k0, v) :: l) = if k0 == k then v :: group k l else group k l := by
  by_cases h : k0 == k <;> simp [group, List.filter_cons, h]

/-- the accumulator of key `k` depends only on the subsequence of `k`'s values -/
theorem aux_foldUp_lookup {α β : Type} (g : α → Option β → β) (l : List (κ × α)) (m : List (κ × β))
    (k : κ) :
    lookup (foldUp g l m) k = (group k l).foldl (fun o v => some (g v o)) (lookup m k) := by
  induction l generalizing m with
  | nil => rfl
  | cons e rest ih =>
    obtain ⟨k0, v⟩ := e
    simp only [foldUp, List.foldl_cons] at ih ⊢
    rw [ih, aux_group_cons, aux_lookup_upsert]
    by_cases h : k0 == k
    · have e0 : k0 = k := eq_of_beq h
      subst e0; simp
    · simp [h]


/-- folding batch after batch is folding the concatenation (the keyed state is a fold) -/
theorem aux_foldUp_append {α β : Type} (g : α → Option β → β) (l l' : List (κ × α)) (m : List (κ × β)) :
    foldUp g (l ++ l') m = foldUp g l' (foldUp g l m) := by
  simp [foldUp, List.foldl_append]

theorem aux_foldUp_hist {α β : Type} (g : α → Option β → β) (hist : List (List (κ × α)))
    (m : List (κ × β)) :
    hist.foldl (fun m b => foldUp g b m) m = foldUp g hist.flatten m := by
  induction hist generalizing m with
  | nil => rfl
  | cons b rest ih => simp only [List.foldl_cons, List.flatten_cons, ih, aux_foldUp_append]

end keyedLemmas
end HvHydro2
