/-
`hvdrv_hydro2`: line-protocol driver for the C31–C34 models.  One output line per input line.

  #case <n> mode=<c32|c33|c31|c34> op=<flow name> ...   echoes the line, selects the flow
  r <tick>|<tick>|...      (or `v …`: same, marks an admissible variant for the harness oracle)
                           run a *fresh* instance of the flow, one `|`-separated field per tick;
                           answer: the per-tick outputs joined by `|`
A tick field is `-` (no input this tick) or `,`-separated items; an item is an integer or `k:v`;
flows with two inputs use `<items>/<items>`.  Anything else -> bad-op.
-/
import HvHydro2.Model.Ops
import HvHydro2.Model.Ticks
import HvHydro2.Model.Sliced
import HvHydro2.Model.Atomic
import HvHydro2.Model.SimTie
open HvHydro2

def parseInt (s : String) : Option Int := s.toInt?

def parseItems (s : String) : Option (List Int) :=
  if s == "-" then some [] else (s.splitOn ",").mapM parseInt

def parsePair (s : String) : Option (Int × Int) :=
  match s.splitOn ":" with
  | [a, b] => do let x ← parseInt a; let y ← parseInt b; pure (x, y)
  | _ => none

def parsePairs (s : String) : Option (List (Int × Int)) :=
  if s == "-" then some [] else (s.splitOn ",").mapM parsePair

def showInts (l : List Int) : String := if l.isEmpty then "-" else ",".intercalate (l.map toString)
def showPair (p : Int × Int) : String := s!"{p.1}:{p.2}"
def showPairs (l : List (Int × Int)) : String := if l.isEmpty then "-" else ",".intercalate (l.map showPair)
def showOptInt : Option Int → String
  | some x => s!"some {x}"
  | none => "none"
def showOptPair : Option (Int × Int) → String
  | some p => s!"some {showPair p}"
  | none => "none"
def showBool (b : Bool) : String := if b then "true" else "false"

def pairLe (a b : Int × Int) : Bool := a.1 < b.1 || (a.1 == b.1 && a.2 ≤ b.2)
def sortPairs (l : List (Int × Int)) : List (Int × Int) := l.mergeSort pairLe
def sortPairsNat (l : List (Int × Nat)) : List (Int × Int) := sortPairs (l.map fun p => (p.1, (p.2 : Int)))

def dedupKeys (l : List Int) : List Int := l.foldl (fun acc k => if acc.contains k then acc else acc ++ [k]) []

/-- canonical form of a keyed stream: keys ascending, each with its values in order -/
def showKeyed (l : List (Int × Int)) : String :=
  let ks := (dedupKeys (l.map (·.1))).mergeSort (fun a b => a ≤ b)
  if ks.isEmpty then "-" else
    ";".intercalate (ks.map fun k => s!"{k}:[{" ".intercalate ((group k l).map toString)}]")

/-- `KeyedStream::first()` in a tick (used to build the keyed singletons the flows start from):
first value per key, keys in first-arrival order -/
def firstPerKey (l : List (Int × Int)) : List (Int × Int) :=
  foldKeyedL (none : Option Int) (fun acc v => match acc with | some a => some a | none => some v) l
    |>.filterMap fun p => p.2.map fun v => (p.1, v)

/-- `fold_keyed(|| 0, |acc, v| *acc += v)` -/
def sumPerKey (l : List (Int × Int)) : List (Int × Int) := foldKeyedL (0 : Int) (fun a v => a + v) l

/-- per-tick answer of a C32 flow: `hist` = everything delivered before this tick, `b` = this tick -/
def c32Tick (op : String) (hist b : String) : Option String :=
  -- `hist` and `b` are raw fields; `all` is what a top-level (`'static`) operator has seen
  let cat (h t : String) : String := if h == "-" || h == "" then t else if t == "-" then h else h ++ "," ++ t
  let all := cat hist b
  match op with
  | "max_tick" => (parseItems b).map fun l => showOptInt (maxOp l)
  | "min_tick" => (parseItems b).map fun l => showOptInt (minOp l)
  | "first_tick" => (parseItems b).map fun l => showOptInt (firstOp l)
  | "last_tick" => (parseItems b).map fun l => showOptInt (lastOp l)
  | "count_tick" => (parseItems b).map fun l => toString (countOp l)
  | "is_empty_tick" => (parseItems b).map fun l => showBool (isEmptyOp l)
  | "max_top" => (parseItems all).map fun l => showOptInt (maxOp l)
  | "min_top" => (parseItems all).map fun l => showOptInt (minOp l)
  | "first_top" => (parseItems all).map fun l => showOptInt (firstOp l)
  | "last_top" => (parseItems all).map fun l => showOptInt (lastOp l)
  | "count_top" => (parseItems all).map fun l => toString (countOp l)
  | "vcount_tick" => (parsePairs b).map fun l => showPairs (sortPairsNat (valueCountsOp l))
  | "vcount_top" => (parsePairs all).map fun l => showPairs (sortPairsNat (valueCountsOp l))
  | "intosing_tick" => (parsePairs b).map fun l => showPairs (sortPairs (intoSingletonOp (firstPerKey l)))
  | "intosing_top" => (parsePairs all).map fun l => showPairs (sortPairs (intoSingletonOp (firstPerKey l)))
  | "intosing_mono" => (parsePairs all).map fun l => showPairs (sortPairs (intoSingletonOp (sumPerKey l)))
  | "maxkey_tick" => (parsePairs b).map fun l => showOptPair (getMaxKeyOp (firstPerKey l))
  | "maxkey_top" => (parsePairs all).map fun l => showOptPair (getMaxKeyOp (firstPerKey l))
  | "keycount_tick" => (parsePairs b).map fun l => toString (keyCountOp (firstPerKey l))
  | "keycount_top" => (parsePairs all).map fun l => toString (keyCountOp (firstPerKey l))
  | "keycount_mono" => (parsePairs all).map fun l => toString (keyCountOp (sumPerKey l))
  | "repeat_tick" =>
    match b.splitOn "/" with
    | [ks, vs] => do
      let ks ← parsePairs ks
      let vs ← parseItems vs
      pure (showKeyed (repeatWithKeysOp ((firstPerKey ks).map (·.1)) vs))
    | _ => none
  | "cast_stream" => (parseItems b).map fun l => showInts (castOp l)
  | "cast_keyed" => (parsePairs b).map fun l => showPairs (castOp l)
  | _ => none

def runTicks (f : String → String → Option String) (ticks : List String) : Option String := do
  let mut hist := "-"
  let mut outs : List String := []
  for t in ticks do
    let o ← f hist t
    outs := outs ++ [o]
    hist := if hist == "-" then t else if t == "-" then hist else hist ++ "," ++ t
  pure ("|".intercalate outs)


/-! ### C33 / C31 / C34: whole-history evaluation (the tick-step models) -/

def prefixes {α : Type} (l : List α) : List (List α) := (List.range l.length).map fun i => l.take (i + 1)

def i32Min : Int := -2147483648
def maxF (a v : Int) : Int := if v > a then v else a

def c33Run (op : String) (ticks : List String) : Option String :=
  match op with
  | "cnt" => do
    let h ← ticks.mapM parseItems
    pure ("|".intercalate ((prefixes h).map fun p => toString (countAfter p)))
  | "fmax" => do
    let h ← ticks.mapM parseItems
    pure ("|".intercalate ((prefixes h).map fun p => toString (singletonAfter i32Min maxF p)))
  | "vcount" => do
    let h ← ticks.mapM parsePairs
    pure ("|".intercalate ((prefixes h).map fun p =>
      showPairs (sortPairsNat (keyedAfter 0 (fun c (_ : Int) => c + 1) p))))
  | "kmax" => do
    let h ← ticks.mapM parsePairs
    pure ("|".intercalate ((prefixes h).map fun p => showPairs (sortPairs (keyedAfter i32Min maxF p))))
  | "ksum" => do
    let h ← ticks.mapM parsePairs
    pure ("|".intercalate ((prefixes h).map fun p =>
      showPairs (sortPairs (keyedAfter (0 : Int) (fun a v => a + v) p))))
  | "kfirst_map" => do
    let h ← ticks.mapM parsePairs
    pure ("|".intercalate ((prefixes h).map fun p => showPairs (sortPairs (firstAfter p))))
  | "kfirst_filter" => do
    let h ← ticks.mapM parsePairs
    pure ("|".intercalate ((prefixes h).map fun p =>
      showPairs (sortPairs ((firstAfter p).filter fun kv => kv.2 > 0))))
  | "kfirst_fmap" => do
    let h ← ticks.mapM parsePairs
    pure ("|".intercalate ((prefixes h).map fun p =>
      showPairs (sortPairs ((firstAfter p).filterMap fun kv => if kv.2 % 2 == 0 then some (kv.1, kv.2 * 10) else none))))
  | "vcount_map" => do
    let h ← ticks.mapM parsePairs
    pure ("|".intercalate ((prefixes h).map fun p =>
      showPairs (sortPairsNat ((keyedAfter 0 (fun c (_ : Int) => c + 1) p).map fun kv => (kv.1, kv.2 % 2)))))
  | "kfirst_entries" => do
    let h ← ticks.mapM parsePairs
    pure ("|".intercalate ((List.range h.length).map fun i =>
      showPairs (sortPairs (firstEmitted (firstAfter (h.take i)) (h.getD i [])))))
  | _ => none

def splitTwo (s : String) : Option (String × String) :=
  match s.splitOn "/" with
  | [a, b] => some (a, b)
  | _ => none

def sumInts (l : List Int) : Int := l.foldl (· + ·) 0

def c31Run (op : String) (ticks : List String) : Option String :=
  match op with
  | "batches" => do
    let h ← ticks.mapM parseItems
    pure ("|".intercalate ((runBatches [] (prodSchedule h)).1.map showInts))
  | "batch_snap" => do
    let h ← ticks.mapM parseItems
    let bs := (runBatches [] (prodSchedule h)).1
    pure ("|".intercalate ((List.range h.length).map fun i =>
      s!"{(bs.getD i []).length}:{countAfter (h.take (i + 1))}"))
  | "two_batches" => do
    let h ← ticks.mapM splitTwo
    let a ← h.mapM (fun p => parseItems p.1)
    let b ← h.mapM (fun p => parseItems p.2)
    let ba := (runBatches [] (prodSchedule a)).1
    let bb := (runBatches [] (prodSchedule b)).1
    pure ("|".intercalate ((List.range h.length).map fun i =>
      let x := ba.getD i []; let y := bb.getD i []
      s!"{x.length}:{y.length}:{sumInts x}:{sumInts y}"))
  | "state_counter" => do
    let h ← ticks.mapM parseItems
    pure ("|".intercalate ((runSliced counterBody none (runBatches [] (prodSchedule h)).1).map toString))
  | "state_prev_last" => do
    let h ← ticks.mapM parseItems
    pure ("|".intercalate ((runSliced prevLastBody none (runBatches [] (prodSchedule h)).1).map showOptInt))
  | "state_opt_keep" => do
    let h ← ticks.mapM parseItems
    pure ("|".intercalate ((runSlicedInit optKeepBody optKeepInit true none (runBatches [] (prodSchedule h)).1).map showOptInt))
  | "lookup_counts" => do
    let h ← ticks.mapM splitTwo
    let incs ← h.mapM (fun p => parsePairs p.1)
    let gets ← h.mapM (fun p => parseItems p.2)
    pure ("|".intercalate ((List.range h.length).map fun i =>
      let counts := keyedAfter 0 (fun c (_ : Int) => c + 1) (incs.take (i + 1))
      let resp := (gets.getD i []).filterMap fun k => (lookup counts k).map fun n => (k, (n : Int))
      showPairs (sortPairs resp)))
  | _ => none

def tripleLe (a b : Int × Int × Int) : Bool :=
  a.1 < b.1 || (a.1 == b.1 && (a.2.1 < b.2.1 || (a.2.1 == b.2.1 && a.2.2 ≤ b.2.2)))
def showTriples (l : List (Int × Int × Int)) : String :=
  if l.isEmpty then "-" else ",".intercalate ((l.mergeSort tripleLe).map fun t => s!"{t.1}:{t.2.1}:{t.2.2}")

def c34Run (op : String) (ticks : List String) : Option String :=
  match op with
  | "atomic_sum" | "plain_sum" => do
    let h ← ticks.mapM splitTwo
    let ws ← h.mapM (fun p => parseItems p.1)
    let rs ← h.mapM (fun p => parseItems p.2)
    let run := runAtomic (fun (s : Int) w => s + w) ⟨[], 0⟩ (prodSchedule ws)
    pure ("|".intercalate ((List.range h.length).map fun i =>
      let (acks, st) := run.getD i ([], 0)
      s!"acks={showInts acks};resp={showPairs ((rs.getD i []).map fun r => (r, st))}"))
  | "atomic_lww" | "atomic_max" => do
    let h ← ticks.mapM splitTwo
    let ws ← h.mapM (fun p => parseItems p.1)
    let rs ← h.mapM (fun p => parseItems p.2)
    let run := if op == "atomic_lww" then runAtomic lwwStep ⟨[], none⟩ (prodSchedule ws)
      else runAtomic maxRegStep ⟨[], none⟩ (prodSchedule ws)
    pure ("|".intercalate ((List.range h.length).map fun i =>
      let (acks, st) := run.getD i ([], none)
      let sv := match st with | some v => toString v | none => "none"
      let resp := if (rs.getD i []).isEmpty then "-" else ",".intercalate ((rs.getD i []).map fun r => s!"{r}:{sv}")
      s!"acks={showInts acks};resp={resp}"))
  | "keyed_lww" => do
    let h ← ticks.mapM splitTwo
    let ws ← h.mapM (fun p => parsePairs p.1)
    let rs ← h.mapM (fun p => parsePairs p.2)
    let run := runAtomic klwwStep ⟨[], []⟩ (prodSchedule ws)
    pure ("|".intercalate ((List.range h.length).map fun i =>
      let (acks, st) := run.getD i ([], [])
      let resp := (rs.getD i []).filterMap fun g => (lookup st g.2).map fun v => (g.1, g.2, v)
      s!"acks={showPairs (sortPairs acks)};resp={showTriples resp}"))
  | "keyed_counter" => do
    let h ← ticks.mapM splitTwo
    let ws ← h.mapM (fun p => parsePairs p.1)
    let rs ← h.mapM (fun p => parsePairs p.2)
    let run := runAtomic counterStep ⟨[], []⟩ (prodSchedule ws)
    pure ("|".intercalate ((List.range h.length).map fun i =>
      let (acks, st) := run.getD i ([], [])
      let resp := (rs.getD i []).filterMap fun g => (lookup st g.2).map fun n => (g.1, g.2, (n : Int))
      s!"acks={showPairs (sortPairs acks)};resp={showTriples resp}"))
  | _ => none

/-! ### simulator tie (`hv_hydro2_sim`): one recorded execution per line, answer `ok` / `rejected` -/

def splitObs (obs : String) : List String := if obs == "~" || obs == "" then [] else obs.splitOn "|"

def parseColon (s : String) : Option (String × String) :=
  match s.splitOn ":" with
  | [a, b] => some (a, b)
  | _ => none

def parseOptInt (s : String) : Option (Option Int) := if s == "-" then some none else (parseInt s).map some

def parseEv (t : String) : Option Ev :=
  if t == "end" then some .fin
  else if t.startsWith "w" then (parseInt (t.drop 1).toString).map .w
  else if t.startsWith "r" then (parseInt (t.drop 1).toString).map .r
  else if t.startsWith "A" then (parseInt (t.drop 1).toString).map .ack
  else if t.startsWith "R" then
    match ((t.drop 1).toString).splitOn "=" with
    | [i, v] => do
      let i ← parseInt i
      if v == "-" then pure (.respNone i) else do let v ← parseInt v; pure (.resp i v)
    | _ => none
  else none

def verdict (b : Bool) : String := if b then "ok" else "rejected"

def simLine (ws : List String) : Option String :=
  match ws with
  | ["sb", xs, obs] => do
    let xs ← parseItems xs
    let bs ← (splitObs obs).mapM parseItems
    pure (verdict (simBatchesOk xs bs))
  | ["ss", xs, obs] => do
    let xs ← parseItems xs
    let ps ← (splitObs obs).mapM parseColon
    let bs ← ps.mapM (fun p => parseItems p.1)
    let cs ← ps.mapM (fun p => p.2.toNat?)
    pure (verdict (simBatchesOk xs bs && simSnapsOk xs.length none cs))
  | ["sc", xs, obs] => do
    let xs ← parseItems xs
    let ps ← (splitObs obs).mapM parseColon
    let bs ← ps.mapM (fun p => parseItems p.1)
    let cs ← ps.mapM (fun p => p.2.toNat?)
    pure (verdict (simBatchesOk xs bs && simCounterOk bs cs))
  | ["sp", xs, obs] => do
    let xs ← parseItems xs
    let ps ← (splitObs obs).mapM parseColon
    let bs ← ps.mapM (fun p => parseItems p.1)
    let cs ← ps.mapM (fun p => parseOptInt p.2)
    pure (verdict (simBatchesOk xs bs && simPrevLastOk bs cs))
  | ["s2", xa, xb, obs] => do
    let xa ← parseItems xa
    let xb ← parseItems xb
    let ps ← (splitObs obs).mapM splitTwo
    let ba ← ps.mapM (fun p => parseItems p.1)
    let bb ← ps.mapM (fun p => parseItems p.2)
    -- every scheduled slice releases something new on at least one hook
    let fresh := (ba.zip bb).all fun p => !(p.1.isEmpty && p.2.isEmpty)
    pure (verdict (simBatchesOk xa ba && simBatchesOk xb bb && fresh))
  | ["sa", _script, tl] => do
    let evs ← (tl.splitOn ",").mapM parseEv
    pure (verdict (simAtomicOk evs))
  | ["sl", _script, tl] => do
    let evs ← (tl.splitOn ",").mapM parseEv
    pure (verdict (simLwwOk evs))
  | ["sim-complete"] => some "ok"
  | _ => none

structure St where
  mode : String
  op : String

def tagValue (ws : List String) (key : String) : String :=
  match ws.filterMap (fun w => if w.startsWith (key ++ "=") then some ((w.drop (key.length + 1)).toString) else none) with
  | v :: _ => v
  | [] => ""

def step (st : St) (line : String) : St × String :=
  let l := line.trimAscii.toString
  match l.splitOn " " with
  | "#case" :: ws => (⟨tagValue ws "mode", tagValue ws "op"⟩, l)
  | ["r", ticks] | ["v", ticks] =>
    let ts := ticks.splitOn "|"
    let res := match st.mode with
      | "c32" => runTicks (c32Tick st.op) ts
      | "c33" => c33Run st.op ts
      | "c31" => c31Run st.op ts
      | "c34" => c34Run st.op ts
      | _ => none
    (st, res.getD "bad-op")
  | ws => (st, (simLine ws).getD "bad-op")

partial def loop (h : IO.FS.Stream) (out : IO.FS.Stream) (st : St) : IO Unit := do
  let line ← h.getLine
  if line.isEmpty then return ()
  let (st', o) := step st line
  out.putStrLn o
  loop h out st'

def main : IO Unit := do
  let stdin ← IO.getStdin
  let stdout ← IO.getStdout
  loop stdin stdout ⟨"", ""⟩
