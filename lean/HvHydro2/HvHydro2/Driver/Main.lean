/-
`hvdrv_hydro2`: line-protocol driver for the C31–C34 models.  One output line per input line.

  #case <n> mode=<c32|c33|c31|c34> op=<flow name> ...   echoes the line, selects the flow
  r <tick>|<tick>|...      (or `v …`: same, marks an admissible variant for the harness oracle)
                           run a *fresh* instance of the flow, one `|`-separated field per tick;
                           answer: the per-tick outputs joined by `|`
A tick field is `-` (no input this tick) or `,`-separated items; an item is an integer or `k:v`;
flows with two inputs use `<items>/<items>`.  Anything else -> bad-op.
-/
import HvHydro2.Model.Ops
open HvHydro2

def parseInt (s : String) : Option Int := s.toInt?

def parseItems (s : String) : Option (List Int) :=
  if s == "-" then some [] else (s.splitOn ",").mapM parseInt

def parsePair (s : String) : Option (Int × Int) :=
  match s.splitOn ":" with
  | [a, b] => do let x ← parseInt a; let y ← parseInt b; pure (x, y)
  | _ => none

def parsePairs (s : String) : Option (List (Int × Int)) :=
  if s == "-" then some [] else (s.splitOn ",").mapM parsePair

def showInts (l : List Int) : String := if l.isEmpty then "-" else ",".intercalate (l.map toString)
def showPair (p : Int × Int) : String := s!"{p.1}:{p.2}"
def showPairs (l : List (Int × Int)) : String := if l.isEmpty then "-" else ",".intercalate (l.map showPair)
def showOptInt : Option Int → String
  | some x => s!"some {x}"
  | none => "none"
def showOptPair : Option (Int × Int) → String
  | some p => s!"some {showPair p}"
  | none => "none"
def showBool (b : Bool) : String := if b then "true" else "false"

def pairLe (a b : Int × Int) : Bool := a.1 < b.1 || (a.1 == b.1 && a.2 ≤ b.2)
def sortPairs (l : List (Int × Int)) : List (Int × Int) := l.mergeSort pairLe
def sortPairsNat (l : List (Int × Nat)) : List (Int × Int) := sortPairs (l.map fun p => (p.1, (p.2 : Int)))

def dedupKeys (l : List Int) : List Int := l.foldl (fun acc k => if acc.contains k then acc else acc ++ [k]) []

/-- canonical form of a keyed stream: keys ascending, each with its values in order -/
def showKeyed (l : List (Int × Int)) : String :=
  let ks := (dedupKeys (l.map (·.1))).mergeSort (fun a b => a ≤ b)
  if ks.isEmpty then "-" else
    ";".intercalate (ks.map fun k => s!"{k}:[{" ".intercalate ((group k l).map toString)}]")

/-- `KeyedStream::first()` in a tick (used to build the keyed singletons the flows start from):
first value per key, keys in first-arrival order -/
def firstPerKey (l : List (Int × Int)) : List (Int × Int) :=
  foldKeyedL (none : Option Int) (fun acc v => match acc with | some a => some a | none => some v) l
    |>.filterMap fun p => p.2.map fun v => (p.1, v)

/-- `fold_keyed(|| 0, |acc, v| *acc += v)` -/
def sumPerKey (l : List (Int × Int)) : List (Int × Int) := foldKeyedL (0 : Int) (fun a v => a + v) l

/-- per-tick answer of a C32 flow: `hist` = everything delivered before this tick, `b` = this tick -/
def c32Tick (op : String) (hist b : String) : Option String :=
  -- `hist` and `b` are raw fields; `all` is what a top-level (`'static`) operator has seen
  let cat (h t : String) : String := if h == "-" || h == "" then t else if t == "-" then h else h ++ "," ++ t
  let all := cat hist b
  match op with
  | "max_tick" => (parseItems b).map fun l => showOptInt (maxOp l)
  | "min_tick" => (parseItems b).map fun l => showOptInt (minOp l)
  | "first_tick" => (parseItems b).map fun l => showOptInt (firstOp l)
  | "last_tick" => (parseItems b).map fun l => showOptInt (lastOp l)
  | "count_tick" => (parseItems b).map fun l => toString (countOp l)
  | "is_empty_tick" => (parseItems b).map fun l => showBool (isEmptyOp l)
  | "max_top" => (parseItems all).map fun l => showOptInt (maxOp l)
  | "min_top" => (parseItems all).map fun l => showOptInt (minOp l)
  | "first_top" => (parseItems all).map fun l => showOptInt (firstOp l)
  | "last_top" => (parseItems all).map fun l => showOptInt (lastOp l)
  | "count_top" => (parseItems all).map fun l => toString (countOp l)
  | "vcount_tick" => (parsePairs b).map fun l => showPairs (sortPairsNat (valueCountsOp l))
  | "vcount_top" => (parsePairs all).map fun l => showPairs (sortPairsNat (valueCountsOp l))
  | "intosing_tick" => (parsePairs b).map fun l => showPairs (sortPairs (intoSingletonOp (firstPerKey l)))
  | "intosing_top" => (parsePairs all).map fun l => showPairs (sortPairs (intoSingletonOp (firstPerKey l)))
  | "intosing_mono" => (parsePairs all).map fun l => showPairs (sortPairs (intoSingletonOp (sumPerKey l)))
  | "maxkey_tick" => (parsePairs b).map fun l => showOptPair (getMaxKeyOp (firstPerKey l))
  | "maxkey_top" => (parsePairs all).map fun l => showOptPair (getMaxKeyOp (firstPerKey l))
  | "keycount_tick" => (parsePairs b).map fun l => toString (keyCountOp (firstPerKey l))
  | "keycount_top" => (parsePairs all).map fun l => toString (keyCountOp (firstPerKey l))
  | "keycount_mono" => (parsePairs all).map fun l => toString (keyCountOp (sumPerKey l))
  | "repeat_tick" =>
    match b.splitOn "/" with
    | [ks, vs] => do
      let ks ← parsePairs ks
      let vs ← parseItems vs
      pure (showKeyed (repeatWithKeysOp ((firstPerKey ks).map (·.1)) vs))
    | _ => none
  | "cast_stream" => (parseItems b).map fun l => showInts (castOp l)
  | "cast_keyed" => (parsePairs b).map fun l => showPairs (castOp l)
  | _ => none

def runTicks (f : String → String → Option String) (ticks : List String) : Option String := do
  let mut hist := "-"
  let mut outs : List String := []
  for t in ticks do
    let o ← f hist t
    outs := outs ++ [o]
    hist := if hist == "-" then t else if t == "-" then hist else hist ++ "," ++ t
  pure ("|".intercalate outs)

structure St where
  mode : String
  op : String

def tagValue (ws : List String) (key : String) : String :=
  match ws.filterMap (fun w => if w.startsWith (key ++ "=") then some ((w.drop (key.length + 1)).toString) else none) with
  | v :: _ => v
  | [] => ""

def step (st : St) (line : String) : St × String :=
  let l := line.trimAscii.toString
  match l.splitOn " " with
  | "#case" :: ws => (⟨tagValue ws "mode", tagValue ws "op"⟩, l)
  | ["r", ticks] | ["v", ticks] =>
    let ts := ticks.splitOn "|"
    let res := match st.mode with
      | "c32" => runTicks (c32Tick st.op) ts
      | _ => none
    (st, res.getD "bad-op")
  | _ => (st, "bad-op")

partial def loop (h : IO.FS.Stream) (out : IO.FS.Stream) (st : St) : IO Unit := do
  let line ← h.getLine
  if line.isEmpty then return ()
  let (st', o) := step st line
  out.putStrLn o
  loop h out st'

def main : IO Unit := do
  let stdin ← IO.getStdin
  let stdout ← IO.getStdout
  loop stdin stdout ⟨"", ""⟩
