/-
C31 — Slices partition streams and take monotone snapshots.

Model: `Model/Sliced.lean` (hand-written from the `sliced!` expansion; hooks carry explicit
decisions as in `sim/runtime.rs`, production = "release everything that arrived").

* `slice_batches_partition_input` : for EVERY schedule of a batch hook, the batches released so far
  followed by what is still buffered are exactly the arrivals, in order (each element in exactly
  one batch); in production the batches are the per-tick arrivals and nothing stays buffered.
* `snapshots_monotone` : for EVERY decision script of a snapshot hook the released versions never
  go back to an older one (and never come from the future).
* `prod_hooks_same_point` : in production a batch hook and a snapshot hook of the same source in
  one slice are cut at the same point (snapshot of `count` = number of elements in the batches so far).
* `state_carries_to_next_slice` : the state a slice sees is what the previous slice assigned
  (the first slice sees the initial value), with closed forms for the two corpus bodies.
* `optional_state_next_is_stored_initial_only_first` : an `Optional` state with a non-null initial
  value shows the initial value to the first slice only; a stored null is seen as null
  (corpus `state_opt_keep`, `optKeep_closed_form`).
Partial: the macro expansion itself is modelled by hand (its text is pinned by checks/C31.py).
-/
import HvHydro2.Model.Sliced
import HvHydro2.Model.SimTie
import Mathlib.Data.List.Basic
import Mathlib.Data.Nat.Basic

set_option linter.unusedSectionVars false
set_option linter.unusedSimpArgs false

namespace HvHydro2
open List

/-! ### batch hooks -/

theorem aux_batchTick {α : Type} (buf arr : List α) (n : Nat) :
    (batchTick buf arr n).1 ++ (batchTick buf arr n).2 = buf ++ arr := by
  simp [batchTick, List.take_append_drop]

/-- every element of the input is in exactly one batch, in order — for every release schedule -/
theorem slice_batches_partition_input {α : Type} (buf : List α) (sched : List (List α × Nat)) :
    (runBatches buf sched).1.flatten ++ (runBatches buf sched).2 =
      buf ++ (sched.map (fun p => p.1)).flatten := by
  induction sched generalizing buf with
  | nil => simp [runBatches]
  | cons p rest ih =>
    obtain ⟨arr, n⟩ := p
    simp only [runBatches, List.flatten_cons, List.map_cons, List.append_assoc]
    rw [ih, ← List.append_assoc, aux_batchTick, List.append_assoc]

/-- production code generation (`batch`: `out = in`): the batches are the per-tick arrivals -/
theorem prod_batches_are_arrivals {α : Type} (hist : List (List α)) :
    runBatches [] (prodSchedule hist) = (hist, []) := by
  induction hist with
  | nil => rfl
  | cons b rest ih =>
    simp only [prodSchedule, List.map_cons, runBatches, batchTick, List.nil_append,
      List.take_length, List.drop_length] at ih ⊢
    rw [ih]

/-! ### snapshot hooks -/

/-- a decision script where tick `t` queues `k` fresh versions `next, next+1, …` -/
def runSnapsCounted : Nat → SnapSt Nat → List (Nat × SnapDec) → List (Option Nat)
  | _, _, [] => []
  | next, s, (k, d) :: rest =>
    let r := snapTick s ((List.range k).map (fun i => next + i)) d
    r.2 :: runSnapsCounted (next + k) r.1 rest

/-- hook invariant: queued versions are strictly increasing, newer than the last released one,
older than the next fresh version -/
def SnapInv (next : Nat) (s : SnapSt Nat) : Prop :=
  s.queue.Pairwise (· < ·) ∧ (∀ q ∈ s.queue, q < next) ∧
    (∀ l, s.last = some l → l < next ∧ ∀ q ∈ s.queue, l < q)

theorem aux_fresh_pairwise (next k : Nat) :
    ((List.range k).map (fun i => next + i)).Pairwise (· < ·) := by
  rw [List.pairwise_map]
  exact (List.pairwise_lt_range).imp (by intro a b h; omega)

theorem aux_queue_ext (next k : Nat) (s : SnapSt Nat) (h : SnapInv next s) :
    SnapInv (next + k) ⟨s.queue ++ (List.range k).map (fun i => next + i), s.last⟩ := by
  obtain ⟨h1, h2, h3⟩ := h
  refine ⟨?_, ?_, ?_⟩
  · rw [List.pairwise_append]
    refine ⟨h1, aux_fresh_pairwise next k, ?_⟩
    intro a ha b hb
    obtain ⟨i, _, rfl⟩ := List.mem_map.1 hb
    have := h2 a ha; omega
  · intro q hq
    rcases List.mem_append.1 hq with hq | hq
    · have := h2 q hq; omega
    · obtain ⟨i, hi, rfl⟩ := List.mem_map.1 hq
      have := List.mem_range.1 hi; omega
  · intro l hl
    obtain ⟨a, b⟩ := h3 l hl
    refine ⟨by omega, ?_⟩
    intro q hq
    rcases List.mem_append.1 hq with hq | hq
    · exact b q hq
    · obtain ⟨i, _, rfl⟩ := List.mem_map.1 hq; omega

/-- releasing the head of a suffix of the queue keeps the invariant and is newer than `last` -/
theorem aux_release_suffix (next : Nat) (q : List Nat) (last : Option Nat) (j : Nat) (v : Nat)
    (rest : List Nat) (h : SnapInv next ⟨q, last⟩) (hd : q.drop j = v :: rest) :
    SnapInv next ⟨rest, some v⟩ ∧ (∀ l, last = some l → l < v) ∧ v < next := by
  obtain ⟨h1, h2, h3⟩ := h
  have hsub : (v :: rest).Sublist q := hd ▸ List.drop_sublist j q
  have hv : v ∈ q := hsub.subset List.mem_cons_self
  have hp : (v :: rest).Pairwise (· < ·) := h1.sublist hsub
  rw [List.pairwise_cons] at hp
  refine ⟨⟨hp.2, ?_, ?_⟩, ?_, h2 v hv⟩
  · intro x hx; exact h2 x (hsub.subset (List.mem_cons_of_mem _ hx))
  · intro l hl
    cases hl
    exact ⟨h2 v hv, fun x hx => hp.1 x hx⟩
  · intro l hl; exact (h3 l hl).2 v hv

/-- one decision: invariant kept; the released version is not older than the previous one and
not from the future -/
theorem aux_snapTick (next k : Nat) (s : SnapSt Nat) (d : SnapDec) (h : SnapInv next s) :
    let r := snapTick s ((List.range k).map (fun i => next + i)) d
    SnapInv (next + k) r.1 ∧
      (∀ v, r.2 = some v → v < next + k ∧ ∀ l, s.last = some l → l ≤ v) ∧
      (∀ l, s.last = some l → ∃ l', r.1.last = some l' ∧ l ≤ l') ∧
      (∀ v, r.2 = some v → r.1.last = some v) := by
  have hq := aux_queue_ext next k s h
  generalize hQ : s.queue ++ (List.range k).map (fun i => next + i) = Q at hq
  cases d with
  | again =>
    cases hl : s.last with
    | some l =>
      simp only [snapTick, hQ, hl]
      rw [hl] at hq
      refine ⟨hq, ?_, ?_, ?_⟩
      · intro v hv; cases hv
        exact ⟨(hq.2.2 l rfl).1, fun l' e => by cases e; exact le_refl _⟩
      · intro l' e; cases e; exact ⟨l, rfl, le_refl _⟩
      · intro v hv; cases hv; rfl
    | none =>
      rw [hl] at hq
      cases Q with
      | nil =>
        simp only [snapTick, hQ, hl]
        refine ⟨hq, ?_, ?_, ?_⟩
        · intro v hv; cases hv
        · intro l e; cases e
        · intro v hv; cases hv
      | cons v rest =>
        simp only [snapTick, hQ, hl]
        obtain ⟨a, b, c⟩ := aux_release_suffix (next + k) (v :: rest) none 0 v rest hq rfl
        refine ⟨a, ?_, ?_, ?_⟩
        · intro w hw; cases hw
          exact ⟨c, by intro l e; cases e⟩
        · intro l e; cases e
        · intro w hw; cases hw; rfl
  | pick i =>
    simp only [snapTick, hQ]
    cases hd : Q.drop (min i (Q.length - 1)) with
    | nil =>
      simp only
      refine ⟨hq, ?_, ?_, ?_⟩
      · intro v hv
        exact ⟨(hq.2.2 v hv).1, fun l e => by rw [hv] at e; cases e; exact le_refl _⟩
      · intro l e; exact ⟨l, e, le_refl _⟩
      · intro v hv; exact hv
    | cons v rest =>
      simp only
      obtain ⟨a, b, c⟩ := aux_release_suffix (next + k) Q s.last _ v rest hq hd
      refine ⟨a, ?_, ?_, ?_⟩
      · intro w hw; cases hw
        exact ⟨c, fun l e => Nat.le_of_lt (b l e)⟩
      · intro l e; exact ⟨v, rfl, Nat.le_of_lt (b l e)⟩
      · intro w hw; cases hw; rfl

/-- all later releases are at least the last released version -/
theorem aux_runSnaps_ge (script : List (Nat × SnapDec)) (next : Nat) (s : SnapSt Nat)
    (h : SnapInv next s) :
    ∀ l, s.last = some l → ∀ v, some v ∈ runSnapsCounted next s script → l ≤ v := by
  induction script generalizing next s with
  | nil => intro l _ v hv; simp [runSnapsCounted] at hv
  | cons p rest ih =>
    obtain ⟨k, d⟩ := p
    intro l hl v hv
    obtain ⟨hinv, hrel, hlast, _⟩ := aux_snapTick next k s d h
    simp only [runSnapsCounted, List.mem_cons] at hv
    rcases hv with hv | hv
    · exact (hrel v hv.symm).2 l hl
    · obtain ⟨l', hl', hle⟩ := hlast l hl
      exact le_trans hle (ih (next + k) _ hinv l' hl' v hv)

/-- the versions a snapshot hook releases, in release order -/
def releasedVersions (script : List (Nat × SnapDec)) : List Nat :=
  (runSnapsCounted 0 ⟨[], none⟩ script).filterMap id

theorem aux_snapshots_monotone (script : List (Nat × SnapDec)) (next : Nat) (s : SnapSt Nat)
    (h : SnapInv next s) :
    ((runSnapsCounted next s script).filterMap id).Pairwise (· ≤ ·) := by
  induction script generalizing next s with
  | nil => simp [runSnapsCounted]
  | cons p rest ih =>
    obtain ⟨k, d⟩ := p
    obtain ⟨hinv, hrel, hlast, hset⟩ := aux_snapTick next k s d h
    simp only [runSnapsCounted]
    cases hr : (snapTick s ((List.range k).map (fun i => next + i)) d).2 with
    | none =>
      simp only [List.filterMap_cons_none (f := id) (by rfl : id (none : Option Nat) = none)]
      exact ih (next + k) _ hinv
    | some v =>
      rw [List.filterMap_cons_some (f := id) (b := v) rfl, List.pairwise_cons]
      refine ⟨?_, ih (next + k) _ hinv⟩
      intro w hw
      rw [List.mem_filterMap] at hw
      obtain ⟨o, ho, e⟩ := hw
      have e' : o = some w := e
      subst e'
      exact aux_runSnaps_ge rest (next + k) _ hinv v (hset v hr) w ho

/-- snapshots never go back to an older state: for every decision script of the hook
(re-release / pick any queued version, any number of new versions per tick) the released versions
are non-decreasing -/
theorem snapshots_monotone (script : List (Nat × SnapDec)) :
    (releasedVersions script).Pairwise (· ≤ ·) :=
  aux_snapshots_monotone script 0 ⟨[], none⟩ (by
    refine ⟨List.Pairwise.nil, ?_, ?_⟩
    · intro q hq; cases hq
    · intro l hl; cases hl)

/-! ### hooks of one slice, production -/

theorem aux_count_after {α : Type} (hist : List (List α)) : countAfter hist = hist.flatten.length := by
  have hb : ∀ (l : List α) (m : Nat), l.foldl (fun c (_ : α) => c + 1) m = m + l.length := by
    intro l; induction l with
    | nil => simp
    | cons x xs ihx => intro m; simp only [List.foldl_cons, ihx, List.length_cons]; omega
  have hh : ∀ (h : List (List α)) (n : Nat),
      h.foldl (fun s b => b.foldl (fun c (_ : α) => c + 1) s) n = n + h.flatten.length := by
    intro h; induction h with
    | nil => simp
    | cons b rest ih =>
      intro n
      rw [List.foldl_cons, ih, hb, List.flatten_cons, List.length_append]; omega
  have := hh hist 0
  simpa [countAfter, singletonAfter] using this

/-- In production a slice that batches a stream and snapshots `count()` of the same stream cuts
both at the same point: after `t` slices the snapshot equals the number of elements in the batches
observed so far. -/
theorem prod_hooks_same_point {α : Type} (hist : List (List α)) (t : Nat) :
    countAfter (hist.take t) = (((runBatches [] (prodSchedule hist)).1).take t).flatten.length := by
  rw [prod_batches_are_arrivals, aux_count_after]

/-! ### state cycles -/

/-- what each slice assigns to the state -/
def statesWritten {σ β ω : Type} (body : Option σ → β → Option σ × ω) : Option σ → List β → List (Option σ)
  | _, [] => []
  | c, x :: xs => (body c x).1 :: statesWritten body (body c x).1 xs

/-- slice `t+1` sees exactly what slice `t` assigned; slice 0 sees the initial carried value -/
theorem state_carries_to_next_slice {σ β ω : Type} (body : Option σ → β → Option σ × ω)
    (c : Option σ) (xs : List β) :
    statesSeen body c xs = (c :: statesWritten body c xs).take xs.length := by
  induction xs generalizing c with
  | nil => rfl
  | cons x xs ih => simp only [statesSeen, statesWritten, List.length_cons, List.take_succ_cons, ih]

/-- and the output of every slice is the body applied to that carried state -/
theorem slice_outputs_use_carried_state {σ β ω : Type} (body : Option σ → β → Option σ × ω)
    (c : Option σ) (xs : List β) :
    runSliced body c xs = ((statesSeen body c xs).zip xs).map (fun p => (body p.1 p.2).2) := by
  induction xs generalizing c with
  | nil => rfl
  | cons x xs ih => simp only [runSliced, statesSeen, List.zip_cons_cons, List.map_cons, ih]

/-- corpus `state_counter`: slice `t` reports the number of elements in batches `0..t` -/
theorem counter_closed_form (c : Option Nat) (bs : List (List Int)) :
    runSliced counterBody c bs =
      (List.range bs.length).map (fun t => c.getD 0 + (bs.take (t + 1)).flatten.length) := by
  induction bs generalizing c with
  | nil => rfl
  | cons b bs ih =>
    simp only [runSliced, counterBody, List.length_cons, List.range_succ_eq_map, List.map_cons,
      List.map_map, ih, Option.getD_some]
    refine congrArg₂ _ (by simp) ?_
    apply List.map_congr_left
    intro t _
    simp [List.take_succ_cons, Nat.add_assoc]

/-- corpus `state_prev_last`: slice `t+1` sees the last element of batch `t` (null after an
empty batch), slice 0 sees null -/
theorem prevLast_closed_form (c : Option Int) (bs : List (List Int)) :
    runSliced prevLastBody c bs = (c :: bs.map lastOp).take bs.length := by
  induction bs generalizing c with
  | nil => rfl
  | cons b bs ih => simp only [runSliced, prevLastBody, List.length_cons, List.map_cons,
      List.take_succ_cons, ih]

/-! ### `Optional` state with an initial value (`use::state(|l| Optional::from(..))`) -/

theorem aux_statesSeenInit_later {σ β ω : Type} (body : Option σ → β → Option σ × ω)
    (initial p : Option σ) (xs : List β) :
    statesSeenInit body initial false p xs = statesSeen body p xs := by
  induction xs generalizing p with
  | nil => rfl
  | cons x xs ih => cases p <;> simp [statesSeenInit, statesSeen, optStateSource, ih]

theorem aux_runSlicedInit_later {σ β ω : Type} (body : Option σ → β → Option σ × ω)
    (initial p : Option σ) (xs : List β) :
    runSlicedInit body initial false p xs = runSliced body p xs := by
  induction xs generalizing p with
  | nil => rfl
  | cons x xs ih => cases p <;> simp [runSlicedInit, runSliced, optStateSource, ih]

/-- an `Optional` state created with an initial value (`from_previous_tick.or(initial` only in the
first tick`)`): slice 0 sees the initial value, slice `t+1` sees exactly what slice `t` stored —
a stored NULL is seen as null, the initial value never comes back -/
theorem optional_state_next_is_stored_initial_only_first {σ β ω : Type}
    (body : Option σ → β → Option σ × ω) (initial : Option σ) (xs : List β) :
    statesSeenInit body initial true none xs = (initial :: statesWritten body initial xs).take xs.length := by
  cases xs with
  | nil => rfl
  | cons x xs =>
    simp only [statesSeenInit, optStateSource, if_true, aux_statesSeenInit_later,
      state_carries_to_next_slice, statesWritten, List.length_cons, List.take_succ_cons]

/-- so the whole run is the plain carried-state run started from the initial value -/
theorem optional_state_run_eq {σ β ω : Type}
    (body : Option σ → β → Option σ × ω) (initial : Option σ) (xs : List β) :
    runSlicedInit body initial true none xs = runSliced body initial xs := by
  cases xs with
  | nil => rfl
  | cons x xs => simp only [runSlicedInit, runSliced, optStateSource, if_true, aux_runSlicedInit_later]

/-- corpus `state_opt_keep`: slice 0 sees 100, slice `t+1` sees the sum of batch `t` when it is
positive and null otherwise -/
theorem optKeep_closed_form (bs : List (List Int)) :
    runSlicedInit optKeepBody optKeepInit true none bs =
      (optKeepInit :: bs.map (fun b => if 0 < sumB b then some (sumB b) else none)).take bs.length := by
  rw [optional_state_run_eq]
  generalize optKeepInit = c
  induction bs generalizing c with
  | nil => rfl
  | cons b bs ih => simp only [runSliced, optKeepBody, List.length_cons, List.map_cons,
      List.take_succ_cons, ih]

example : runSlicedInit optKeepBody optKeepInit true none [[0], [7], [-1, 1], [], [2, 3]]
    = [some 100, none, some 7, none, none] := by decide

/-! ### judging simulator executions (harness `hv_hydro2_sim`, driver ops `sb ss sc sp s2`) -/

theorem aux_runBatches_fst_snd {α : Type} (buf : List α) (p : List α × Nat) (rest : List (List α × Nat)) :
    runBatches buf (p :: rest) =
      ((batchTick buf p.1 p.2).1 :: (runBatches (batchTick buf p.1 p.2).2 rest).1,
        (runBatches (batchTick buf p.1 p.2).2 rest).2) := by
  obtain ⟨arr, n⟩ := p; rfl

/-- replaying "nothing arrives, release `|b|`" for every observed batch reproduces the observation
and empties the buffer exactly when the buffer is the concatenation of the observed batches -/
theorem aux_replay_tail {α : Type} (bs : List (List α)) (buf : List α) :
    runBatches buf (bs.map (fun b' => (([] : List α), b'.length))) = (bs, []) ↔ buf = bs.flatten := by
  induction bs generalizing buf with
  | nil => simp [runBatches]
  | cons c cs ih =>
    rw [List.map_cons, aux_runBatches_fst_snd]
    simp only [batchTick, List.append_nil, List.flatten_cons, Prod.mk.injEq, List.cons.injEq]
    constructor
    · rintro ⟨⟨h1, h2⟩, h3⟩
      have := (ih (buf.drop c.length)).1 (Prod.ext h2 h3)
      rw [← List.take_append_drop c.length buf, h1, this]
    · intro h
      subst h
      have e := (ih cs.flatten).2 rfl
      simp only [List.take_left', List.drop_left', e, and_self]

/-- The driver's verdict on a recorded simulator execution (`schedOf`: the release schedule read
off the observation, replayed through the batch-hook model) IS the partition clause: the execution
is accepted iff the observed batches, concatenated in order, are exactly the input. -/
theorem simBatchesOk_iff_partition (xs : List Int) (bs : List (List Int)) :
    simBatchesOk xs bs = true ↔ bs.flatten = xs := by
  cases bs with
  | nil =>
    simp only [simBatchesOk, List.isEmpty_iff, List.flatten_nil]
    exact ⟨fun h => h.symm, fun h => h.symm⟩
  | cons b rest =>
    simp only [simBatchesOk, schedOf, beq_iff_eq]
    rw [aux_runBatches_fst_snd]
    simp only [batchTick, List.nil_append, List.flatten_cons, Prod.mk.injEq, List.cons.injEq]
    constructor
    · rintro ⟨⟨h1, h2⟩, h3⟩
      have := (aux_replay_tail rest (xs.drop b.length)).1 (Prod.ext h2 h3)
      rw [← List.take_append_drop b.length xs, h1, this]
    · intro h
      subst h
      have e := (aux_replay_tail rest rest.flatten).2 rfl
      simp only [List.take_left', List.drop_left', e, and_self]

/-- the snapshot verdict is exactly "never back, never from the future" -/
theorem simSnapsOk_iff (total : Nat) (last : Option Nat) (cs : List Nat) :
    simSnapsOk total last cs = true ↔
      (∀ c ∈ cs, last.getD 0 ≤ c ∧ c ≤ total) ∧ cs.Pairwise (· ≤ ·) := by
  induction cs generalizing last with
  | nil => simp [simSnapsOk]
  | cons c cs ih =>
    simp only [simSnapsOk, Bool.and_eq_true, decide_eq_true_eq, ih, Option.getD_some,
      List.mem_cons, forall_eq_or_imp, List.pairwise_cons]
    constructor
    · rintro ⟨⟨h1, h2⟩, h3, h4⟩
      exact ⟨⟨⟨h1, h2⟩, fun d hd => ⟨le_trans h1 (h3 d hd).1, (h3 d hd).2⟩⟩, fun d hd => (h3 d hd).1, h4⟩
    · rintro ⟨⟨⟨h1, h2⟩, h3⟩, h4, h5⟩
      exact ⟨⟨h1, h2⟩, fun d hd => ⟨h4 d hd, (h3 d hd).2⟩, h5⟩

/-- what the model's snapshot hook releases is accepted by the verdict (for every decision script):
the released versions are pairwise non-decreasing -/
theorem model_snapshots_accepted (script : List (Nat × SnapDec)) (total : Nat)
    (hb : ∀ v ∈ releasedVersions script, v ≤ total) :
    simSnapsOk total none (releasedVersions script) = true :=
  (simSnapsOk_iff total none _).2 ⟨fun c hc => ⟨Nat.zero_le _, hb c hc⟩, snapshots_monotone script⟩

example : simBatchesOk [1, 2, 3, 4] [[1, 2], [3], [4]] = true ∧ simBatchesOk [1, 2, 3] [[2], [1, 3]] = false := by
  decide

/-! ### non-vacuity -/
example : runBatches [] [([1, 2, 3], 2), ([4], 0), ([], 5)] = ([[1, 2], [], [3, 4]], []) := by decide
example : releasedVersions [(2, .pick 1), (0, .again), (3, .pick 0), (1, .pick 9)] = [1, 1, 2, 5] := by
  decide
example : runSliced counterBody none [[5, 5], [], [7]] = [2, 2, 3] := by decide
example : runSliced prevLastBody none [[5, 6], [], [7], [8]] = [none, some 6, none, some 7] := by decide

end HvHydro2
