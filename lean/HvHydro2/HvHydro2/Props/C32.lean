/-
C32 — Library-internal order and retry assumptions are justified.

For every operator of `hydro_lang/src/live_collections/**` that calls `assume_ordering_trusted` /
`assume_retries_trusted` (the call-site list is re-extracted from the source on every run into
`Gen/C32Sites.lean`; `sites_are_the_modelled_ones` below fails when it changes), the operator's
lowering (`Model/Ops.lean`) gives the same result for every input order / duplication that its
input type permits:

* `NoOrder`                ⇒ every permutation            (`List.Perm`)
* `NoOrder + AtLeastOnce`  ⇒ arbitrary duplicates anywhere (`SameSet`: same elements, any multiplicity ≥ 1)
* `TotalOrder + AtLeastOnce` ⇒ stuttering                  (`Stutter`: each element repeated in place)
-/
import HvHydro2.Model.Ops
import HvHydro2.Lemmas.Keyed
import HvHydro2.Gen.C32Sites
import Mathlib.Order.Defs.LinearOrder
import Mathlib.Data.Int.Order.Basic
import Mathlib.Data.List.Perm.Basic

set_option linter.unusedSectionVars false
set_option linter.unusedSimpArgs false

namespace HvHydro2
open List

/-- admissible re-deliveries of an unordered at-least-once stream: same elements, each ≥ once -/
def SameSet {α : Type} (l l' : List α) : Prop := ∀ x, x ∈ l ↔ x ∈ l'

/-- admissible re-deliveries of an ordered at-least-once stream: every element is repeated
in place one or more times (`l'` is a stuttering of `l`) -/
inductive Stutter {α : Type} : List α → List α → Prop
  | nil : Stutter [] []
  | cons (x : α) {l l' : List α} : Stutter l l' → Stutter (x :: l) (x :: l')
  | dup (x : α) {l l' : List α} : Stutter (x :: l) (x :: l') → Stutter (x :: l) (x :: x :: l')

theorem aux_perm_sameSet {α : Type} {l l' : List α} (h : l ~ l') : SameSet l l' :=
  fun _ => h.mem_iff

theorem aux_stutter_refl {α : Type} (l : List α) : Stutter l l := by
  induction l with
  | nil => exact .nil
  | cons x l ih => exact .cons x ih

section order
variable {α : Type} [LinearOrder α]

/-! ### max / min -/

theorem aux_maxStep (x y : α) : x ≤ maxStep x y ∧ y ≤ maxStep x y ∧ (maxStep x y = x ∨ maxStep x y = y) := by
  unfold maxStep; by_cases h : x < y
  · simp [h, le_of_lt h]
  · simp [h, not_lt.1 h]

theorem aux_minStep (x y : α) : minStep x y ≤ x ∧ minStep x y ≤ y ∧ (minStep x y = x ∨ minStep x y = y) := by
  unfold minStep; by_cases h : y < x
  · simp [h, le_of_lt h]
  · simp [h, not_lt.1 h]

theorem aux_foldl_max (xs : List α) (x : α) :
    (xs.foldl maxStep x = x ∨ xs.foldl maxStep x ∈ xs) ∧ x ≤ xs.foldl maxStep x ∧
      ∀ y ∈ xs, y ≤ xs.foldl maxStep x := by
  induction xs generalizing x with
  | nil => simp
  | cons y ys ih =>
    simp only [List.foldl_cons]
    obtain ⟨h1, h2, h3⟩ := ih (maxStep x y)
    obtain ⟨a1, a2, a3⟩ := aux_maxStep x y
    refine ⟨?_, le_trans a1 h2, ?_⟩
    · rcases h1 with h | h
      · rcases a3 with e | e
        · left; rw [h, e]
        · right; rw [h, e]; exact List.mem_cons_self
      · right; exact List.mem_cons_of_mem _ h
    · intro z hz
      rcases List.mem_cons.1 hz with rfl | hz
      · exact le_trans a2 h2
      · exact h3 z hz

theorem aux_foldl_min (xs : List α) (x : α) :
    (xs.foldl minStep x = x ∨ xs.foldl minStep x ∈ xs) ∧ xs.foldl minStep x ≤ x ∧
      ∀ y ∈ xs, xs.foldl minStep x ≤ y := by
  induction xs generalizing x with
  | nil => simp
  | cons y ys ih =>
    simp only [List.foldl_cons]
    obtain ⟨h1, h2, h3⟩ := ih (minStep x y)
    obtain ⟨a1, a2, a3⟩ := aux_minStep x y
    refine ⟨?_, le_trans h2 a1, ?_⟩
    · rcases h1 with h | h
      · rcases a3 with e | e
        · left; rw [h, e]
        · right; rw [h, e]; exact List.mem_cons_self
      · right; exact List.mem_cons_of_mem _ h
    · intro z hz
      rcases List.mem_cons.1 hz with rfl | hz
      · exact le_trans h2 a2
      · exact h3 z hz

/-- `max` returns the greatest element (and nothing on the empty batch) -/
theorem max_spec (l : List α) (m : α) :
    maxOp l = some m ↔ m ∈ l ∧ ∀ x ∈ l, x ≤ m := by
  cases l with
  | nil => simp [maxOp, reduceL]
  | cons x xs =>
    obtain ⟨h1, h2, h3⟩ := aux_foldl_max xs x
    simp only [maxOp, reduceL, Option.some.injEq]
    constructor
    · rintro rfl
      refine ⟨?_, ?_⟩
      · rcases h1 with h | h
        · rw [h]; exact List.mem_cons_self
        · exact List.mem_cons_of_mem _ h
      · intro z hz
        rcases List.mem_cons.1 hz with rfl | hz
        · exact h2
        · exact h3 z hz
    · rintro ⟨hm, hle⟩
      apply le_antisymm
      · apply hle
        rcases h1 with h | h
        · rw [h]; exact List.mem_cons_self
        · exact List.mem_cons_of_mem _ h
      · rcases List.mem_cons.1 hm with rfl | hm
        · exact h2
        · exact h3 m hm

theorem min_spec (l : List α) (m : α) :
    minOp l = some m ↔ m ∈ l ∧ ∀ x ∈ l, m ≤ x := by
  cases l with
  | nil => simp [minOp, reduceL]
  | cons x xs =>
    obtain ⟨h1, h2, h3⟩ := aux_foldl_min xs x
    simp only [minOp, reduceL, Option.some.injEq]
    constructor
    · rintro rfl
      refine ⟨?_, ?_⟩
      · rcases h1 with h | h
        · rw [h]; exact List.mem_cons_self
        · exact List.mem_cons_of_mem _ h
      · intro z hz
        rcases List.mem_cons.1 hz with rfl | hz
        · exact h2
        · exact h3 z hz
    · rintro ⟨hm, hle⟩
      apply le_antisymm
      · rcases List.mem_cons.1 hm with rfl | hm
        · exact h2
        · exact h3 m hm
      · apply hle
        rcases h1 with h | h
        · rw [h]; exact List.mem_cons_self
        · exact List.mem_cons_of_mem _ h

theorem aux_max_none (l : List α) : maxOp l = none ↔ l = [] := by
  cases l <;> simp [maxOp, reduceL]
theorem aux_min_none (l : List α) : minOp l = none ↔ l = [] := by
  cases l <;> simp [minOp, reduceL]

theorem aux_sameSet_nil {β : Type} {l' : List β} (h : SameSet [] l') : l' = [] := by
  cases l' with
  | nil => rfl
  | cons y ys => exact absurd ((h y).2 List.mem_cons_self) (by simp)

/-- `max` on a `NoOrder + AtLeastOnce` batch: any re-delivery with the same elements
(any order, any multiplicities) gives the same result. -/
theorem max_dup_invariant {l l' : List α} (h : SameSet l l') : maxOp l = maxOp l' := by
  cases hm : maxOp l with
  | none =>
    rw [aux_max_none] at hm; subst hm
    rw [aux_sameSet_nil h]; rfl
  | some m =>
    symm; rw [max_spec] at hm ⊢
    exact ⟨(h m).1 hm.1, fun x hx => hm.2 x ((h x).2 hx)⟩

theorem max_perm_invariant {l l' : List α} (h : l ~ l') : maxOp l = maxOp l' :=
  max_dup_invariant (aux_perm_sameSet h)

theorem min_dup_invariant {l l' : List α} (h : SameSet l l') : minOp l = minOp l' := by
  cases hm : minOp l with
  | none =>
    rw [aux_min_none] at hm; subst hm
    rw [aux_sameSet_nil h]; rfl
  | some m =>
    symm; rw [min_spec] at hm ⊢
    exact ⟨(h m).1 hm.1, fun x hx => hm.2 x ((h x).2 hx)⟩

theorem min_perm_invariant {l l' : List α} (h : l ~ l') : minOp l = minOp l' :=
  min_dup_invariant (aux_perm_sameSet h)

/-- "max is idempotent" (the retry assumption also holds for the intermediate states of an
unbounded `max`): re-delivering an element that was already folded in leaves the accumulator
unchanged. -/
theorem max_redelivery_absorbed (l : List α) (m x : α) (hm : maxOp l = some m) (hx : x ∈ l) :
    maxStep m x = m := by
  have := ((max_spec l m).1 hm).2 x hx
  simp [maxStep, not_lt.2 this]

theorem min_redelivery_absorbed (l : List α) (m x : α) (hm : minOp l = some m) (hx : x ∈ l) :
    minStep m x = m := by
  have := ((min_spec l m).1 hm).2 x hx
  simp [minStep, not_lt.2 this]

end order


/-! ### first / last (ordered inputs; at-least-once ⇒ stuttering) -/

theorem first_eq_head {α : Type} (l : List α) : firstOp l = l.head? := by
  cases l with
  | nil => rfl
  | cons x xs => simp [firstOp, generatorL, reduceL]

theorem last_eq_getLast {α : Type} (l : List α) : lastOp l = l.getLast? := by
  cases l with
  | nil => rfl
  | cons x xs =>
    simp only [lastOp, reduceL]
    induction xs generalizing x with
    | nil => rfl
    | cons y ys ih => simp only [List.foldl_cons]; rw [ih y]; simp [List.getLast?_cons_cons]

theorem aux_stutter_head {α : Type} {l l' : List α} (h : Stutter l l') : l.head? = l'.head? := by
  induction h with
  | nil => rfl
  | cons x _ _ => rfl
  | dup x _ _ => rfl

theorem aux_stutter_getLast {α : Type} {l l' : List α} (h : Stutter l l') :
    l.getLast? = l'.getLast? := by
  induction h with
  | nil => rfl
  | @cons x l l' h ih =>
    cases h with
    | nil => rfl
    | cons y h' => simp only [List.getLast?_cons_cons]; simpa using ih
    | dup y h' => simp only [List.getLast?_cons_cons]; simpa using ih
  | @dup x l l' h ih => rw [ih]; simp [List.getLast?_cons_cons]

/-- `first` on a `TotalOrder + AtLeastOnce` input: stuttering does not change the result -/
theorem first_dup_invariant {α : Type} {l l' : List α} (h : Stutter l l') : firstOp l = firstOp l' := by
  rw [first_eq_head, first_eq_head, aux_stutter_head h]

/-- `last` on a `TotalOrder + AtLeastOnce` input: stuttering does not change the result -/
theorem last_dup_invariant {α : Type} {l l' : List α} (h : Stutter l l') : lastOp l = lastOp l' := by
  rw [last_eq_getLast, last_eq_getLast, aux_stutter_getLast h]

/-- Observation about the specification, not a violation: `last` is *not* invariant under
re-delivery of an *old* element (`[a,b]` vs `[a,b,a]`); the reading of `TotalOrder + AtLeastOnce`
used here (and by the library's `idempotent` annotations) is stuttering. -/
theorem last_not_invariant_under_redelivery : lastOp [1, 2] ≠ lastOp [1, 2, 1] := by decide

/-- `first`/`last` are order-sensitive: the library only offers them on `O: IsOrdered` inputs -/
theorem first_last_need_order : firstOp [1, 2] ≠ firstOp [2, 1] ∧ lastOp [1, 2] ≠ lastOp [2, 1] := by
  decide

/-! ### count (exactly-once inputs only; any order; intermediates too) -/

theorem count_eq_length {α : Type} (l : List α) : countOp l = l.length := by
  unfold countOp foldL
  suffices ∀ n, l.foldl (fun c _ => c + 1) n = n + l.length by simp [this 0]
  induction l with
  | nil => simp
  | cons x xs ih => intro n; simp only [List.foldl_cons, ih]; simp; omega

theorem count_perm_invariant {α : Type} {l l' : List α} (h : l ~ l') : countOp l = countOp l' := by
  rw [count_eq_length, count_eq_length, h.length_eq]

theorem aux_scan_count {α : Type} (l : List α) (n : Nat) :
    scanL (fun c (_ : α) => c + 1) n l = (List.range l.length).map (fun i => n + 1 + i) := by
  induction l generalizing n with
  | nil => rfl
  | cons x xs ih =>
    simp only [scanL, ih, List.length_cons, List.range_succ_eq_map, List.map_cons, List.map_map]
    congr 1
    apply List.map_congr_left; intro i _; simp; omega

/-- "Order does not affect eventual count, and also does not affect intermediate states":
the sequence of intermediate counts (what an unbounded `count` may expose) is the same for
every arrival order. -/
theorem count_intermediates_perm_invariant {α : Type} {l l' : List α} (h : l ~ l') :
    countStates l = countStates l' := by
  unfold countStates; rw [aux_scan_count, aux_scan_count, h.length_eq]

/-- why `count` is only offered on `ExactlyOnce` streams -/
theorem count_not_dup_invariant : SameSet [7] [7, 7] ∧ countOp [7] ≠ countOp [7, 7] := by
  refine ⟨fun x => by simp, by decide⟩

/-! ### is_empty -/

theorem isEmpty_spec {α : Type} (l : List α) : isEmptyOp l = l.isEmpty := by
  cases l <;> simp [isEmptyOp, first_eq_head]

/-- `is_empty` accepts any order and retry guarantee: same elements ⇒ same answer -/
theorem isEmpty_dup_invariant {α : Type} {l l' : List α} (h : SameSet l l') :
    isEmptyOp l = isEmptyOp l' := by
  rw [isEmpty_spec, isEmpty_spec]
  cases l with
  | nil => rw [aux_sameSet_nil h]
  | cons x xs =>
    cases l' with
    | nil => exact absurd ((h x).1 List.mem_cons_self) (by simp)
    | cons y ys => rfl

theorem isEmpty_perm_invariant {α : Type} {l l' : List α} (h : l ~ l') :
    isEmptyOp l = isEmptyOp l' := isEmpty_dup_invariant (aux_perm_sameSet h)


/-! ### keyed operators -/

section keyed
variable {κ : Type} [BEq κ] [LawfulBEq κ]

theorem aux_group_perm {α : Type} {l l' : List (κ × α)} (h : l ~ l') (k : κ) :
    group k l ~ group k l' := (h.filter _).map _

theorem aux_foldKeyed_eq {α β : Type} (init : β) (f : β → α → β) (l : List (κ × α)) :
    foldKeyedL init f l = foldUp (fun v o => f (o.getD init) v) l [] := rfl

theorem aux_count_fold {α : Type} (vs : List α) (o : Option Nat) :
    vs.foldl (fun o _ => some ((o.getD 0) + 1)) o =
      if vs = [] then o else some (o.getD 0 + vs.length) := by
  induction vs generalizing o with
  | nil => simp
  | cons v vs ih =>
    simp only [List.foldl_cons, ih]
    by_cases h : vs = []
    · subst h; simp
    · simp [h]; omega

/-- `value_counts`: the count of key `k` is the number of `k`'s values; absent keys stay absent -/
theorem valueCounts_spec {α : Type} (l : List (κ × α)) (k : κ) :
    lookup (valueCountsOp l) k = if group k l = [] then none else some (group k l).length := by
  unfold valueCountsOp
  rw [aux_foldKeyed_eq, aux_foldUp_lookup]
  have := aux_count_fold (group k l) none
  simpa [lookup] using this

/-- `value_counts` on a `NoOrder` keyed stream: every arrival order gives the same map -/
theorem valueCounts_perm_invariant {α : Type} {l l' : List (κ × α)} (h : l ~ l') (k : κ) :
    lookup (valueCountsOp l) k = lookup (valueCountsOp l') k := by
  have hp := aux_group_perm h k
  rw [valueCounts_spec, valueCounts_spec, hp.length_eq]
  by_cases e : group k l = []
  · have : group k l' = [] := by rw [e] at hp; exact hp.nil_eq.symm
    simp [e, this]
  · have : group k l' ≠ [] := by
      intro e'; rw [e'] at hp; exact e hp.eq_nil
    simp [e, this]

/-- the entries of a keyed singleton: at most one entry per key -/
def DistinctKeys {β : Type} (l : List (κ × β)) : Prop := (l.map (fun kv => kv.1)).Nodup

theorem aux_group_le_one {β : Type} {l : List (κ × β)} (h : DistinctKeys l) (k : κ) :
    (group k l).length ≤ 1 := by
  induction l with
  | nil => simp [group]
  | cons e rest ih =>
    obtain ⟨k0, v⟩ := e
    have hn : k0 ∉ rest.map (fun kv => kv.1) ∧ DistinctKeys rest := by
      simpa [DistinctKeys] using h
    rw [aux_group_cons]
    by_cases e0 : k0 == k
    · have e1 : k0 = k := eq_of_beq e0
      subst e1
      have : group k0 rest = [] := by
        simp only [group, List.map_eq_nil_iff, List.filter_eq_nil_iff]
        intro kv hkv hk
        apply hn.1
        have e2 : kv.1 = k0 := eq_of_beq hk
        exact List.mem_map.2 ⟨kv, hkv, e2⟩
      simp [this]
    · simp [e0]; exact ih hn.2

theorem intoSingleton_spec {β : Type} (l : List (κ × β)) (k : κ) :
    lookup (intoSingletonOp l) k = (group k l).getLast? := by
  have h := aux_foldUp_lookup (fun (v : β) (_ : Option β) => v) l [] k
  have e : intoSingletonOp l = foldUp (fun (v : β) (_ : Option β) => v) l [] := rfl
  have e0 : lookup ([] : List (κ × β)) k = none := rfl
  rw [e, h, e0]
  have : ∀ (vs : List β) (o : Option β), vs.foldl (fun _ v => some v) o =
      if vs = [] then o else vs.getLast? := by
    intro vs
    induction vs with
    | nil => simp
    | cons v vs ih =>
      intro o
      simp only [List.foldl_cons, ih]
      cases vs <;> simp [List.getLast?_cons_cons]
  rw [this]
  cases hg : group k l with
  | nil => simp
  | cons a b => simp

/-- `into_singleton` (both sites): the closure `map.insert(k, v)` is not commutative in general,
but the entries of a keyed singleton have distinct keys, and then every order gives the same map. -/
theorem intoSingleton_perm_invariant {β : Type} {l l' : List (κ × β)} (hd : DistinctKeys l)
    (h : l ~ l') (k : κ) :
    lookup (intoSingletonOp l) k = lookup (intoSingletonOp l') k := by
  rw [intoSingleton_spec, intoSingleton_spec]
  have hp := aux_group_perm h k
  have h1 := aux_group_le_one hd k
  have : group k l = group k l' := by
    cases hg : group k l with
    | nil => rw [hg] at hp; exact hp.nil_eq
    | cons a b =>
      rw [hg] at h1 hp
      have : b = [] := by cases b with | nil => rfl | cons _ _ => simp at h1
      subst this
      exact (List.perm_singleton.1 hp.symm).symm
  rw [this]

/-- without distinct keys the closure really is order-sensitive (the caveat in the source comment) -/
theorem intoSingleton_needs_distinct_keys :
    lookup (intoSingletonOp [(1, 10), (1, 20)]) 1 ≠ lookup (intoSingletonOp [(1, 20), (1, 10)]) 1 := by
  decide

end keyed

/-! ### get_max_key -/

section maxkey
variable {κ β : Type} [LinearOrder κ]

/-- entries of a keyed singleton, possibly re-delivered: a key determines its entry -/
def FunctionalKeys (l : List (κ × β)) : Prop := ∀ e ∈ l, ∀ e' ∈ l, e.1 = e'.1 → e = e'

theorem aux_foldl_maxKey (xs : List (κ × β)) (x : κ × β) :
    let r := xs.foldl (fun curr new => if curr.1 < new.1 then new else curr) x
    (r = x ∨ r ∈ xs) ∧ x.1 ≤ r.1 ∧ ∀ y ∈ xs, y.1 ≤ r.1 := by
  induction xs generalizing x with
  | nil => simp
  | cons y ys ih =>
    simp only [List.foldl_cons]
    obtain ⟨h1, h2, h3⟩ := ih (if x.1 < y.1 then y else x)
    by_cases hxy : x.1 < y.1
    · simp only [hxy, if_true] at h1 h2 h3 ⊢
      refine ⟨?_, le_trans (le_of_lt hxy) h2, ?_⟩
      · rcases h1 with h | h
        · right; rw [h]; exact List.mem_cons_self
        · right; exact List.mem_cons_of_mem _ h
      · intro z hz
        rcases List.mem_cons.1 hz with rfl | hz
        · exact h2
        · exact h3 z hz
    · simp only [hxy, if_false] at h1 h2 h3 ⊢
      refine ⟨?_, h2, ?_⟩
      · rcases h1 with h | h
        · left; exact h
        · right; exact List.mem_cons_of_mem _ h
      · intro z hz
        rcases List.mem_cons.1 hz with rfl | hz
        · exact le_trans (not_lt.1 hxy) h2
        · exact h3 z hz

theorem getMaxKey_spec (l : List (κ × β)) (hf : FunctionalKeys l) (e : κ × β) :
    getMaxKeyOp l = some e ↔ e ∈ l ∧ ∀ x ∈ l, x.1 ≤ e.1 := by
  cases l with
  | nil => simp [getMaxKeyOp, reduceL]
  | cons x xs =>
    obtain ⟨h1, h2, h3⟩ := aux_foldl_maxKey xs x
    simp only [getMaxKeyOp, reduceL, Option.some.injEq]
    have hr : xs.foldl (fun curr new => if curr.1 < new.1 then new else curr) x ∈ x :: xs := by
      rcases h1 with h | h
      · rw [h]; exact List.mem_cons_self
      · exact List.mem_cons_of_mem _ h
    have hmax : ∀ z ∈ x :: xs,
        z.1 ≤ (xs.foldl (fun curr new => if curr.1 < new.1 then new else curr) x).1 := by
      intro z hz
      rcases List.mem_cons.1 hz with rfl | hz
      · exact h2
      · exact h3 z hz
    constructor
    · rintro rfl; exact ⟨hr, hmax⟩
    · rintro ⟨hm, hle⟩
      exact hf _ hr _ hm (le_antisymm (hle _ hr) (hmax _ hm))

/-- `get_max_key`: "there is only one element associated with each key … repeated elements are
ignored": for entries whose key determines the entry, every order and every duplication gives
the same result. -/
theorem getMaxKey_dup_invariant {l l' : List (κ × β)} (hf : FunctionalKeys l) (h : SameSet l l') :
    getMaxKeyOp l = getMaxKeyOp l' := by
  have hf' : FunctionalKeys l' := fun e he e' he' => hf e ((h e).2 he) e' ((h e').2 he')
  cases hm : getMaxKeyOp l with
  | none =>
    have : l = [] := by cases l <;> simp_all [getMaxKeyOp, reduceL]
    subst this; rw [aux_sameSet_nil h]; rfl
  | some m =>
    symm; rw [getMaxKey_spec _ hf] at hm; rw [getMaxKey_spec _ hf']
    exact ⟨(h m).1 hm.1, fun x hx => hm.2 x ((h x).2 hx)⟩

theorem getMaxKey_perm_invariant {l l' : List (κ × β)} (hf : FunctionalKeys l) (h : l ~ l') :
    getMaxKeyOp l = getMaxKeyOp l' := getMaxKey_dup_invariant hf (aux_perm_sameSet h)

end maxkey

/-! ### repeat_with_keys -/

section repeatKeys
variable {κ α : Type} [BEq κ] [LawfulBEq κ]

theorem aux_group_outer_keys (ks : List κ) (vs : List α) (k : κ) :
    group k (ks.flatMap (fun a => vs.map (fun b => (a, b)))) =
      (ks.filter (fun a => a == k)).flatMap (fun _ => vs) := by
  induction ks with
  | nil => rfl
  | cons a ks ih =>
    have hsplit : group k ((a :: ks).flatMap (fun a => vs.map (fun b => (a, b)))) =
        group k (vs.map (fun b => (a, b))) ++ group k (ks.flatMap (fun a => vs.map (fun b => (a, b)))) := by
      simp [group, List.flatMap_cons, List.filter_append]
    rw [hsplit, ih]
    by_cases h : a == k
    · have : group k (vs.map (fun b => (a, b))) = vs := by
        simp [group, List.filter_map, Function.comp_def, h]
      simp [List.filter_cons, h, this]
    · have : group k (vs.map (fun b => (a, b))) = [] := by
        simp [group, List.filter_map, Function.comp_def, h]
      simp [List.filter_cons, h, this]

theorem aux_group_outer_vals (ks : List κ) (vs : List α) (k : κ) :
    group k (vs.flatMap (fun b => ks.map (fun a => (a, b)))) =
      vs.flatMap (fun b => (ks.filter (fun a => a == k)).map (fun _ => b)) := by
  induction vs with
  | nil => rfl
  | cons b vs ih =>
    have hsplit : group k ((b :: vs).flatMap (fun b => ks.map (fun a => (a, b)))) =
        group k (ks.map (fun a => (a, b))) ++ group k (vs.flatMap (fun b => ks.map (fun a => (a, b)))) := by
      simp [group, List.flatMap_cons, List.filter_append]
    rw [hsplit, ih]
    simp [group, List.flatMap_cons, List.filter_map, Function.comp_def]

theorem aux_filter_nodup (ks : List κ) (hn : ks.Nodup) (k : κ) :
    ks.filter (fun a => a == k) = if k ∈ ks then [k] else [] := by
  induction ks with
  | nil => simp
  | cons a ks ih =>
    have hn' : a ∉ ks ∧ ks.Nodup := by simpa using hn
    rw [List.filter_cons, ih hn'.2]
    by_cases h : a == k
    · have e : a = k := eq_of_beq h
      subst e; simp [hn'.1]
    · have ne : ¬ k = a := fun e => h (by subst e; exact beq_self_eq_true _)
      simp [h, ne]

/-- `repeat_with_keys`: every key of the keyed singleton gets exactly the values of `self`, in
`self`'s order — whichever order the keys come out of the hash map and whichever side the
cross join iterates in its outer loop. -/
theorem repeatWithKeys_spec (ks : List κ) (hn : ks.Nodup) (vs : List α) (k : κ) :
    group k (repeatWithKeysOp ks vs) = if k ∈ ks then vs else [] := by
  unfold repeatWithKeysOp crossJoinTick
  split
  · rw [aux_group_outer_keys, aux_filter_nodup ks hn]
    by_cases h : k ∈ ks <;> simp [h]
  · rw [aux_group_outer_vals, aux_filter_nodup ks hn]
    by_cases h : k ∈ ks
    · simp [h]
    · simp [h]

/-- "keyed stream does not depend on ordering of keys" -/
theorem repeatWithKeys_perm_invariant {ks ks' : List κ} (hn : ks.Nodup) (h : ks ~ ks')
    (vs : List α) (k : κ) :
    group k (repeatWithKeysOp ks vs) = group k (repeatWithKeysOp ks' vs) := by
  rw [repeatWithKeys_spec ks hn, repeatWithKeys_spec ks' (h.nodup_iff.1 hn)]
  by_cases hk : k ∈ ks
  · simp [hk, h.mem_iff.1 hk]
  · have : k ∉ ks' := fun h' => hk (h.mem_iff.2 h')
    simp [hk, this]

end repeatKeys

/-! ### weaken_ordering / weaken_retries / make_totally_ordered / make_exactly_once -/

inductive OrdG | total | noOrder
inductive RetG | exactlyOnce | atLeastOnce

/-- the deliveries a stream of type `(o, r)` may make of the canonical content `c` -/
def Admissible {α : Type} : OrdG → RetG → List α → List α → Prop
  | .total, .exactlyOnce, c, l => l = c
  | .total, .atLeastOnce, c, l => Stutter c l
  | .noOrder, .exactlyOnce, c, l => c ~ l
  | .noOrder, .atLeastOnce, c, l => SameSet c l

def OrdG.weakerEq : OrdG → OrdG → Bool
  | _, .total => true
  | .noOrder, .noOrder => true
  | .total, .noOrder => false
def RetG.weakerEq : RetG → RetG → Bool
  | _, .exactlyOnce => true
  | .atLeastOnce, .atLeastOnce => true
  | .exactlyOnce, .atLeastOnce => false

theorem aux_stutter_sameSet {α : Type} {c l : List α} (h : Stutter c l) : SameSet c l := by
  induction h with
  | nil => intro x; rfl
  | cons y _ ih => intro x; simp [ih x]
  | dup y _ ih => intro x; rw [ih x]; simp

/-- the weakening casts emit no code (`castOp = id`); they are sound because every delivery
admissible at the stronger type is admissible at the weaker one. -/
theorem weaken_sound {α : Type} (o o' : OrdG) (r r' : RetG) (ho : o'.weakerEq o = true)
    (hr : r'.weakerEq r = true) (c l : List α) (h : Admissible o r c l) :
    Admissible o' r' c (castOp l) := by
  cases o <;> cases o' <;> cases r <;> cases r' <;>
    simp_all [Admissible, castOp, OrdG.weakerEq, RetG.weakerEq]
  all_goals first
    | exact aux_stutter_refl _
    | exact aux_perm_sameSet h
    | exact aux_stutter_sameSet h
    | exact aux_perm_sameSet (List.Perm.refl _)


/-! ### the call sites (T): every `*_trusted*` call in the source is one of the modelled ones -/

/-- which modelled operator a call site belongs to -/
inductive OpKind
  | max | min | first | last | count | isEmpty | repeatWithKeys | valueCounts
  | intoSingleton | getMaxKey
  | cast            -- weaken_* / make_*: no code emitted
  | boundedHelper   -- `assume_ordering_trusted_bounded` forwarding to `assume_ordering_trusted` iff `B::BOUNDED`
  | consistency     -- `assert_has_consistency_of_trusted`: cluster consistency, not an order/retry assumption (outside C32)
  | test            -- inside `mod tests`
  deriving DecidableEq, Repr

open Gen in
/-- the call sites this file's theorems were written for (line numbers deliberately absent) -/
def expectedSites : List (Gen.Site × OpKind) := [
  (⟨"live_collections/keyed_singleton.rs", "into_singleton_inside_tick", "assume_ordering_trusted", "", false⟩, .intoSingleton),
  (⟨"live_collections/keyed_singleton.rs", "into_singleton", "assume_ordering_trusted", "", false⟩, .intoSingleton),
  (⟨"live_collections/keyed_singleton.rs", "get_max_key", "assume_ordering_trusted", "", false⟩, .getMaxKey),
  (⟨"live_collections/keyed_stream/mod.rs", "weaken_ordering", "assume_ordering_trusted", "O2", false⟩, .cast),
  (⟨"live_collections/keyed_stream/mod.rs", "make_totally_ordered", "assume_ordering_trusted", "", false⟩, .cast),
  (⟨"live_collections/keyed_stream/mod.rs", "weaken_retries", "assume_retries_trusted", "R2", false⟩, .cast),
  (⟨"live_collections/keyed_stream/mod.rs", "make_exactly_once", "assume_retries_trusted", "", false⟩, .cast),
  (⟨"live_collections/keyed_stream/mod.rs", "value_counts", "assume_ordering_trusted", "", false⟩, .valueCounts),
  (⟨"live_collections/sliced/mod.rs", "sim_sliced_atomic_keyed_stream", "assume_ordering_trusted", "", true⟩, .test),
  (⟨"live_collections/stream/mod.rs", "max", "assume_retries_trusted", "ExactlyOnce", false⟩, .max),
  (⟨"live_collections/stream/mod.rs", "max", "assume_ordering_trusted_bounded", "TotalOrder", false⟩, .max),
  (⟨"live_collections/stream/mod.rs", "min", "assume_retries_trusted", "ExactlyOnce", false⟩, .min),
  (⟨"live_collections/stream/mod.rs", "min", "assume_ordering_trusted_bounded", "TotalOrder", false⟩, .min),
  (⟨"live_collections/stream/mod.rs", "first", "assume_retries_trusted", "ExactlyOnce", false⟩, .first),
  (⟨"live_collections/stream/mod.rs", "last", "assume_retries_trusted", "ExactlyOnce", false⟩, .last),
  (⟨"live_collections/stream/mod.rs", "assume_ordering_trusted_bounded", "assume_ordering_trusted", "", false⟩, .boundedHelper),
  (⟨"live_collections/stream/mod.rs", "weaken_ordering", "assume_ordering_trusted", "O2", false⟩, .cast),
  (⟨"live_collections/stream/mod.rs", "make_totally_ordered", "assume_ordering_trusted", "", false⟩, .cast),
  (⟨"live_collections/stream/mod.rs", "weaken_retries", "assume_retries_trusted", "R2", false⟩, .cast),
  (⟨"live_collections/stream/mod.rs", "make_exactly_once", "assume_retries_trusted", "", false⟩, .cast),
  (⟨"live_collections/stream/mod.rs", "count", "assume_ordering_trusted", "TotalOrder", false⟩, .count),
  (⟨"live_collections/stream/mod.rs", "repeat_with_keys", "assume_ordering_trusted", "TotalOrder", false⟩, .repeatWithKeys),
  (⟨"live_collections/stream/mod.rs", "is_empty", "assume_ordering_trusted", "TotalOrder", false⟩, .isEmpty),
  (⟨"live_collections/stream/networking.rs", "broadcast_closed", "assert_has_consistency_of_trusted", "", false⟩, .consistency),
  (⟨"live_collections/stream/networking.rs", "broadcast_closed", "assert_has_consistency_of_trusted", "Cluster<'a,L,C>", false⟩, .consistency),
  (⟨"live_collections/stream/networking.rs", "broadcast_closed", "assert_has_consistency_of_trusted", "", false⟩, .consistency),
  (⟨"location/mod.rs", "source_interval", "assert_has_consistency_of_trusted", "", false⟩, .consistency),
  (⟨"location/mod.rs", "source_interval_delayed", "assert_has_consistency_of_trusted", "", false⟩, .consistency)
]

/-- (T) The list of `*_trusted*` call sites extracted from the current source is exactly the
list the theorems below were written for; a new, removed or moved call site breaks this. -/
theorem sites_are_the_modelled_ones : Gen.c32Sites = expectedSites.map (fun p => p.1) := by
  decide

/-- what is proved for each kind of call site (over ℤ-like element types: any linear order) -/
def Justified : OpKind → Prop
  | .max => ∀ l l' : List Int, SameSet l l' → maxOp l = maxOp l'
  | .min => ∀ l l' : List Int, SameSet l l' → minOp l = minOp l'
  | .first => ∀ l l' : List Int, Stutter l l' → firstOp l = firstOp l'
  | .last => ∀ l l' : List Int, Stutter l l' → lastOp l = lastOp l'
  | .count => ∀ l l' : List Int, l ~ l' → countOp l = countOp l' ∧ countStates l = countStates l'
  | .isEmpty => ∀ l l' : List Int, SameSet l l' → isEmptyOp l = isEmptyOp l'
  | .repeatWithKeys => ∀ (ks ks' : List Int) (vs : List Int) (k : Int), ks.Nodup → ks ~ ks' →
      group k (repeatWithKeysOp ks vs) = group k (repeatWithKeysOp ks' vs)
  | .valueCounts => ∀ (l l' : List (Int × Int)) (k : Int), l ~ l' →
      lookup (valueCountsOp l) k = lookup (valueCountsOp l') k
  | .intoSingleton => ∀ (l l' : List (Int × Int)) (k : Int), DistinctKeys l → l ~ l' →
      lookup (intoSingletonOp l) k = lookup (intoSingletonOp l') k
  | .getMaxKey => ∀ (l l' : List (Int × Int)), FunctionalKeys l → SameSet l l' →
      getMaxKeyOp l = getMaxKeyOp l'
  | .cast => ∀ (o o' : OrdG) (r r' : RetG) (c l : List Int), o'.weakerEq o = true → r'.weakerEq r = true →
      Admissible o r c l → Admissible o' r' c (castOp l)
  | .boundedHelper => True
  | .consistency => True
  | .test => True

/-- every extracted call site is mapped to an operator whose invariance is proved above -/
theorem every_site_justified : ∀ p ∈ expectedSites, Justified p.2 := by
  have hmax : Justified .max := fun _ _ h => max_dup_invariant h
  have hmin : Justified .min := fun _ _ h => min_dup_invariant h
  have hfirst : Justified .first := fun _ _ h => first_dup_invariant h
  have hlast : Justified .last := fun _ _ h => last_dup_invariant h
  have hcount : Justified .count := fun _ _ h => ⟨count_perm_invariant h, count_intermediates_perm_invariant h⟩
  have hemp : Justified .isEmpty := fun _ _ h => isEmpty_dup_invariant h
  have hrep : Justified .repeatWithKeys := fun ks ks' vs k hn h => repeatWithKeys_perm_invariant hn h vs k
  have hvc : Justified .valueCounts := fun _ _ k h => valueCounts_perm_invariant h k
  have his : Justified .intoSingleton := fun _ _ k hd h => intoSingleton_perm_invariant hd h k
  have hgm : Justified .getMaxKey := fun _ _ hf h => getMaxKey_dup_invariant hf h
  have hcast : Justified .cast := fun o o' r r' c l ho hr h => weaken_sound o o' r r' ho hr c l h
  intro p hp
  rcases p with ⟨s, k⟩
  cases k <;> first | assumption | trivial

/-! ### non-vacuity -/
example : SameSet [3, 1, 2] [2, 2, 3, 1, 3] ∧ maxOp [3, 1, 2] = some 3 ∧ maxOp [2, 2, 3, 1, 3] = some 3 := by
  refine ⟨?_, by decide, by decide⟩
  intro x; simp; omega
example : Stutter [1, 2, 3] [1, 1, 2, 3, 3, 3] :=
  .dup 1 (.cons 1 (.cons 2 (.dup 3 (.dup 3 (.cons 3 .nil)))))
example : lastOp [1, 2, 3] = some 3 ∧ lastOp [1, 1, 2, 3, 3, 3] = some 3 ∧ firstOp [1, 1, 2] = some 1 := by decide
example : valueCountsOp [(1, 5), (2, 6), (1, 7)] = [(1, 2), (2, 1)] := by decide
example : DistinctKeys [(1, 10), (2, 20)] ∧ intoSingletonOp [(2, 20), (1, 10)] = [(2, 20), (1, 10)] := by
  refine ⟨by simp [DistinctKeys], by decide⟩
example : getMaxKeyOp [(1, 10), (3, 30), (2, 20), (3, 30)] = some (3, 30) := by decide
example : repeatWithKeysOp [7, 8] [1, 2, 3] = [(7, 1), (7, 2), (7, 3), (8, 1), (8, 2), (8, 3)] ∧
    repeatWithKeysOp [7, 8, 9] [1, 2] = [(7, 1), (8, 1), (9, 1), (7, 2), (8, 2), (9, 2)] := by decide

end HvHydro2
