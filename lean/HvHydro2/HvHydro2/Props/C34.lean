/-
C34 — Atomic acknowledgements imply read-after-write.

Model: `Model/Atomic.lean`: one run of an atomic region's tick takes a batch of the buffered writes
(how many is an explicit decision; production takes all that arrived), folds them into the state
and releases exactly those writes through `end_atomic`; `use::atomic` / `snapshot_atomic` reads the
region's state as of that run.

* `ack_implies_visible` : for EVERY schedule, the state an atomic snapshot reads in tick `t` is the
  fold of exactly the writes acknowledged in ticks `0..t` (acknowledged ⇒ visible, and nothing
  unacknowledged is visible).
* `later_snapshot_extends_earlier` : a later atomic snapshot is an earlier one with the writes
  acknowledged in between folded in — an acknowledged update is never lost.
* `acks_partition_writes` : acknowledgements are exactly the writes, each once, in order.
* `keyed_counter_read_after_write` : the per-key counter of the tutorial: a `get` in tick `t'`
  sees at least the increments of its key acknowledged in ticks `≤ t ≤ t'` (exactly those `≤ t'`).
Partial: the placement of the region's operators into one tick is modelled (production lowers
`BeginAtomic`/`EndAtomic`/`Batch` to `out = in` on one DFIR graph), tied by the corpus only.
-/
import HvHydro2.Model.Atomic
import HvHydro2.Model.SimTie
import HvHydro2.Lemmas.Keyed
import Mathlib.Data.List.Basic

set_option linter.unusedSectionVars false
set_option linter.unusedSimpArgs false

namespace HvHydro2
open List

/-- the acknowledgements released in ticks `0..t` (inclusive) -/
def acksUpTo {σ α : Type} (run : List (List α × σ)) (t : Nat) : List α :=
  ((run.take (t + 1)).map (fun p => p.1)).flatten

/-- region state after the whole schedule (for the partition statement) -/
def finalAtom {σ α : Type} (f : σ → α → σ) : AtomSt σ α → List (List α × Nat) → AtomSt σ α
  | s, [] => s
  | s, (arr, n) :: rest => finalAtom f (atomTick f s arr n).1 rest

/-- acknowledgements are the writes: each once, in order; the rest is still buffered -/
theorem acks_partition_writes {σ α : Type} (f : σ → α → σ) (s : AtomSt σ α)
    (sched : List (List α × Nat)) :
    ((runAtomic f s sched).map (fun p => p.1)).flatten ++ (finalAtom f s sched).buf =
      s.buf ++ (sched.map (fun p => p.1)).flatten := by
  induction sched generalizing s with
  | nil => simp [runAtomic, finalAtom]
  | cons p rest ih =>
    obtain ⟨arr, n⟩ := p
    simp only [runAtomic, finalAtom, List.map_cons, List.flatten_cons, List.append_assoc]
    rw [ih]
    simp only [atomTick]
    rw [← List.append_assoc, List.take_append_drop, List.append_assoc]

/-- Acknowledged ⇒ visible (and only acknowledged writes are visible): in every schedule, the
state read by an atomic snapshot in tick `t` is the initial state with exactly the writes
acknowledged in ticks `0..t` folded in, in acknowledgement order. -/
theorem ack_implies_visible {σ α : Type} (f : σ → α → σ) (s : AtomSt σ α)
    (sched : List (List α × Nat)) (t : Nat) (a : List α) (st : σ)
    (h : (runAtomic f s sched)[t]? = some (a, st)) :
    st = (acksUpTo (runAtomic f s sched) t).foldl f s.st := by
  induction sched generalizing s t with
  | nil => simp [runAtomic] at h
  | cons p rest ih =>
    obtain ⟨arr, n⟩ := p
    cases t with
    | zero =>
      simp only [runAtomic, List.getElem?_cons_zero, Option.some.injEq, Prod.mk.injEq] at h
      simp [acksUpTo, runAtomic, ← h.2, atomTick]
    | succ t =>
      simp only [runAtomic, List.getElem?_cons_succ] at h
      have := ih (atomTick f s arr n).1 t h
      rw [this]
      simp [acksUpTo, runAtomic, atomTick, List.foldl_append]

/-- a later atomic snapshot is the earlier one with the writes acknowledged in between folded in -/
theorem later_snapshot_extends_earlier {σ α : Type} (f : σ → α → σ) (s : AtomSt σ α)
    (sched : List (List α × Nat)) (t d : Nat) (a a' : List α) (st st' : σ)
    (h : (runAtomic f s sched)[t]? = some (a, st))
    (h' : (runAtomic f s sched)[t + d]? = some (a', st')) :
    ∃ between, acksUpTo (runAtomic f s sched) (t + d) = acksUpTo (runAtomic f s sched) t ++ between ∧
      st' = between.foldl f st := by
  refine ⟨((((runAtomic f s sched).drop (t + 1)).take d).map (fun p => p.1)).flatten, ?_, ?_⟩
  · unfold acksUpTo
    rw [← List.flatten_append, ← List.map_append]
    congr 2
    have : t + d + 1 = (t + 1) + d := by omega
    rw [this, List.take_add]
  · rw [ack_implies_visible f s sched (t + d) a' st' h', ack_implies_visible f s sched t a st h]
    unfold acksUpTo
    rw [← List.foldl_append, ← List.flatten_append, ← List.map_append]
    congr 3
    have : t + d + 1 = (t + 1) + d := by omega
    rw [this, List.take_add]

/-- What an atomic snapshot reads is the fold of a PREFIX of all the writes (buffered + arriving, in
order), namely of exactly those acknowledged so far - for every schedule.  This is the shape the
verdict `simAtomicOk` on recorded simulator executions accepts: a response is the sum of a prefix of
the writes that contains every write acknowledged before. -/
theorem atomic_snapshot_reads_acked_prefix {σ α : Type} (f : σ → α → σ) (s : AtomSt σ α)
    (sched : List (List α × Nat)) (t : Nat) (a : List α) (st : σ)
    (h : (runAtomic f s sched)[t]? = some (a, st)) :
    acksUpTo (runAtomic f s sched) t <+: s.buf ++ (sched.map (fun p => p.1)).flatten ∧
      st = (acksUpTo (runAtomic f s sched) t).foldl f s.st := by
  refine ⟨?_, ack_implies_visible f s sched t a st h⟩
  induction sched generalizing s t with
  | nil => simp [runAtomic] at h
  | cons p rest ih =>
    obtain ⟨arr, n⟩ := p
    cases t with
    | zero =>
      simp only [acksUpTo, runAtomic, atomTick, List.take_succ_cons, List.take_zero, List.map_cons,
        List.map_nil, List.flatten_cons, List.flatten_nil, List.append_nil]
      rw [← List.append_assoc]
      exact (List.take_prefix n _).trans (List.prefix_append _ _)
    | succ t =>
      simp only [runAtomic, List.getElem?_cons_succ] at h
      have := ih (atomTick f s arr n).1 t h
      simp only [acksUpTo, runAtomic, List.take_succ_cons, List.map_cons, List.flatten_cons] at this ⊢
      simp only [atomTick] at this ⊢
      have e : s.buf ++ (arr ++ (rest.map (fun p => p.1)).flatten) =
          (s.buf ++ arr).take n ++ ((s.buf ++ arr).drop n ++ (rest.map (fun p => p.1)).flatten) := by
        rw [← List.append_assoc, ← List.append_assoc, List.take_append_drop]
      rw [e]
      exact (List.prefix_append_right_inj _).2 this

example : simAtomicOk [.w 2, .w 3, .ack 2, .r 1, .fin, .ack 3, .resp 1 5] = true ∧
    simAtomicOk [.w 2, .ack 2, .r 1, .fin, .resp 1 0] = false := by decide

/-! ### the keyed counter -/

theorem aux_counter_lookup (ws : List (Int × Int)) (m : List (Int × Nat)) (k : Int) :
    (lookup (ws.foldl counterStep m) k).getD 0 =
      (lookup m k).getD 0 + (ws.filter (fun w => w.2 == k)).length := by
  induction ws generalizing m with
  | nil => simp
  | cons w ws ih =>
    simp only [List.foldl_cons, ih, counterStep, aux_lookup_upsert, List.filter_cons]
    by_cases h : w.2 == k
    · have e : w.2 = k := eq_of_beq h
      simp [h, e]; omega
    · simp [h]

/-- the number of acknowledged increments of `key` in ticks `0..t` -/
def ackedIncrements (run : List (List (Int × Int) × List (Int × Nat))) (t : Nat) (key : Int) : Nat :=
  ((acksUpTo run t).filter (fun w => w.2 == key)).length

/-- Read-after-write for the keyed counter, every schedule: a `get` served from the atomic
snapshot of tick `t + d` sees exactly the increments of its key acknowledged up to that tick, hence
at least those acknowledged up to any earlier tick `t`. -/
theorem keyed_counter_read_after_write (s : AtomSt (List (Int × Nat)) (Int × Int))
    (hs : s.st = []) (sched : List (List (Int × Int) × Nat)) (t d : Nat)
    (a : List (Int × Int)) (m : List (Int × Nat))
    (h : (runAtomic counterStep s sched)[t + d]? = some (a, m)) (key : Int) :
    (lookup m key).getD 0 = ackedIncrements (runAtomic counterStep s sched) (t + d) key ∧
      ackedIncrements (runAtomic counterStep s sched) t key ≤ (lookup m key).getD 0 := by
  have hv := ack_implies_visible counterStep s sched (t + d) a m h
  have e1 : (lookup m key).getD 0 = ackedIncrements (runAtomic counterStep s sched) (t + d) key := by
    rw [hv, aux_counter_lookup, hs]; simp [ackedIncrements, lookup]
  refine ⟨e1, ?_⟩
  rw [e1]
  unfold ackedIncrements acksUpTo
  have e2 : (runAtomic counterStep s sched).take (t + d + 1) =
      (runAtomic counterStep s sched).take (t + 1) ++
        ((runAtomic counterStep s sched).drop (t + 1)).take d := by
    have : t + d + 1 = (t + 1) + d := by omega
    rw [this]; exact List.take_add
  rw [e2, List.map_append, List.flatten_append, List.filter_append, List.length_append]
  omega

/-- production schedule (`begin_atomic` / `end_atomic`: `out = in`): every write is acknowledged in
the tick it arrives and is visible to that tick's atomic snapshot -/
theorem prod_atomic_acks_same_tick {σ α : Type} (f : σ → α → σ) (st : σ) (hist : List (List α)) :
    (runAtomic f ⟨[], st⟩ (prodSchedule hist)).map (fun p => p.1) = hist := by
  induction hist generalizing st with
  | nil => rfl
  | cons b rest ih =>
    simp only [prodSchedule, List.map_cons, runAtomic, atomTick, List.nil_append, List.take_length,
      List.drop_length] at ih ⊢
    rw [ih]

/-- Why the read has to be *atomic*: an ordinary snapshot hook (`Model/Sliced.lean`, the
simulator's `SingletonHook`) may legally re-release an older version after newer ones were queued,
so a read through `use::snapshot` can miss a write that was already acknowledged.  Versions:
`1` = state after the first write; the hook is asked twice and the second decision re-releases. -/
theorem nonatomic_snapshot_can_miss_ack :
    runSnaps ⟨[], none⟩ [([0], .pick 0), ([1], .again)] = [some 0, some 0] := by decide

/-! ### non-vacuity -/
example : runAtomic (fun (s : Int) w => s + w) ⟨[], 0⟩ [([1, 2], 1), ([3], 5), ([], 1)] =
    [([1], 1), ([2, 3], 6), ([], 6)] := by decide
example : runAtomic counterStep ⟨[], []⟩ [([(0, 7), (1, 7)], 2), ([(0, 8)], 1)] =
    [([(0, 7), (1, 7)], [(7, 2)]), ([(0, 8)], [(7, 2), (8, 1)])] := by decide

end HvHydro2
