/-
C34 — Atomic acknowledgements imply read-after-write.

Model: `Model/Atomic.lean`: one run of an atomic region's tick takes a batch of the buffered writes
(how many is an explicit decision; production takes all that arrived), folds them into the state
and releases exactly those writes through `end_atomic`; `use::atomic` / `snapshot_atomic` reads the
region's state as of that run.

* `ack_implies_visible` : for EVERY schedule, the state an atomic snapshot reads in tick `t` is the
  fold of exactly the writes acknowledged in ticks `0..t` (acknowledged ⇒ visible, and nothing
  unacknowledged is visible).
* `later_snapshot_extends_earlier` : a later atomic snapshot is an earlier one with the writes
  acknowledged in between folded in — an acknowledged update is never lost.
* `acks_partition_writes` : acknowledgements are exactly the writes, each once, in order.
* `keyed_counter_read_after_write` : the per-key counter of the tutorial: a `get` in tick `t'`
  sees at least the increments of its key acknowledged in ticks `≤ t ≤ t'` (exactly those `≤ t'`).
* `lastWriter_ack_implies_visible`, `lastWriter_read_after_ack`, `max_ack_implies_visible`,
  `keyed_lww_read_after_write` : the same region with reduce-style state (`last` / `max` / keyed
  `reduce`): a read sees the last (max) acknowledged write, also ticks later without new writes.
Partial: the placement of the region's operators into one tick is modelled (production lowers
`BeginAtomic`/`EndAtomic`/`Batch` to `out = in` on one DFIR graph), tied by the corpus only.
-/
import HvHydro2.Model.Atomic
import HvHydro2.Model.SimTie
import HvHydro2.Lemmas.Keyed
import Mathlib.Data.List.Basic

set_option linter.unusedSectionVars false
set_option linter.unusedSimpArgs false

namespace HvHydro2
open List

/-- the acknowledgements released in ticks `0..t` (inclusive) -/
def acksUpTo {σ α : Type} (run : List (List α × σ)) (t : Nat) : List α :=
  ((run.take (t + 1)).map (fun p => p.1)).flatten

/-- region state after the whole schedule (for the partition statement) -/
def finalAtom {σ α : Type} (f : σ → α → σ) : AtomSt σ α → List (List α × Nat) → AtomSt σ α
  | s, [] => s
  | s, (arr, n) :: rest => finalAtom f (atomTick f s arr n).1 rest

/-- acknowledgements are the writes: each once, in order; the rest is still buffered -/
theorem acks_partition_writes {σ α : Type} (f : σ → α → σ) (s : AtomSt σ α)
    (sched : List (List α × Nat)) :
    ((runAtomic f s sched).map (fun p => p.1)).flatten ++ (finalAtom f s sched).buf =
      s.buf ++ (sched.map (fun p => p.1)).flatten := by
  induction sched generalizing s with
  | nil => simp [runAtomic, finalAtom]
  | cons p rest ih =>
    obtain ⟨arr, n⟩ := p
    simp only [runAtomic, finalAtom, List.map_cons, List.flatten_cons, List.append_assoc]
    rw [ih]
    simp only [atomTick]
    rw [← List.append_assoc, List.take_append_drop, List.append_assoc]

/-- Acknowledged ⇒ visible (and only acknowledged writes are visible): in every schedule, the
state read by an atomic snapshot in tick `t` is the initial state with exactly the writes
acknowledged in ticks `0..t` folded in, in acknowledgement order. -/
theorem ack_implies_visible {σ α : Type} (f : σ → α → σ) (s : AtomSt σ α)
    (sched : List (List α × Nat)) (t : Nat) (a : List α) (st : σ)
    (h : (runAtomic f s sched)[t]? = some (a, st)) :
    st = (acksUpTo (runAtomic f s sched) t).foldl f s.st := by
  induction sched generalizing s t with
  | nil => simp [runAtomic] at h
  | cons p rest ih =>
    obtain ⟨arr, n⟩ := p
    cases t with
    | zero =>
      simp only [runAtomic, List.getElem?_cons_zero, Option.some.injEq, Prod.mk.injEq] at h
      simp [acksUpTo, runAtomic, ← h.2, atomTick]
    | succ t =>
      simp only [runAtomic, List.getElem?_cons_succ] at h
      have := ih (atomTick f s arr n).1 t h
      rw [this]
      simp [acksUpTo, runAtomic, atomTick, List.foldl_append]

/-- a later atomic snapshot is the earlier one with the writes acknowledged in between folded in -/
theorem later_snapshot_extends_earlier {σ α : Type} (f : σ → α → σ) (s : AtomSt σ α)
    (sched : List (List α × Nat)) (t d : Nat) (a a' : List α) (st st' : σ)
    (h : (runAtomic f s sched)[t]? = some (a, st))
    (h' : (runAtomic f s sched)[t + d]? = some (a', st')) :
    ∃ between, acksUpTo (runAtomic f s sched) (t + d) = acksUpTo (runAtomic f s sched) t ++ between ∧
      st' = between.foldl f st := by
  refine ⟨((((runAtomic f s sched).drop (t + 1)).take d).map (fun p => p.1)).flatten, ?_, ?_⟩
  · unfold acksUpTo
    rw [← List.flatten_append, ← List.map_append]
    congr 2
    have : t + d + 1 = (t + 1) + d := by omega
    rw [this, List.take_add]
  · rw [ack_implies_visible f s sched (t + d) a' st' h', ack_implies_visible f s sched t a st h]
    unfold acksUpTo
    rw [← List.foldl_append, ← List.flatten_append, ← List.map_append]
    congr 3
    have : t + d + 1 = (t + 1) + d := by omega
    rw [this, List.take_add]

/-- What an atomic snapshot reads is the fold of a PREFIX of all the writes (buffered + arriving, in
order), namely of exactly those acknowledged so far - for every schedule.  This is the shape the
verdict `simAtomicOk` on recorded simulator executions accepts: a response is the sum of a prefix of
the writes that contains every write acknowledged before. -/
theorem atomic_snapshot_reads_acked_prefix {σ α : Type} (f : σ → α → σ) (s : AtomSt σ α)
    (sched : List (List α × Nat)) (t : Nat) (a : List α) (st : σ)
    (h : (runAtomic f s sched)[t]? = some (a, st)) :
    acksUpTo (runAtomic f s sched) t <+: s.buf ++ (sched.map (fun p => p.1)).flatten ∧
      st = (acksUpTo (runAtomic f s sched) t).foldl f s.st := by
  refine ⟨?_, ack_implies_visible f s sched t a st h⟩
  induction sched generalizing s t with
  | nil => simp [runAtomic] at h
  | cons p rest ih =>
    obtain ⟨arr, n⟩ := p
    cases t with
    | zero =>
      simp only [acksUpTo, runAtomic, atomTick, List.take_succ_cons, List.take_zero, List.map_cons,
        List.map_nil, List.flatten_cons, List.flatten_nil, List.append_nil]
      rw [← List.append_assoc]
      exact (List.take_prefix n _).trans (List.prefix_append _ _)
    | succ t =>
      simp only [runAtomic, List.getElem?_cons_succ] at h
      have := ih (atomTick f s arr n).1 t h
      simp only [acksUpTo, runAtomic, List.take_succ_cons, List.map_cons, List.flatten_cons] at this ⊢
      simp only [atomTick] at this ⊢
      have e : s.buf ++ (arr ++ (rest.map (fun p => p.1)).flatten) =
          (s.buf ++ arr).take n ++ ((s.buf ++ arr).drop n ++ (rest.map (fun p => p.1)).flatten) := by
        rw [← List.append_assoc, ← List.append_assoc, List.take_append_drop]
      rw [e]
      exact (List.prefix_append_right_inj _).2 this

example : simAtomicOk [.w 2, .w 3, .ack 2, .r 1, .fin, .ack 3, .resp 1 5] = true ∧
    simAtomicOk [.w 2, .ack 2, .r 1, .fin, .resp 1 0] = false := by decide

/-! ### the keyed counter -/

theorem aux_counter_lookup (ws : List (Int × Int)) (m : List (Int × Nat)) (k : Int) :
    (lookup (ws.foldl counterStep m) k).getD 0 =
      (lookup m k).getD 0 + (ws.filter (fun w => w.2 == k)).length := by
  induction ws generalizing m with
  | nil => simp
  | cons w ws ih =>
    simp only [List.foldl_cons, ih, counterStep, aux_lookup_upsert, List.filter_cons]
    by_cases h : w.2 == k
    · have e : w.2 = k := eq_of_beq h
      simp [h, e]; omega
    · simp [h]

/-- the number of acknowledged increments of `key` in ticks `0..t` -/
def ackedIncrements (run : List (List (Int × Int) × List (Int × Nat))) (t : Nat) (key : Int) : Nat :=
  ((acksUpTo run t).filter (fun w => w.2 == key)).length

/-- Read-after-write for the keyed counter, every schedule: a `get` served from the atomic
snapshot of tick `t + d` sees exactly the increments of its key acknowledged up to that tick, hence
at least those acknowledged up to any earlier tick `t`. -/
theorem keyed_counter_read_after_write (s : AtomSt (List (Int × Nat)) (Int × Int))
    (hs : s.st = []) (sched : List (List (Int × Int) × Nat)) (t d : Nat)
    (a : List (Int × Int)) (m : List (Int × Nat))
    (h : (runAtomic counterStep s sched)[t + d]? = some (a, m)) (key : Int) :
    (lookup m key).getD 0 = ackedIncrements (runAtomic counterStep s sched) (t + d) key ∧
      ackedIncrements (runAtomic counterStep s sched) t key ≤ (lookup m key).getD 0 := by
  have hv := ack_implies_visible counterStep s sched (t + d) a m h
  have e1 : (lookup m key).getD 0 = ackedIncrements (runAtomic counterStep s sched) (t + d) key := by
    rw [hv, aux_counter_lookup, hs]; simp [ackedIncrements, lookup]
  refine ⟨e1, ?_⟩
  rw [e1]
  unfold ackedIncrements acksUpTo
  have e2 : (runAtomic counterStep s sched).take (t + d + 1) =
      (runAtomic counterStep s sched).take (t + 1) ++
        ((runAtomic counterStep s sched).drop (t + 1)).take d := by
    have : t + d + 1 = (t + 1) + d := by omega
    rw [this]; exact List.take_add
  rw [e2, List.map_append, List.flatten_append, List.filter_append, List.length_append]
  omega

/-- production schedule (`begin_atomic` / `end_atomic`: `out = in`): every write is acknowledged in
the tick it arrives and is visible to that tick's atomic snapshot -/
theorem prod_atomic_acks_same_tick {σ α : Type} (f : σ → α → σ) (st : σ) (hist : List (List α)) :
    (runAtomic f ⟨[], st⟩ (prodSchedule hist)).map (fun p => p.1) = hist := by
  induction hist generalizing st with
  | nil => rfl
  | cons b rest ih =>
    simp only [prodSchedule, List.map_cons, runAtomic, atomTick, List.nil_append, List.take_length,
      List.drop_length] at ih ⊢
    rw [ih]

/-- Why the read has to be *atomic*: an ordinary snapshot hook (`Model/Sliced.lean`, the
simulator's `SingletonHook`) may legally re-release an older version after newer ones were queued,
so a read through `use::snapshot` can miss a write that was already acknowledged.  Versions:
`1` = state after the first write; the hook is asked twice and the second decision re-releases. -/
theorem nonatomic_snapshot_can_miss_ack :
    runSnaps ⟨[], none⟩ [([0], .pick 0), ([1], .again)] = [some 0, some 0] := by decide

/-! ### reduce-style registers: last-writer-wins (`last` / `reduce`), `max`, keyed `reduce`

The state of these registers is kept by DFIR `reduce` / `reduce_keyed` (`emit_core`'s Reduce /
ReduceKeyed arm), which must be `'static` in an atomic region exactly like the fold of the summing
register.  The model is the same region with "keep last" / "keep max" as the fold. -/

theorem aux_lww_foldl {α : Type} (l : List α) (o : Option α) :
    l.foldl lwwStep o = l.getLast?.or o := by
  induction l generalizing o with
  | nil => simp
  | cons x xs ih =>
    rw [List.foldl_cons, ih]
    cases xs with
    | nil => simp [lwwStep]
    | cons y ys =>
      have hz : ∃ z, (y :: ys).getLast? = some z := by
        cases hz : (y :: ys).getLast? with
        | none => simp at hz
        | some z => exact ⟨z, rfl⟩
      obtain ⟨z, hz⟩ := hz
      rw [List.getLast?_cons_cons, hz]
      rfl

/-- Last-writer-wins register, every schedule: the value an atomic snapshot reads in tick `t` is
the LAST write acknowledged in ticks `0..t`; in particular once any acknowledgement has been
released the register is never read as empty. -/
theorem lastWriter_ack_implies_visible {α : Type} (s : AtomSt (Option α) α) (hs : s.st = none)
    (sched : List (List α × Nat)) (t : Nat) (a : List α) (st : Option α)
    (h : (runAtomic lwwStep s sched)[t]? = some (a, st)) :
    st = (acksUpTo (runAtomic lwwStep s sched) t).getLast? ∧
      (acksUpTo (runAtomic lwwStep s sched) t ≠ [] → st ≠ none) := by
  have hv := ack_implies_visible lwwStep s sched t a st h
  rw [aux_lww_foldl, hs, Option.or_none] at hv
  refine ⟨hv, fun hne => ?_⟩
  rw [hv]
  simpa [List.getLast?_eq_none_iff] using hne

/-- Read after an acknowledged write, in a LATER tick: the read of tick `t + d` is the last write
acknowledged in ticks `t+1..t+d` if there is one, else still what tick `t` read (the register does
not forget between ticks); if anything was acknowledged up to tick `t` it is not empty. -/
theorem lastWriter_read_after_ack {α : Type} (s : AtomSt (Option α) α) (hs : s.st = none)
    (sched : List (List α × Nat)) (t d : Nat) (a a' : List α) (st st' : Option α)
    (h : (runAtomic lwwStep s sched)[t]? = some (a, st))
    (h' : (runAtomic lwwStep s sched)[t + d]? = some (a', st')) :
    ∃ between, acksUpTo (runAtomic lwwStep s sched) (t + d) =
        acksUpTo (runAtomic lwwStep s sched) t ++ between ∧
      st' = between.getLast?.or st ∧
      (acksUpTo (runAtomic lwwStep s sched) t ≠ [] → st' ≠ none) := by
  obtain ⟨between, e1, e2⟩ := later_snapshot_extends_earlier lwwStep s sched t d a a' st st' h h'
  refine ⟨between, e1, ?_, fun hne => ?_⟩
  · rw [e2, aux_lww_foldl]
  · have h1 := (lastWriter_ack_implies_visible s hs sched t a st h).2 hne
    rw [e2, aux_lww_foldl]
    cases hb : between.getLast? <;> simp [h1]

/-- Tie to the verdict `simLwwOk` on recorded simulator executions: the register value an atomic
snapshot reads is the last element of a prefix `P` of all writes `W` (`atomic_snapshot_reads_acked_prefix`
+ `lastWriter_ack_implies_visible`); if `P` contains the `k` writes acknowledged before the read was
issued, the verdict's clause `lwwFrom` accepts it. -/
theorem lww_snapshot_admissible (W P : List Int) (hP : P <+: W) (k : Nat) (hk : k ≤ P.length) :
    lwwFrom W k P.getLast? = true := by
  obtain ⟨S, rfl⟩ := hP
  cases h : P.getLast? with
  | none =>
    rw [List.getLast?_eq_none_iff] at h
    subst h
    simp at hk
    simp [lwwFrom, hk]
  | some x =>
    obtain ⟨Q, rfl⟩ := List.getLast?_eq_some_iff.1 h
    simp only [lwwFrom]
    have hk' : k - 1 ≤ Q.length := by simp at hk; omega
    rw [List.append_assoc, List.drop_append_of_le_length hk']
    simp

example : simLwwOk [.w 11, .ack 11, .r 1, .fin, .resp 1 11] = true ∧
    simLwwOk [.w 11, .ack 11, .r 1, .fin, .respNone 1] = false ∧
    simLwwOk [.w 11, .w 22, .ack 11, .ack 22, .r 1, .fin, .resp 1 11] = false ∧
    simLwwOk [.w 11, .r 1, .fin, .ack 11, .respNone 1] = true := by decide

theorem aux_maxStep_ge (o : Option Int) (x : Int) :
    ∃ m, maxRegStep o x = some m ∧ x ≤ m ∧ ∀ w, o = some w → w ≤ m := by
  cases o with
  | none => exact ⟨x, rfl, Int.le_refl _, by simp⟩
  | some m0 =>
    refine ⟨maxStep m0 x, rfl, ?_, ?_⟩ <;> unfold maxStep
    · split <;> omega
    · intro w hw
      cases hw
      split <;> omega

theorem aux_max_foldl_ge (l : List Int) (o : Option Int) (w : Int) (hw : w ∈ l ∨ o = some w) :
    ∃ m, l.foldl maxRegStep o = some m ∧ w ≤ m := by
  induction l generalizing o w with
  | nil =>
    rcases hw with hw | hw
    · simp at hw
    · exact ⟨w, by simp [hw], Int.le_refl _⟩
  | cons x xs ih =>
    obtain ⟨m', hm', hx, ho⟩ := aux_maxStep_ge o x
    rw [List.foldl_cons]
    obtain ⟨m, h1, h2⟩ := ih (maxRegStep o x) m' (Or.inr hm')
    rcases hw with hw | hw
    · rcases List.mem_cons.1 hw with e | e
      · exact ⟨m, h1, by omega⟩
      · exact ih (maxRegStep o x) w (Or.inl e)
    · exact ⟨m, h1, by have := ho w hw; omega⟩

/-- High-water-mark register (`max`), every schedule: an atomic snapshot of tick `t` is at least
every write acknowledged in ticks `0..t` (and is not empty once one was acknowledged). -/
theorem max_ack_implies_visible (s : AtomSt (Option Int) Int)
    (sched : List (List Int × Nat)) (t : Nat) (a : List Int) (st : Option Int)
    (h : (runAtomic maxRegStep s sched)[t]? = some (a, st)) (w : Int)
    (hw : w ∈ acksUpTo (runAtomic maxRegStep s sched) t) :
    ∃ m, st = some m ∧ w ≤ m := by
  rw [ack_implies_visible maxRegStep s sched t a st h]
  exact aux_max_foldl_ge _ _ w (Or.inl hw)

/-- Per-key last-writer-wins registers (keyed `reduce`), every schedule: a `get` of `key` served
from the atomic snapshot of tick `t` reads the last write to `key` acknowledged in ticks `0..t`
(so it is answered at all once such a write was acknowledged). -/
theorem keyed_lww_read_after_write (s : AtomSt (List (Int × Int)) (Int × Int)) (hs : s.st = [])
    (sched : List (List (Int × Int) × Nat)) (t : Nat) (a : List (Int × Int)) (m : List (Int × Int))
    (h : (runAtomic klwwStep s sched)[t]? = some (a, m)) (key : Int) :
    lookup m key = (group key (acksUpTo (runAtomic klwwStep s sched) t)).getLast? := by
  have hv := ack_implies_visible klwwStep s sched t a m h
  have hl := aux_foldUp_lookup (fun (v : Int) (_ : Option Int) => v)
    (acksUpTo (runAtomic klwwStep s sched) t) [] key
  have hf := aux_lww_foldl (group key (acksUpTo (runAtomic klwwStep s sched) t)) none
  rw [Option.or_none] at hf
  rw [hv, hs, ← hf]
  exact hl

/-! ### non-vacuity -/
example : runAtomic (lwwStep (α := Int)) ⟨[], none⟩ [([5], 1), ([], 0), ([], 0), ([9, 2], 2), ([], 0)] =
    [([5], some 5), ([], some 5), ([], some 5), ([9, 2], some 2), ([], some 2)] := by decide
example : runAtomic maxRegStep ⟨[], none⟩ [([], 0), ([3, 1], 2), ([], 0), ([2], 1)] =
    [([], none), ([3, 1], some 3), ([], some 3), ([2], some 3)] := by decide
example : runAtomic klwwStep ⟨[], []⟩ [([(7, 1), (8, 2)], 2), ([], 0), ([(7, 3)], 1)] =
    [([(7, 1), (8, 2)], [(7, 1), (8, 2)]), ([], [(7, 1), (8, 2)]), ([(7, 3)], [(7, 3), (8, 2)])] := by decide

example : runAtomic (fun (s : Int) w => s + w) ⟨[], 0⟩ [([1, 2], 1), ([3], 5), ([], 1)] =
    [([1], 1), ([2, 3], 6), ([], 6)] := by decide
example : runAtomic counterStep ⟨[], []⟩ [([(0, 7), (1, 7)], 2), ([(0, 8)], 1)] =
    [([(0, 7), (1, 7)], [(7, 2)]), ([(0, 8)], [(7, 2), (8, 1)])] := by decide

end HvHydro2
