/-
C33 — Monotonicity and bounded-value annotations are truthful.

Batch-step model (`Model/Ticks.lean`): a top-level aggregation keeps its state across ticks and is
fed one batch per tick; a snapshot is the state after a tick.  For *every* tick history `pre` and
*every* continuation `ext` (so: any two snapshot times, any inputs, any tick partition):

* `Monotonic` singletons (`count`, `fold` with a `monotone` proof) never decrease,
* keyed folds never lose a key (`MonotonicKeys`), and with a monotone step no value ever
  decreases (`MonotonicValue`, e.g. `value_counts`),
* `first()` per key (`BoundedValue`) never changes a value once the key is present.

(T) The `KeyedSingletonBound` / `SingletonBound` / `ApplyMonotone*` type-level tables are re-extracted
from the source on every run (`Gen/C33Bounds.lean`); the table theorems check that no bound promises
more than the theorems above deliver.
-/
import HvHydro2.Model.Ticks
import HvHydro2.Lemmas.Keyed
import HvHydro2.Gen.C33Bounds
import Mathlib.Order.Defs.PartialOrder
import Mathlib.Data.Nat.Basic

set_option linter.unusedSectionVars false
set_option linter.unusedSimpArgs false

namespace HvHydro2
open List

/-! ### singletons -/

theorem aux_singletonAfter_append {α β : Type} (init : β) (f : β → α → β) (pre ext : List (List α)) :
    singletonAfter init f (pre ++ ext) = singletonAfter (singletonAfter init f pre) f ext := by
  simp [singletonAfter, List.foldl_append]

theorem aux_fold_mono {α β : Type} [Preorder β] (f : β → α → β) (hf : ∀ s x, s ≤ f s x)
    (l : List α) (s : β) : s ≤ l.foldl f s := by
  induction l generalizing s with
  | nil => exact le_refl _
  | cons x xs ih => exact le_trans (hf s x) (ih (f s x))

/-- a `fold` whose step is monotone (the `monotone = manual_proof!(…)` obligation) yields a
singleton that never decreases, across any tick history -/
theorem monotone_singleton_never_decreases {α β : Type} [Preorder β] (init : β) (f : β → α → β)
    (hf : ∀ s x, s ≤ f s x) (pre ext : List (List α)) :
    singletonAfter init f pre ≤ singletonAfter init f (pre ++ ext) := by
  rw [aux_singletonAfter_append]
  generalize singletonAfter init f pre = s
  induction ext generalizing s with
  | nil => exact le_refl _
  | cons b rest ih =>
    simp only [singletonAfter, List.foldl_cons] at ih ⊢
    exact le_trans (aux_fold_mono f hf b s) (ih _)

/-- `count()` is monotone: a later snapshot is never smaller -/
theorem count_monotone {α : Type} (pre ext : List (List α)) :
    countAfter pre ≤ countAfter (pre ++ ext) :=
  monotone_singleton_never_decreases 0 (fun c (_ : α) => c + 1) (fun s _ => Nat.le_succ s) pre ext

/-- and it counts: the snapshot after a history is the number of elements delivered so far -/
theorem count_after_eq_length {α : Type} (hist : List (List α)) :
    countAfter hist = hist.flatten.length := by
  have hb : ∀ (l : List α) (m : Nat), l.foldl (fun c (_ : α) => c + 1) m = m + l.length := by
    intro l; induction l with
    | nil => simp
    | cons x xs ihx => intro m; simp only [List.foldl_cons, ihx, List.length_cons]; omega
  have hh : ∀ (h : List (List α)) (n : Nat),
      h.foldl (fun s b => b.foldl (fun c (_ : α) => c + 1) s) n = n + h.flatten.length := by
    intro h; induction h with
    | nil => simp
    | cons b rest ih =>
      intro n
      rw [List.foldl_cons, ih, hb, List.flatten_cons, List.length_append]; omega
  have := hh hist 0
  simpa [countAfter, singletonAfter] using this

/-! ### keyed singletons -/

section keyed
variable {κ : Type} [BEq κ] [LawfulBEq κ]

theorem aux_keyedAfter_eq {α β : Type} (init : β) (f : β → α → β) (hist : List (List (κ × α))) :
    keyedAfter init f hist = foldUp (fun v o => f (o.getD init) v) hist.flatten [] := by
  have e : keyedAfter init f hist =
      hist.foldl (fun m b => foldUp (fun (v : α) (o : Option β) => f (o.getD init) v) b m) [] := rfl
  rw [e, aux_foldUp_hist]

theorem aux_firstAfter_eq {α : Type} (hist : List (List (κ × α))) :
    firstAfter hist = foldUp (fun (v : α) o => o.getD v) hist.flatten [] := by
  have e : firstAfter hist =
      hist.foldl (fun m b => foldUp (fun (v : α) (o : Option α) => o.getD v) b m) [] := rfl
  rw [e, aux_foldUp_hist]

/-- lookup after a continuation = the key's later values folded onto the earlier lookup -/
theorem aux_after_ext {α β : Type} (g : α → Option β → β) (pre ext : List (List (κ × α))) (k : κ) :
    lookup (foldUp g (pre ++ ext).flatten []) k =
      (group k ext.flatten).foldl (fun o v => some (g v o)) (lookup (foldUp g pre.flatten []) k) := by
  rw [List.flatten_append, aux_foldUp_append, aux_foldUp_lookup]

theorem aux_foldl_some {α β : Type} (g : α → Option β → β) (vs : List α) (o : Option β)
    (h : o.isSome) : (vs.foldl (fun o v => some (g v o)) o).isSome := by
  induction vs generalizing o with
  | nil => exact h
  | cons v vs ih => exact ih _ rfl

/-- `MonotonicKeys`: whatever the aggregation, a key that is present stays present -/
theorem keys_never_disappear {α β : Type} (init : β) (f : β → α → β)
    (pre ext : List (List (κ × α))) (k : κ)
    (h : (lookup (keyedAfter init f pre) k).isSome) :
    (lookup (keyedAfter init f (pre ++ ext)) k).isSome := by
  rw [aux_keyedAfter_eq] at h ⊢
  rw [aux_after_ext]
  exact aux_foldl_some _ _ _ h

/-- `MonotonicValue`: with a monotone step (`s ≤ f s v`), the value of a present key never decreases -/
theorem monotone_values_never_decrease {α β : Type} [Preorder β] (init : β) (f : β → α → β)
    (hf : ∀ s x, s ≤ f s x) (pre ext : List (List (κ × α))) (k : κ) (a : β)
    (h : lookup (keyedAfter init f pre) k = some a) :
    ∃ a', lookup (keyedAfter init f (pre ++ ext)) k = some a' ∧ a ≤ a' := by
  rw [aux_keyedAfter_eq] at h ⊢
  rw [aux_after_ext, h]
  clear h
  generalize group k ext.flatten = vs
  induction vs generalizing a with
  | nil => exact ⟨a, rfl, le_refl _⟩
  | cons v vs ih =>
    simp only [List.foldl_cons, Option.getD_some]
    obtain ⟨a', h1, h2⟩ := ih (f a v)
    exact ⟨a', h1, le_trans (hf a v) h2⟩

/-- `value_counts()` (`+= 1` is monotone): per-key counts never decrease and keys never disappear -/
theorem valueCounts_never_decrease {α : Type} (pre ext : List (List (κ × α))) (k : κ) (n : Nat)
    (h : lookup (keyedAfter 0 (fun c (_ : α) => c + 1) pre) k = some n) :
    ∃ n', lookup (keyedAfter 0 (fun c (_ : α) => c + 1) (pre ++ ext)) k = some n' ∧ n ≤ n' :=
  monotone_values_never_decrease 0 (fun c (_ : α) => c + 1) (fun s _ => Nat.le_succ s) pre ext k n h

/-- `BoundedValue` (`first()` per key): once a key is present its value never changes -/
theorem bounded_value_never_changes {α : Type} (pre ext : List (List (κ × α))) (k : κ) (v : α)
    (h : lookup (firstAfter pre) k = some v) :
    lookup (firstAfter (pre ++ ext)) k = some v := by
  rw [aux_firstAfter_eq] at h ⊢
  rw [aux_after_ext, h]
  generalize group k ext.flatten = vs
  induction vs with
  | nil => rfl
  | cons w vs ih => simpa using ih

/-- Operators that keep a `BoundedValue` bound (`filter`, and `map` / `filter_map` through
`EraseMonotonic`; `first()` itself ends in a `map`): whatever function `g` of the fixed value decides
presence and the new value, once the derived entry of a key is present it never changes. -/
theorem bounded_value_filterMap_never_changes {α β : Type} (g : α → Option β)
    (pre ext : List (List (κ × α))) (k : κ) (u : β)
    (h : (lookup (firstAfter pre) k).bind g = some u) :
    (lookup (firstAfter (pre ++ ext)) k).bind g = some u := by
  cases hl : lookup (firstAfter pre) k with
  | none => rw [hl] at h; cases h
  | some v =>
    rw [bounded_value_never_changes pre ext k v hl]
    rw [hl] at h
    exact h

/-- `map` on a `MonotonicValue` / `MonotonicKeys` keyed singleton erases the value promise
(`EraseMonotonic = MonotonicKeys`) but keys still never disappear -/
theorem erased_map_keys_never_disappear {α β γ : Type} (init : β) (f : β → α → β) (m : β → γ)
    (pre ext : List (List (κ × α))) (k : κ)
    (h : ((lookup (keyedAfter init f pre) k).map m).isSome) :
    ((lookup (keyedAfter init f (pre ++ ext)) k).map m).isSome := by
  rw [Option.isSome_map] at h ⊢
  exact keys_never_disappear init f pre ext k h

/-- and the erased value really may go down (why the result type is not `MonotonicValue`):
`value_counts().map(|c| c % 2)` -/
theorem erased_map_value_can_decrease :
    lookup ((keyedAfter 0 (fun c (_ : Int) => c + 1) [[(1, 9)]]).map fun kv => (kv.1, kv.2 % 2)) (1 : Int) = some 1 ∧
    lookup ((keyedAfter 0 (fun c (_ : Int) => c + 1) [[(1, 9)], [(1, 9)]]).map fun kv => (kv.1, kv.2 % 2)) (1 : Int) = some 0 := by
  decide

/-- and the value is the first one delivered for the key -/
theorem bounded_value_is_first {α : Type} (hist : List (List (κ × α))) (k : κ) :
    lookup (firstAfter hist) k = (group k hist.flatten).head? := by
  rw [aux_firstAfter_eq, aux_foldUp_lookup]
  have e0 : lookup ([] : List (κ × α)) k = none := rfl
  rw [e0]
  cases group k hist.flatten with
  | nil => rfl
  | cons v vs =>
    simp only [List.foldl_cons, Option.getD_none, List.head?_cons]
    induction vs with
    | nil => rfl
    | cons w vs ih => simpa using ih

/-! entries of a `BoundedValue` keyed singleton are emitted exactly once -/

def keysOf {β : Type} (m : List (κ × β)) : List κ := m.map (fun kv => kv.1)

theorem aux_upsert_keys {β : Type} (m : List (κ × β)) (k : κ) (g : Option β → β) :
    keysOf (upsert m k g) = if k ∈ keysOf m then keysOf m else keysOf m ++ [k] := by
  induction m with
  | nil => simp [upsert, keysOf]
  | cons e rest ih =>
    obtain ⟨k0, b⟩ := e
    by_cases h : k0 == k
    · have e0 : k0 = k := eq_of_beq h
      subst e0; simp [upsert, keysOf]
    · have ne : ¬ k = k0 := fun e => h (by subst e; exact beq_self_eq_true _)
      have ih' := ih
      simp only [keysOf] at ih' ⊢
      simp only [upsert, h, Bool.false_eq_true, if_false, List.map_cons, ih', List.mem_cons, ne, false_or]
      split <;> simp_all

theorem aux_first_keys {α : Type} (b : List (κ × α)) (m : List (κ × α)) (hn : (keysOf m).Nodup) :
    ∃ ext, keysOf (firstKeyedFrom m b) = keysOf m ++ ext ∧ (keysOf m ++ ext).Nodup := by
  induction b generalizing m with
  | nil => exact ⟨[], by simp [firstKeyedFrom], by simpa using hn⟩
  | cons kv rest ih =>
    have hk := aux_upsert_keys m kv.1 (fun o => o.getD kv.2)
    have hn' : (keysOf (upsert m kv.1 (fun o => o.getD kv.2))).Nodup := by
      rw [hk]; split
      · exact hn
      · rename_i hmem
        rw [List.nodup_append]
        refine ⟨hn, by simp, ?_⟩
        intro a ha b hb
        rw [List.mem_singleton] at hb; subst hb
        intro e; subst e; exact hmem ha
    obtain ⟨ext, h1, h2⟩ := ih (upsert m kv.1 (fun o => o.getD kv.2)) hn'
    have e : firstKeyedFrom m (kv :: rest) =
        firstKeyedFrom (upsert m kv.1 (fun o => o.getD kv.2)) rest := rfl
    rw [e, h1, hk]
    split
    · rename_i hmem
      rw [hk, if_pos hmem] at h2
      exact ⟨ext, rfl, h2⟩
    · rename_i hmem
      rw [hk, if_neg hmem] at h2
      exact ⟨kv.1 :: ext, by simp, by simpa using h2⟩

/-- the entries a top-level per-key `first()` emits during a tick have fresh, pairwise distinct
keys: an entry of a `BoundedValue` keyed singleton is emitted exactly once -/
theorem first_entries_emitted_once {α : Type} (m b : List (κ × α)) (hn : (keysOf m).Nodup) :
    (keysOf (firstEmitted m b)).Nodup ∧ ∀ k ∈ keysOf (firstEmitted m b), k ∉ keysOf m := by
  obtain ⟨ext, h1, h2⟩ := aux_first_keys b m hn
  have e : keysOf (firstEmitted m b) = ext := by
    have : keysOf (firstEmitted m b) = (keysOf (firstKeyedFrom m b)).drop m.length := by
      simp [keysOf, firstEmitted, List.map_drop]
    rw [this, h1]
    have hl : m.length = (keysOf m).length := by simp [keysOf]
    rw [hl, List.drop_left]
  rw [e]
  rw [List.nodup_append] at h2
  exact ⟨h2.2.1, fun k hk hm => h2.2.2 k hm k hk rfl⟩

/-- a non-monotone step really can decrease a value: `MonotonicKeys` promises keys only -/
theorem nonmonotone_fold_can_decrease :
    lookup (keyedAfter (0 : Int) (fun a v => a + v) [[(1, 5)]]) 1 = some 5 ∧
    lookup (keyedAfter (0 : Int) (fun a v => a + v) [[(1, 5)], [(1, -7)]]) 1 = some (-2) := by
  decide

end keyed

/-! ### the type-level tables (T) -/

open Gen

/-- what a keyed-singleton bound promises about the evolution of the collection -/
def keysPersist : KBound → Bool
  | .Unbounded => false
  | _ => true
def valuesMonotone : KBound → Bool
  | .Unbounded | .MonotonicKeys => false
  | _ => true
def valuesFixed : KBound → Bool
  | .Bounded | .BoundedValue => true
  | _ => false
def entriesFixed : KBound → Bool
  | .Bounded => true
  | _ => false

def promisesLe (a b : KBound) : Bool :=
  (!keysPersist a || keysPersist b) && (!valuesMonotone a || valuesMonotone b) &&
  (!valuesFixed a || valuesFixed b) && (!entriesFixed a || entriesFixed b)

/-- every `impl KeyedSingletonBound for X` reports its own kind -/
theorem kbound_kind_is_self : ∀ r ∈ kTable, r.kind = r.self := by decide

/-- `ValueBound = Bounded` exactly for the bounds that promise immutable values, and
`UnderlyingBound = Bounded` exactly for the one whose entries are all fixed -/
theorem kbound_value_bound_truthful :
    ∀ r ∈ kTable, (r.valueBound == SBound.Bounded) = valuesFixed r.self ∧
      (r.underlying == SBound.Bounded) = entriesFixed r.self := by decide

/-- `EraseMonotonic` only ever drops promises -/
theorem erase_monotonic_only_weakens : ∀ r ∈ kTable, promisesLe r.eraseMonotonic r.self = true := by
  decide

/-- The bound given to an aggregation over an *unbounded* keyed stream promises no more than the
theorems above deliver: with a monotone proof (`KeyedStreamToMonotone`) keys persist and values
never decrease (`keys_never_disappear`, `monotone_values_never_decrease`) — not "fixed"; without
one (`KeyedStreamToNonMonotone`) only keys persist; `WithBoundedValue` (per-key `first`) keys
persist and values are fixed (`bounded_value_never_changes`) but entries may still be added. -/
theorem fold_bounds_do_not_overpromise :
    ∀ r ∈ kTable, r.self = KBound.Unbounded →
      (valuesFixed r.toMonotone = false ∧ entriesFixed r.toMonotone = false) ∧
      (valuesMonotone r.toNonMonotone = false ∧ valuesFixed r.toNonMonotone = false) ∧
      entriesFixed r.withBoundedValue = false := by decide

/-- inside a tick (`Bounded` input) every derived bound is `Bounded` -/
theorem bounded_stays_bounded :
    ∀ r ∈ kTable, r.self = KBound.Bounded →
      r.toMonotone = .Bounded ∧ r.toNonMonotone = .Bounded ∧ r.withBoundedValue = .Bounded ∧
      r.eraseMonotonic = .Bounded := by decide

/-- all five bounds are covered by the table, once each -/
theorem kbound_table_complete :
    kTable.map (fun r => r.self) =
      [.Unbounded, .Bounded, .BoundedValue, .MonotonicValue, .MonotonicKeys] := by decide

/-- singleton bounds: `StreamToMonotone` of an unbounded stream is `Monotonic` (delivered by
`monotone_singleton_never_decreases`), of a bounded one `Bounded`; kinds report themselves -/
theorem sbound_table_truthful :
    sTable.map (fun r => (r.self, r.underlying, r.toMonotone, r.kind)) =
      [(.Unbounded, .Unbounded, .Monotonic, .Unbounded), (.Bounded, .Bounded, .Bounded, .Bounded),
       (.Monotonic, .Unbounded, .Monotonic, .Monotonic)] := by decide

/-- which associated type an aggregation's result bound is taken from (`properties/mod.rs`):
a monotone proof is *required* for the monotone bound -/
theorem apply_monotone_table :
    applyMonotoneStream = [("NotProved", "B"), ("Proved", "B::StreamToMonotone")] ∧
    applyMonotoneKeyedStream =
      [("NotProved", "B::KeyedStreamToNonMonotone"), ("Proved", "B::KeyedStreamToMonotone")] := by
  decide

/-! ### non-vacuity -/
example : keyedAfter 0 (fun c (_ : Int) => c + 1) [[(1, 9), (2, 9)], [], [(1, 9)]] = [(1, 2), (2, 1)] := by
  decide
example : firstAfter [[(1, 10)], [(1, 20), (2, 30)]] = [(1, 10), (2, 30)] ∧
    firstEmitted [(1, 10)] [(1, 20), (2, 30)] = [(2, 30)] := by decide
example : countAfter [[1, 2], [], [3]] = 3 := by decide

end HvHydro2
