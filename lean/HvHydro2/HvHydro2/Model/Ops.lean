/-
Model of the DFIR operators Hydro lowers to, as functions on lists (one list = the items an
operator instance sees, in arrival order), and of the Hydro library operators that call
`assume_ordering_trusted` / `assume_retries_trusted`, each written as the composition of DFIR
operators that `hydro_lang/src/live_collections/**` + `compile/ir/mod.rs::emit_core` produce.

No imports: these definitions are compiled into the native driver `hvdrv_hydro2`.
-/
namespace HvHydro2

/-! ### DFIR operators -/

/-- DFIR `reduce(f)`: the first item becomes the accumulator, `f(&mut acc, x)` for the rest. -/
def reduceL {α : Type} (f : α → α → α) : List α → Option α
  | [] => none
  | x :: xs => some (xs.foldl f x)

/-- DFIR `fold(init, f)`. -/
def foldL {α β : Type} (init : β) (f : β → α → β) (l : List α) : β := l.foldl f init

/-- DFIR `scan(init, f)` with a total step: the accumulator after every item (what a top-level
`fold` exposes to snapshots as intermediate states). -/
def scanL {α β : Type} (f : β → α → β) : β → List α → List β
  | _, [] => []
  | s, x :: xs => f s x :: scanL f (f s x) xs

/-- result of one step of `Stream::generator`'s closure (`keyed_stream::Generate`) -/
inductive Gen (β : Type) where
  | yield (b : β)
  | ret (b : β)
  | brk
  | cont

/-- `Stream::generator(init, f)`: lowered to `scan` over `Option<Option<A>>` that ends the scan on
`Break` and after `Return`, followed by `flatten` of the `Option<U>` outputs. -/
def generatorL {α β σ : Type} (f : σ → α → σ × Gen β) : σ → List α → List β
  | _, [] => []
  | s, x :: xs =>
    match f s x with
    | (s', .yield b) => b :: generatorL f s' xs
    | (_, .ret b) => [b]
    | (_, .brk) => []
    | (s', .cont) => generatorL f s' xs

/-- association-list model of the `HashMap` inside `fold_keyed` / `HashMap::insert`:
`upsert m k g` replaces the value at `k` by `g (old value)`; new keys go to the end. -/
def upsert {κ β : Type} [BEq κ] (m : List (κ × β)) (k : κ) (g : Option β → β) : List (κ × β) :=
  match m with
  | [] => [(k, g none)]
  | (k', b) :: rest => if k' == k then (k', g (some b)) :: rest else (k', b) :: upsert rest k g

def lookup {κ β : Type} [BEq κ] (m : List (κ × β)) (k : κ) : Option β :=
  match m with
  | [] => none
  | (k', b) :: rest => if k' == k then some b else lookup rest k

/-- DFIR `fold_keyed(init, f)`: one accumulator per key. -/
def foldKeyedL {κ α β : Type} [BEq κ] (init : β) (f : β → α → β) (l : List (κ × α)) : List (κ × β) :=
  l.foldl (fun m kv => upsert m kv.1 (fun o => f (o.getD init) kv.2)) []

/-- DFIR `cross_join_multiset::<'tick,'tick>()` on the first run of a tick
(`symmetric_hash_join(.., is_new_tick = true)` → `NewTickJoinIter`): both sides are drained, the
*smaller* side is the outer loop (`lhs.len() < rhs.len()` ⇒ lhs outer, else rhs outer). -/
def crossJoinTick {α β : Type} (lhs : List α) (rhs : List β) : List (α × β) :=
  if lhs.length < rhs.length then
    lhs.flatMap (fun a => rhs.map (fun b => (a, b)))
  else
    rhs.flatMap (fun b => lhs.map (fun a => (a, b)))

/-! ### Hydro library operators with trusted order / retry assumptions -/

/-- the closure of `Stream::max`: `|curr, new| if new > *curr { *curr = new }` -/
def maxStep {α : Type} [LT α] [DecidableLT α] (curr new : α) : α := if curr < new then new else curr
/-- the closure of `Stream::min`: `|curr, new| if new < *curr { *curr = new }` -/
def minStep {α : Type} [LT α] [DecidableLT α] (curr new : α) : α := if new < curr then new else curr

/-- `Stream::max`: `reduce(|curr, new| if new > *curr { *curr = new })`. -/
def maxOp {α : Type} [LT α] [DecidableLT α] (l : List α) : Option α := reduceL maxStep l

/-- `Stream::min`: `reduce(|curr, new| if new < *curr { *curr = new })`. -/
def minOp {α : Type} [LT α] [DecidableLT α] (l : List α) : Option α := reduceL minStep l

/-- `Stream::first`: `generator(|| (), |_, item| Generate::Return(item)).reduce(|_, _| {})`. -/
def firstOp {α : Type} (l : List α) : Option α :=
  reduceL (fun curr _ => curr) (generatorL (fun (s : Unit) item => (s, Gen.ret item)) () l)

/-- `Stream::last`: `reduce(|curr, new| *curr = new)`. -/
def lastOp {α : Type} (l : List α) : Option α :=
  reduceL (fun _ new => new) l

/-- `Stream::count`: `fold(|| 0usize, |count, _| *count += 1)`. -/
def countOp {α : Type} (l : List α) : Nat := foldL 0 (fun c _ => c + 1) l

/-- intermediate states of a top-level `count` (a monotone `Singleton` that snapshots can sample) -/
def countStates {α : Type} (l : List α) : List Nat := scanL (fun c (_ : α) => c + 1) 0 l

/-- `Stream::is_empty`: `first().is_none()` where
`Optional::is_none = map(|_| ()).into_singleton().map(|o| o.is_none())`. -/
def isEmptyOp {α : Type} (l : List α) : Bool := ((firstOp l).map (fun _ => ())).isNone

/-- `KeyedStream::value_counts`: `fold_keyed(|| 0, |acc, _| *acc += 1)`. -/
def valueCountsOp {κ α : Type} [BEq κ] (l : List (κ × α)) : List (κ × Nat) :=
  foldKeyedL 0 (fun c _ => c + 1) l

/-- `KeyedSingleton::into_singleton` (both call sites):
`entries().fold(HashMap::new, |map, (k, v)| { map.insert(k, v); })`. -/
def intoSingletonOp {κ β : Type} [BEq κ] (l : List (κ × β)) : List (κ × β) :=
  foldL [] (fun m (kv : κ × β) => upsert m kv.1 (fun _ => kv.2)) l

/-- `KeyedSingleton::get_max_key`: `entries().reduce(|curr, new| if new.0 > curr.0 { *curr = new })`. -/
def getMaxKeyOp {κ β : Type} [LT κ] [DecidableLT κ] (l : List (κ × β)) : Option (κ × β) :=
  reduceL (fun curr new => if curr.1 < new.1 then new else curr) l

/-- `KeyedSingleton::key_count` inside a tick: `entries().count()`. -/
def keyCountOp {κ β : Type} (l : List (κ × β)) : Nat := countOp l

/-- `Stream::repeat_with_keys`: `keys.keys() ⋈× self` then `into_keyed()`; `ks` is the order in
which the keyed singleton's hash map happens to yield its keys. -/
def repeatWithKeysOp {κ α : Type} (ks : List κ) (vs : List α) : List (κ × α) := crossJoinTick ks vs

/-- `weaken_ordering` / `weaken_retries` / `make_totally_ordered` / `make_exactly_once`
(stream and keyed stream): `HydroNode::Cast` or no node at all — the production builder emits
`out = in`. -/
def castOp {α : Type} (l : List α) : List α := l

/-- the values of key `k` in a keyed stream, in order (what a keyed stream *means*) -/
def group {κ α : Type} [BEq κ] (k : κ) (l : List (κ × α)) : List α :=
  (l.filter (fun kv => kv.1 == k)).map (fun kv => kv.2)

end HvHydro2
