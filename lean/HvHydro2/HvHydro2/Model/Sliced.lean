/-
Model of the `sliced!` expansion (`hydro_lang/src/live_collections/sliced/mod.rs`):

  * every `use::batch` / `use::snapshot` / `use::atomic` collection is sliced against ONE tick
    (`__tick`, created from the first `use`), so a slice is one step that receives all its hook
    values together;
  * `use::state(init)` / `use::state_null()` are tick cycles: what the body assigns is deferred by
    one tick (`DeferTick` over a `CycleSource`) and `unwrap_or(initial)` supplies the first value.

Hooks are modelled with their decisions explicit (as in `sim/runtime.rs`): a batch hook buffers
arrivals and releases a prefix of `n` items; production (`ProdDfirBuilder::batch`: `out = in`)
is the schedule that releases everything that has arrived.  A snapshot hook queues the versions
of a singleton and either re-releases the last one or picks a queued one, dropping older ones.
-/
import HvHydro2.Model.Ticks
namespace HvHydro2

/-- `StreamHook<_, TotalOrder>`: buffer ++ arrivals, release the first `n` -/
def batchTick {α : Type} (buf arrivals : List α) (n : Nat) : List α × List α :=
  ((buf ++ arrivals).take n, (buf ++ arrivals).drop n)

/-- run a batch hook over a schedule `(arrivals, n)` per tick: the batches and the final buffer -/
def runBatches {α : Type} : List α → List (List α × Nat) → List (List α) × List α
  | buf, [] => ([], buf)
  | buf, (arr, n) :: rest =>
    let r := batchTick buf arr n
    let rr := runBatches r.2 rest
    (r.1 :: rr.1, rr.2)

/-- production schedule: everything that arrived is released in the same tick -/
def prodSchedule {α : Type} (hist : List (List α)) : List (List α × Nat) :=
  hist.map fun b => (b, b.length)

/-- decision of a snapshot hook (`SingletonHook::autonomous_decision`) -/
inductive SnapDec where
  | again            -- re-release the last released snapshot
  | pick (i : Nat)   -- release queued item `i`, dropping the earlier ones
  deriving Repr

structure SnapSt (ν : Type) where
  queue : List ν
  last : Option ν

/-- one decision of the snapshot hook after `news` new versions were queued;
`none` = nothing to release (no input yet and nothing released before) -/
def snapTick {ν : Type} (s : SnapSt ν) (news : List ν) (d : SnapDec) : SnapSt ν × Option ν :=
  let q := s.queue ++ news
  match d, s.last with
  | .again, some l => (⟨q, some l⟩, some l)
  | .again, none =>
    match q with
    | [] => (⟨q, none⟩, none)
    | v :: rest => (⟨rest, some v⟩, some v)
  | .pick i, _ =>
    match q.drop (min i (q.length - 1)) with
    | [] => (⟨q, s.last⟩, s.last)
    | v :: rest => (⟨rest, some v⟩, some v)

def runSnaps {ν : Type} : SnapSt ν → List (List ν × SnapDec) → List (Option ν)
  | _, [] => []
  | s, (news, d) :: rest =>
    let r := snapTick s news d
    r.2 :: runSnaps r.1 rest

/-- a `sliced!` body with one state cycle: sees the carried state (`none` on the first slice, or
when the previous slice wrote an empty `Optional`) and this slice's hook values; returns what it
assigns to the state and its output -/
def runSliced {σ β ω : Type} (body : Option σ → β → Option σ × ω) : Option σ → List β → List ω
  | _, [] => []
  | c, x :: xs => (body c x).2 :: runSliced body (body c x).1 xs

/-- the carried state each slice sees -/
def statesSeen {σ β ω : Type} (body : Option σ → β → Option σ × ω) : Option σ → List β → List (Option σ)
  | _, [] => []
  | c, x :: xs => c :: statesSeen body (body c x).1 xs

/-! corpus bodies (`harness/hv_hydro2/flows/src/c31.rs`) -/

/-- `state_counter`: `use::state(|l| l.singleton(q!(0)))`, `counter = counter + batch.count()` -/
def counterBody (c : Option Nat) (batch : List Int) : Option Nat × Nat :=
  let n := c.getD 0 + batch.length
  (some n, n)

/-- `state_prev_last`: `use::state_null::<Optional<_>>()`, `prev = batch.last()` -/
def prevLastBody (c : Option Int) (batch : List Int) : Option Int × Option Int :=
  (lastOp batch, c)

/-! `use::state(|l| <Optional initial>)` (`Optional::create_source_with_initial`,
`hydro_lang/src/live_collections/optional.rs`):
`from_previous_tick.or(initial.filter_if(location.optional_first_tick(..).is_some()))` — the value
deferred from the previous tick wins; the initial value is offered in the FIRST tick only, so a
null stored by a slice is seen as null by the next one. -/

/-- what the state hook of an `Optional` cycle with an initial value yields in one tick -/
def optStateSource {σ : Type} (first : Bool) (fromPrev initial : Option σ) : Option σ :=
  match fromPrev with
  | some v => some v
  | none => if first then initial else none

/-- slices over an `Optional` state with an initial value: `first` = this is the first tick,
`prev` = what the previous slice assigned (deferred by one tick; nothing before the first) -/
def runSlicedInit {σ β ω : Type} (body : Option σ → β → Option σ × ω) (initial : Option σ) :
    Bool → Option σ → List β → List ω
  | _, _, [] => []
  | first, prev, x :: xs =>
    let c := optStateSource first prev initial
    (body c x).2 :: runSlicedInit body initial false (body c x).1 xs

/-- the state each of those slices sees -/
def statesSeenInit {σ β ω : Type} (body : Option σ → β → Option σ × ω) (initial : Option σ) :
    Bool → Option σ → List β → List (Option σ)
  | _, _, [] => []
  | first, prev, x :: xs =>
    let c := optStateSource first prev initial
    c :: statesSeenInit body initial false (body c x).1 xs

def sumB (l : List Int) : Int := l.foldl (· + ·) 0

/-- `state_opt_keep`: `use::state(|l| Optional::from(l.singleton(q!(100))))`,
`slot = batch.fold(+).filter(> 0)`; the slice outputs the state it saw -/
def optKeepInit : Option Int := some 100

def optKeepBody (c : Option Int) (batch : List Int) : Option Int × Option Int :=
  ((if 0 < sumB batch then some (sumB batch) else none), c)

end HvHydro2
