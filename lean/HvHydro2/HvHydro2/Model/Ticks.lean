/-
Batch-step model of top-level (`'static`) Hydro state: one batch of input per tick, the operator's
state persists from tick to tick, a snapshot is the state after the tick.  (In production all
`Tick`s / `Atomic`s of a process collapse onto one DFIR graph; `fold::<'static>`,
`fold_keyed::<'static>`, `scan::<'static>` keep their accumulators across DFIR ticks.)
-/
import HvHydro2.Model.Ops
namespace HvHydro2

/-- `fold::<'static>(init, f)`: accumulator after a history of batches -/
def singletonAfter {α β : Type} (init : β) (f : β → α → β) (hist : List (List α)) : β :=
  hist.foldl (fun s b => b.foldl f s) init

/-- one tick of `fold_keyed::<'static>(init, f)` from hash-map state `m` -/
def foldKeyedFrom {κ α β : Type} [BEq κ] (init : β) (f : β → α → β) (m : List (κ × β))
    (batch : List (κ × α)) : List (κ × β) :=
  batch.foldl (fun m kv => upsert m kv.1 (fun o => f (o.getD init) kv.2)) m

/-- keyed state after a history of batches -/
def keyedAfter {κ α β : Type} [BEq κ] (init : β) (f : β → α → β) (hist : List (List (κ × α))) :
    List (κ × β) :=
  hist.foldl (foldKeyedFrom init f) []

/-- one tick of top-level `KeyedStream::first()` (`fold_early_stop`: a keyed generator that
returns on the first value of a key and ignores the key afterwards): the first value per key -/
def firstKeyedFrom {κ α : Type} [BEq κ] (m : List (κ × α)) (batch : List (κ × α)) : List (κ × α) :=
  batch.foldl (fun m kv => upsert m kv.1 (fun o => o.getD kv.2)) m

def firstAfter {κ α : Type} [BEq κ] (hist : List (List (κ × α))) : List (κ × α) :=
  hist.foldl firstKeyedFrom []

/-- entries a top-level `first()` *emits* during a tick: the keys first seen in this batch
(`upsert` appends new keys and never reorders, so they are the tail of the new state) -/
def firstEmitted {κ α : Type} [BEq κ] (m : List (κ × α)) (batch : List (κ × α)) : List (κ × α) :=
  (firstKeyedFrom m batch).drop m.length

/-- counts: `count()` at top level -/
def countAfter {α : Type} (hist : List (List α)) : Nat := singletonAfter 0 (fun c (_ : α) => c + 1) hist

end HvHydro2
