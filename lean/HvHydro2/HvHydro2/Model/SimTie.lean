/-
Judging executions of the *simulator* (`flow.sim().exhaustive`, harness `hv_hydro2_sim`) with the
slice / atomic models.

A recorded execution of a slice program carries the inputs (all sent before the first tick) and the
batch every slice observed.  `schedOf` reads the hook's release schedule off the observation (the
whole input arrives before tick 0; tick `t` releases `|batch t|` items) and `simBatchesOk` replays
that schedule through the batch-hook model `runBatches`: the execution is accepted iff the model
produces exactly the observed batches and nothing stays buffered when the simulation is quiescent.
`Props/C31.lean` proves that this is the partition property (`simBatchesOk_iff_partition`).
-/
import HvHydro2.Model.Atomic
namespace HvHydro2

/-- the release schedule of a batch hook read off the batches it released, when all of `xs` was
queued before the first tick -/
def schedOf {α : Type} (xs : List α) : List (List α) → List (List α × Nat)
  | [] => []
  | b :: bs => (xs, b.length) :: bs.map (fun b' => ([], b'.length))

def simBatchesOk (xs : List Int) (bs : List (List Int)) : Bool :=
  match bs with
  | [] => xs.isEmpty
  | _ => runBatches [] (schedOf xs bs) == (bs, [])

/-- snapshots of `count()` released to consecutive slices: never go back, never from the future -/
def simSnapsOk (total : Nat) : Option Nat → List Nat → Bool
  | _, [] => true
  | last, c :: cs => (last.getD 0 ≤ c) && (c ≤ total) && simSnapsOk total (some c) cs

/-- outputs of a state-carrying slice body on the observed batches -/
def simCounterOk (bs : List (List Int)) (outs : List Nat) : Bool :=
  runSliced counterBody none bs == outs

def simPrevLastOk (bs : List (List Int)) (outs : List (Option Int)) : Bool :=
  runSliced prevLastBody none bs == outs

/-! ### atomic region: the timeline a test body observes -/

inductive Ev where
  | w (v : Int)            -- a write is sent
  | r (i : Int)            -- read `i` is sent
  | ack (v : Int)          -- an acknowledgement is observed
  | resp (i : Int) (s : Int)  -- the response to read `i` is observed: the register value it read
  | fin                    -- start of the final collects
  | respNone (i : Int)     -- (reduce-style registers) the response to read `i` shows an EMPTY register
  deriving Repr

structure TlSt where
  writes : List Int := []
  acks : List Int := []
  issued : List (Int × Nat) := []   -- read id ↦ number of acknowledgements observed when it was sent
  ok : Bool := true

def sumL (l : List Int) : Int := l.foldl (· + ·) 0

/-- some prefix of `ws` of length in `lo .. |ws|` sums to `s` -/
def prefixSumFrom (ws : List Int) (lo : Nat) (s : Int) : Bool :=
  (List.range (ws.length + 1)).any fun j => decide (lo ≤ j) && sumL (ws.take j) == s

def tlStep (st : TlSt) : Ev → TlSt
  | .w v => { st with writes := st.writes ++ [v] }
  | .r i => { st with issued := (i, st.acks.length) :: st.issued }
  | .ack v => { st with acks := st.acks ++ [v] }
  | .resp i s =>
    match lookup st.issued i with
    | none => { st with ok := false }
    | some k => { st with ok := st.ok && prefixSumFrom st.writes k s }
  | .fin => st
  | .respNone _ => { st with ok := false }   -- the summing register is never empty

/-- an observed timeline of the summing register is admissible: every response is the sum of a
prefix of the writes sent so far that contains every write acknowledged before the read was sent,
and the acknowledgements are exactly the writes, in order -/
def simAtomicOk (tl : List Ev) : Bool :=
  let st := tl.foldl tlStep {}
  st.ok && st.acks == st.writes

/-! ### last-writer-wins register (`last()` / `reduce` inside the atomic region) -/

/-- what a read issued after `k` observed acknowledgements may see when the writes sent so far are
`ws`: the empty register only if `k = 0`, else the value of the `k`-th write or of a later one -/
def lwwFrom (ws : List Int) (k : Nat) (v : Option Int) : Bool :=
  match v with
  | none => k == 0
  | some x => (ws.drop (k - 1)).contains x

def tlStepLww (st : TlSt) : Ev → TlSt
  | .w v => { st with writes := st.writes ++ [v] }
  | .r i => { st with issued := (i, st.acks.length) :: st.issued }
  | .ack v => { st with acks := st.acks ++ [v] }
  | .resp i s =>
    match lookup st.issued i with
    | none => { st with ok := false }
    | some k => { st with ok := st.ok && lwwFrom st.writes k (some s) }
  | .respNone i =>
    match lookup st.issued i with
    | none => { st with ok := false }
    | some k => { st with ok := st.ok && lwwFrom st.writes k none }
  | .fin => st

/-- an observed timeline of the last-writer-wins register is admissible -/
def simLwwOk (tl : List Ev) : Bool :=
  let st := tl.foldl tlStepLww {}
  st.ok && st.acks == st.writes

end HvHydro2
