/-
Model of an atomic region (`Stream::atomic` … `end_atomic`, `location/tick.rs`):
the region runs in its own tick; in one run of that tick it takes a batch of the buffered writes,
folds them into the state, and releases exactly those writes as acknowledgements (`end_atomic`).
`use::atomic` / `snapshot_atomic` reads the state of the region as of the current run — it is not
a separately scheduled snapshot hook.  The decision how many buffered writes a run takes is
explicit (`n`); production (`begin_atomic`/`end_atomic`: `out = in`) takes everything.
-/
import HvHydro2.Model.Sliced
namespace HvHydro2

structure AtomSt (σ α : Type) where
  buf : List α
  st : σ

/-- one run of the atomic tick: (new region state, acks released, state an atomic snapshot reads) -/
def atomTick {σ α : Type} (f : σ → α → σ) (s : AtomSt σ α) (arrivals : List α) (n : Nat) :
    AtomSt σ α × List α :=
  let taken := (s.buf ++ arrivals).take n
  (⟨(s.buf ++ arrivals).drop n, taken.foldl f s.st⟩, taken)

/-- per tick: the acknowledgements released and the state an atomic snapshot of that tick reads -/
def runAtomic {σ α : Type} (f : σ → α → σ) : AtomSt σ α → List (List α × Nat) → List (List α × σ)
  | _, [] => []
  | s, (arr, n) :: rest =>
    let r := atomTick f s arr n
    (r.2, r.1.st) :: runAtomic f r.1 rest

/-- the per-key counter of `hydro_test::tutorials::keyed_counter`: a write is `(client, key)` -/
def counterStep (m : List (Int × Nat)) (w : Int × Int) : List (Int × Nat) :=
  upsert m w.2 (fun o => o.getD 0 + 1)

/-! reduce-style registers: DFIR `reduce` holds `None` until the first item, then combines -/

/-- `Stream::last()` = `reduce(|curr, new| *curr = new)`: a last-writer-wins register -/
def lwwStep {α : Type} (_ : Option α) (w : α) : Option α := some w

/-- `Stream::max()` = `reduce(|curr, new| if new > *curr { *curr = new })` -/
def maxRegStep (s : Option Int) (w : Int) : Option Int :=
  match s with
  | none => some w
  | some m => some (maxStep m w)

/-- keyed `reduce(|curr, new| *curr = new)`: per-key last-writer-wins registers, a write is
`(key, value)` -/
def klwwStep (m : List (Int × Int)) (w : Int × Int) : List (Int × Int) :=
  upsert m w.1 (fun _ => w.2)

end HvHydro2
