import HvDfir.Model.Dfir
