/-
Program-level lemmas shared by C22 / C23: evaluating a well-formed node list satisfies (and is
determined by) the per-node equations `env n.id = opSem n.op … (inputs looked up in env)`.
-/
import HvDfir.Model.Dfir
namespace HvDfir

/-- run a list of nodes from a given (states, env) pair -/
def runNodes (t : Nat) (ext : List Stream) (ns : List Node) (σe : States × Env) : States × Env :=
  ns.foldl (fun σe n => stepNode t ext n σe) σe

theorem evalTick_eq_runNodes (t : Nat) (ext : List Stream) (ns : List Node) (σ : States) :
    evalTick t ext ns σ = runNodes t ext ns (σ, Env.empty) := rfl

theorem runNodes_append (t : Nat) (ext : List Stream) (a b : List Node) (σe : States × Env) :
    runNodes t ext (a ++ b) σe = runNodes t ext b (runNodes t ext a σe) := by
  simp [runNodes, List.foldl_append]

theorem runNodes_cons (t : Nat) (ext : List Stream) (n : Node) (ns : List Node) (σe : States × Env) :
    runNodes t ext (n :: ns) σe = runNodes t ext ns (stepNode t ext n σe) := rfl

/-- well-formed evaluation order: ids are new, inputs refer to nodes evaluated before
    (`D` = ids already defined) -/
def WFrom : List Nat → List Node → Prop
  | _, [] => True
  | D, n :: ns => n.id ∉ D ∧ (∀ r ∈ n.ins, r.node ∈ D) ∧ WFrom (n.id :: D) ns

def WF (ns : List Node) : Prop := WFrom [] ns

def ids (ns : List Node) : List Nat := ns.map Node.id

theorem WFrom_id_notin {D : List Nat} {ns : List Node} (h : WFrom D ns) : ∀ m ∈ ns, m.id ∉ D := by
  induction ns generalizing D with
  | nil => intro m hm; cases hm
  | cons n ns ih =>
    intro m hm
    rcases List.mem_cons.mp hm with rfl | hm
    · exact h.1
    · intro hD
      exact ih h.2.2 m hm (List.mem_cons_of_mem _ hD)

theorem WFrom_head_notin_tail {D : List Nat} {n : Node} {ns : List Node} (h : WFrom D (n :: ns)) :
    ∀ m ∈ ns, m.id ≠ n.id := by
  intro m hm hEq
  exact WFrom_id_notin h.2.2 m hm (by rw [hEq]; exact List.mem_cons_self)

theorem lookup_congr {e1 e2 : Env} {r : Ref} (h : e1 r.node = e2 r.node) : lookup e1 r = lookup e2 r := by
  simp [lookup, h]

/-- what `runNodes` leaves untouched: every id that is not a node of the list -/
theorem runNodes_untouched (t : Nat) (ext : List Stream) (ns : List Node) (σe : States × Env) (i : Nat)
    (hi : i ∉ ids ns) :
    (runNodes t ext ns σe).1 i = σe.1 i ∧ (runNodes t ext ns σe).2 i = σe.2 i := by
  induction ns generalizing σe with
  | nil => exact ⟨rfl, rfl⟩
  | cons n ns ih =>
    have hn : i ≠ n.id := fun h => hi (by simp [ids, h])
    have hr : i ∉ ids ns := fun h => hi (by simp [ids] at h ⊢; exact Or.inr h)
    rw [runNodes_cons]
    obtain ⟨a, b⟩ := ih (stepNode t ext n σe) hr
    refine ⟨a.trans ?_, b.trans ?_⟩ <;> simp [stepNode, upd, hn]

/-- the defining equations of a tick: every node's outputs / next state are `opSem` of its
    pre-tick state and of its inputs *as found in the final environment* -/
def Sol (t : Nat) (ext : List Stream) (ns : List Node) (σ0 : States) (σ' : States) (env : Env) : Prop :=
  ∀ n ∈ ns,
    env n.id = (opSem n.op t ext (σ0 n.id) (n.ins.map (lookup env))).2 ∧
    σ' n.id = (opSem n.op t ext (σ0 n.id) (n.ins.map (lookup env))).1

theorem runNodes_sol (t : Nat) (ext : List Stream) (D : List Nat) (ns : List Node) (σe : States × Env)
    (hwf : WFrom D ns) :
    Sol t ext ns σe.1 (runNodes t ext ns σe).1 (runNodes t ext ns σe).2 := by
  induction ns generalizing D σe with
  | nil => intro n hn; cases hn
  | cons n ns ih =>
    intro m hm
    rw [runNodes_cons]
    have hrest := ih (n.id :: D) (stepNode t ext n σe) hwf.2.2
    have hnid : n.id ∉ ids ns := by
      intro h
      obtain ⟨m', hm', he⟩ := List.mem_map.mp h
      exact WFrom_head_notin_tail hwf m' hm' he
    rcases List.mem_cons.mp hm with rfl | hm
    · -- the head node: its entry is written now and never touched again
      obtain ⟨u1, u2⟩ := runNodes_untouched t ext ns (stepNode t ext m σe) m.id hnid
      have hins : m.ins.map (lookup (runNodes t ext ns (stepNode t ext m σe)).2) = m.ins.map (lookup σe.2) := by
        apply List.map_congr_left
        intro r hr
        apply lookup_congr
        have hrD : r.node ∈ D := hwf.2.1 r hr
        have hne : r.node ≠ m.id := fun h => hwf.1 (h ▸ hrD)
        have hnot : r.node ∉ ids ns := by
          intro h
          obtain ⟨m', hm', he⟩ := List.mem_map.mp h
          exact WFrom_id_notin hwf.2.2 m' hm' (by rw [he]; exact List.mem_cons_of_mem _ hrD)
        rw [(runNodes_untouched t ext ns (stepNode t ext m σe) r.node hnot).2]
        simp [stepNode, upd, hne]
      rw [u1, u2, hins]
      simp [stepNode, upd]
    · obtain ⟨e1, e2⟩ := hrest m hm
      have hne : m.id ≠ n.id := WFrom_head_notin_tail hwf m hm
      have hσ : (stepNode t ext n σe).1 m.id = σe.1 m.id := by simp [stepNode, upd, hne]
      rw [hσ] at e1 e2
      exact ⟨e1, e2⟩

/-- the equations determine the environment on the nodes of a well-formed list -/
theorem sol_unique (t : Nat) (ext : List Stream) (D : List Nat) (ns : List Node) (σ0 σ1 σ2 : States)
    (e1 e2 : Env) (hwf : WFrom D ns)
    (hall1 : ∀ n ∈ ns, e1 n.id = (opSem n.op t ext (σ0 n.id) (n.ins.map (lookup e1))).2 ∧
        σ1 n.id = (opSem n.op t ext (σ0 n.id) (n.ins.map (lookup e1))).1)
    (hall2 : ∀ n ∈ ns, e2 n.id = (opSem n.op t ext (σ0 n.id) (n.ins.map (lookup e2))).2 ∧
        σ2 n.id = (opSem n.op t ext (σ0 n.id) (n.ins.map (lookup e2))).1)
    (hD : ∀ i ∈ D, e1 i = e2 i) :
    ∀ n ∈ ns, e1 n.id = e2 n.id ∧ σ1 n.id = σ2 n.id := by
  induction ns generalizing D with
  | nil => intro n hn; cases hn
  | cons n ns ih =>
    have hins : n.ins.map (lookup e1) = n.ins.map (lookup e2) := by
      apply List.map_congr_left
      intro r hr
      exact lookup_congr (hD r.node (hwf.2.1 r hr))
    have hn : e1 n.id = e2 n.id ∧ σ1 n.id = σ2 n.id := by
      obtain ⟨a1, b1⟩ := hall1 n List.mem_cons_self
      obtain ⟨a2, b2⟩ := hall2 n List.mem_cons_self
      rw [a1, a2, b1, b2, hins]; exact ⟨rfl, rfl⟩
    intro m hm
    rcases List.mem_cons.mp hm with rfl | hm
    · exact hn
    · refine ih (n.id :: D) hwf.2.2 (fun k hk => hall1 k (List.mem_cons_of_mem _ hk))
        (fun k hk => hall2 k (List.mem_cons_of_mem _ hk)) ?_ m hm
      intro i hi
      rcases List.mem_cons.mp hi with rfl | hi
      · exact hn.1
      · exact hD i hi

end HvDfir
