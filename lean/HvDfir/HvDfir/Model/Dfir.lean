/-
Reference per-tick semantics of the DFIR operator catalogue
(`/repo/dfir_lang/src/graph/ops/*.rs`) and of programs (DAGs of operators).

One operator instance = `opSem : Op → tick number → external inputs → OpState → inputs → OpState × outputs`,
where `OpState` is what the operator's prologue variables hold *between* ticks (after the
`write_tick_end` reset) and the inputs / outputs are the complete item sequences of the tick
(one `List Val` per port).  Hash tables are insertion-ordered association lists; streams that
come out of hash iteration are compared as multisets by the driver/harness (`bag` sinks).

No imports: this file is linked into the native driver `hvdrv_dfir`.
-/
namespace HvDfir

/-- items: numbers, pairs, unit.  Rust `Vec`/`Option` items are cons-chains
    (`pair a (pair b unit)`), `EitherOrBoth` is tagged (`Left a = (0,a)`, `Right b = (1,b)`,
    `Both a b = (2,(a,b))`), `Max<u64>` is its number. -/
inductive Val where
  | num : Nat → Val
  | pair : Val → Val → Val
  | unit : Val
deriving DecidableEq, Repr, Inhabited

abbrev Stream := List Val

def M : Nat := 1000003

/-- the harness' `hv` (a deterministic structural hash; both sides compute it) -/
def hv : Val → Nat
  | .num n => n % M
  | .pair a b => (hv a * 31 + hv b + 7) % M
  | .unit => 1

def Val.fst : Val → Val
  | .pair a _ => a
  | v => v
def Val.snd : Val → Val
  | .pair _ b => b
  | v => v
def Val.toNat : Val → Nat
  | .num n => n
  | _ => 0

/-- cons-chain → list (Rust: iterating a `Vec` / `Option` item) -/
def Val.toList : Val → List Val
  | .pair a rest => a :: rest.toList
  | _ => []

def Val.ofList : List Val → Val
  | [] => .unit
  | a :: as => .pair a (Val.ofList as)

/-- Rust `Ord` on the item types the corpus sorts (u64, tuples, (), Vec/Option chains):
    numbers by value, pairs lexicographically, `unit` below everything else. -/
def Val.cmp : Val → Val → Ordering
  | .num a, .num b => compare a b
  | .unit, .unit => .eq
  | .unit, _ => .lt
  | _, .unit => .gt
  | .num _, .pair _ _ => .lt
  | .pair _ _, .num _ => .gt
  | .pair a b, .pair c d => match Val.cmp a c with | .eq => Val.cmp b d | o => o

def Val.lt (a b : Val) : Bool := Val.cmp a b == .lt

def Val.le (a b : Val) : Bool := !(Val.lt b a)

/-! ### closure library (the same named closures are emitted as Rust source by the corpus generator) -/

inductive MapFn | id | inc | dbl | hvf | kv3 | kvk | swap | fst | snd | vec2 | opt | m100 | k3
deriving DecidableEq, Repr

def MapFn.app : MapFn → Val → Val
  | .id, v => v
  | .inc, v => .num (v.toNat + 1)
  | .dbl, v => .num (v.toNat * 2)
  | .hvf, v => .num (hv v)
  | .kv3, v => .pair (.num (hv v % 3)) (.num (hv v))
  | .kvk, v => .pair (.num (hv v % 4)) v
  | .swap, v => .pair v.snd v.fst
  | .fst, v => v.fst
  | .snd, v => v.snd
  | .vec2, v => .pair (.num v.toNat) (.pair (.num (v.toNat + 10)) .unit)
  | .opt, v => if v.toNat % 2 == 0 then .pair (.num v.toNat) .unit else .unit
  | .m100, v => .num (v.toNat % 100)
  | .k3, v => .num (v.toNat % 3)

inductive PredFn | even | lt3 | odd
deriving DecidableEq, Repr
def PredFn.app : PredFn → Val → Bool
  | .even, v => hv v % 2 == 0
  | .lt3, v => hv v % 5 < 3
  | .odd, v => hv v % 2 != 0

inductive FmFn | half | hnz
deriving DecidableEq, Repr
def FmFn.app : FmFn → Val → Option Val
  | .half, v => if v.toNat % 2 == 0 then some (.num (v.toNat / 2)) else none
  | .hnz, v => if hv v % 3 != 0 then some (.num (hv v)) else none

inductive FlatFn | dup | rng
deriving DecidableEq, Repr
def FlatFn.app : FlatFn → Val → List Val
  | .dup, v => [.num v.toNat, .num (v.toNat + 10)]
  | .rng, v => (List.range (v.toNat % 3)).map .num

inductive KeyFn | self | kfst | ksnd
deriving DecidableEq, Repr
def KeyFn.app : KeyFn → Val → Val
  | .self, v => v
  | .kfst, v => v.fst
  | .ksnd, v => v.snd

/-- accumulating closures `FnMut(&mut Acc, Item)`; `Acc` is a number -/
inductive AccFn | sum | poly | cnt | max | first | last
deriving DecidableEq, Repr
def AccFn.app : AccFn → Val → Val → Val
  | .sum, a, x => .num (a.toNat + x.toNat)
  | .poly, a, x => .num ((a.toNat * 31 + hv x) % M)
  | .cnt, a, _ => .num (a.toNat + 1)
  | .max, a, x => if a.toNat < x.toNat then .num x.toNat else a
  | .first, a, _ => a
  | .last, _, x => x

inductive ScanFn | runsum | stop20
deriving DecidableEq, Repr
/-- returns the new accumulator and `Some out` / `None` (terminate) -/
def ScanFn.app : ScanFn → Val → Val → Val × Option Val
  | .runsum, a, x => let s := Val.num (a.toNat + x.toNat); (s, some s)
  | .stop20, a, x => let s := a.toNat + x.toNat; (.num s, if s > 20 then none else some (.num s))

/-- `join_fused` accumulators: `Fold::new(|| 0, f)`, `Reduce::new(f)`, `FoldFrom::new(|x| x + 3, f)` -/
inductive Accum | fold (f : AccFn) | reduce (f : AccFn) | foldFrom (f : AccFn)
deriving DecidableEq, Repr

inductive Pers | tick | static
deriving DecidableEq, Repr

/-! ### operators -/

inductive Op where
  | source (i : Nat)                 -- `source_stream(recv_i)`: the tick's external input i
  | empty                            -- `source_iter([])`-like source that never has items
  | map (f : MapFn) | filter (p : PredFn) | filterMap (f : FmFn) | flatMap (f : FlatFn) | flatten
  | inspect | identity
  | enumerate (p : Pers) | unique (p : Pers) | persist | multisetDelta
  | sort | sortByKey (k : KeyFn)
  | fold (p : Pers) (f : AccFn) | foldNoReplay (p : Pers) (f : AccFn)
  | reduce (p : Pers) (f : AccFn) | reduceNoReplay (p : Pers) (f : AccFn)
  | foldKeyed (p : Pers) (f : AccFn) | reduceKeyed (p : Pers) (f : AccFn)
  | scan (p : Pers) (f : ScanFn)
  | latticeFold (p : Pers) | latticeReduce (p : Pers)
  | state (p : Pers)                 -- outputs: 0 = items, 1 = state   (lattice `Max<u64>`)
  | deferTick | deferTickLazy
  | deferSignal                      -- inputs: 0 = input, 1 = signal
  | tee (n : Nat) | union (n : Nat)
  | partition (n : Nat)              -- `partition(|x, n| hv(x) % n)`, n indexed outputs
  | unzip                            -- outputs 0, 1
  | join (pl pr : Pers) | joinMultiset (pl pr : Pers)
  | crossJoin (pl pr : Pers) | crossJoinMultiset (pl pr : Pers)
  | antiJoin (ppos pneg : Pers) | difference (ppos pneg : Pers)   -- inputs: 0 = pos, 1 = neg
  | zip (pl pr : Pers) | zipLongest
  | chain | chainFirstN (n : Nat)
  | crossSingleton (p : Pers)        -- inputs: 0 = input, 1 = single
  | joinFused (al ar : Accum) (pl pr : Pers)
  | joinFusedLhs (a : Accum) (p0 p1 : Pers)
  | joinFusedRhs (a : Accum) (p0 p1 : Pers)
  | joinMultisetHalf (pbuild pprobe : Pers)  -- inputs: 0 = build, 1 = probe
  /- Fused pull chains whose consumer stops pulling early (finding F221): the lazily evaluated
     stateful operator only sees the items that were actually pulled through it. -/
  | fusedEnumChainFirstN (n : Nat)         -- `enumerate::<'static>() -> [0]chain_first_n(n)`, other input on [1]
  | fusedUniqueCrossSingleton              -- `unique::<'static>() -> [input]cross_singleton::<'tick>()`
  | fusedUniqueDeferSignal                 -- `unique::<'static>() -> [signal]defer_signal()`
deriving DecidableEq, Repr

/-- what an operator's prologue variables hold between ticks -/
structure OpState where
  l : List Val := []      -- first table / vec / queue / set
  r : List Val := []      -- second table / vec / queue / set
  acc : Option Val := none
  cnt : Nat := 0
deriving DecidableEq, Repr, Inhabited

def inp (ins : List Stream) (i : Nat) : Stream := ins.getD i []

/-! helpers over association lists `pair k v` -/

def keyOf (v : Val) : Val := v.fst

/-- `HalfSetJoinState::build`: insert `(k,v)` unless the same pair is present -/
def setInsert (tbl : List Val) (x : Val) : List Val := if tbl.contains x then tbl else tbl ++ [x]
def setInsertAll (tbl : List Val) (xs : List Val) : List Val := xs.foldl setInsert tbl

/-- all `(k,(v1,v2))` with equal keys, lhs-major -/
def joinOf (l r : List Val) : List Val :=
  l.flatMap fun a => (r.filter fun b => keyOf b == keyOf a).map fun b => .pair (keyOf a) (.pair a.snd b.snd)

def crossOf (l r : List Val) : List Val := l.flatMap fun a => r.map fun b => .pair a b

/-- keyed accumulation table: list of `pair k acc` in first-insertion order -/
def tblGet (tbl : List Val) (k : Val) : Option Val := (tbl.find? fun e => keyOf e == k).map Val.snd
def tblSet (tbl : List Val) (k v : Val) : List Val :=
  if tbl.any (fun e => keyOf e == k) then tbl.map (fun e => if keyOf e == k then .pair k v else e)
  else tbl ++ [.pair k v]

def accumStep (a : Accum) (tbl : List Val) (kv : Val) : List Val :=
  let k := kv.fst; let x := kv.snd
  match a, tblGet tbl k with
  | .fold f, none => tblSet tbl k (f.app (.num 0) x)
  | .fold f, some o => tblSet tbl k (f.app o x)
  | .reduce _, none => tblSet tbl k x
  | .reduce f, some o => tblSet tbl k (f.app o x)
  | .foldFrom _, none => tblSet tbl k (.num (x.toNat + 3))
  | .foldFrom f, some o => tblSet tbl k (f.app o x)

/-- insertion sort (stable), the reference for `sort` / `sort_by_key` -/
def insertBy (le : Val → Val → Bool) (x : Val) : List Val → List Val
  | [] => [x]
  | y :: ys => if le x y then x :: y :: ys else y :: insertBy le x ys
def sortBy (le : Val → Val → Bool) : List Val → List Val
  | [] => []
  | x :: xs => insertBy le x (sortBy le xs)

/-- `unique`: emit an item iff not seen; returns (seen', emitted) -/
def uniqueGo : List Val → List Val → List Val × List Val
  | seen, [] => (seen, [])
  | seen, x :: xs =>
    if seen.contains x then uniqueGo seen xs
    else let r := uniqueGo (seen ++ [x]) xs; (r.1, x :: r.2)

/-- `multiset_delta` filter: `prev` is last tick's multiset (as a list); an item is dropped while
    `prev` still holds a copy (which is then consumed) -/
def deltaGo : List Val → List Val → List Val
  | _, [] => []
  | prev, x :: xs => if prev.contains x then deltaGo (prev.erase x) xs else x :: deltaGo prev xs

def scanGo (f : ScanFn) : Option Val → List Val → Option Val × List Val
  | none, _ => (none, [])
  | some a, [] => (some a, [])
  | some a, x :: xs =>
    match f.app a x with
    | (a', some o) => let r := scanGo f (some a') xs; (r.1, o :: r.2)
    | (_, none) => (none, [])

/-- `state`: items that strictly raise the running max are forwarded -/
def stateGo : Nat → List Val → Nat × List Val
  | cur, [] => (cur, [])
  | cur, x :: xs =>
    if cur < x.toNat then let r := stateGo x.toNat xs; (r.1, x :: r.2) else stateGo cur xs

def zipLongestOf : List Val → List Val → List Val
  | [], [] => []
  | a :: as, [] => .pair (.num 0) a :: zipLongestOf as []
  | [], b :: bs => .pair (.num 1) b :: zipLongestOf [] bs
  | a :: as, b :: bs => .pair (.num 2) (.pair a b) :: zipLongestOf as bs

def zipOf : List Val → List Val → List Val
  | a :: as, b :: bs => .pair a b :: zipOf as bs
  | _, _ => []

def reduceOpt (f : AccFn) : Option Val → List Val → Option Val
  | o, [] => o
  | none, x :: xs => reduceOpt f (some x) xs
  | some a, x :: xs => reduceOpt f (some (f.app a x)) xs

def foldKeyedStep (f : AccFn) (tbl : List Val) (kv : Val) : List Val :=
  tblSet tbl kv.fst (f.app ((tblGet tbl kv.fst).getD (.num 0)) kv.snd)
def reduceKeyedStep (f : AccFn) (tbl : List Val) (kv : Val) : List Val :=
  match tblGet tbl kv.fst with
  | none => tblSet tbl kv.fst kv.snd
  | some o => tblSet tbl kv.fst (f.app o kv.snd)

/-- probe a multiset build table in build-insertion order: `(k,(v_probe,v_build))` -/
def probeOf (build : List Val) (probes : List Val) : List Val :=
  probes.flatMap fun p => (build.filter fun b => keyOf b == keyOf p).map fun b =>
    .pair (keyOf p) (.pair p.snd b.snd)

/-- `join_fused_lhs`: probe items against the accumulated lhs table: `(k,(acc,v2))` -/
def fusedProbe (tbl : List Val) (probes : List Val) : List Val :=
  probes.filterMap fun p => (tblGet tbl (keyOf p)).map fun a => .pair (keyOf p) (.pair a p.snd)

def keep (p : Pers) (xs : List Val) : List Val := match p with | .static => xs | .tick => []

/-- pull signal items through a lazy `unique` until the first one passes: (seen', fired) -/
def signalGo : List Val → List Val → List Val × Bool
  | seen, [] => (seen, false)
  | seen, x :: xs => if seen.contains x then signalGo seen xs else (seen ++ [x], true)

/--
The operator's work in one tick *including* its `write_tick_end` reset:
returns the state carried into the next tick and the tick's outputs, one list per output port.
`t` is `context.current_tick()` (only `*_no_replay` read it), `ext` the tick's external inputs.
-/
def opSem (op : Op) (t : Nat) (ext : List Stream) (st : OpState) (ins : List Stream) : OpState × List Stream :=
  let i0 := inp ins 0
  let i1 := inp ins 1
  match op with
  | .source i => (st, [ext.getD i []])
  | .empty => (st, [[]])
  | .map f => (st, [i0.map f.app])
  | .filter p => (st, [i0.filter p.app])
  | .filterMap f => (st, [i0.filterMap f.app])
  | .flatMap f => (st, [i0.flatMap f.app])
  | .flatten => (st, [i0.flatMap Val.toList])
  | .inspect => (st, [i0])
  | .identity => (st, [i0])
  | .enumerate p =>
    let out := (List.range i0.length).zipWith (fun i x => Val.pair (.num (st.cnt + i)) x) i0
    ({ st with cnt := match p with | .static => st.cnt + i0.length | .tick => 0 }, [out])
  | .unique p =>
    let r := uniqueGo st.l i0
    ({ st with l := keep p r.1 }, [r.2])
  | .persist => let all := st.l ++ i0; ({ st with l := all }, [all])
  | .multisetDelta => ({ st with l := i0 }, [deltaGo st.l i0])
  | .sort => (st, [sortBy Val.le i0])
  | .sortByKey k => (st, [sortBy (fun a b => Val.le (k.app a) (k.app b)) i0])
  | .fold p f =>
    let a := i0.foldl f.app (st.acc.getD (.num 0))
    ({ st with acc := match p with | .static => some a | .tick => none }, [[a]])
  | .foldNoReplay p f =>
    let a := i0.foldl f.app (st.acc.getD (.num 0))
    ({ st with acc := match p with | .static => some a | .tick => none },
      [if !i0.isEmpty || t == 0 then [a] else []])
  | .reduce p f =>
    let a := reduceOpt f st.acc i0
    ({ st with acc := match p with | .static => a | .tick => none }, [a.toList])
  | .reduceNoReplay p f =>
    let a := reduceOpt f st.acc i0
    ({ st with acc := match p with | .static => a | .tick => none },
      [if !i0.isEmpty || t == 0 then a.toList else []])
  | .foldKeyed p f =>
    let tbl := i0.foldl (foldKeyedStep f) st.l
    ({ st with l := keep p tbl }, [tbl])
  | .reduceKeyed p f =>
    let tbl := i0.foldl (reduceKeyedStep f) st.l
    ({ st with l := keep p tbl }, [tbl])
  | .scan p f =>
    -- `cnt = 1` ⇔ the accumulator is `None` (a previous item made the closure return `None`)
    let start : Option Val := if st.cnt == 1 then none else some (st.acc.getD (.num 0))
    let r := scanGo f start i0
    (match p with
      | .static => { st with acc := r.1, cnt := if r.1.isNone then 1 else 0 }
      | .tick => { st with acc := none, cnt := 0 }, [r.2])
  | .latticeFold p =>
    let a := i0.foldl AccFn.max.app (st.acc.getD (.num 0))
    ({ st with acc := match p with | .static => some a | .tick => none }, [[a]])
  | .latticeReduce p =>
    let a := reduceOpt .max st.acc i0
    ({ st with acc := match p with | .static => a | .tick => none }, [a.toList])
  | .state p =>
    let r := stateGo st.cnt i0
    ({ st with cnt := match p with | .static => r.1 | .tick => 0 }, [r.2, [.num r.1]])
  | .deferTick => ({ st with l := i0 }, [st.l])
  | .deferTickLazy => ({ st with l := i0 }, [st.l])
  | .deferSignal =>
    let buf := st.l ++ i0
    if i1.isEmpty then ({ st with l := buf }, [[]]) else ({ st with l := [] }, [buf])
  | .tee n => (st, List.replicate n i0)
  | .union n => (st, [((List.range n).map (inp ins)).flatten])
  | .partition n => (st, (List.range n).map fun j => i0.filter fun x => hv x % n == j)
  | .unzip => (st, [i0.map Val.fst, i0.map Val.snd])
  | .join pl pr =>
    let l := setInsertAll st.l i0
    let r := setInsertAll st.r i1
    ({ st with l := keep pl l, r := keep pr r }, [joinOf l r])
  | .joinMultiset pl pr =>
    let l := st.l ++ i0
    let r := st.r ++ i1
    ({ st with l := keep pl l, r := keep pr r }, [joinOf l r])
  | .crossJoin pl pr =>
    let l := setInsertAll st.l i0
    let r := setInsertAll st.r i1
    ({ st with l := keep pl l, r := keep pr r }, [crossOf l r])
  | .crossJoinMultiset pl pr =>
    let l := st.l ++ i0
    let r := st.r ++ i1
    ({ st with l := keep pl l, r := keep pr r }, [crossOf l r])
  | .antiJoin ppos pneg =>
    let neg := st.r ++ i1
    let pos := match ppos with | .static => st.l ++ i0 | .tick => i0
    ({ st with l := keep ppos pos, r := keep pneg neg }, [pos.filter fun x => !(neg.contains (keyOf x))])
  | .difference ppos pneg =>
    let neg := st.r ++ i1
    let pos := match ppos with | .static => st.l ++ i0 | .tick => i0
    ({ st with l := keep ppos pos, r := keep pneg neg }, [pos.filter fun x => !(neg.contains x)])
  | .zip pl pr =>
    let l := st.l ++ i0
    let r := st.r ++ i1
    let n := min l.length r.length
    ({ st with l := keep pl (l.drop n), r := keep pr (r.drop n) }, [zipOf (l.take n) (r.take n)])
  | .zipLongest => (st, [zipLongestOf i0 i1])
  | .chain => (st, [i0 ++ i1])
  | .chainFirstN n => (st, [(i0 ++ i1).take n])
  | .crossSingleton p =>
    let s : Option Val := match st.acc with | some s => some s | none => i1.head?
    ({ st with acc := match p with | .static => s | .tick => none },
      [match s with | some s => i0.map (fun x => .pair x s) | none => []])
  | .joinFused al ar pl pr =>
    let l := i0.foldl (accumStep al) st.l
    let r := i1.foldl (accumStep ar) st.r
    ({ st with l := keep pl l, r := keep pr r },
      [r.filterMap fun e => (tblGet l (keyOf e)).map fun a => .pair (keyOf e) (.pair a e.snd)])
  | .joinFusedLhs a p0 p1 =>
    let l := i0.foldl (accumStep a) st.l
    let probes := match p1 with | .static => st.r ++ i1 | .tick => i1
    ({ st with l := keep p0 l, r := keep p1 probes }, [fusedProbe l probes])
  | .joinFusedRhs a p0 p1 =>
    -- the code reverses the *inputs* but not the persistence arguments: the fused (port 1)
    -- side is governed by the first persistence argument, port 0 by the second
    let l := i1.foldl (accumStep a) st.l
    let probes := match p1 with | .static => st.r ++ i0 | .tick => i0
    ({ st with l := keep p0 l, r := keep p1 probes },
      [(fusedProbe l probes).map fun e => .pair (keyOf e) (.pair e.snd.snd e.snd.fst)])
  | .fusedEnumChainFirstN n =>
    -- `take(n)` pulls `min n |i0|` items through `enumerate`; only those advance the counter
    let k := min n i0.length
    let a := i0.take k
    let out := (List.range a.length).zipWith (fun i x => Val.pair (.num (st.cnt + i)) x) a
    ({ st with cnt := st.cnt + k }, [out ++ i1.take (n - k)])
  | .fusedUniqueCrossSingleton =>
    -- without a singleton the input side is never pulled: `unique` does not see the tick's items
    match i1.head? with
    | none => (st, [[]])
    | some s => let r := uniqueGo st.l i0; ({ st with l := r.1 }, [r.2.map fun x => .pair x s])
  | .fusedUniqueDeferSignal =>
    -- only the signal items up to the first one that passes `unique` are pulled
    let buf := st.r ++ i0
    let g := signalGo st.l i1
    if g.2 then ({ st with l := g.1, r := [] }, [buf]) else ({ st with l := g.1, r := buf }, [[]])
  | .joinMultisetHalf pb pp =>
    let build := st.l ++ i0
    let probes := match pp with | .static => st.r ++ i1 | .tick => i1
    ({ st with l := keep pb build, r := keep pp probes }, [probeOf build probes])

/-! ### programs -/

structure Ref where
  node : Nat
  port : Nat
deriving DecidableEq, Repr, Inhabited

structure Node where
  id : Nat
  op : Op
  ins : List Ref
deriving DecidableEq, Repr

/-- outputs of every node in the current tick (handoff buffers / intra-subgraph pipes) -/
abbrev Env := Nat → List Stream
/-- state of every node between ticks -/
abbrev States := Nat → OpState

def Env.empty : Env := fun _ => []
def States.init : States := fun _ => {}

def upd {β : Type} (f : Nat → β) (i : Nat) (v : β) : Nat → β := fun j => if j = i then v else f j

def lookup (env : Env) (r : Ref) : Stream := (env r.node).getD r.port []

def stepNode (t : Nat) (ext : List Stream) (n : Node) (σe : States × Env) : States × Env :=
  let r := opSem n.op t ext (σe.1 n.id) (n.ins.map (lookup σe.2))
  (upd σe.1 n.id r.1, upd σe.2 n.id r.2)

/-- one tick: run the nodes in list order (for a program: any topological order) -/
def evalTick (t : Nat) (ext : List Stream) (ns : List Node) (σ : States) : States × Env :=
  ns.foldl (fun σe n => stepNode t ext n σe) (σ, Env.empty)

structure Prog where
  nodes : List Node
  sinks : List Ref
deriving Repr

/-- run a program over a history of external inputs; per tick the list of sink outputs -/
def runFrom (p : Prog) : Nat → States → List (List Stream) → List (List Stream)
  | _, _, [] => []
  | t, σ, ext :: rest =>
    let r := evalTick t ext p.nodes σ
    p.sinks.map (lookup r.2) :: runFrom p (t + 1) r.1 rest

def run (p : Prog) (hist : List (List Stream)) : List (List Stream) := runFrom p 0 States.init hist

/-- a single operator driven by a history of its (complete per-tick) inputs -/
def runOpFrom (op : Op) : Nat → OpState → List (List Stream) → List (List Stream)
  | _, _, [] => []
  | t, st, ins :: rest =>
    let r := opSem op t [] st ins
    r.2 :: runOpFrom op (t + 1) r.1 rest

def runOp (op : Op) (hist : List (List Stream)) : List (List Stream) := runOpFrom op 0 {} hist

/-- executable well-formedness of an evaluation order: ids are new, inputs were evaluated before -/
def wfFromB : List Nat → List Node → Bool
  | _, [] => true
  | D, n :: ns => !D.contains n.id && n.ins.all (fun r => D.contains r.node) && wfFromB (n.id :: D) ns

/-- a partitioned schedule: subgraphs run one after the other (handoffs = `Env` entries) -/
def runScheduleB (t : Nat) (ext : List Stream) (sch : List (List Node)) (σ : States) : States × Env :=
  sch.foldl (fun σe sg => sg.foldl (fun σe n => stepNode t ext n σe) σe) (σ, Env.empty)

/-! ### shape perturbations (C22) -/

/-- insert a pass-through stage in front of input `k` of node `target`:
    the fresh nodes `extra` are scheduled right before `target`, whose `k`-th input is
    redirected to `r'`. -/
inductive Stage where
  | identity            -- `-> identity() ->` / `-> map(|x| x) ->`
  | mapId
  | tee1 | union1       -- removed again by `eliminate_extra_unions_tees`
  | teeNull             -- `t = tee(); t -> consumer; t -> for_each(drop)`  (forces push)
  | unionEmpty          -- `u = union(); x -> [0]u; source_iter([]) -> [1]u` (forces pull)
deriving DecidableEq, Repr

/-- the fresh nodes of a stage reading `r`, using ids `f` and `f+1`; the stage's output is `⟨f,0⟩` -/
def Stage.nodes (s : Stage) (f : Nat) (r : Ref) : List Node :=
  match s with
  | .identity => [⟨f, .identity, [r]⟩]
  | .mapId => [⟨f, .map .id, [r]⟩]
  | .tee1 => [⟨f, .tee 1, [r]⟩]
  | .union1 => [⟨f, .union 1, [r]⟩]
  | .teeNull => [⟨f, .tee 2, [r]⟩]
  | .unionEmpty => [⟨f + 1, .empty, []⟩, ⟨f, .union 2, [r, ⟨f + 1, 0⟩]⟩]

def setNth {α : Type} : List α → Nat → α → List α
  | [], _, _ => []
  | _ :: xs, 0, v => v :: xs
  | x :: xs, k + 1, v => x :: setNth xs k v

/-- perturb `ns`: in front of input `k` of the node with id `target` -/
def perturbNodes (s : Stage) (f : Nat) (target k : Nat) : List Node → List Node
  | [] => []
  | n :: ns =>
    if n.id = target then
      match n.ins[k]? with
      | some r => s.nodes f r ++ [{ n with ins := setNth n.ins k ⟨f, 0⟩ }] ++ ns
      | none => n :: ns
    else n :: perturbNodes s f target k ns

structure Perturbation where
  stage : Stage
  fresh : Nat
  target : Nat
  k : Nat
deriving Repr

def Prog.perturb (p : Prog) (q : Perturbation) : Prog :=
  { p with nodes := perturbNodes q.stage q.fresh q.target q.k p.nodes }

end HvDfir
