/-
C23 — blocking inputs see the tick's complete input; nothing emitted in a tick is contradicted later.

Model: a program is a well-formed (topologically ordered) node list; one tick evaluates every node
once (`evalTick`).  `producers ns d r` expands the reference `r` through up to `d` levels of
pass-through stages (union / tee / identity / map id / inspect / chain — what handoffs, unions and
tees are in the partitioned graph) and returns the frontier of producer outputs.
The theorems hold for every well-formed program, every depth, every state and input.
-/
import HvDfir.Props.C22
namespace HvDfir

/-- a stage that forwards everything it receives (in input-port order) to output `port` -/
def passOp : Op → Nat → Nat → Bool
  | .union k, len, port => len == k && port == 0
  | .tee k, len, port => len == 1 && decide (port < k)
  | .identity, len, port => len == 1 && port == 0
  | .inspect, len, port => len == 1 && port == 0
  | .map .id, len, port => len == 1 && port == 0
  | .chain, len, port => len == 2 && port == 0
  | _, _, _ => false

def passNode (n : Node) (port : Nat) : Bool := passOp n.op n.ins.length port

/-- the frontier of producers of `r` after expanding at most `d` levels of pass-through stages -/
def producers (ns : List Node) : Nat → Ref → List Ref
  | 0, r => [r]
  | d + 1, r =>
    match ns.find? (fun n => n.id == r.node) with
    | some n => if passNode n r.port then (n.ins.map (producers ns d)).flatten else [r]
    | none => [r]

theorem aux_range_getD (ins : List Stream) :
    (List.range ins.length).map (inp ins) = ins := by
  apply List.ext_getElem
  · simp
  · intro i h1 h2
    simp [inp, List.getD, List.getElem?_eq_getElem (by simpa using h2 : i < ins.length)]

theorem aux_len1 (ins : List Stream) (h : ins.length = 1) : ∃ i0, ins = [i0] := by
  match ins, h with
  | [i0], _ => exact ⟨i0, rfl⟩

theorem aux_len2 (ins : List Stream) (h : ins.length = 2) : ∃ i0 i1, ins = [i0, i1] := by
  match ins, h with
  | [i0, i1], _ => exact ⟨i0, i1, rfl⟩

/-- a pass-through stage forwards the concatenation of its inputs -/
theorem aux_passOp_sem (op : Op) (port : Nat) (t : Nat) (ext : List Stream)
    (st : OpState) (ins : List Stream) (hp : passOp op ins.length port = true) :
    ((opSem op t ext st ins).2).getD port [] = ins.flatten := by
  cases op with
  | union k =>
    simp only [passOp, Bool.and_eq_true, beq_iff_eq] at hp
    obtain ⟨h1, h2⟩ := hp
    subst h1; subst h2
    simp [opSem, aux_range_getD]
  | tee k =>
    simp only [passOp, Bool.and_eq_true, beq_iff_eq, decide_eq_true_eq] at hp
    obtain ⟨h1, h2⟩ := hp
    obtain ⟨i0, rfl⟩ := aux_len1 ins h1
    simp [opSem, inp, List.getD, List.getElem?_replicate, h2]
  | identity =>
    simp only [passOp, Bool.and_eq_true, beq_iff_eq] at hp
    obtain ⟨h1, h2⟩ := hp
    obtain ⟨i0, rfl⟩ := aux_len1 ins h1
    subst h2; simp [opSem, inp]
  | inspect =>
    simp only [passOp, Bool.and_eq_true, beq_iff_eq] at hp
    obtain ⟨h1, h2⟩ := hp
    obtain ⟨i0, rfl⟩ := aux_len1 ins h1
    subst h2; simp [opSem, inp]
  | chain =>
    simp only [passOp, Bool.and_eq_true, beq_iff_eq] at hp
    obtain ⟨h1, h2⟩ := hp
    obtain ⟨i0, i1, rfl⟩ := aux_len2 ins h1
    subst h2; simp [opSem, inp]
  | map f =>
    cases f <;> simp only [passOp, Bool.false_eq_true] at hp
    simp only [Bool.and_eq_true, beq_iff_eq] at hp
    obtain ⟨h1, h2⟩ := hp
    obtain ⟨i0, rfl⟩ := aux_len1 ins h1
    have hid : MapFn.id.app = id := by funext v; rfl
    subst h2; simp [opSem, inp, hid]
  | _ => simp [passOp] at hp

theorem aux_pass_sem (n : Node) (port : Nat) (hp : passNode n port = true) (t : Nat) (ext : List Stream)
    (st : OpState) (ins : List Stream) (hl : ins.length = n.ins.length) :
    ((opSem n.op t ext st ins).2).getD port [] = ins.flatten := by
  apply aux_passOp_sem
  rw [hl]; exact hp

theorem aux_flatten_map_flatten {α β : Type} (L : List (List α)) (f : α → List β) :
    (L.flatten.map f).flatten = (L.map fun l => (l.map f).flatten).flatten := by
  induction L with
  | nil => rfl
  | cons l ls ih =>
    simp only [List.flatten_cons, List.map_append, List.flatten_append, List.map_cons, ih]

/-- the content of `r` in the tick's environment is the concatenation of what the producers at
    any expansion depth emitted in this tick -/
theorem aux_lookup_producers (t : Nat) (ext : List Stream) (ns : List Node) (σ : States) (hwf : WF ns)
    (d : Nat) (r : Ref) :
    lookup (evalTick t ext ns σ).2 r
      = ((producers ns d r).map (lookup (evalTick t ext ns σ).2)).flatten := by
  induction d generalizing r with
  | zero => simp [producers]
  | succ d ih =>
    unfold producers
    split
    · rename_i n hfind
      split
      · rename_i hp
        have hmem : n ∈ ns := List.mem_of_find?_eq_some hfind
        have hid : n.id = r.node := by
          have := List.find?_some hfind
          simpa using this
        have hsol := (runNodes_sol t ext [] ns (σ, Env.empty) hwf n hmem).1
        rw [← evalTick_eq_runNodes] at hsol
        have : lookup (evalTick t ext ns σ).2 r
            = (n.ins.map (lookup (evalTick t ext ns σ).2)).flatten := by
          unfold lookup
          rw [← hid, hsol]
          exact aux_pass_sem n r.port hp t ext _ _ (by simp)
        rw [this, aux_flatten_map_flatten, List.map_map]
        congr 1
        apply List.map_congr_left
        intro ri _
        exact ih ri
      · simp
    · simp

/-- **blocking_input_complete.** In every well-formed program, what a node computes in a tick is
    its operator semantics applied, on every input port, to *everything* the producers of that
    port emitted in the tick — however deep the chain of unions / tees / identities / handoffs
    between the producers and the port. -/
theorem blocking_input_complete (t : Nat) (ext : List Stream) (ns : List Node) (σ : States) (hwf : WF ns)
    (b : Node) (hb : b ∈ ns) (d : Nat) :
    (evalTick t ext ns σ).2 b.id =
      (opSem b.op t ext (σ b.id)
        (b.ins.map fun r => ((producers ns d r).map (lookup (evalTick t ext ns σ).2)).flatten)).2 := by
  have hsol := (runNodes_sol t ext [] ns (σ, Env.empty) hwf b hb).1
  rw [← evalTick_eq_runNodes] at hsol
  rw [hsol]
  congr 2
  apply List.map_congr_left
  intro r _
  exact aux_lookup_producers t ext ns σ hwf d r

/-- **blocking_input_complete, partitioned form.** However the program's nodes are split into
    subgraphs that run one after the other with handoff buffers in between (`runSchedule`, the
    function the driver runs on the partition the real compiler chose), as long as the flattened
    order is well formed: every node computes its operator semantics on everything its
    (transitive, pass-through-expanded) producers emitted in the tick. -/
theorem blocking_input_complete_any_partition (t : Nat) (ext : List Stream) (sch : Schedule) (σ : States)
    (hwf : WF sch.flatten) (b : Node) (hb : b ∈ sch.flatten) (d : Nat) :
    (runSchedule t ext sch σ).2 b.id =
      (opSem b.op t ext (σ b.id)
        (b.ins.map fun r => ((producers sch.flatten d r).map (lookup (runSchedule t ext sch σ).2)).flatten)).2 := by
  have e : runSchedule t ext sch σ = evalTick t ext sch.flatten σ := by
    unfold runSchedule
    rw [aux_runSchedule_flatten, evalTick_eq_runNodes]
  rw [e]
  exact blocking_input_complete t ext sch.flatten σ hwf b hb d

/-- instance: a `fold` emits the accumulation over all items of all its (transitive) producers -/
theorem fold_sees_all_producers (t : Nat) (ext : List Stream) (ns : List Node) (σ : States) (hwf : WF ns)
    (b : Node) (hb : b ∈ ns) (p : Pers) (f : AccFn) (r : Ref) (hop : b.op = .fold p f) (hins : b.ins = [r]) (d : Nat) :
    lookup (evalTick t ext ns σ).2 ⟨b.id, 0⟩ =
      [(((producers ns d r).map (lookup (evalTick t ext ns σ).2)).flatten).foldl f.app (((σ b.id).acc).getD (.num 0))] := by
  have h := blocking_input_complete t ext ns σ hwf b hb d
  rw [hop, hins] at h
  have hl : lookup (evalTick t ext ns σ).2 ⟨b.id, 0⟩ = ((evalTick t ext ns σ).2 b.id).getD 0 [] := rfl
  rw [hl, h]
  simp [opSem, inp]

/-- instance: nothing an `anti_join` emits has a key that *any* producer of its negative input
    emitted in the same tick (or, for a `'static` negative side, that is still held) -/
theorem antijoin_neg_sees_all_producers (t : Nat) (ext : List Stream) (ns : List Node) (σ : States) (hwf : WF ns)
    (b : Node) (hb : b ∈ ns) (pp pn : Pers) (rp rn : Ref) (hop : b.op = .antiJoin pp pn) (hins : b.ins = [rp, rn])
    (d : Nat) (x : Val) (hx : x ∈ lookup (evalTick t ext ns σ).2 ⟨b.id, 0⟩) :
    (∀ pr ∈ producers ns d rn, keyOf x ∉ lookup (evalTick t ext ns σ).2 pr) ∧ keyOf x ∉ (σ b.id).r := by
  have h := blocking_input_complete t ext ns σ hwf b hb d
  rw [hop, hins] at h
  have hl : lookup (evalTick t ext ns σ).2 ⟨b.id, 0⟩ = ((evalTick t ext ns σ).2 b.id).getD 0 [] := rfl
  rw [hl, h] at hx
  simp only [opSem, inp, List.map_cons, List.map_nil, List.getD_cons_zero, List.getD_cons_succ] at hx
  simp only [List.getD_cons_zero, List.mem_filter, Bool.not_eq_true', List.contains_eq_mem, decide_eq_false_iff_not,
    List.mem_append, not_or] at hx
  obtain ⟨_, h1, h2⟩ := hx
  refine ⟨?_, h1⟩
  intro pr hpr hk
  apply h2
  exact List.mem_flatten.mpr ⟨_, List.mem_map.mpr ⟨pr, hpr, rfl⟩, hk⟩

/-- **no_retraction (a).** Within a tick a node's outputs are written once: after the node has
    run, the rest of the tick leaves its outputs (and its next-tick state) as they are. -/
theorem no_retraction_within_tick (t : Nat) (ext : List Stream) (pre post : List Node) (n : Node) (σ : States)
    (hwf : WF (pre ++ n :: post)) :
    (evalTick t ext (pre ++ n :: post) σ).2 n.id = (evalTick t ext (pre ++ [n]) σ).2 n.id ∧
    (evalTick t ext (pre ++ n :: post) σ).1 n.id = (evalTick t ext (pre ++ [n]) σ).1 n.id := by
  have hsplit : pre ++ n :: post = (pre ++ [n]) ++ post := by simp
  rw [hsplit, evalTick_eq_runNodes, runNodes_append, ← evalTick_eq_runNodes]
  have hnot : n.id ∉ ids post := by
    -- ids of a well-formed list are pairwise different
    have key : ∀ (D : List Nat) (pre : List Node), WFrom D (pre ++ n :: post) → n.id ∉ ids post := by
      intro D pre
      induction pre generalizing D with
      | nil =>
        intro h hin
        obtain ⟨m, hm, he⟩ := List.mem_map.mp hin
        exact WFrom_head_notin_tail h m hm he
      | cons a as ih => intro h; exact ih (a.id :: D) h.2.2
    exact key [] pre hwf
  obtain ⟨a, b⟩ := runNodes_untouched t ext post (evalTick t ext (pre ++ [n]) σ) n.id hnot
  exact ⟨b, a⟩

/-- **no_retraction (b).** The outputs of the ticks run so far do not depend on what arrives later:
    a longer history only appends. -/
theorem no_retraction_across_ticks (p : Prog) (h h' : List (List Stream)) :
    (run p (h ++ h')).take h.length = run p h := by
  unfold run
  generalize (0 : Nat) = t
  generalize States.init = σ
  induction h generalizing t σ with
  | nil => simp [runFrom]
  | cons x xs ih => simp [runFrom, ih]

/-! non-vacuity: a union/tee chain of depth 2 in front of a fold -/
example :
    let ns : List Node := [⟨0, .source 0, []⟩, ⟨1, .source 1, []⟩, ⟨2, .union 2, [⟨0, 0⟩, ⟨1, 0⟩]⟩,
      ⟨3, .tee 2, [⟨2, 0⟩]⟩, ⟨4, .fold .tick .sum, [⟨3, 0⟩]⟩]
    producers ns 5 ⟨3, 0⟩ = [⟨0, 0⟩, ⟨1, 0⟩] ∧
    lookup (evalTick 0 [[.num 1, .num 2], [.num 4]] ns States.init).2 ⟨4, 0⟩ = [.num 7] := by
  decide

/-! non-vacuity of the partitioned form: the same program split into three subgraphs -/
example :
    let sch : Schedule := [[⟨0, .source 0, []⟩, ⟨1, .source 1, []⟩], [⟨2, .union 2, [⟨0, 0⟩, ⟨1, 0⟩]⟩, ⟨3, .tee 2, [⟨2, 0⟩]⟩],
      [⟨4, .fold .tick .sum, [⟨3, 0⟩]⟩]]
    wfFromB [] sch.flatten = true ∧
    lookup (runSchedule 0 [[.num 1, .num 2], [.num 4]] sch States.init).2 ⟨4, 0⟩ = [.num 7] := by
  decide

end HvDfir
