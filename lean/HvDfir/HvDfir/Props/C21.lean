/-
C21 — DFIR operators compute their documented per-tick results.

Every theorem is about the reference semantics `opSem` (Model/Dfir.lean) driven over an
*arbitrary* history of per-tick inputs (`runOp`), one theorem per documented clause.
The tie to the operator code generators is the differential execution of the corpus
(`hv_dfir c21`): the same `opSem` interprets every compiled `dfir_syntax!` program.
-/
import HvDfir.Model.Dfir
namespace HvDfir

/-! ### histories -/

/-- prefix concatenations: what a `'static` input has seen at the end of each tick -/
def cums (acc : Stream) : List Stream → List Stream
  | [] => []
  | x :: xs => (acc ++ x) :: cums (acc ++ x) xs

/-- what an input with persistence `p` holds in each tick: everything so far, or this tick only -/
def seen (p : Pers) (h : List Stream) : List Stream :=
  match p with
  | .static => cums [] h
  | .tick => h

/-- unary history -/
def un (h : List Stream) : List (List Stream) := h.map fun x => [x]
/-- binary history -/
def bin (h : List (Stream × Stream)) : List (List Stream) := h.map fun x => [x.1, x.2]

theorem aux_cums_length (acc : Stream) (h : List Stream) : (cums acc h).length = h.length := by
  induction h generalizing acc with
  | nil => rfl
  | cons x xs ih => simp [cums, ih]

/-! ### stateless operators are their iterator analogues, tick by tick -/

theorem aux_stateless (op : Op) (g : List Stream → List Stream)
    (hsem : ∀ t st ins, opSem op t [] st ins = (st, g ins)) (h : List (List Stream)) :
    ∀ t st, runOpFrom op t st h = h.map g := by
  induction h with
  | nil => intro t st; rfl
  | cons x xs ih => intro t st; simp [runOpFrom, hsem, ih]


theorem map_is_iterator_map (f : MapFn) (h : List Stream) :
    runOp (.map f) (un h) = h.map fun x => [x.map f.app] := by
  unfold runOp un
  rw [aux_stateless _ _ (by intro t st ins; simp [opSem]; rfl)]
  simp [inp]

theorem filter_is_iterator_filter (p : PredFn) (h : List Stream) :
    runOp (.filter p) (un h) = h.map fun x => [x.filter p.app] := by
  unfold runOp un
  rw [aux_stateless _ _ (by intro t st ins; simp [opSem]; rfl)]
  simp [inp]

theorem filterMap_flatMap_flatten_are_iterator_analogues (h : List Stream) :
    (∀ f, runOp (.filterMap f) (un h) = h.map fun x => [x.filterMap f.app]) ∧
    (∀ f, runOp (.flatMap f) (un h) = h.map fun x => [x.flatMap f.app]) ∧
    runOp .flatten (un h) = h.map fun x => [x.flatMap Val.toList] := by
  refine ⟨fun f => ?_, fun f => ?_, ?_⟩ <;>
  · unfold runOp un
    rw [aux_stateless _ _ (by intro t st ins; simp [opSem]; rfl)]
    simp [inp, List.range, List.range.loop]

theorem chain_and_union_concatenate (h : List (Stream × Stream)) :
    runOp .chain (bin h) = h.map (fun x => [x.1 ++ x.2]) ∧
    runOp (.union 2) (bin h) = h.map (fun x => [x.1 ++ x.2]) := by
  constructor <;>
  · unfold runOp bin
    rw [aux_stateless _ _ (by intro t st ins; simp [opSem]; rfl)]
    simp [inp, List.range, List.range.loop]

theorem chainFirstN_takes_prefix (n : Nat) (h : List (Stream × Stream)) :
    runOp (.chainFirstN n) (bin h) = h.map (fun x => [(x.1 ++ x.2).take n]) := by
  unfold runOp bin
  rw [aux_stateless _ _ (by intro t st ins; simp [opSem]; rfl)]
  simp [inp]

theorem tee_copies_to_every_output (n : Nat) (h : List Stream) :
    runOp (.tee n) (un h) = h.map fun x => List.replicate n x := by
  unfold runOp un
  rw [aux_stateless _ _ (by intro t st ins; simp [opSem]; rfl)]
  simp [inp]

/-- `partition`: every item goes to exactly the output the closure names -/
theorem partition_routes_each_item_once (n : Nat) (x : Stream) (st : OpState) (t : Nat) (v : Val) (j : Nat)
    (hj : j < n) :
    v ∈ ((opSem (.partition n) t [] st [x]).2.getD j []) ↔ (v ∈ x ∧ hv v % n = j) := by
  simp [opSem, inp, List.getD, hj]

theorem unzip_splits_pairs (h : List Stream) :
    runOp .unzip (un h) = h.map fun x => [x.map Val.fst, x.map Val.snd] := by
  unfold runOp un
  rw [aux_stateless _ _ (by intro t st ins; simp [opSem]; rfl)]
  simp [inp]

/-! ### sort -/

theorem aux_insertBy_perm (le : Val → Val → Bool) (x : Val) (l : List Val) :
    (insertBy le x l).Perm (x :: l) := by
  induction l with
  | nil => exact List.Perm.refl _
  | cons y ys ih =>
    simp only [insertBy]
    split
    · exact List.Perm.refl _
    · exact (List.Perm.cons y ih).trans (List.Perm.swap x y ys)

theorem aux_sortBy_perm (le : Val → Val → Bool) (l : List Val) : (sortBy le l).Perm l := by
  induction l with
  | nil => exact List.Perm.refl _
  | cons x xs ih => exact (aux_insertBy_perm le x _).trans (List.Perm.cons x ih)

theorem aux_insertBy_sorted (le : Val → Val → Bool) (tot : ∀ a b, le a b = true ∨ le b a = true)
    (tr : ∀ a b c, le a b = true → le b c = true → le a c = true) (x : Val) (l : List Val)
    (hs : l.Pairwise (fun a b => le a b = true)) : (insertBy le x l).Pairwise (fun a b => le a b = true) := by
  induction l with
  | nil => simp [insertBy]
  | cons y ys ih =>
    simp only [insertBy]
    rcases List.pairwise_cons.mp hs with ⟨hy, hys⟩
    split
    · rename_i hxy
      refine List.pairwise_cons.mpr ⟨?_, hs⟩
      intro z hz
      rcases List.mem_cons.mp hz with rfl | hz
      · exact hxy
      · exact tr _ _ _ hxy (hy z hz)
    · rename_i hxy
      have hyx : le y x = true := by
        rcases tot x y with h | h
        · exact absurd h hxy
        · exact h
      refine List.pairwise_cons.mpr ⟨?_, ih hys⟩
      intro z hz
      have : z ∈ x :: ys := (aux_insertBy_perm le x ys).subset hz
      rcases List.mem_cons.mp this with rfl | hz
      · exact hyx
      · exact hy z hz

/-- `sort` / `sort_by_key`: the output is a permutation of the tick's input, ordered by the key
    (for every total preorder `le`; `Val.le` is one on the sortable item types) -/
theorem sort_output_sorted_perm (le : Val → Val → Bool) (tot : ∀ a b, le a b = true ∨ le b a = true)
    (tr : ∀ a b c, le a b = true → le b c = true → le a c = true) (l : List Val) :
    (sortBy le l).Perm l ∧ (sortBy le l).Pairwise (fun a b => le a b = true) := by
  refine ⟨aux_sortBy_perm le l, ?_⟩
  induction l with
  | nil => simp [sortBy]
  | cons x xs ih => exact aux_insertBy_sorted le tot tr x _ ih

theorem sort_emits_sorted_tick_input (h : List Stream) :
    runOp .sort (un h) = h.map fun x => [sortBy Val.le x] := by
  unfold runOp un
  rw [aux_stateless _ _ (by intro t st ins; simp [opSem]; rfl)]
  simp [inp]

/-! ### `Val.le` is the total order `sort` / `sort_by_key` need (review addition: the generic
    `sort_output_sorted_perm` is instantiated, not left with open hypotheses) -/

theorem aux_cmp_refl (a : Val) : Val.cmp a a = .eq := by
  induction a with
  | num n => simp [Val.cmp]
  | unit => rfl
  | pair a b iha ihb => simp [Val.cmp, iha, ihb]

theorem aux_cmp_swap (a b : Val) : (Val.cmp a b).swap = Val.cmp b a := by
  induction a generalizing b with
  | num n => cases b <;> simp [Val.cmp, Nat.compare_swap]
  | unit => cases b <;> simp [Val.cmp]
  | pair a1 a2 ih1 ih2 =>
    cases b with
    | num m => simp [Val.cmp]
    | unit => simp [Val.cmp]
    | pair b1 b2 =>
      simp only [Val.cmp]
      rw [← ih1 b1, ← ih2 b2]
      cases Val.cmp a1 b1 <;> simp

theorem aux_cmp_eq (a b : Val) (h : Val.cmp a b = .eq) : a = b := by
  induction a generalizing b with
  | num n =>
    cases b <;> simp [Val.cmp] at h
    exact congrArg Val.num h
  | unit => cases b <;> simp [Val.cmp] at h; rfl
  | pair a1 a2 ih1 ih2 =>
    cases b with
    | num m => simp [Val.cmp] at h
    | unit => simp [Val.cmp] at h
    | pair b1 b2 =>
      simp only [Val.cmp] at h
      cases h1 : Val.cmp a1 b1 <;> simp [h1] at h
      rw [ih1 b1 h1, ih2 b2 h]

theorem aux_cmp_lt_trans (a b c : Val) (h1 : Val.cmp a b = .lt) (h2 : Val.cmp b c = .lt) : Val.cmp a c = .lt := by
  induction a generalizing b c with
  | num n =>
    cases b <;> cases c <;> simp [Val.cmp] at h1 h2 ⊢
    rw [Nat.compare_eq_lt] at h1 h2 ⊢; omega
  | unit => cases b <;> cases c <;> simp [Val.cmp] at h1 h2 ⊢
  | pair a1 a2 ih1 ih2 =>
    cases b with
    | num m => simp [Val.cmp] at h1
    | unit => simp [Val.cmp] at h1
    | pair b1 b2 =>
      cases c with
      | num m => simp [Val.cmp] at h2
      | unit => simp [Val.cmp] at h2
      | pair c1 c2 =>
        simp only [Val.cmp] at h1 h2 ⊢
        cases e1 : Val.cmp a1 b1 <;> simp [e1] at h1 <;>
        cases e2 : Val.cmp b1 c1 <;> simp [e2] at h2
        · simp [ih1 b1 c1 e1 e2]
        · have := aux_cmp_eq _ _ e2; subst this; simp [e1]
        · have := aux_cmp_eq _ _ e1; subst this; simp [e2]
        · have := aux_cmp_eq _ _ e1; subst this
          have := aux_cmp_eq _ _ e2; subst this
          simp [aux_cmp_refl, ih2 b2 c2 h1 h2]

theorem aux_le_iff (a b : Val) : Val.le a b = true ↔ (Val.cmp a b = .lt ∨ a = b) := by
  unfold Val.le Val.lt
  rw [← aux_cmp_swap a b]
  constructor
  · intro h
    cases e : Val.cmp a b
    · exact Or.inl rfl
    · exact Or.inr (aux_cmp_eq _ _ e)
    · simp [e] at h
  · rintro (h | h)
    · simp [h]
    · subst h; simp [aux_cmp_refl]

/-- `Val.le` (Rust `Ord` on the sortable item types) is a total order -/
theorem valLe_total_transitive :
    (∀ a b, Val.le a b = true ∨ Val.le b a = true) ∧
    (∀ a b c, Val.le a b = true → Val.le b c = true → Val.le a c = true) := by
  constructor
  · intro a b
    rw [aux_le_iff, aux_le_iff]
    cases e : Val.cmp a b
    · exact Or.inl (Or.inl rfl)
    · exact Or.inl (Or.inr (aux_cmp_eq _ _ e))
    · right; left; rw [← aux_cmp_swap, e]; rfl
  · intro a b c
    rw [aux_le_iff, aux_le_iff, aux_le_iff]
    rintro (h1 | h1) (h2 | h2)
    · exact Or.inl (aux_cmp_lt_trans a b c h1 h2)
    · subst h2; exact Or.inl h1
    · subst h1; exact Or.inl h2
    · subst h1; exact Or.inr h2

/-- `sort()`: every tick's output is the tick's input, permuted, in ascending `Ord` order -/
theorem sort_is_sorted_permutation_each_tick (h : List Stream) :
    runOp .sort (un h) = (h.map fun x => [sortBy Val.le x]) ∧
    ∀ x : Stream, (sortBy Val.le x).Perm x ∧ (sortBy Val.le x).Pairwise (fun a b => Val.le a b = true) :=
  ⟨sort_emits_sorted_tick_input h,
   fun x => sort_output_sorted_perm Val.le valLe_total_transitive.1 valLe_total_transitive.2 x⟩

/-- `sort_by_key(k)`: every tick's output is the tick's input, permuted, ascending in the key
    (items with equal keys in unspecified relative order: the code uses `sort_unstable_by_key`,
    the harness compares such sinks as multisets) -/
theorem sortByKey_is_sorted_permutation_each_tick (k : KeyFn) (h : List Stream) :
    runOp (.sortByKey k) (un h) = (h.map fun x => [sortBy (fun a b => Val.le (k.app a) (k.app b)) x]) ∧
    ∀ x : Stream, (sortBy (fun a b => Val.le (k.app a) (k.app b)) x).Perm x ∧
      (sortBy (fun a b => Val.le (k.app a) (k.app b)) x).Pairwise (fun a b => Val.le (k.app a) (k.app b) = true) := by
  refine ⟨?_, fun x => sort_output_sorted_perm (fun a b => Val.le (k.app a) (k.app b))
    (fun a b => valLe_total_transitive.1 (k.app a) (k.app b))
    (fun a b c => valLe_total_transitive.2 (k.app a) (k.app b) (k.app c)) x⟩
  unfold runOp un
  rw [aux_stateless _ _ (by intro t st ins; simp [opSem]; rfl)]
  simp [inp]

example : sortBy Val.le [.num 3, .num 1, .num 2] = [.num 1, .num 2, .num 3] := by decide

/-! ### persist, fold, reduce, enumerate -/

/-- `persist::<'static>()` replays everything seen so far, every tick -/
theorem persist_replays_all (h : List Stream) :
    runOp .persist (un h) = (cums [] h).map fun c => [c] := by
  unfold runOp un
  have key : ∀ (st : OpState) (t : Nat),
      runOpFrom .persist t st (h.map fun x => [x]) = (cums st.l h).map fun c => [c] := by
    induction h with
    | nil => intro st t; rfl
    | cons x xs ih => intro st t; simp [runOpFrom, opSem, inp, cums, ih]
  simpa using key {} 0

/-- `fold::<'static>`: the accumulated value over everything seen so far -/
theorem fold_static_accumulates (f : AccFn) (h : List Stream) :
    runOp (.fold .static f) (un h) = (cums [] h).map fun c => [[c.foldl f.app (.num 0)]] := by
  unfold runOp un
  have key : ∀ (st : OpState) (t : Nat) (pre : Stream),
      st.acc.getD (.num 0) = pre.foldl f.app (.num 0) →
      runOpFrom (.fold .static f) t st (h.map fun x => [x])
        = (cums pre h).map fun c => [[c.foldl f.app (.num 0)]] := by
    induction h with
    | nil => intro st t pre _; rfl
    | cons x xs ih =>
      intro st t pre hp
      simp only [List.map_cons, runOpFrom, cums]
      have : (opSem (.fold .static f) t [] st [x]) =
          ({ st with acc := some ((pre ++ x).foldl f.app (.num 0)) }, [[(pre ++ x).foldl f.app (.num 0)]]) := by
        simp [opSem, inp, hp, List.foldl_append]
      rw [this]
      simp only [List.cons.injEq, true_and]
      exact ih _ _ _ (by simp)
  simpa using key {} 0 [] (by simp)

/-- `fold::<'tick>`: the accumulator restarts from the initial value every tick -/
theorem fold_tick_resets (f : AccFn) (h : List Stream) :
    runOp (.fold .tick f) (un h) = h.map fun x => [[x.foldl f.app (.num 0)]] := by
  unfold runOp un
  have key : ∀ (st : OpState) (t : Nat), st.acc = none →
      runOpFrom (.fold .tick f) t st (h.map fun x => [x]) = h.map fun x => [[x.foldl f.app (.num 0)]] := by
    induction h with
    | nil => intro st t _; rfl
    | cons x xs ih =>
      intro st t hs
      simp only [List.map_cons, runOpFrom]
      simp [opSem, inp, hs]
      exact ih _ _ rfl
  simpa using key {} 0 rfl

theorem aux_reduceOpt_append (f : AccFn) (o : Option Val) (a b : Stream) :
    reduceOpt f o (a ++ b) = reduceOpt f (reduceOpt f o a) b := by
  induction a generalizing o with
  | nil => cases o <;> rfl
  | cons x xs ih => cases o <;> simp [reduceOpt, ih]

/-- `reduce::<'static>`: first item seeds the accumulator, no output until one arrived -/
theorem reduce_static_accumulates (f : AccFn) (h : List Stream) :
    runOp (.reduce .static f) (un h) = (cums [] h).map fun c => [(reduceOpt f none c).toList] := by
  unfold runOp un
  have key : ∀ (st : OpState) (t : Nat) (pre : Stream), st.acc = reduceOpt f none pre →
      runOpFrom (.reduce .static f) t st (h.map fun x => [x])
        = (cums pre h).map fun c => [(reduceOpt f none c).toList] := by
    induction h with
    | nil => intro st t pre _; rfl
    | cons x xs ih =>
      intro st t pre hp
      simp only [List.map_cons, runOpFrom, cums]
      simp [opSem, inp, hp, ← aux_reduceOpt_append]
      exact ih _ _ _ (by simp [aux_reduceOpt_append])
  simpa using key {} 0 [] rfl

theorem reduce_tick_resets (f : AccFn) (h : List Stream) :
    runOp (.reduce .tick f) (un h) = h.map fun x => [(reduceOpt f none x).toList] := by
  unfold runOp un
  have key : ∀ (st : OpState) (t : Nat), st.acc = none →
      runOpFrom (.reduce .tick f) t st (h.map fun x => [x]) = h.map fun x => [(reduceOpt f none x).toList] := by
    induction h with
    | nil => intro st t _; rfl
    | cons x xs ih =>
      intro st t hs
      simp only [List.map_cons, runOpFrom]
      simp [opSem, inp, hs]
      exact ih _ _ rfl
  simpa using key {} 0 rfl

/-- `fold_no_replay` emits exactly when the tick had input (or it is tick 0) -/
theorem foldNoReplay_emits_iff_input (p : Pers) (f : AccFn) (t : Nat) (st : OpState) (x : Stream) :
    (opSem (.foldNoReplay p f) t [] st [x]).2 =
      [if x ≠ [] ∨ t = 0 then [x.foldl f.app (st.acc.getD (.num 0))] else []] := by
  cases x <;> simp [opSem, inp]

/-- indices of `enumerate`: consecutive from `start` -/
def enumFrom' (start : Nat) (x : Stream) : Stream :=
  (List.range x.length).zipWith (fun i v => Val.pair (.num (start + i)) v) x

theorem aux_enumerate_sem (p : Pers) (t : Nat) (st : OpState) (x : Stream) :
    opSem (.enumerate p) t [] st [x] =
      ({ st with cnt := match p with | .static => st.cnt + x.length | .tick => 0 }, [enumFrom' st.cnt x]) := by
  cases p <;> simp [opSem, inp, enumFrom']

/-- `enumerate::<'tick>` restarts at 0 every tick -/
theorem enumerate_tick_restarts (h : List Stream) :
    runOp (.enumerate .tick) (un h) = h.map fun x => [enumFrom' 0 x] := by
  unfold runOp un
  have key : ∀ (st : OpState) (t : Nat), st.cnt = 0 →
      runOpFrom (.enumerate .tick) t st (h.map fun x => [x]) = h.map fun x => [enumFrom' 0 x] := by
    induction h with
    | nil => intro st t _; rfl
    | cons x xs ih =>
      intro st t hs
      simp only [List.map_cons, runOpFrom, aux_enumerate_sem, hs, List.cons.injEq, true_and]
      exact ih _ _ rfl
  simpa using key {} 0 rfl

/-- `enumerate::<'static>` counts monotonically across ticks: tick `t` starts where the
    previous ones stopped -/
theorem enumerate_static_continues (h : List Stream) :
    runOp (.enumerate .static) (un h)
      = (List.zip (([] : Stream) :: cums [] h) h).map fun cx => [enumFrom' cx.1.length cx.2] := by
  unfold runOp un
  have key : ∀ (st : OpState) (t : Nat) (pre : Stream), st.cnt = pre.length →
      runOpFrom (.enumerate .static) t st (h.map fun x => [x])
        = (List.zip (pre :: cums pre h) h).map fun cx => [enumFrom' cx.1.length cx.2] := by
    induction h with
    | nil => intro st t pre _; rfl
    | cons x xs ih =>
      intro st t pre hs
      simp only [List.map_cons, runOpFrom, cums, List.zip_cons_cons, aux_enumerate_sem, hs, List.cons.injEq, true_and]
      exact ih _ _ _ (by simp)
  simpa using key {} 0 [] rfl

/-! ### unique -/

theorem aux_uniqueGo (seen xs : List Val) :
    (uniqueGo seen xs).1 = seen ++ (uniqueGo seen xs).2 ∧
    (∀ x ∈ (uniqueGo seen xs).2, x ∉ seen ∧ x ∈ xs) ∧
    (uniqueGo seen xs).2.Nodup ∧
    (∀ x ∈ xs, x ∈ seen ∨ x ∈ (uniqueGo seen xs).2) := by
  induction xs generalizing seen with
  | nil => simp [uniqueGo]
  | cons y ys ih =>
    by_cases hy : seen.contains y = true
    · have hm : y ∈ seen := by simpa using hy
      simp only [uniqueGo, hy, if_true]
      obtain ⟨h1, h2, h3, h4⟩ := ih seen
      refine ⟨h1, fun x hx => ⟨(h2 x hx).1, List.mem_cons_of_mem _ (h2 x hx).2⟩, h3, ?_⟩
      intro x hx
      rcases List.mem_cons.mp hx with rfl | hx
      · exact Or.inl hm
      · exact h4 x hx
    · have hm : y ∉ seen := by simpa using hy
      simp only [uniqueGo, hy]
      obtain ⟨h1, h2, h3, h4⟩ := ih (seen ++ [y])
      refine ⟨by simp [h1], ?_, ?_, ?_⟩
      · intro x hx
        rcases List.mem_cons.mp hx with rfl | hx
        · exact ⟨hm, List.mem_cons_self⟩
        · have := h2 x hx
          exact ⟨fun h => this.1 (List.mem_append_left _ h), List.mem_cons_of_mem _ this.2⟩
      · refine List.nodup_cons.mpr ⟨?_, h3⟩
        intro hin
        exact (h2 y hin).1 (by simp)
      · intro x hx
        rcases List.mem_cons.mp hx with rfl | hx
        · exact Or.inr List.mem_cons_self
        · rcases h4 x hx with h | h
          · rcases List.mem_append.mp h with h | h
            · exact Or.inl h
            · simp at h; subst h; exact Or.inr List.mem_cons_self
          · exact Or.inr (List.mem_cons_of_mem _ h)

/-- all outputs of a run, flattened over ticks (single output port) -/
def allOut (o : List (List Stream)) : Stream := (o.map fun ports => ports.getD 0 []).flatten

/-- `unique::<'static>` never repeats an item within its lifetime, and emits every new item -/
theorem unique_never_repeats (h : List Stream) :
    (allOut (runOp (.unique .static) (un h))).Nodup ∧
    (∀ x, x ∈ h.flatten ↔ x ∈ allOut (runOp (.unique .static) (un h))) := by
  unfold runOp un allOut
  have key : ∀ (st : OpState) (t : Nat),
      let o := ((runOpFrom (.unique .static) t st (h.map fun x => [x])).map fun ports => ports.getD 0 []).flatten
      o.Nodup ∧ (∀ x ∈ o, x ∉ st.l) ∧ (∀ x, x ∈ h.flatten → x ∈ st.l ∨ x ∈ o) ∧ (∀ x ∈ o, x ∈ h.flatten) := by
    induction h with
    | nil => intro st t; simp [runOpFrom]
    | cons y ys ih =>
      intro st t
      simp only [List.map_cons, runOpFrom]
      obtain ⟨g1, g2, g3, g4⟩ := aux_uniqueGo st.l y
      have hsem : opSem (.unique .static) t [] st [y] =
          ({ st with l := (uniqueGo st.l y).1 }, [(uniqueGo st.l y).2]) := by simp [opSem, inp, keep]
      rw [hsem]
      obtain ⟨i1, i2, i3, i4⟩ := ih { st with l := (uniqueGo st.l y).1 } (t + 1)
      simp only [List.flatten_cons, List.getD_cons_zero] at *
      refine ⟨?_, ?_, ?_, ?_⟩
      · refine List.nodup_append.mpr ⟨g3, i1, ?_⟩
        intro a ha b hb hab
        subst hab
        exact i2 a hb (by rw [g1]; exact List.mem_append_right _ ha)
      · intro x hx
        rcases List.mem_append.mp hx with hx | hx
        · exact (g2 x hx).1
        · intro hl; exact i2 x hx (by rw [g1]; exact List.mem_append_left _ hl)
      · intro x hx
        rcases List.mem_append.mp hx with hx | hx
        · rcases g4 x hx with h | h
          · exact Or.inl h
          · exact Or.inr (List.mem_append_left _ h)
        · rcases i3 x hx with h | h
          · rw [g1] at h
            rcases List.mem_append.mp h with h | h
            · exact Or.inl h
            · exact Or.inr (List.mem_append_left _ h)
          · exact Or.inr (List.mem_append_right _ h)
      · intro x hx
        rcases List.mem_append.mp hx with hx | hx
        · exact List.mem_append_left _ (g2 x hx).2
        · exact List.mem_append_right _ (i4 x hx)
  obtain ⟨k1, _, k3, k4⟩ := key {} 0
  refine ⟨k1, fun x => ⟨fun hx => ?_, fun hx => k4 x hx⟩⟩
  rcases k3 x hx with h | h
  · simp at h
  · exact h

/-- `unique::<'tick>`: per tick the distinct items of the tick, first occurrences in order -/
theorem unique_tick_dedups_each_tick (h : List Stream) :
    runOp (.unique .tick) (un h) = h.map fun x => [(uniqueGo [] x).2] := by
  unfold runOp un
  have key : ∀ (st : OpState) (t : Nat), st.l = [] →
      runOpFrom (.unique .tick) t st (h.map fun x => [x]) = h.map fun x => [(uniqueGo [] x).2] := by
    induction h with
    | nil => intro st t _; rfl
    | cons x xs ih =>
      intro st t hs
      simp only [List.map_cons, runOpFrom]
      simp [opSem, inp, hs, keep]
      exact ih _ _ rfl
  simpa using key {} 0 rfl

theorem unique_tick_output_nodup_same_elements (x : Stream) :
    (uniqueGo [] x).2.Nodup ∧ ∀ v, v ∈ (uniqueGo [] x).2 ↔ v ∈ x := by
  obtain ⟨_, g2, g3, g4⟩ := aux_uniqueGo [] x
  refine ⟨g3, fun v => ⟨fun hv => (g2 v hv).2, fun hv => ?_⟩⟩
  rcases g4 v hv with h | h
  · simp at h
  · exact h

/-! ### multiset_delta -/

theorem aux_deltaGo_count (prev xs : List Val) (v : Val) :
    (deltaGo prev xs).count v = xs.count v - prev.count v := by
  induction xs generalizing prev with
  | nil => simp [deltaGo]
  | cons y ys ih =>
    by_cases hy : prev.contains y = true
    · have hm : y ∈ prev := by simpa using hy
      simp only [deltaGo, hy, if_true, ih]
      by_cases hvy : v = y
      · subst hvy
        have hpos : 0 < prev.count v := List.count_pos_iff.mpr hm
        simp [List.count_erase_self, List.count_cons_self]
        omega
      · have h1 : (prev.erase y).count v = prev.count v := List.count_erase_of_ne hvy
        have h2 : (y :: ys).count v = ys.count v := by
          simp [List.count_cons, Ne.symm hvy]
        rw [h1, h2]
    · have hm : y ∉ prev := by simpa using hy
      have hy' : prev.contains y = false := by simpa using hy
      simp only [deltaGo, hy']
      by_cases hvy : v = y
      · subst hvy
        have : prev.count v = 0 := List.count_eq_zero_of_not_mem hm
        simp [List.count_cons_self, ih, this]
      · have h2 : ∀ l : List Val, (y :: l).count v = l.count v := by
          intro l; simp [List.count_cons, Ne.symm hvy]
        simp only [Bool.false_eq_true, if_false, h2, ih]

/-- `multiset_delta`: each item is emitted as many times as its multiplicity grew since the
    previous tick (nothing is emitted for multiplicities that did not grow) -/
theorem multisetDelta_is_growth (h : List Stream) (v : Val) :
    (runOp .multisetDelta (un h)).map (fun ports => (ports.getD 0 []).count v)
      = (List.zip ([] :: h) h).map fun px => px.2.count v - px.1.count v := by
  unfold runOp un
  have key : ∀ (st : OpState) (t : Nat),
      (runOpFrom .multisetDelta t st (h.map fun x => [x])).map (fun ports => (ports.getD 0 []).count v)
        = (List.zip (st.l :: h) h).map fun px => px.2.count v - px.1.count v := by
    induction h with
    | nil => intro st t; rfl
    | cons x xs ih =>
      intro st t
      simp only [List.map_cons, runOpFrom, List.zip_cons_cons]
      simp [opSem, inp, aux_deltaGo_count]
      exact ih _ _
  simpa using key {} 0

/-! ### defer_tick -/

/-- `defer_tick` / `defer_tick_lazy`: what arrives in tick `t` is released in tick `t+1`, nothing else -/
theorem deferTick_exactly_next_tick (h : List Stream) :
    runOp .deferTick (un h) = (List.zip ([] :: h) h).map (fun px => [px.1]) ∧
    runOp .deferTickLazy (un h) = (List.zip ([] :: h) h).map (fun px => [px.1]) := by
  have key : ∀ (st : OpState) (t : Nat),
      (runOpFrom .deferTick t st (h.map fun x => [x]) = (List.zip (st.l :: h) h).map (fun px => [px.1])) ∧
      (runOpFrom .deferTickLazy t st (h.map fun x => [x]) = (List.zip (st.l :: h) h).map (fun px => [px.1])) := by
    induction h with
    | nil => intro st t; exact ⟨rfl, rfl⟩
    | cons x xs ih =>
      intro st t
      simp only [List.map_cons, runOpFrom, List.zip_cons_cons]
      constructor
      · simp [opSem, inp]; exact (ih _ _).1
      · simp [opSem, inp]; exact (ih _ _).2
  unfold runOp un
  exact ⟨by simpa using (key {} 0).1, by simpa using (key {} 0).2⟩

/-! ### two-input operators with `'tick` / `'static` per side -/

theorem aux_setInsertAll_append (s a b : List Val) :
    setInsertAll (setInsertAll s a) b = setInsertAll s (a ++ b) := by
  simp [setInsertAll, List.foldl_append]

theorem aux_mem_setInsert (s : List Val) (x v : Val) : v ∈ setInsert s x ↔ v ∈ s ∨ v = x := by
  unfold setInsert
  split
  · rename_i h
    have : x ∈ s := by simpa using h
    constructor
    · exact Or.inl
    · rintro (h | rfl) <;> assumption
  · simp

theorem aux_mem_setInsertAll (s xs : List Val) (v : Val) : v ∈ setInsertAll s xs ↔ v ∈ s ∨ v ∈ xs := by
  induction xs generalizing s with
  | nil => simp [setInsertAll]
  | cons y ys ih =>
    have : setInsertAll s (y :: ys) = setInsertAll (setInsert s y) ys := rfl
    rw [this, ih, aux_mem_setInsert]
    simp only [List.mem_cons]
    constructor
    · rintro ((h | h) | h)
      · exact Or.inl h
      · exact Or.inr (Or.inl h)
      · exact Or.inr (Or.inr h)
    · rintro (h | h | h)
      · exact Or.inl (Or.inl h)
      · exact Or.inl (Or.inr h)
      · exact Or.inr h

theorem aux_nodup_setInsertAll (s xs : List Val) (hs : s.Nodup) : (setInsertAll s xs).Nodup := by
  induction xs generalizing s with
  | nil => simpa [setInsertAll]
  | cons y ys ih =>
    have : setInsertAll s (y :: ys) = setInsertAll (setInsert s y) ys := rfl
    rw [this]
    apply ih
    unfold setInsert
    split
    · exact hs
    · rename_i h
      have hn : y ∉ s := by simpa using h
      exact List.nodup_append.mpr ⟨hs, by simp, by
        intro a ha b hb hab
        simp at hb; subst hb; subst hab; exact hn ha⟩

/-- the table a `join` side holds is the *set* of pairs it absorbed -/
theorem join_side_is_set (xs : List Val) :
    (setInsertAll [] xs).Nodup ∧ ∀ v, v ∈ setInsertAll [] xs ↔ v ∈ xs := by
  refine ⟨aux_nodup_setInsertAll [] xs List.nodup_nil, fun v => ?_⟩
  simp [aux_mem_setInsertAll]

/-- membership in the join of two tables: exactly the key-equal combinations -/
theorem mem_joinOf (l r : List Val) (v : Val) :
    v ∈ joinOf l r ↔ ∃ a ∈ l, ∃ b ∈ r, keyOf b = keyOf a ∧ v = .pair (keyOf a) (.pair a.snd b.snd) := by
  simp only [joinOf, List.mem_flatMap, List.mem_map, List.mem_filter, beq_iff_eq]
  constructor
  · rintro ⟨a, ha, b, ⟨hb, hk⟩, rfl⟩; exact ⟨a, ha, b, hb, hk, rfl⟩
  · rintro ⟨a, ha, b, hb, hk, rfl⟩; exact ⟨a, ha, b, ⟨hb, hk⟩, rfl⟩

/-- generic shape of the two-input operators: each side absorbs its tick input into its table
    (`absorb`), the output is a function of the two tables, a `'tick` side is cleared at tick end -/
theorem aux_binary_generic (op : Op) (pl pr : Pers) (ab : List Val → List Val → List Val)
    (g : List Val → List Val → Stream)
    (hab : ∀ s a b, ab (ab s a) b = ab s (a ++ b)) (hnil : ab [] [] = [])
    (hsem : ∀ t st x y, (pl = .tick → st.l = []) → (pr = .tick → st.r = []) → opSem op t [] st [x, y] =
      ({ st with l := keep pl (ab st.l x), r := keep pr (ab st.r y) }, [g (ab st.l x) (ab st.r y)]))
    (h : List (Stream × Stream)) :
    runOp op (bin h) =
      (List.zip (seen pl (h.map Prod.fst)) (seen pr (h.map Prod.snd))).map fun lr => [g (ab [] lr.1) (ab [] lr.2)] := by
  unfold runOp bin
  have key : ∀ (st : OpState) (t : Nat) (prel prer : Stream),
      st.l = keep pl (ab [] prel) → st.r = keep pr (ab [] prer) → (pl = .tick → st.l = []) → (pr = .tick → st.r = []) →
      runOpFrom op t st (h.map fun x => [x.1, x.2]) =
        (List.zip (match pl with | .static => cums prel (h.map Prod.fst) | .tick => h.map Prod.fst)
                  (match pr with | .static => cums prer (h.map Prod.snd) | .tick => h.map Prod.snd)).map
          fun lr => [g (ab [] lr.1) (ab [] lr.2)] := by
    induction h with
    | nil => intro st t prel prer _ _ _ _; cases pl <;> cases pr <;> rfl
    | cons x xs ih =>
      intro st t prel prer hl hr tl tr
      simp only [List.map_cons, runOpFrom, hsem _ _ _ _ tl tr]
      cases pl <;> cases pr
      · have e1 := tl rfl; have e2 := tr rfl
        simp only [keep, e1, e2, List.zip_cons_cons, List.map_cons, List.cons.injEq, true_and]
        exact ih _ _ [] [] (by simp [keep]) (by simp [keep]) (fun _ => rfl) (fun _ => rfl)
      · have e1 := tl rfl
        simp only [keep] at hr
        simp only [keep, e1, hr, hab, cums, List.zip_cons_cons, List.map_cons, List.cons.injEq, true_and]
        exact ih _ _ [] (prer ++ x.2) (by simp [keep]) (by simp [keep]) (fun _ => rfl) (fun h => by cases h)
      · have e2 := tr rfl
        simp only [keep] at hl
        simp only [keep, e2, hl, hab, cums, List.zip_cons_cons, List.map_cons, List.cons.injEq, true_and]
        exact ih _ _ (prel ++ x.1) [] (by simp [keep]) (by simp [keep]) (fun h => by cases h) (fun _ => rfl)
      · simp only [keep] at hl hr
        simp only [keep, hl, hr, hab, cums, List.zip_cons_cons, List.map_cons, List.cons.injEq, true_and]
        exact ih _ _ (prel ++ x.1) (prer ++ x.2) (by simp [keep]) (by simp [keep]) (fun h => by cases h) (fun h => by cases h)
  have := key {} 0 [] [] (by cases pl <;> simp [keep, hnil]) (by cases pr <;> simp [keep, hnil]) (fun _ => rfl) (fun _ => rfl)
  rw [this]
  cases pl <;> cases pr <;> rfl

/-- `join::<pl, pr>()` emits, every tick, the set join of what each side holds:
    all persisted (`'static`) or this tick's (`'tick`) pairs, deduplicated -/
theorem join_static_eq_join_of_cumulative (pl pr : Pers) (h : List (Stream × Stream)) :
    runOp (.join pl pr) (bin h) =
      (List.zip (seen pl (h.map Prod.fst)) (seen pr (h.map Prod.snd))).map
        fun lr => [joinOf (setInsertAll [] lr.1) (setInsertAll [] lr.2)] :=
  aux_binary_generic (.join pl pr) pl pr setInsertAll joinOf aux_setInsertAll_append rfl
    (by intro t st x y _ _; simp [opSem, inp]) h

/-- `join_multiset`: the same with multisets (no deduplication) -/
theorem joinMultiset_is_multiset_join (pl pr : Pers) (h : List (Stream × Stream)) :
    runOp (.joinMultiset pl pr) (bin h) =
      (List.zip (seen pl (h.map Prod.fst)) (seen pr (h.map Prod.snd))).map
        fun lr => [joinOf lr.1 lr.2] := by
  have := aux_binary_generic (.joinMultiset pl pr) pl pr (· ++ ·) joinOf (by intros; simp) rfl
    (by intro t st x y _ _; simp [opSem, inp]) h
  simpa using this

theorem crossJoin_is_product (pl pr : Pers) (h : List (Stream × Stream)) :
    runOp (.crossJoin pl pr) (bin h) =
      (List.zip (seen pl (h.map Prod.fst)) (seen pr (h.map Prod.snd))).map
        (fun lr => [crossOf (setInsertAll [] lr.1) (setInsertAll [] lr.2)]) ∧
    runOp (.crossJoinMultiset pl pr) (bin h) =
      (List.zip (seen pl (h.map Prod.fst)) (seen pr (h.map Prod.snd))).map
        (fun lr => [crossOf lr.1 lr.2]) := by
  constructor
  · exact aux_binary_generic (.crossJoin pl pr) pl pr setInsertAll crossOf aux_setInsertAll_append rfl
      (by intro t st x y _ _; simp [opSem, inp]) h
  · have := aux_binary_generic (.crossJoinMultiset pl pr) pl pr (· ++ ·) crossOf (by intros; simp) rfl
      (by intro t st x y _ _; simp [opSem, inp]) h
    simpa using this

theorem mem_crossOf (l r : List Val) (v : Val) : v ∈ crossOf l r ↔ ∃ a ∈ l, ∃ b ∈ r, v = .pair a b := by
  simp only [crossOf, List.mem_flatMap, List.mem_map]
  constructor
  · rintro ⟨a, ha, b, hb, rfl⟩; exact ⟨a, ha, b, hb, rfl⟩
  · rintro ⟨a, ha, b, hb, rfl⟩; exact ⟨a, ha, b, hb, rfl⟩

/-- `anti_join::<ppos, pneg>()`: the (persisted or tick) positive items whose key appears nowhere
    on the (persisted or tick) negative side; multiplicities of `pos` are kept -/
theorem antijoin_removes_all_neg_keys (pp pn : Pers) (h : List (Stream × Stream)) :
    runOp (.antiJoin pp pn) (bin h) =
      (List.zip (seen pp (h.map Prod.fst)) (seen pn (h.map Prod.snd))).map
        fun pn' => [pn'.1.filter fun x => !(pn'.2.contains (keyOf x))] := by
  have := aux_binary_generic (.antiJoin pp pn) pp pn (· ++ ·)
    (fun pos neg => pos.filter fun x => !(neg.contains (keyOf x))) (by intros; simp) rfl
    (by
      intro t st x y hl _
      cases pp
      · simp [opSem, inp, keep, hl rfl]
      · simp [opSem, inp, keep]) h
  simpa using this

/-- nothing `anti_join` emits has a key that occurs on the negative side (of the tick / ever) -/
theorem antijoin_output_keys_not_in_neg (pos neg : Stream) (x : Val)
    (hx : x ∈ pos.filter fun x => !(neg.contains (keyOf x))) : x ∈ pos ∧ keyOf x ∉ neg := by
  simpa using hx

/-- `difference::<ppos, pneg>()`: positive items not found on the negative side -/
theorem difference_removes_all_neg_items (pp pn : Pers) (h : List (Stream × Stream)) :
    runOp (.difference pp pn) (bin h) =
      (List.zip (seen pp (h.map Prod.fst)) (seen pn (h.map Prod.snd))).map
        fun pn' => [pn'.1.filter fun x => !(pn'.2.contains x)] := by
  have := aux_binary_generic (.difference pp pn) pp pn (· ++ ·)
    (fun pos neg => pos.filter fun x => !(neg.contains x)) (by intros; simp) rfl
    (by
      intro t st x y hl _
      cases pp
      · simp [opSem, inp, keep, hl rfl]
      · simp [opSem, inp, keep]) h
  simpa using this

/-- `zip::<pl, pr>()`: pairs up the two queues; the longer side's excess stays queued when that
    side is `'static` and is discarded at the end of the tick when it is `'tick` -/
theorem zip_tick_is_iterator_zip (h : List (Stream × Stream)) :
    runOp (.zip .tick .tick) (bin h) = h.map fun x => [zipOf x.1 x.2] := by
  unfold runOp bin
  have key : ∀ (st : OpState) (t : Nat), st.l = [] → st.r = [] →
      runOpFrom (.zip .tick .tick) t st (h.map fun x => [x.1, x.2]) = h.map fun x => [zipOf x.1 x.2] := by
    induction h with
    | nil => intro st t _ _; rfl
    | cons x xs ih =>
      intro st t hl hr
      have hz : ∀ a b : Stream, zipOf (a.take (min a.length b.length)) (b.take (min a.length b.length)) = zipOf a b := by
        intro a
        induction a with
        | nil => intro b; simp [zipOf]
        | cons u us iha =>
          intro b
          cases b with
          | nil => simp [zipOf]
          | cons w ws =>
            have := iha ws
            simp only [List.length_cons, Nat.succ_min_succ, List.take_succ_cons, zipOf, this]
      simp only [List.map_cons, runOpFrom]
      simp [opSem, inp, hl, hr, keep, hz]
      exact ih _ _ rfl rfl
  simpa using key {} 0 rfl rfl

/-- `'tick` persistence: whatever the history, the state carried into the next tick is the
    initial state (the `write_tick_end` reset) -/
theorem tick_state_resets (t : Nat) (ins : List Stream) :
    (∀ f, (opSem (.fold .tick f) t [] {} ins).1 = {}) ∧
    (∀ f, (opSem (.reduce .tick f) t [] {} ins).1 = {}) ∧
    (∀ f, (opSem (.foldKeyed .tick f) t [] {} ins).1 = {}) ∧
    (∀ f, (opSem (.reduceKeyed .tick f) t [] {} ins).1 = {}) ∧
    (∀ f, (opSem (.scan .tick f) t [] {} ins).1 = {}) ∧
    (opSem (.unique .tick) t [] {} ins).1 = {} ∧
    (opSem (.enumerate .tick) t [] {} ins).1 = {} ∧
    (opSem (.join .tick .tick) t [] {} ins).1 = {} ∧
    (opSem (.joinMultiset .tick .tick) t [] {} ins).1 = {} ∧
    (opSem (.crossJoin .tick .tick) t [] {} ins).1 = {} ∧
    (opSem (.antiJoin .tick .tick) t [] {} ins).1 = {} ∧
    (opSem (.difference .tick .tick) t [] {} ins).1 = {} ∧
    (opSem (.zip .tick .tick) t [] {} ins).1 = {} ∧
    (opSem (.crossSingleton .tick) t [] {} ins).1 = {} ∧
    (opSem (.state .tick) t [] {} ins).1 = {} ∧
    (opSem (.latticeFold .tick) t [] {} ins).1 = {} := by
  simp [opSem, keep]

/-- `fold_keyed` / `reduce_keyed`: one output entry per distinct key -/
theorem aux_keyOf_pair (k v : Val) : keyOf (.pair k v) = k := rfl

theorem aux_tblSet_keys (tbl : List Val) (k v : Val) :
    (tblSet tbl k v).map keyOf = if k ∈ tbl.map keyOf then tbl.map keyOf else tbl.map keyOf ++ [k] := by
  unfold tblSet
  by_cases hk : k ∈ tbl.map keyOf
  · have : (tbl.any fun e => keyOf e == k) = true := by
      simp only [List.any_eq_true, beq_iff_eq]
      simpa [List.mem_map] using hk
    rw [this]
    simp only [if_true, hk]
    rw [List.map_map]
    apply List.map_congr_left
    intro e _
    by_cases he : keyOf e = k
    · simp only [Function.comp, he, beq_self_eq_true, if_true, aux_keyOf_pair]
    · have : (keyOf e == k) = false := by simpa using he
      simp only [Function.comp, this, Bool.false_eq_true, if_false]
  · have : (tbl.any fun e => keyOf e == k) = false := by
      simp only [List.any_eq_false, beq_iff_eq]
      intro e he hek
      exact hk (List.mem_map.mpr ⟨e, he, hek⟩)
    rw [this]
    simp only [Bool.false_eq_true, if_false, hk, List.map_append, List.map_cons, List.map_nil, aux_keyOf_pair]

theorem foldKeyed_one_entry_per_key (f : AccFn) (tbl x : List Val) (hn : (tbl.map keyOf).Nodup) :
    ((x.foldl (foldKeyedStep f) tbl).map keyOf).Nodup ∧
    ∀ k, k ∈ (x.foldl (foldKeyedStep f) tbl).map keyOf ↔ k ∈ tbl.map keyOf ∨ k ∈ x.map keyOf := by
  induction x generalizing tbl with
  | nil => simp [hn]
  | cons kv kvs ih =>
    have hstep : ((foldKeyedStep f tbl kv).map keyOf).Nodup ∧
        ∀ k, k ∈ (foldKeyedStep f tbl kv).map keyOf ↔ k ∈ tbl.map keyOf ∨ k = keyOf kv := by
      unfold foldKeyedStep
      rw [aux_tblSet_keys]
      split
      · rename_i hin
        refine ⟨hn, fun k => ⟨Or.inl, ?_⟩⟩
        rintro (h | rfl)
        · exact h
        · exact hin
      · rename_i hin
        refine ⟨List.nodup_append.mpr ⟨hn, by simp, ?_⟩, fun k => by simp [keyOf]⟩
        intro a ha b hb hab
        simp at hb; subst hb; subst hab; exact hin ha
    obtain ⟨i1, i2⟩ := ih (foldKeyedStep f tbl kv) hstep.1
    refine ⟨i1, fun k => ?_⟩
    rw [List.foldl_cons, i2, hstep.2]
    simp only [List.map_cons, List.mem_cons]
    constructor
    · rintro ((h | h) | h)
      · exact Or.inl h
      · exact Or.inr (Or.inl h)
      · exact Or.inr (Or.inr h)
    · rintro (h | h | h)
      · exact Or.inl (Or.inl h)
      · exact Or.inl (Or.inr h)
      · exact Or.inr h

theorem aux_tblGet_tblSet (tbl : List Val) (k v k' : Val) :
    tblGet (tblSet tbl k v) k' = if k' = k then some v else tblGet tbl k' := by
  unfold tblSet
  by_cases hany : (tbl.any fun e => keyOf e == k) = true
  · rw [if_pos hany]
    have hkey : ∀ e : Val, keyOf (if (keyOf e == k) = true then Val.pair k v else e) = keyOf e := by
      intro e
      by_cases h : keyOf e = k
      · simp [h, aux_keyOf_pair]
      · have : (keyOf e == k) = false := by simpa using h
        simp [this]
    have hcomp : ((fun e => keyOf e == k') ∘ fun e => if (keyOf e == k) = true then Val.pair k v else e)
        = fun e => keyOf e == k' := by
      funext e; simp only [Function.comp, hkey]
    unfold tblGet
    rw [List.find?_map, hcomp]
    by_cases hk' : k' = k
    · subst hk'
      obtain ⟨e, he, hek⟩ := List.any_eq_true.mp hany
      have hsome : (tbl.find? fun e => keyOf e == k').isSome := by
        rw [List.find?_isSome]; exact ⟨e, he, hek⟩
      obtain ⟨e', he'⟩ := Option.isSome_iff_exists.mp hsome
      have hp := List.find?_some he'
      simp only [he', Option.map_some, if_true, hp]
      rfl
    · simp only [hk', if_false]
      cases hf : tbl.find? (fun e => keyOf e == k') with
      | none => rfl
      | some e' =>
        have hp := List.find?_some hf
        have hne : ¬ keyOf e' = k := by
          intro h; apply hk'; rw [← h]; exact (by simpa using hp : keyOf e' = k').symm
        simp [hne]
  · rw [if_neg hany]
    have hnone : ∀ x ∈ tbl, ¬ keyOf x = k := by
      intro x hx hxk
      exact hany (List.any_eq_true.mpr ⟨x, hx, by simpa using hxk⟩)
    unfold tblGet
    rw [List.find?_append]
    by_cases hk' : k' = k
    · subst hk'
      have : tbl.find? (fun e => keyOf e == k') = none := by
        apply List.find?_eq_none.mpr
        intro x hx
        simpa using hnone x hx
      simp [this, aux_keyOf_pair, Val.snd]
    · have hne : ¬ k = k' := fun h => hk' h.symm
      cases hf : tbl.find? (fun e => keyOf e == k') with
      | none => simp [aux_keyOf_pair, hk', hne]
      | some e' => simp [hk']

/-- `fold_keyed`: the entry of every key is the fold of that key's values, in arrival order,
    starting from the initial value (or from the persisted entry) -/
theorem foldKeyed_entry_is_fold_of_key_values (f : AccFn) (tbl x : List Val) (k : Val) :
    tblGet (x.foldl (foldKeyedStep f) tbl) k =
      if (x.filter fun kv => keyOf kv == k).isEmpty then tblGet tbl k
      else some (((x.filter fun kv => keyOf kv == k).map Val.snd).foldl f.app ((tblGet tbl k).getD (.num 0))) := by
  induction x generalizing tbl with
  | nil => simp
  | cons kv kvs ih =>
    rw [List.foldl_cons, ih]
    have hstep : tblGet (foldKeyedStep f tbl kv) k =
        if k = keyOf kv then some (f.app ((tblGet tbl (keyOf kv)).getD (.num 0)) kv.snd) else tblGet tbl k := by
      unfold foldKeyedStep
      rw [aux_tblGet_tblSet]
      rfl
    by_cases hk : keyOf kv = k
    · have hb : (keyOf kv == k) = true := by simpa using hk
      subst hk
      simp only [List.filter_cons, hb, if_true, hstep, List.isEmpty_cons, Bool.false_eq_true, if_false,
        List.map_cons, List.foldl_cons, Option.getD_some]
      by_cases hem : (kvs.filter fun kv' => keyOf kv' == keyOf kv).isEmpty = true
      · have : kvs.filter (fun kv' => keyOf kv' == keyOf kv) = [] := List.isEmpty_iff.mp hem
        simp [this]
      · simp [hem]
    · have hb : (keyOf kv == k) = false := by simpa using hk
      have hk2 : ¬ k = keyOf kv := fun h => hk h.symm
      simp only [List.filter_cons, hb, Bool.false_eq_true, if_false, hstep, hk2]

/-- `reduce_keyed`: the entry of every key is the reduction of that key's values in arrival
    order, seeded by the first value (or continuing from the persisted entry); keys without a
    value keep their entry -/
theorem reduceKeyed_entry_is_reduce_of_key_values (f : AccFn) (tbl x : List Val) (k : Val) :
    tblGet (x.foldl (reduceKeyedStep f) tbl) k =
      reduceOpt f (tblGet tbl k) ((x.filter fun kv => keyOf kv == k).map Val.snd) := by
  induction x generalizing tbl with
  | nil => cases h : tblGet tbl k <;> simp [reduceOpt, h]
  | cons kv kvs ih =>
    rw [List.foldl_cons, ih]
    by_cases hk : keyOf kv = k
    · have hb : (keyOf kv == k) = true := by simpa using hk
      subst hk
      simp only [List.filter_cons, hb, if_true, List.map_cons]
      have hstep : tblGet (reduceKeyedStep f tbl kv) (keyOf kv) =
          some (match tblGet tbl (keyOf kv) with | none => kv.snd | some o => f.app o kv.snd) := by
        unfold reduceKeyedStep
        have e : kv.fst = keyOf kv := rfl
        rw [e]
        cases h : tblGet tbl (keyOf kv) <;> simp [aux_tblGet_tblSet]
      rw [hstep]
      cases h : tblGet tbl (keyOf kv) <;> simp [reduceOpt]
    · have hb : (keyOf kv == k) = false := by simpa using hk
      have hk2 : ¬ k = keyOf kv := fun h => hk h.symm
      simp only [List.filter_cons, hb, Bool.false_eq_true, if_false]
      congr 1
      unfold reduceKeyedStep
      have e : kv.fst = keyOf kv := rfl
      rw [e]
      cases h : tblGet tbl (keyOf kv) <;> simp [aux_tblGet_tblSet, hk2]

/-- `cross_singleton`: pairs every input item with the first singleton item (of the tick, or the
    first ever under `'static`); without one, nothing is emitted -/
theorem crossSingleton_pairs_with_first (p : Pers) (t : Nat) (st : OpState) (x y : Stream) :
    (opSem (.crossSingleton p) t [] st [x, y]).2 =
      [match (st.acc <|> y.head?) with | some s => x.map (fun v => .pair v s) | none => []] := by
  cases h : st.acc with
  | none => simp only [opSem, inp, h]; rfl
  | some s => simp [opSem, inp, h]

/-- `defer_signal`: everything buffered so far is released exactly in the ticks that carry a signal -/
theorem deferSignal_releases_on_signal (h : List (Stream × Stream)) :
    ∀ (t : Nat) (st : OpState),
      runOpFrom .deferSignal t st (bin h) =
        (h.foldl (fun (acc : List Val × List (List Stream)) x =>
            if x.2.isEmpty then (acc.1 ++ x.1, acc.2 ++ [[[]]]) else ([], acc.2 ++ [[acc.1 ++ x.1]]))
          (st.l, [])).2 := by
  have key : ∀ (h : List (Stream × Stream)) (t : Nat) (st : OpState) (pre : List (List Stream)),
      pre ++ runOpFrom .deferSignal t st (bin h) =
        (h.foldl (fun (acc : List Val × List (List Stream)) x =>
            if x.2.isEmpty then (acc.1 ++ x.1, acc.2 ++ [[[]]]) else ([], acc.2 ++ [[acc.1 ++ x.1]]))
          (st.l, pre)).2 := by
    intro h
    induction h with
    | nil => intro t st pre; simp [bin, runOpFrom]
    | cons x xs ih =>
      intro t st pre
      simp only [bin, List.map_cons, runOpFrom, List.foldl_cons]
      by_cases hs : x.2.isEmpty = true
      · have : opSem .deferSignal t [] st [x.1, x.2] = ({ st with l := st.l ++ x.1 }, [[]]) := by
          simp [opSem, inp, hs]
        rw [this, if_pos hs]
        have := ih (t + 1) { st with l := st.l ++ x.1 } (pre ++ [[[]]])
        simp only [bin] at this
        rw [← this]; simp
      · have : opSem .deferSignal t [] st [x.1, x.2] = ({ st with l := [] }, [st.l ++ x.1]) := by
          simp [opSem, inp, hs]
        rw [this, if_neg hs]
        have := ih (t + 1) { st with l := [] } (pre ++ [[st.l ++ x.1]])
        simp only [bin] at this
        rw [← this]; simp
  intro t st
  simpa using key h t st []

/-- `lattice_fold` / `lattice_reduce` on `Max`: the running maximum (of the tick / of everything) -/
theorem latticeFold_static_is_running_max (h : List Stream) :
    runOp (.latticeFold .static) (un h) = (cums [] h).map fun c => [[c.foldl AccFn.max.app (.num 0)]] := by
  unfold runOp un
  have key : ∀ (st : OpState) (t : Nat) (pre : Stream),
      st.acc.getD (.num 0) = pre.foldl AccFn.max.app (.num 0) →
      runOpFrom (.latticeFold .static) t st (h.map fun x => [x])
        = (cums pre h).map fun c => [[c.foldl AccFn.max.app (.num 0)]] := by
    induction h with
    | nil => intro st t pre _; rfl
    | cons x xs ih =>
      intro st t pre hp
      simp only [List.map_cons, runOpFrom, cums]
      have : (opSem (.latticeFold .static) t [] st [x]) =
          ({ st with acc := some ((pre ++ x).foldl AccFn.max.app (.num 0)) }, [[(pre ++ x).foldl AccFn.max.app (.num 0)]]) := by
        simp [opSem, inp, hp, List.foldl_append]
      rw [this]
      simp only [List.cons.injEq, true_and]
      exact ih _ _ _ (by simp)
  simpa using key {} 0 [] (by simp)

theorem aux_zipOf_append (x y a b : List Val) (hlen : x.length = y.length) :
    zipOf (x ++ a) (y ++ b) = zipOf x y ++ zipOf a b := by
  induction x generalizing y with
  | nil =>
    cases y with
    | nil => simp [zipOf]
    | cons _ _ => simp at hlen
  | cons u us ih =>
    cases y with
    | nil => simp at hlen
    | cons w ws =>
      simp only [List.length_cons, Nat.add_right_cancel_iff] at hlen
      simp [zipOf, ih ws hlen]

theorem aux_zipOf_nil_right (x : List Val) : zipOf x [] = [] := by cases x <;> rfl

/-- `zip::<'static, 'static>()`: nothing is ever discarded — over the whole run the output is the
    zip of everything that arrived on the two inputs (the excess of the longer side waits) -/
theorem zip_static_pairs_everything_in_order (h : List (Stream × Stream)) :
    allOut (runOp (.zip .static .static) (bin h)) = zipOf (h.map Prod.fst).flatten (h.map Prod.snd).flatten := by
  unfold runOp bin allOut
  have key : ∀ (st : OpState) (t : Nat), (st.l = [] ∨ st.r = []) →
      ((runOpFrom (.zip .static .static) t st (h.map fun x => [x.1, x.2])).map fun ports => ports.getD 0 []).flatten
        = zipOf (st.l ++ (h.map Prod.fst).flatten) (st.r ++ (h.map Prod.snd).flatten) := by
    induction h with
    | nil =>
      intro st t hinv
      rcases hinv with h0 | h0 <;> simp [runOpFrom, h0, zipOf, aux_zipOf_nil_right]
    | cons x xs ih =>
      intro st t _
      have hsem : opSem (.zip .static .static) t [] st [x.1, x.2] =
          ({ st with l := (st.l ++ x.1).drop (min (st.l ++ x.1).length (st.r ++ x.2).length),
                     r := (st.r ++ x.2).drop (min (st.l ++ x.1).length (st.r ++ x.2).length) },
           [zipOf ((st.l ++ x.1).take (min (st.l ++ x.1).length (st.r ++ x.2).length))
                  ((st.r ++ x.2).take (min (st.l ++ x.1).length (st.r ++ x.2).length))]) := by
        simp [opSem, inp, keep]
      simp only [List.map_cons, runOpFrom, hsem, List.flatten_cons, List.getD_cons_zero]
      rw [ih _ (t + 1) (by
        simp only
        by_cases hle : (st.l ++ x.1).length ≤ (st.r ++ x.2).length
        · left; rw [Nat.min_eq_left hle]; simp
        · right; rw [Nat.min_eq_right (by omega)]; simp)]
      simp only
      rw [← List.append_assoc st.l x.1, ← List.append_assoc st.r x.2]
      generalize st.l ++ x.1 = l
      generalize st.r ++ x.2 = r
      have e1 : l ++ (xs.map Prod.fst).flatten
          = l.take (min l.length r.length) ++ (l.drop (min l.length r.length) ++ (xs.map Prod.fst).flatten) := by
        rw [← List.append_assoc, List.take_append_drop]
      have e2 : r ++ (xs.map Prod.snd).flatten
          = r.take (min l.length r.length) ++ (r.drop (min l.length r.length) ++ (xs.map Prod.snd).flatten) := by
        rw [← List.append_assoc, List.take_append_drop]
      rw [e1, e2]
      exact (aux_zipOf_append (l.take (min l.length r.length)) (r.take (min l.length r.length)) _ _ (by
        simp only [List.length_take]; omega)).symm
  simpa using key {} 0 (Or.inl rfl)

/-! ### non-vacuity: concrete runs of the reference semantics -/

example : runOp .persist (un [[.num 1], [], [.num 2]]) = [[[.num 1]], [[.num 1]], [[.num 1, .num 2]]] := by decide
example : runOp (.unique .static) (un [[.num 3, .num 3, .num 4], [.num 3, .num 5]]) = [[[.num 3, .num 4]], [[.num 5]]] := by decide
example : runOp .multisetDelta (un [[.num 3, .num 4, .num 3], [.num 3, .num 5, .num 3, .num 3]])
    = [[[.num 3, .num 4, .num 3]], [[.num 5, .num 3]]] := by decide
example : runOp (.fold .static .sum) (un [[.num 1, .num 2], [.num 4]]) = [[[.num 3]], [[.num 7]]] := by decide
example : runOp (.antiJoin .tick .static) (bin [([.pair (.num 1) (.num 7)], [.num 1]), ([.pair (.num 1) (.num 8), .pair (.num 2) (.num 9)], [])])
    = [[[]], [[.pair (.num 2) (.num 9)]]] := by decide

end HvDfir
