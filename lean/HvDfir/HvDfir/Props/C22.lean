/-
C22 — results do not depend on pull/push placement or subgraph shape.

Two theorems about the denotation (`evalTick` / `run`) of a program:

* `shape_perturbation_preserves_denotation`: inserting pass-through stages (identity, `map(|x| x)`,
  unary `tee`/`union`, a `tee` with an extra dropped branch — which forces the *push* side —, a
  `union` with an extra empty source — which forces the *pull* side) in front of any operator
  input, any number of times, leaves every sink's per-tick output unchanged, for every history.
* `sched_refines_denot`: a *partitioned* schedule — subgraphs run one after the other, each
  running its operators in its own order, handoffs being the buffers (`Env` entries) between
  them — computes the same outputs as the flat program, for every partition whose flattened
  order is a well-formed (topological) order of the same nodes; hence any two valid partitions
  agree (`partition_independent`).

Partial: the item-at-a-time fusion *inside* a subgraph (pull adaptors that stop pulling early)
is not modelled — see `level_note` and finding F221.  Both theorems are statements about the
model's *batch* denotation (every node evaluated once per tick on complete input lists): they say
that this denotation is insensitive to pass-through stages and to the order / grouping of nodes.
They do not mention pull or push; that the compiled pull/push realisation of each operator
computes this denotation is tied by differential execution only (and fails for F221).
The clause "either all compile or all fail to compile" has no theorem: oracle on dfir_lang only.
-/
import HvDfir.Lemmas.Prog
namespace HvDfir

/-! ### inserting pass-through stages -/

/-- ids `f` and `f+1` are not used by the node list (neither as ids nor in references) -/
def Fresh (f : Nat) (ns : List Node) : Prop :=
  ∀ m ∈ ns, m.id ≠ f ∧ m.id ≠ f + 1 ∧ ∀ r ∈ m.ins, r.node ≠ f ∧ r.node ≠ f + 1

/-- two (states, env) pairs agree except on the fresh ids -/
def AgreeOff (f : Nat) (a b : States × Env) : Prop :=
  ∀ i, i ≠ f → i ≠ f + 1 → a.1 i = b.1 i ∧ a.2 i = b.2 i

theorem aux_step_congr (t : Nat) (ext : List Stream) (f : Nat) (m : Node) (a b : States × Env)
    (hab : AgreeOff f a b) (hid : m.id ≠ f ∧ m.id ≠ f + 1) (hrefs : ∀ r ∈ m.ins, r.node ≠ f ∧ r.node ≠ f + 1) :
    AgreeOff f (stepNode t ext m a) (stepNode t ext m b) := by
  have hins : m.ins.map (lookup a.2) = m.ins.map (lookup b.2) := by
    apply List.map_congr_left
    intro r hr
    exact lookup_congr (hab r.node (hrefs r hr).1 (hrefs r hr).2).2
  have hst : a.1 m.id = b.1 m.id := (hab m.id hid.1 hid.2).1
  intro i h1 h2
  simp only [stepNode, upd, hins, hst]
  by_cases hi : i = m.id
  · simp [hi]
  · simp [hi, (hab i h1 h2).1, (hab i h1 h2).2]

theorem aux_run_congr (t : Nat) (ext : List Stream) (f : Nat) (ns : List Node) (a b : States × Env)
    (hab : AgreeOff f a b) (hf : Fresh f ns) :
    AgreeOff f (runNodes t ext ns a) (runNodes t ext ns b) := by
  induction ns generalizing a b with
  | nil => exact hab
  | cons m ms ih =>
    rw [runNodes_cons, runNodes_cons]
    have hm := hf m List.mem_cons_self
    exact ih _ _ (aux_step_congr t ext f m a b hab ⟨hm.1, hm.2.1⟩ hm.2.2)
      (fun k hk => hf k (List.mem_cons_of_mem _ hk))

theorem aux_setNth_map {α β : Type} (g : α → β) (l : List α) (k : Nat) (v : α) (r : α)
    (hk : l[k]? = some r) (hv : g v = g r) : (setNth l k v).map g = l.map g := by
  induction l generalizing k with
  | nil => simp at hk
  | cons x xs ih =>
    cases k with
    | zero =>
      simp at hk; subst hk
      simp [setNth, hv]
    | succ k =>
      simp at hk
      simp [setNth, ih k hk]

/-- running a stage's fresh nodes only touches the fresh ids, and its output `⟨f,0⟩` carries
    exactly the content of `r` -/
theorem aux_stage_sem (t : Nat) (ext : List Stream) (s : Stage) (f : Nat) (r : Ref) (a : States × Env)
    (hr : r.node ≠ f ∧ r.node ≠ f + 1) :
    AgreeOff f a (runNodes t ext (s.nodes f r) a) ∧
    lookup (runNodes t ext (s.nodes f r) a).2 ⟨f, 0⟩ = lookup a.2 r := by
  have hid : MapFn.id.app = id := by funext v; rfl
  have hne : f ≠ f + 1 := by omega
  cases s <;>
    simp only [Stage.nodes, runNodes, List.foldl_cons, List.foldl_nil, stepNode, opSem, inp, List.map_cons,
      List.map_nil, List.getD_cons_zero]
  all_goals
    refine ⟨?_, ?_⟩
  all_goals
    first
    | (intro i h1 h2; simp [upd, h1, h2])
    | (simp [lookup, upd, hid, hr.1, hr.2, hne, List.range, List.range.loop, List.replicate, inp])

/-- one tick of the perturbed node list agrees with the original off the fresh ids -/
theorem aux_perturb_tick (t : Nat) (ext : List Stream) (s : Stage) (f target k : Nat) (ns : List Node)
    (hf : Fresh f ns) (a b : States × Env) (hab : AgreeOff f a b) :
    AgreeOff f (runNodes t ext ns a) (runNodes t ext (perturbNodes s f target k ns) b) := by
  induction ns generalizing a b with
  | nil => exact hab
  | cons n ns ih =>
    have hn := hf n List.mem_cons_self
    have hrest : Fresh f ns := fun m hm => hf m (List.mem_cons_of_mem _ hm)
    unfold perturbNodes
    split
    · -- this is the target node
      split
      · rename_i r hk
        have hrin : r ∈ n.ins := List.mem_of_getElem? hk
        have hr := hn.2.2 r hrin
        rw [List.append_assoc, runNodes_append]
        obtain ⟨ag, lk⟩ := aux_stage_sem t ext s f r b hr
        obtain ⟨b', hb'⟩ : ∃ b', b' = runNodes t ext (s.nodes f r) b := ⟨_, rfl⟩
        rw [← hb'] at ag lk ⊢
        have hab' : AgreeOff f a b' := by
          intro i h1 h2
          exact ⟨(hab i h1 h2).1.trans (ag i h1 h2).1, (hab i h1 h2).2.trans (ag i h1 h2).2⟩
        -- the redirected node computes the same as the original one
        have hstep : AgreeOff f (stepNode t ext n a)
            (stepNode t ext { n with ins := setNth n.ins k ⟨f, 0⟩ } b') := by
          have hins : (setNth n.ins k ⟨f, 0⟩).map (lookup b'.2) = n.ins.map (lookup a.2) := by
            rw [aux_setNth_map (lookup b'.2) n.ins k ⟨f, 0⟩ r hk (by
              rw [lk]; exact lookup_congr (ag r.node hr.1 hr.2).2)]
            apply List.map_congr_left
            intro q hq
            have := hn.2.2 q hq
            exact (lookup_congr (hab' q.node this.1 this.2).2).symm
          have hst : a.1 n.id = b'.1 n.id := (hab' n.id hn.1 hn.2.1).1
          intro i h1 h2
          simp only [stepNode, upd, hins, hst]
          by_cases hi : i = n.id
          · simp [hi]
          · simp [hi, (hab' i h1 h2).1, (hab' i h1 h2).2]
        rw [runNodes_cons]
        show AgreeOff f _ (runNodes t ext ([{ n with ins := setNth n.ins k ⟨f, 0⟩ }] ++ ns) b')
        rw [List.singleton_append, runNodes_cons]
        exact aux_run_congr t ext f ns _ _ hstep hrest
      · rw [runNodes_cons, runNodes_cons]
        exact aux_run_congr t ext f ns _ _ (aux_step_congr t ext f n a b hab ⟨hn.1, hn.2.1⟩ hn.2.2) hrest
    · rw [runNodes_cons, runNodes_cons]
      exact ih hrest _ _ (aux_step_congr t ext f n a b hab ⟨hn.1, hn.2.1⟩ hn.2.2)

theorem aux_perturb_runFrom (p : Prog) (q : Perturbation) (hf : Fresh q.fresh p.nodes)
    (hs : ∀ r ∈ p.sinks, r.node ≠ q.fresh ∧ r.node ≠ q.fresh + 1) (hist : List (List Stream)) :
    ∀ (t : Nat) (σ σ' : States), (∀ i, i ≠ q.fresh → i ≠ q.fresh + 1 → σ i = σ' i) →
      runFrom (p.perturb q) t σ' hist = runFrom p t σ hist := by
  induction hist with
  | nil => intro t σ σ' _; rfl
  | cons ext rest ih =>
    intro t σ σ' hσ
    have hag := aux_perturb_tick t ext q.stage q.fresh q.target q.k p.nodes hf (σ, Env.empty) (σ', Env.empty)
      (fun i h1 h2 => ⟨hσ i h1 h2, rfl⟩)
    simp only [runFrom, Prog.perturb, evalTick_eq_runNodes]
    congr 1
    · apply List.map_congr_left
      intro r hr
      exact (lookup_congr (hag r.node (hs r hr).1 (hs r hr).2).2).symm
    · exact ih (t + 1) _ _ (fun i h1 h2 => (hag i h1 h2).1)

/-- a perturbation whose fresh ids are unused by the program and its sinks -/
def Perturbation.OkFor (q : Perturbation) (p : Prog) : Prop :=
  Fresh q.fresh p.nodes ∧ ∀ r ∈ p.sinks, r.node ≠ q.fresh ∧ r.node ≠ q.fresh + 1

/-- successive perturbations, each fresh for the program it is applied to -/
def AllOk : Prog → List Perturbation → Prop
  | _, [] => True
  | p, q :: qs => q.OkFor p ∧ AllOk (p.perturb q) qs

/-- **shape_perturbation_preserves_denotation.** Any sequence of pass-through insertions
    (identity / `map id` / unary tee / unary union / tee + dropped branch / union + empty source,
    in front of any operator input) denotes the same per-tick sink outputs on every history. -/
theorem shape_perturbation_preserves_denotation (p : Prog) (qs : List Perturbation) (hok : AllOk p qs)
    (hist : List (List Stream)) :
    run (qs.foldl Prog.perturb p) hist = run p hist := by
  induction qs generalizing p with
  | nil => rfl
  | cons q qs ih =>
    rw [List.foldl_cons, ih (p.perturb q) hok.2]
    exact aux_perturb_runFrom p q hok.1.1 hok.1.2 hist 0 States.init States.init (fun _ _ _ => rfl)

/-! ### partitioned schedules -/

/-- a partitioned schedule: subgraphs in execution order, each with its operators in its own
    (pull-prefix, pivot, push-suffix) order; the handoff buffers are the `Env` entries -/
abbrev Schedule := List (List Node)

/-- run the subgraphs one after the other; every subgraph reads the buffers written so far and
    writes its own outputs -/
def runSchedule (t : Nat) (ext : List Stream) (sch : Schedule) (σ : States) : States × Env :=
  sch.foldl (fun σe sg => runNodes t ext sg σe) (σ, Env.empty)

theorem aux_runSchedule_flatten (t : Nat) (ext : List Stream) (sch : Schedule) (σe : States × Env) :
    sch.foldl (fun σe sg => runNodes t ext sg σe) σe = runNodes t ext sch.flatten σe := by
  induction sch generalizing σe with
  | nil => rfl
  | cons sg rest ih => simp [List.foldl_cons, ih, runNodes_append]

/-- the executable check the driver applies to the real partition is the hypothesis of
    `sched_refines_denot` -/
theorem aux_wfFromB_iff (D : List Nat) (ns : List Node) : wfFromB D ns = true ↔ WFrom D ns := by
  induction ns generalizing D with
  | nil => simp [wfFromB, WFrom]
  | cons n ns ih =>
    simp only [wfFromB, WFrom, Bool.and_eq_true, Bool.not_eq_true', List.all_eq_true, ih]
    constructor
    · rintro ⟨⟨h1, h2⟩, h3⟩
      exact ⟨by simpa using h1, fun r hr => by simpa using h2 r hr, h3⟩
    · rintro ⟨h1, h2, h3⟩
      exact ⟨⟨by simpa using h1, fun r hr => by simpa using h2 r hr⟩, h3⟩

theorem aux_runScheduleB_eq (t : Nat) (ext : List Stream) (sch : Schedule) (σ : States) :
    runScheduleB t ext sch σ = runSchedule t ext sch σ := rfl

/-- two well-formed evaluation orders of the same nodes compute the same tick -/
theorem aux_order_independent (t : Nat) (ext : List Stream) (ns ns' : List Node) (σ : States)
    (hwf : WF ns) (hwf' : WF ns') (hperm : ns.Perm ns') (i : Nat) :
    (evalTick t ext ns σ).1 i = (evalTick t ext ns' σ).1 i ∧
    (evalTick t ext ns σ).2 i = (evalTick t ext ns' σ).2 i := by
  by_cases hi : i ∈ ids ns
  · obtain ⟨n, hn, rfl⟩ := List.mem_map.mp hi
    have s1 := runNodes_sol t ext [] ns (σ, Env.empty) hwf
    have s2 := runNodes_sol t ext [] ns' (σ, Env.empty) hwf'
    have := sol_unique t ext [] ns σ _ _ _ _ hwf s1
      (fun m hm => s2 m (hperm.subset hm)) (by intro i hi; cases hi) n hn
    simp only [evalTick_eq_runNodes]
    exact ⟨this.2, this.1⟩
  · have hi' : i ∉ ids ns' := by
      intro h
      obtain ⟨n, hn, rfl⟩ := List.mem_map.mp h
      exact hi (List.mem_map.mpr ⟨n, hperm.symm.subset hn, rfl⟩)
    obtain ⟨a1, b1⟩ := runNodes_untouched t ext ns (σ, Env.empty) i hi
    obtain ⟨a2, b2⟩ := runNodes_untouched t ext ns' (σ, Env.empty) i hi'
    simp only [evalTick_eq_runNodes]
    exact ⟨a1.trans a2.symm, b1.trans b2.symm⟩

/-- **sched_refines_denot.** For every partition of the program's nodes into subgraphs whose
    flattened order is well formed (producers before consumers — the conclusion of C18), running
    the subgraphs in order with handoff buffers yields, tick after tick, exactly the flat
    program's sink outputs. -/
theorem sched_refines_denot (p : Prog) (sch : Schedule) (hwf : WF p.nodes) (hwf' : WF sch.flatten)
    (hperm : p.nodes.Perm sch.flatten) (hist : List (List Stream)) :
    run { p with nodes := sch.flatten } hist = run p hist ∧
    ∀ t ext σ, runSchedule t ext sch σ = evalTick t ext sch.flatten σ := by
  refine ⟨?_, fun t ext σ => aux_runSchedule_flatten t ext sch _⟩
  unfold run
  have key : ∀ (t : Nat) (σ σ' : States), (∀ i, σ i = σ' i) →
      runFrom { p with nodes := sch.flatten } t σ' hist = runFrom p t σ hist := by
    induction hist with
    | nil => intro t σ σ' _; rfl
    | cons ext rest ih =>
      intro t σ σ' hσ
      have hσ' : σ' = σ := funext fun i => (hσ i).symm
      subst hσ'
      simp only [runFrom]
      congr 1
      · apply List.map_congr_left
        intro r _
        exact lookup_congr (aux_order_independent t ext p.nodes sch.flatten σ' hwf hwf' hperm r.node).2.symm
      · exact ih (t + 1) _ _ (fun i => (aux_order_independent t ext p.nodes sch.flatten σ' hwf hwf' hperm i).1)
  exact key 0 _ _ (fun _ => rfl)

/-- any two valid partitions of the same program give equal per-tick outputs -/
theorem partition_independent (p : Prog) (sch1 sch2 : Schedule) (hwf : WF p.nodes)
    (h1 : WF sch1.flatten) (h2 : WF sch2.flatten) (p1 : p.nodes.Perm sch1.flatten) (p2 : p.nodes.Perm sch2.flatten)
    (hist : List (List Stream)) :
    run { p with nodes := sch1.flatten } hist = run { p with nodes := sch2.flatten } hist := by
  rw [(sched_refines_denot p sch1 hwf h1 p1 hist).1, (sched_refines_denot p sch2 hwf h2 p2 hist).1]

/-! non-vacuity -/
example :
    let p : Prog := ⟨[⟨0, .source 0, []⟩, ⟨1, .map .inc, [⟨0, 0⟩]⟩, ⟨2, .fold .static .sum, [⟨1, 0⟩]⟩], [⟨2, 0⟩]⟩
    let q : Perturbation := ⟨.unionEmpty, 100, 2, 0⟩
    q.OkFor p ∧ run (p.perturb q) [[[.num 1, .num 2]], [[.num 5]]] = [[[.num 5]], [[.num 11]]] ∧
      run p [[[.num 1, .num 2]], [[.num 5]]] = [[[.num 5]], [[.num 11]]] := by
  refine ⟨⟨?_, ?_⟩, by decide, by decide⟩
  · intro m hm; simp at hm; rcases hm with rfl | rfl | rfl <;> simp
  · intro r hr; simp at hr; subst hr; simp

/-! ### the part the batch denotation does not cover: fusion inside a subgraph (finding F221) -/

/-- **Refuted clause (F221).** When a lazily evaluated stateful operator (`enumerate::<'static>`)
    sits in the same pull chain as a consumer that stops pulling early (`chain_first_n(1)`), it
    only sees the items that were pulled; with a handoff in between it sees the whole tick input.
    `fusedEnumChainFirstN` transcribes the fused code path; the two programs — which differ only
    by a `tee` with a dropped branch — disagree in the second tick of this history. -/
theorem fused_shortcircuit_shape_dependent_refuted :
    let fused : Prog := ⟨[⟨0, .source 0, []⟩, ⟨1, .source 1, []⟩, ⟨3, .map .kv3, [⟨1, 0⟩]⟩,
      ⟨4, .fusedEnumChainFirstN 1, [⟨0, 0⟩, ⟨3, 0⟩]⟩], [⟨4, 0⟩]⟩
    let split : Prog := ⟨[⟨0, .source 0, []⟩, ⟨1, .source 1, []⟩, ⟨2, .enumerate .static, [⟨0, 0⟩]⟩,
      ⟨3, .map .kv3, [⟨1, 0⟩]⟩, ⟨104, .tee 2, [⟨2, 0⟩]⟩, ⟨4, .chainFirstN 1, [⟨104, 0⟩, ⟨3, 0⟩]⟩], [⟨4, 0⟩]⟩
    run fused [[[.num 7, .num 8], []], [[.num 9], []]] ≠ run split [[[.num 7, .num 8], []], [[.num 9], []]] := by
  decide

end HvDfir
