/-
`hvdrv_dfir`: line-protocol driver for the DFIR reference semantics.  One output line per input line.

  #case <n> ...                          reset; echoes the line
  node <id> <op> [args] <- <n.p> <n.p>   add a node (list order = evaluation order)          -> ok
  sink <sid> <n.p> seq|bag               add a sink                                          -> ok
  perturb <stage> <fresh> <target> <k>   (C22) add a shape perturbation of the variant       -> ok
  vnode <id> <op> [args] <- <n.p> ..     (C22) explicit node of the variant program          -> ok
  sched <ids,..|ids,..>                  (C22) the real partition: checked to be a well-formed order of the
                                         program's nodes; later `tick`s run subgraph by subgraph     -> ok
  tick <t> <vals>|<vals>|...             run tick t of the program on the external inputs    -> sink outputs
  vtick <t> <vals>|...                   same for the perturbed variant                      -> sink outputs
A value is `n`, `(v,v)` or `()`; a stream is `v;v;..` or `-`.  Sink outputs: streams joined by `|`,
`bag` sinks sorted as strings.  Anything else -> bad-op.
-/
import HvDfir.Model.Dfir
open HvDfir

partial def showVal : Val → String
  | .num n => toString n
  | .pair a b => "(" ++ showVal a ++ "," ++ showVal b ++ ")"
  | .unit => "()"

/-- parse one value from a char list -/
partial def parseVal : List Char → Option (Val × List Char)
  | '(' :: ')' :: rest => some (.unit, rest)
  | '(' :: rest =>
    match parseVal rest with
    | some (a, ',' :: rest2) =>
      match parseVal rest2 with
      | some (b, ')' :: rest3) => some (.pair a b, rest3)
      | _ => none
    | _ => none
  | cs =>
    let ds := cs.takeWhile Char.isDigit
    if ds.isEmpty then none else
      match (String.ofList ds).toNat? with
      | some n => some (.num n, cs.drop ds.length)
      | none => none

def parseValStr (s : String) : Option Val :=
  match parseVal s.toList with
  | some (v, []) => some v
  | _ => none

def parseStream (s : String) : Option Stream :=
  if s == "-" then some [] else (s.splitOn ";").mapM parseValStr

def showStream (mode : String) (xs : Stream) : String :=
  let ss := xs.map showVal
  let ss := if mode == "bag" then (ss.toArray.qsort (fun a b => a < b)).toList else ss
  if ss.isEmpty then "-" else ";".intercalate ss

def parsePers : String → Option Pers
  | "tick" => some .tick | "static" => some .static | _ => none
def parseMapFn : String → Option MapFn
  | "id" => some .id | "inc" => some .inc | "dbl" => some .dbl | "hv" => some .hvf | "kv3" => some .kv3
  | "kvk" => some .kvk | "swap" => some .swap | "fst" => some .fst | "snd" => some .snd
  | "vec2" => some .vec2 | "opt" => some .opt | "m100" => some .m100 | "k3" => some .k3 | _ => none
def parsePredFn : String → Option PredFn
  | "even" => some .even | "lt3" => some .lt3 | "odd" => some .odd | _ => none
def parseFmFn : String → Option FmFn
  | "half" => some .half | "hnz" => some .hnz | _ => none
def parseFlatFn : String → Option FlatFn
  | "dup" => some .dup | "rng" => some .rng | _ => none
def parseKeyFn : String → Option KeyFn
  | "self" => some .self | "kfst" => some .kfst | "ksnd" => some .ksnd | _ => none
def parseAccFn : String → Option AccFn
  | "sum" => some .sum | "poly" => some .poly | "cnt" => some .cnt | "max" => some .max
  | "first" => some .first | "last" => some .last | _ => none
def parseScanFn : String → Option ScanFn
  | "runsum" => some .runsum | "stop20" => some .stop20 | _ => none
def parseAccum (s : String) : Option Accum :=
  match s.splitOn ":" with
  | ["fold", f] => (parseAccFn f).map .fold
  | ["reduce", f] => (parseAccFn f).map .reduce
  | ["foldfrom", f] => (parseAccFn f).map .foldFrom
  | _ => none

def parseOp : List String → Option Op
  | ["source", i] => i.toNat?.map .source
  | ["empty"] => some .empty
  | ["map", f] => (parseMapFn f).map .map
  | ["filter", f] => (parsePredFn f).map .filter
  | ["filter_map", f] => (parseFmFn f).map .filterMap
  | ["flat_map", f] => (parseFlatFn f).map .flatMap
  | ["flatten"] => some .flatten
  | ["inspect"] => some .inspect
  | ["identity"] => some .identity
  | ["enumerate", p] => (parsePers p).map .enumerate
  | ["unique", p] => (parsePers p).map .unique
  | ["persist"] => some .persist
  | ["multiset_delta"] => some .multisetDelta
  | ["sort"] => some .sort
  | ["sort_by_key", k] => (parseKeyFn k).map .sortByKey
  | ["fold", p, f] => do some (.fold (← parsePers p) (← parseAccFn f))
  | ["fold_no_replay", p, f] => do some (.foldNoReplay (← parsePers p) (← parseAccFn f))
  | ["reduce", p, f] => do some (.reduce (← parsePers p) (← parseAccFn f))
  | ["reduce_no_replay", p, f] => do some (.reduceNoReplay (← parsePers p) (← parseAccFn f))
  | ["fold_keyed", p, f] => do some (.foldKeyed (← parsePers p) (← parseAccFn f))
  | ["reduce_keyed", p, f] => do some (.reduceKeyed (← parsePers p) (← parseAccFn f))
  | ["scan", p, f] => do some (.scan (← parsePers p) (← parseScanFn f))
  | ["lattice_fold", p] => (parsePers p).map .latticeFold
  | ["lattice_reduce", p] => (parsePers p).map .latticeReduce
  | ["state", p] => (parsePers p).map .state
  | ["defer_tick"] => some .deferTick
  | ["defer_tick_lazy"] => some .deferTickLazy
  | ["defer_signal"] => some .deferSignal
  | ["tee", n] => n.toNat?.map .tee
  | ["union", n] => n.toNat?.map .union
  | ["partition", n] => n.toNat?.map .partition
  | ["unzip"] => some .unzip
  | ["join", a, b] => do some (.join (← parsePers a) (← parsePers b))
  | ["join_multiset", a, b] => do some (.joinMultiset (← parsePers a) (← parsePers b))
  | ["cross_join", a, b] => do some (.crossJoin (← parsePers a) (← parsePers b))
  | ["cross_join_multiset", a, b] => do some (.crossJoinMultiset (← parsePers a) (← parsePers b))
  | ["anti_join", a, b] => do some (.antiJoin (← parsePers a) (← parsePers b))
  | ["difference", a, b] => do some (.difference (← parsePers a) (← parsePers b))
  | ["zip", a, b] => do some (.zip (← parsePers a) (← parsePers b))
  | ["zip_longest"] => some .zipLongest
  | ["chain"] => some .chain
  | ["chain_first_n", n] => n.toNat?.map .chainFirstN
  | ["cross_singleton", p] => (parsePers p).map .crossSingleton
  | ["join_fused", x, y, a, b] => do some (.joinFused (← parseAccum x) (← parseAccum y) (← parsePers a) (← parsePers b))
  | ["join_fused_lhs", x, a, b] => do some (.joinFusedLhs (← parseAccum x) (← parsePers a) (← parsePers b))
  | ["join_fused_rhs", x, a, b] => do some (.joinFusedRhs (← parseAccum x) (← parsePers a) (← parsePers b))
  | ["join_multiset_half", a, b] => do some (.joinMultisetHalf (← parsePers a) (← parsePers b))
  | ["fused_enum_chain_first_n", n] => n.toNat?.map .fusedEnumChainFirstN
  | ["fused_unique_cross_singleton"] => some .fusedUniqueCrossSingleton
  | ["fused_unique_defer_signal"] => some .fusedUniqueDeferSignal
  | _ => none

def parseRef (s : String) : Option Ref :=
  match s.splitOn "." with
  | [a, b] => do some ⟨← a.toNat?, ← b.toNat?⟩
  | _ => none

def parseStage : String → Option Stage
  | "identity" => some .identity | "map_id" => some .mapId | "tee1" => some .tee1 | "union1" => some .union1
  | "tee_null" => some .teeNull | "union_empty" => some .unionEmpty | _ => none

structure St where
  nodes : List Node := []          -- in order
  sinks : List (Ref × String) := []
  perts : List Perturbation := []
  vnodes : List Node := []         -- explicit variant program (`vnode` lines), if any
  sched : Option (List (List Node)) := none   -- the real partition (`sched` line), if given
  σ : States := States.init
  σv : States := States.init

def splitArrow (ws : List String) : List String × List String :=
  (ws.takeWhile (· != "<-"), (ws.dropWhile (· != "<-")).drop 1)

def variantNodes (st : St) : List Node :=
  if st.vnodes.isEmpty then st.perts.foldl (fun ns q => perturbNodes q.stage q.fresh q.target q.k ns) st.nodes
  else st.vnodes

def doTick (st : St) (variant : Bool) (t : Nat) (extS : String) : Option (St × String) := do
  let ext ← (extS.splitOn "|").mapM parseStream
  let ns := if variant then variantNodes st else st.nodes
  let r := match variant, st.sched with
    | false, some sch => runScheduleB t ext sch st.σ
    | _, _ => evalTick t ext ns (if variant then st.σv else st.σ)
  let out := "|".intercalate (st.sinks.map fun (rf, mode) => showStream mode (lookup r.2 rf))
  some (if variant then { st with σv := r.1 } else { st with σ := r.1 }, out)

def step (st : St) (line : String) : St × String :=
  let l := line.trimAscii.toString
  match l.splitOn " " with
  | "#case" :: _ => ({}, l)
  | "node" :: id :: rest =>
    let (opw, refs) := splitArrow rest
    match id.toNat?, parseOp opw, refs.mapM parseRef with
    | some id, some op, some rs => ({ st with nodes := st.nodes ++ [⟨id, op, rs⟩] }, "ok")
    | _, _, _ => (st, "bad-op")
  | "vnode" :: id :: rest =>
    let (opw, refs) := splitArrow rest
    match id.toNat?, parseOp opw, refs.mapM parseRef with
    | some id, some op, some rs => ({ st with vnodes := st.vnodes ++ [⟨id, op, rs⟩] }, "ok")
    | _, _, _ => (st, "bad-op")
  | ["sink", _sid, r, mode] =>
    match parseRef r with
    | some rf => if mode == "seq" || mode == "bag" then ({ st with sinks := st.sinks ++ [(rf, mode)] }, "ok") else (st, "bad-op")
    | none => (st, "bad-op")
  | ["perturb", s, f, tg, k] =>
    match parseStage s, f.toNat?, tg.toNat?, k.toNat? with
    | some s, some f, some tg, some k => ({ st with perts := st.perts ++ [⟨s, f, tg, k⟩] }, "ok")
    | _, _, _, _ => (st, "bad-op")
  | ["sched", sch] =>
    -- the real partition: subgraphs `|`-separated, node ids `,`-separated, in execution order
    let groups := (sch.splitOn "|").map fun g => (g.splitOn ",").filterMap String.toNat?
    let lookupNode (i : Nat) : Option Node := st.nodes.find? (fun n => n.id == i)
    match groups.mapM (fun g => g.mapM lookupNode) with
    | some sg =>
      let flat := sg.flatten
      let idsA := (flat.map Node.id).toArray.qsort (· < ·)
      let idsB := (st.nodes.map Node.id).toArray.qsort (· < ·)
      if idsA == idsB && wfFromB [] flat then ({ st with sched := some sg }, "ok") else (st, "not-a-valid-schedule")
    | none => (st, "bad-op")
  | ["tick", t, ext] =>
    match t.toNat? with
    | some t => match doTick st false t ext with | some r => r | none => (st, "bad-op")
    | none => (st, "bad-op")
  | ["vtick", t, ext] =>
    match t.toNat? with
    | some t => match doTick st true t ext with | some r => r | none => (st, "bad-op")
    | none => (st, "bad-op")
  | _ => (st, "bad-op")

partial def loop (h : IO.FS.Stream) (out : IO.FS.Stream) (st : St) : IO Unit := do
  let line ← h.getLine
  if line.isEmpty then return ()
  let (st', o) := step st line
  out.putStrLn o
  loop h out st'

def main : IO Unit := do
  let stdin ← IO.getStdin
  let stdout ← IO.getStdout
  loop stdin stdout {}
