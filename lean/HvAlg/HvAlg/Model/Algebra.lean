/-
Model of `lattices/src/algebra.rs` and of `cartesian_power` (`lattices/src/test.rs`).

Transcribed from the code that exists, line by line:
* `cartesian_power` is the iterator state machine `CartesianPower { items, iters }` whose
  `next` runs the `from_fn` closure over the digits with the `go_next` carry;
* a `for … in cartesian_power(items)` loop is `CP.forEach` (early `return Err(..)`);
* a `for a in items` loop is `forEach`;
* `x?; y?; Ok(())` is `andThen`.
No imports (this file is linked into the native driver).
-/
namespace HvAlg

/-- `Result<(), &'static str>` -/
abbrev Res := Except String Unit

/-- `a?; b` -/
@[inline] def andThen (a b : Res) : Res :=
  match a with
  | .error e => .error e
  | .ok () => b

/-- `if bad { return Err(msg) }` -/
@[inline] def failIf (bad : Bool) (msg : String) : Res :=
  if bad then .error msg else .ok ()

/-! ## `cartesian_power` -/

/-- `struct CartesianPower { items, iters }`; a `Peekable<slice::Iter>` is the remaining slice. -/
structure CP (α : Type) where
  items : List α
  iters : List (List α)

namespace CP
variable {α : Type}

/-- `let iters = from_fn(|_| items.iter().peekable()); CartesianPower { items, iters }` -/
def init (n : Nat) (items : List α) : CP α := ⟨items, List.replicate n items⟩

/-- The `from_fn::<_, N, _>(|i| …)` closure run over the digits `i, i+1, …` with the current value of
`go_next`.  Returns `(out[i..], iters[i..] afterwards, go_next afterwards)`;
`none` = `iter.peek().unwrap()` panicked. -/
def digits (items : List α) : Bool → List (List α) → Option (List α × List (List α) × Bool)
  | go, [] => some ([], [], go)
  | _, [] :: _ => none
  | go, (x :: tl) :: rest =>
    if go then
      -- iter.next();
      match tl with
      | [] =>
        -- iter.peek().is_none(): "carry", `*iter = self.items.iter().peekable()`, go_next stays true
        match digits items true rest with
        | none => none
        | some (o, r, g) => some (x :: o, items :: r, g)
      | _ :: _ =>
        -- go_next = false
        match digits items false rest with
        | none => none
        | some (o, r, g) => some (x :: o, tl :: r, g)
    else
      match digits items false rest with
      | none => none
      | some (o, r, g) => some (x :: o, (x :: tl) :: r, g)

inductive Step (α : Type)
  | done
  | panic
  | yield (out : List α) (st : CP α)

/-- `Iterator::next` -/
def next (st : CP α) : Step α :=
  if st.items.isEmpty then .done
  else
    match digits st.items true st.iters with
    | none => .panic
    | some (out, iters, go) =>
      -- `if go_next { self.items = &[] }`
      .yield out ⟨if go then [] else st.items, iters⟩

/-- `size_hint().0` (= `ExactSizeIterator::len`) -/
def sizeHint (st : CP α) : Nat :=
  if st.items.isEmpty then 0
  else
    let (pow, passed) := st.iters.foldl
      (fun (acc : Nat × Nat) it => (acc.1 * st.items.length, acc.2 + acc.1 * (st.items.length - it.length)))
      (1, 0)
    pow - passed

/-- `for t in <iterator> { body(t)? }` with explicit fuel (see `fuelFor`; `CP.forEach_eq` shows
the fuel always suffices and the panic branch is never taken). -/
def forEach : Nat → CP α → (List α → Res) → Res
  | 0, _, _ => .error "model: out of fuel"
  | fuel + 1, st, body =>
    match st.next with
    | .done => .ok ()
    | .panic => .error "panic: called `Option::unwrap()` on a `None` value"
    | .yield t st' =>
      match body t with
      | .error e => .error e
      | .ok () => forEach fuel st' body

/-- the sequence of tuples the iterator yields (with fuel), `none` on panic / out of fuel -/
def collect : Nat → CP α → Option (List (List α))
  | 0, _ => none
  | fuel + 1, st =>
    match st.next with
    | .done => some []
    | .panic => none
    | .yield t st' =>
      match collect fuel st' with
      | none => none
      | some ts => some (t :: ts)

end CP

def fuelFor {α : Type} (n : Nat) (items : List α) : Nat := items.length ^ n + 1

/-- `for t in cartesian_power::<_, n>(items) { body(t)? } Ok(())` -/
def forCP {α : Type} (n : Nat) (items : List α) (body : List α → Res) : Res :=
  CP.forEach (fuelFor n items) (CP.init n items) body

/-- `for a in items { body(a)? } Ok(())` -/
def forEach {α : Type} : List α → (α → Res) → Res
  | [], _ => .ok ()
  | a :: rest, body =>
    match body a with
    | .error e => .error e
    | .ok () => forEach rest body

/-- an irrefutable `[a, b]` / `[a, b, c]` pattern on a tuple of the wrong length cannot happen -/
def unreachable : Res := .error "model: unreachable"

/-! ## the single-law checkers -/
section checkers
variable {α β γ : Type} [DecidableEq α] [DecidableEq β] [DecidableEq γ]

def associativity (items : List α) (f : α → α → α) : Res :=
  forCP 3 items fun
    | [a, b, c] => failIf (f a (f b c) ≠ f (f a b) c) "Associativity check failed."
    | _ => unreachable

def commutativity (items : List α) (f : α → α → α) : Res :=
  forCP 2 items fun
    | [x, y] => failIf (f x y ≠ f y x) "Commutativity check failed."
    | _ => unreachable

def idempotency (items : List α) (f : α → α → α) : Res :=
  forEach items fun x => failIf (f x x ≠ x) "Idempotency check failed."

def identity (items : List α) (f : α → α → α) (e : α) : Res :=
  forEach items fun a =>
    andThen (failIf (f e a ≠ a) "Left Identity check failed.")
      (failIf (f a e ≠ a) "Right Identity check failed.")

def inverse (items : List α) (f : α → α → α) (e : α) (b : α → α) : Res :=
  forEach items fun a =>
    andThen (failIf (f a (b a) ≠ e) "Inverse check failed.")
      (failIf (f (b a) a ≠ e) "Inverse check failed.")

def nonzeroInverse (items : List α) (f : α → α → α) (e zero : α) (b : α → α) : Res :=
  forEach items fun a =>
    if a ≠ zero then
      andThen (failIf (f a (b a) ≠ e) "Nonzero inverse check failed.")
        (failIf (f (b a) a ≠ e) "Nonzero inverse check failed.")
    else .ok ()

def absorbingElement (items : List α) (f : α → α → α) (z : α) : Res :=
  forEach items fun a =>
    andThen (failIf (f a z ≠ z) "Absorbing element property check failed.")
      (failIf (f z a ≠ z) "Absorbing element property check failed.")

def leftDistributes (items : List α) (f g : α → α → α) : Res :=
  forCP 3 items fun
    | [a, b, c] => failIf (g a (f b c) ≠ f (g a b) (g a c)) "Left distributive property check failed."
    | _ => unreachable

def rightDistributes (items : List α) (f g : α → α → α) : Res :=
  forCP 3 items fun
    | [a, b, c] => failIf (g (f b c) a ≠ f (g b a) (g c a)) "Right distributive property check failed."
    | _ => unreachable

def noNonzeroZeroDivisors (items : List α) (f : α → α → α) (zero : α) : Res :=
  forEach items fun a =>
    forEach items fun b =>
      if a ≠ zero ∧ b ≠ zero then
        andThen (failIf (f a b = zero) "No nonzero zero divisors check failed.")
          (failIf (f b a = zero) "No nonzero zero divisors check failed.")
      else .ok ()

/-- `linearity` (after the repair `fix: algebra::linearity …`, /repo b3a76e33cee) -/
def linearity (items : List α) (f : α → α → α) (g : β → β → β) (q : α → β) : Res :=
  forCP 2 items fun
    | [a, b] => failIf (q (f a b) ≠ g (q a) (q b)) "Linearity check failed."
    | _ => unreachable

/-- `linearity` as shipped before the repair (finding F2): it compared with `g(q(b), q(a))`, the
arguments of `g` swapped w.r.t. the documented law `q(a+b) = q(a) + q(b)`.  Kept for the record
(`linearity_refuted_before_fix`); the driver does not use it. -/
def linearityOrig (items : List α) (f : α → α → α) (g : β → β → β) (q : α → β) : Res :=
  forCP 2 items fun
    | [a, b] => failIf (q (f a b) ≠ g (q b) (q a)) "Linearity check failed."
    | _ => unreachable

def bilinearity (itemsF : List α) (itemsH : List γ) (f : α → α → α) (h : γ → γ → γ)
    (g : β → β → β) (q : α → γ → β) : Res :=
  forCP 2 itemsF fun
    | [a, b] =>
      forCP 2 itemsH fun
        | [c, d] =>
          failIf (q (f a b) c ≠ g (q a c) (q b c) ∨ q a (h c d) ≠ g (q a c) (q a d))
            "Bilinearity check failed."
        | _ => unreachable
    | _ => unreachable

/-! The composite checkers (`semigroup`, `monoid`, …, `field`, `distributive`) are generated from the
Rust source into `HvAlg/Gen/Composites.lean` on every run. -/

/-- `if c { properties_satisfied.push(name) }` -/
def pushIf (ps : List String) (c : Bool) (name : String) : List String :=
  if c then ps ++ [name] else ps

/-- `get_single_function_properties` -/
def getSingleFunctionProperties (items : List α) (f : α → α → α) (e : α) (b : α → α) (z : α) :
    List String :=
  let ps : List String := []
  let ps := pushIf ps (associativity items f).isOk "associativity"
  let ps := pushIf ps (commutativity items f).isOk "commutativity"
  let ps := pushIf ps (idempotency items f).isOk "idempotency"
  let ps := pushIf ps (identity items f e).isOk "identity"
  let ps := pushIf ps (inverse items f e b).isOk "inverse"
  let ps := pushIf ps (absorbingElement items f z).isOk "absorbing_element"
  ps

end checkers
end HvAlg
