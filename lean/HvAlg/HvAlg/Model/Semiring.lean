/-
Model of `lattices/src/semiring_application.rs`.

`BinaryTrust(bool)`, `Multiplicity(u32)`, `Cost(U32WithInfinity)` are modelled on `Bool`, `Nat`
(with the `checked_*().unwrap()` panic as `none`) and `Option Nat` (`none` = `Infinity`).
`Cost::mul` is `a.checked_add(b).unwrap()` since /repo `fix: Cost::mul …` (finding F91): it panics on
overflow in every build profile (`Cost.mul`).  Before that fix it was a bare `a + b` on `u32`, which
panics with overflow checks (debug) and wraps without (release, the profile the checks build):
`Cost.mulWrappingBeforeFix` keeps that old release behaviour only for the refutation theorem.
`ConfidenceScore(f64)` / `FuzzyLogic(f64)`: floating point is NOT modelled for the theorems; the
definitions over Lean's native `Float` (IEEE double, executed by the compiled driver only) exist so
that the correspondence check can compare bit patterns with the Rust code.
No imports (this file is linked into the native driver).
-/
namespace HvAlg

def U32_MAX : Nat := 4294967295

/-- `u32::checked_add(a, b)` (`none` = overflow; the code `unwrap`s it, i.e. panics) -/
def checkedAdd (a b : Nat) : Option Nat := if a + b ≤ U32_MAX then some (a + b) else none

/-- `u32::checked_mul(a, b)` -/
def checkedMul (a b : Nat) : Option Nat := if a * b ≤ U32_MAX then some (a * b) else none

/-- `a + b` on `u32` without overflow checks -/
def wrappingAdd (a b : Nat) : Nat := (a + b) % 4294967296

namespace BinaryTrust
/-- `BinaryTrust::new()` -/
def new : Bool := true
/-- `self.0 = self.0 || other.0` -/
def add (a b : Bool) : Bool := a || b
/-- `self.0 = self.0 && other.0` -/
def mul (a b : Bool) : Bool := a && b
def zero : Bool := false
def one : Bool := true
end BinaryTrust

namespace Multiplicity
/-- `self.0.checked_add(other.0).unwrap()`; `none` = panic -/
def add (a b : Nat) : Option Nat := checkedAdd a b
/-- `self.0.checked_mul(other.0).unwrap()`; `none` = panic -/
def mul (a b : Nat) : Option Nat := checkedMul a b
def zero : Nat := 0
def one : Nat := 1
end Multiplicity

namespace Cost
/-- `U32WithInfinity`: `none` = `Infinity`, `some n` = `Finite(n)` -/
abbrev V := Option Nat

/-- `match (self.0, other.0) { (Infinity, x) | (x, Infinity) => x, (Finite(a), Finite(b)) => Finite(a.min(b)) }` -/
def add : V → V → V
  | none, x => x
  | x, none => x
  | some a, some b => some (min a b)

/-- `Cost::mul` over unbounded naturals (the intended tropical semiring) -/
def mulNat : V → V → V
  | none, _ => none
  | _, none => none
  | some a, some b => some (a + b)

/-- `Cost::mul`: `(Infinity, _) | (_, Infinity) => Infinity`,
`(Finite(a), Finite(b)) => Finite(a.checked_add(b).unwrap())`; outer `none` = panic -/
def mul : V → V → Option V
  | none, _ => some none
  | _, none => some none
  | some a, some b =>
    match checkedAdd a b with
    | some s => some (some s)
    | none => none

/-- `Cost::mul` BEFORE the fix, compiled without overflow checks (release profile): `a + b` wraps -/
def mulWrappingBeforeFix : V → V → V
  | none, _ => none
  | _, none => none
  | some a, some b => some (wrappingAdd a b)

def zero : V := none
def one : V := some 0
end Cost

/-! ### f64 applications: executed by the driver only, no theorem is about these -/

namespace F64
/-- `f64::max` for non-NaN arguments (the constructors reject NaN) -/
def max (a b : Float) : Float := if a < b then b else a
/-- `f64::min` for non-NaN arguments -/
def min (a b : Float) : Float := if b < a then b else a
/-- `assert!((0.0..=1.0).contains(&value))` : `false` = panic -/
def inUnit (v : Float) : Bool := (0.0 <= v) && (v <= 1.0)
end F64

namespace ConfidenceScore
def add (a b : Float) : Float := F64.max a b
def mul (a b : Float) : Float := a * b
def zero : Float := 0.0
def one : Float := 1.0
end ConfidenceScore

namespace FuzzyLogic
def add (a b : Float) : Float := F64.max a b
def mul (a b : Float) : Float := F64.min a b
def zero : Float := 0.0
def one : Float := 1.0
end FuzzyLogic

end HvAlg
