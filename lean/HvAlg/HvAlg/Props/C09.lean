/-
C09 — Algebraic law checkers report exactly the laws that hold.

Property theorems about the executable model in `HvAlg/Model/Algebra.lean`
(`lattices/src/algebra.rs`, `cartesian_power` of `lattices/src/test.rs`) and
`HvAlg/Model/Semiring.lean` (`lattices/src/semiring_application.rs`).
Helper lemmas are named `aux_*`.
-/
import HvAlg.Model.Algebra
import HvAlg.Gen.Composites
import HvAlg.Model.Semiring
import Mathlib.Data.List.Basic
import Mathlib.Data.List.Nodup
import Mathlib.Algebra.Order.Ring.Unbundled.Basic
import Mathlib.Algebra.Order.Ring.Defs
import Mathlib.Order.Lattice

namespace HvAlg
open List

variable {α β γ : Type}

/-! ## Specification of the cartesian power -/

/-- All `n`-tuples over `items` in the order of the Rust iterator: index 0 varies fastest. -/
def allTuples : Nat → List α → List (List α)
  | 0, _ => [[]]
  | n + 1, items => (allTuples n items).flatMap fun r => items.map fun x => x :: r

/-- first element of every digit iterator -/
def heads (iters : List (List α)) : List α := iters.filterMap List.head?

/-- what the state machine still has to yield from the digit state `iters` -/
def rem (items : List α) : List (List α) → List (List α)
  | [] => [[]]
  | s :: rest =>
    s.map (fun x => x :: heads rest) ++ (rem items rest).tail.flatMap fun r => items.map fun x => x :: r

/-- every digit iterator still has an element to peek at -/
def AllNonempty (iters : List (List α)) : Prop := ∀ s ∈ iters, s ≠ []

theorem aux_rem_head (items : List α) (iters : List (List α)) (h : AllNonempty iters) :
    rem items iters = heads iters :: (rem items iters).tail := by
  cases iters with
  | nil => simp [rem, heads]
  | cons s rest =>
    have hs : s ≠ [] := h s (by simp)
    cases s with
    | nil => exact absurd rfl hs
    | cons x tl => simp [rem, heads]

theorem aux_digits_false (items : List α) (iters : List (List α)) (h : AllNonempty iters) :
    CP.digits items false iters = some (heads iters, iters, false) := by
  induction iters with
  | nil => simp [CP.digits, heads]
  | cons s rest ih =>
    have hs : s ≠ [] := h s (by simp)
    have hr : AllNonempty rest := fun t ht => h t (by simp [ht])
    cases s with
    | nil => exact absurd rfl hs
    | cons x tl =>
      have := ih hr
      simp [CP.digits, this, heads]

theorem aux_digits_true (items : List α) (hi : items ≠ []) (iters : List (List α))
    (h : AllNonempty iters) :
    ∃ iters' g, CP.digits items true iters = some (heads iters, iters', g) ∧ AllNonempty iters' ∧
      (rem items iters).tail = if g then [] else rem items iters' := by
  induction iters with
  | nil => exact ⟨[], true, by simp [CP.digits, heads], by simp [AllNonempty], by simp [rem]⟩
  | cons s rest ih =>
    have hs : s ≠ [] := h s (by simp)
    have hr : AllNonempty rest := fun t ht => h t (by simp [ht])
    cases s with
    | nil => exact absurd rfl hs
    | cons x tl =>
      cases tl with
      | nil =>
        obtain ⟨r, g, hd, hne, htl⟩ := ih hr
        refine ⟨items :: r, g, ?_, ?_, ?_⟩
        · simp [CP.digits, hd, heads]
        · intro t ht
          rcases List.mem_cons.mp ht with rfl | ht
          · exact hi
          · exact hne t ht
        · cases g with
          | true => simp [rem, htl]
          | false =>
            simp only [Bool.false_eq_true, if_false] at htl ⊢
            have hA := aux_rem_head items r hne
            simp only [rem, List.map_cons, List.map_nil, List.cons_append, List.nil_append,
              List.tail_cons, htl]
            conv_lhs => rw [hA]
            simp [List.flatMap_cons]
      | cons y tl' =>
        refine ⟨(y :: tl') :: rest, false, ?_, ?_, ?_⟩
        · simp [CP.digits, aux_digits_false items rest hr, heads]
        · intro t ht
          rcases List.mem_cons.mp ht with rfl | ht
          · simp
          · exact hr t ht
        · simp [rem]

theorem aux_forEach_rem (items : List α) (hi : items ≠ []) (body : List α → Res) :
    ∀ (fuel : Nat) (iters : List (List α)), AllNonempty iters →
      (rem items iters).length + 1 ≤ fuel →
      CP.forEach fuel ⟨items, iters⟩ body = forEach (rem items iters) body := by
  intro fuel
  induction fuel with
  | zero => intro iters _ hf; omega
  | succ fuel ih =>
    intro iters h hf
    obtain ⟨iters', g, hd, hne, htl⟩ := aux_digits_true items hi iters h
    have hA := aux_rem_head items iters h
    have hie : items.isEmpty = false := by
      cases items with
      | nil => exact absurd rfl hi
      | cons _ _ => rfl
    rw [hA]
    simp only [CP.forEach, CP.next, hie, hd, forEach, Bool.false_eq_true, ↓reduceIte]
    cases hb : body (heads iters) with
    | error e => simp only [hb]
    | ok u =>
      cases u
      simp only [hb]
      cases g with
      | true =>
        simp only [if_true] at htl ⊢
        rw [htl]
        have : 1 ≤ fuel := by
          have : 1 ≤ (rem items iters).length := by rw [hA]; simp
          omega
        obtain ⟨k, rfl⟩ : ∃ k, fuel = k + 1 := ⟨fuel - 1, by omega⟩
        simp [CP.forEach, CP.next, forEach, hb]
      | false =>
        simp only [Bool.false_eq_true, if_false] at htl ⊢
        rw [htl]
        apply ih iters' hne
        have : (rem items iters).length = (rem items iters').length + 1 := by
          rw [hA]; simp [htl]
        omega

theorem aux_collect_rem (items : List α) (hi : items ≠ []) :
    ∀ (fuel : Nat) (iters : List (List α)), AllNonempty iters →
      (rem items iters).length + 1 ≤ fuel →
      CP.collect fuel ⟨items, iters⟩ = some (rem items iters) := by
  intro fuel
  induction fuel with
  | zero => intro iters _ hf; omega
  | succ fuel ih =>
    intro iters h hf
    obtain ⟨iters', g, hd, hne, htl⟩ := aux_digits_true items hi iters h
    have hA := aux_rem_head items iters h
    have hie : items.isEmpty = false := by
      cases items with
      | nil => exact absurd rfl hi
      | cons _ _ => rfl
    rw [hA]
    simp only [CP.collect, CP.next, hie, hd, Bool.false_eq_true, ↓reduceIte]
    cases g with
    | true =>
      simp only [if_true] at htl ⊢
      rw [htl]
      have : 1 ≤ fuel := by
        have : 1 ≤ (rem items iters).length := by rw [hA]; simp
        omega
      obtain ⟨k, rfl⟩ : ∃ k, fuel = k + 1 := ⟨fuel - 1, by omega⟩
      simp [CP.collect, CP.next]
    | false =>
      simp only [Bool.false_eq_true, if_false] at htl ⊢
      rw [htl]
      have hlen : (rem items iters).length = (rem items iters').length + 1 := by
        rw [hA]; simp [htl]
      rw [ih iters' hne (by omega)]

theorem aux_allNonempty_replicate (n : Nat) (items : List α) (hi : items ≠ []) :
    AllNonempty (List.replicate n items) := by
  intro s hs
  rw [List.eq_of_mem_replicate hs]; exact hi

theorem aux_rem_init (items : List α) (hi : items ≠ []) (n : Nat) :
    rem items (List.replicate n items) = allTuples n items := by
  induction n with
  | zero => simp [rem, allTuples]
  | succ n ih =>
    have hA := aux_rem_head items _ (aux_allNonempty_replicate n items hi)
    rw [List.replicate_succ, allTuples, ← ih]
    conv_rhs => rw [hA]
    simp [rem, List.flatMap_cons]

theorem aux_length_allTuples (n : Nat) (items : List α) :
    (allTuples n items).length = items.length ^ n := by
  induction n with
  | zero => simp [allTuples]
  | succ n ih =>
    simp only [allTuples, List.length_flatMap, List.length_map]
    rw [List.map_const', ih, Nat.pow_succ]
    simp

/-! ## `cartesian_power` enumerates exactly all `N`-tuples, each once -/

/-- The tuples yielded by the iterator state machine (from its initial state, run until it returns
`None`) are exactly `allTuples n items`, in that order; nothing panics and the fuel suffices.  For an
empty `items` the iterator yields nothing (also for `n = 0`, where the code returns `None` at once). -/
theorem cartesianPower_enumerates (n : Nat) (items : List α) :
    CP.collect (fuelFor n items) (CP.init n items)
      = some (if items = [] then [] else allTuples n items) := by
  by_cases hi : items = []
  · subst hi; simp [fuelFor, CP.collect, CP.next, CP.init]
  · simp only [hi, if_false, CP.init]
    rw [aux_collect_rem items hi _ _ (aux_allNonempty_replicate n items hi), aux_rem_init items hi]
    rw [aux_rem_init items hi, aux_length_allTuples, fuelFor]
    all_goals exact Nat.le_refl _

/-- membership: a list is yielded iff it is an `n`-tuple over `items` -/
theorem allTuples_mem (n : Nat) (items : List α) (t : List α) :
    t ∈ allTuples n items ↔ t.length = n ∧ ∀ x ∈ t, x ∈ items := by
  induction n generalizing t with
  | zero => simp [allTuples]; intro h; subst h; simp
  | succ n ih =>
    simp only [allTuples, List.mem_flatMap, List.mem_map]
    constructor
    · rintro ⟨r, hr, x, hx, rfl⟩
      obtain ⟨hl, hm⟩ := (ih r).mp hr
      refine ⟨by simp [hl], ?_⟩
      intro y hy
      rcases List.mem_cons.mp hy with rfl | hy
      · exact hx
      · exact hm y hy
    · rintro ⟨hl, hm⟩
      cases t with
      | nil => simp at hl
      | cons x r =>
        refine ⟨r, (ih r).mpr ⟨by simpa using hl, fun y hy => hm y (by simp [hy])⟩, x, hm x (by simp), rfl⟩

/-- number of tuples -/
theorem allTuples_length (n : Nat) (items : List α) :
    (allTuples n items).length = items.length ^ n := aux_length_allTuples n items

/-- each tuple once: for duplicate-free `items` no tuple is repeated -/
theorem allTuples_nodup (n : Nat) (items : List α) (h : items.Nodup) :
    (allTuples n items).Nodup := by
  induction n with
  | zero => simp [allTuples]
  | succ n ih =>
    simp only [allTuples]
    rw [List.nodup_flatMap]
    refine ⟨fun r _ => ?_, ?_⟩
    · exact h.map (fun a b hab => by simpa using hab)
    · refine List.Pairwise.imp ?_ ih
      intro a b hab
      simp only [Function.onFun, List.disjoint_left, List.mem_map]
      rintro t ⟨x, _, rfl⟩ ⟨y, _, hy⟩
      simp at hy
      exact hab hy.2.symm

/-- the enumeration is natural in the element type: with `items = idx.map get` every *position*
tuple is visited exactly once even when `items` holds duplicates -/
theorem allTuples_map (f : α → β) (n : Nat) (items : List α) :
    allTuples n (items.map f) = (allTuples n items).map (List.map f) := by
  induction n with
  | zero => simp [allTuples]
  | succ n ih =>
    simp only [allTuples, ih, List.flatMap_map, List.map_flatMap, List.map_map]
    congr 1

/-! ## The loops -/

theorem aux_forEach_ok_iff (l : List α) (body : α → Res) :
    forEach l body = .ok () ↔ ∀ a ∈ l, body a = .ok () := by
  induction l with
  | nil => simp [forEach]
  | cons a l ih =>
    simp only [forEach, List.mem_cons, forall_eq_or_imp]
    cases hb : body a with
    | error e => simp
    | ok u => cases u; simp [ih]

/-- a `for t in cartesian_power(items)` loop is the plain loop over `allTuples` -/
theorem forCP_eq (n : Nat) (items : List α) (body : List α → Res) :
    forCP n items body = forEach (if items = [] then [] else allTuples n items) body := by
  by_cases hi : items = []
  · subst hi; simp [forCP, fuelFor, CP.forEach, CP.next, CP.init, forEach]
  · simp only [hi, if_false, forCP, CP.init]
    rw [aux_forEach_rem items hi body _ _ (aux_allNonempty_replicate n items hi), aux_rem_init items hi]
    rw [aux_rem_init items hi, aux_length_allTuples, fuelFor]
    all_goals exact Nat.le_refl _

theorem aux_failIf_ok (b : Bool) (m : String) : failIf b m = .ok () ↔ b = false := by
  cases b <;> simp [failIf]

theorem aux_andThen_ok (a b : Res) : andThen a b = .ok () ↔ a = .ok () ∧ b = .ok () := by
  cases a with
  | error e => simp [andThen]
  | ok u => cases u; simp [andThen]

theorem aux_forCP_ok_iff (n : Nat) (items : List α) (body : List α → Res) :
    forCP n items body = .ok () ↔ (items ≠ [] → ∀ t ∈ allTuples n items, body t = .ok ()) := by
  rw [forCP_eq, aux_forEach_ok_iff]
  by_cases hi : items = [] <;> simp [hi]

theorem aux_forCP2_ok_iff (items : List α) (body : List α → Res) :
    forCP 2 items body = .ok () ↔ ∀ a ∈ items, ∀ b ∈ items, body [a, b] = .ok () := by
  rw [aux_forCP_ok_iff]
  constructor
  · intro h a ha b hb
    exact h (List.ne_nil_of_mem ha) _ ((allTuples_mem 2 items _).mpr ⟨rfl, by simp [ha, hb]⟩)
  · intro h _ t ht
    obtain ⟨hl, hm⟩ := (allTuples_mem 2 items t).mp ht
    match t, hl with
    | [a, b], _ => exact h a (hm a (by simp)) b (hm b (by simp))

theorem aux_forCP3_ok_iff (items : List α) (body : List α → Res) :
    forCP 3 items body = .ok () ↔
      ∀ a ∈ items, ∀ b ∈ items, ∀ c ∈ items, body [a, b, c] = .ok () := by
  rw [aux_forCP_ok_iff]
  constructor
  · intro h a ha b hb c hc
    exact h (List.ne_nil_of_mem ha) _ ((allTuples_mem 3 items _).mpr ⟨rfl, by simp [ha, hb, hc]⟩)
  · intro h _ t ht
    obtain ⟨hl, hm⟩ := (allTuples_mem 3 items t).mp ht
    match t, hl with
    | [a, b, c], _ => exact h a (hm a (by simp)) b (hm b (by simp)) c (hm c (by simp))

theorem aux_forEach_error (l : List α) (body : α → Res) (e : String) (h : forEach l body = .error e) :
    ∃ a ∈ l, body a = .error e := by
  induction l with
  | nil => simp [forEach] at h
  | cons a l ih =>
    simp only [forEach] at h
    cases hb : body a with
    | error e' =>
      rw [hb] at h
      exact ⟨a, by simp, by rw [hb]; exact h⟩
    | ok u =>
      cases u
      rw [hb] at h
      obtain ⟨x, hx, hbx⟩ := ih h
      exact ⟨x, by simp [hx], hbx⟩

theorem aux_forCP2_error (items : List α) (body : List α → Res) (e : String)
    (h : forCP 2 items body = .error e) : ∃ a ∈ items, ∃ b ∈ items, body [a, b] = .error e := by
  rw [forCP_eq] at h
  obtain ⟨t, htm, ht⟩ := aux_forEach_error _ _ _ h
  by_cases hi : items = []
  · simp [hi] at htm
  · simp only [hi, if_false] at htm
    obtain ⟨hl, hm⟩ := (allTuples_mem 2 items t).mp htm
    match t, hl with
    | [a, b], _ => exact ⟨a, hm a (by simp), b, hm b (by simp), ht⟩

theorem aux_forCP3_error (items : List α) (body : List α → Res) (e : String)
    (h : forCP 3 items body = .error e) :
    ∃ a ∈ items, ∃ b ∈ items, ∃ c ∈ items, body [a, b, c] = .error e := by
  rw [forCP_eq] at h
  obtain ⟨t, htm, ht⟩ := aux_forEach_error _ _ _ h
  by_cases hi : items = []
  · simp [hi] at htm
  · simp only [hi, if_false] at htm
    obtain ⟨hl, hm⟩ := (allTuples_mem 3 items t).mp htm
    match t, hl with
    | [a, b, c], _ => exact ⟨a, hm a (by simp), b, hm b (by simp), c, hm c (by simp), ht⟩

theorem aux_failIf_error (b : Bool) (m e : String) (h : failIf b m = .error e) : e = m := by
  cases b <;> simp [failIf] at h; exact h.symm

theorem aux_andThen_error (a b : Res) (e : String) (h : andThen a b = .error e) :
    a = .error e ∨ b = .error e := by
  cases a with
  | error e' => left; simpa [andThen] using h
  | ok u => cases u; right; simpa [andThen] using h

/-! ## The laws -/
section laws
variable [DecidableEq α] [DecidableEq β] [DecidableEq γ]

def Assoc (items : List α) (f : α → α → α) : Prop :=
  ∀ a ∈ items, ∀ b ∈ items, ∀ c ∈ items, f a (f b c) = f (f a b) c
def Comm (items : List α) (f : α → α → α) : Prop := ∀ x ∈ items, ∀ y ∈ items, f x y = f y x
def Idem (items : List α) (f : α → α → α) : Prop := ∀ x ∈ items, f x x = x
def IsIdentity (items : List α) (f : α → α → α) (e : α) : Prop := ∀ a ∈ items, f e a = a ∧ f a e = a
def IsInverse (items : List α) (f : α → α → α) (e : α) (b : α → α) : Prop :=
  ∀ a ∈ items, f a (b a) = e ∧ f (b a) a = e
def IsNonzeroInverse (items : List α) (f : α → α → α) (e zero : α) (b : α → α) : Prop :=
  ∀ a ∈ items, a ≠ zero → f a (b a) = e ∧ f (b a) a = e
def IsAbsorbing (items : List α) (f : α → α → α) (z : α) : Prop := ∀ a ∈ items, f a z = z ∧ f z a = z
def LeftDistrib (items : List α) (f g : α → α → α) : Prop :=
  ∀ a ∈ items, ∀ b ∈ items, ∀ c ∈ items, g a (f b c) = f (g a b) (g a c)
def RightDistrib (items : List α) (f g : α → α → α) : Prop :=
  ∀ a ∈ items, ∀ b ∈ items, ∀ c ∈ items, g (f b c) a = f (g b a) (g c a)
def NoZeroDivisors (items : List α) (f : α → α → α) (zero : α) : Prop :=
  ∀ a ∈ items, ∀ b ∈ items, a ≠ zero → b ≠ zero → f a b ≠ zero ∧ f b a ≠ zero
/-- `q(a + b) = q(a) + q(b)` -/
def Linear (items : List α) (f : α → α → α) (g : β → β → β) (q : α → β) : Prop :=
  ∀ a ∈ items, ∀ b ∈ items, q (f a b) = g (q a) (q b)
/-- `q(a + b, c) = q(a,c) + q(b,c)` and `q(a, c + d) = q(a,c) + q(a,d)` -/
def Bilinear (itemsF : List α) (itemsH : List γ) (f : α → α → α) (h : γ → γ → γ)
    (g : β → β → β) (q : α → γ → β) : Prop :=
  ∀ a ∈ itemsF, ∀ b ∈ itemsF, ∀ c ∈ itemsH, ∀ d ∈ itemsH,
    q (f a b) c = g (q a c) (q b c) ∧ q a (h c d) = g (q a c) (q a d)

/-! ## Each single-law checker returns `Ok` exactly when its law holds on every tuple over `items` -/

theorem associativity_ok_iff_law (items : List α) (f : α → α → α) :
    associativity items f = .ok () ↔ Assoc items f := by
  simp [associativity, aux_forCP3_ok_iff, aux_failIf_ok, Assoc]

theorem commutativity_ok_iff_law (items : List α) (f : α → α → α) :
    commutativity items f = .ok () ↔ Comm items f := by
  simp [commutativity, aux_forCP2_ok_iff, aux_failIf_ok, Comm]

theorem idempotency_ok_iff_law (items : List α) (f : α → α → α) :
    idempotency items f = .ok () ↔ Idem items f := by
  simp [idempotency, aux_forEach_ok_iff, aux_failIf_ok, Idem]

theorem identity_ok_iff_law (items : List α) (f : α → α → α) (e : α) :
    identity items f e = .ok () ↔ IsIdentity items f e := by
  simp [identity, aux_forEach_ok_iff, aux_andThen_ok, aux_failIf_ok, IsIdentity]

theorem inverse_ok_iff_law (items : List α) (f : α → α → α) (e : α) (b : α → α) :
    inverse items f e b = .ok () ↔ IsInverse items f e b := by
  simp [inverse, aux_forEach_ok_iff, aux_andThen_ok, aux_failIf_ok, IsInverse]

theorem nonzeroInverse_ok_iff_law (items : List α) (f : α → α → α) (e zero : α) (b : α → α) :
    nonzeroInverse items f e zero b = .ok () ↔ IsNonzeroInverse items f e zero b := by
  simp only [nonzeroInverse, aux_forEach_ok_iff, IsNonzeroInverse]
  refine forall_congr' fun a => forall_congr' fun _ => ?_
  by_cases h : a = zero <;> simp [h, aux_andThen_ok, aux_failIf_ok]

theorem absorbingElement_ok_iff_law (items : List α) (f : α → α → α) (z : α) :
    absorbingElement items f z = .ok () ↔ IsAbsorbing items f z := by
  simp [absorbingElement, aux_forEach_ok_iff, aux_andThen_ok, aux_failIf_ok, IsAbsorbing]

theorem leftDistributes_ok_iff_law (items : List α) (f g : α → α → α) :
    leftDistributes items f g = .ok () ↔ LeftDistrib items f g := by
  simp [leftDistributes, aux_forCP3_ok_iff, aux_failIf_ok, LeftDistrib]

theorem rightDistributes_ok_iff_law (items : List α) (f g : α → α → α) :
    rightDistributes items f g = .ok () ↔ RightDistrib items f g := by
  simp [rightDistributes, aux_forCP3_ok_iff, aux_failIf_ok, RightDistrib]

theorem distributive_ok_iff_law (items : List α) (f g : α → α → α) :
    distributive items f g = .ok () ↔ LeftDistrib items f g ∧ RightDistrib items f g := by
  simp [distributive, aux_andThen_ok, leftDistributes_ok_iff_law, rightDistributes_ok_iff_law]

theorem noNonzeroZeroDivisors_ok_iff_law (items : List α) (f : α → α → α) (zero : α) :
    noNonzeroZeroDivisors items f zero = .ok () ↔ NoZeroDivisors items f zero := by
  simp only [noNonzeroZeroDivisors, aux_forEach_ok_iff, NoZeroDivisors]
  refine forall_congr' fun a => forall_congr' fun _ => forall_congr' fun b => forall_congr' fun _ => ?_
  by_cases ha : a = zero <;> by_cases hb : b = zero <;> simp [ha, hb, aux_andThen_ok, aux_failIf_ok]

theorem bilinearity_ok_iff_law (itemsF : List α) (itemsH : List γ) (f : α → α → α) (h : γ → γ → γ)
    (g : β → β → β) (q : α → γ → β) :
    bilinearity itemsF itemsH f h g q = .ok () ↔ Bilinear itemsF itemsH f h g q := by
  simp [bilinearity, aux_forCP2_ok_iff, aux_failIf_ok, Bilinear]

/-! ## The composite checkers are the conjunction of their laws -/

theorem semigroup_ok_iff_law (items : List α) (f : α → α → α) :
    semigroup items f = .ok () ↔ Assoc items f := by
  simp [semigroup, aux_andThen_ok, associativity_ok_iff_law]

theorem monoid_ok_iff_law (items : List α) (f : α → α → α) (zero : α) :
    monoid items f zero = .ok () ↔ Assoc items f ∧ IsIdentity items f zero := by
  simp [monoid, aux_andThen_ok, semigroup_ok_iff_law, identity_ok_iff_law]

theorem commutativeMonoid_ok_iff_law (items : List α) (f : α → α → α) (zero : α) :
    commutativeMonoid items f zero = .ok () ↔
      Assoc items f ∧ IsIdentity items f zero ∧ Comm items f := by
  simp [commutativeMonoid, aux_andThen_ok, monoid_ok_iff_law, commutativity_ok_iff_law, and_assoc]

/-- the semiring laws on the sample `items` -/
def SemiringOn (items : List α) (f g : α → α → α) (zero one : α) : Prop :=
  (Assoc items f ∧ IsIdentity items f zero ∧ Comm items f) ∧ (Assoc items g ∧ IsIdentity items g one) ∧
    IsAbsorbing items g zero ∧ LeftDistrib items f g ∧ RightDistrib items f g

theorem semiring_ok_iff_law (items : List α) (f g : α → α → α) (zero one : α) :
    semiring items f g zero one = .ok () ↔ SemiringOn items f g zero one := by
  simp [semiring, aux_andThen_ok, commutativeMonoid_ok_iff_law, monoid_ok_iff_law,
    absorbingElement_ok_iff_law, distributive_ok_iff_law, SemiringOn]

theorem ring_ok_iff_law (items : List α) (f g : α → α → α) (zero one : α) (b : α → α) :
    ring items f g zero one b = .ok () ↔ SemiringOn items f g zero one ∧ IsInverse items f zero b := by
  simp [ring, aux_andThen_ok, semiring_ok_iff_law, inverse_ok_iff_law]

theorem commutativeRing_ok_iff_law (items : List α) (f g : α → α → α) (zero one : α) (b : α → α) :
    commutativeRing items f g zero one b = .ok () ↔
      SemiringOn items f g zero one ∧ IsInverse items f zero b ∧ Comm items g := by
  simp [commutativeRing, aux_andThen_ok, semiring_ok_iff_law, inverse_ok_iff_law,
    commutativity_ok_iff_law]

theorem integralDomain_ok_iff_law (items : List α) (f g : α → α → α) (zero one : α) (b : α → α) :
    integralDomain items f g zero one b = .ok () ↔
      (SemiringOn items f g zero one ∧ IsInverse items f zero b ∧ Comm items g) ∧
        NoZeroDivisors items g zero := by
  simp [integralDomain, aux_andThen_ok, commutativeRing_ok_iff_law, noNonzeroZeroDivisors_ok_iff_law]

theorem field_ok_iff_law (items : List α) (f g : α → α → α) (zero one : α) (b c : α → α) :
    field items f g zero one b c = .ok () ↔
      (SemiringOn items f g zero one ∧ IsInverse items f zero b ∧ Comm items g) ∧
        IsNonzeroInverse items g one zero c := by
  simp [field, aux_andThen_ok, commutativeRing_ok_iff_law, nonzeroInverse_ok_iff_law]

theorem group_ok_iff_law (items : List α) (f : α → α → α) (zero : α) (b : α → α) :
    group items f zero b = .ok () ↔
      (Assoc items f ∧ IsIdentity items f zero) ∧ IsInverse items f zero b := by
  simp [group, aux_andThen_ok, monoid_ok_iff_law, inverse_ok_iff_law]

theorem abelianGroup_ok_iff_law (items : List α) (f : α → α → α) (zero : α) (b : α → α) :
    abelianGroup items f zero b = .ok () ↔
      ((Assoc items f ∧ IsIdentity items f zero) ∧ IsInverse items f zero b) ∧ Comm items f := by
  simp [abelianGroup, aux_andThen_ok, group_ok_iff_law, commutativity_ok_iff_law]

/-- `get_single_function_properties` lists exactly the laws that hold, in the fixed order -/
theorem getSingleFunctionProperties_mem (items : List α) (f : α → α → α) (e : α) (b : α → α) (z : α)
    (p : String) :
    p ∈ getSingleFunctionProperties items f e b z ↔
      (p = "associativity" ∧ Assoc items f) ∨ (p = "commutativity" ∧ Comm items f) ∨
      (p = "idempotency" ∧ Idem items f) ∨ (p = "identity" ∧ IsIdentity items f e) ∨
      (p = "inverse" ∧ IsInverse items f e b) ∨ (p = "absorbing_element" ∧ IsAbsorbing items f z) := by
  have isOk_iff : ∀ r : Res, r.isOk = true ↔ r = .ok () := by
    intro r; cases r with
    | error e => simp [Except.isOk, Except.toBool]
    | ok u => cases u; simp [Except.isOk, Except.toBool]
  have mem_pushIf : ∀ (ps : List String) (c : Bool) (n : String),
      p ∈ pushIf ps c n ↔ p ∈ ps ∨ (c = true ∧ p = n) := by
    intro ps c n; cases c <;> simp [pushIf]
  simp only [getSingleFunctionProperties, mem_pushIf, isOk_iff, associativity_ok_iff_law,
    commutativity_ok_iff_law, idempotency_ok_iff_law, identity_ok_iff_law, inverse_ok_iff_law,
    absorbingElement_ok_iff_law, List.not_mem_nil, false_or]
  tauto

/-! ## `linearity` (F2) -/

/-- the repaired `linearity` returns `Ok` exactly when `q(a+b) = q(a) + q(b)` on all pairs -/
theorem linearity_ok_iff_law (items : List α) (f : α → α → α) (g : β → β → β) (q : α → β) :
    linearity items f g q = .ok () ↔ Linear items f g q := by
  simp [linearity, aux_forCP2_ok_iff, aux_failIf_ok, Linear]

/-- what `linearity` decided before the repair: the law with the arguments of `g` swapped -/
theorem linearityOrig_ok_iff_swapped (items : List α) (f : α → α → α) (g : β → β → β) (q : α → β) :
    linearityOrig items f g q = .ok () ↔ ∀ a ∈ items, ∀ b ∈ items, q (f a b) = g (q b) (q a) := by
  simp [linearityOrig, aux_forCP2_ok_iff, aux_failIf_ok]

/-- F2 (fixed in /repo b3a76e33cee): for the code as shipped `linearity_ok_iff_law` was false — on the
carrier `{0,1}` with `f = g =` left projection and `q = id` the law `q(a+b) = q(a)+q(b)` holds and the
checker said `Err`. -/
theorem linearity_refuted_before_fix :
    ∃ (items : List Nat) (f g : Nat → Nat → Nat) (q : Nat → Nat),
      Linear items f g q ∧ linearityOrig items f g q ≠ .ok () := by
  refine ⟨[0, 1], fun a _ => a, fun a _ => a, id, ?_, ?_⟩
  · intro a _ b _; rfl
  · rw [Ne, linearityOrig_ok_iff_swapped]
    intro h
    have := h 0 (by simp) 1 (by simp)
    simp at this

/-- the same witness is accepted by the repaired checker -/
example : linearity [0, 1] (fun a _ => a) (fun a _ => a) (id : Nat → Nat) = .ok () := by
  rw [linearity_ok_iff_law]; intro a _ b _; rfl

/-! ## Semiring applications (`semiring_application.rs`) -/

/-- the semiring laws over the whole carrier type -/
structure SemiringLaws {S : Type} (add mul : S → S → S) (zero one : S) : Prop where
  add_assoc : ∀ a b c, add (add a b) c = add a (add b c)
  add_comm : ∀ a b, add a b = add b a
  add_zero : ∀ a, add a zero = a ∧ add zero a = a
  mul_assoc : ∀ a b c, mul (mul a b) c = mul a (mul b c)
  mul_one : ∀ a, mul a one = a ∧ mul one a = a
  mul_zero : ∀ a, mul a zero = zero ∧ mul zero a = zero
  left_distrib : ∀ a b c, mul a (add b c) = add (mul a b) (mul a c)
  right_distrib : ∀ a b c, mul (add b c) a = add (mul b a) (mul c a)

/-- the `semiring` checker accepts every sample of a structure satisfying the semiring laws -/
theorem semiring_ok_of_laws {add mul : α → α → α} {zero one : α}
    (h : SemiringLaws add mul zero one) (items : List α) :
    semiring items add mul zero one = .ok () := by
  rw [semiring_ok_iff_law]
  refine ⟨⟨?_, ?_, ?_⟩, ⟨?_, ?_⟩, ?_, ?_, ?_⟩
  · intro a _ b _ c _; exact (h.add_assoc a b c).symm
  · intro a _; exact ⟨(h.add_zero a).2, (h.add_zero a).1⟩
  · intro a _ b _; exact h.add_comm a b
  · intro a _ b _ c _; exact (h.mul_assoc a b c).symm
  · intro a _; exact ⟨(h.mul_one a).2, (h.mul_one a).1⟩
  · intro a _; exact h.mul_zero a
  · intro a _ b _ c _; exact h.left_distrib a b c
  · intro a _ b _ c _; exact h.right_distrib a b c

/-- `BinaryTrust` = ({false,true}, ∨, ∧, false, true) is a semiring -/
theorem binaryTrust_semiring_laws :
    SemiringLaws BinaryTrust.add BinaryTrust.mul BinaryTrust.zero BinaryTrust.one := by
  constructor <;> decide

/-- the semiring laws for operations that may panic (`none`), on a carrier `P`: a law is claimed
whenever both of its sides are computed without panic -/
structure GuardedSemiringLaws {S : Type} (P : S → Prop) (add mul : S → S → Option S) (zero one : S) :
    Prop where
  closed_add : ∀ a b s, P a → P b → add a b = some s → P s
  closed_mul : ∀ a b s, P a → P b → mul a b = some s → P s
  add_assoc : ∀ a b c u v, (add a b).bind (add · c) = some u → (add b c).bind (add a ·) = some v → u = v
  add_comm : ∀ a b, add a b = add b a
  add_zero : ∀ a, P a → add a zero = some a ∧ add zero a = some a
  mul_assoc : ∀ a b c u v, (mul a b).bind (mul · c) = some u → (mul b c).bind (mul a ·) = some v → u = v
  mul_one : ∀ a, P a → mul a one = some a ∧ mul one a = some a
  mul_zero : ∀ a, P a → mul a zero = some zero ∧ mul zero a = some zero
  left_distrib : ∀ a b c u v, (add b c).bind (mul a ·) = some u →
    ((mul a b).bind fun x => (mul a c).bind fun y => add x y) = some v → u = v
  right_distrib : ∀ a b c u v, (add b c).bind (mul · a) = some u →
    ((mul b a).bind fun x => (mul c a).bind fun y => add x y) = some v → u = v

theorem aux_checkedAdd_bind (a b : Nat) (k : Nat → Option Nat) (u : Nat) :
    (checkedAdd a b).bind k = some u ↔ a + b ≤ U32_MAX ∧ k (a + b) = some u := by
  unfold checkedAdd; split <;> simp [*]

theorem aux_checkedMul_bind (a b : Nat) (k : Nat → Option Nat) (u : Nat) :
    (checkedMul a b).bind k = some u ↔ a * b ≤ U32_MAX ∧ k (a * b) = some u := by
  unfold checkedMul; split <;> simp [*]

theorem aux_checkedAdd_some (a b s : Nat) : checkedAdd a b = some s ↔ a + b ≤ U32_MAX ∧ s = a + b := by
  unfold checkedAdd; split <;> simp [*, eq_comm]

theorem aux_checkedMul_some (a b s : Nat) : checkedMul a b = some s ↔ a * b ≤ U32_MAX ∧ s = a * b := by
  unfold checkedMul; split <;> simp [*, eq_comm]

/-- `Multiplicity`: `checked_add`/`checked_mul` are (ℕ, +, *) restricted to `u32`; whenever nothing
panics (no overflow) every semiring law holds -/
theorem multiplicity_guarded_semiring_laws :
    GuardedSemiringLaws (· ≤ U32_MAX) Multiplicity.add Multiplicity.mul Multiplicity.zero
      Multiplicity.one := by
  constructor
  · intro a b s _ _ h; simp only [Multiplicity.add, aux_checkedAdd_some] at h; omega
  · intro a b s _ _ h; simp only [Multiplicity.mul, aux_checkedMul_some] at h; omega
  · intro a b c u v hu hv
    simp only [Multiplicity.add, aux_checkedAdd_bind, aux_checkedAdd_some] at hu hv; omega
  · intro a b; simp [Multiplicity.add, checkedAdd, Nat.add_comm]
  · intro a ha; simp [Multiplicity.add, Multiplicity.zero, aux_checkedAdd_some]; exact ha
  · intro a b c u v hu hv
    simp only [Multiplicity.mul, aux_checkedMul_bind, aux_checkedMul_some] at hu hv
    rw [hu.2.2, hv.2.2, Nat.mul_assoc]
  · intro a ha; simp [Multiplicity.mul, Multiplicity.one, aux_checkedMul_some]; exact ha
  · intro a _; simp [Multiplicity.mul, Multiplicity.zero, aux_checkedMul_some, U32_MAX]
  · intro a b c u v hu hv
    simp only [Multiplicity.mul, Multiplicity.add, aux_checkedMul_bind, aux_checkedAdd_bind,
      aux_checkedMul_some, aux_checkedAdd_some] at hu hv
    obtain ⟨_, _, rfl⟩ := hu
    obtain ⟨_, _, _, rfl⟩ := hv
    exact Nat.mul_add a b c
  · intro a b c u v hu hv
    simp only [Multiplicity.mul, Multiplicity.add, aux_checkedMul_bind, aux_checkedAdd_bind,
      aux_checkedMul_some, aux_checkedAdd_some] at hu hv
    obtain ⟨_, _, rfl⟩ := hu
    obtain ⟨_, _, _, rfl⟩ := hv
    exact Nat.add_mul b c a

/-- `Multiplicity`: a result that is returned fits in `u32`, whatever the operands -/
theorem multiplicity_results_in_range (a b s : Nat) :
    (Multiplicity.add a b = some s → s ≤ U32_MAX) ∧ (Multiplicity.mul a b = some s → s ≤ U32_MAX) := by
  constructor
  · intro h; simp only [Multiplicity.add, aux_checkedAdd_some] at h; omega
  · intro h; simp only [Multiplicity.mul, aux_checkedMul_some] at h; omega

/-- for `Multiplicity::add` the two bracketings even panic on exactly the same inputs -/
theorem multiplicity_add_assoc_exact (a b c : Nat) :
    (Multiplicity.add a b).bind (Multiplicity.add · c)
      = (Multiplicity.add b c).bind (Multiplicity.add a ·) := by
  simp only [Multiplicity.add, checkedAdd]
  by_cases h1 : a + b ≤ U32_MAX <;> by_cases h2 : b + c ≤ U32_MAX <;>
    by_cases h3 : a + b + c ≤ U32_MAX <;>
    simp [h1, h2, h3, Nat.add_assoc] <;> omega

/-- `Cost` over unbounded naturals, (ℕ ∪ {∞}, min, +, ∞, 0), is a semiring -/
theorem cost_semiring_laws_unbounded :
    SemiringLaws Cost.add Cost.mulNat Cost.zero Cost.one := by
  constructor
  · intro a b c; rcases a with _ | a <;> rcases b with _ | b <;> rcases c with _ | c <;>
      simp [Cost.add, Nat.min_assoc]
  · intro a b; rcases a with _ | a <;> rcases b with _ | b <;> simp [Cost.add, Nat.min_comm]
  · intro a; rcases a with _ | a <;> simp [Cost.add, Cost.zero]
  · intro a b c; rcases a with _ | a <;> rcases b with _ | b <;> rcases c with _ | c <;>
      simp [Cost.mulNat, Nat.add_assoc]
  · intro a; rcases a with _ | a <;> simp [Cost.mulNat, Cost.one]
  · intro a; rcases a with _ | a <;> simp [Cost.mulNat, Cost.zero]
  · intro a b c; rcases a with _ | a <;> rcases b with _ | b <;> rcases c with _ | c <;>
      simp [Cost.add, Cost.mulNat, Nat.add_min_add_left]
  · intro a b c; rcases a with _ | a <;> rcases b with _ | b <;> rcases c with _ | c <;>
      simp [Cost.add, Cost.mulNat, Nat.add_min_add_right]

/-- `Cost::mul` (`checked_add(..).unwrap()`) either panics or is the unbounded operation -/
theorem cost_mul_eq (a b r : Cost.V) (h : Cost.mul a b = some r) : r = Cost.mulNat a b := by
  rcases a with _ | a <;> rcases b with _ | b <;> simp_all [Cost.mul, Cost.mulNat]
  unfold checkedAdd at h; split at h <;> simp_all

/-- `Cost::mul` panics exactly when both operands are finite and their sum does not fit in `u32` -/
theorem cost_mul_panics_iff (a b : Cost.V) :
    Cost.mul a b = none ↔ ∃ x y, a = some x ∧ b = some y ∧ U32_MAX < x + y := by
  rcases a with _ | a <;> rcases b with _ | b <;> simp [Cost.mul]
  by_cases h : a + b ≤ U32_MAX
  · simp [checkedAdd, h]
  · simp [checkedAdd, h]; omega

/-- the values `U32WithInfinity` can hold -/
def Cost.InRange (v : Cost.V) : Prop := ∀ n, v = some n → n ≤ U32_MAX

theorem cost_add_inRange (a b : Cost.V) (ha : Cost.InRange a) (hb : Cost.InRange b) :
    Cost.InRange (Cost.add a b) := by
  rcases a with _ | a <;> rcases b with _ | b <;> simp_all [Cost.add, Cost.InRange]
  try omega

theorem cost_mul_inRange (a b r : Cost.V) (h : Cost.mul a b = some r) : Cost.InRange r := by
  rcases a with _ | a <;> rcases b with _ | b <;> simp_all [Cost.mul, Cost.InRange]
  all_goals try (subst h; simp)
  unfold checkedAdd at h; split at h <;> simp_all
  intro n hn; subst h; simp at hn; omega

theorem aux_cost_mul_some (a b : Cost.V) (r : Cost.V) :
    Cost.mul a b = some r ↔ r = Cost.mulNat a b ∧ Cost.mul a b ≠ none := by
  constructor
  · intro h; exact ⟨cost_mul_eq a b r h, by simp [h]⟩
  · rintro ⟨h1, h2⟩
    cases h : Cost.mul a b with
    | none => exact absurd h h2
    | some r' => rw [h1, cost_mul_eq a b r' h]

theorem aux_cost_mul_bind (a b : Cost.V) (k : Cost.V → Option Cost.V) (u : Cost.V) :
    (Cost.mul a b).bind k = some u → k (Cost.mulNat a b) = some u := by
  cases h : Cost.mul a b with
  | none => simp
  | some r => rw [cost_mul_eq a b r h]; simp

/-- the shipped `Cost` (after the F91 fix): (u32 ∪ {∞}, min, checked +, ∞, 0) satisfies every semiring law
whenever neither side of the law panics -/
theorem cost_guarded_semiring_laws :
    GuardedSemiringLaws Cost.InRange (fun a b => some (Cost.add a b)) Cost.mul Cost.zero Cost.one := by
  have L := cost_semiring_laws_unbounded
  constructor
  · intro a b s ha hb h; simp at h; subst h; exact cost_add_inRange a b ha hb
  · intro a b s _ _ h; exact cost_mul_inRange a b s h
  · intro a b c u v hu hv; simp at hu hv; rw [← hu, ← hv]; exact L.add_assoc a b c
  · intro a b; simp [L.add_comm a b]
  · intro a _; simp [(L.add_zero a).1, (L.add_zero a).2]
  · intro a b c u v hu hv
    have hu := aux_cost_mul_bind _ _ _ _ hu
    have hv := aux_cost_mul_bind _ _ _ _ hv
    rw [cost_mul_eq _ _ _ hu, cost_mul_eq _ _ _ hv]; exact L.mul_assoc a b c
  · intro a ha; rcases a with _ | a <;> simp [Cost.mul, Cost.one, checkedAdd]
    have := ha a rfl
    simp [this]
  · intro a _; rcases a with _ | a <;> simp [Cost.mul, Cost.zero]
  · intro a b c u v hu hv
    simp at hu
    have hv := aux_cost_mul_bind _ _ _ _ hv
    have hv := aux_cost_mul_bind _ _ _ _ hv
    simp at hv
    rw [cost_mul_eq _ _ _ hu, ← hv]; exact L.left_distrib a b c
  · intro a b c u v hu hv
    simp at hu
    have hv := aux_cost_mul_bind _ _ _ _ hv
    have hv := aux_cost_mul_bind _ _ _ _ hv
    simp at hv
    rw [cost_mul_eq _ _ _ hu, ← hv]; exact L.right_distrib a b c

/-- F91 (fixed in /repo): BEFORE the fix `Cost::mul` was a bare `a + b`, which wraps in the release build the
checks run; that `Cost` is not distributive: `1 ⊗ (MAX ⊕ 0) = 1` but `(1 ⊗ MAX) ⊕ (1 ⊗ 0) = min 0 1 = 0` -/
theorem cost_distrib_refuted_before_fix :
    Cost.mulWrappingBeforeFix (some 1) (Cost.add (some 4294967295) (some 0))
      ≠ Cost.add (Cost.mulWrappingBeforeFix (some 1) (some 4294967295))
          (Cost.mulWrappingBeforeFix (some 1) (some 0)) := by
  decide

/-- the same witness stated on 32-bit vectors -/
theorem cost_distrib_refuted_before_fix_bitvec :
    (1#32 + (if (4294967295#32) ≤ 0#32 then 4294967295#32 else 0#32))
      ≠ (if (1#32 + 4294967295#32) ≤ (1#32 + 0#32) then 1#32 + 4294967295#32 else 1#32 + 0#32) := by
  decide

/-- … and the old release `Cost::mul` gave a wrong value, not just a different bracketing -/
theorem cost_mul_value_refuted_before_fix :
    Cost.mulWrappingBeforeFix (some 4294967295) (some 1) ≠ Cost.mulNat (some 4294967295) (some 1) := by
  decide

/-! ## Exactness of the `Err` answers: a checker that does not return `Ok` returns its own message
(composites: the message of one of their component checks) -/

theorem associativity_err_msg (items : List α) (f : α → α → α) (e : String)
    (h : associativity items f = .error e) : e = "Associativity check failed." := by
  obtain ⟨a, _, b, _, c, _, h⟩ := aux_forCP3_error _ _ _ h
  exact aux_failIf_error _ _ _ h

theorem commutativity_err_msg (items : List α) (f : α → α → α) (e : String)
    (h : commutativity items f = .error e) : e = "Commutativity check failed." := by
  obtain ⟨a, _, b, _, h⟩ := aux_forCP2_error _ _ _ h
  exact aux_failIf_error _ _ _ h

theorem idempotency_err_msg (items : List α) (f : α → α → α) (e : String)
    (h : idempotency items f = .error e) : e = "Idempotency check failed." := by
  obtain ⟨a, _, h⟩ := aux_forEach_error _ _ _ h
  exact aux_failIf_error _ _ _ h

/-- `identity` says which side failed first: `Left` iff some `a` (the first offending one) has `f e a ≠ a` -/
theorem identity_err_msg (items : List α) (f : α → α → α) (e : α) (m : String)
    (h : identity items f e = .error m) :
    (m = "Left Identity check failed." ∧ ∃ a ∈ items, f e a ≠ a) ∨
      (m = "Right Identity check failed." ∧ ∃ a ∈ items, f a e ≠ a) := by
  obtain ⟨a, ha, h⟩ := aux_forEach_error _ _ _ h
  rcases aux_andThen_error _ _ _ h with h | h
  · left
    refine ⟨aux_failIf_error _ _ _ h, a, ha, ?_⟩
    intro hc; simp [failIf, hc] at h
  · right
    refine ⟨aux_failIf_error _ _ _ h, a, ha, ?_⟩
    intro hc; simp [failIf, hc] at h

theorem inverse_err_msg (items : List α) (f : α → α → α) (e : α) (b : α → α) (m : String)
    (h : inverse items f e b = .error m) : m = "Inverse check failed." := by
  obtain ⟨a, _, h⟩ := aux_forEach_error _ _ _ h
  rcases aux_andThen_error _ _ _ h with h | h <;> exact aux_failIf_error _ _ _ h

theorem nonzeroInverse_err_msg (items : List α) (f : α → α → α) (e zero : α) (b : α → α) (m : String)
    (h : nonzeroInverse items f e zero b = .error m) : m = "Nonzero inverse check failed." := by
  obtain ⟨a, _, h⟩ := aux_forEach_error _ _ _ h
  split at h
  · rcases aux_andThen_error _ _ _ h with h | h <;> exact aux_failIf_error _ _ _ h
  · simp at h

theorem absorbingElement_err_msg (items : List α) (f : α → α → α) (z : α) (m : String)
    (h : absorbingElement items f z = .error m) : m = "Absorbing element property check failed." := by
  obtain ⟨a, _, h⟩ := aux_forEach_error _ _ _ h
  rcases aux_andThen_error _ _ _ h with h | h <;> exact aux_failIf_error _ _ _ h

theorem leftDistributes_err_msg (items : List α) (f g : α → α → α) (m : String)
    (h : leftDistributes items f g = .error m) : m = "Left distributive property check failed." := by
  obtain ⟨a, _, b, _, c, _, h⟩ := aux_forCP3_error _ _ _ h
  exact aux_failIf_error _ _ _ h

theorem rightDistributes_err_msg (items : List α) (f g : α → α → α) (m : String)
    (h : rightDistributes items f g = .error m) : m = "Right distributive property check failed." := by
  obtain ⟨a, _, b, _, c, _, h⟩ := aux_forCP3_error _ _ _ h
  exact aux_failIf_error _ _ _ h

theorem noNonzeroZeroDivisors_err_msg (items : List α) (f : α → α → α) (zero : α) (m : String)
    (h : noNonzeroZeroDivisors items f zero = .error m) : m = "No nonzero zero divisors check failed." := by
  obtain ⟨a, _, h⟩ := aux_forEach_error _ _ _ h
  obtain ⟨b, _, h⟩ := aux_forEach_error _ _ _ h
  split at h
  · rcases aux_andThen_error _ _ _ h with h | h <;> exact aux_failIf_error _ _ _ h
  · simp at h

theorem linearity_err_msg (items : List α) (f : α → α → α) (g : β → β → β) (q : α → β) (m : String)
    (h : linearity items f g q = .error m) : m = "Linearity check failed." := by
  obtain ⟨a, _, b, _, h⟩ := aux_forCP2_error _ _ _ h
  exact aux_failIf_error _ _ _ h

theorem bilinearity_err_msg (itemsF : List α) (itemsH : List γ) (f : α → α → α) (h : γ → γ → γ)
    (g : β → β → β) (q : α → γ → β) (m : String)
    (hm : bilinearity itemsF itemsH f h g q = .error m) : m = "Bilinearity check failed." := by
  obtain ⟨a, _, b, _, hm⟩ := aux_forCP2_error _ _ _ hm
  obtain ⟨c, _, d, _, hm⟩ := aux_forCP2_error _ _ _ hm
  exact aux_failIf_error _ _ _ hm

/-- the composite `semiring` fails with the message of the first failing component, in the order
associativity(f), identity(f), commutativity(f), associativity(g), identity(g), absorbing, left, right -/
theorem semiring_first_failure (items : List α) (f g : α → α → α) (zero one : α) :
    semiring items f g zero one =
      andThen (associativity items f) (andThen (identity items f zero) (andThen (commutativity items f)
        (andThen (associativity items g) (andThen (identity items g one)
          (andThen (absorbingElement items g zero)
            (andThen (leftDistributes items f g) (rightDistributes items f g))))))) := by
  simp only [semiring, commutativeMonoid, monoid, semigroup, distributive]
  cases associativity items f <;> cases identity items f zero <;> cases commutativity items f <;>
    cases associativity items g <;> cases identity items g one <;>
    cases absorbingElement items g zero <;> cases leftDistributes items f g <;>
    cases rightDistributes items f g <;> rfl

/-- on a sample that covers the whole carrier, `semiring` returns `Ok` exactly for semirings -/
theorem semiring_ok_iff_semiringLaws_of_complete (items : List α) (hc : ∀ x : α, x ∈ items)
    (add mul : α → α → α) (zero one : α) :
    semiring items add mul zero one = .ok () ↔ SemiringLaws add mul zero one := by
  constructor
  · rw [semiring_ok_iff_law]
    rintro ⟨⟨h1, h2, h3⟩, ⟨h4, h5⟩, h6, h7, h8⟩
    exact {
      add_assoc := fun a b c => (h1 a (hc a) b (hc b) c (hc c)).symm
      add_comm := fun a b => h3 a (hc a) b (hc b)
      add_zero := fun a => ⟨(h2 a (hc a)).2, (h2 a (hc a)).1⟩
      mul_assoc := fun a b c => (h4 a (hc a) b (hc b) c (hc c)).symm
      mul_one := fun a => ⟨(h5 a (hc a)).2, (h5 a (hc a)).1⟩
      mul_zero := fun a => h6 a (hc a)
      left_distrib := fun a b c => h7 a (hc a) b (hc b) c (hc c)
      right_distrib := fun a b c => h8 a (hc a) b (hc b) c (hc c) }
  · exact fun h => semiring_ok_of_laws h items

/-! ## Intended semantics of the two `f64` applications (exact arithmetic — NOT a statement about `f64`)

`ConfidenceScore` = ([0,1], max, ·, 0, 1) and `FuzzyLogic` = ([0,1], max, min, 0, 1) are semirings when the
operations are the exact ones of a linearly ordered commutative ring.  Floating point is not modelled:
for the real `f64` code the laws are evaluated by the harness, and multiplication is in fact not
associative there (finding F3). -/

/-- the semiring laws on the part `P` of the carrier (closed under the operations) -/
structure SemiringLawsOn {S : Type} (P : S → Prop) (add mul : S → S → S) (zero one : S) : Prop where
  zero_mem : P zero
  one_mem : P one
  add_mem : ∀ a b, P a → P b → P (add a b)
  mul_mem : ∀ a b, P a → P b → P (mul a b)
  add_assoc : ∀ a b c, P a → P b → P c → add (add a b) c = add a (add b c)
  add_comm : ∀ a b, P a → P b → add a b = add b a
  add_zero : ∀ a, P a → add a zero = a ∧ add zero a = a
  mul_assoc : ∀ a b c, P a → P b → P c → mul (mul a b) c = mul a (mul b c)
  mul_one : ∀ a, P a → mul a one = a ∧ mul one a = a
  mul_zero : ∀ a, P a → mul a zero = zero ∧ mul zero a = zero
  left_distrib : ∀ a b c, P a → P b → P c → mul a (add b c) = add (mul a b) (mul a c)
  right_distrib : ∀ a b c, P a → P b → P c → mul (add b c) a = add (mul b a) (mul c a)

/-- the `semiring` checker accepts every sample drawn from `P` -/
theorem semiring_ok_of_lawsOn {P : α → Prop} {add mul : α → α → α} {zero one : α}
    (h : SemiringLawsOn P add mul zero one) (items : List α) (hP : ∀ x ∈ items, P x) :
    semiring items add mul zero one = .ok () := by
  rw [semiring_ok_iff_law]
  refine ⟨⟨?_, ?_, ?_⟩, ⟨?_, ?_⟩, ?_, ?_, ?_⟩
  · intro a ha b hb c hc; exact (h.add_assoc a b c (hP a ha) (hP b hb) (hP c hc)).symm
  · intro a ha; exact ⟨(h.add_zero a (hP a ha)).2, (h.add_zero a (hP a ha)).1⟩
  · intro a ha b hb; exact h.add_comm a b (hP a ha) (hP b hb)
  · intro a ha b hb c hc; exact (h.mul_assoc a b c (hP a ha) (hP b hb) (hP c hc)).symm
  · intro a ha; exact ⟨(h.mul_one a (hP a ha)).2, (h.mul_one a (hP a ha)).1⟩
  · intro a ha; exact h.mul_zero a (hP a ha)
  · intro a ha b hb c hc; exact h.left_distrib a b c (hP a ha) (hP b hb) (hP c hc)
  · intro a ha b hb c hc; exact h.right_distrib a b c (hP a ha) (hP b hb) (hP c hc)

section intended
variable {K : Type} [CommRing K] [LinearOrder K] [IsStrictOrderedRing K]

/-- the unit interval `0.0..=1.0` enforced by `ConfidenceScore::new` / `FuzzyLogic::new` -/
def UnitInterval (x : K) : Prop := 0 ≤ x ∧ x ≤ 1

theorem confidenceScore_semiring_exact_arithmetic :
    SemiringLawsOn (UnitInterval (K := K)) max (· * ·) 0 1 where
  zero_mem := ⟨le_refl _, zero_le_one⟩
  one_mem := ⟨zero_le_one, le_refl _⟩
  add_mem := fun a b ha hb => ⟨le_trans ha.1 (le_max_left a b), max_le ha.2 hb.2⟩
  mul_mem := fun a b ha hb => ⟨mul_nonneg ha.1 hb.1, mul_le_one₀ ha.2 hb.1 hb.2⟩
  add_assoc := fun a b c _ _ _ => max_assoc a b c
  add_comm := fun a b _ _ => max_comm a b
  add_zero := fun a ha => ⟨max_eq_left ha.1, max_eq_right ha.1⟩
  mul_assoc := fun a b c _ _ _ => _root_.mul_assoc a b c
  mul_one := fun a _ => ⟨_root_.mul_one a, _root_.one_mul a⟩
  mul_zero := fun a _ => ⟨MulZeroClass.mul_zero a, MulZeroClass.zero_mul a⟩
  left_distrib := fun a b c ha _ _ => mul_max_of_nonneg b c ha.1
  right_distrib := fun a b c ha _ _ => max_mul_of_nonneg b c ha.1

theorem fuzzyLogic_semiring_exact_arithmetic :
    SemiringLawsOn (UnitInterval (K := K)) max min 0 1 where
  zero_mem := ⟨le_refl _, zero_le_one⟩
  one_mem := ⟨zero_le_one, le_refl _⟩
  add_mem := fun a b ha hb => ⟨le_trans ha.1 (le_max_left a b), max_le ha.2 hb.2⟩
  mul_mem := fun a b ha hb => ⟨le_min ha.1 hb.1, le_trans (min_le_left a b) ha.2⟩
  add_assoc := fun a b c _ _ _ => max_assoc a b c
  add_comm := fun a b _ _ => max_comm a b
  add_zero := fun a ha => ⟨max_eq_left ha.1, max_eq_right ha.1⟩
  mul_assoc := fun a b c _ _ _ => min_assoc a b c
  mul_one := fun a ha => ⟨min_eq_left ha.2, min_eq_right ha.2⟩
  mul_zero := fun a ha => ⟨min_eq_right ha.1, min_eq_left ha.1⟩
  left_distrib := fun a b c _ _ _ => min_max_distrib_left a b c
  right_distrib := fun a b c _ _ _ => min_max_distrib_right b c a

end intended

/-! ## Non-vacuity: concrete instances -/

example : CP.collect (fuelFor 2 [0, 1]) (CP.init 2 [0, 1]) = some [[0, 0], [1, 0], [0, 1], [1, 1]] := by rfl
example : CP.collect (fuelFor 3 [7]) (CP.init 3 [7]) = some [[7, 7, 7]] := by rfl
example : CP.collect (fuelFor 0 ([] : List Nat)) (CP.init 0 ([] : List Nat)) = some [] := by rfl
example : allTuples 2 [0, 1, 1] = [[0, 0], [1, 0], [1, 0], [0, 1], [1, 1], [1, 1], [0, 1], [1, 1], [1, 1]] := by rfl
example : associativity [0, 1, 2] Nat.max = .ok () := by rfl
example : associativity [0, 1, 2] Nat.sub = .error "Associativity check failed." := by rfl
example : Assoc [0, 1, 2] Nat.max := (associativity_ok_iff_law _ _).mp rfl
example : identity [0, 1, 2] Nat.max 1 = .error "Left Identity check failed." := by rfl
example : identity [1, 2] (fun _ b => b) 1 = .error "Right Identity check failed." := by rfl
/-- GF(2): (xor, and, false, true) passes `field` -/
example : field [false, true] xor and false true id (fun _ => true) = .ok () := by rfl
/-- Z/3: a group, not with the wrong inverse -/
example : abelianGroup [0, 1, 2] (fun a b => (a + b) % 3) 0 (fun a => (3 - a) % 3) = .ok () := by rfl
example : group [0, 1, 2] (fun a b => (a + b) % 3) 0 id = .error "Inverse check failed." := by rfl
/-- Z/4 is a commutative ring but not an integral domain (2*2 = 0) -/
example : commutativeRing [0, 1, 2, 3] (fun a b => (a + b) % 4) (fun a b => (a * b) % 4) 0 1
    (fun a => (4 - a) % 4) = .ok () := by rfl
example : integralDomain [0, 1, 2, 3] (fun a b => (a + b) % 4) (fun a b => (a * b) % 4) 0 1
    (fun a => (4 - a) % 4) = .error "No nonzero zero divisors check failed." := by rfl
example : bilinearity [0, 1, 2] [0, 1, 2] (fun a b => (a + b) % 3) (fun a b => (a + b) % 3)
    (fun a b => (a + b) % 3) (fun a b => (a * b) % 3) = .ok () := by rfl
example : getSingleFunctionProperties [0, 1, 2] (fun a _ => a) 0 id 0 = ["associativity", "idempotency"] := by rfl
example : semiring [false, true] BinaryTrust.add BinaryTrust.mul BinaryTrust.zero BinaryTrust.one = .ok () :=
  semiring_ok_of_laws binaryTrust_semiring_laws _
example : semiring [none, some 0, some 5, some 4294967295] Cost.add Cost.mulNat Cost.zero Cost.one = .ok () :=
  semiring_ok_of_laws cost_semiring_laws_unbounded _
example : Multiplicity.add 4294967295 1 = none := by rfl
example : Multiplicity.mul 65536 65535 = some 4294901760 := by rfl
example : Cost.mul (some 1) (some 4294967295) = none := by rfl
example : Cost.mul (some 1) (some 4294967294) = some (some 4294967295) := by rfl
example : Cost.mul none (some 4294967295) = some none := by rfl
example : Cost.mulWrappingBeforeFix (some 1) (some 4294967295) = some 0 := by rfl
/-- a law instance of `cost_guarded_semiring_laws` whose two sides are both computed (no panic) -/
example : (some (Cost.add (some 5) (some 7))).bind (Cost.mul (some 3) ·) = some (some 8)
    ∧ ((Cost.mul (some 3) (some 5)).bind fun x => (Cost.mul (some 3) (some 7)).bind fun y => some (Cost.add x y))
      = some (some 8) := by
  constructor <;> rfl
example : Cost.InRange (some 4294967295) ∧ ¬ Cost.InRange (some 4294967296) := by
  constructor
  · intro n h; cases h; decide
  · intro h; exact absurd (h _ rfl) (by decide)

end laws

end HvAlg
