/-
`hvdrv_alg`: line-protocol driver for the C09 model.  One output line per input line.

  #case <n> dom=<d> …            reset; carrier is {0..d-1}; echoes the line
  tab <name> r0;r1;…             binary table (d rows of d comma-separated entries < d)   -> ok
  un <name> e0,e1,…              unary table (d entries < d)                              -> ok
  items <name> x0,x1,… | -       list of carrier elements, length ≤ 5                     -> ok
  chk <checker> <args>           run the model of that checker                            -> ok | err:<message>
  props <items> f e b z          get_single_function_properties                           -> p1,p2,… | -
  cp <N> <items>                 all tuples yielded by cartesian_power::<_, N>            -> t;t;… | -
  cplen <N> <items>              `len()` before every `next()` and at the end             -> n,n,…
  sr <app> <op> <a> [<b>] [ovf]  one semiring-application operation                       -> value | panic
  srlaw <app> <a> <b> <c> [ovf]  the eight semiring laws on the triple, one letter each: T/F/P(anic)
Anything else -> bad-op.
-/
import HvAlg.Model.Algebra
import HvAlg.Gen.Composites
import HvAlg.Model.Semiring
open HvAlg

def maxItems : Nat := 5

structure St where
  dom : Nat
  bins : List (String × List (List Nat))
  uns : List (String × List Nat)
  lists : List (String × List Nat)

def St.empty (d : Nat) : St := ⟨d, [], [], []⟩

def parseNums (s : String) : Option (List Nat) :=
  if s == "-" then some [] else (s.splitOn ",").mapM (fun p => p.toNat?)

def parseDom (ws : List String) : Nat :=
  match ws.filterMap (fun w => if w.startsWith "dom=" then (w.drop 4).toNat? else none) with
  | k :: _ => k
  | [] => 2

def binFn (t : List (List Nat)) (a b : Nat) : Nat := (t.getD a []).getD b 0
def unFn (t : List Nat) (a : Nat) : Nat := t.getD a 0

def showNums (l : List Nat) : String := ",".intercalate (l.map toString)

def showRes : Res → String
  | .ok () => "ok"
  | .error e => "err:" ++ e

def St.bin (st : St) (n : String) : Option (Nat → Nat → Nat) := (st.bins.lookup n).map binFn
def St.un (st : St) (n : String) : Option (Nat → Nat) := (st.uns.lookup n).map unFn
def St.list (st : St) (n : String) : Option (List Nat) := st.lists.lookup n
def St.const (st : St) (s : String) : Option Nat :=
  match s.toNat? with
  | some k => if k < st.dom then some k else none
  | none => none

def setKey {β : Type} (l : List (String × β)) (k : String) (v : β) : List (String × β) :=
  (k, v) :: l.filter (fun p => p.1 != k)

def runChk (st : St) (args : List String) : Option Res :=
  match args with
  | ["associativity", i, f] => do some (associativity (← st.list i) (← st.bin f))
  | ["commutativity", i, f] => do some (commutativity (← st.list i) (← st.bin f))
  | ["idempotency", i, f] => do some (idempotency (← st.list i) (← st.bin f))
  | ["semigroup", i, f] => do some (semigroup (← st.list i) (← st.bin f))
  | ["identity", i, f, e] => do some (identity (← st.list i) (← st.bin f) (← st.const e))
  | ["absorbing_element", i, f, z] => do some (absorbingElement (← st.list i) (← st.bin f) (← st.const z))
  | ["monoid", i, f, e] => do some (monoid (← st.list i) (← st.bin f) (← st.const e))
  | ["commutative_monoid", i, f, e] => do some (commutativeMonoid (← st.list i) (← st.bin f) (← st.const e))
  | ["no_nonzero_zero_divisors", i, f, z] =>
      do some (noNonzeroZeroDivisors (← st.list i) (← st.bin f) (← st.const z))
  | ["inverse", i, f, e, b] => do some (inverse (← st.list i) (← st.bin f) (← st.const e) (← st.un b))
  | ["group", i, f, e, b] => do some (group (← st.list i) (← st.bin f) (← st.const e) (← st.un b))
  | ["abelian_group", i, f, e, b] =>
      do some (abelianGroup (← st.list i) (← st.bin f) (← st.const e) (← st.un b))
  | ["nonzero_inverse", i, f, e, z, b] =>
      do some (nonzeroInverse (← st.list i) (← st.bin f) (← st.const e) (← st.const z) (← st.un b))
  | ["left_distributes", i, f, g] => do some (leftDistributes (← st.list i) (← st.bin f) (← st.bin g))
  | ["right_distributes", i, f, g] => do some (rightDistributes (← st.list i) (← st.bin f) (← st.bin g))
  | ["distributive", i, f, g] => do some (distributive (← st.list i) (← st.bin f) (← st.bin g))
  | ["semiring", i, f, g, z, o] =>
      do some (semiring (← st.list i) (← st.bin f) (← st.bin g) (← st.const z) (← st.const o))
  | ["ring", i, f, g, z, o, b] =>
      do some (ring (← st.list i) (← st.bin f) (← st.bin g) (← st.const z) (← st.const o) (← st.un b))
  | ["commutative_ring", i, f, g, z, o, b] =>
      do some (commutativeRing (← st.list i) (← st.bin f) (← st.bin g) (← st.const z) (← st.const o) (← st.un b))
  | ["integral_domain", i, f, g, z, o, b] =>
      do some (integralDomain (← st.list i) (← st.bin f) (← st.bin g) (← st.const z) (← st.const o) (← st.un b))
  | ["field", i, f, g, z, o, b, c] =>
      do some (field (← st.list i) (← st.bin f) (← st.bin g) (← st.const z) (← st.const o) (← st.un b) (← st.un c))
  | ["linearity", i, f, g, q] =>
      do some (linearity (← st.list i) (← st.bin f) (← st.bin g) (← st.un q))
  | ["bilinearity", i, j, f, h, g, q] =>
      do some (bilinearity (← st.list i) (← st.list j) (← st.bin f) (← st.bin h) (← st.bin g) (← st.bin q))
  | _ => none

/-- tuples of `cartesian_power::<_, n>(items)` by running the state machine until `None` -/
def cpTuples (n : Nat) (items : List Nat) : Option (List (List Nat)) :=
  CP.collect (fuelFor n items) (CP.init n items)

/-- `len()` observed before each `next()` and once more after the iterator is exhausted -/
def cpLens : Nat → CP Nat → List Nat
  | 0, st => [st.sizeHint]
  | fuel + 1, st =>
    match st.next with
    | .yield _ st' => st.sizeHint :: cpLens fuel st'
    | _ => [st.sizeHint]

def showTuple (t : List Nat) : String := if t.isEmpty then "()" else showNums t

/-! semiring applications -/

def lawLetter {S : Type} (eq : S → S → Bool) (l r : Option S) : Char :=
  match l, r with
  | some x, some y => if eq x y then 'T' else 'F'
  | _, _ => 'P'

def both (a b : Char) : Char :=
  if a == 'P' || b == 'P' then 'P' else if a == 'T' && b == 'T' then 'T' else 'F'

/-- the eight laws in the fixed order
add-assoc add-comm add-zero mul-assoc mul-one mul-zero left-distrib right-distrib -/
def lawString {S : Type} (eq : S → S → Bool) (add mul : S → S → Option S) (zero one : S) (a b c : S) :
    String :=
  let L := lawLetter eq
  String.ofList [
    L ((add a b).bind (add · c)) ((add b c).bind (add a ·)),
    L (add a b) (add b a),
    both (L (add a zero) (some a)) (L (add zero a) (some a)),
    L ((mul a b).bind (mul · c)) ((mul b c).bind (mul a ·)),
    both (L (mul a one) (some a)) (L (mul one a) (some a)),
    both (L (mul a zero) (some zero)) (L (mul zero a) (some zero)),
    L ((add b c).bind (mul a ·)) ((mul a b).bind fun x => (mul a c).bind fun y => add x y),
    L ((add b c).bind (mul · a)) ((mul b a).bind fun x => (mul c a).bind fun y => add x y)]

def parseBool (s : String) : Option Bool := if s == "0" then some false else if s == "1" then some true else none
def showBool (b : Bool) : String := if b then "1" else "0"
def parseU32 (s : String) : Option Nat :=
  match s.toNat? with
  | some k => if k ≤ U32_MAX then some k else none
  | none => none
def parseCostV (s : String) : Option Cost.V :=
  if s == "inf" then some none else (parseU32 s).map some
def showCost : Cost.V → String
  | none => "inf"
  | some n => toString n
def parseF64 (s : String) : Option Float :=
  match s.toNat? with
  | some k => if k < 18446744073709551616 then some (Float.ofBits (UInt64.ofNat k)) else none
  | none => none
def showF64 (x : Float) : String := toString x.toBits.toNat
def f64Eq (a b : Float) : Bool := a == b

def showOpt {S : Type} (sh : S → String) : Option S → String
  | some x => sh x
  | none => "panic"

/-- f64 operands go through the constructor's range assertion first -/
def f64Op (op : Float → Float → Float) (a b : Float) : Option Float :=
  if F64.inUnit a && F64.inUnit b then some (op a b) else none

def runSr (args : List String) : Option String :=
  match args with
  | ["bt", "new"] => some (showBool BinaryTrust.new)
  | ["bt", "zero"] => some (showBool BinaryTrust.zero)
  | ["bt", "one"] => some (showBool BinaryTrust.one)
  | ["bt", "add", a, b] => do some (showBool (BinaryTrust.add (← parseBool a) (← parseBool b)))
  | ["bt", "mul", a, b] => do some (showBool (BinaryTrust.mul (← parseBool a) (← parseBool b)))
  | ["mu", "zero"] => some (toString Multiplicity.zero)
  | ["mu", "one"] => some (toString Multiplicity.one)
  | ["mu", "add", a, b] => do some (showOpt toString (Multiplicity.add (← parseU32 a) (← parseU32 b)))
  | ["mu", "mul", a, b] => do some (showOpt toString (Multiplicity.mul (← parseU32 a) (← parseU32 b)))
  | ["co", "zero"] => some (showCost Cost.zero)
  | ["co", "one"] => some (showCost Cost.one)
  | ["co", "add", a, b] => do some (showCost (Cost.add (← parseCostV a) (← parseCostV b)))
  | ["co", "mul", a, b] => do some (showOpt showCost (Cost.mul (← parseCostV a) (← parseCostV b)))
  | ["cs", "zero"] => some (showF64 ConfidenceScore.zero)
  | ["cs", "one"] => some (showF64 ConfidenceScore.one)
  | ["cs", "new", a] => do some (if F64.inUnit (← parseF64 a) then "ok" else "panic")
  | ["cs", "add", a, b] => do some (showOpt showF64 (f64Op ConfidenceScore.add (← parseF64 a) (← parseF64 b)))
  | ["cs", "mul", a, b] => do some (showOpt showF64 (f64Op ConfidenceScore.mul (← parseF64 a) (← parseF64 b)))
  | ["fz", "zero"] => some (showF64 FuzzyLogic.zero)
  | ["fz", "one"] => some (showF64 FuzzyLogic.one)
  | ["fz", "new", a] => do some (if F64.inUnit (← parseF64 a) then "ok" else "panic")
  | ["fz", "add", a, b] => do some (showOpt showF64 (f64Op FuzzyLogic.add (← parseF64 a) (← parseF64 b)))
  | ["fz", "mul", a, b] => do some (showOpt showF64 (f64Op FuzzyLogic.mul (← parseF64 a) (← parseF64 b)))
  | _ => none

def total {S : Type} (f : S → S → S) : S → S → Option S := fun a b => some (f a b)

def runSrLaw (args : List String) : Option String :=
  match args with
  | ["bt", a, b, c] => do
      some (lawString (· == ·) (total BinaryTrust.add) (total BinaryTrust.mul) BinaryTrust.zero BinaryTrust.one
        (← parseBool a) (← parseBool b) (← parseBool c))
  | ["mu", a, b, c] => do
      some (lawString (· == ·) Multiplicity.add Multiplicity.mul Multiplicity.zero Multiplicity.one
        (← parseU32 a) (← parseU32 b) (← parseU32 c))
  | ["co", a, b, c] => do
      some (lawString (· == ·) (total Cost.add) Cost.mul Cost.zero Cost.one
        (← parseCostV a) (← parseCostV b) (← parseCostV c))
  | ["cs", a, b, c] => do
      let (a, b, c) := (← parseF64 a, ← parseF64 b, ← parseF64 c)
      if !(F64.inUnit a && F64.inUnit b && F64.inUnit c) then some "panic" else
      some (lawString f64Eq (total ConfidenceScore.add) (total ConfidenceScore.mul)
        ConfidenceScore.zero ConfidenceScore.one a b c)
  | ["fz", a, b, c] => do
      let (a, b, c) := (← parseF64 a, ← parseF64 b, ← parseF64 c)
      if !(F64.inUnit a && F64.inUnit b && F64.inUnit c) then some "panic" else
      some (lawString f64Eq (total FuzzyLogic.add) (total FuzzyLogic.mul)
        FuzzyLogic.zero FuzzyLogic.one a b c)
  | _ => none

def okTable (d : Nat) (rows : List (List Nat)) : Bool :=
  rows.length == d && rows.all (fun r => r.length == d && r.all (· < d))

def step (st : St) (line : String) : St × String :=
  let l := line.trimAscii.toString
  match l.splitOn " " with
  | "#case" :: ws => (St.empty (parseDom ws), l)
  | ["tab", name, rows] =>
    match (rows.splitOn ";").mapM parseNums with
    | some t => if okTable st.dom t then ({ st with bins := setKey st.bins name t }, "ok") else (st, "bad-op")
    | none => (st, "bad-op")
  | ["un", name, es] =>
    match parseNums es with
    | some t =>
      if t.length == st.dom && t.all (· < st.dom) then ({ st with uns := setKey st.uns name t }, "ok")
      else (st, "bad-op")
    | none => (st, "bad-op")
  | ["items", name, es] =>
    match parseNums es with
    | some t =>
      if t.length ≤ maxItems && t.all (· < st.dom) then ({ st with lists := setKey st.lists name t }, "ok")
      else (st, "bad-op")
    | none => (st, "bad-op")
  | "chk" :: args =>
    match runChk st args with
    | some r => (st, showRes r)
    | none => (st, "bad-op")
  | ["props", i, f, e, b, z] =>
    match (do some (getSingleFunctionProperties (← st.list i) (← st.bin f) (← st.const e) (← st.un b) (← st.const z)) : Option (List String)) with
    | some ps => (st, if ps.isEmpty then "-" else ",".intercalate ps)
    | none => (st, "bad-op")
  | ["cp", n, i] =>
    match n.toNat?, st.list i with
    | some n, some items =>
      if n ≤ 4 then
        match cpTuples n items with
        | some ts => (st, if ts.isEmpty then "-" else ";".intercalate (ts.map showTuple))
        | none => (st, "panic")
      else (st, "bad-op")
    | _, _ => (st, "bad-op")
  | ["cplen", n, i] =>
    match n.toNat?, st.list i with
    | some n, some items =>
      if n ≤ 4 then (st, showNums (cpLens (fuelFor n items) (CP.init n items))) else (st, "bad-op")
    | _, _ => (st, "bad-op")
  | "sr" :: args =>
    match runSr args with
    | some r => (st, r)
    | none => (st, "bad-op")
  | "srlaw" :: args =>
    match runSrLaw args with
    | some r => (st, r)
    | none => (st, "bad-op")
  | _ => (st, "bad-op")

partial def loop (h : IO.FS.Stream) (out : IO.FS.Stream) (st : St) : IO Unit := do
  let line ← h.getLine
  if line.isEmpty then return ()
  let (st', o) := step st line
  out.putStrLn o
  loop h out st'

def main : IO Unit := do
  let stdin ← IO.getStdin
  let stdout ← IO.getStdout
  loop stdin stdout (St.empty 2)
