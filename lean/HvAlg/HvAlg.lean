import HvAlg.Model.Algebra
